(* C04 — proofs about the close protocol (Close.v): for every interleaving,
   once the swarm's close has run its critical section and nothing is in flight,
   every connection and every stream ever offered has been released. *)
From Coq Require Import List Arith Bool Lia.
From Verif Require Import c04.Close.
Import ListNotations.

(* ---- association-list facts ------------------------------------------------ *)
Lemma get_in i x l : get i l = Some x -> In (i, x) l.
Proof.
  induction l as [|[j y] l IH]; cbn [get]; [discriminate|].
  destruct (Nat.eqb_spec i j) as [->|N]; intros H.
  - injection H as ->. left. reflexivity.
  - right. apply IH, H.
Qed.

Lemma in_get i x l : NoDup (map fst l) -> In (i, x) l -> get i l = Some x.
Proof.
  induction l as [|[j y] l IH]; cbn [map fst get]; intros ND H; [destruct H|].
  inversion ND as [|? ? Hn ND']; subst.
  destruct H as [H|H].
  - injection H as -> ->. rewrite Nat.eqb_refl. reflexivity.
  - destruct (Nat.eqb_spec i j) as [->|N]; [|apply IH; assumption].
    exfalso. apply Hn. apply (in_map fst) in H. exact H.
Qed.

Lemma get_none_keys i l : get i l = None -> ~ In i (map fst l).
Proof.
  induction l as [|[j y] l IH]; cbn [get map fst]; intros H; [intros []|].
  destruct (Nat.eqb_spec i j) as [->|N]; [discriminate|].
  intros [E|E]; [apply N; symmetry; exact E|exact (IH H E)].
Qed.

Lemma set_keys i x l : map fst (set i x l) = map fst l.
Proof.
  induction l as [|[j y] l IH]; cbn [set map fst]; [reflexivity|].
  destruct (Nat.eqb i j); cbn [map fst]; [reflexivity|]. rewrite IH. reflexivity.
Qed.

Lemma get_set_same i x l : get i l <> None -> get i (set i x l) = Some x.
Proof.
  induction l as [|[j y] l IH]; cbn [get set]; [intros H; exfalso; apply H; reflexivity|].
  destruct (Nat.eqb_spec i j) as [->|N]; intros H; cbn [get].
  - rewrite Nat.eqb_refl. reflexivity.
  - destruct (Nat.eqb_spec i j); [contradiction|]. apply IH, H.
Qed.

Lemma get_set_other i j x l : j <> i -> get j (set i x l) = get j l.
Proof.
  intros N. induction l as [|[k y] l IH]; cbn [get set]; [reflexivity|].
  destruct (Nat.eqb_spec i k) as [->|N2]; cbn [get].
  - destruct (Nat.eqb_spec j k); [contradiction|reflexivity].
  - destruct (Nat.eqb j k); [reflexivity|exact IH].
Qed.

Lemma mem_in i l : mem i l = true <-> In i l.
Proof.
  unfold mem. rewrite existsb_exists. split.
  - intros (x & H & E). apply Nat.eqb_eq in E. subst. exact H.
  - intros H. exists i. split; [exact H|apply Nat.eqb_refl].
Qed.

Lemma in_remove_id i j l : In j (remove_id i l) <-> In j l /\ j <> i.
Proof.
  induction l as [|k l IH]; cbn [remove_id]; [tauto|].
  destruct (Nat.eqb_spec i k) as [->|N].
  - rewrite IH. cbn [In]. split; [tauto|]. intros [[E|H] Hn]; [congruence|tauto].
  - cbn [In]. rewrite IH. split; [intros [E|H]; [subst; split; [left; reflexivity|congruence]|tauto]|tauto].
Qed.

Lemma in_registered_ids j l : get j l = Some Registered -> In j (registered_ids l).
Proof.
  intros H. apply get_in in H. unfold registered_ids.
  apply in_map_iff. exists (j, Registered). split; [reflexivity|].
  apply filter_In. split; [exact H|reflexivity].
Qed.

(* ---- one registry ----------------------------------------------------------- *)
Definition rinv (r : reg) : Prop :=
  NoDup (map fst (items r)) /\
  (closed r = true -> forall j, get j (items r) = Some Registered -> In j (taken r)).

Lemma rinv0 : rinv reg0.
Proof. split; [constructor|]. intros _ j H. discriminate. Qed.

Lemma rinv_offer i r : rinv r -> rinv (r_offer i r).
Proof.
  intros Hr. unfold r_offer. destruct (get i (items r)) eqn:E; [exact Hr|]. destruct Hr as [ND H].
  split; cbn [items closed taken map fst].
  - constructor; [apply get_none_keys, E|exact ND].
  - intros Hc j. cbn [get]. destruct (Nat.eqb j i); [discriminate|apply H, Hc].
Qed.

Lemma rinv_set_nonreg i x r : x <> Registered -> rinv r ->
  rinv (mkReg (closed r) (taken r) (set i x (items r))).
Proof.
  intros Hx [ND H]. split; cbn [items closed taken].
  - rewrite set_keys. exact ND.
  - intros Hc j Hj. destruct (Nat.eq_dec j i) as [->|N].
    + destruct (get i (items r)) eqn:E.
      * rewrite get_set_same in Hj by congruence. congruence.
      * exfalso. apply get_in in Hj. apply (in_map fst) in Hj. rewrite set_keys in Hj.
        exact (get_none_keys _ _ E Hj).
    + rewrite get_set_other in Hj by exact N. apply H; assumption.
Qed.

Lemma rinv_addcs i r : rinv r -> rinv (r_addcs i r).
Proof.
  intros Hr. unfold r_addcs. destruct (get i (items r)) as [[]|] eqn:E; try exact Hr.
  destruct (closed r) eqn:Hc.
  - rewrite <- Hc. apply rinv_set_nonreg; [discriminate|exact Hr].
  - destruct Hr as [ND H]. split; cbn [items closed taken].
    + rewrite set_keys. exact ND.
    + discriminate.
Qed.

Lemma rinv_addrel i r : rinv r -> rinv (r_addrel i r).
Proof.
  intros Hr. unfold r_addrel. destruct (get i (items r)) as [[]|]; try exact Hr.
  apply rinv_set_nonreg; [discriminate|exact Hr].
Qed.

Lemma rinv_closecs r : rinv r -> rinv (r_closecs r).
Proof.
  intros Hr. unfold r_closecs. destruct (closed r) eqn:Hc; [exact Hr|]. destruct Hr as [ND H].
  split; cbn [items closed taken]; [exact ND|]. intros _ j Hj. apply in_registered_ids, Hj.
Qed.

Lemma rinv_closerel i r : rinv r -> rinv (r_closerel i r).
Proof.
  intros Hr. unfold r_closerel. destruct (mem i (taken r)); [|exact Hr]. destruct Hr as [ND H].
  split; cbn [items closed taken].
  - rewrite set_keys. exact ND.
  - intros Hc j Hj. destruct (Nat.eq_dec j i) as [->|N].
    + destruct (get i (items r)) eqn:E.
      * rewrite get_set_same in Hj by congruence. discriminate.
      * exfalso. apply get_in in Hj. apply (in_map fst) in Hj. rewrite set_keys in Hj.
        exact (get_none_keys _ _ E Hj).
    + rewrite get_set_other in Hj by exact N. apply in_remove_id. split; [apply H; assumption|exact N].
Qed.

Lemma rinv_remove i r : rinv r -> rinv (r_remove i r).
Proof.
  intros Hr. unfold r_remove. destruct (get i (items r)) as [[]|]; try exact Hr.
  apply rinv_set_nonreg; [discriminate|exact Hr].
Qed.

(* closing is permanent *)
Lemma closed_mono_offer i r : closed (r_offer i r) = closed r.
Proof. unfold r_offer. destruct (get i (items r)); reflexivity. Qed.
Lemma closed_mono_addcs i r : closed (r_addcs i r) = closed r.
Proof. unfold r_addcs. destruct (get i (items r)) as [[]|]; reflexivity. Qed.
Lemma closed_mono_addrel i r : closed (r_addrel i r) = closed r.
Proof. unfold r_addrel. destruct (get i (items r)) as [[]|]; reflexivity. Qed.
Lemma closed_mono_closerel i r : closed (r_closerel i r) = closed r.
Proof. unfold r_closerel. destruct (mem i (taken r)); reflexivity. Qed.
Lemma closed_mono_remove i r : closed (r_remove i r) = closed r.
Proof. unfold r_remove. destruct (get i (items r)) as [[]|]; reflexivity. Qed.
Lemma closed_closecs r : closed (r_closecs r) = true.
Proof. unfold r_closecs. destruct (closed r) eqn:E; [exact E|reflexivity]. Qed.

(* THE registry fact: closed, nothing in flight => everything released *)
Lemma r_closed_quiescent_released r :
  rinv r -> closed r = true -> r_quiescent r = true -> r_all_released r = true.
Proof.
  intros [ND H] Hc Hq. unfold r_quiescent in Hq. apply andb_prop in Hq. destruct Hq as [Hq Ht].
  destruct (taken r) eqn:Et; [|discriminate].
  unfold r_all_released. apply forallb_forall. intros [j x] Hin. cbn [snd].
  rewrite forallb_forall in Hq. specialize (Hq _ Hin). cbn [snd] in Hq.
  destruct x; try reflexivity; try discriminate.
  exfalso. apply (in_get _ _ _ ND) in Hin. exact (H Hc j Hin).
Qed.

(* ---- two levels --------------------------------------------------------------- *)
Lemma sget_in c r l : NoDup (map fst l) -> In (c, r) l -> sget c l = r.
Proof.
  induction l as [|[j y] l IH]; cbn [map fst sget]; intros ND H; [destruct H|].
  inversion ND as [|? ? Hn ND']; subst. destruct H as [H|H].
  - injection H as -> ->. rewrite Nat.eqb_refl. reflexivity.
  - destruct (Nat.eqb_spec c j) as [->|N]; [|apply IH; assumption].
    exfalso. apply Hn. apply (in_map fst) in H. exact H.
Qed.

Lemma has_conn_in c l : has_conn c l = true <-> In c (map fst l).
Proof.
  induction l as [|[j y] l IH]; cbn [has_conn map fst]; [split; [discriminate|intros []]|].
  rewrite orb_true_iff, IH, Nat.eqb_eq. cbn [In]. split; intros [H|H]; auto.
Qed.

Lemma sset_keys c x l :
  map fst (sset c x l) = if has_conn c l then map fst l else (map fst l ++ [c])%list.
Proof.
  induction l as [|[j y] l IH]; cbn [sset has_conn map fst]; [reflexivity|].
  destruct (Nat.eqb_spec c j) as [->|N]; cbn [orb map fst]; [reflexivity|].
  rewrite IH. destruct (has_conn c l); reflexivity.
Qed.

Lemma in_sset c x l j r : NoDup (map fst l) -> In (j, r) (sset c x l) ->
  (j = c /\ r = x) \/ (j <> c /\ In (j, r) l).
Proof.
  induction l as [|[k y] l IH]; cbn [sset map fst]; intros ND.
  - intros [H|[]]. injection H as -> ->. left. split; reflexivity.
  - inversion ND as [|? ? Hn ND']; subst.
    destruct (Nat.eqb_spec c k) as [->|N]; intros [H|H].
    + injection H as -> ->. left. split; reflexivity.
    + right. split; [|right; exact H]. intros ->. apply Hn. apply (in_map fst) in H. exact H.
    + injection H as -> ->. right. split; [intros E; apply N; symmetry; exact E|left; reflexivity].
    + destruct (IH ND' H) as [A|[A B]]; [left; exact A|right; split; [exact A|right; exact B]].
Qed.

Lemma nodup_snoc (l : list nat) c : NoDup l -> ~ In c l -> NoDup (l ++ [c]).
Proof.
  induction l as [|a l IH]; cbn [app]; intros ND Hn; [constructor; [intros []|constructor]|].
  inversion ND as [|? ? Ha ND']; subst. constructor.
  - rewrite in_app_iff. intros [H|[H|[]]]; [exact (Ha H)|]. apply Hn. left. symmetry. exact H.
  - apply IH; [exact ND'|]. intros H. apply Hn. right. exact H.
Qed.

Lemma sset_nodup c x l : NoDup (map fst l) -> NoDup (map fst (sset c x l)).
Proof.
  intros ND. rewrite sset_keys. destruct (has_conn c l) eqn:E; [exact ND|].
  apply nodup_snoc; [exact ND|]. intros H. apply has_conn_in in H. congruence.
Qed.

Definition sinv (s : sw) : Prop :=
  rinv (conns s) /\
  NoDup (map fst (strs s)) /\
  (forall c r, In (c, r) (strs s) -> rinv r) /\
  (* a stream registry that is still open belongs to a connection that is still registered *)
  (forall c r, In (c, r) (strs s) -> closed r = true \/ get c (items (conns s)) = Some Registered) /\
  rinv (lsts s).

Lemma sinv0 : sinv sw0.
Proof.
  split; [exact rinv0|]. split; [constructor|]. split; [intros c r []|]. split; [intros c r []|exact rinv0].
Qed.

Lemma sget_rinv c l : (forall j r, In (j, r) l -> rinv r) -> rinv (sget c l).
Proof.
  induction l as [|[k y] l IH]; cbn [sget]; intros H; [exact rinv0|].
  destruct (Nat.eqb c k).
  - apply (H k y). left. reflexivity.
  - apply IH. intros j r Hin. apply (H j r). right. exact Hin.
Qed.

Lemma has_conn_sget c l : has_conn c l = true -> In (c, sget c l) l.
Proof.
  induction l as [|[k y] l IH]; cbn [has_conn sget]; [discriminate|].
  destruct (Nat.eqb_spec c k) as [->|N]; cbn [orb]; intros H; [left; reflexivity|right; apply IH, H].
Qed.

Lemma sinv_conns s f : sinv s -> rinv (f (conns s)) ->
  (forall j, get j (items (conns s)) = Some Registered -> get j (items (f (conns s))) = Some Registered) ->
  sinv (on_conns f s).
Proof.
  intros (H1 & H2 & H3 & H4 & H5) Hr Hp. unfold on_conns.
  split; [exact Hr|]. split; [exact H2|]. split; [exact H3|]. split; [|exact H5].
  intros c r Hin. cbn [conns strs] in *. destruct (H4 c r Hin) as [A|A]; [left; exact A|right; apply Hp, A].
Qed.

Lemma sinv_lsts s f : sinv s -> rinv (f (lsts s)) -> sinv (on_lsts f s).
Proof.
  intros (H1 & H2 & H3 & H4 & H5) Hr. unfold on_lsts.
  split; [exact H1|]. split; [exact H2|]. split; [exact H3|]. split; [exact H4|exact Hr].
Qed.

Lemma sinv_on_strs c f s :
  (forall r, rinv r -> rinv (f r)) ->
  (forall r, closed r = true -> closed (f r) = true) ->
  sinv s ->
  (has_conn c (strs s) = true \/ get c (items (conns s)) = Some Registered) ->
  sinv (on_strs c f s).
Proof.
  intros Hf Hc (H1 & H2 & H3 & H4 & H5) Hpre. unfold on_strs.
  split; [exact H1|]. cbn [conns strs lsts]. split; [apply sset_nodup, H2|]. split; [|split; [|exact H5]].
  - intros j r Hin. destruct (in_sset _ _ _ _ _ H2 Hin) as [[-> ->]|[_ Hold]].
    + apply Hf, sget_rinv, H3.
    + exact (H3 j r Hold).
  - intros j r Hin. destruct (in_sset _ _ _ _ _ H2 Hin) as [[-> ->]|[_ Hold]].
    + destruct (has_conn c (strs s)) eqn:Eh.
      * destruct (H4 c _ (has_conn_sget _ _ Eh)) as [A|A]; [left; apply Hc, A|right; exact A].
      * destruct Hpre as [A|A]; [discriminate|right; exact A].
    + exact (H4 j r Hold).
Qed.

Lemma sinv_conn_close c s f : sinv s -> rinv (f (conns s)) ->
  (forall j, j <> c -> get j (items (conns s)) = Some Registered -> get j (items (f (conns s))) = Some Registered) ->
  sinv (conn_close c (on_conns f s)).
Proof.
  intros (H1 & H2 & H3 & H4 & H5) Hr Hp. unfold conn_close, on_strs, on_conns. cbn [conns strs lsts].
  split; [exact Hr|]. split; [apply sset_nodup, H2|]. split; [|split; [|exact H5]].
  - intros j r Hin. destruct (in_sset _ _ _ _ _ H2 Hin) as [[-> ->]|[_ Hold]].
    + apply rinv_closecs, sget_rinv, H3.
    + exact (H3 j r Hold).
  - intros j r Hin. destruct (in_sset _ _ _ _ _ H2 Hin) as [[-> ->]|[Hn Hold]].
    + left. apply closed_closecs.
    + destruct (H4 j r Hold) as [A|A]; [left; exact A|right; apply Hp; assumption].
Qed.

Lemma reg_kept_offer i r j : get j (items r) = Some Registered -> get j (items (r_offer i r)) = Some Registered.
Proof.
  intros H. unfold r_offer. destruct (get i (items r)) eqn:E; [exact H|]. cbn [items get].
  destruct (Nat.eqb_spec j i) as [->|N]; [congruence|exact H].
Qed.

Lemma reg_kept_addcs i r j : get j (items r) = Some Registered -> get j (items (r_addcs i r)) = Some Registered.
Proof.
  intros H. unfold r_addcs. destruct (get i (items r)) as [[]|] eqn:E; try exact H. cbn [items].
  destruct (Nat.eq_dec j i) as [->|N]; [congruence|]. rewrite get_set_other by exact N. exact H.
Qed.

Lemma reg_kept_addrel i r j : get j (items r) = Some Registered -> get j (items (r_addrel i r)) = Some Registered.
Proof.
  intros H. unfold r_addrel. destruct (get i (items r)) as [[]|] eqn:E; try exact H. cbn [items].
  destruct (Nat.eq_dec j i) as [->|N]; [congruence|]. rewrite get_set_other by exact N. exact H.
Qed.

Lemma reg_kept_closecs r j : get j (items r) = Some Registered -> get j (items (r_closecs r)) = Some Registered.
Proof. intros H. unfold r_closecs. destruct (closed r); exact H. Qed.

Lemma reg_kept_closerel i r j : j <> i -> get j (items r) = Some Registered -> get j (items (r_closerel i r)) = Some Registered.
Proof.
  intros N H. unfold r_closerel. destruct (mem i (taken r)); [|exact H]. cbn [items].
  rewrite get_set_other by exact N. exact H.
Qed.

Lemma reg_kept_remove i r j : j <> i -> get j (items r) = Some Registered -> get j (items (r_remove i r)) = Some Registered.
Proof.
  intros N H. unfold r_remove. destruct (get i (items r)) as [[]|]; try exact H. cbn [items].
  rewrite get_set_other by exact N. exact H.
Qed.

Lemma closed_kept_closecs r : closed r = true -> closed (r_closecs r) = true.
Proof. intros _. apply closed_closecs. Qed.

Lemma sinv_step s o : sinv s -> sinv (sstep s o).
Proof.
  intros Hs. destruct o as [c|c|c| |c|c|c t|c t|c t|c t|c t|l|l|l| |l|l]; cbn [sstep].
  - apply sinv_conns; [exact Hs|apply rinv_offer, Hs|intros j; apply reg_kept_offer].
  - apply sinv_conns; [exact Hs|apply rinv_addcs, Hs|intros j; apply reg_kept_addcs].
  - apply sinv_conns; [exact Hs|apply rinv_addrel, Hs|intros j; apply reg_kept_addrel].
  - apply sinv_conns; [exact Hs|apply rinv_closecs, Hs|intros j; apply reg_kept_closecs].
  - destruct (mem c (taken (conns s))); [|exact Hs].
    apply sinv_conn_close; [exact Hs|apply rinv_closerel, Hs|intros j N; apply reg_kept_closerel, N].
  - destruct (is_registered c (conns s)); [|exact Hs].
    apply sinv_conn_close; [exact Hs|apply rinv_remove, Hs|intros j N; apply reg_kept_remove, N].
  - destruct (get c (items (conns s))) as [[]|] eqn:E; try exact Hs.
    + unfold is_registered. rewrite E. cbn [orb].
      apply sinv_on_strs; [intros r; apply rinv_offer|intros r; rewrite closed_mono_offer; auto|exact Hs|right; exact E].
    + unfold is_registered. rewrite E. cbn [orb]. destruct (has_conn c (strs s)) eqn:Eh; [|exact Hs].
      apply sinv_on_strs; [intros r; apply rinv_offer|intros r; rewrite closed_mono_offer; auto|exact Hs|left; exact Eh].
  - destruct (has_conn c (strs s)) eqn:Eh; [|exact Hs].
    apply sinv_on_strs; [intros r; apply rinv_addcs|intros r; rewrite closed_mono_addcs; auto|exact Hs|left; exact Eh].
  - destruct (has_conn c (strs s)) eqn:Eh; [|exact Hs].
    apply sinv_on_strs; [intros r; apply rinv_addrel|intros r; rewrite closed_mono_addrel; auto|exact Hs|left; exact Eh].
  - destruct (has_conn c (strs s)) eqn:Eh; [|exact Hs].
    apply sinv_on_strs; [intros r; apply rinv_closerel|intros r; rewrite closed_mono_closerel; auto|exact Hs|left; exact Eh].
  - destruct (has_conn c (strs s)) eqn:Eh; [|exact Hs].
    apply sinv_on_strs; [intros r; apply rinv_remove|intros r; rewrite closed_mono_remove; auto|exact Hs|left; exact Eh].
  - apply sinv_lsts; [exact Hs|apply rinv_offer, Hs].
  - apply sinv_lsts; [exact Hs|apply rinv_addcs, Hs].
  - apply sinv_lsts; [exact Hs|apply rinv_addrel, Hs].
  - apply sinv_lsts; [exact Hs|apply rinv_closecs, Hs].
  - apply sinv_lsts; [exact Hs|apply rinv_closerel, Hs].
  - apply sinv_lsts; [exact Hs|apply rinv_remove, Hs].
Qed.

Lemma sinv_run ops : forall s, sinv s -> sinv (srun s ops).
Proof.
  induction ops as [|o r IH]; intros s H; [exact H|]. cbn [srun fold_left]. apply IH, sinv_step, H.
Qed.

Lemma all_released_not_registered c r : r_all_released r = true -> get c (items r) <> Some Registered.
Proof.
  intros H E. apply get_in in E. unfold r_all_released in H. rewrite forallb_forall in H.
  specialize (H _ E). discriminate.
Qed.

Lemma sinv_all_gone s : sinv s -> swarm_closed s = true -> quiescent s = true -> all_gone s = true.
Proof.
  intros (H1 & H2 & H3 & H4 & H5) Hc Hq. unfold swarm_closed in Hc. apply andb_prop in Hc. destruct Hc as [Hc Hcl].
  unfold quiescent in Hq. apply andb_prop in Hq. destruct Hq as [Hq Hq3].
  apply andb_prop in Hq. destruct Hq as [Hq1 Hq2].
  unfold all_gone. assert (Hr : r_all_released (conns s) = true) by (apply r_closed_quiescent_released; assumption).
  rewrite Hr. rewrite (r_closed_quiescent_released _ H5 Hcl Hq3), andb_true_r. cbn [andb]. apply forallb_forall. intros [c r] Hin. cbn [snd].
  rewrite forallb_forall in Hq2. specialize (Hq2 _ Hin). cbn [snd] in Hq2.
  apply r_closed_quiescent_released; [exact (H3 c r Hin)| |exact Hq2].
  destruct (H4 c r Hin) as [A|A]; [exact A|]. exfalso. exact (all_released_not_registered c _ Hr A).
Qed.

Lemma close_all_gone ops :
  swarm_closed (srun sw0 ops) = true -> quiescent (srun sw0 ops) = true -> all_gone (srun sw0 ops) = true.
Proof. apply sinv_all_gone, sinv_run, sinv0. Qed.

(* an add that starts after the close's critical section is always refused, and
   an item is never registered in a closed registry again *)
Lemma closed_never_registers i r : closed r = true ->
  get i (items r) <> Some Registered -> get i (items (r_addcs i r)) <> Some Registered.
Proof.
  intros Hc Hn. unfold r_addcs. destruct (get i (items r)) as [[]|] eqn:E; try (rewrite E; exact Hn); try congruence.
  cbn [items]. rewrite Hc. rewrite get_set_same by congruence. discriminate.
Qed.

(* C04 — proofs about the upgrader listener's accept pipeline (Accept.v): for
   every schedule, once listener.Close has returned nothing is held by the
   listener or its goroutines, no step of the listener is enabled any more, and
   the monitor run on the harness's case lines accepts the model's own line. *)
From Coq Require Import List Arith Bool ZArith Lia.
From Verif Require Import lib.Wire c04.Close c04.Accept.
Import ListNotations.

Definition quiet (x : ast) : bool := negb (wg_counted x) && negb (ast_eqb ARaw x).
Definition notraw (x : ast) : bool := negb (ast_eqb ARaw x).
Definition nodrain (x : ast) : bool := negb (ast_eqb ADraining x).
Definition norecv (x : ast) : bool := negb (ast_eqb AReceived x).

Lemma has_false x l : has x l = false <-> forallb (fun y => negb (ast_eqb x y)) l = true.
Proof.
  unfold has. induction l as [|y l IH]; cbn [existsb forallb]; [tauto|].
  rewrite orb_false_iff, andb_true_iff, IH, negb_true_iff. tauto.
Qed.

Lemma forallb_nth (P : ast -> bool) l i x : forallb P l = true -> nth_error l i = Some x -> P x = true.
Proof.
  revert i. induction l as [|y l IH]; intros [|i]; cbn [nth_error forallb]; try discriminate.
  - intros H E. injection E as <-. apply andb_prop in H. tauto.
  - intros H E. apply andb_prop in H. eapply IH; [apply H|exact E].
Qed.

Lemma forallb_seti (P : ast -> bool) i x from l :
  forallb P l = true -> nth_error l i = Some from -> (P from = true -> P x = true) ->
  forallb P (seti i x l) = true.
Proof.
  revert i. induction l as [|y l IH]; intros [|i]; cbn [nth_error forallb seti]; try discriminate.
  - intros H E Hi. injection E as ->. apply andb_prop in H. destruct H as [H1 H2]. rewrite (Hi H1), H2. reflexivity.
  - intros H E Hi. apply andb_prop in H. destruct H as [H1 H2]. rewrite H1. cbn [andb]. eapply IH; eassumption.
Qed.

Lemma forallb_snoc (P : ast -> bool) l x : forallb P (l ++ [x]) = forallb P l && P x.
Proof. rewrite forallb_app. cbn [forallb]. rewrite andb_true_r. reflexivity. Qed.

Lemma forallb_imp2 (P Q R : ast -> bool) l :
  (forall x, P x = true -> Q x = true -> R x = true) ->
  forallb P l = true -> forallb Q l = true -> forallb R l = true.
Proof.
  intros H. induction l as [|y l IH]; cbn [forallb]; [reflexivity|].
  intros A B. apply andb_prop in A. apply andb_prop in B. destruct A as [A1 A2], B as [B1 B2].
  rewrite (H _ A1 B1), (IH A2 B2). reflexivity.
Qed.

Lemma tr_spec i from to s s' : tr i from to s = Some s' ->
  nth_error (aitems s) i = Some from /\ s' = with_items s (seti i to (aitems s)).
Proof.
  unfold tr. destruct (nth_error (aitems s) i) as [x|] eqn:E; [|discriminate].
  destruct x, from; cbn [ast_eqb]; try discriminate; intros H; injection H as <-; split; reflexivity.
Qed.

Lemma tr_none (P : ast -> bool) i from to s :
  forallb P (aitems s) = true -> P from = false -> tr i from to s = None.
Proof.
  intros H Hf. destruct (tr i from to s) as [s'|] eqn:E; [|reflexivity].
  apply tr_spec in E. destruct E as [E _]. rewrite (forallb_nth _ _ _ _ H E) in Hf. discriminate.
Qed.

Lemma guard_some b o s' : guard b o = Some s' -> b = true /\ o = Some s'.
Proof. destruct b; cbn [guard]; [tauto|discriminate]. Qed.

(* ---- the invariant ------------------------------------------------------------ *)
Definition ainv (s : lst) : Prop :=
  (ph s = PDone -> forallb quiet (aitems s) = true) /\
  (ph s <> PRun -> forallb notraw (aitems s) = true) /\
  (cl s = CReturned -> ph s = PDone /\ forallb nodrain (aitems s) = true) /\
  ((cl s = CRawClosed \/ cl s = CCancelled \/ cl s = CReturned) -> lclosed s = true).

Lemma ainv0 c : ainv (l0 c).
Proof.
  unfold ainv, l0. cbn. repeat split; try reflexivity; try discriminate; try congruence.
  intros [H|[H|H]]; discriminate.
Qed.

Ltac imp := cbv; let Hx := fresh in intro Hx; first [reflexivity | discriminate Hx].

(* an item transition that keeps every other field *)
Lemma ainv_tr i from to s s' :
  ainv s -> tr i from to s = Some s' ->
  (quiet from = true -> quiet to = true) ->
  (notraw from = true -> notraw to = true) ->
  (cl s = CReturned -> nodrain from = true -> nodrain to = true) ->
  ainv s'.
Proof.
  intros (I1 & I2 & I3 & I4) E Hq Hr Hd. apply tr_spec in E. destruct E as [En ->].
  unfold ainv, with_items. cbn [aitems ph cl lclosed].
  split; [|split; [|split]].
  - intros Hp. eapply forallb_seti; [apply I1, Hp|exact En|exact Hq].
  - intros Hp. eapply forallb_seti; [apply I2, Hp|exact En|exact Hr].
  - intros Hc. destruct (I3 Hc) as [A B]. split; [exact A|]. eapply forallb_seti; [exact B|exact En|exact (Hd Hc)].
  - exact I4.
Qed.

Lemma phase_eqb_eq a b : phase_eqb a b = true -> a = b.
Proof. destruct a, b; cbn; congruence. Qed.
Lemma closer_eqb_eq a b : closer_eqb a b = true -> a = b.
Proof. destruct a, b; cbn; congruence. Qed.

Lemma ainv_step s o s' : ainv s -> astep_opt s o = Some s' -> ainv s'.
Proof.
  intros Hs E. destruct o; cbn [astep_opt] in E.
  - (* LAccept *)
    apply guard_some in E. destruct E as [G E]. injection E as <-.
    apply andb_prop in G. destruct G as [G _]. apply andb_prop in G. destruct G as [G _]. apply phase_eqb_eq in G.
    destruct Hs as (I1 & I2 & I3 & I4). unfold ainv, with_items. cbn [aitems ph cl lclosed].
    split; [intros Hp; congruence|]. split; [intros Hp; congruence|]. split; [|exact I4].
    intros Hc. destruct (I3 Hc) as [A _]. congruence.
  - apply guard_some in E. destruct E as [_ E]. eapply ainv_tr; [exact Hs|exact E|imp|imp|intros _; imp].
  - eapply ainv_tr; [exact Hs|exact E|imp|imp|intros _; imp].
  - eapply ainv_tr; [exact Hs|exact E|imp|imp|intros _; imp].
  - eapply ainv_tr; [exact Hs|exact E|imp|imp|intros _; imp].
  - eapply ainv_tr; [exact Hs|exact E|imp|imp|intros _; imp].
  - eapply ainv_tr; [exact Hs|exact E|imp|imp|intros _; imp].
  - (* AcceptCall *)
    apply guard_some in E. destruct E as [_ E]. injection E as <-. exact Hs.
  - apply guard_some in E. destruct E as [_ E]. eapply ainv_tr; [exact Hs|exact E|imp|imp|intros _; imp].
  - (* AcceptRetLive *)
    destruct (tr i AReceived AHanded s) as [s1|] eqn:E1; [|discriminate]. injection E as <-.
    assert (H1 : ainv s1) by (eapply ainv_tr; [exact Hs|exact E1|imp|imp|intros _; imp]).
    exact H1.
  - eapply ainv_tr; [exact Hs|exact E|imp|imp|intros _; imp].
  - (* AcceptEnd *)
    apply guard_some in E. destruct E as [_ E]. injection E as <-. exact Hs.
  - (* LExit *)
    apply guard_some in E. destruct E as [G E]. injection E as <-.
    apply andb_prop in G. destruct G as [G1 G2]. apply phase_eqb_eq in G1. apply negb_true_iff, has_false in G2.
    destruct Hs as (I1 & I2 & I3 & I4). unfold ainv. cbn [aitems ph cl lclosed].
    split; [discriminate|]. split; [intros _; exact G2|]. split; [|intros _; reflexivity].
    intros Hc. destruct (I3 Hc) as [A _]. congruence.
  - (* LWgDone *)
    apply guard_some in E. destruct E as [G E]. injection E as <-.
    apply andb_prop in G. destruct G as [G1 G2]. apply phase_eqb_eq in G1. apply negb_true_iff in G2.
    destruct Hs as (I1 & I2 & I3 & I4). unfold ainv. cbn [aitems ph cl lclosed].
    split; [|split; [|split]].
    + intros _. assert (Hr : forallb notraw (aitems s) = true) by (apply I2; congruence).
      assert (Hw : forallb (fun x => negb (wg_counted x)) (aitems s) = true).
      { clear -G2. induction (aitems s) as [|y l IH]; cbn [existsb forallb] in *; [reflexivity|].
        apply orb_false_iff in G2. destruct G2 as [A B]. rewrite A, (IH B). reflexivity. }
      eapply forallb_imp2; [|exact Hw|exact Hr]. intros x A B. unfold quiet. unfold notraw in B. rewrite A, B. reflexivity.
    + intros _. apply I2. congruence.
    + intros Hc. destruct (I3 Hc) as [A B]. split; [reflexivity|exact B].
    + exact I4.
  - (* CloseCall *)
    apply guard_some in E. destruct E as [G E]. injection E as <-. apply closer_eqb_eq in G.
    destruct Hs as (I1 & I2 & I3 & I4). unfold ainv. cbn [aitems ph cl lclosed].
    split; [exact I1|]. split; [exact I2|]. split; [discriminate|]. intros [H|[H|H]]; discriminate.
  - (* CloseRaw *)
    apply guard_some in E. destruct E as [G E]. injection E as <-.
    destruct Hs as (I1 & I2 & I3 & I4). unfold ainv. cbn [aitems ph cl lclosed].
    split; [exact I1|]. split; [exact I2|]. split; [discriminate|]. intros _. reflexivity.
  - (* CancelCtx *)
    apply guard_some in E. destruct E as [G E]. injection E as <-. apply closer_eqb_eq in G.
    destruct Hs as (I1 & I2 & I3 & I4). unfold ainv. cbn [aitems ph cl lclosed].
    split; [exact I1|]. split; [exact I2|]. split; [discriminate|]. intros _. apply I4. left. exact G.
  - (* DrainRecv *)
    apply guard_some in E. destruct E as [G E]. apply andb_prop in G. destruct G as [G _]. apply closer_eqb_eq in G.
    eapply ainv_tr; [exact Hs|exact E|imp|imp|]. intros Hc. congruence.
  - eapply ainv_tr; [exact Hs|exact E|imp|imp|intros _; imp].
  - (* CloseRet *)
    apply guard_some in E. destruct E as [G E]. injection E as <-.
    apply andb_prop in G. destruct G as [G G3]. apply andb_prop in G. destruct G as [G1 G2].
    apply closer_eqb_eq in G1. apply phase_eqb_eq in G2. apply negb_true_iff, has_false in G3.
    destruct Hs as (I1 & I2 & I3 & I4). unfold ainv. cbn [aitems ph cl lclosed].
    split; [exact I1|]. split; [exact I2|]. split; [intros _; split; [exact G2|exact G3]|].
    intros _. apply I4. right. left. exact G1.
Qed.

Lemma ainv_do s o : ainv s -> ainv (astep_do s o).
Proof.
  intros H. unfold astep_do. destruct (astep_opt s o) as [s'|] eqn:E; [eapply ainv_step; eassumption|exact H].
Qed.

Lemma ainv_run ops : forall s, ainv s -> ainv (arun_l s ops).
Proof.
  induction ops as [|o r IH]; intros s H; [exact H|]. cbn [arun_l fold_left]. apply IH, ainv_do, H.
Qed.

(* ---- after Close has returned ------------------------------------------------- *)
Lemma returned_settled s : ainv s -> cl s = CReturned -> forallb settled (aitems s) = true.
Proof.
  intros (I1 & _ & I3 & _) Hc. destruct (I3 Hc) as [Hp Hd].
  eapply forallb_imp2; [|exact (I1 Hp)|exact Hd].
  intros x. destruct x; cbv; congruence.
Qed.

Lemma returned_nothing_held s : ainv s -> cl s = CReturned ->
  forallb (fun x => negb (held_by_listener x)) (aitems s) = true.
Proof.
  intros Hs Hc. pose proof (returned_settled s Hs Hc) as H.
  eapply forallb_imp2; [|exact H|exact H]. intros x. destruct x; cbv; congruence.
Qed.

(* no step of the listener's loop, of its goroutines or of Close is enabled *)
Lemma returned_no_listener_step s o : ainv s -> cl s = CReturned ->
  accepter_step o = false -> astep_opt s o = None.
Proof.
  intros Hs Hc Ho. pose proof (returned_settled s Hs Hc) as Hset.
  destruct Hs as (I1 & I2 & I3 & I4). destruct (I3 Hc) as [Hp Hd].
  destruct o; cbn [accepter_step] in Ho; try discriminate; cbn [astep_opt];
    rewrite ?Hp, ?Hc; cbn [phase_eqb closer_eqb andb guard]; try reflexivity;
    try (apply (tr_none settled); [exact Hset|reflexivity]).
  - destruct (Nat.ltb _ _); cbn [guard]; [|reflexivity]. apply (tr_none settled); [exact Hset|reflexivity].
  - destruct (_ && _); cbn [guard]; [|reflexivity]. apply (tr_none settled); [exact Hset|reflexivity].
Qed.

Lemma forallb_filter_nil (P Q : ast -> bool) l :
  (forall x, P x = true -> Q x = false) -> forallb P l = true -> filter Q l = [].
Proof.
  intros H. induction l as [|y l IH]; cbn [forallb filter]; [reflexivity|].
  intros A. apply andb_prop in A. destruct A as [A1 A2]. rewrite (H _ A1). apply IH, A2.
Qed.

Lemma dec_streams_flat ps rest : dec_streams (length ps) (flat ps ++ rest) = Some (ps, rest).
Proof.
  induction ps as [|[a b] ps IH]; cbn [length flat dec_streams app]; [reflexivity|]. rewrite IH. reflexivity.
Qed.

Lemma final_items s : ainv s -> cl s = CReturned -> has AReceived (aitems s) = false ->
  forallb final_item (aitems s) = true.
Proof.
  intros Hs Hc Hr. apply has_false in Hr.
  eapply forallb_imp2; [|exact (returned_settled s Hs Hc)|exact Hr]. intros x. destruct x; cbv; congruence.
Qed.

Lemma model_case_accepted s : ainv s -> cl s = CReturned -> has AReceived (aitems s) = false ->
  accept_monitor (model_case s) = [].
Proof.
  intros Hs Hc Hr. pose proof (final_items s Hs Hc Hr) as Hf.
  destruct Hs as (I1 & I2 & I3 & I4). destruct (I3 Hc) as [Hp _].
  unfold model_case, accept_monitor. rewrite Nat2Z.id.
  replace (length (aitems s)) with (length (map item_obs (aitems s))) by apply map_length.
  rewrite dec_streams_flat.
  assert (L : leftover s = 0%Z).
  { unfold leftover. rewrite (forallb_filter_nil final_item _ _ (fun x H => eq_trans (f_equal negb H) eq_refl) Hf). reflexivity. }
  assert (G : gor_left s = 0%Z).
  { unfold gor_left. rewrite Hp. cbn [phase_eqb].
    rewrite (forallb_filter_nil final_item wg_counted); [reflexivity| |exact Hf]. intros x. destruct x; cbv; congruence. }
  rewrite L, G, (I4 (or_intror (or_intror Hc))). unfold judge.
  assert (R : forallb (fun ob : Z * Z => (snd ob =? 1)%Z) (map item_obs (aitems s)) = true).
  { clear -Hf. induction (aitems s) as [|y l IH]; cbn [map forallb] in *; [reflexivity|].
    apply andb_prop in Hf. destruct Hf as [A B]. rewrite (IH B). unfold item_obs. cbn [snd]. rewrite A. reflexivity. }
  rewrite R. reflexivity.
Qed.

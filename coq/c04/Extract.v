From Coq Require Import Extraction ExtrOcamlBasic.
From Verif Require Import c04.Spec.
Extraction Language OCaml.
Extraction "extract/c04_model.ml" conform_case monitor_case.

(* C04 — Swarm.Close as seen by its callers: closeOnce and the refs WaitGroup
   (p2p/net/swarm/swarm.go Close / close; swarm_listen.go, swarm_conn.go for who
   holds a count).  No proofs in this file.

   s.refs counts activities: a registered listener's accept goroutine, the two
   counts of a registered connection (its start loop, its close notifications),
   the goroutine adding an accepted connection, an inbound-stream goroutine, the
   goroutines close() starts to close the listeners.  A count is taken
     - under a registry lock while the registry is still open (AddListenAddr,
       addConn: `if m == nil { refuse }` precedes refs.Add), or
     - by an activity that itself still holds a count (the accept goroutine for
       each connection it accepted, Conn.start for each inbound stream), or
     - by close() itself between nil-ing the registries and refs.Wait.
   Close is `s.closeOnce.Do(s.close)`: the first caller runs close(), every other
   caller blocks in Do until close() has finished. *)
From Coq Require Import List Arith Bool ZArith.
From Verif Require Import lib.Wire.
Import ListNotations.

Inductive hst := HLive | HDone.
Inductive kst := KIdle | KRunning | KBlocked | KReturned.
Inductive body := B0 | B1 | B2 | B3.   (* close(): not started / registries nil-ed / refs.Wait passed / finished *)

Record cstate := mkC { holders : list hst; callers : list kst; started : bool; bd : body }.

Definition c0 (ncallers : nat) := mkC [] (repeat KIdle ncallers) false B0.

Definition hst_done (h : hst) : bool := match h with HDone => true | HLive => false end.
Definition kst_eqb (a b : kst) : bool :=
  match a, b with KIdle, KIdle | KRunning, KRunning | KBlocked, KBlocked | KReturned, KReturned => true | _, _ => false end.
Definition body_eqb (a b : body) : bool :=
  match a, b with B0, B0 | B1, B1 | B2, B2 | B3, B3 => true | _, _ => false end.

Fixpoint upd {A} (i : nat) (x : A) (l : list A) : list A :=
  match l, i with
  | [], _ => []
  | _ :: r, O => x :: r
  | y :: r, S j => y :: upd j x r
  end.

Inductive cstep :=
| HStartReg            (* a listener / connection is registered under the lock: refs.Add *)
| HStartChild (p : nat)  (* an activity that holds a count takes one for a child activity *)
| HEnd (i : nat)       (* refs.Done *)
| KCall (k : nat)      (* caller k enters Close: closeOnce.Do *)
| BodyCS               (* close(): registries := nil *)
| BodySpawn            (* close(): refs.Add for a goroutine that closes a listener *)
| BodyWait             (* close(): refs.Wait() returns *)
| BodyEnd              (* close() returns; Do returns for the caller that ran it *)
| KUnblock (k : nat).  (* Do returns for a caller that was blocked *)

Definition cstep_opt (s : cstate) (o : cstep) : option cstate :=
  match o with
  | HStartReg =>
      if body_eqb (bd s) B0 then Some (mkC (holders s ++ [HLive]) (callers s) (started s) (bd s)) else None
  | HStartChild p =>
      match nth_error (holders s) p with
      | Some HLive => Some (mkC (holders s ++ [HLive]) (callers s) (started s) (bd s))
      | _ => None
      end
  | HEnd i =>
      match nth_error (holders s) i with
      | Some HLive => Some (mkC (upd i HDone (holders s)) (callers s) (started s) (bd s))
      | _ => None
      end
  | KCall k =>
      match nth_error (callers s) k with
      | Some KIdle =>
          if started s then Some (mkC (holders s) (upd k KBlocked (callers s)) true (bd s))
          else Some (mkC (holders s) (upd k KRunning (callers s)) true (bd s))
      | _ => None
      end
  | BodyCS => if started s && body_eqb (bd s) B0 then Some (mkC (holders s) (callers s) (started s) B1) else None
  | BodySpawn => if body_eqb (bd s) B1 then Some (mkC (holders s ++ [HLive]) (callers s) (started s) (bd s)) else None
  | BodyWait =>
      if body_eqb (bd s) B1 && forallb hst_done (holders s) then Some (mkC (holders s) (callers s) (started s) B2) else None
  | BodyEnd =>
      if body_eqb (bd s) B2
      then Some (mkC (holders s) (map (fun k => match k with KRunning => KReturned | x => x end) (callers s)) (started s) B3)
      else None
  | KUnblock k =>
      match nth_error (callers s) k with
      | Some KBlocked => if body_eqb (bd s) B3 then Some (mkC (holders s) (upd k KReturned (callers s)) (started s) (bd s)) else None
      | _ => None
      end
  end.

Definition cstep_do (s : cstate) (o : cstep) : cstate :=
  match cstep_opt s o with Some s' => s' | None => s end.
Definition crun (s : cstate) (ops : list cstep) : cstate := fold_left cstep_do ops s.

Definition some_returned (s : cstate) : bool := existsb (kst_eqb KReturned) (callers s).
Definition all_done (s : cstate) : bool := forallb hst_done (holders s).

(* ---- wire format (kind 9): concurrent callers of Swarm.Close ------------------
     9 ncallers (clean_at_return)*ncallers
   clean_at_return: 1 = at the moment this caller's Close returned, every listener
   and every connection that was (or turned out to have been) registered with the
   swarm had been closed.  (Items whose add was refused are closed by the adder.) *)
Local Open Scope Z_scope.
Definition once_monitor (l : list Z) : list Z :=
  match l with
  | n :: r =>
      if (Z.of_nat (length r) =? n) && forallb (fun x => x =? 1) r then [] else [ERR_PROPERTY; 9; n]
  | _ => [ERR_MALFORMED; 90]
  end.

(* the line of a model run: one entry per caller that has returned, telling
   whether every count had been given back in the state it returned into — since
   the state only changes by steps, it is the final state's [all_done] for every
   returned caller once the run is over and nothing was started afterwards *)
Definition once_case (s : cstate) : list Z :=
  let rs := filter (kst_eqb KReturned) (callers s) in
  (Z.of_nat (length rs) :: map (fun _ => boolz (all_done s)) rs)%list.

(* conformance: the model, run on the canonical schedule with that many callers
   (all call, the first runs close() through, the others are released), returns
   the same answers *)
Definition once_schedule (n : nat) : list cstep :=
  ([HStartReg; HStartReg] ++ map KCall (seq 0 n) ++ [BodyCS; BodySpawn; HEnd 0; HEnd 1; HEnd 2; BodyWait; BodyEnd] ++
   map KUnblock (seq 0 n))%list.
Definition once_conform (l : list Z) : list Z :=
  match l with
  | n :: r =>
      if (n <? 0) || (64 <? n) then [ERR_MALFORMED; 91] else
      if zlist_eqb (once_case (crun (c0 (Z.to_nat n)) (once_schedule (Z.to_nat n)))) l then [] else [ERR_MISMATCH; 9; n]
  | _ => [ERR_MALFORMED; 90]
  end.

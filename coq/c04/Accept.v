(* C04 — the upgrader listener's accept pipeline racing with its Close
   (p2p/net/upgrader/listener.go: handleIncoming, its per-connection goroutine,
   Accept, Close; threshold.go), as a labelled transition system in which every
   step of an in-flight accept is one transition.  No proofs in this file.

   An inbound connection goes through
     ARaw        gatedMaListener.Accept returned (raw conn + connection scope);
                 the loop is in threshold.Wait
     AUpgrading  the per-connection goroutine (wg.Add(1); go ...) runs Upgrade
     AFailing    Upgrade returned an error (it closed the raw conn); connScope.Done() pending
     AUpgraded   Upgrade succeeded, threshold.Acquire(); the goroutine is in the select
     ADropping   ctx.Done() won the select (accept timeout, or the listener's ctx was
                 cancelled); conn.CloseWithError pending
     ADraining   listener.Close's drain loop received it; c.Close() pending
     AReceived   listener.Accept received it from the channel; IsClosed check pending
     AHanded     Accept returned it: the caller owns it now
     AReleased   raw conn closed, scope done
   l.incoming is unbuffered: a send is a rendezvous with Accept or with Close's
   drain loop.  The WaitGroup count is the number of items in AUpgrading /
   AFailing / AUpgraded / ADropping, the threshold count the number in AUpgraded
   / ADropping (Add/Acquire and Done/Release bracket exactly these states), so
   both are computed from the items instead of being stored. *)
From Coq Require Import List Arith Bool ZArith.
From Verif Require Import lib.Wire c04.Close.
Import ListNotations.

Inductive ast := ARaw | AUpgrading | AFailing | AUpgraded | ADropping | ADraining | AReceived | AHanded | AReleased.
Inductive phase := PRun | PExit | PDone.          (* handleIncoming: looping / in its defer waiting for wg / closed l.incoming *)
Inductive closer := CNone | CCalled | CRawClosed | CCancelled | CReturned.   (* the caller of listener.Close *)
Inductive accst := AIdle | AWaiting.              (* the caller of listener.Accept: outside / inside Accept *)

Definition ast_eqb (a b : ast) : bool :=
  match a, b with
  | ARaw, ARaw | AUpgrading, AUpgrading | AFailing, AFailing | AUpgraded, AUpgraded | ADropping, ADropping
  | ADraining, ADraining | AReceived, AReceived | AHanded, AHanded | AReleased, AReleased => true
  | _, _ => false
  end.
Definition phase_eqb (a b : phase) : bool :=
  match a, b with PRun, PRun | PExit, PExit | PDone, PDone => true | _, _ => false end.
Definition closer_eqb (a b : closer) : bool :=
  match a, b with
  | CNone, CNone | CCalled, CCalled | CRawClosed, CRawClosed | CCancelled, CCancelled | CReturned, CReturned => true
  | _, _ => false
  end.
Definition accst_eqb (a b : accst) : bool :=
  match a, b with AIdle, AIdle | AWaiting, AWaiting => true | _, _ => false end.

Record lst := mkL {
  aitems : list ast;      (* every raw connection the listener ever accepted, by arrival order *)
  ph : phase;
  cl : closer;
  lclosed : bool;         (* the underlying GatedMaListener is closed *)
  cancelled : bool;       (* l.ctx is cancelled *)
  ac : accst;
  cap : nat               (* AcceptQueueLength *)
}.

Definition l0 (c : nat) := mkL [] PRun CNone false false AIdle c.

Fixpoint seti (i : nat) (x : ast) (l : list ast) : list ast :=
  match l, i with
  | [], _ => []
  | _ :: r, O => x :: r
  | y :: r, S j => y :: seti j x r
  end.

Definition has (x : ast) (l : list ast) : bool := existsb (ast_eqb x) l.
Definition wg_counted (x : ast) : bool :=
  match x with AUpgrading | AFailing | AUpgraded | ADropping => true | _ => false end.
Definition thr_counted (x : ast) : bool :=
  match x with AUpgraded | ADropping => true | _ => false end.
Definition thr_count (l : list ast) : nat := length (filter thr_counted l).

Definition with_items (s : lst) (l : list ast) : lst := mkL l (ph s) (cl s) (lclosed s) (cancelled s) (ac s) (cap s).

(* item i moves from state [from] to state [to] *)
Definition tr (i : nat) (from to : ast) (s : lst) : option lst :=
  match nth_error (aitems s) i with
  | Some x => if ast_eqb x from then Some (with_items s (seti i to (aitems s))) else None
  | None => None
  end.

Inductive astep :=
| LAccept            (* gatedMaListener.Accept returns a raw conn with its scope *)
| LSpawn (i : nat)   (* threshold.Wait passed; wg.Add(1); go *)
| UpOk (i : nat)     (* Upgrade succeeded; threshold.Acquire *)
| UpFail (i : nat)   (* Upgrade failed (it closes the raw conn on every error path) *)
| FailDone (i : nat) (* connScope.Done(); goroutine ends *)
| Timeout (i : nat)  (* select: <-ctx.Done() (accept timeout or listener ctx cancelled) *)
| Drop (i : nat)     (* conn.CloseWithError; goroutine ends *)
| AcceptCall         (* somebody calls listener.Accept *)
| AcceptRecv (i : nat)     (* `for c := range l.incoming` in Accept receives *)
| AcceptRetLive (i : nat)  (* !c.IsClosed(): return c *)
| AcceptRetDead (i : nat)  (* the conn died while queued: c.Close(), keep ranging *)
| AcceptEnd          (* l.incoming is closed: Accept returns the listener's error *)
| LExit              (* the loop leaves (Accept error or ctx cancelled); defer closes the raw listener *)
| LWgDone            (* defer: wg.Wait() passed; close(l.incoming) *)
| CloseCall          (* somebody calls listener.Close *)
| CloseRaw           (* l.GatedMaListener.Close() *)
| CancelCtx          (* l.cancel() *)
| DrainRecv (i : nat)      (* `for c := range l.incoming` in Close receives *)
| DrainClose (i : nat)     (* c.Close() *)
| CloseRet.          (* l.incoming is closed: Close returns *)

Definition guard (b : bool) (s : option lst) : option lst := if b then s else None.

Definition astep_opt (s : lst) (o : astep) : option lst :=
  match o with
  | LAccept =>
      guard (phase_eqb (ph s) PRun && negb (lclosed s) && negb (has ARaw (aitems s)))
            (Some (with_items s (aitems s ++ [ARaw])))
  | LSpawn i => guard (Nat.ltb (thr_count (aitems s)) (cap s)) (tr i ARaw AUpgrading s)
  | UpOk i => tr i AUpgrading AUpgraded s
  | UpFail i => tr i AUpgrading AFailing s
  | FailDone i => tr i AFailing AReleased s
  | Timeout i => tr i AUpgraded ADropping s
  | Drop i => tr i ADropping AReleased s
  | AcceptCall =>
      guard (accst_eqb (ac s) AIdle) (Some (mkL (aitems s) (ph s) (cl s) (lclosed s) (cancelled s) AWaiting (cap s)))
  | AcceptRecv i => guard (accst_eqb (ac s) AWaiting && negb (has AReceived (aitems s))) (tr i AUpgraded AReceived s)
  | AcceptRetLive i =>
      match tr i AReceived AHanded s with
      | Some s' => Some (mkL (aitems s') (ph s') (cl s') (lclosed s') (cancelled s') AIdle (cap s'))
      | None => None
      end
  | AcceptRetDead i => tr i AReceived AReleased s
  | AcceptEnd =>
      guard (accst_eqb (ac s) AWaiting && phase_eqb (ph s) PDone && negb (has AReceived (aitems s)))
            (Some (mkL (aitems s) (ph s) (cl s) (lclosed s) (cancelled s) AIdle (cap s)))
  | LExit =>
      (* the loop is at its top or in Accept (no raw conn parked at the threshold) and
         Accept fails / the ctx is cancelled; also a spontaneous listener error *)
      guard (phase_eqb (ph s) PRun && negb (has ARaw (aitems s)))
            (Some (mkL (aitems s) PExit (cl s) true (cancelled s) (ac s) (cap s)))
  | LWgDone =>
      guard (phase_eqb (ph s) PExit && negb (existsb wg_counted (aitems s)))
            (Some (mkL (aitems s) PDone (cl s) (lclosed s) (cancelled s) (ac s) (cap s)))
  | CloseCall =>
      guard (closer_eqb (cl s) CNone) (Some (mkL (aitems s) (ph s) CCalled (lclosed s) (cancelled s) (ac s) (cap s)))
  | CloseRaw =>
      guard (closer_eqb (cl s) CCalled) (Some (mkL (aitems s) (ph s) CRawClosed true (cancelled s) (ac s) (cap s)))
  | CancelCtx =>
      guard (closer_eqb (cl s) CRawClosed) (Some (mkL (aitems s) (ph s) CCancelled (lclosed s) true (ac s) (cap s)))
  | DrainRecv i => guard (closer_eqb (cl s) CCancelled && negb (has ADraining (aitems s))) (tr i AUpgraded ADraining s)
  | DrainClose i => tr i ADraining AReleased s
  | CloseRet =>
      guard (closer_eqb (cl s) CCancelled && phase_eqb (ph s) PDone && negb (has ADraining (aitems s)))
            (Some (mkL (aitems s) (ph s) CReturned (lclosed s) (cancelled s) (ac s) (cap s)))
  end.

(* a step that is not enabled leaves the state unchanged *)
Definition astep_do (s : lst) (o : astep) : lst :=
  match astep_opt s o with Some s' => s' | None => s end.

Definition arun_l (s : lst) (ops : list astep) : lst := fold_left astep_do ops s.

(* ---- what the states mean ---------------------------------------------------- *)
(* the listener or one of its goroutines still holds something for the item *)
Definition held_by_listener (x : ast) : bool :=
  match x with ARaw | AUpgrading | AFailing | AUpgraded | ADropping | ADraining => true | _ => false end.
Definition raw_open (x : ast) : bool := match x with AFailing | AReleased => false | _ => true end.
Definition scope_open (x : ast) : bool := match x with AReleased => false | _ => true end.
(* settled: released, or owned by the caller of Accept *)
Definition settled (x : ast) : bool := match x with AReceived | AHanded | AReleased => true | _ => false end.
Definition final_item (x : ast) : bool := match x with AHanded | AReleased => true | _ => false end.

(* the steps that belong to the caller of Accept (and a repeated CloseCall never is enabled) *)
Definition accepter_step (o : astep) : bool :=
  match o with AcceptCall | AcceptRetLive _ | AcceptRetDead _ | AcceptEnd => true | _ => false end.

(* ---- wire format of an accept-pipeline close race (kind 8) --------------------
     8 cap lraw dconns dfd dmem dstreams goroutines  nconn (delivered raw_closed)*nconn  nev (code arg)*nev
   lraw: 1 = the raw (net) listener under the upgrader listener saw Close.
   d*: system+transient usage after everything returned and the harness closed the
   connections Accept had handed to it, minus the usage before the listener saw its
   first connection.  goroutines: goroutines left over.  Per raw connection the
   listener accepted (numbered in arrival order): delivered = Accept returned it
   to the harness; raw_closed = the server-side raw conn saw Close by the end.
   Events, in the order they were observed:
     1 i  the raw listener's Accept returned raw conn i          (LAccept)
     2 i  the code under test closed raw conn i                  (UpFail / Drop / DrainClose / AcceptRetDead)
     3 0  the harness calls listener.Accept                      (AcceptCall)
     4 i  listener.Accept returned conn i                        (AcceptRetLive)
     5 0  listener.Accept returned an error                      (AcceptEnd)
     6 0  the harness calls listener.Close                       (CloseCall)
     7 0  listener.Close returned                                (CloseRet)
   All other steps are internal. *)
Local Open Scope Z_scope.

Definition judge (obs : list (Z * Z)) (lraw dconn dfd dmem dstr gl : Z) : list Z :=
  let raws := forallb (fun ob : Z * Z => snd ob =? 1) obs in
  let usage := (dconn =? 0) && (dfd =? 0) && (dmem =? 0) && (dstr =? 0) in
  if raws && usage && (gl =? 0) && (lraw =? 1) then []
  else [ERR_PROPERTY; 8; boolz raws; boolz usage; boolz (gl =? 0); boolz (lraw =? 1)].

Definition accept_monitor (l : list Z) : list Z :=
  match l with
  | _ :: lraw :: dconn :: dfd :: dmem :: dstr :: gl :: n :: r =>
      match dec_streams (Z.to_nat n) r with
      | Some (obs, _) => judge obs lraw dconn dfd dmem dstr gl
      | None => [ERR_MALFORMED; 81]
      end
  | _ => [ERR_MALFORMED; 80]
  end.

(* the case line a run of the model that ended in state s would produce (the
   harness closes what Accept handed to it before it measures) *)
Definition item_obs (x : ast) : Z * Z := (boolz (ast_eqb x AHanded), boolz (final_item x)).
Fixpoint flat (l : list (Z * Z)) : list Z :=
  match l with [] => [] | (a, b) :: r => a :: b :: flat r end.
Definition leftover (s : lst) : Z := Z.of_nat (length (filter (fun x => negb (final_item x)) (aitems s))).
Definition gor_left (s : lst) : Z :=
  Z.of_nat (length (filter wg_counted (aitems s))) + (if phase_eqb (ph s) PDone then 0 else 1).
Definition model_case (s : lst) : list Z :=
  (Z.of_nat (cap s) :: boolz (lclosed s) :: leftover s :: leftover s :: 0 :: 0 :: gor_left s ::
   Z.of_nat (length (aitems s)) :: flat (map item_obs (aitems s)) ++ [0])%list.

(* ---- conformance: is the observed event sequence a trace of the LTS? --------- *)
Definition lst_eqb (a b : lst) : bool :=
  list_eqb ast_eqb (aitems a) (aitems b) && phase_eqb (ph a) (ph b) && closer_eqb (cl a) (cl b) &&
  Bool.eqb (lclosed a) (lclosed b) && Bool.eqb (cancelled a) (cancelled b) && accst_eqb (ac a) (ac b) &&
  Nat.eqb (cap a) (cap b).

Definition mem_l (s : lst) (l : list lst) : bool := existsb (lst_eqb s) l.

Fixpoint add_new (cands seen fresh : list lst) : list lst * list lst :=
  match cands with
  | [] => (seen, fresh)
  | c :: r => if mem_l c seen then add_new r seen fresh else add_new r (c :: seen) (c :: fresh)
  end.

Definition taus (n : nat) : list astep :=
  [LExit; LWgDone; CloseRaw; CancelCtx] ++
  flat_map (fun i => [LSpawn i; UpOk i; FailDone i; Timeout i; AcceptRecv i; DrainRecv i]) (seq 0 n).

Fixpoint filter_some {A} (l : list (option A)) : list A :=
  match l with [] => [] | Some x :: r => x :: filter_some r | None :: r => filter_some r end.

Definition succs (steps : lst -> list astep) (front : list lst) : list lst :=
  flat_map (fun s => filter_some (map (astep_opt s) (steps s))) front.

(* every state reachable from [front] by internal steps *)
Fixpoint closure (fuel : nat) (front seen : list lst) : list lst :=
  match fuel with
  | O => seen
  | S f =>
      let '(seen', fresh) := add_new (succs (fun s => taus (length (aitems s))) front) seen [] in
      match fresh with [] => seen' | _ => closure f fresh seen' end
  end.

Definition vis (code arg : Z) (s : lst) : list astep :=
  let i := Z.to_nat arg in
  if code =? 1 then (if Nat.eqb i (length (aitems s)) then [LAccept] else [])
  else if code =? 2 then [UpFail i; Drop i; DrainClose i; AcceptRetDead i]
  else if code =? 3 then [AcceptCall]
  else if code =? 4 then [AcceptRetLive i]
  else if code =? 5 then [AcceptEnd]
  else if code =? 6 then [CloseCall]
  else if code =? 7 then [CloseRet]
  else [].

(* returns the set of states after the trace, or the index of the first event no state can take *)
Fixpoint accept_trace (k : Z) (ss : list lst) (evs : list (Z * Z)) : list lst + Z :=
  let cls := closure 200 ss ss in
  match evs with
  | [] => inl cls
  | (c, a) :: r =>
      let '(nxt, _) := add_new (succs (vis c a) cls) [] [] in
      match nxt with
      | [] => inr k
      | _ => accept_trace (k + 1) nxt r
      end
  end.

Definition accept_conform (l : list Z) : list Z :=
  match l with
  | c :: lraw :: dconn :: dfd :: dmem :: dstr :: gl :: n :: r =>
      match dec_streams (Z.to_nat n) r with
      | Some (obs, nev :: r1) =>
          match dec_streams (Z.to_nat nev) r1 with
          | Some (evs, []) =>
              match accept_trace 0 [l0 (Z.to_nat c)] evs with
              | inr k => [ERR_MISMATCH; 82; k]
              | inl finals =>
                  (* some state the model can be in after this trace has Close returned and
                     shows exactly these per-connection observations *)
                  if existsb (fun s => closer_eqb (cl s) CReturned &&
                                       list_eqb (fun a b : Z * Z => (fst a =? fst b) && (snd a =? snd b))
                                                (map item_obs (aitems s)) obs) finals
                  then [] else [ERR_MISMATCH; 83; Z.of_nat (length finals)]
              end
          | _ => [ERR_MALFORMED; 83]
          end
      | _ => [ERR_MALFORMED; 82]
      end
  | _ => [ERR_MALFORMED; 80]
  end.

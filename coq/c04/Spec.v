(* C04 — balance predicate over paths, the flattened call chains, and the
   decoding of fault-enumeration cases.  No proofs here. *)
From Coq Require Import List String Bool Arith ZArith.
From Verif Require Import lib.Wire c04.Events c04.Model c04.Close c04.Accept c04.CloseOnce gen.Paths_c04.
Import ListNotations.
Local Open Scope string_scope.

Definition not_held (r : res) : bool := negb (res_eqb r Held).

Definition nothing_held (s : st) : bool :=
  not_held (raw s) && not_held (cscope s) && not_held (strm s) && not_held (sscope s).

Definition is_rok (o : option retk) : bool := match o with Some ROk => true | _ => false end.

(* how a path may end.  [vr] = the function returns (object, error): on a nil
   error the object owns what was acquired.  Otherwise (goroutines, loop
   iterations) ownership must have been handed over explicitly. *)
Definition ok_end (vr : bool) (s : st) : bool :=
  (match bad s with [] => true | _ => false end) &&
  Nat.eqb (gor s) 0 &&
  (handed s || (vr && is_rok (lastret s)) || nothing_held s).

Definition path_ok (vr : bool) (init : st) (p : list aev) : bool :=
  match arun init p with None => true | Some s => ok_end vr s end.

Definition feasible (init : st) (p : list aev) : bool :=
  match arun init p with None => false | Some _ => true end.

(* ---- classified + flattened call chains ---------------------------------- *)
Definition cl (f : fn) (ps : list (list ev)) : list (list aev) := map (classify_path f) ps.

Definition L_upgrade_inner := cl fn_upgrade_inner upgrade_inner.
Definition lib0 := [("upgrade_inner", L_upgrade_inner)].
Definition L_upgrade_outer := inline_all lib0 (cl fn_upgrade_outer upgrade_outer).
Definition lib1 := ("upgrade_outer", L_upgrade_outer) :: lib0.
Definition L_listener_go := inline_all lib1 (cl fn_listener_go listener_go).
Definition L_gated_accept := cl fn_gated_accept gated_accept.
Definition L_listener_accept := cl fn_listener_accept listener_accept.
Definition L_listener_loop := cl fn_listener_loop listener_loop.
Definition L_listener_close := cl fn_listener_close listener_close.
Definition L_host_streamhandler := cl fn_host_streamhandler host_streamhandler.
Definition L_tcp_dial_scope := inline_all lib1 (cl fn_tcp_dial_scope tcp_dial_scope).
Definition lib2 := ("tcp_dial_scope", L_tcp_dial_scope) :: lib1.
Definition L_tcp_dial := inline_all lib2 (cl fn_tcp_dial tcp_dial).
Definition L_ws_dial_scope := inline_all lib1 (cl fn_ws_dial_scope ws_dial_scope).
Definition L_ws_dial := inline_all (("ws_dial_scope", L_ws_dial_scope) :: lib1) (cl fn_ws_dial ws_dial).

Definition L_quic_dial_scope := cl fn_quic_dial_scope quic_dial_scope.
Definition L_quic_dial := inline_all [("quic_dial_scope", L_quic_dial_scope)] (cl fn_quic_dial quic_dial).
Definition L_quic_wrap_scope := cl fn_quic_wrap_scope quic_wrap_scope.
Definition L_quic_wrap := inline_all [("quic_wrap_scope", L_quic_wrap_scope)] (cl fn_quic_wrap quic_wrap).
Definition L_quic_accept := inline_all [("quic_wrap", L_quic_wrap)] (cl fn_quic_accept quic_accept).

Definition L_conn_addstream := cl fn_conn_addstream conn_addstream.
Definition lib3 := [("conn_addstream", L_conn_addstream)].
Definition L_conn_open_add := inline_all lib3 (cl fn_conn_open_add conn_open_add).
Definition lib4 := ("conn_open_add", L_conn_open_add) :: lib3.
Definition L_conn_newstream := inline_all lib4 (cl fn_conn_newstream conn_newstream).
Definition L_conn_start_accept := cl fn_conn_start_accept conn_start_accept.
Definition L_conn_start_handle := inline_all lib3 (cl fn_conn_start_handle conn_start_handle).
Definition L_host_newstream := cl fn_host_newstream host_newstream.

Definition L_swarm_addconn := cl fn_swarm_addconn swarm_addconn.
Definition L_swarm_listen_loop := cl fn_swarm_listen_loop swarm_listen_loop.
Definition L_swarm_listen_conn := inline_all [("swarm_addconn", L_swarm_addconn)] (cl fn_swarm_listen_conn swarm_listen_conn).
Definition L_swarm_dialaddr := cl fn_swarm_dialaddr swarm_dialaddr.

Definition L_identify_conn := cl fn_identify_conn identify_conn.
Definition L_tcpreuse_run := cl fn_tcpreuse_run tcpreuse_run.
Definition L_tcpreuse_go := inline_all [("identify_conn", L_identify_conn)] (cl fn_tcpreuse_go tcpreuse_go).

Definition L_wt_dial_scope := cl fn_wt_dial_scope wt_dial_scope.
Definition L_wt_dial := inline_all [("wt_dial_scope", L_wt_dial_scope)] (cl fn_wt_dial wt_dial).
Definition L_wt_http_scope := cl fn_wt_http_scope wt_http_scope.
Definition L_wt_http := inline_all [("wt_http_scope", L_wt_http_scope)] (cl fn_wt_http wt_http).
Definition L_relay_dial_up := inline_all lib1 (cl fn_relay_dial_up relay_dial_up).
Definition L_relay_dial := inline_all (("relay_dial_up", L_relay_dial_up) :: lib1) (cl fn_relay_dial relay_dial).

Definition L_rtc_setup := cl fn_rtc_setup rtc_setup.
Definition L_rtc_cand := inline_all [("rtc_setup", L_rtc_setup)] (cl fn_rtc_cand rtc_cand).
Definition L_rtc_listen_go := inline_all [("rtc_cand", L_rtc_cand)] (cl fn_rtc_listen_go rtc_listen_go).
Definition L_rtc_dial_inner := cl fn_rtc_dial_inner rtc_dial_inner.
Definition L_rtc_dial := inline_all [("rtc_dial_inner", L_rtc_dial_inner)] (cl fn_rtc_dial rtc_dial).

Definition L_ws_serve := cl fn_ws_serve ws_serve.
Definition L_ws_netaccept := cl fn_ws_netaccept ws_netaccept.

Definition L_swarm_addlisten := cl fn_swarm_addlisten swarm_addlisten.

Definition L_stream_close := cl fn_stream_close stream_close.
Definition L_stream_reset := cl fn_stream_close stream_reset.
Definition L_stream_reset_err := cl fn_stream_close stream_reset_err.

Definition st_conn := mkSt Held Held Absent Absent 0 false None None [] false.   (* raw conn + scope given *)
Definition st_raw := mkSt Held Absent Absent Absent 0 false None None [] false.    (* raw conn given, scope is the caller's *)
Definition st_stream := mkSt Absent Absent Held Held 0 false None None [] false.
Definition st_sstream := mkSt Absent Absent Held Absent 0 false None None [] false. (* a registered swarm stream (its scope goes with it) *)  (* muxed stream + stream scope given *)

(* an entry = (name, value-returning?, initial resources, flattened paths) *)
Definition entries : list (string * bool * st * list (list aev)) :=
  [("upgrader.upgrade", true, st_raw, L_upgrade_inner);
   ("upgrader.Upgrade", true, st_conn, L_upgrade_outer);
   ("listener.handleIncoming goroutine", false, st_conn, L_listener_go);
   ("gatedMaListener.Accept iteration", true, st0, L_gated_accept);
   ("TcpTransport.DialWithUpdates", true, st0, L_tcp_dial);
   ("Conn.NewStream", true, st0, L_conn_newstream);
   ("Conn.start accept-loop iteration", false, st0, L_conn_start_accept);
   ("Conn.start stream goroutine", false, st_stream, L_conn_start_handle);
   ("BasicHost.NewStream", true, st0, L_host_newstream);
   ("listener.Accept iteration", true, st0, L_listener_accept);
   ("listener.handleIncoming loop iteration", false, st0, L_listener_loop);
   ("BasicHost.newStreamHandler", false, st_sstream, L_host_streamhandler);
   ("WebsocketTransport.Dial", true, st0, L_ws_dial);
   ("quic transport.Dial", true, st0, L_quic_dial);
   ("quic listener.Accept iteration", true, st0, L_quic_accept);
   ("Swarm.addConn", true, st_conn, L_swarm_addconn);
   ("Swarm.AddListenAddr accept-loop iteration", false, st0, L_swarm_listen_loop);
   ("Swarm.AddListenAddr connection goroutine", false, st_conn, L_swarm_listen_conn);
   ("Swarm.dialAddr", true, st0, L_swarm_dialaddr);
   ("tcpreuse identifyConnType", true, st_raw, L_identify_conn);
   ("tcpreuse multiplexedListener.run iteration", false, st0, L_tcpreuse_run);
   ("tcpreuse multiplexedListener.run connection goroutine", false, st_conn, L_tcpreuse_go);
   ("webtransport transport.Dial", true, st0, L_wt_dial);
   ("webtransport listener.httpHandler", false, st0, L_wt_http);
   ("circuitv2 client.Dial", true, st0, L_relay_dial);
   ("webrtc listener.handleCandidate", true, st0, L_rtc_cand);
   ("webrtc listener.listen candidate goroutine", false, st0, L_rtc_listen_go);
   ("webrtc WebRTCTransport.Dial", true, st0, L_rtc_dial);
   ("websocket listener.ServeHTTP", false, st0, L_ws_serve);
   ("websocket httpNetListener.Accept", true, st0, L_ws_netaccept);
   ("Swarm.AddListenAddr", true, st0, L_swarm_addlisten);
   (* every return of listener.Close must leave every connection it drained released *)
   ("upgrader listener.Close", false, st0, L_listener_close);
   (* finishing calls: every return, with or without an error, must leave the stream released *)
   ("Stream.Close", false, st_sstream, L_stream_close);
   ("Stream.Reset", false, st_sstream, L_stream_reset);
   ("Stream.ResetWithError", false, st_sstream, L_stream_reset_err)].

Definition entry_ok (e : string * bool * st * list (list aev)) : bool :=
  let '(_, vr, init, ps) := e in forallb (path_ok vr init) ps.

Definition entry_feasible (e : string * bool * st * list (list aev)) : nat :=
  let '(_, _, init, ps) := e in List.length (filter (feasible init) ps).

(* unbalanced paths of an entry, as (index, resources still held / problems) for reports *)
Definition describe_end (s : st) : list string :=
  ((if res_eqb (raw s) Held then ["raw connection left open"] else []) ++
   (if res_eqb (cscope s) Held then ["connection scope not done"] else []) ++
   (if res_eqb (strm s) Held then ["stream not reset"] else []) ++
   (if res_eqb (sscope s) Held then ["stream scope not done"] else []) ++
   (if Nat.eqb (gor s) 0 then [] else ["goroutine not joined"]) ++
   bad s)%list.

Fixpoint bad_paths (vr : bool) (init : st) (i : nat) (ps : list (list aev)) : list (nat * list string) :=
  match ps with
  | [] => []
  | p :: r =>
      match arun init p with
      | Some s => if ok_end vr s then bad_paths vr init (S i) r
                  else (i, describe_end s) :: bad_paths vr init (S i) r
      | None => bad_paths vr init (S i) r
      end
  end.

Definition report : list (string * list (nat * list string)) :=
  map (fun e : string * bool * st * list (list aev) =>
         let '(n, vr, init, ps) := e in (n, bad_paths vr init 0 ps)) entries.

(* ---- fault-enumeration cases (wire format) -------------------------------
   One case = one attempt against the real code with one injected fault:
     kind cfg fault_kind fault_index  err raw_closed_local raw_closed_remote
          scope_delta_conns scope_delta_fd scope_delta_mem scope_delta_streams goroutines_left
   kind: 1 = outbound TCP dial through upgrader, 2 = inbound accept through
         upgrader listener, 3 = stream open (host.NewStream), 4 = swarm/host close,
         6 = raw TCP client against the shared tcpreuse listener, 7 = QUIC dial /
         accept with a rejecting gater or a refusing resource manager
         (5 = close race, own format: Close.v; 8 = accept pipeline against listener.Close, own format: Accept.v)
   err: 1 = the operation reported an error / no connection was delivered, 0 = success
   raw_closed_*: 1 = the harness's raw net.Conn on that end observed Close/EOF
   scope_delta_*: usage(system+transient) after - before the attempt
   goroutines_left: goroutines of the attempt still running after it ended
   The property (monitor): if err = 1 then the raw conn is closed, every delta is
   0 and no goroutine is left; if err = 0 the attempt's resources are released
   after the harness closes the resulting conn/stream (the harness closes it
   and reports the same fields after that, so the same rule applies). *)
Local Open Scope Z_scope.

Definition monitor_case (l : list Z) : list Z :=
  match l with
  | 5 :: r => close_monitor r      (* close race on a real swarm: see Close.v *)
  | 8 :: r => accept_monitor r     (* listener.Close racing with in-flight accepts: see Accept.v *)
  | 9 :: r => once_monitor r       (* concurrent callers of Swarm.Close: see CloseOnce.v *)
  | [kind; cfg; fk; fi; err; rcl; rcr; dconn; dfd; dmem; dstr; gl] =>
      let ok_raw := (rcl =? 1) && ((rcr =? 1) || (rcr =? 2)) in   (* 2 = not applicable *)
      let ok_scope := (dconn =? 0) && (dfd =? 0) && (dmem =? 0) && (dstr =? 0) in
      let ok_gor := gl =? 0 in
      if ok_raw && ok_scope && ok_gor then []
      else [ERR_PROPERTY; kind; fk; fi; boolz ok_raw; boolz ok_scope; boolz ok_gor]
  | _ => [ERR_MALFORMED; 0]
  end.

(* conformance: the observation must be an end state the path model allows for
   that kind of attempt: some feasible flattened path of the corresponding entry
   ends with the same (error?, everything released?) pair *)
Fixpoint find_entry (n : string) (l : list (string * bool * st * list (list aev)))
  : option (string * bool * st * list (list aev)) :=
  match l with
  | [] => None
  | e :: r => if String.eqb n (fst (fst (fst e))) then Some e else find_entry n r
  end.

(* kind 6: the tcpreuse listener's per-connection goroutine; kind 7: the QUIC
   transport, cfg 0 = dialing side, 1 = listening side *)
Definition entry_of_kind (kind cfg : Z) : option (string * bool * st * list (list aev)) :=
  if kind =? 1 then nth_error entries 4
  else if kind =? 2 then nth_error entries 2
  else if kind =? 3 then nth_error entries 8
  else if kind =? 6 then find_entry "tcpreuse multiplexedListener.run connection goroutine"%string entries
  else if kind =? 7 then
    (if cfg =? 0 then find_entry "quic transport.Dial"%string entries
     else find_entry "quic listener.Accept iteration"%string entries)
  else None.

Definition end_released (vr : bool) (s : st) : bool :=
  (* what the harness sees after it has closed whatever was returned *)
  handed s || (vr && is_rok (lastret s)) || nothing_held s.

Definition conform_case (l : list Z) : list Z :=
  match l with
  | 5 :: r => close_conform r
  | 8 :: r => accept_conform r
  | 9 :: r => once_conform r
  | [kind; cfg; fk; fi; err; rcl; rcr; dconn; dfd; dmem; dstr; gl] =>
      if kind =? 4 then [] else
      match entry_of_kind kind cfg with
      | None => [ERR_MALFORMED; 1]
      | Some (_, vr, init, ps) =>
          let released := (rcl =? 1) && (dconn =? 0) && (dfd =? 0) && (dmem =? 0) && (dstr =? 0) && (gl =? 0) in
          if existsb (fun p => match arun init p with
                               | Some s => Bool.eqb (end_released vr s && Nat.eqb (gor s) 0) released
                               | None => false end) ps
          then [] else [ERR_MISMATCH; kind; fk; fi; boolz released]
      end
  | _ => [ERR_MALFORMED; 0]
  end.

(* C04 — property theorems.  The paths quantified over are those of
   gen/Paths_c04.v, regenerated from /repo's source by tools/genpaths on every
   run, so these theorems are re-checked against what the code says now. *)
From Coq Require Import List String Bool Arith.
From Verif Require Import c04.Events c04.Model c04.Spec c04.Proofs gen.Paths_c04.
Import ListNotations.

(* Every control-flow path of every listed entry point — with the listed callees
   inlined: DialWithUpdates > dialWithScope > Upgrade > upgrade; the listener's
   per-connection goroutine > Upgrade > upgrade; Conn.NewStream >
   openAndAddStream > addStream; the inbound stream goroutine > addStream;
   gatedMaListener.Accept; the accept loop; BasicHost.NewStream — ends balanced:
   no unclassified call, every goroutine it started joined, and either ownership
   was handed over (returned object on a nil error, accept queue, stream
   registry/handler) or nothing it acquired is still held: the raw connection
   closed, the connection scope done, the stream reset, the stream scope done. *)
Theorem c04_all_paths_balanced :
  forall name vr init ps, In (name, vr, init, ps) entries ->
  forall p s, In p ps -> arun init p = Some s -> ok_end vr s = true.
Proof. apply entries_ok_reflect. vm_compute. reflexivity. Qed.
Print Assumptions c04_all_paths_balanced.

(* in particular: an error return leaves nothing held *)
Theorem c04_error_return_releases_everything :
  forall name init ps, In (name, true, init, ps) entries ->
  forall p s, In p ps -> arun init p = Some s ->
  handed s = false -> lastret s = Some RErr ->
  raw s <> Held /\ cscope s <> Held /\ strm s <> Held /\ sscope s <> Held.
Proof.
  intros name init ps Hin p s Hp Hrun Hh Hr.
  apply err_return_releases; [|exact Hh|exact Hr].
  exact (c04_all_paths_balanced name true init ps Hin p s Hp Hrun).
Qed.
Print Assumptions c04_error_return_releases_everything.

(* inlining is sound for the interpreter: a caller's path with a callee's path
   spliced in runs as the two in sequence *)
Theorem c04_inline_sequential : forall p q s,
  arun s (p ++ q) = match arun s p with Some s' => arun s' q | None => None end.
Proof. intros p q s. exact (arun_app p q s). Qed.
Print Assumptions c04_inline_sequential.

(* ---- non-vacuity ---------------------------------------------------------- *)
(* every entry has feasible paths, and the tables reject a leaking path: the
   ErrNilPeer return as it was before the repair (no Close before the return) *)
Example entries_nonempty :
  forallb (fun e => Nat.ltb 0 (entry_feasible e)) entries = true.
Proof. vm_compute. reflexivity. Qed.

Example leaking_path_rejected :
  path_ok true st_raw
    (classify_path fn_upgrade_inner
       [Cond "dir == network.DirOutbound && p == """"" true; Ret RErr]) = false.
Proof. vm_compute. reflexivity. Qed.

Example unclassified_call_rejected :
  path_ok true st_raw
    (classify_path fn_upgrade_inner [Call "conn.Shutdown" NA; Call "conn.Close" NA; Ret RErr]) = false.
Proof. vm_compute. reflexivity. Qed.

(* C04 — property theorems.  The paths quantified over are those of
   gen/Paths_c04.v, regenerated from /repo's source by tools/genpaths on every
   run, so these theorems are re-checked against what the code says now. *)
From Coq Require Import List String Bool Arith ZArith.
From Verif Require Import c04.Events c04.Model c04.Close c04.Spec c04.Proofs c04.Proofs_Close gen.Paths_c04.
Import ListNotations.

(* Every control-flow path of every listed entry point — with the listed callees
   inlined: DialWithUpdates > dialWithScope > Upgrade > upgrade; the listener's
   per-connection goroutine > Upgrade > upgrade; Conn.NewStream >
   openAndAddStream > addStream; the inbound stream goroutine > addStream;
   gatedMaListener.Accept; the accept loop; BasicHost.NewStream — ends balanced:
   no unclassified call, every goroutine it started joined, and either ownership
   was handed over (returned object on a nil error, accept queue, stream
   registry/handler) or nothing it acquired is still held: the raw connection
   closed, the connection scope done, the stream reset, the stream scope done. *)
Theorem c04_all_paths_balanced :
  forall name vr init ps, In (name, vr, init, ps) entries ->
  forall p s, In p ps -> arun init p = Some s -> ok_end vr s = true.
Proof. apply entries_ok_reflect. vm_compute. reflexivity. Qed.
Print Assumptions c04_all_paths_balanced.

(* in particular: an error return leaves nothing held *)
Theorem c04_error_return_releases_everything :
  forall name init ps, In (name, true, init, ps) entries ->
  forall p s, In p ps -> arun init p = Some s ->
  handed s = false -> lastret s = Some RErr ->
  raw s <> Held /\ cscope s <> Held /\ strm s <> Held /\ sscope s <> Held.
Proof.
  intros name init ps Hin p s Hp Hrun Hh Hr.
  apply err_return_releases; [|exact Hh|exact Hr].
  exact (c04_all_paths_balanced name true init ps Hin p s Hp Hrun).
Qed.
Print Assumptions c04_error_return_releases_everything.

(* inlining is sound for the interpreter: a caller's path with a callee's path
   spliced in runs as the two in sequence *)
Theorem c04_inline_sequential : forall p q s,
  arun s (p ++ q) = match arun s p with Some s' => arun s' q | None => None end.
Proof. intros p q s. exact (arun_app p q s). Qed.
Print Assumptions c04_inline_sequential.

(* "After a swarm has been closed ... all of its listeners, connections and
   streams are gone", for EVERY interleaving of Swarm.close with in-flight
   AddListenAddr, addConn, addStream, Conn.Close, listener and stream closes
   (each critical section and each release one step; Close.v): in any state in
   which the swarm's close has run its critical sections and nothing is in flight
   (no add between its call and its end, every snapshot released), every
   listener, every connection and every stream ever offered has been released. *)
Theorem c04_close_all_gone : forall ops,
  swarm_closed (srun sw0 ops) = true -> quiescent (srun sw0 ops) = true ->
  all_gone (srun sw0 ops) = true.
Proof. exact close_all_gone. Qed.
Print Assumptions c04_close_all_gone.

(* the invariant behind it holds in every reachable state: in a closed registry
   an item is Registered only if the closer's snapshot still holds it, and a
   stream registry that is still open belongs to a still registered connection *)
Theorem c04_close_invariant : forall ops, sinv (srun sw0 ops).
Proof. intros ops. exact (sinv_run ops sw0 sinv0). Qed.
Print Assumptions c04_close_invariant.

(* ---- non-vacuity ---------------------------------------------------------- *)
(* a race: conn 0 registered with a stream, the swarm closes, conn 1's add and
   a second stream on conn 0 arrive late; at quiescence everything is released *)
Example close_race_example :
  let s := srun sw0 [SOffer 0; SAddCS 0; TOffer 0 0; TAddCS 0 0; SOffer 1; TOffer 0 1; LOffer 0; LAddCS 0; LOffer 1;
                     LCloseCS; SCloseCS; SAddCS 1; SCloseRel 0; TAddCS 0 1; TCloseRel 0 0; SAddRel 1; TAddRel 0 1;
                     LAddCS 1; LCloseRel 0; LAddRel 1] in
  swarm_closed s = true /\ quiescent s = true /\ all_gone s = true /\
  get 1 (items (conns s)) = Some Released /\ get 1 (items (sget 0 (strs s))) = Some Released /\
  get 1 (items (lsts s)) = Some Released.
Proof. vm_compute. repeat split; reflexivity. Qed.

(* before the late add has released its item the state is not quiescent, so the
   premise of the theorem is not trivially true *)
Example close_race_not_yet :
  let s := srun sw0 [SOffer 0; SCloseCS; SAddCS 0] in
  quiescent s = false /\ all_gone s = false.
Proof. vm_compute. split; reflexivity. Qed.

Example close_monitor_rejects_open_conn :
  monitor_case [5; 1; 1; 0; 0;  0;  0; 0; 0; 0]%Z <> [].
Proof. vm_compute. discriminate. Qed.

(* a listener whose AddListenAddr lost the race with Close and was left open *)
Example close_monitor_rejects_open_listener :
  monitor_case [5; 0;  1; 0; 0;  0; 0; 0; 0]%Z <> [] /\ monitor_case [5; 0;  1; 0; 1;  0; 0; 0; 0]%Z = [].
Proof. vm_compute. split; [discriminate|reflexivity]. Qed.

(* every entry has feasible paths, and the tables reject a leaking path: the
   ErrNilPeer return as it was before the repair (no Close before the return) *)
Example entries_nonempty :
  forallb (fun e => Nat.ltb 0 (entry_feasible e)) entries = true.
Proof. vm_compute. reflexivity. Qed.

Example leaking_path_rejected :
  path_ok true st_raw
    (classify_path fn_upgrade_inner
       [Cond "dir == network.DirOutbound && p == """"" true; Ret RErr]) = false.
Proof. vm_compute. reflexivity. Qed.

Example unclassified_call_rejected :
  path_ok true st_raw
    (classify_path fn_upgrade_inner [Call "conn.Shutdown" NA; Call "conn.Close" NA; Ret RErr]) = false.
Proof. vm_compute. reflexivity. Qed.

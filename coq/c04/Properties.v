(* C04 — property theorems.  The paths quantified over are those of
   gen/Paths_c04.v, regenerated from /repo's source by tools/genpaths on every
   run, so these theorems are re-checked against what the code says now. *)
From Coq Require Import List String Bool Arith ZArith.
From Verif Require Import lib.Wire c04.Events c04.Model c04.Close c04.Accept c04.CloseOnce c04.Spec c04.Proofs c04.Proofs_Close c04.Proofs_Accept c04.Proofs_Once gen.Paths_c04.
Import ListNotations.

(* Every control-flow path of every listed entry point — with the listed callees
   inlined: DialWithUpdates > dialWithScope > Upgrade > upgrade; the listener's
   per-connection goroutine > Upgrade > upgrade; Conn.NewStream >
   openAndAddStream > addStream; the inbound stream goroutine > addStream;
   gatedMaListener.Accept; the accept loop; BasicHost.NewStream — ends balanced:
   no unclassified call, every goroutine it started joined, and either ownership
   was handed over (returned object on a nil error, accept queue, stream
   registry/handler) or nothing it acquired is still held: the raw connection
   closed, the connection scope done, the stream reset, the stream scope done. *)
Theorem c04_all_paths_balanced :
  forall name vr init ps, In (name, vr, init, ps) entries ->
  forall p s, In p ps -> arun init p = Some s -> ok_end vr s = true.
Proof. apply entries_ok_reflect. vm_compute. reflexivity. Qed.
Print Assumptions c04_all_paths_balanced.

(* in particular: an error return leaves nothing held *)
Theorem c04_error_return_releases_everything :
  forall name init ps, In (name, true, init, ps) entries ->
  forall p s, In p ps -> arun init p = Some s ->
  handed s = false -> lastret s = Some RErr ->
  raw s <> Held /\ cscope s <> Held /\ strm s <> Held /\ sscope s <> Held.
Proof.
  intros name init ps Hin p s Hp Hrun Hh Hr.
  apply err_return_releases; [|exact Hh|exact Hr].
  exact (c04_all_paths_balanced name true init ps Hin p s Hp Hrun).
Qed.
Print Assumptions c04_error_return_releases_everything.

(* inlining is sound for the interpreter: a caller's path with a callee's path
   spliced in runs as the two in sequence *)
Theorem c04_inline_sequential : forall p q s,
  arun s (p ++ q) = match arun s p with Some s' => arun s' q | None => None end.
Proof. intros p q s. exact (arun_app p q s). Qed.
Print Assumptions c04_inline_sequential.

(* "After a swarm has been closed ... all of its listeners, connections and
   streams are gone", for EVERY interleaving of Swarm.close with in-flight
   AddListenAddr, addConn, addStream, Conn.Close, listener and stream closes
   (each critical section and each release one step; Close.v): in any state in
   which the swarm's close has run its critical sections and nothing is in flight
   (no add between its call and its end, every snapshot released), every
   listener, every connection and every stream ever offered has been released. *)
Theorem c04_close_all_gone : forall ops,
  swarm_closed (srun sw0 ops) = true -> quiescent (srun sw0 ops) = true ->
  all_gone (srun sw0 ops) = true.
Proof. exact close_all_gone. Qed.
Print Assumptions c04_close_all_gone.

(* the invariant behind it holds in every reachable state: in a closed registry
   an item is Registered only if the closer's snapshot still holds it, and a
   stream registry that is still open belongs to a still registered connection *)
Theorem c04_close_invariant : forall ops, sinv (srun sw0 ops).
Proof. intros ops. exact (sinv_run ops sw0 sinv0). Qed.
Print Assumptions c04_close_invariant.

(* ---- the upgrader listener's accept pipeline against listener.Close (Accept.v) ----
   Every step of an in-flight accept is one transition (raw conn accepted with its
   scope; parked at the threshold; upgrading; upgrade failed; upgraded and waiting
   to be handed over; dropped by the accept timeout or the cancelled context;
   received by Accept; received by Close's drain loop), and so is every step of
   Close (closing the raw listener, cancelling the context, draining, returning)
   and of the accept loop's exit (wg.Wait, close(l.incoming)).

   "a close racing with any of these": for EVERY schedule, once listener.Close has
   returned, every connection the listener ever accepted is released (raw conn
   closed, scope done) or has been received by the caller of Accept, who owns it;
   the listener and its goroutines hold nothing. *)
Theorem c04_accept_close_nothing_held : forall c ops,
  let s := arun_l (l0 c) ops in
  Accept.cl s = CReturned ->
  forallb settled (aitems s) = true /\ forallb (fun x => negb (held_by_listener x)) (aitems s) = true.
Proof.
  intros c ops s Hc. pose proof (ainv_run ops (l0 c) (ainv0 c)) as Hs.
  split; [exact (returned_settled _ Hs Hc)|exact (returned_nothing_held _ Hs Hc)].
Qed.
Print Assumptions c04_accept_close_nothing_held.

(* "no goroutine started for the attempt keeps running": after Close has returned
   no step of the accept loop, of a per-connection goroutine or of Close is
   enabled; only the caller of Accept can still move (return the connection it
   received, or get the listener's error). *)
Theorem c04_accept_close_no_step_left : forall c ops o,
  let s := arun_l (l0 c) ops in
  Accept.cl s = CReturned -> accepter_step o = false -> astep_opt s o = None.
Proof.
  intros c ops o s Hc Ho. exact (returned_no_listener_step _ o (ainv_run ops (l0 c) (ainv0 c)) Hc Ho).
Qed.
Print Assumptions c04_accept_close_no_step_left.

(* the monitor that judges the harness's kind-8 case lines accepts the line of
   every run of the model in which Close has returned and Accept is not holding
   a connection it has not returned yet *)
Theorem c04_accept_monitor_accepts_model : forall c ops,
  let s := arun_l (l0 c) ops in
  Accept.cl s = CReturned -> has AReceived (aitems s) = false ->
  monitor_case (8 :: model_case s)%Z = [].
Proof.
  intros c ops s Hc Hr. exact (model_case_accepted _ (ainv_run ops (l0 c) (ainv0 c)) Hc Hr).
Qed.
Print Assumptions c04_accept_monitor_accepts_model.

Theorem c04_accept_invariant : forall c ops, ainv (arun_l (l0 c) ops).
Proof. intros c ops. exact (ainv_run ops (l0 c) (ainv0 c)). Qed.
Print Assumptions c04_accept_invariant.

(* ---- closeOnce and the refs WaitGroup (CloseOnce.v) ----------------------------
   "After a swarm ... has been closed": whenever ANY caller's Swarm.Close has
   returned — the one that ran close() or one that was blocked in closeOnce.Do —
   close() has finished and every count of s.refs has been given back, i.e. every
   listener's accept goroutine, every connection's start loop and close
   notification, every goroutine adding an accepted connection and every goroutine
   close() started has ended; for every schedule, any number of callers. *)
Theorem c04_close_once_returned_means_done : forall n ops,
  let s := crun (c0 n) ops in
  some_returned s = true -> bd s = B3 /\ all_done s = true.
Proof. intros n ops s H. exact (returned_all_done _ (cinv_run ops (c0 n) (cinv0 n)) H). Qed.
Print Assumptions c04_close_once_returned_means_done.

Theorem c04_once_monitor_accepts_model : forall n ops,
  monitor_case (9 :: once_case (crun (c0 n) ops))%Z = [].
Proof. intros n ops. exact (once_case_accepted _ (cinv_run ops (c0 n) (cinv0 n))). Qed.
Print Assumptions c04_once_monitor_accepts_model.

(* ---- non-vacuity ---------------------------------------------------------- *)
(* a race: conn 0 registered with a stream, the swarm closes, conn 1's add and
   a second stream on conn 0 arrive late; at quiescence everything is released *)
Example close_race_example :
  let s := srun sw0 [SOffer 0; SAddCS 0; TOffer 0 0; TAddCS 0 0; SOffer 1; TOffer 0 1; LOffer 0; LAddCS 0; LOffer 1;
                     LCloseCS; SCloseCS; SAddCS 1; SCloseRel 0; TAddCS 0 1; TCloseRel 0 0; SAddRel 1; TAddRel 0 1;
                     LAddCS 1; LCloseRel 0; LAddRel 1] in
  swarm_closed s = true /\ quiescent s = true /\ all_gone s = true /\
  get 1 (items (conns s)) = Some Released /\ get 1 (items (sget 0 (strs s))) = Some Released /\
  get 1 (items (lsts s)) = Some Released.
Proof. vm_compute. repeat split; reflexivity. Qed.

(* before the late add has released its item the state is not quiescent, so the
   premise of the theorem is not trivially true *)
Example close_race_not_yet :
  let s := srun sw0 [SOffer 0; SCloseCS; SAddCS 0] in
  quiescent s = false /\ all_gone s = false.
Proof. vm_compute. split; reflexivity. Qed.

Example close_monitor_rejects_open_conn :
  monitor_case [5; 1; 1; 0; 0;  0;  0; 0; 0; 0]%Z <> [].
Proof. vm_compute. discriminate. Qed.

(* a listener whose AddListenAddr lost the race with Close and was left open *)
Example close_monitor_rejects_open_listener :
  monitor_case [5; 0;  1; 0; 0;  0; 0; 0; 0]%Z <> [] /\ monitor_case [5; 0;  1; 0; 1;  0; 0; 0; 0]%Z = [].
Proof. vm_compute. split; [discriminate|reflexivity]. Qed.

(* every entry has feasible paths, and the tables reject a leaking path: the
   ErrNilPeer return as it was before the repair (no Close before the return) *)
Example entries_nonempty :
  forallb (fun e => Nat.ltb 0 (entry_feasible e)) entries = true.
Proof. vm_compute. reflexivity. Qed.

Example leaking_path_rejected :
  path_ok true st_raw
    (classify_path fn_upgrade_inner
       [Cond "dir == network.DirOutbound && p == """"" true; Ret RErr]) = false.
Proof. vm_compute. reflexivity. Qed.

Example unclassified_call_rejected :
  path_ok true st_raw
    (classify_path fn_upgrade_inner [Call "conn.Shutdown" NA; Call "conn.Close" NA; Ret RErr]) = false.
Proof. vm_compute. reflexivity. Qed.

(* accept pipeline: queue length 1; conn 0 is upgraded and handed to Accept, conn 1 is
   upgraded and waits, conn 2 is parked at the threshold when Close is called: Close
   drains conn 1, conn 2's upgrade fails on the cancelled context, the loop leaves *)
Example accept_race_example :
  let s := arun_l (l0 1) [LAccept; LSpawn 0; UpOk 0; AcceptCall; AcceptRecv 0; AcceptRetLive 0; LAccept; LSpawn 1; UpOk 1;
                          LAccept; CloseCall; CloseRaw; CancelCtx; DrainRecv 1; DrainClose 1; LSpawn 2; UpFail 2; FailDone 2;
                          LExit; LWgDone; CloseRet] in
  Accept.cl s = CReturned /\ aitems s = [AHanded; AReleased; AReleased] /\ monitor_case (8 :: model_case s)%Z = [].
Proof. vm_compute. repeat split; reflexivity. Qed.

(* Close cannot return while an upgraded connection still waits: the premise of the theorems is not trivially reachable *)
Example accept_close_waits :
  let s := arun_l (l0 1) [LAccept; LSpawn 0; UpOk 0; CloseCall; CloseRaw; CancelCtx; LExit; LWgDone; CloseRet] in
  Accept.cl s = CCancelled /\ ph s = PExit.
Proof. vm_compute. split; reflexivity. Qed.

(* the monitor rejects a connection whose raw conn was left open, leftover usage, and a raw listener left open *)
Example accept_monitor_rejects :
  (monitor_case [8; 1; 1;0;0;0;0;0; 1; 0;0; 0]%Z <> []) /\ (monitor_case [8; 1; 1;1;0;0;0;0; 1; 0;1; 0]%Z <> []) /\
  (monitor_case [8; 1; 0;0;0;0;0;0; 1; 0;1; 0]%Z <> []) /\ (monitor_case [8; 1; 1;0;0;0;0;0; 1; 0;1; 0]%Z = []).
Proof. vm_compute. repeat split; try discriminate; reflexivity. Qed.

(* conformance rejects a trace in which Close returns before the queued connection was closed *)
Example accept_conform_rejects :
  (conform_case [8; 1; 1;0;0;0;0;0; 1; 0;1; 4; 1;0; 6;0; 7;0; 2;0]%Z <> []) /\
  (conform_case [8; 1; 1;0;0;0;0;0; 1; 0;1; 4; 1;0; 6;0; 2;0; 7;0]%Z = []).
Proof. vm_compute. split; [discriminate|reflexivity]. Qed.

(* two callers: the second is blocked until close() has finished; before that nobody has returned *)
Example once_example :
  let s1 := crun (c0 2) [HStartReg; KCall 0; KCall 1; BodyCS; KUnblock 1; BodyWait] in
  let s2 := crun s1 [HEnd 0; BodyWait; BodyEnd; KUnblock 1] in
  (some_returned s1 = false) /\ (all_done s1 = false) /\ (callers s2 = [KReturned; KReturned]) /\ (all_done s2 = true) /\
  (conform_case [9; 2; 1; 1]%Z = []) /\ (monitor_case [9; 2; 1; 0]%Z <> []).
Proof. vm_compute. repeat split; try reflexivity; discriminate. Qed.

(* C04 — release on every failure path.
   The model is: (1) the control-flow paths of the anchored functions, which are
   NOT written here but regenerated from /repo by tools/genpaths
   (gen/Paths_c04.v); (2) the tables below, which say what each call that occurs
   in those functions does to the resources an attempt holds (the raw network
   connection, the connection scope, a muxed/swarm stream, a stream scope,
   goroutines), which calls are other listed functions (inlined), and which are
   neutral.  A call that occurs in the source and is in no table is an
   *unclassified* event and makes the path unbalanced: the tables must know
   every call of the listed functions, so an edit that adds or renames a call
   has to be reflected here before the obligations check again.  No proofs in
   this file. *)
From Coq Require Import List String Bool Arith.
From Verif Require Import c04.Events.
Import ListNotations.
Local Open Scope string_scope.

Inductive res := Absent | Held | Released.

Definition res_eqb (a b : res) : bool :=
  match a, b with
  | Absent, Absent | Held, Held | Released, Released => true
  | _, _ => false
  end.

Inductive eff :=
| Nop
| AcqRaw | RelRaw          (* underlying network connection opened / closed *)
| AcqScope | RelScope      (* connection management scope opened / Done *)
| AcqStrm | RelStrm        (* muxed or swarm stream opened / reset *)
| AcqSScope | RelSScope    (* stream management scope opened / Done *)
| NoScope                  (* the accepted connection came without a scope (connScope == nil) *)
| AcqConn                  (* an upgraded connection is received from the accept queue: its raw
                              conn and its scope are now this code's to release or hand on *)
| RelConn                  (* transportConn.Close/CloseWithError: closes the muxed conn
                              (hence the raw conn) and Dones the scope (upgrader/conn.go) *)
| HandOver                 (* ownership passes on: accept queue, stream registry, handler goroutine *)
| GoSpawn | GoJoin         (* goroutine started / waited for *)
| Impossible.              (* this outcome cannot occur for this call: classification error *)

(* conditions whose truth is determined by the abstract state (used to prune
   infeasible paths); all other conditions are free *)
Inductive condk :=
| CRetErrAndStream         (* "strErr != nil && s != nil" in a deferred literal *)
| CEffect (etrue efalse : eff)    (* a condition whose outcome tells something about the
                                     resources: the effect of the taken branch is applied *)
| CSetFlag                        (* the branch taken is remembered ... *)
| CTestFlag                       (* ... and a later condition on the same local variable must agree *)
| CRetErr                         (* "err != nil" on the named error result in a deferred literal:
                                     true exactly when the function is returning an error *)
| CCalleeRetErr                   (* the same inside an inlined callee *)
| CRawHeld.                       (* "x != nil" for the variable holding the raw connection: true once it was acquired *)

Inductive aev :=
| AEff (e : eff)
| AInline (f : string) (o : outcome)
| ACond (k : condk) (b : bool)
| ARet (r : retk)
| ACalleeRet (r : retk)
| AEnd
| ABad (what : string).

Record fn := mkFn {
  f_name : string;
  f_calls : list (string * (eff * eff * eff));   (* callee -> effect when OK / FAIL / NA *)
  f_inline : list (string * string);            (* callee text -> listed function *)
  f_comms : list (string * eff);                (* channel operations that matter *)
  f_conds : list (string * condk);
  f_gostart : eff;
  f_neutral : list string                       (* calls with no effect on the resources *)
}.

Fixpoint lookup {A} (k : string) (l : list (string * A)) : option A :=
  match l with
  | [] => None
  | (k', v) :: r => if String.eqb k k' then Some v else lookup k r
  end.

Definition neutral_prefixes : list string :=
  ["log."; "fmt."; "errors."; "context."; "time."; "network."].

Definition is_neutral (f : fn) (c : string) : bool :=
  existsb (fun p => prefix p c) neutral_prefixes || existsb (String.eqb c) (f_neutral f).

Definition classify_call (f : fn) (c : string) (o : outcome) : aev :=
  match lookup c (f_inline f) with
  | Some g => AInline g o
  | None =>
    match lookup c (f_calls f) with
    | Some (eo, ef, en) => AEff (match o with OK => eo | FAIL => ef | NA => en end)
    | None => if is_neutral f c then AEff Nop else ABad c
    end
  end.

Definition classify (f : fn) (e : ev) : list aev :=
  match e with
  | Call c o => [classify_call f c o]
  | Deferred c => [classify_call f c NA]
  | Cond t b => match lookup t (f_conds f) with Some k => [ACond k b] | None => [] end
  | Comm t => match lookup t (f_comms f) with Some x => [AEff x] | None => [] end
  | CaseOf _ => []
  | Ret r => [ARet r]
  | GoStart _ => [AEff (f_gostart f)]
  | Cont | Brk | LoopEnd => [AEnd]
  | Unknown s => [ABad ("unknown statement: " ++ s)]
  end.

Definition classify_path (f : fn) (p : list ev) : list aev := flat_map (classify f) p.

(* ---- the tables --------------------------------------------------------- *)
(* In every function the names below denote the same underlying network
   connection: closing any wrapper closes it (pnet conn, secure conn, tracing
   conn all forward Close). *)

Definition fn_upgrade_inner := mkFn "upgrade_inner"
  [("conn.Close", (RelRaw, RelRaw, RelRaw));
   ("maconn.Close", (RelRaw, RelRaw, RelRaw));
   ("sconn.Close", (RelRaw, RelRaw, RelRaw))]
  [] [] [] Nop
  ["conn.RemoteAddr"; "connScope.PeerScope"; "connScope.SetPeer"; "cs.Stat";
   "maconn.RemoteMultiaddr"; "pnet.NewProtectedConn"; "sconn.ConnState"; "sconn.RemotePeer";
   "u.connGater.InterceptSecured"; "u.setupMuxer"; "u.setupSecurity"].

Definition fn_upgrade_outer := mkFn "upgrade_outer"
  [("connScope.Done", (RelScope, RelScope, RelScope))]
  [("u.upgrade", "upgrade_inner")] [] [] Nop [].

Definition fn_listener_go := mkFn "listener_go"
  [("connScope.Done", (RelScope, RelScope, RelScope));
   ("conn.CloseWithError", (RelConn, RelConn, RelConn))]
  [("l.upgrader.Upgrade", "upgrade_outer")]
  [("l.incoming <- conn", HandOver)] [] Nop
  ["cancel"; "conn.RemotePeer"; "l.ctx.Err"; "l.threshold.Acquire"; "l.threshold.Release";
   "maconn.LocalMultiaddr"; "maconn.RemoteMultiaddr"; "wg.Done"].

(* listener.handleIncoming: one iteration of the accept loop; the goroutine it
   starts (listener_go) takes the connection and its scope over *)
Definition fn_listener_loop := mkFn "listener_loop"
  [("l.GatedMaListener.Accept", (AcqConn, Nop, Impossible));
   ("maconn.Close", (RelRaw, RelRaw, RelRaw))]
  [] []
  [("connScope == nil", CEffect NoScope Nop)]
  HandOver
  ["catcher.IsTemporary"; "catcher.Reset"; "close"; "l.GatedMaListener.Close"; "l.ctx.Err";
   "l.threshold.Wait"; "maconn.LocalMultiaddr"; "maconn.RemoteMultiaddr"; "wg.Add"; "wg.Wait"].

(* BasicHost.newStreamHandler: owns the inbound swarm stream (resetting it
   releases its scope) until it hands it to the protocol handler *)
Definition fn_host_streamhandler := mkFn "host_streamhandler"
  [("s.Reset", (RelStrm, RelStrm, RelStrm));
   ("s.ResetWithError", (RelStrm, RelStrm, RelStrm));
   ("handle", (HandOver, HandOver, HandOver))]
  [] [] [] Nop
  ["h.Mux"; "h.Mux().Negotiate"; "s.Conn"; "s.Conn().RemoteMultiaddr"; "s.Conn().RemotePeer"; "s.ID";
   "s.SetDeadline"; "s.SetProtocol"].

(* listener.Accept: one iteration of `for c := range l.incoming` *)
Definition fn_listener_accept := mkFn "listener_accept"
  [("c.IsClosed", (RelRaw, Nop, Nop));     (* IsClosed() = true: the muxed conn, hence the raw conn, is closed *)
   ("c.Close", (RelConn, RelConn, RelConn))]
  [] []
  [("range l.incoming has next", CEffect AcqConn Nop)]
  Nop
  ["l.err.Error"; "strings.Contains"].

(* listener.Close: closes the raw listener, cancels, then drains l.incoming: every
   upgraded connection it receives is its to release *)
Definition fn_listener_close := mkFn "listener_close"
  [("c.Close", (RelConn, RelConn, RelConn))]
  [] []
  [("range l.incoming has next", CEffect AcqConn Nop)]
  Nop
  ["l.GatedMaListener.Close"; "l.cancel"].

Definition fn_gated_accept := mkFn "gated_accept"
  [("l.Listener.Accept", (AcqRaw, Nop, Impossible));
   ("conn.Close", (RelRaw, RelRaw, RelRaw));
   ("l.rcmgr.OpenConnection", (AcqScope, Nop, Impossible))]
  [] [] [] Nop
  ["conn.LocalMultiaddr"; "conn.RemoteMultiaddr"; "l.connGater.InterceptAccept"].

Definition fn_tcp_dial := mkFn "tcp_dial"
  [("t.rcmgr.OpenConnection", (AcqScope, Nop, Impossible));
   ("connScope.Done", (RelScope, RelScope, RelScope))]
  [("t.dialWithScope", "tcp_dial_scope")] [] [] Nop [].

Definition fn_tcp_dial_scope := mkFn "tcp_dial_scope"
  [("t.maDial", (AcqRaw, Nop, Impossible));
   ("conn.Close", (RelRaw, RelRaw, RelRaw))]
  [("t.upgrader.Upgrade", "upgrade_outer")] [] [] Nop
  ["connScope.SetPeer"; "newTracingConn"; "tryKeepAlive"; "tryLinger"].

(* websocket transport: same shape as tcp *)
Definition fn_ws_dial := mkFn "ws_dial"
  [("t.rcmgr.OpenConnection", (AcqScope, Nop, Impossible));
   ("connScope.Done", (RelScope, RelScope, RelScope))]
  [("t.dialWithScope", "ws_dial_scope")] [] [] Nop [].

Definition fn_ws_dial_scope := mkFn "ws_dial_scope"
  [("t.maDial", (AcqRaw, Nop, Impossible))]
  [("t.upgrader.Upgrade", "upgrade_outer")] [] [] Nop [].

(* QUIC transport: the quic connection plays the role of the raw connection *)
Definition fn_quic_dial := mkFn "quic_dial"
  [("t.rcmgr.OpenConnection", (AcqScope, Nop, Impossible));
   ("scope.Done", (RelScope, RelScope, RelScope));
   ("t.holePunch", (HandOver, HandOver, HandOver))]     (* hole punching is a separate path, not modelled *)
  [("t.dialWithScope", "quic_dial_scope")] [] [] Nop [].

Definition fn_quic_dial_scope := mkFn "quic_dial_scope"
  [("t.connManager.DialQUIC", (AcqRaw, Nop, Impossible));
   ("pconn.CloseWithError", (RelRaw, RelRaw, RelRaw))]
  [] [] [] Nop
  ["pconn.ConnectionState"; "pconn.LocalAddr"; "quic.ApplicationErrorCode"; "quicreuse.ToQuicMultiaddr";
   "quicreuse.WithAssociation"; "scope.SetPeer"; "t.addConn"; "t.gater.InterceptSecured"; "t.identity.ConfigForPeer"].

Definition fn_quic_wrap_scope := mkFn "quic_wrap_scope"
  [] [] [] [] Nop
  ["connScope.SetPeer"; "p2ptls.PubKeyFromCertChain"; "peer.IDFromPublicKey"; "qconn.ConnectionState";
   "qconn.ConnectionState().Version.String"; "qconn.RemoteAddr"].

Definition fn_quic_wrap := mkFn "quic_wrap"
  [("network.UnwrapConnManagementScope", (AcqScope, Nop, Impossible));
   ("l.rcmgr.OpenConnection", (AcqScope, Nop, Impossible));
   ("connScope.Done", (RelScope, RelScope, RelScope))]
  [("l.wrapConnWithScope", "quic_wrap_scope")] []
  [("connScope == nil", CEffect NoScope Nop)]     (* nil: the context carried no scope after all *)
  Nop
  ["qconn.Context"; "qconn.ConnectionState"; "qconn.RemoteAddr"; "quicreuse.ToQuicMultiaddr"].

Definition fn_quic_accept := mkFn "quic_accept"
  [("l.reuseListener.Accept", (AcqRaw, Nop, Impossible));
   ("qconn.CloseWithError", (RelRaw, RelRaw, RelRaw));
   ("c.closeWithError", (RelConn, RelConn, RelConn))]
  [("l.wrapConn", "quic_wrap")]
  [("holePunch.connCh <- c", HandOver)]
  [("ok && !holePunch.fulfilled", CSetFlag); ("wasHolePunch", CTestFlag)]
  Nop
  ["l.transport.addConn"; "l.transport.gater.InterceptAccept"; "l.transport.gater.InterceptSecured";
   "l.transport.holePunchingMx.Lock"; "l.transport.holePunchingMx.Unlock"; "qconn.RemoteAddr";
   "qconn.RemoteAddr().String"; "quic.ApplicationErrorCode"].

Definition fn_conn_newstream := mkFn "conn_newstream"
  [("c.swarm.ResourceManager().OpenStream", (AcqSScope, Nop, Impossible));
   ("scope.Done", (RelSScope, RelSScope, RelSScope))]
  [("c.openAndAddStream", "conn_open_add")] [] [] Nop
  ["c.RemotePeer"; "c.Stat"; "c.swarm.ResourceManager"; "cancel"; "ctx.Deadline"].

Definition fn_conn_open_add := mkFn "conn_open_add"
  [("c.conn.OpenStream", (AcqStrm, Nop, Impossible))]
  [("c.addStream", "conn_addstream")] [] [] Nop [].

Definition fn_conn_addstream := mkFn "conn_addstream"
  [("ts.Reset", (RelStrm, RelStrm, RelStrm))]
  [] [] [] Nop
  ["c.streams.Lock"; "c.streams.Unlock"; "c.swarm.nextStreamID.Add"; "c.swarm.refs.Add"].

(* the accept loop of a connection: one iteration *)
Definition fn_conn_start_accept := mkFn "conn_start_accept"
  [("c.conn.AcceptStream", (AcqStrm, Nop, Impossible));
   ("c.swarm.ResourceManager().OpenStream", (AcqSScope, Nop, Impossible));
   ("ts.ResetWithError", (RelStrm, RelStrm, RelStrm))]
  [] [] [] HandOver
  ["c.Close"; "c.RemotePeer"; "c.swarm.ResourceManager"; "c.swarm.refs.Add"; "c.swarm.refs.Done"].

(* the per-stream goroutine started by that loop; it owns ts and scope *)
Definition fn_conn_start_handle := mkFn "conn_start_handle"
  [("scope.Done", (RelSScope, RelSScope, RelSScope));
   ("h", (HandOver, HandOver, HandOver));
   ("s.completeAcceptStreamGoroutine", (HandOver, HandOver, HandOver))]
  [("c.addStream", "conn_addstream")] [] [] Nop
  ["c.swarm.StreamHandler"; "c.swarm.refs.Done"].

Definition fn_host_newstream := mkFn "host_newstream"
  [("h.Network().NewStream", (AcqStrm, Nop, Impossible));
   ("s.ResetWithError", (RelStrm, RelStrm, RelStrm))]
  []
  [("err = <-errCh", GoJoin); ("<-errCh", GoJoin)]
  [("strErr != nil && s != nil", CRetErrAndStream)]
  GoSpawn
  ["cancel"; "ctx.Deadline"; "ctx.Err"; "h.Connect"; "h.Network"; "h.Peerstore";
   "h.Peerstore().AddProtocols"; "h.preferredProtocol"; "make"; "msmux.NewMSSelect"; "s.SetProtocol"].


(* ---- swarm: what happens to an upgraded connection the swarm is given ------ *)
(* Swarm.addConn owns tc (an upgraded connection: closing it closes the raw
   connection and Dones its scope) until c.start() has registered it *)
Definition fn_swarm_addconn := mkFn "swarm_addconn"
  [("tc.CloseWithError", (RelConn, RelConn, RelConn));
   ("tc.Close", (RelConn, RelConn, RelConn));
   ("c.start", (HandOver, HandOver, HandOver))]
  [] [] [] Nop
  ["append"; "close"; "cs.Stat"; "delete"; "make"; "s.backf.Clear"; "s.connectionEventsEmitter.AddConn";
   "s.conns.Lock"; "s.conns.Unlock"; "s.directConnNotifs.Lock"; "s.directConnNotifs.Unlock";
   "s.gater.InterceptUpgraded"; "s.nextConnID.Add"; "s.peers.AddPubKey"; "s.refs.Add";
   "tc.RemoteMultiaddr"; "tc.RemotePeer"; "tc.RemotePublicKey"].

(* Swarm.AddListenAddr's accept loop: one iteration; the goroutine it starts
   (swarm_listen_conn) takes the accepted connection over *)
Definition fn_swarm_listen_loop := mkFn "swarm_listen_loop"
  [("list.Accept", (AcqConn, Nop, Impossible))]
  [] [] [] HandOver
  ["c.LocalMultiaddr"; "c.RemoteMultiaddr"; "c.RemotePeer"; "canonicallog.LogPeerStatus"; "delete";
   "list.Close"; "s.listeners.Lock"; "s.listeners.Unlock"; "s.notifyAll"; "s.refs.Add"; "s.refs.Done";
   "wrapWithMetrics"].

Definition fn_swarm_listen_conn := mkFn "swarm_listen_conn"
  [] [("s.addConn", "swarm_addconn")] [] [] Nop ["s.refs.Done"].

(* Swarm.dialAddr: the transport's dial returns an upgraded connection *)
Definition fn_swarm_dialaddr := mkFn "swarm_dialaddr"
  [("tpt.Dial", (AcqConn, Nop, Impossible));
   ("du.DialWithUpdates", (AcqConn, Nop, Impossible));
   ("connC.Close", (RelConn, RelConn, RelConn))]
  [] [] [] Nop
  ["canonicallog.LogPeerStatus"; "connC.RemoteMultiaddr"; "connC.RemotePeer"; "connWithMetrics.completedHandshake";
   "ctx.Err"; "s.TransportForDialing"; "s.bhd.RecordResult"; "s.metricsTracer.FailedDialing"; "wrapWithMetrics"].



(* Swarm.AddListenAddr: the transport listener is the resource (modelled in the
   raw slot); the accept-loop goroutine takes it over *)
Definition fn_swarm_addlisten := mkFn "swarm_addlisten"
  [("tpt.Listen", (AcqRaw, Nop, Impossible));
   ("list.Close", (RelRaw, RelRaw, RelRaw))]
  [] [] [] HandOver
  ["list.Multiaddr"; "s.TransportForListening"; "s.listeners.Lock"; "s.listeners.Unlock"; "s.notifyAll"; "s.refs.Add"].


(* ---- swarm Stream: Close / Reset / ResetWithError finish the stream whatever the
   muxed stream answers (closeAndRemoveStream unregisters it and Dones its scope,
   at once or when the accept goroutine completes) --------------------------- *)
Definition fn_stream_close := mkFn "stream_close"
  [("s.closeAndRemoveStream", (RelStrm, RelStrm, RelStrm))]
  [] [] [] Nop
  ["s.stream.Close"; "s.stream.Reset"; "s.stream.ResetWithError"].

(* ---- tcpreuse: the shared TCP listener that samples the first bytes ---------- *)
Definition fn_identify_conn := mkFn "identify_conn"
  [("c.Close", (RelRaw, RelRaw, RelRaw));
   ("peekedConn.Close", (RelRaw, RelRaw, RelRaw))]
  [] [] [] Nop
  ["IsHTTP"; "IsMultistreamSelect"; "IsTLS"; "c.SetReadDeadline"; "peekedConn.SetReadDeadline"; "sampledconn.PeekBytes"].

(* multiplexedListener.run: one iteration of the accept loop *)
Definition fn_tcpreuse_run := mkFn "tcpreuse_run"
  [("m.GatedMaListener.Accept", (AcqConn, Nop, Impossible));
   ("connScope.Done", (RelScope, RelScope, RelScope));
   ("c.Close", (RelRaw, RelRaw, RelRaw))]
  [] [] [] HandOver
  ["c.RemoteMultiaddr"; "cancelCtx"; "m.Close"; "m.wg.Add"; "m.wg.Done"; "make"].

(* its per-connection goroutine: owns the raw conn and its scope until the
   connection is handed to the demultiplexed listener's Accept *)
Definition fn_tcpreuse_go := mkFn "tcpreuse_go"
  [("connScope.Done", (RelScope, RelScope, RelScope));
   ("c.Close", (RelRaw, RelRaw, RelRaw));
   ("connWithScope.Close", (RelConn, RelConn, RelConn))]
  [("identifyConnType", "identify_conn")]
  [("demux.buffer <- connWithScope", HandOver)] [] Nop
  ["cancelCtx"; "connWithScope.RemoteMultiaddr"; "m.mx.RLock"; "m.mx.RUnlock"; "m.wg.Done"; "manetConnWithScope"].


(* ---- WebTransport: the WebTransport session plays the role of the raw connection -- *)
Definition fn_wt_dial := mkFn "wt_dial"
  [("t.rcmgr.OpenConnection", (AcqScope, Nop, Impossible));
   ("scope.Done", (RelScope, RelScope, RelScope))]
  [("t.dialWithScope", "wt_dial_scope")] [] [] Nop [].

Definition fn_wt_dial_scope := mkFn "wt_dial_scope"
  [("t.dial", (AcqRaw, Nop, Impossible));
   ("sess.CloseWithError", (RelRaw, RelRaw, RelRaw));
   ("qconn.CloseWithError", (RelRaw, RelRaw, RelRaw))]
  [] [] [] Nop
  ["extractCertHashes"; "extractSNI"; "len"; "ma.SplitFunc"; "manet.DialArgs"; "newConn"; "scope.SetPeer";
   "t.addConn"; "t.gater.InterceptSecured"; "t.upgrade"].

Definition fn_wt_http_scope := mkFn "wt_http_scope"
  [("l.server.Upgrade", (AcqRaw, Nop, Impossible));
   ("sess.CloseWithError", (RelRaw, RelRaw, RelRaw));
   ("conn.Close", (RelConn, RelConn, RelConn))]       (* webtransport conn.Close: closes the session, Dones the scope *)
  []
  [("l.queue <- conn", HandOver)] [] Nop
  ["cancel"; "connScope.SetPeer"; "delete"; "l.handshake"; "l.mx.Lock"; "l.mx.Unlock"; "l.transport.addConn";
   "l.transport.gater.InterceptSecured"; "nconn.StopHandshakeTimeout"; "newConn"; "r.Context"; "r.Context().Value";
   "sconn.RemotePeer"; "w.WriteHeader"].

Definition fn_wt_http := mkFn "wt_http"
  [("network.UnwrapConnManagementScope", (AcqScope, Nop, Impossible));
   ("l.transport.rcmgr.OpenConnection", (AcqScope, Nop, Impossible));
   ("connScope.Done", (RelScope, RelScope, RelScope))]
  [("l.httpHandlerWithConnScope", "wt_http_scope")] []
  [("connScope == nil", CEffect NoScope Nop)]
  Nop
  ["l.transport.gater.InterceptAccept"; "len"; "r.Context"; "r.URL.Query"; "stringToWebtransportMultiaddr"; "w.WriteHeader"].

(* ---- circuit relay client: the relayed stream is the raw connection, upgraded like TCP -- *)
Definition fn_relay_dial := mkFn "relay_dial"
  [("c.host.Network().ResourceManager().OpenConnection", (AcqScope, Nop, Impossible));
   ("connScope.Done", (RelScope, RelScope, RelScope))]
  [("c.dialAndUpgrade", "relay_dial_up")] [] [] Nop
  ["c.host.Network"; "c.host.Network().ResourceManager"].

Definition fn_relay_dial_up := mkFn "relay_dial_up"
  [("c.dial", (AcqRaw, Nop, Impossible))]
  [("c.upgrader.Upgrade", "upgrade_outer")] [] [] Nop
  ["conn.tagHop"; "connScope.SetPeer"].


(* ---- WebRTC: the PeerConnection plays the role of the raw connection; both
   setupConnection and dial release it in a deferred literal guarded by the
   named error result ------------------------------------------------------- *)
Definition fn_rtc_setup := mkFn "rtc_setup"
  [("newWebRTCConnection", (AcqRaw, Nop, Impossible));
   ("w.PeerConnection.Close", (RelRaw, RelRaw, RelRaw));
   ("tConn.Close", (RelConn, RelConn, RelConn))]
  [] []
  [("err != nil", CRetErr); ("w.PeerConnection != nil", CRawHeld)]
  Nop
  ["addOnConnectionStateChangeCallback"; "createClientSDP"; "ctx.Err"; "detachHandshakeDataChannel";
   "l.transport.noiseHandshake"; "ma.SplitFunc"; "newConnection"; "newStream"; "peer.IDFromPublicKey";
   "scope.ReserveMemory"; "scope.SetPeer"; "settingEngine.DetachDataChannels";
   "settingEngine.DisableCertificateFingerprintVerification"; "settingEngine.SetAnsweringDTLSRole";
   "settingEngine.SetICECredentials"; "settingEngine.SetICETimeouts"; "settingEngine.SetICEUDPMux";
   "settingEngine.SetIncludeLoopbackCandidate"; "settingEngine.SetLite"; "settingEngine.SetReceiveMTU";
   "settingEngine.SetSCTPMaxReceiveBufferSize"; "w.PeerConnection.CreateAnswer";
   "w.PeerConnection.SetLocalDescription"; "w.PeerConnection.SetRemoteDescription"].

Definition fn_rtc_cand := mkFn "rtc_cand"
  [("l.transport.rcmgr.OpenConnection", (AcqScope, Nop, Impossible));
   ("scope.Done", (RelScope, RelScope, RelScope));
   ("conn.Close", (RelConn, RelConn, RelConn))]
  [("l.setupConnection", "rtc_setup")] [] [] Nop
  ["conn.RemotePeer"; "l.transport.gater.InterceptAccept"; "l.transport.gater.InterceptSecured"; "ma.SplitFunc";
   "manet.FromNetAddr"].

(* listener.listen's per-candidate goroutine *)
Definition fn_rtc_listen_go := mkFn "rtc_listen_go"
  [("conn.Close", (RelConn, RelConn, RelConn))]
  [("l.handleCandidate", "rtc_cand")]
  [("l.acceptQueue <- conn", HandOver)] [] Nop
  ["cancel"; "l.mux.RemoveConnByUfrag"].

Definition fn_rtc_dial_inner := mkFn "rtc_dial_inner"
  [("newWebRTCConnection", (AcqRaw, Nop, Impossible));
   ("w.PeerConnection.Close", (RelRaw, RelRaw, RelRaw));
   ("tConn.Close", (RelConn, RelConn, RelConn))]
  [] []
  [("err != nil", CRetErr); ("w.PeerConnection != nil", CRawHeld)]
  Nop
  ["addOnConnectionStateChangeCallback"; "createServerSDP"; "decodeRemoteFingerprint"; "detachHandshakeDataChannel";
   "genUfrag"; "genV2ClientCredentials"; "getSupportedSDPHash"; "int"; "ma.SplitFunc"; "manet.DialArgs";
   "manet.FromNetAddr"; "net.ParseIP"; "net.ResolveUDPAddr"; "newConnection"; "newStream"; "scope.ReserveMemory";
   "settingEngine.DetachDataChannels"; "settingEngine.SetICECredentials"; "settingEngine.SetICETimeouts";
   "settingEngine.SetIncludeLoopbackCandidate"; "settingEngine.SetPrflxAcceptanceMinWait";
   "settingEngine.SetSCTPMaxReceiveBufferSize"; "t.gater.InterceptSecured"; "t.noiseHandshake";
   "w.HandshakeDataChannel.Transport"; "w.HandshakeDataChannel.Transport().Transport";
   "w.HandshakeDataChannel.Transport().Transport().ICETransport";
   "w.HandshakeDataChannel.Transport().Transport().ICETransport().GetSelectedCandidatePair";
   "w.PeerConnection.CreateOffer"; "w.PeerConnection.SetLocalDescription"; "w.PeerConnection.SetRemoteDescription"].

Definition fn_rtc_dial := mkFn "rtc_dial"
  [("t.rcmgr.OpenConnection", (AcqScope, Nop, Impossible));
   ("scope.Done", (RelScope, RelScope, RelScope))]
  [("t.dial", "rtc_dial_inner")] [] [] Nop
  ["scope.SetPeer"].


(* ---- WebSocket listener: the HTTP server owns an accepted connection (and its
   scope, through negotiatingConn.Close) until the upgrader hijacks it; from then
   on ServeHTTP does.  Closing the websocket conn closes the hijacked
   negotiatingConn, whose Close Dones the scope (connWithScope.Close). ---------- *)
Definition fn_ws_serve := mkFn "ws_serve"
  [("l.wsUpgrader.Upgrade", (AcqConn, Nop, Impossible));
   ("c.Close", (RelConn, RelConn, RelConn));
   ("conn.Close", (RelConn, RelConn, RelConn))]
  []
  [("l.incoming <- conn", HandOver)] [] Nop
  ["http.NotFound"; "l.extractConnFromContext"; "l.httpHandler.ServeHTTP"; "nc.Unwrap"; "newConn"; "r.Context";
   "w.WriteHeader"; "ws.IsWebSocketUpgrade"].

(* httpNetListener.Accept: the accepted conn and scope are wrapped and returned to the HTTP server *)
Definition fn_ws_netaccept := mkFn "ws_netaccept"
  [("l.GatedMaListener.Accept", (AcqConn, Nop, Impossible));
   ("scope.Done", (RelScope, RelScope, RelScope))]
  [] [] [] Nop [].

(* ---- resource state and interpretation --------------------------------- *)
Record st := mkSt {
  raw : res; cscope : res; strm : res; sscope : res;
  gor : nat; handed : bool;
  lastret : option retk; calleeret : option retk;
  bad : list string;
  flag : bool          (* one boolean local variable that two conditions of a path share *)
}.

Definition st0 := mkSt Absent Absent Absent Absent 0 false None None [] false.

Definition set_raw s x := mkSt x (cscope s) (strm s) (sscope s) (gor s) (handed s) (lastret s) (calleeret s) (bad s) (flag s).
Definition set_cscope s x := mkSt (raw s) x (strm s) (sscope s) (gor s) (handed s) (lastret s) (calleeret s) (bad s) (flag s).
Definition set_strm s x := mkSt (raw s) (cscope s) x (sscope s) (gor s) (handed s) (lastret s) (calleeret s) (bad s) (flag s).
Definition set_sscope s x := mkSt (raw s) (cscope s) (strm s) x (gor s) (handed s) (lastret s) (calleeret s) (bad s) (flag s).
Definition set_gor s x := mkSt (raw s) (cscope s) (strm s) (sscope s) x (handed s) (lastret s) (calleeret s) (bad s) (flag s).
Definition set_handed s := mkSt (raw s) (cscope s) (strm s) (sscope s) (gor s) true (lastret s) (calleeret s) (bad s) (flag s).
Definition set_ret s r := mkSt (raw s) (cscope s) (strm s) (sscope s) (gor s) (handed s) (Some r) (calleeret s) (bad s) (flag s).
Definition set_calleeret s r := mkSt (raw s) (cscope s) (strm s) (sscope s) (gor s) (handed s) (lastret s) (Some r) (bad s) (flag s).
Definition set_flag s b := mkSt (raw s) (cscope s) (strm s) (sscope s) (gor s) (handed s) (lastret s) (calleeret s) (bad s) b.
Definition add_bad s m := mkSt (raw s) (cscope s) (strm s) (sscope s) (gor s) (handed s) (lastret s) (calleeret s) (m :: bad s) (flag s).

(* releasing is idempotent (Close/Done/Reset may be called twice); releasing
   something never acquired is recorded as Released too (harmless) *)
Definition apply_eff (s : st) (e : eff) : st :=
  match e with
  | Nop => s
  | AcqRaw => set_raw s Held
  | RelRaw => set_raw s Released
  | AcqScope => set_cscope s Held
  | RelScope => set_cscope s Released
  | AcqStrm => set_strm s Held
  | RelStrm => set_strm s Released
  | AcqSScope => set_sscope s Held
  | RelSScope => set_sscope s Released
  | NoScope => set_cscope s Absent
  | AcqConn => set_cscope (set_raw s Held) Held
  | RelConn => set_cscope (set_raw s Released) Released
  | HandOver => set_handed s
  | GoSpawn => set_gor s (S (gor s))
  | GoJoin => set_gor s (pred (gor s))
  | Impossible => add_bad s "impossible outcome"
  end.

Definition is_err (o : option retk) : bool := match o with Some RErr => true | _ => false end.

(* one abstract event; None = the path is infeasible *)
Definition astep (s : st) (a : aev) : option st :=
  match a with
  | AEff e => Some (apply_eff s e)
  | AInline f _ => Some (add_bad s ("not inlined: " ++ f))
  | ACond CRetErrAndStream b =>
      if Bool.eqb b (is_err (lastret s) && negb (res_eqb (strm s) Absent)) then Some s else None
  | ACond (CEffect et ef) b => Some (apply_eff s (if b then et else ef))
  | ACond CSetFlag b => Some (set_flag s b)
  | ACond CTestFlag b => if Bool.eqb b (flag s) then Some s else None
  | ACond CRetErr b => if Bool.eqb b (is_err (lastret s)) then Some s else None
  | ACond CCalleeRetErr b => if Bool.eqb b (is_err (calleeret s)) then Some s else None
  | ACond CRawHeld b => if Bool.eqb b (negb (res_eqb (raw s) Absent)) then Some s else None
  | ARet RTail => Some (match calleeret s with
                        | Some r => set_ret s r
                        | None => if handed s then set_ret s ROk   (* `return f(...)` of an unlisted f that took over *)
                                  else add_bad s "tail return without callee" end)
  | ARet r => Some (set_ret s r)
  | ACalleeRet r => Some (set_calleeret s r)
  | AEnd => Some s
  | ABad m => Some (add_bad s m)
  end.

Fixpoint arun (s : st) (p : list aev) : option st :=
  match p with
  | [] => Some s
  | a :: r => match astep s a with Some s' => arun s' r | None => None end
  end.

(* ---- inlining ------------------------------------------------------------ *)
(* the kind of return a (flattened, classified) path ends with *)
Fixpoint path_ret (p : list aev) (cal : option retk) (acc : option retk) : option retk :=
  match p with
  | [] => acc
  | ARet RTail :: r => path_ret r cal cal
  | ARet k :: r => path_ret r cal (Some k)
  | ACalleeRet k :: r => path_ret r (Some k) acc
  | _ :: r => path_ret r cal acc
  end.

Definition ret_matches (o : outcome) (r : option retk) : bool :=
  match o, r with
  | NA, _ => true
  | OK, Some ROk => true
  | FAIL, Some RErr => true
  | _, _ => false
  end.

(* turn a callee's own returns into ACalleeRet markers *)
Fixpoint as_callee (p : list aev) (cal : option retk) : list aev :=
  match p with
  | [] => []
  | ARet RTail :: r => ((match cal with Some k => [ACalleeRet k] | None => [ABad "tail"] end) ++ as_callee r cal)%list
  | ARet k :: r => ACalleeRet k :: as_callee r cal
  | ACalleeRet k :: r => ACalleeRet k :: as_callee r (Some k)
  | ACond CRetErr b :: r => ACond CCalleeRetErr b :: as_callee r cal
  | a :: r => a :: as_callee r cal
  end.

Section Inline.
  (* flattened paths of the listed functions that may be called *)
  Variable lib : list (string * list (list aev)).

  Fixpoint inline_path (p : list aev) : list (list aev) :=
    match p with
    | [] => [[]]
    | AInline f o :: r =>
        let rest := inline_path r in
        match lookup f lib with
        | None => map (fun t => AInline f o :: t) rest
        | Some cps =>
            flat_map (fun cp =>
                        if ret_matches o (path_ret cp None None)
                        then map (fun t => (as_callee cp None ++ t)%list) rest
                        else [])
                     cps
        end
    | a :: r => map (fun t => a :: t) (inline_path r)
    end.

  Definition inline_all (ps : list (list aev)) : list (list aev) := flat_map inline_path ps.
End Inline.

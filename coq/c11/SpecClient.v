(* C11 — client cases of the correspondence: the real client.Reserve against a scripted
   relay.  WIRE FORMAT
     2 now  (type status hasrsvp expire vkind signer dom ptype vrelay vpeer vexp corrupt
             | ok errstatus hasv orelay opeer oexp)*
   one group per scripted answer.  Times are seconds since the harness epoch; peers/keys are
   1 = the relay, 2 = the client itself, 3 = a third party.
     vkind   0 no voucher, 1 a sealed envelope, 2 garbage bytes
     signer  key that sealed the envelope;  dom 1 = proto.RecordDomain, 0 another domain
     ptype   1 = proto.RecordCodec, 0 another (registered) record type
     vrelay/vpeer/vexp  the fields of the voucher;  corrupt 1 = signature bytes damaged
   observed: Reserve returned a reservation (ok) or ReservationError.Status; whether the
   result carries a voucher and its fields.
   The model instantiates ClientModel with a toy ideal signature scheme (a signature is
   the key number followed by the message) over C08's envelope wire format.  No proofs. *)
From Coq Require Import List NArith ZArith Bool.
From Verif Require Import lib.Wire c08.Model gen.Consts_c11 c11.ClientModel.
Import ListNotations.

Definition toy_key_dec (kt : N) (kd : bytes) : option N :=
  match kd with [k] => Some k | _ => None end.
Definition toy_verify (k : N) (m s : bytes) : bool := bytes_eqb s (k :: m).
Definition toy_origin (s : bytes) : option (N * bytes) :=
  match s with k :: m => Some (k, m) | [] => None end.
Definition toy_id (k : N) : bytes := [k].
Definition toy_dec_voucher (pl : bytes) : option voucher :=
  match pl with [r; p; e] => Some ([r], [p], Z.of_N e) | _ => None end.

Definition toy_reserve := client_reserve N toy_key_dec toy_verify toy_id toy_dec_voucher.

Record cdesc := mkCd { d_type : Z; d_status : Z; d_hasrsvp : Z; d_expire : Z; d_vkind : Z; d_signer : Z;
                       d_dom : Z; d_ptype : Z; d_vrelay : Z; d_vpeer : Z; d_vexp : Z; d_corrupt : Z }.

Definition OTHER_DOMAIN : bytes := [1%N].
Definition OTHER_CODEC : bytes := [3%N; 1%N].

Definition toy_voucher_bytes (d : cdesc) : option bytes :=
  if (d_vkind d =? 0)%Z then None
  else if (d_vkind d =? 2)%Z then Some [255%N; 255%N; 255%N]
  else
    let pt := if (d_ptype d =? 1)%Z then RecordCodec else OTHER_CODEC in
    let pl := [Z.to_N (d_vrelay d); Z.to_N (d_vpeer d); Z.to_N (d_vexp d)] in
    let dm := if (d_dom d =? 1)%Z then RecordDomain else OTHER_DOMAIN in
    let sg := Z.to_N (d_signer d) :: make_unsigned dm pt pl in
    let sg' := if (d_corrupt d =? 0)%Z then sg else 0%N :: sg in
    Some (marshal_envelope (mkEnv 1 [Z.to_N (d_signer d)] pt pl sg')).

Definition SELF : bytes := [2%N].

Definition model_obs (now : Z) (d : cdesc) : list Z :=
  let r := mkResp (d_type d) (d_status d) (zbool (d_hasrsvp d)) (d_expire d) (toy_voucher_bytes d) None in
  match toy_reserve SELF now r with
  | CROk ex (Some ([rl], [pr], e)) _ => [1; 0; 1; Z.of_N rl; Z.of_N pr; e]%Z
  | CROk ex (Some _) _ => [1; 0; 1; -1; -1; -1]%Z
  | CROk ex None _ => [1; 0; 0; 0; 0; 0]%Z
  | CRErr st => [0; st; 0; 0; 0; 0]%Z
  end.

Fixpoint dec_client (l : list Z) (fuel : nat) : option (list (cdesc * list Z)) :=
  match fuel with
  | O => None
  | S f =>
      match l with
      | [] => Some []
      | a :: b :: c :: d :: e :: g :: h :: i :: j :: k :: m :: n :: o1 :: o2 :: o3 :: o4 :: o5 :: o6 :: r =>
          match dec_client r f with
          | Some x => Some ((mkCd a b c d e g h i j k m n, [o1; o2; o3; o4; o5; o6]) :: x)
          | None => None end
      | _ => None
      end
  end.

Fixpoint client_conform_run (now : Z) (i : Z) (l : list (cdesc * list Z)) : list Z :=
  match l with
  | [] => []
  | (d, obs) :: r =>
      if zlist_eqb (model_obs now d) obs then client_conform_run now (i + 1)%Z r
      else ERR_MISMATCH :: i :: model_obs now d ++ obs
  end.

(* the property on the client's own answers: a reservation is returned only for a STATUS/OK
   message with an unexpired reservation; a voucher is accepted only if it is a sealed
   envelope under the voucher domain and codec whose signer is voucher.Relay and whose
   Peer is the client, and the result reports exactly the sealed fields *)
Definition client_ok_allowed (now : Z) (d : cdesc) (obs : list Z) : bool :=
  let ob := fun i => nth i obs 0%Z in
  if (ob 0%nat =? 1)%Z then
    (d_type d =? 2)%Z && (d_status d =? 100)%Z && negb (d_hasrsvp d =? 0)%Z && (now <=? d_expire d)%Z &&
    (if (ob 2%nat =? 1)%Z then
       (d_vkind d =? 1)%Z && (d_dom d =? 1)%Z && (d_ptype d =? 1)%Z && (d_corrupt d =? 0)%Z &&
       (d_signer d =? d_vrelay d)%Z && (d_vpeer d =? 2)%Z &&
       (ob 3%nat =? d_vrelay d)%Z && (ob 4%nat =? d_vpeer d)%Z && (ob 5%nat =? d_vexp d)%Z
     else (d_vkind d =? 0)%Z)
  else true.

Fixpoint client_monitor_run (now : Z) (i : Z) (l : list (cdesc * list Z)) : list Z :=
  match l with
  | [] => []
  | (d, obs) :: r =>
      if client_ok_allowed now d obs then client_monitor_run now (i + 1)%Z r
      else ERR_PROPERTY :: i :: 3%Z :: d_vkind d :: client_monitor_run now (i + 1)%Z r
  end.

Definition client_conform (l : list Z) : list Z :=
  match l with
  | now :: r => match dec_client r (S (length r)) with
                | Some x => client_conform_run now 0 x
                | None => [ERR_MALFORMED; 2%Z] end
  | [] => [ERR_MALFORMED; 2%Z]
  end.

Definition client_monitor (l : list Z) : list Z :=
  match l with
  | now :: r => match dec_client r (S (length r)) with
                | Some x => client_monitor_run now 0 x
                | None => [ERR_MALFORMED; 2%Z] end
  | [] => [ERR_MALFORMED; 2%Z]
  end.

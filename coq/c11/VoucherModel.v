(* C11 — the reservation voucher the RELAY issues (relay.go makeReservationMsg):
     voucher  = proto.ReservationVoucher{Relay: selfID, Peer: p, Expiration: expire}
     envelope = record.Seal(voucher, signingKey)      (core/record/envelope.go)
     blob     = envelope.Marshal()
   over C08's byte-level models: marshal_voucher (pb.ReservationVoucher), make_unsigned,
   marshal_envelope.  Keys, signing and key marshalling are Section variables.  NO proofs. *)
From Coq Require Import List NArith ZArith Bool.
From Verif Require Import c08.Model gen.Consts_c11 c11.ClientModel.
Import ListNotations.

Section RelayVoucher.
  Variable K : Type.                          (* a key pair, named by its public key *)
  Variable sign : K -> bytes -> bytes.        (* PrivKey.Sign *)
  Variable key_type : K -> N.                 (* crypto.PublicKeyToProto: Type, Data *)
  Variable key_data : K -> bytes.
  Variable id_of : K -> bytes.                (* peer.IDFromPublicKey *)

  (* ReservationVoucher.MarshalRecord: expiration in unix seconds *)
  Definition voucher_payload (rk : K) (peer : bytes) (exp : N) : bytes :=
    marshal_voucher (id_of rk) peer exp.

  (* record.Seal + Envelope.Marshal *)
  Definition seal_voucher (rk : K) (peer : bytes) (exp : N) : bytes :=
    let pl := voucher_payload rk peer exp in
    marshal_envelope
      (mkEnv (key_type rk) (key_data rk) RecordCodec pl
             (sign rk (make_unsigned RecordDomain RecordCodec pl))).
End RelayVoucher.

(* ReservationVoucher.UnmarshalRecord, as the client's record decoder: C08's voucher_fields *)
Definition dec_voucher_pb (pl : bytes) : option voucher :=
  match voucher_fields pl with
  | Some (r, p, e) => Some (r, p, Z.of_N e)
  | None => None
  end.

(* the blob carried by the answer to a granted RESERVE, read off the relay model's
   observation [cstatus; allowed; rstatus; vsig; vrelay; vpeer; vexp(ms); rexp(ms)] *)
Definition issued_voucher (K : Type) (sign : K -> bytes -> bytes) (key_type : K -> N) (key_data : K -> bytes)
           (id_of : K -> bytes) (rk : K) (peer_id : Z -> bytes) (obs : list Z) : option bytes :=
  if (nth 0 obs 0 =? 100)%Z
  then Some (seal_voucher K sign key_type key_data id_of rk (peer_id (nth 5 obs 0%Z)) (Z.to_N (nth 6 obs 0 / 1000)%Z))
  else None.

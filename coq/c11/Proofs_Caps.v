(* C11 — reservation caps.  The caps hold for every history in which a peer's
   RESERVE requests always come from the same address (caps_partial); with a
   second address the refused-refresh history exceeds the per-IP cap (refuted). *)
From Coq Require Import List ZArith Bool Lia FinFun.
From Verif Require Import lib.Wire gen.Consts_c11 c11.Model c11.Spec.
Import ListNotations.
Local Open Scope Z_scope.

(* the part of the state the caps talk about *)
Definition kproj (s : st) := (s_rsvp s, s_ctot s, s_cips s, s_casns s, s_now s).

Lemma add_conn_k : forall s p, kproj (add_conn s p) = kproj s.
Proof. intros. unfold add_conn. destruct (_ =? 1); reflexivity. Qed.
Lemma rm_conn_k : forall s p, kproj (rm_conn s p) = kproj s.
Proof. intros. unfold rm_conn. destruct (_ >? 0); reflexivity. Qed.
Lemma cleanup_circ_k : forall c s a b, kproj (cleanup_circ c s a b) = kproj s.
Proof.
  intros. unfold cleanup_circ. cbv zeta. destruct (s_closed _).
  - rewrite rm_conn_k, rm_conn_k. reflexivity.
  - change (kproj (rm_conn (rm_conn s a) b) = kproj s). rewrite rm_conn_k, rm_conn_k. reflexivity.
Qed.
Lemma kill_list_k : forall c f l s, kproj (snd (kill_list c f l s)) = kproj s.
Proof.
  intros c f l. induction l as [|ci r IH]; intros s; [reflexivity|].
  cbn [kill_list]. destruct (ci_open ci && f ci).
  - specialize (IH (cleanup_circ c s (ci_src ci) (ci_dst ci))).
    destruct (kill_list c f r _) as [r' s2]. cbn [snd] in *. rewrite IH. apply cleanup_circ_k.
  - specialize (IH s). destruct (kill_list c f r s) as [r' s2]. cbn [snd] in *. exact IH.
Qed.
Lemma kill_where_k : forall c s f, kproj (kill_where c s f) = kproj s.
Proof.
  intros. unfold kill_where. pose proof (kill_list_k c f (s_circs s) s) as H.
  destruct (kill_list c f (s_circs s) s) as [l s1]. cbn [snd] in H. exact H.
Qed.

Lemma upd_same' : forall {X} (f : Z -> X) k v, upd f k v k = v.
Proof. intros. unfold upd. rewrite Z.eqb_refl. reflexivity. Qed.

Section Caps.
Variable c : cfg.
Hypothesis wf_rsvp : 0 <= c_maxrsvp c.
Hypothesis wf_ip : 0 <= c_maxip c.
Hypothesis wf_asn : 0 <= c_maxasn c.

Definition A (p : Z) : addr := addr_of c p 0.

Definition kinv (s : st) : Prop :=
  zlength (s_ctot s) <= c_maxrsvp c /\
  (forall i, zlength (s_cips s i) <= c_maxip c) /\
  (forall a, a <> 0 -> zlength (s_casns s a) <= c_maxasn c) /\
  (forall p e, s_rsvp s p = Some e -> s_now s <= e ->
     a_noip (A p) = false /\ In (mkPe e p) (s_ctot s) /\ In (mkPe e p) (s_cips s (a_ip (A p))) /\
     (a_asn (A p) <> 0 -> In (mkPe e p) (s_casns s (a_asn (A p))))).

Lemma kinv_proj : forall s s', kproj s' = kproj s -> kinv s -> kinv s'.
Proof.
  intros s s' H K. unfold kproj in H. inversion H as [[H1 H2 H3 H4 H5]]. unfold kinv in *.
  rewrite H1, H2, H3, H4, H5. exact K.
Qed.

Lemma zlength_filter_le : forall {X} (f : X -> bool) l, zlength (filter f l) <= zlength l.
Proof.
  intros X f l. unfold zlength. induction l as [|x r IH]; cbn [filter length]; [lia|].
  destruct (f x); cbn [length]; lia.
Qed.

Lemma zlength_filter_lt : forall {X} (f : X -> bool) l x, In x l -> f x = false ->
  zlength (filter f l) < zlength l.
Proof.
  intros X f l x. unfold zlength. induction l as [|y r IH]; intros Hin Hf; [destruct Hin|].
  cbn [filter length]. destruct Hin as [-> | Hin].
  - rewrite Hf. pose proof (zlength_filter_le f r). unfold zlength in H. lia.
  - specialize (IH Hin Hf). destruct (f y); cbn [length]; lia.
Qed.

Lemma zlength_app1 : forall {X} (l : list X) x, zlength (l ++ [x]) = zlength l + 1.
Proof. intros. unfold zlength. rewrite app_length. cbn [length]. lia. Qed.

(* time passing only weakens the obligation on live reservations *)
Lemma kinv_now : forall s t, s_now s <= t -> kinv s -> kinv (set_now s t).
Proof.
  intros s t Ht (K1 & K2 & K3 & K4). unfold kinv. cbn. refine (conj K1 (conj K2 (conj K3 _))).
  intros p e Hr He. apply K4; [exact Hr | lia].
Qed.

Lemma kinv_gc : forall s tau, kinv s -> kinv (gc s tau).
Proof.
  intros s tau (K1 & K2 & K3 & K4). unfold kinv, gc. cbn. refine (conj K1 (conj K2 (conj K3 _))).
  intros p e Hr He. apply K4; [|exact He]. destruct (s_rsvp s p) as [e'|]; [|discriminate].
  destruct (s_closed s || (e' <? tau)); [discriminate | exact Hr].
Qed.

Lemma kinv_cleanup_peer_rsvp : forall s p, kinv s ->
  kinv (c_cleanup_peer (set_rsvp s (upd (s_rsvp s) p None)) p).
Proof.
  intros s p (K1 & K2 & K3 & K4). unfold kinv, c_cleanup_peer. cbn.
  split; [|split; [|split]].
  - eapply Z.le_trans; [apply zlength_filter_le | exact K1].
  - intros i. eapply Z.le_trans; [apply zlength_filter_le | apply K2].
  - intros a Ha. eapply Z.le_trans; [apply zlength_filter_le | apply K3, Ha].
  - intros q e Hr He. unfold upd in Hr. destruct (q =? p) eqn:E; [discriminate|].
    destruct (K4 q e Hr He) as (N & I1 & I2 & I3).
    assert (Hk : negb (pe_peer (mkPe e q) =? p) = true) by (cbn; rewrite E; reflexivity).
    refine (conj N (conj _ (conj _ _))).
    + apply filter_In. split; assumption.
    + apply filter_In. split; assumption.
    + intros Ha. apply filter_In. split; [apply I3, Ha | assumption].
Qed.

Lemma kinv_on_disc : forall s p, kinv s -> kinv (on_disconnected s p).
Proof.
  intros s p K. unfold on_disconnected. destruct (s_closed s).
  - eapply kinv_proj; [|exact K]. reflexivity.
  - eapply kinv_proj; [|apply (kinv_cleanup_peer_rsvp s p K)]. reflexivity.
Qed.

Lemma kinv_close_conn : forall s p k, kinv s -> kinv (close_conn c s p k).
Proof.
  intros s p k K. unfold close_conn. destruct (s_link s p k); [|exact K].
  match goal with |- context [kill_where c ?s1 ?f] =>
    assert (K1 : kinv (kill_where c s1 f)) by (eapply kinv_proj; [apply kill_where_k | exact K]);
    destruct (connected (kill_where c s1 f) p); [exact K1 | apply kinv_on_disc, K1] end.
Qed.

Lemma kinv_close_peer : forall s p, kinv s -> kinv (close_peer c s p).
Proof. intros. unfold close_peer. apply kinv_close_conn, kinv_close_conn. assumption. Qed.

Lemma kinv_advance : forall s t, kinv s -> kinv (advance_to c s t).
Proof.
  intros s t K. unfold advance_to. cbv zeta.
  match goal with |- context [kill_where c s ?f] =>
    assert (K1 : kinv (kill_where c s f)) by (eapply kinv_proj; [apply kill_where_k | exact K]);
    assert (N1 : s_now (kill_where c s f) = s_now s) by (pose proof (kill_where_k c s f) as Hk; unfold kproj in Hk; congruence)
  end.
  match goal with |- kinv (set_now (if ?b then _ else _) _) => destruct b end.
  - apply kinv_now; [|apply kinv_gc, K1]. cbn. rewrite N1. lia.
  - apply kinv_now; [|exact K1]. rewrite N1. lia.
Qed.

(* constraints.Reserve from the peer's own address: a refresh by a holder of a live
   reservation is never refused, so Relay.rsvp and the constraint slices stay in step *)
Lemma kinv_reserve : forall s p exp, kinv s -> s_now s <= exp ->
  let '(s2, ok) := c_reserve c s p (A p) (s_now s) exp in
  if ok then kinv (set_rsvp s2 (upd (s_rsvp s2) p (Some exp))) else kinv s2.
Proof.
  intros s p exp (K1 & K2 & K3 & K4) Hexp. unfold c_reserve. cbv zeta.
  set (keep1 := fun e : pe => negb (pe_exp e <? s_now s)).
  set (keep2 := fun e : pe => negb (pe_peer e =? p)).
  (* the state after cleanup(now); cleanupPeer(p) *)
  set (s1 := c_cleanup_peer (c_cleanup s (s_now s)) p).
  assert (T1 : s_ctot s1 = filter keep2 (filter keep1 (s_ctot s))) by reflexivity.
  assert (T2 : forall i, s_cips s1 i = filter keep2 (filter keep1 (s_cips s i))) by reflexivity.
  assert (T3 : forall a, s_casns s1 a = filter keep2 (filter keep1 (s_casns s a))) by reflexivity.
  assert (R1 : s_rsvp s1 = s_rsvp s) by reflexivity.
  assert (N1 : s_now s1 = s_now s) by reflexivity.
  assert (L1 : zlength (s_ctot s1) <= c_maxrsvp c).
  { rewrite T1. eapply Z.le_trans; [apply zlength_filter_le|]. eapply Z.le_trans; [apply zlength_filter_le | exact K1]. }
  assert (L2 : forall i, zlength (s_cips s1 i) <= c_maxip c).
  { intros i. rewrite T2. eapply Z.le_trans; [apply zlength_filter_le|]. eapply Z.le_trans; [apply zlength_filter_le | apply K2]. }
  assert (L3 : forall a, a <> 0 -> zlength (s_casns s1 a) <= c_maxasn c).
  { intros a Ha. rewrite T3. eapply Z.le_trans; [apply zlength_filter_le|]. eapply Z.le_trans; [apply zlength_filter_le | apply K3, Ha]. }
  (* entries of the other peers' live reservations survive *)
  assert (Oth : forall q e, q <> p -> s_rsvp s q = Some e -> s_now s <= e ->
     a_noip (A q) = false /\ In (mkPe e q) (s_ctot s1) /\ In (mkPe e q) (s_cips s1 (a_ip (A q))) /\
     (a_asn (A q) <> 0 -> In (mkPe e q) (s_casns s1 (a_asn (A q))))).
  { intros q e Hq Hr He. destruct (K4 q e Hr He) as (N & I1 & I2 & I3).
    assert (Hk1 : keep1 (mkPe e q) = true) by (unfold keep1; cbn; apply negb_true_iff, Z.ltb_ge; lia).
    assert (Hk2 : keep2 (mkPe e q) = true) by (unfold keep2; cbn; apply negb_true_iff, Z.eqb_neq; exact Hq).
    refine (conj N (conj _ (conj _ _))).
    - rewrite T1. apply filter_In; split; [apply filter_In; split|]; assumption.
    - rewrite T2. apply filter_In; split; [apply filter_In; split|]; assumption.
    - intros Ha. rewrite T3. apply filter_In; split; [apply filter_In; split|]; auto. }
  (* a live reservation of p itself leaves room in every slice *)
  assert (Own : forall e, s_rsvp s p = Some e -> s_now s <= e ->
     a_noip (A p) = false /\ zlength (s_ctot s1) < c_maxrsvp c /\ zlength (s_cips s1 (a_ip (A p))) < c_maxip c /\
     (a_asn (A p) <> 0 -> zlength (s_casns s1 (a_asn (A p))) < c_maxasn c)).
  { intros e Hr He. destruct (K4 p e Hr He) as (N & I1 & I2 & I3).
    assert (Hk1 : keep1 (mkPe e p) = true) by (unfold keep1; cbn; apply negb_true_iff, Z.ltb_ge; lia).
    assert (Hk2 : keep2 (mkPe e p) = false) by (unfold keep2; cbn; rewrite Z.eqb_refl; reflexivity).
    refine (conj N (conj _ (conj _ _))).
    - rewrite T1. eapply Z.lt_le_trans; [apply (zlength_filter_lt keep2 _ (mkPe e p)); [apply filter_In; split; assumption | exact Hk2]|].
      eapply Z.le_trans; [apply zlength_filter_le | exact K1].
    - rewrite T2. eapply Z.lt_le_trans; [apply (zlength_filter_lt keep2 _ (mkPe e p)); [apply filter_In; split; assumption | exact Hk2]|].
      eapply Z.le_trans; [apply zlength_filter_le | apply K2].
    - intros Ha. rewrite T3. eapply Z.lt_le_trans; [apply (zlength_filter_lt keep2 _ (mkPe e p)); [apply filter_In; split; auto | exact Hk2]|].
      eapply Z.le_trans; [apply zlength_filter_le | apply K3, Ha]. }
  (* a refusal leaves s1: fine unless p held a live reservation — impossible *)
  assert (Ref : (forall e, s_rsvp s p = Some e -> s_now s <= e -> False) -> kinv s1).
  { intros Hno. unfold kinv. rewrite R1, N1. refine (conj L1 (conj L2 (conj L3 _))).
    intros q e Hr He. destruct (Z.eq_dec q p) as [->|Hq]; [exfalso; eapply Hno; eassumption | apply Oth; assumption]. }
  fold s1.
  destruct (zlength (s_ctot s1) >=? c_maxrsvp c) eqn:E1.
  { apply Ref. intros e Hr He. destruct (Own e Hr He) as (_ & O & _). lia. }
  destruct (a_noip (A p)) eqn:E2.
  { apply Ref. intros e Hr He. destruct (Own e Hr He) as (O & _). discriminate. }
  destruct (zlength (s_cips s1 (a_ip (A p))) >=? c_maxip c) eqn:E3.
  { apply Ref. intros e Hr He. destruct (Own e Hr He) as (_ & _ & O & _). lia. }
  destruct (negb (a_asn (A p) =? 0) && (zlength (s_casns s1 (a_asn (A p))) >=? c_maxasn c)) eqn:E4.
  { apply Ref. intros e Hr He. destruct (Own e Hr He) as (_ & _ & _ & O).
    apply andb_true_iff in E4. destruct E4 as [E4 E5]. apply negb_true_iff, Z.eqb_neq in E4. specialize (O E4). lia. }
  (* granted *)
  unfold kinv. cbn [set_rsvp set_cons s_rsvp s_ctot s_cips s_casns s_now]. rewrite N1.
  split; [|split; [|split]].
  - rewrite zlength_app1. lia.
  - intros i. unfold upd. destruct (i =? a_ip (A p)) eqn:E; [apply Z.eqb_eq in E; subst i; rewrite zlength_app1; lia | apply L2].
  - intros a Ha. destruct (a_asn (A p) =? 0) eqn:E; [apply L3, Ha|].
    unfold upd. destruct (a =? a_asn (A p)) eqn:E'; [|apply L3, Ha]. apply Z.eqb_eq in E'; subst a.
    rewrite zlength_app1. cbn [negb andb] in E4. lia.
  - intros q e Hr He. unfold upd in Hr. destruct (q =? p) eqn:Eq.
    + apply Z.eqb_eq in Eq; subst q. inversion Hr; subst e. refine (conj E2 (conj _ (conj _ _))).
      * apply in_or_app; right; left; reflexivity.
      * rewrite upd_same'. apply in_or_app; right; left; reflexivity.
      * intros Ha. apply Z.eqb_neq in Ha. rewrite Ha. rewrite upd_same'. apply in_or_app; right; left; reflexivity.
    + apply Z.eqb_neq in Eq. rewrite R1 in Hr. destruct (Oth q e Eq Hr He) as (N & I1 & I2 & I3).
      refine (conj N (conj _ (conj _ _))).
      * apply in_or_app; left; exact I1.
      * unfold upd. destruct (a_ip (A q) =? a_ip (A p)) eqn:E; [apply Z.eqb_eq in E; rewrite E in *; apply in_or_app; left; exact I2 | exact I2].
      * intros Ha. specialize (I3 Ha). destruct (a_asn (A p) =? 0); [exact I3|].
        unfold upd. destruct (a_asn (A q) =? a_asn (A p)) eqn:E; [apply Z.eqb_eq in E; rewrite E in *; apply in_or_app; left; exact I3 | exact I3].
Qed.

Lemma kinv_handle_reserve : forall s p k acl inj, addr_of c p k = A p -> 0 <= c_ttl c -> kinv s ->
  kinv (fst (handle_reserve c s p k acl inj)).
Proof.
  intros s p k acl inj Ha Httl K. unfold handle_reserve.
  destruct (negb (s_link s p k) || s_closed s); [exact K|].
  destruct (negb (mem_ok_always c (s_mem s) maxMessageSize)); [exact K|].
  rewrite Ha. destruct (a_relayed (A p)); [exact K|]. cbv zeta.
  assert (K1 : kinv (if inj =? 2 then close_peer c (advance_to c s (s_now s + 1)) p else s)).
  { destruct (inj =? 2); [apply kinv_close_peer, kinv_advance|]; exact K. }
  set (s1 := if inj =? 2 then close_peer c (advance_to c s (s_now s + 1)) p else s) in *.
  destruct (negb acl); [exact K1|].
  pose proof (kinv_reserve s1 p (s_now s1 + c_ttl c) K1 ltac:(lia)) as R.
  destruct (c_reserve c s1 p (A p) (s_now s1) (s_now s1 + c_ttl c)) as [s2 ok].
  destruct ok; cbn [negb]; [|exact R].
  destruct (inj =? 2); cbn [fst]; (eapply kinv_proj; [|exact R]); reflexivity.
Qed.

Lemma kinv_handle_connect : forall s src sa dst acl dm sm dc, kinv s ->
  kinv (fst (handle_connect c s src sa dst acl dm sm dc)).
Proof.
  intros s src sa dst acl dm sm dc K. unfold handle_connect.
  repeat match goal with |- kinv (fst (if ?b then (s, _) else _)) => destruct b; [exact K|] end.
  destruct (s_rsvp s dst); [|exact K].
  repeat match goal with |- kinv (fst (if ?b then (s, _) else _)) => destruct b; [exact K|] end.
  cbv zeta.
  set (s1 := set_mem (add_conn (add_conn s src) dst) (s_mem s + 2 * c_buf c)).
  assert (P1 : kproj s1 = kproj s).
  { unfold s1. change (kproj (add_conn (add_conn s src) dst) = kproj s). rewrite add_conn_k, add_conn_k. reflexivity. }
  assert (K1 : kinv s1) by (eapply kinv_proj; eassumption).
  repeat match goal with |- kinv (fst (if ?b then (cleanup_circ c s1 src dst, _) else _)) =>
    destruct b; [cbn [fst]; eapply kinv_proj; [apply cleanup_circ_k | exact K1]|] end.
  destruct (sm =? 3); cbn [fst].
  - eapply kinv_proj; [apply cleanup_circ_k|]. apply kinv_close_peer, kinv_advance, K1.
  - eapply kinv_proj; [|exact K1]. reflexivity.
Qed.

Lemma settle_k : forall s ci, kproj (settle_circ c s ci) = kproj s.
Proof.
  intros. unfold settle_circ. cbv zeta. destruct (ci_open ci); [reflexivity|].
  rewrite cleanup_circ_k. reflexivity.
Qed.

Lemma kinv_apply_op : forall s o, 0 <= c_ttl c ->
  (forall p k acl inj, o = OReserve p k acl inj -> addr_of c p k = A p) ->
  kinv s -> kinv (fst (apply_op c s o)).
Proof.
  intros s o Httl Hst K. destruct o; cbn [apply_op fst].
  - eapply kinv_proj; [|exact K]. reflexivity.
  - apply kinv_close_conn, K.
  - apply kinv_handle_reserve; [| exact Httl | exact K].
    rewrite <- (Hst p k acl inj eq_refl). unfold addr_of, nk. destruct (k =? 0); reflexivity.
  - apply kinv_handle_connect, K.
  - unfold send. destruct (find_circ s cid); [|exact K]. cbv zeta. destruct (_ || _); [exact K|].
    destruct (dir =? 0); (eapply kinv_proj; [apply settle_k | exact K]).
  - unfold close_write. destruct (find_circ s cid); [|exact K]. cbv zeta. destruct (negb _); [exact K|].
    destruct (dir =? 0); (eapply kinv_proj; [apply settle_k | exact K]).
  - unfold reset_end. destruct (find_circ s cid); [|exact K]. destruct (negb _); [exact K|].
    eapply kinv_proj; [apply kill_where_k | exact K].
  - apply kinv_advance, K.
  - unfold close_relay. destruct (s_closed s); [exact K|].
    eapply kinv_proj; [|apply (kinv_gc (set_closed s true) (s_now s)); eapply kinv_proj; [|exact K]; reflexivity]. reflexivity.
Qed.

(* every RESERVE of a peer comes from the peer's address 0 (same IP/ASN class) *)
Definition stable_addrs (ops : list (Z * op * Z)) : Prop :=
  forall t p k acl inj tend, In (t, OReserve p k acl inj, tend) ops -> addr_of c p k = A p.

Lemma kinv_init : kinv init_st.
Proof.
  unfold kinv, init_st. cbn. refine (conj wf_rsvp (conj (fun _ => wf_ip) (conj (fun _ _ => wf_asn) _))).
  intros p e H. discriminate.
Qed.

Lemma kinv_run : forall ops s, 0 <= c_ttl c -> stable_addrs ops -> kinv s -> kinv (run c s ops).
Proof.
  induction ops as [|[[t o] tend] r IH]; intros s Httl Hst K; [exact K|].
  cbn [run]. apply IH; [exact Httl | intros t' p k acl inj tend' Hin; eapply Hst; right; exact Hin |].
  unfold step.
  assert (K1 : kinv (fst (apply_op c (advance_to c s t) o))).
  { apply kinv_apply_op; [exact Httl | | apply kinv_advance, K].
    intros p k acl inj ->. eapply Hst. left. reflexivity. }
  destruct (apply_op c (advance_to c s t) o) as [s1 obs]. cbn [fst] in *. apply kinv_advance, K1.
Qed.

(* ---- counting ------------------------------------------------------------------------ *)
(* peers (among 1..n) that hold a live reservation satisfying q *)
Definition holders (s : st) (q : Z -> bool) : list Z :=
  filter (fun p => match s_rsvp s p with Some e => (s_now s <=? e) && q p | None => false end) (peers_of c).

Lemma NoDup_zseq : forall a n, NoDup (zseq a n).
Proof.
  intros. unfold zseq. apply Injective_map_NoDup; [|apply seq_NoDup].
  intros x y H. apply Nat2Z.inj, H.
Qed.

Lemma holders_le : forall s q (l : list pe),
  (forall p, In p (holders s q) -> In p (map pe_peer l)) -> zlength (holders s q) <= zlength l.
Proof.
  intros s q l H. unfold zlength. rewrite <- (map_length pe_peer l). apply Nat2Z.inj_le.
  apply NoDup_incl_length; [|exact H]. unfold holders. apply NoDup_filter, NoDup_zseq.
Qed.

Lemma caps_of_kinv : forall s, kinv s ->
  zlength (holders s (fun _ => true)) <= c_maxrsvp c /\
  (forall i, zlength (holders s (fun p => a_ip (A p) =? i)) <= c_maxip c) /\
  (forall a, a <> 0 -> zlength (holders s (fun p => a_asn (A p) =? a)) <= c_maxasn c).
Proof.
  intros s (K1 & K2 & K3 & K4).
  assert (Hh : forall q p, In p (holders s q) -> exists e, s_rsvp s p = Some e /\ s_now s <= e /\ q p = true).
  { intros q p Hin. unfold holders in Hin. apply filter_In in Hin. destruct Hin as [_ Hin].
    destruct (s_rsvp s p) as [e|]; [|discriminate]. apply andb_true_iff in Hin. destruct Hin as [H1 H2].
    exists e. repeat split; [apply Z.leb_le, H1 | exact H2]. }
  split; [|split].
  - eapply Z.le_trans; [apply (holders_le s _ (s_ctot s)) | exact K1].
    intros p Hin. destruct (Hh _ _ Hin) as (e & Hr & He & _). destruct (K4 p e Hr He) as (_ & I & _).
    apply in_map_iff. exists (mkPe e p). split; [reflexivity | exact I].
  - intros i. eapply Z.le_trans; [apply (holders_le s _ (s_cips s i)) | apply K2].
    intros p Hin. destruct (Hh _ _ Hin) as (e & Hr & He & Hq). apply Z.eqb_eq in Hq. subst i.
    destruct (K4 p e Hr He) as (_ & _ & I & _). apply in_map_iff. exists (mkPe e p). split; [reflexivity | exact I].
  - intros a Ha. eapply Z.le_trans; [apply (holders_le s _ (s_casns s a)) | apply K3, Ha].
    intros p Hin. destruct (Hh _ _ Hin) as (e & Hr & He & Hq). apply Z.eqb_eq in Hq. subst a.
    destruct (K4 p e Hr He) as (_ & _ & _ & I). apply in_map_iff. exists (mkPe e p). split; [reflexivity | apply I, Ha].
Qed.
End Caps.

(* caps for every history with stable addresses *)
Lemma caps_partial_l : forall c ops,
  0 <= c_maxrsvp c -> 0 <= c_maxip c -> 0 <= c_maxasn c -> 0 <= c_ttl c -> stable_addrs c ops ->
  let s := run c init_st ops in
  zlength (holders c s (fun _ => true)) <= c_maxrsvp c /\
  (forall i, zlength (holders c s (fun p => a_ip (A c p) =? i)) <= c_maxip c) /\
  (forall a, a <> 0 -> zlength (holders c s (fun p => a_asn (A c p) =? a)) <= c_maxasn c).
Proof.
  intros c ops W1 W2 W3 W4 Hst s. apply caps_of_kinv.
  apply (kinv_run c ops init_st W4 Hst). apply kinv_init; assumption.
Qed.

(* C11 — reservation caps, for every history.  A ghost map g remembers the address
   each peer's current reservation was granted from (the IP/ASN it is counted under). *)
From Coq Require Import List ZArith Bool Lia FinFun.
From Verif Require Import lib.Wire gen.Consts_c11 c11.Model c11.Spec.
Import ListNotations.
Local Open Scope Z_scope.

(* the part of the state the caps talk about *)
Definition kproj (s : st) := (s_rsvp s, s_ctot s, s_cips s, s_casns s, s_now s).

Lemma add_conn_k : forall s p, kproj (add_conn s p) = kproj s.
Proof. intros. unfold add_conn. destruct (_ =? 1); reflexivity. Qed.
Lemma rm_conn_k : forall s p, kproj (rm_conn s p) = kproj s.
Proof. intros. unfold rm_conn. destruct (_ >? 0); reflexivity. Qed.
Lemma cleanup_circ_k : forall c s a b, kproj (cleanup_circ c s a b) = kproj s.
Proof.
  intros. unfold cleanup_circ. cbv zeta. destruct (s_closed _).
  - rewrite rm_conn_k, rm_conn_k. reflexivity.
  - change (kproj (rm_conn (rm_conn s a) b) = kproj s). rewrite rm_conn_k, rm_conn_k. reflexivity.
Qed.
Lemma kill_list_k : forall c f l s, kproj (snd (kill_list c f l s)) = kproj s.
Proof.
  intros c f l. induction l as [|ci r IH]; intros s; [reflexivity|].
  cbn [kill_list]. destruct (ci_open ci && f ci).
  - specialize (IH (cleanup_circ c s (ci_src ci) (ci_dst ci))).
    destruct (kill_list c f r _) as [r' s2]. cbn [snd] in *. rewrite IH. apply cleanup_circ_k.
  - specialize (IH s). destruct (kill_list c f r s) as [r' s2]. cbn [snd] in *. exact IH.
Qed.
Lemma kill_where_k : forall c s f, kproj (kill_where c s f) = kproj s.
Proof.
  intros. unfold kill_where. pose proof (kill_list_k c f (s_circs s) s) as H.
  destruct (kill_list c f (s_circs s) s) as [l s1]. cbn [snd] in H. exact H.
Qed.

Lemma upd_same' : forall {X} (f : Z -> X) k v, upd f k v k = v.
Proof. intros. unfold upd. rewrite Z.eqb_refl. reflexivity. Qed.

Lemma upd_other' : forall {X} (f : Z -> X) k v x, x <> k -> upd f k v x = f x.
Proof. intros. unfold upd. destruct (x =? k) eqn:E; [apply Z.eqb_eq in E; contradiction | reflexivity]. Qed.

Section Caps.
Variable c : cfg.
Hypothesis wf_rsvp : 0 <= c_maxrsvp c.
Hypothesis wf_ip : 0 <= c_maxip c.
Hypothesis wf_asn : 0 <= c_maxasn c.

Definition kinv (g : Z -> addr) (s : st) : Prop :=
  zlength (s_ctot s) <= c_maxrsvp c /\
  (forall i, zlength (s_cips s i) <= c_maxip c) /\
  (forall a, a <> 0 -> zlength (s_casns s a) <= c_maxasn c) /\
  (forall p e, s_rsvp s p = Some e -> s_now s <= e ->
     a_noip (g p) = false /\ In (mkPe e p) (s_ctot s) /\ In (mkPe e p) (s_cips s (a_ip (g p))) /\
     (a_asn (g p) <> 0 -> In (mkPe e p) (s_casns s (a_asn (g p))))).

Lemma kinv_proj : forall g s s', kproj s' = kproj s -> kinv g s -> kinv g s'.
Proof.
  intros g s s' H K. unfold kproj in H. inversion H as [[H1 H2 H3 H4 H5]]. unfold kinv in *.
  rewrite H1, H2, H3, H4, H5. exact K.
Qed.

Lemma zlength_filter_le : forall {X} (f : X -> bool) l, zlength (filter f l) <= zlength l.
Proof.
  intros X f l. unfold zlength. induction l as [|x r IH]; cbn [filter length]; [lia|].
  destruct (f x); cbn [length]; lia.
Qed.

Lemma zlength_filter_lt : forall {X} (f : X -> bool) l x, In x l -> f x = false ->
  zlength (filter f l) < zlength l.
Proof.
  intros X f l x. unfold zlength. induction l as [|y r IH]; intros Hin Hf; [destruct Hin|].
  cbn [filter length]. destruct Hin as [-> | Hin].
  - rewrite Hf. pose proof (zlength_filter_le f r). unfold zlength in H. lia.
  - specialize (IH Hin Hf). destruct (f y); cbn [length]; lia.
Qed.

Lemma zlength_app1 : forall {X} (l : list X) x, zlength (l ++ [x]) = zlength l + 1.
Proof. intros. unfold zlength. rewrite app_length. cbn [length]. lia. Qed.

(* time passing only weakens the obligation on live reservations *)
Lemma kinv_now : forall g s t, s_now s <= t -> kinv g s -> kinv g (set_now s t).
Proof.
  intros g s t Ht (K1 & K2 & K3 & K4). unfold kinv. cbn. refine (conj K1 (conj K2 (conj K3 _))).
  intros p e Hr He. apply K4; [exact Hr | lia].
Qed.

Lemma kinv_gc : forall g s tau, kinv g s -> kinv g (gc s tau).
Proof.
  intros g s tau (K1 & K2 & K3 & K4). unfold kinv, gc. cbn. refine (conj K1 (conj K2 (conj K3 _))).
  intros p e Hr He. apply K4; [|exact He]. destruct (s_rsvp s p) as [e'|]; [|discriminate].
  destruct (s_closed s || (e' <? tau)); [discriminate | exact Hr].
Qed.

Lemma kinv_cleanup_peer_rsvp : forall g s p, kinv g s ->
  kinv g (c_cleanup_peer (set_rsvp s (upd (s_rsvp s) p None)) p).
Proof.
  intros g s p (K1 & K2 & K3 & K4). unfold kinv, c_cleanup_peer. cbn.
  split; [|split; [|split]].
  - eapply Z.le_trans; [apply zlength_filter_le | exact K1].
  - intros i. eapply Z.le_trans; [apply zlength_filter_le | apply K2].
  - intros a Ha. eapply Z.le_trans; [apply zlength_filter_le | apply K3, Ha].
  - intros q e Hr He. unfold upd in Hr. destruct (q =? p) eqn:E; [discriminate|].
    destruct (K4 q e Hr He) as (N & I1 & I2 & I3).
    assert (Hk : negb (pe_peer (mkPe e q) =? p) = true) by (cbn; rewrite E; reflexivity).
    refine (conj N (conj _ (conj _ _))).
    + apply filter_In. split; assumption.
    + apply filter_In. split; assumption.
    + intros Ha. apply filter_In. split; [apply I3, Ha | assumption].
Qed.

Lemma kinv_on_disc : forall g s p, kinv g s -> kinv g (on_disconnected s p).
Proof.
  intros g s p K. unfold on_disconnected. destruct (s_closed s).
  - eapply kinv_proj; [|exact K]. reflexivity.
  - eapply kinv_proj; [|apply (kinv_cleanup_peer_rsvp g s p K)]. reflexivity.
Qed.

Lemma kinv_close_conn : forall g s p k, kinv g s -> kinv g (close_conn c s p k).
Proof.
  intros g s p k K. unfold close_conn. destruct (s_link s p k); [|exact K].
  match goal with |- context [kill_where c ?s1 ?f] =>
    assert (K1 : kinv g (kill_where c s1 f)) by (eapply kinv_proj; [apply kill_where_k | exact K]);
    destruct (connected (kill_where c s1 f) p); [exact K1 | apply kinv_on_disc, K1] end.
Qed.

Lemma kinv_close_peer : forall g s p, kinv g s -> kinv g (close_peer c s p).
Proof. intros. unfold close_peer. apply kinv_close_conn, kinv_close_conn. assumption. Qed.

Lemma kinv_advance : forall g s t, kinv g s -> kinv g (advance_to c s t).
Proof.
  intros g s t K. unfold advance_to. cbv zeta.
  match goal with |- context [kill_where c s ?f] =>
    assert (K1 : kinv g (kill_where c s f)) by (eapply kinv_proj; [apply kill_where_k | exact K]);
    assert (N1 : s_now (kill_where c s f) = s_now s) by (pose proof (kill_where_k c s f) as Hk; unfold kproj in Hk; congruence)
  end.
  match goal with |- kinv g (set_now (if ?b then _ else _) _) => destruct b end.
  - apply kinv_now; [|apply kinv_gc, K1]. cbn. rewrite N1. lia.
  - apply kinv_now; [|exact K1]. rewrite N1. lia.
Qed.

(* constraints.Reserve (repaired): a refusal only runs cleanup(now); a grant replaces the
   peer's entries by one under the new address *)
Lemma others_cleanup_peer : forall p l, others p l = zlength (filter (fun e : pe => negb (pe_peer e =? p)) l).
Proof. reflexivity. Qed.

Lemma kinv_reserve : forall g s p a exp, kinv g s ->
  let '(s2, ok) := c_reserve c s p a (s_now s) exp in
  if ok then kinv (upd g p a) (set_rsvp s2 (upd (s_rsvp s2) p (Some exp))) else kinv g s2.
Proof.
  intros g s p a exp (K1 & K2 & K3 & K4). unfold c_reserve. cbv zeta.
  set (keep1 := fun e : pe => negb (pe_exp e <? s_now s)).
  set (keep2 := fun e : pe => negb (pe_peer e =? p)).
  set (s0 := c_cleanup s (s_now s)).
  assert (T1 : s_ctot s0 = filter keep1 (s_ctot s)) by reflexivity.
  assert (T2 : forall i, s_cips s0 i = filter keep1 (s_cips s i)) by reflexivity.
  assert (T3 : forall x, s_casns s0 x = filter keep1 (s_casns s x)) by reflexivity.
  assert (R0 : s_rsvp s0 = s_rsvp s) by reflexivity.
  assert (N0 : s_now s0 = s_now s) by reflexivity.
  (* cleanup(now) keeps the invariant *)
  assert (K0 : kinv g s0).
  { unfold kinv. rewrite R0, N0, T1. split; [|split; [|split]].
    - eapply Z.le_trans; [apply zlength_filter_le | exact K1].
    - intros i. rewrite T2. eapply Z.le_trans; [apply zlength_filter_le | apply K2].
    - intros x Hx. rewrite T3. eapply Z.le_trans; [apply zlength_filter_le | apply K3, Hx].
    - intros q e Hr He. destruct (K4 q e Hr He) as (N & I1 & I2 & I3).
      assert (Hk1 : keep1 (mkPe e q) = true) by (unfold keep1; cbn; apply negb_true_iff, Z.ltb_ge; lia).
      refine (conj N (conj _ (conj _ _))).
      + apply filter_In; split; assumption.
      + rewrite T2. apply filter_In; split; assumption.
      + intros Hx. rewrite T3. apply filter_In; split; auto. }
  fold s0.
  destruct (others p (s_ctot s0) >=? c_maxrsvp c) eqn:E1; [exact K0|].
  destruct (a_noip a) eqn:E2; [exact K0|].
  destruct (others p (s_cips s0 (a_ip a)) >=? c_maxip c) eqn:E3; [exact K0|].
  destruct (negb (a_asn a =? 0) && (others p (s_casns s0 (a_asn a)) >=? c_maxasn c)) eqn:E4; [exact K0|].
  (* granted *)
  destruct K0 as (J1 & J2 & J3 & J4).
  set (s1 := c_cleanup_peer s0 p).
  assert (U1 : s_ctot s1 = filter keep2 (s_ctot s0)) by reflexivity.
  assert (U2 : forall i, s_cips s1 i = filter keep2 (s_cips s0 i)) by reflexivity.
  assert (U3 : forall x, s_casns s1 x = filter keep2 (s_casns s0 x)) by reflexivity.
  unfold others in E1, E3, E4. fold keep2 in E1, E3, E4. rewrite <- U1 in E1. rewrite <- U2 in E3. rewrite <- U3 in E4.
  unfold kinv. cbn [set_rsvp set_cons s_rsvp s_ctot s_cips s_casns s_now].
  change (s_now s1) with (s_now s). change (s_rsvp s1) with (s_rsvp s).
  split; [|split; [|split]].
  - rewrite zlength_app1. lia.
  - intros i. unfold upd. destruct (i =? a_ip a) eqn:E; [apply Z.eqb_eq in E; subst i; rewrite zlength_app1; lia|].
    rewrite U2. eapply Z.le_trans; [apply zlength_filter_le | apply J2].
  - intros x Hx. assert (Lx : zlength (s_casns s1 x) <= c_maxasn c) by (rewrite U3; eapply Z.le_trans; [apply zlength_filter_le | apply J3, Hx]).
    destruct (a_asn a =? 0) eqn:E; [exact Lx|].
    unfold upd. destruct (x =? a_asn a) eqn:E'; [|exact Lx]. apply Z.eqb_eq in E'; subst x.
    rewrite zlength_app1. cbn [negb andb] in E4. lia.
  - intros q e Hr He. destruct (Z.eq_dec q p) as [->|Eq].
    + rewrite upd_same' in Hr. inversion Hr; subst e. rewrite !upd_same'. refine (conj E2 (conj _ (conj _ _))).
      * apply in_or_app; right; left; reflexivity.
      * apply in_or_app; right; left; reflexivity.
      * intros Hx. apply Z.eqb_neq in Hx. rewrite Hx. rewrite upd_same'. apply in_or_app; right; left; reflexivity.
    + rewrite upd_other' in Hr by exact Eq. rewrite !(upd_other' g) by exact Eq.
      rewrite N0 in J4. rewrite R0 in J4. destruct (J4 q e Hr He) as (N & I1 & I2 & I3).
      assert (Hk2 : keep2 (mkPe e q) = true) by (unfold keep2; cbn; apply negb_true_iff, Z.eqb_neq; exact Eq).
      refine (conj N (conj _ (conj _ _))).
      * apply in_or_app; left. rewrite U1. apply filter_In; split; assumption.
      * assert (I2' : In (mkPe e q) (s_cips s1 (a_ip (g q)))) by (rewrite U2; apply filter_In; split; assumption).
        unfold upd. destruct (a_ip (g q) =? a_ip a) eqn:E; [apply Z.eqb_eq in E; rewrite E in *; apply in_or_app; left; exact I2' | exact I2'].
      * intros Hx. assert (I3' : In (mkPe e q) (s_casns s1 (a_asn (g q)))) by (rewrite U3; apply filter_In; split; auto).
        destruct (a_asn a =? 0); [exact I3'|].
        unfold upd. destruct (a_asn (g q) =? a_asn a) eqn:E; [apply Z.eqb_eq in E; rewrite E in *; apply in_or_app; left; exact I3' | exact I3'].
Qed.

Lemma kinv_handle_reserve : forall g s p k acl inj, kinv g s ->
  kinv (if nth 1 (snd (handle_reserve c s p k acl inj)) 0 =? 1 then upd g p (addr_of c p k) else g)
       (fst (handle_reserve c s p k acl inj)).
Proof.
  intros g s p k acl inj K. unfold handle_reserve.
  destruct (negb (s_link s p k) || s_closed s); [exact K|].
  destruct (negb (mem_ok_always c (s_mem s) maxMessageSize)); [exact K|].
  destruct (a_relayed (addr_of c p k)); [exact K|]. cbv zeta.
  assert (K1 : kinv g (if inj =? 2 then close_peer c (advance_to c s (s_now s + 1)) p else s)).
  { destruct (inj =? 2); [apply kinv_close_peer, kinv_advance|]; exact K. }
  set (s1 := if inj =? 2 then close_peer c (advance_to c s (s_now s + 1)) p else s) in *.
  destruct (negb acl); [exact K1|].
  destruct (negb (connected s1 p)); [exact K1|].
  pose proof (kinv_reserve g s1 p (addr_of c p k) (s_now s1 + c_ttl c) K1) as R.
  destruct (c_reserve c s1 p (addr_of c p k) (s_now s1) (s_now s1 + c_ttl c)) as [s2 ok].
  destruct ok; cbn [negb fst snd nth]; [|exact R].
  change (1 =? 1) with true. cbn iota. eapply kinv_proj; [|exact R]. reflexivity.
Qed.

Lemma kinv_handle_connect : forall g s src sa dst acl dm sm dc, kinv g s ->
  kinv g (fst (handle_connect c s src sa dst acl dm sm dc)).
Proof.
  intros g s src sa dst acl dm sm dc K. unfold handle_connect.
  repeat match goal with |- kinv g (fst (if ?b then (s, _) else _)) => destruct b; [exact K|] end.
  destruct (s_rsvp s dst); [|exact K].
  repeat match goal with |- kinv g (fst (if ?b then (s, _) else _)) => destruct b; [exact K|] end.
  cbv zeta.
  set (s1 := set_mem (add_conn (add_conn s src) dst) (s_mem s + 2 * c_buf c)).
  assert (P1 : kproj s1 = kproj s).
  { unfold s1. change (kproj (add_conn (add_conn s src) dst) = kproj s). rewrite add_conn_k, add_conn_k. reflexivity. }
  assert (K1 : kinv g s1) by (eapply kinv_proj; eassumption).
  repeat match goal with |- kinv g (fst (if ?b then (cleanup_circ c s1 src dst, _) else _)) =>
    destruct b; [cbn [fst]; eapply kinv_proj; [apply cleanup_circ_k | exact K1]|] end.
  destruct (sm =? 3); cbn [fst].
  - eapply kinv_proj; [apply cleanup_circ_k|]. apply kinv_close_peer, kinv_advance, K1.
  - eapply kinv_proj; [|exact K1]. reflexivity.
Qed.

Lemma settle_k : forall s ci, kproj (settle_circ c s ci) = kproj s.
Proof.
  intros. unfold settle_circ. cbv zeta. destruct (ci_open ci); [reflexivity|].
  rewrite cleanup_circ_k. reflexivity.
Qed.

(* the ghost: the address a peer's current reservation was granted from *)
Definition gupd (g : Z -> addr) (o : op) (obs : list Z) : Z -> addr :=
  match o with
  | OReserve p k _ _ => if nth 1 obs 0 =? 1 then upd g p (addr_of c p (nk k)) else g
  | _ => g
  end.

Lemma kinv_apply_op : forall g s o, kinv g s ->
  kinv (gupd g o (snd (apply_op c s o))) (fst (apply_op c s o)).
Proof.
  intros g s o K. destruct o; cbn [apply_op fst snd gupd].
  - eapply kinv_proj; [|exact K]. reflexivity.
  - apply kinv_close_conn, K.
  - apply kinv_handle_reserve, K.
  - apply kinv_handle_connect, K.
  - unfold send. destruct (find_circ s cid); [|exact K]. cbv zeta. destruct (_ || _); [exact K|].
    destruct (dir =? 0); (eapply kinv_proj; [apply settle_k | exact K]).
  - unfold close_write. destruct (find_circ s cid); [|exact K]. cbv zeta. destruct (negb _); [exact K|].
    destruct (dir =? 0); (eapply kinv_proj; [apply settle_k | exact K]).
  - unfold reset_end. destruct (find_circ s cid); [|exact K]. destruct (negb _); [exact K|].
    eapply kinv_proj; [apply kill_where_k | exact K].
  - apply kinv_advance, K.
  - unfold close_relay. destruct (s_closed s); [exact K|].
    eapply kinv_proj; [|apply (kinv_gc g (set_closed s true) (s_now s)); eapply kinv_proj; [|exact K]; reflexivity]. reflexivity.
Qed.

Fixpoint grun (s : st) (g : Z -> addr) (ops : list (Z * op * Z)) : st * (Z -> addr) :=
  match ops with
  | [] => (s, g)
  | (t, o, tend) :: r => let '(s', obs) := step c s t o tend in grun s' (gupd g o obs) r
  end.

Lemma grun_run : forall ops s g, fst (grun s g ops) = run c s ops.
Proof.
  induction ops as [|[[t o] tend] r IH]; intros s g; [reflexivity|].
  cbn [grun run]. destruct (step c s t o tend) as [s' obs]. cbn [fst]. apply IH.
Qed.

Lemma kinv_init : forall g, kinv g init_st.
Proof.
  intros g. unfold kinv, init_st. cbn. refine (conj wf_rsvp (conj (fun _ => wf_ip) (conj (fun _ _ => wf_asn) _))).
  intros p e H. discriminate.
Qed.

Lemma kinv_grun : forall ops s g, kinv g s -> kinv (snd (grun s g ops)) (fst (grun s g ops)).
Proof.
  induction ops as [|[[t o] tend] r IH]; intros s g K; [exact K|].
  cbn [grun]. unfold step.
  pose proof (kinv_apply_op g (advance_to c s t) o (kinv_advance g s t K)) as K1.
  destruct (apply_op c (advance_to c s t) o) as [s1 obs]. cbn [fst snd] in K1.
  apply IH. apply kinv_advance, K1.
Qed.

(* ---- counting ------------------------------------------------------------------------ *)
(* peers (among 1..n) that hold a live reservation satisfying q *)
Definition holders (s : st) (q : Z -> bool) : list Z :=
  filter (fun p => match s_rsvp s p with Some e => (s_now s <=? e) && q p | None => false end) (peers_of c).

Lemma NoDup_zseq : forall a n, NoDup (zseq a n).
Proof.
  intros. unfold zseq. apply Injective_map_NoDup; [|apply seq_NoDup].
  intros x y H. apply Nat2Z.inj, H.
Qed.

Lemma holders_le : forall s q (l : list pe),
  (forall p, In p (holders s q) -> In p (map pe_peer l)) -> zlength (holders s q) <= zlength l.
Proof.
  intros s q l H. unfold zlength. rewrite <- (map_length pe_peer l). apply Nat2Z.inj_le.
  apply NoDup_incl_length; [|exact H]. unfold holders. apply NoDup_filter, NoDup_zseq.
Qed.

Lemma caps_of_kinv : forall g s, kinv g s ->
  zlength (holders s (fun _ => true)) <= c_maxrsvp c /\
  (forall i, zlength (holders s (fun p => a_ip (g p) =? i)) <= c_maxip c) /\
  (forall a, a <> 0 -> zlength (holders s (fun p => a_asn (g p) =? a)) <= c_maxasn c).
Proof.
  intros g s (K1 & K2 & K3 & K4).
  assert (Hh : forall q p, In p (holders s q) -> exists e, s_rsvp s p = Some e /\ s_now s <= e /\ q p = true).
  { intros q p Hin. unfold holders in Hin. apply filter_In in Hin. destruct Hin as [_ Hin].
    destruct (s_rsvp s p) as [e|]; [|discriminate]. apply andb_true_iff in Hin. destruct Hin as [H1 H2].
    exists e. repeat split; [apply Z.leb_le, H1 | exact H2]. }
  split; [|split].
  - eapply Z.le_trans; [apply (holders_le s _ (s_ctot s)) | exact K1].
    intros p Hin. destruct (Hh _ _ Hin) as (e & Hr & He & _). destruct (K4 p e Hr He) as (_ & I & _).
    apply in_map_iff. exists (mkPe e p). split; [reflexivity | exact I].
  - intros i. eapply Z.le_trans; [apply (holders_le s _ (s_cips s i)) | apply K2].
    intros p Hin. destruct (Hh _ _ Hin) as (e & Hr & He & Hq). apply Z.eqb_eq in Hq. subst i.
    destruct (K4 p e Hr He) as (_ & _ & I & _). apply in_map_iff. exists (mkPe e p). split; [reflexivity | exact I].
  - intros a Ha. eapply Z.le_trans; [apply (holders_le s _ (s_casns s a)) | apply K3, Ha].
    intros p Hin. destruct (Hh _ _ Hin) as (e & Hr & He & Hq). apply Z.eqb_eq in Hq. subst a.
    destruct (K4 p e Hr He) as (_ & _ & _ & I). apply in_map_iff. exists (mkPe e p). split; [reflexivity | apply I, Ha].
Qed.
End Caps.

(* caps for EVERY history: g = the address each holder's reservation was granted from *)
Lemma caps_l : forall c ops,
  0 <= c_maxrsvp c -> 0 <= c_maxip c -> 0 <= c_maxasn c ->
  let s := fst (grun c init_st (fun _ => addr0) ops) in
  let g := snd (grun c init_st (fun _ => addr0) ops) in
  s = run c init_st ops /\
  zlength (holders c s (fun _ => true)) <= c_maxrsvp c /\
  (forall i, zlength (holders c s (fun p => a_ip (g p) =? i)) <= c_maxip c) /\
  (forall a, a <> 0 -> zlength (holders c s (fun p => a_asn (g p) =? a)) <= c_maxasn c).
Proof.
  intros c ops W1 W2 W3 s g. split; [apply grun_run|].
  apply (caps_of_kinv c g s). apply kinv_grun. apply kinv_init; assumption.
Qed.

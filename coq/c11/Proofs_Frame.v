(* C11 — frame lemmas: the counter/circuit machinery (addConn, rmConn, cleanup, teardown of
   circuits, put_circ) leaves the reservation side of the state alone. *)
From Coq Require Import List ZArith Bool Lia.
From Verif Require Import gen.Consts_c11 c11.Model.
Import ListNotations.
Local Open Scope Z_scope.

Definition rproj (s : st) :=
  (s_rsvp s, s_ctot s, s_cips s, s_casns s, s_rtag s, s_link s, s_closed s, s_now s).

Lemma add_conn_r : forall s p, rproj (add_conn s p) = rproj s.
Proof. intros. unfold add_conn. destruct (_ =? 1); reflexivity. Qed.
Lemma rm_conn_r : forall s p, rproj (rm_conn s p) = rproj s.
Proof. intros. unfold rm_conn. destruct (_ >? 0); reflexivity. Qed.
Lemma cleanup_circ_r : forall c s a b, rproj (cleanup_circ c s a b) = rproj s.
Proof.
  intros. unfold cleanup_circ. cbv zeta. destruct (s_closed _).
  - rewrite rm_conn_r, rm_conn_r. reflexivity.
  - change (rproj (rm_conn (rm_conn s a) b) = rproj s). rewrite rm_conn_r, rm_conn_r. reflexivity.
Qed.
Lemma kill_list_r : forall c f l s, rproj (snd (kill_list c f l s)) = rproj s.
Proof.
  intros c f l. induction l as [|ci r IH]; intros s; [reflexivity|].
  cbn [kill_list]. destruct (ci_open ci && f ci).
  - specialize (IH (cleanup_circ c s (ci_src ci) (ci_dst ci))).
    destruct (kill_list c f r _) as [r' s2]. cbn [snd] in *. rewrite IH. apply cleanup_circ_r.
  - specialize (IH s). destruct (kill_list c f r s) as [r' s2]. cbn [snd] in *. exact IH.
Qed.
Lemma kill_where_r : forall c s f, rproj (kill_where c s f) = rproj s.
Proof.
  intros. unfold kill_where. pose proof (kill_list_r c f (s_circs s) s) as H.
  destruct (kill_list c f (s_circs s) s) as [l s1]. cbn [snd] in H. exact H.
Qed.
Lemma settle_r : forall c s ci, rproj (settle_circ c s ci) = rproj s.
Proof.
  intros. unfold settle_circ. cbv zeta. destruct (ci_open ci); [reflexivity|].
  rewrite cleanup_circ_r. reflexivity.
Qed.
Lemma send_r : forall c s id dir n, rproj (send c s id dir n) = rproj s.
Proof.
  intros. unfold send. destruct (find_circ s id); [|reflexivity]. cbv zeta.
  destruct (_ || _); [reflexivity|]. destruct (dir =? 0); apply settle_r.
Qed.
Lemma close_write_r : forall c s id dir, rproj (close_write c s id dir) = rproj s.
Proof.
  intros. unfold close_write. destruct (find_circ s id); [|reflexivity]. cbv zeta.
  destruct (negb _); [reflexivity|]. destruct (dir =? 0); apply settle_r.
Qed.
Lemma reset_end_r : forall c s id side, rproj (reset_end c s id side) = rproj s.
Proof.
  intros. unfold reset_end. destruct (find_circ s id); [|reflexivity].
  destruct (negb _); [reflexivity|]. apply kill_where_r.
Qed.

(* projections of an rproj equality *)
Lemma rproj_fields : forall a b, rproj a = rproj b ->
  s_rsvp a = s_rsvp b /\ s_ctot a = s_ctot b /\ s_cips a = s_cips b /\ s_casns a = s_casns b /\
  s_rtag a = s_rtag b /\ s_link a = s_link b /\ s_closed a = s_closed b /\ s_now a = s_now b.
Proof. intros a b H. unfold rproj in H. injection H as H1 H2 H3 H4 H5 H6 H7 H8. repeat split; assumption. Qed.

(* C11 — counters, hop tags and span memory are a function of the open circuits
   (so they return to their previous values however an attempt or circuit ends). *)
From Coq Require Import List ZArith Bool Lia.
From Verif Require Import lib.Wire gen.Consts_c11 c11.Model c11.Spec.
Import ListNotations.
Local Open Scope Z_scope.

Definition role (p : Z) (ci : circ) : Z := b2z (ci_src ci =? p) + b2z (ci_dst ci =? p).

Fixpoint cnt (p : Z) (l : list circ) : Z :=
  match l with [] => 0 | ci :: r => (if ci_open ci then role p ci else 0) + cnt p r end.

Fixpoint nopenl (l : list circ) : Z :=
  match l with [] => 0 | ci :: r => (if ci_open ci then 1 else 0) + nopenl r end.

Lemma role_nonneg : forall p ci, 0 <= role p ci.
Proof. intros. unfold role, b2z. destruct (ci_src ci =? p), (ci_dst ci =? p); lia. Qed.

Lemma cnt_nonneg : forall p l, 0 <= cnt p l.
Proof. induction l; cbn [cnt]; [lia|]. pose proof (role_nonneg p a). destruct (ci_open a); lia. Qed.

Lemma nopenl_nonneg : forall l, 0 <= nopenl l.
Proof. induction l; cbn [nopenl]; [lia|]. destruct (ci_open a); lia. Qed.

Lemma nopen_nopenl : forall s, nopen s = nopenl (s_circs s).
Proof.
  intros s. unfold nopen. induction (s_circs s) as [|a l IH]; [reflexivity|].
  cbn [filter nopenl]. destruct (ci_open a); cbn [length]; lia.
Qed.

(* tags follow the counters *)
Definition htag_ok (s : st) : Prop := forall p, s_htag s p = true -> 0 < s_conns s p.

(* everything the counter steps leave alone *)
Definition frame (s s' : st) : Prop :=
  s_rsvp s' = s_rsvp s /\ s_ctot s' = s_ctot s /\ s_cips s' = s_cips s /\ s_casns s' = s_casns s /\
  s_rtag s' = s_rtag s /\ s_link s' = s_link s /\ s_circs s' = s_circs s /\
  s_closed s' = s_closed s /\ s_now s' = s_now s.

Lemma frame_refl : forall s, frame s s.
Proof. intros; repeat split. Qed.

Lemma frame_trans : forall a b c, frame a b -> frame b c -> frame a c.
Proof.
  unfold frame; intros a b c (A1&A2&A3&A4&A5&A6&A7&A8&A9) (B1&B2&B3&B4&B5&B6&B7&B8&B9).
  repeat split; congruence.
Qed.

Lemma upd_same : forall {A} (f : Z -> A) k v, upd f k v k = v.
Proof. intros. unfold upd. rewrite Z.eqb_refl. reflexivity. Qed.

Lemma upd_other : forall {A} (f : Z -> A) k v x, x <> k -> upd f k v x = f x.
Proof. intros. unfold upd. destruct (x =? k) eqn:E; [apply Z.eqb_eq in E; contradiction | reflexivity]. Qed.

Lemma b2z_eqb : forall p q, b2z (p =? q) = if p =? q then 1 else 0.
Proof. reflexivity. Qed.

(* ---- addConn / rmConn ------------------------------------------------------------ *)
Lemma add_conn_spec : forall s q, htag_ok s -> (forall p, 0 <= s_conns s p) ->
  let s' := add_conn s q in
  (forall p, s_conns s' p = s_conns s p + b2z (p =? q)) /\ htag_ok s' /\ frame s s' /\ s_mem s' = s_mem s.
Proof.
  intros s q Ht Hn. unfold add_conn.
  destruct (s_conns s q + 1 =? 1) eqn:E; cbn; repeat split.
  - intros p. unfold upd, b2z. destruct (p =? q) eqn:E1; [apply Z.eqb_eq in E1; subst|]; lia.
  - intros p. cbn. unfold upd. destruct (p =? q) eqn:E1.
    + apply Z.eqb_eq in E1; subst. specialize (Hn q). lia.
    + intros H. apply Ht in H. lia.
  - intros p. unfold upd, b2z. destruct (p =? q) eqn:E1; [apply Z.eqb_eq in E1; subst|]; lia.
  - intros p. cbn. unfold upd. destruct (p =? q) eqn:E1.
    + apply Z.eqb_eq in E1; subst. specialize (Hn q). lia.
    + intros H. apply Ht in H. lia.
Qed.

Lemma rm_conn_spec : forall s q, htag_ok s -> 1 <= s_conns s q ->
  let s' := rm_conn s q in
  (forall p, s_conns s' p = s_conns s p - b2z (p =? q)) /\ htag_ok s' /\ frame s s' /\ s_mem s' = s_mem s.
Proof.
  intros s q Ht Hq. unfold rm_conn.
  destruct (s_conns s q - 1 >? 0) eqn:E; cbn; repeat split.
  - intros p. unfold upd, b2z. destruct (p =? q) eqn:E1; [apply Z.eqb_eq in E1; subst|]; lia.
  - intros p. cbn. unfold upd. destruct (p =? q) eqn:E1.
    + intros _. lia.
    + intros H. apply Ht in H. lia.
  - intros p. unfold upd, b2z. destruct (p =? q) eqn:E1; [apply Z.eqb_eq in E1; subst|]; lia.
  - intros p. cbn. unfold upd. destruct (p =? q) eqn:E1.
    + discriminate.
    + intros H. apply Ht in H. lia.
Qed.

(* ---- cleanup() -------------------------------------------------------------------- *)
Lemma cleanup_circ_spec : forall c s src dst, htag_ok s ->
  1 <= s_conns s src -> 1 <= s_conns s dst -> (src = dst -> 2 <= s_conns s src) ->
  let s' := cleanup_circ c s src dst in
  (forall p, s_conns s' p = s_conns s p - b2z (p =? src) - b2z (p =? dst)) /\ htag_ok s' /\ frame s s' /\
  s_mem s' = (if s_closed s then s_mem s else s_mem s - 2 * c_buf c).
Proof.
  intros c s src dst Ht Hs Hd Hsd.
  destruct (rm_conn_spec s src Ht Hs) as (A1 & A2 & A3 & A4).
  assert (Hd' : 1 <= s_conns (rm_conn s src) dst).
  { rewrite A1. unfold b2z. destruct (dst =? src) eqn:E; [apply Z.eqb_eq in E; subst; specialize (Hsd eq_refl)|]; lia. }
  destruct (rm_conn_spec (rm_conn s src) dst A2 Hd') as (B1 & B2 & B3 & B4).
  pose proof (frame_trans _ _ _ A3 B3) as F.
  unfold cleanup_circ. cbv zeta.
  assert (Ec : s_closed (rm_conn (rm_conn s src) dst) = s_closed s) by (destruct F as (_&_&_&_&_&_&_&F8&_); exact F8).
  rewrite Ec. destruct (s_closed s) eqn:Ecl.
  - repeat split; try apply F; try assumption.
    + intros p. rewrite B1, A1. lia.
    + rewrite B4, A4. reflexivity.
  - cbn. repeat split; try apply F.
    + intros p. rewrite B1, A1. lia.
    + exact B2.
    + rewrite B4, A4. reflexivity.
Qed.

(* ---- kill_list ---------------------------------------------------------------------- *)
Lemma role_src_pos : forall ci, 1 <= role (ci_src ci) ci.
Proof. intros. unfold role, b2z. rewrite Z.eqb_refl. destruct (ci_dst ci =? ci_src ci); lia. Qed.
Lemma role_dst_pos : forall ci, 1 <= role (ci_dst ci) ci.
Proof. intros. unfold role, b2z. rewrite Z.eqb_refl. destruct (ci_src ci =? ci_dst ci); lia. Qed.
Lemma role_self : forall ci, ci_src ci = ci_dst ci -> role (ci_src ci) ci = 2.
Proof. intros ci H. unfold role, b2z. rewrite <- H, Z.eqb_refl. reflexivity. Qed.

Lemma kill_list_spec : forall c f l s off moff,
  (forall p, s_conns s p = cnt p l + off p) -> (forall p, 0 <= off p) -> htag_ok s ->
  (s_closed s = false -> s_mem s = 2 * c_buf c * nopenl l + moff) ->
  let '(l', s') := kill_list c f l s in
  (forall p, s_conns s' p = cnt p l' + off p) /\ htag_ok s' /\ frame s s' /\
  (s_closed s = false -> s_mem s' = 2 * c_buf c * nopenl l' + moff) /\
  length l' = length l /\
  (forall ci', In ci' l' -> exists ci, In ci l /\ ci_id ci' = ci_id ci /\ ci_src ci' = ci_src ci /\ ci_dst ci' = ci_dst ci /\
       ci_sa ci' = ci_sa ci /\ ci_da ci' = ci_da ci /\
       ci_fab ci' = ci_fab ci /\ ci_fba ci' = ci_fba ci /\ ci_dl ci' = ci_dl ci /\
       ((ci_rab ci' = ci_rab ci /\ ci_rba ci' = ci_rba ci /\ (ci_open ci && f ci = false)) \/
        (ci_rab ci' = false /\ ci_rba ci' = false /\ f ci = true))).
Proof.
  intros c f l. induction l as [|ci r IH]; intros s off moff Hc Ho Ht Hm.
  - cbn [kill_list]. refine (conj Hc (conj Ht (conj (frame_refl s) (conj Hm (conj eq_refl _))))). intros ci' [].
  - cbn [kill_list]. destruct (ci_open ci && f ci) eqn:E.
    + apply andb_true_iff in E. destruct E as [Eo Ef].
      assert (Hs : 1 <= s_conns s (ci_src ci)).
      { rewrite Hc. cbn [cnt]. rewrite Eo. pose proof (role_src_pos ci). pose proof (cnt_nonneg (ci_src ci) r). specialize (Ho (ci_src ci)). lia. }
      assert (Hd : 1 <= s_conns s (ci_dst ci)).
      { rewrite Hc. cbn [cnt]. rewrite Eo. pose proof (role_dst_pos ci). pose proof (cnt_nonneg (ci_dst ci) r). specialize (Ho (ci_dst ci)). lia. }
      assert (Hsd : ci_src ci = ci_dst ci -> 2 <= s_conns s (ci_src ci)).
      { intros Heq. rewrite Hc. cbn [cnt]. rewrite Eo. rewrite (role_self ci Heq). pose proof (cnt_nonneg (ci_src ci) r). specialize (Ho (ci_src ci)). lia. }
      destruct (cleanup_circ_spec c s (ci_src ci) (ci_dst ci) Ht Hs Hd Hsd) as (A1 & A2 & A3 & A4).
      set (s1 := cleanup_circ c s (ci_src ci) (ci_dst ci)) in *.
      assert (Ecl : s_closed s1 = s_closed s) by (destruct A3 as (_&_&_&_&_&_&_&F8&_); exact F8).
      specialize (IH s1 off moff).
      destruct (kill_list c f r s1) as [r' s2] eqn:Ek.
      assert (Hc1 : forall p, s_conns s1 p = cnt p r + off p).
      { intros p. rewrite A1, Hc. cbn [cnt]. rewrite Eo. unfold role. rewrite (Z.eqb_sym (ci_src ci) p), (Z.eqb_sym (ci_dst ci) p). lia. }
      assert (Hm1 : s_closed s1 = false -> s_mem s1 = 2 * c_buf c * nopenl r + moff).
      { intros Hcl. rewrite Ecl in Hcl. rewrite A4, Hcl. rewrite (Hm Hcl). cbn [nopenl]. rewrite Eo. lia. }
      destruct (IH Hc1 Ho A2 Hm1) as (B1 & B2 & B3 & B4 & B5 & B6).
      refine (conj _ (conj B2 (conj (frame_trans _ _ _ A3 B3) (conj _ (conj _ _))))).
      * intros p. rewrite B1. cbn [cnt ci_open ci_rab ci_rba orb]. lia.
      * intros Hcl. rewrite B4 by congruence. cbn [nopenl ci_open ci_rab ci_rba orb]. lia.
      * cbn [length]. lia.
      * intros ci' [Hin | Hin].
        -- exists ci. subst ci'. cbn. repeat split; try (left; reflexivity). right. repeat split. exact Ef.
        -- destruct (B6 ci' Hin) as (x & Hx & R). exists x. split; [right; exact Hx | exact R].
    + specialize (IH s (fun p => off p + (if ci_open ci then role p ci else 0)) (moff + 2 * c_buf c * (if ci_open ci then 1 else 0))).
      destruct (kill_list c f r s) as [r' s2] eqn:Ek.
      assert (Hc1 : forall p, s_conns s p = cnt p r + (off p + (if ci_open ci then role p ci else 0))).
      { intros p. rewrite Hc. cbn [cnt]. lia. }
      assert (Ho1 : forall p, 0 <= off p + (if ci_open ci then role p ci else 0)).
      { intros p. specialize (Ho p). pose proof (role_nonneg p ci). destruct (ci_open ci); lia. }
      assert (Hm1 : s_closed s = false -> s_mem s = 2 * c_buf c * nopenl r + (moff + 2 * c_buf c * (if ci_open ci then 1 else 0))).
      { intros Hcl. rewrite (Hm Hcl). cbn [nopenl]. lia. }
      destruct (IH Hc1 Ho1 Ht Hm1) as (B1 & B2 & B3 & B4 & B5 & B6).
      refine (conj _ (conj B2 (conj B3 (conj _ (conj _ _))))).
      * intros p. rewrite B1. cbn [cnt]. lia.
      * intros Hcl. rewrite (B4 Hcl). cbn [nopenl]. lia.
      * cbn [length]. lia.
      * intros ci' [Hin | Hin].
        -- exists ci. subst ci'. repeat split; try (left; reflexivity). left. repeat split. exact E.
        -- destruct (B6 ci' Hin) as (x & Hx & R). exists x. split; [right; exact Hx | exact R].
Qed.

(* ---- the invariant (with an offset for a request in flight) -------------------------- *)
Definition cinv_off (c : cfg) (s : st) (off : Z -> Z) (moff : Z) : Prop :=
  (forall p, s_conns s p = cnt p (s_circs s) + off p) /\ (forall p, 0 <= off p) /\ htag_ok s /\
  (s_closed s = false -> s_mem s = 2 * c_buf c * nopenl (s_circs s) + moff).

Definition cinv (c : cfg) (s : st) : Prop := cinv_off c s (fun _ => 0) 0.

(* what the counter-related steps leave alone (circuits may change) *)
Definition frame2 (s s' : st) : Prop :=
  s_rsvp s' = s_rsvp s /\ s_ctot s' = s_ctot s /\ s_cips s' = s_cips s /\ s_casns s' = s_casns s /\
  s_rtag s' = s_rtag s /\ s_link s' = s_link s /\ s_closed s' = s_closed s /\ s_now s' = s_now s.

Lemma kill_list_ids : forall c f l s, map ci_id (fst (kill_list c f l s)) = map ci_id l.
Proof.
  intros c f l. induction l as [|ci r IH]; intros s; [reflexivity|].
  cbn [kill_list]. destruct (ci_open ci && f ci).
  - specialize (IH (cleanup_circ c s (ci_src ci) (ci_dst ci))).
    destruct (kill_list c f r (cleanup_circ c s (ci_src ci) (ci_dst ci))) as [r' s2]. cbn in *. f_equal. exact IH.
  - specialize (IH s). destruct (kill_list c f r s) as [r' s2]. cbn in *. f_equal. exact IH.
Qed.

Lemma kill_where_spec : forall c s f off moff, cinv_off c s off moff ->
  cinv_off c (kill_where c s f) off moff /\ frame2 s (kill_where c s f) /\
  map ci_id (s_circs (kill_where c s f)) = map ci_id (s_circs s).
Proof.
  intros c s f off moff (H1 & H2 & H3 & H4). unfold kill_where.
  pose proof (kill_list_spec c f (s_circs s) s off moff H1 H2 H3 H4) as K.
  destruct (kill_list c f (s_circs s) s) as [l s1] eqn:E.
  destruct K as (K1 & K2 & K3 & K4 & K5 & K6).
  destruct K3 as (F1 & F2 & F3 & F4 & F5 & F6 & F7 & F8 & F9).
  split; [|split].
  - unfold cinv_off. cbn. refine (conj K1 (conj H2 (conj K2 _))). intros Hc. apply K4. congruence.
  - unfold frame2. cbn. repeat split; assumption.
  - cbn. pose proof (kill_list_ids c f (s_circs s) s) as Hi. rewrite E in Hi. exact Hi.
Qed.

Lemma on_disc_cinv : forall c s p off m, cinv_off c s off m -> cinv_off c (on_disconnected s p) off m.
Proof.
  intros c s p off m (H1 & H2 & H3 & H4). unfold on_disconnected, cinv_off.
  destruct (s_closed s) eqn:Ec; cbn; (refine (conj H1 (conj H2 (conj _ _))); [| rewrite ?Ec; try discriminate; exact H4]);
    intros q; cbn; unfold upd; destruct (q =? p); try discriminate; apply H3.
Qed.

Lemma set_link_cinv : forall c s v off m, cinv_off c s off m -> cinv_off c (set_link s v) off m.
Proof. intros c s v off m H. exact H. Qed.

Lemma close_conn_cinv : forall c s p k off m, cinv_off c s off m -> cinv_off c (close_conn c s p k) off m.
Proof.
  intros c s p k off m H. unfold close_conn. destruct (s_link s p k); [|exact H].
  match goal with |- context [kill_where c ?s1 ?f] =>
    destruct (kill_where_spec c s1 f off m (set_link_cinv c s _ off m H)) as (K & _ & _);
    destruct (connected (kill_where c s1 f) p); [exact K | apply on_disc_cinv; exact K] end.
Qed.

Lemma close_peer_cinv : forall c s p off m, cinv_off c s off m -> cinv_off c (close_peer c s p) off m.
Proof. intros. unfold close_peer. apply close_conn_cinv, close_conn_cinv. assumption. Qed.

Lemma gc_cinv : forall c s tau off m, cinv_off c s off m -> cinv_off c (gc s tau) off m.
Proof. intros c s tau off m H. exact H. Qed.

Lemma set_now_cinv : forall c s t off m, cinv_off c s off m -> cinv_off c (set_now s t) off m.
Proof. intros c s t off m H. exact H. Qed.

Lemma advance_cinv : forall c s t off m, cinv_off c s off m -> cinv_off c (advance_to c s t) off m.
Proof.
  intros c s t off m H. unfold advance_to. cbv zeta. apply set_now_cinv.
  match goal with |- context [kill_where c s ?f] =>
    destruct (kill_where_spec c s f off m H) as (K & _ & _) end.
  match goal with |- cinv_off _ (if ?b then _ else _) _ _ => destruct b end; [apply gc_cinv|]; exact K.
Qed.

Lemma close_relay_cinv : forall c s, cinv c s -> cinv c (close_relay s).
Proof.
  intros c s H. unfold close_relay. destruct (s_closed s) eqn:E; [exact H|]. destruct H as (H1 & H2 & H3 & H4).
  unfold cinv, cinv_off. cbn. refine (conj H1 (conj H2 (conj H3 _))). discriminate.
Qed.

(* constraints.Reserve touches the constraint slices only *)
Lemma c_reserve_cinv : forall c s p a now exp off m, cinv_off c s off m ->
  cinv_off c (fst (c_reserve c s p a now exp)) off m.
Proof.
  intros c s p a now exp off m H. unfold c_reserve. cbv zeta.
  repeat match goal with |- context [if ?b then _ else _] => destruct b end; exact H.
Qed.

Lemma reserve_cinv : forall c s p k acl inj, cinv c s -> cinv c (fst (handle_reserve c s p k acl inj)).
Proof.
  intros c s p k acl inj H. unfold handle_reserve.
  destruct (negb (s_link s p k) || s_closed s); [exact H|].
  destruct (negb (mem_ok_always c (s_mem s) maxMessageSize)); [exact H|].
  destruct (a_relayed (addr_of c p k)); [exact H|]. cbv zeta.
  assert (H1 : cinv c (if inj =? 2 then close_peer c (advance_to c s (s_now s + 1)) p else s)).
  { destruct (inj =? 2); [apply close_peer_cinv, advance_cinv|]; exact H. }
  set (s1 := if inj =? 2 then close_peer c (advance_to c s (s_now s + 1)) p else s) in *.
  destruct (negb acl); [exact H1|].
  destruct (negb (connected s1 p)); [exact H1|].
  pose proof (c_reserve_cinv c s1 p (addr_of c p k) (s_now s1) (s_now s1 + c_ttl c) _ _ H1) as H2.
  destruct (c_reserve c s1 p (addr_of c p k) (s_now s1) (s_now s1 + c_ttl c)) as [s2 ok]. cbn [fst] in H2.
  destruct (negb ok); exact H2.
Qed.

(* ---- handleConnect ------------------------------------------------------------------- *)
Definition w (p : Z) (x : circ) : Z := if ci_open x then role p x else 0.
Definition w1 (x : circ) : Z := if ci_open x then 1 else 0.

Lemma cnt_app : forall p l ci, cnt p (l ++ [ci]) = cnt p l + w p ci.
Proof. induction l; intros; cbn [app cnt]; unfold w in *; [lia | rewrite IHl; lia]. Qed.

Lemma nopenl_app : forall l ci, nopenl (l ++ [ci]) = nopenl l + w1 ci.
Proof. induction l; intros; cbn [app nopenl]; unfold w1 in *; [lia | rewrite IHl; lia]. Qed.

Definition off2 (src dst : Z) : Z -> Z := fun p => b2z (p =? src) + b2z (p =? dst).

Lemma off2_nonneg : forall src dst p, 0 <= off2 src dst p.
Proof. intros. unfold off2, b2z. destruct (p =? src), (p =? dst); lia. Qed.

Lemma cleanup_off : forall c s src dst, cinv_off c s (off2 src dst) (2 * c_buf c) ->
  cinv c (cleanup_circ c s src dst).
Proof.
  intros c s src dst (H1 & H2 & H3 & H4).
  assert (Hs : 1 <= s_conns s src).
  { rewrite H1. pose proof (cnt_nonneg src (s_circs s)). unfold off2, b2z. rewrite Z.eqb_refl. destruct (src =? dst); lia. }
  assert (Hd : 1 <= s_conns s dst).
  { rewrite H1. pose proof (cnt_nonneg dst (s_circs s)). unfold off2, b2z. rewrite Z.eqb_refl. destruct (dst =? src); lia. }
  assert (Hsd : src = dst -> 2 <= s_conns s src).
  { intros ->. rewrite H1. pose proof (cnt_nonneg dst (s_circs s)). unfold off2, b2z. rewrite Z.eqb_refl. lia. }
  destruct (cleanup_circ_spec c s src dst H3 Hs Hd Hsd) as (A1 & A2 & A3 & A4).
  destruct A3 as (F1 & F2 & F3 & F4 & F5 & F6 & F7 & F8 & F9).
  unfold cinv, cinv_off. refine (conj _ (conj (fun _ => Z.le_refl 0) (conj A2 _))).
  - intros p. rewrite A1, H1, F7. unfold off2. lia.
  - intros Hc. rewrite F8 in Hc. rewrite A4, Hc, F7, (H4 Hc). lia.
Qed.

Lemma connect_cinv : forall c s src sa dst acl dm sm dc, cinv c s ->
  cinv c (fst (handle_connect c s src sa dst acl dm sm dc)).
Proof.
  intros c s src sa dst acl dm sm dc H. unfold handle_connect.
  destruct (negb (s_link s src sa) || s_closed s) eqn:E0; [exact H|].
  repeat match goal with |- cinv c (fst (if ?b then (s, _) else _)) => destruct b; [exact H|] end.
  destruct (s_rsvp s dst); [|exact H].
  repeat match goal with |- cinv c (fst (if ?b then (s, _) else _)) => destruct b; [exact H|] end.
  apply orb_false_iff in E0. destruct E0 as [_ Ecl].
  destruct H as (H1 & H2 & H3 & H4).
  assert (Hn : forall p, 0 <= s_conns s p) by (intros p; rewrite H1; pose proof (cnt_nonneg p (s_circs s)); lia).
  destruct (add_conn_spec s src H3 Hn) as (A1 & A2 & A3 & A4).
  assert (Hn1 : forall p, 0 <= s_conns (add_conn s src) p).
  { intros p. rewrite A1. specialize (Hn p). unfold b2z. destruct (p =? src); lia. }
  destruct (add_conn_spec (add_conn s src) dst A2 Hn1) as (B1 & B2 & B3 & B4).
  pose proof (frame_trans _ _ _ A3 B3) as (F1 & F2 & F3 & F4 & F5 & F6 & F7 & F8 & F9).
  set (s1 := set_mem (add_conn (add_conn s src) dst) (s_mem s + 2 * c_buf c)).
  assert (I1 : cinv_off c s1 (off2 src dst) (2 * c_buf c)).
  { unfold cinv_off. refine (conj _ (conj (off2_nonneg src dst) (conj B2 _))).
    - intros p. unfold s1. cbn [set_mem s_conns s_circs]. rewrite B1, A1, H1, F7. unfold off2. lia.
    - intros _. unfold s1. cbn [set_mem s_mem s_circs]. rewrite F7, (H4 Ecl). lia. }
  cbv zeta. fold s1.
  repeat match goal with |- cinv c (fst (if ?b then (cleanup_circ c s1 src dst, _) else _)) =>
    destruct b; [apply cleanup_off; exact I1|] end.
  destruct (sm =? 3).
  - cbn [fst]. apply cleanup_off, close_peer_cinv, advance_cinv. exact I1.
  - cbn [fst]. destruct I1 as (J1 & J2 & J3 & J4). unfold cinv, cinv_off.
    refine (conj _ (conj (fun _ => Z.le_refl 0) (conj J3 _))); cbn [set_circs s_conns s_circs s_mem s_closed].
    + intros p. rewrite cnt_app. unfold w. cbn [ci_open ci_rab ci_rba orb]. rewrite J1. unfold off2, role. cbn [ci_src ci_dst].
      rewrite (Z.eqb_sym src p), (Z.eqb_sym dst p). lia.
    + intros Hc. rewrite nopenl_app. unfold w1. cbn [ci_open ci_rab ci_rba orb]. rewrite (J4 Hc). lia.
Qed.

(* ---- relayLimited: a direction ends ----------------------------------------------------- *)
Lemma replace_first_cnt : forall p id ci ci' l,
  find (fun x => ci_id x =? id) l = Some ci -> ci_id ci' = id ->
  cnt p (replace_first ci' l) = cnt p l - w p ci + w p ci' /\
  nopenl (replace_first ci' l) = nopenl l - w1 ci + w1 ci'.
Proof.
  intros p id ci ci' l. induction l as [|x r IH]; intros Hf Hid; [discriminate|].
  cbn [find] in Hf. cbn [replace_first]. rewrite Hid. destruct (ci_id x =? id) eqn:E.
  - inversion Hf; subst x. cbn [cnt nopenl]. unfold w, w1. split; lia.
  - destruct (IH Hf Hid) as [I1 I2]. cbn [cnt nopenl]. rewrite I1, I2. split; lia.
Qed.

Lemma settle_cinv : forall c s id ci ci', cinv c s ->
  find_circ s id = Some ci -> ci_open ci = true ->
  ci_id ci' = id -> ci_src ci' = ci_src ci -> ci_dst ci' = ci_dst ci ->
  cinv c (settle_circ c s ci').
Proof.
  intros c s id ci ci' (H1 & H2 & H3 & H4) Hf Ho Hid Hs Hd. unfold settle_circ. cbv zeta.
  unfold find_circ in Hf.
  assert (Hr : forall p, role p ci' = role p ci) by (intros p; unfold role; rewrite Hs, Hd; reflexivity).
  destruct (ci_open ci') eqn:Eo.
  - unfold cinv, cinv_off, put_circ. cbn [set_circs s_conns s_circs s_mem s_closed].
    refine (conj _ (conj H2 (conj H3 _))).
    + intros p. destruct (replace_first_cnt p id ci ci' _ Hf Hid) as [R1 _]. rewrite R1, H1. unfold w. rewrite Ho, Eo, Hr. lia.
    + intros Hc. destruct (replace_first_cnt 0 id ci ci' _ Hf Hid) as [_ R2]. rewrite R2, (H4 Hc). unfold w1. rewrite Ho, Eo. lia.
  - apply cleanup_off. unfold cinv_off, put_circ. cbn [set_circs s_conns s_circs s_mem s_closed].
    refine (conj _ (conj (off2_nonneg _ _) (conj H3 _))).
    + intros p. destruct (replace_first_cnt p id ci ci' _ Hf Hid) as [R1 _]. rewrite R1, H1. unfold w. rewrite Ho, Eo.
      rewrite <- Hr. unfold role, off2. rewrite (Z.eqb_sym p), (Z.eqb_sym p (ci_dst ci')). lia.
    + intros Hc. destruct (replace_first_cnt 0 id ci ci' _ Hf Hid) as [_ R2]. rewrite R2, (H4 Hc). unfold w1. rewrite Ho, Eo. lia.
Qed.

Lemma find_circ_id : forall s id ci, find_circ s id = Some ci -> ci_id ci = id.
Proof. intros s id ci H. unfold find_circ in H. apply find_some in H. destruct H as [_ H]. apply Z.eqb_eq in H. exact H. Qed.

Lemma send_cinv : forall c s id dir n, cinv c s -> cinv c (send c s id dir n).
Proof.
  intros c s id dir n H. unfold send. destruct (find_circ s id) as [ci|] eqn:Ef; [|exact H]. cbv zeta.
  destruct (negb (if dir =? 0 then ci_rab ci else ci_rba ci) || (n <=? 0)) eqn:E; [exact H|].
  apply orb_false_iff in E. destruct E as [E _]. apply negb_false_iff in E.
  assert (Ho : ci_open ci = true) by (unfold ci_open; destruct (dir =? 0); rewrite E; [reflexivity | apply orb_true_r]).
  pose proof (find_circ_id _ _ _ Ef) as Hid.
  destruct (dir =? 0); eapply settle_cinv; eauto.
Qed.

Lemma close_write_cinv : forall c s id dir, cinv c s -> cinv c (close_write c s id dir).
Proof.
  intros c s id dir H. unfold close_write. destruct (find_circ s id) as [ci|] eqn:Ef; [|exact H]. cbv zeta.
  destruct (negb (if dir =? 0 then ci_rab ci else ci_rba ci)) eqn:E; [exact H|].
  apply negb_false_iff in E.
  assert (Ho : ci_open ci = true) by (unfold ci_open; destruct (dir =? 0); rewrite E; [reflexivity | apply orb_true_r]).
  pose proof (find_circ_id _ _ _ Ef) as Hid.
  destruct (dir =? 0); eapply settle_cinv; eauto.
Qed.

Lemma reset_cinv : forall c s id side, cinv c s -> cinv c (reset_end c s id side).
Proof.
  intros c s id side H. unfold reset_end. destruct (find_circ s id); [|exact H].
  destruct (negb _); [exact H|]. apply kill_where_spec. exact H.
Qed.

(* ---- every operation, every history ------------------------------------------------------ *)
Lemma apply_op_cinv : forall c s o, cinv c s -> cinv c (fst (apply_op c s o)).
Proof.
  intros c s o H. destruct o; cbn [apply_op fst].
  - exact H.
  - apply close_conn_cinv; exact H.
  - apply reserve_cinv; exact H.
  - apply connect_cinv; exact H.
  - apply send_cinv; exact H.
  - apply close_write_cinv; exact H.
  - apply reset_cinv; exact H.
  - apply advance_cinv; exact H.
  - apply close_relay_cinv; exact H.
Qed.

Lemma step_cinv : forall c s t o tend, cinv c s -> cinv c (fst (step c s t o tend)).
Proof.
  intros c s t o tend H. unfold step.
  pose proof (apply_op_cinv c (advance_to c s t) o (advance_cinv c s t _ _ H)) as H1.
  destruct (apply_op c (advance_to c s t) o) as [s1 obs]. cbn [fst] in *. apply advance_cinv. exact H1.
Qed.

Lemma init_cinv : forall c, cinv c init_st.
Proof. intros c. unfold cinv, cinv_off, init_st, htag_ok. cbn. repeat split; intros; try lia; try discriminate. Qed.

Lemma run_cinv : forall c ops s, cinv c s -> cinv c (run c s ops).
Proof.
  intros c ops. induction ops as [|[[t o] tend] r IH]; intros s H; [exact H|].
  cbn [run]. apply IH, step_cinv, H.
Qed.

(* the readable form *)
Lemma counters_restored_l : forall c ops,
  let s := run c init_st ops in
  (forall p, s_conns s p = cnt p (s_circs s)) /\
  (forall p, cnt p (s_circs s) = 0 -> s_htag s p = false) /\
  (s_closed s = false -> s_mem s = 2 * c_buf c * nopenl (s_circs s)).
Proof.
  intros c ops s. destruct (run_cinv c ops init_st (init_cinv c)) as (H1 & _ & H3 & H4). fold s in H1, H3, H4.
  split; [|split].
  - intros p. rewrite H1. lia.
  - intros p Hc. destruct (s_htag s p) eqn:E; [|reflexivity]. apply H3 in E. rewrite H1 in E. lia.
  - intros Hc. rewrite (H4 Hc). lia.
Qed.

(* ---- limits (local forms) --------------------------------------------------------------- *)
(* after time moved to t no circuit whose stream deadline has passed is still open *)
Lemma advance_deadline_l : forall c s t ci, cinv c s ->
  In ci (s_circs (advance_to c s t)) -> ci_open ci = true -> 0 <= ci_dl ci ->
  s_now (advance_to c s t) < ci_dl ci.
Proof.
  intros c s t ci (H1 & H2 & H3 & H4) Hin Ho Hdl. unfold advance_to in *. cbv zeta in *.
  set (t' := Z.max t (s_now s)) in *.
  set (f := fun ci0 : circ => (0 <=? ci_dl ci0) && (ci_dl ci0 <=? t')) in *.
  cbn [set_now s_now]. 
  assert (Hc : In ci (s_circs (kill_where c s f))).
  { revert Hin. cbn [set_now s_circs]. match goal with |- In ci (s_circs (if ?x then _ else _)) -> _ => destruct x end; auto. }
  unfold kill_where in Hc.
  pose proof (kill_list_spec c f (s_circs s) s (fun _ => 0) 0 H1 H2 H3 H4) as K.
  destruct (kill_list c f (s_circs s) s) as [l s1]. cbn [set_circs s_circs] in Hc.
  destruct K as (_ & _ & _ & _ & _ & K6). destruct (K6 ci Hc) as (x & Hx & _ & _ & _ & _ & _ & _ & _ & Edl & R).
  destruct R as [(Ra & Rb & Rf) | (Ra & Rb & _)].
  - assert (Hox : ci_open x = true) by (unfold ci_open in *; rewrite <- Ra, <- Rb; exact Ho).
    rewrite Hox in Rf. cbn [andb] in Rf. unfold f in Rf. rewrite <- Edl in Rf.
    apply andb_false_iff in Rf. destruct Rf as [Rf | Rf]; [apply Z.leb_gt in Rf | apply Z.leb_gt in Rf]; lia.
  - unfold ci_open in Ho. rewrite Ra, Rb in Ho. discriminate.
Qed.

(* io.LimitReader: never more than the remaining allowance goes through *)
Lemma limit_reader_l : forall L f n, f <= L -> f + Z.min n (L - f) <= L.
Proof. intros. lia. Qed.

(* C11 — client side: what client.Reserve (client/reservation.go) accepts from a relay's
   answer to RESERVE, in particular the reservation voucher (a signed envelope,
   core/record).  Envelope parsing / ConsumeEnvelope is C08's model [consume]; the
   signature scheme, the key decoders, peer-ID derivation and the voucher's
   protobuf decoding are Section variables.  NO proofs here. *)
From Coq Require Import List NArith ZArith Bool.
From Verif Require Import c08.Model gen.Consts_c11.
Import ListNotations.

(* proto.RecordDomain / proto.RecordCodec, re-read from voucher.go *)
Definition RecordDomain : bytes := map Z.to_N RecordDomain_z.
Definition RecordCodec : bytes := map Z.to_N RecordCodec_z.

(* pb.HopMessage as the client reads it *)
Record hopresp := mkResp {
  r_type : Z;                   (* 0 RESERVE, 1 CONNECT, 2 STATUS *)
  r_status : Z;
  r_has_rsvp : bool;            (* msg.GetReservation() != nil *)
  r_expire : Z;                 (* Reservation.expire, unix seconds *)
  r_voucher : option bytes;     (* Reservation.voucher *)
  r_limit : option (Z * Z) }.   (* duration (s), data *)

(* a decoded voucher: Relay, Peer (peer-ID bytes), Expiration *)
Definition voucher := (bytes * bytes * Z)%type.

Inductive vres :=
| VNone                          (* no voucher in the message: accepted without one *)
| VAccept (v : voucher)
| VReject (why : Z).             (* 1 envelope/signature, 2 payload, 3 relay <> signer, 4 peer <> self, 5 type *)

Inductive cres :=
| CROk (expire : Z) (v : option voucher) (lim : option (Z * Z))
| CRErr (status : Z).

Section Client.
  Variable K : Type.
  Variable key_dec : N -> bytes -> option K.          (* key-type specific unmarshallers *)
  Variable verify : K -> bytes -> bytes -> bool.       (* PubKey.Verify *)
  Variable id_of : K -> bytes.                         (* peer.IDFromPublicKey *)
  Variable dec_voucher : bytes -> option voucher.      (* ReservationVoucher.UnmarshalRecord *)

  (* record.ConsumeEnvelope(voucherBytes, proto.RecordDomain), the type assertion to
     *proto.ReservationVoucher, signer == voucher.Relay, h.ID() == voucher.Peer *)
  Definition check_voucher (self : bytes) (vb : option bytes) : vres :=
    match vb with
    | None => VNone
    | Some b =>
        match consume K key_dec verify b RecordDomain with
        | CAccept k pt pl =>
            if negb (bytes_eqb pt RecordCodec) then VReject 5
            else match dec_voucher pl with
                 | None => VReject 2
                 | Some (rel, pr, ex) =>
                     if negb (bytes_eqb (id_of k) rel) then VReject 3
                     else if negb (bytes_eqb self pr) then VReject 4
                     else VAccept (rel, pr, ex)
                 end
        | _ => VReject 1
        end
    end.

  (* Reserve() after the response was read; now in unix seconds *)
  Definition client_reserve (self : bytes) (now : Z) (r : hopresp) : cres :=
    if negb (r_type r =? 2)%Z then CRErr 400
    else if negb (r_status r =? 100)%Z then CRErr (r_status r)
    else if negb (r_has_rsvp r) then CRErr 400
    else if (r_expire r <? now)%Z then CRErr 400
    else match check_voucher self (r_voucher r) with
         | VNone => CROk (r_expire r) None (r_limit r)
         | VAccept v => CROk (r_expire r) (Some v) (r_limit r)
         | VReject _ => CRErr 400
         end.
End Client.

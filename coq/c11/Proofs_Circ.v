(* C11 — how the list of circuits evolves: identities, endpoints and deadlines never
   change, a closed circuit never reopens, ids are 1,2,3,...; per-circuit limits. *)
From Coq Require Import List ZArith Bool Lia.
From Verif Require Import gen.Consts_c11 c11.Model c11.Proofs_Frame.
Import ListNotations.
Local Open Scope Z_scope.

(* b is a later state of circuit a *)
Definition evo1 (a b : circ) : Prop :=
  ci_id b = ci_id a /\ ci_src b = ci_src a /\ ci_dst b = ci_dst a /\ ci_dl b = ci_dl a /\
  (ci_open b = true -> ci_open a = true).
Definition evo (l l' : list circ) : Prop := Forall2 evo1 l l'.

Lemma evo1_refl : forall a, evo1 a a.
Proof. intros. unfold evo1. repeat split; auto. Qed.
Lemma evo_refl : forall l, evo l l.
Proof. induction l; constructor; [apply evo1_refl | assumption]. Qed.
Lemma evo1_trans : forall a b d, evo1 a b -> evo1 b d -> evo1 a d.
Proof. unfold evo1. intros a b d (A1&A2&A3&A4&A5) (B1&B2&B3&B4&B5). repeat split; try congruence. auto. Qed.
Lemma evo_trans : forall l1 l2 l3, evo l1 l2 -> evo l2 l3 -> evo l1 l3.
Proof.
  intros l1 l2 l3 H. revert l3. induction H; intros l3 H3; inversion H3; subst; constructor.
  - eapply evo1_trans; eassumption.
  - apply IHForall2. assumption.
Qed.

(* ids count up from k *)
Fixpoint idsfrom (k : Z) (l : list circ) : Prop :=
  match l with [] => True | x :: r => ci_id x = k /\ idsfrom (k + 1) r end.

Lemma idsfrom_evo : forall l l' k, evo l l' -> idsfrom k l -> idsfrom k l'.
Proof.
  intros l l' k H. revert k. induction H; intros k Hi; [exact I|].
  destruct Hi as [Hx Hr]. destruct H as (E & _). cbn. split; [congruence | apply IHForall2, Hr].
Qed.

Lemma idsfrom_app : forall l k x, idsfrom k l -> ci_id x = k + Z.of_nat (length l) -> idsfrom k (l ++ [x]).
Proof.
  induction l as [|a r IH]; intros k x Hi Hx; cbn in *.
  - split; [lia | exact I].
  - destruct Hi as [Ha Hr]. split; [exact Ha|]. apply IH; [exact Hr | lia].
Qed.

(* per-circuit limits at time now *)
Definition cok (c : cfg) (now : Z) (ci : circ) : Prop :=
  c_limited c = true ->
  ci_fab ci <= c_limdata c /\ ci_fba ci <= c_limdata c /\
  (ci_open ci = true -> 0 <= ci_dl ci /\ now < ci_dl ci).

Definition civ (c : cfg) (s : st) : Prop :=
  0 <= s_now s /\ idsfrom 1 (s_circs s) /\ Forall (cok c (s_now s)) (s_circs s).

(* ---- teardown -------------------------------------------------------------------- *)
Definition kl_rel (f : circ -> bool) (a b : circ) : Prop :=
  ci_id b = ci_id a /\ ci_src b = ci_src a /\ ci_dst b = ci_dst a /\ ci_dl b = ci_dl a /\
  ci_fab b = ci_fab a /\ ci_fba b = ci_fba a /\
  ((ci_rab b = ci_rab a /\ ci_rba b = ci_rba a /\ (ci_open a && f a = false)) \/
   (ci_open b = false /\ ci_open a && f a = true)).

Lemma kill_list_rel : forall c f l s, Forall2 (kl_rel f) l (fst (kill_list c f l s)).
Proof.
  intros c f l. induction l as [|ci r IH]; intros s; [constructor|].
  cbn [kill_list]. destruct (ci_open ci && f ci) eqn:E.
  - specialize (IH (cleanup_circ c s (ci_src ci) (ci_dst ci))).
    destruct (kill_list c f r _) as [r' s2]. cbn [fst] in *. constructor; [|exact IH].
    unfold kl_rel. cbn. repeat split; try reflexivity. right. split; [reflexivity | exact E].
  - specialize (IH s). destruct (kill_list c f r s) as [r' s2]. cbn [fst] in *. constructor; [|exact IH].
    unfold kl_rel. repeat split; try reflexivity. left. repeat split. exact E.
Qed.

Lemma kill_where_circs : forall c s f, Forall2 (kl_rel f) (s_circs s) (s_circs (kill_where c s f)).
Proof.
  intros. unfold kill_where. pose proof (kill_list_rel c f (s_circs s) s) as H.
  destruct (kill_list c f (s_circs s) s) as [l s1]. cbn [fst] in H. exact H.
Qed.

Lemma kl_rel_evo1 : forall f a b, kl_rel f a b -> evo1 a b.
Proof.
  intros f a b (H1&H2&H3&H4&_&_&H7). unfold evo1. repeat split; try assumption.
  intros Ho. destruct H7 as [(Ra&Rb&_)|[Hc _]]; [|congruence]. unfold ci_open in *. rewrite <- Ra, <- Rb. exact Ho.
Qed.

Lemma Forall2_impl : forall {X Y} (P Q : X -> Y -> Prop) l l', (forall a b, P a b -> Q a b) -> Forall2 P l l' -> Forall2 Q l l'.
Proof. intros X Y P Q l l' H F. induction F; constructor; auto. Qed.

Lemma kill_where_evo : forall c s f, evo (s_circs s) (s_circs (kill_where c s f)).
Proof. intros. eapply Forall2_impl; [apply kl_rel_evo1 | apply kill_where_circs]. Qed.

Lemma cok_kl : forall c f now a b, kl_rel f a b -> cok c now a -> cok c now b.
Proof.
  intros c f now a b (H1&H2&H3&H4&H5&H6&H7) Ha Hl. destruct (Ha Hl) as (A1 & A2 & A3).
  rewrite H5, H6, H4. refine (conj A1 (conj A2 _)). intros Ho.
  destruct H7 as [(Ra&Rb&_)|[Hc _]]; [|congruence]. apply A3. unfold ci_open in *. rewrite <- Ra, <- Rb. exact Ho.
Qed.

Lemma Forall_Forall2 : forall {X} (P Q : X -> Prop) (R : X -> X -> Prop) l l',
  (forall a b, R a b -> P a -> Q b) -> Forall2 R l l' -> Forall P l -> Forall Q l'.
Proof. intros X P Q R l l' H F. induction F; intros HP; inversion HP; subst; constructor; eauto. Qed.

Lemma kill_where_civ : forall c s f, civ c s -> civ c (kill_where c s f).
Proof.
  intros c s f (N & I & F). pose proof (proj2 (proj2 (proj2 (proj2 (proj2 (proj2 (proj2 (rproj_fields _ _ (kill_where_r c s f))))))))) as Hn.
  unfold civ. rewrite Hn. refine (conj N (conj _ _)).
  - eapply idsfrom_evo; [apply kill_where_evo | exact I].
  - eapply Forall_Forall2; [|apply kill_where_circs | exact F]. intros a b. apply cok_kl.
Qed.

(* ---- combined: circuits evolve and the per-circuit invariant is kept ----------------- *)
Definition cev (c : cfg) (s s' : st) : Prop := evo (s_circs s) (s_circs s') /\ (civ c s -> civ c s').

Lemma cev_refl : forall c s, cev c s s.
Proof. intros. split; [apply evo_refl | auto]. Qed.
Lemma cev_trans : forall c a b d, cev c a b -> cev c b d -> cev c a d.
Proof. intros c a b d [E1 C1] [E2 C2]. split; [eapply evo_trans; eassumption | auto]. Qed.

(* same circuits, same clock *)
Lemma cev_same : forall c s s', s_circs s' = s_circs s -> s_now s' = s_now s -> cev c s s'.
Proof. intros c s s' Hc Hn. unfold cev, civ. rewrite Hc, Hn. split; [apply evo_refl | auto]. Qed.

Lemma cev_kill_where : forall c s f, cev c s (kill_where c s f).
Proof. intros. split; [apply kill_where_evo | apply kill_where_civ]. Qed.

Lemma now_kill_where : forall c s f, s_now (kill_where c s f) = s_now s.
Proof. intros. apply (rproj_fields _ _ (kill_where_r c s f)). Qed.

Lemma cev_advance : forall c s t, cev c s (advance_to c s t).
Proof.
  intros c s t. unfold advance_to. cbv zeta.
  set (t' := Z.max t (s_now s)).
  set (f := fun ci : circ => (0 <=? ci_dl ci) && (ci_dl ci <=? t')).
  set (s1 := kill_where c s f).
  assert (Hc : forall x : bool, s_circs (set_now (if x then gc s1 (t' / gc_period_ms * gc_period_ms) else s1) t') = s_circs s1)
    by (intros x; destruct x; reflexivity).
  split.
  - rewrite Hc. apply kill_where_evo.
  - intros (N & I & F). unfold civ. rewrite Hc. cbn [set_now s_now]. split; [unfold t'; lia | split].
    + eapply idsfrom_evo; [apply kill_where_evo | exact I].
    + eapply Forall_Forall2; [|apply (kill_where_circs c s f) | exact F].
      intros a b (H1&H2&H3&H4&H5&H6&H7) Ha Hl. destruct (Ha Hl) as (A1 & A2 & A3).
      rewrite H5, H6, H4. refine (conj A1 (conj A2 _)). intros Ho.
      destruct H7 as [(Ra&Rb&Rf)|[Hx _]]; [|congruence].
      assert (Hoa : ci_open a = true) by (unfold ci_open in *; rewrite <- Ra, <- Rb; exact Ho).
      destruct (A3 Hoa) as [D1 D2]. rewrite Hoa in Rf. cbn [andb] in Rf. unfold f in Rf.
      apply andb_false_iff in Rf. destruct Rf as [Rf|Rf]; [apply Z.leb_gt in Rf; lia | apply Z.leb_gt in Rf; lia].
Qed.

Lemma on_disc_circs : forall s p, s_circs (on_disconnected s p) = s_circs s /\ s_now (on_disconnected s p) = s_now s.
Proof. intros. unfold on_disconnected. destruct (s_closed s); split; reflexivity. Qed.

Lemma cev_close_conn : forall c s p k, cev c s (close_conn c s p k).
Proof.
  intros c s p k. unfold close_conn. destruct (s_link s p k); [|apply cev_refl].
  match goal with |- context [kill_where c ?s1 ?f] =>
    assert (K : cev c s (kill_where c s1 f)) by
      (eapply cev_trans; [apply (cev_same c s s1); reflexivity | apply cev_kill_where]);
    destruct (connected (kill_where c s1 f) p); [exact K|];
    eapply cev_trans; [exact K | apply cev_same; apply on_disc_circs] end.
Qed.

Lemma cev_close_peer : forall c s p, cev c s (close_peer c s p).
Proof. intros. unfold close_peer. eapply cev_trans; apply cev_close_conn. Qed.

Lemma cev_reserve : forall c s p k acl inj, cev c s (fst (handle_reserve c s p k acl inj)).
Proof.
  intros c s p k acl inj. unfold handle_reserve.
  destruct (_ || _); [apply cev_refl|]. destruct (negb _); [apply cev_refl|].
  destruct (a_relayed _); [apply cev_refl|]. cbv zeta.
  set (s1 := if inj =? 2 then close_peer c (advance_to c s (s_now s + 1)) p else s).
  assert (K1 : cev c s s1).
  { unfold s1. destruct (inj =? 2); [|apply cev_refl]. eapply cev_trans; [apply cev_advance | apply cev_close_peer]. }
  destruct (negb acl); [exact K1|]. destruct (negb (connected s1 p)); [exact K1|].
  unfold c_reserve. cbv zeta.
  repeat match goal with |- cev c s (fst (let '(_, _) := (if ?x then (?y, false) else _) in _)) =>
    destruct x; [cbn [fst]; eapply cev_trans; [exact K1 | apply cev_same; reflexivity]|] end.
  cbn [negb fst]. eapply cev_trans; [exact K1 | apply cev_same; reflexivity].
Qed.

(* ---- put_circ ------------------------------------------------------------------------ *)
Lemma replace_first_rel : forall (R : circ -> circ -> Prop) id ci ci' l,
  (forall x, R x x) -> find (fun x => ci_id x =? id) l = Some ci -> ci_id ci' = id -> R ci ci' ->
  Forall2 R l (replace_first ci' l).
Proof.
  intros R id ci ci' l Hrefl. induction l as [|x r IH]; intros Hf Hid HR; [discriminate|].
  cbn [find] in Hf. cbn [replace_first]. rewrite Hid. destruct (ci_id x =? id) eqn:E.
  - inversion Hf; subst x. constructor; [exact HR|]. clear - Hrefl. induction r; constructor; auto.
  - constructor; [apply Hrefl | apply IH; assumption].
Qed.

Lemma cleanup_circs : forall c s a b, s_circs (cleanup_circ c s a b) = s_circs s /\ s_now (cleanup_circ c s a b) = s_now s.
Proof.
  intros. split; [|apply (rproj_fields _ _ (cleanup_circ_r c s a b))].
  unfold cleanup_circ, rm_conn. cbv zeta.
  repeat match goal with |- context [if ?x then _ else _] => destruct x end; reflexivity.
Qed.

Lemma cev_settle : forall c s id ci ci', find_circ s id = Some ci -> ci_id ci' = id ->
  evo1 ci ci' -> (forall now, cok c now ci -> cok c now ci') -> cev c s (settle_circ c s ci').
Proof.
  intros c s id ci ci' Hf Hid He Hk. unfold settle_circ. cbv zeta.
  assert (K : cev c s (put_circ s ci')).
  { unfold cev, civ, put_circ. cbn [set_circs s_circs s_now]. split.
    - apply (replace_first_rel evo1 id ci ci'); auto using evo1_refl.
    - intros (N & I & F). refine (conj N (conj _ _)).
      + eapply idsfrom_evo; [|exact I]. apply (replace_first_rel evo1 id ci ci'); auto using evo1_refl.
      + eapply Forall_Forall2; [|apply (replace_first_rel (fun a b => cok c (s_now s) a -> cok c (s_now s) b) id ci ci' (s_circs s)); auto | exact F].
        intros a b H. exact H. }
  destruct (ci_open ci'); [exact K|]. eapply cev_trans; [exact K | apply cev_same; apply cleanup_circs].
Qed.

Lemma find_circ_id' : forall s id ci, find_circ s id = Some ci -> ci_id ci = id.
Proof. intros s id ci H. unfold find_circ in H. apply find_some in H. destruct H as [_ H]. apply Z.eqb_eq in H. exact H. Qed.

Lemma cev_send : forall c s id dir n, cev c s (send c s id dir n).
Proof.
  intros c s id dir n. unfold send. destruct (find_circ s id) as [ci|] eqn:Ef; [|apply cev_refl]. cbv zeta.
  destruct (negb (if dir =? 0 then ci_rab ci else ci_rba ci) || (n <=? 0)) eqn:E; [apply cev_refl|].
  apply orb_false_iff in E. destruct E as [E _]. apply negb_false_iff in E.
  assert (Ho : ci_open ci = true) by (unfold ci_open; destruct (dir =? 0); rewrite E; [reflexivity | apply orb_true_r]).
  pose proof (find_circ_id' _ _ _ Ef) as Hid.
  destruct (dir =? 0); (eapply cev_settle; [exact Ef | exact Hid | unfold evo1; cbn; repeat split; auto |]);
    intros now Hk Hl; destruct (Hk Hl) as (A1 & A2 & A3); cbn [ci_fab ci_fba ci_open ci_rab ci_rba ci_dl];
    rewrite Hl; (split; [|split]); try assumption; try lia; intros _; apply A3, Ho.
Qed.

Lemma cev_close_write : forall c s id dir, cev c s (close_write c s id dir).
Proof.
  intros c s id dir. unfold close_write. destruct (find_circ s id) as [ci|] eqn:Ef; [|apply cev_refl]. cbv zeta.
  destruct (negb (if dir =? 0 then ci_rab ci else ci_rba ci)) eqn:E; [apply cev_refl|].
  apply negb_false_iff in E.
  assert (Ho : ci_open ci = true) by (unfold ci_open; destruct (dir =? 0); rewrite E; [reflexivity | apply orb_true_r]).
  pose proof (find_circ_id' _ _ _ Ef) as Hid.
  destruct (dir =? 0); (eapply cev_settle; [exact Ef | exact Hid | unfold evo1; cbn; repeat split; auto |]);
    intros now Hk Hl; destruct (Hk Hl) as (A1 & A2 & A3); cbn [ci_fab ci_fba ci_open ci_rab ci_rba ci_dl];
    (split; [|split]); try assumption; intros _; apply A3, Ho.
Qed.

Lemma cev_reset : forall c s id side, cev c s (reset_end c s id side).
Proof.
  intros. unfold reset_end. destruct (find_circ s id); [|apply cev_refl].
  destruct (negb _); [apply cev_refl | apply cev_kill_where].
Qed.

Lemma add_conn_circs : forall s p, s_circs (add_conn s p) = s_circs s /\ s_now (add_conn s p) = s_now s.
Proof. intros. unfold add_conn. destruct (_ =? 1); split; reflexivity. Qed.

Definition conn_ok (obs : list Z) : bool := (nth 0 obs 0 =? ST_OK) || (nth 1 obs 0 =? ST_OK).

Lemma connect_circs : forall c s src sa dst acl dm sm dc,
  let r := handle_connect c s src sa dst acl dm sm dc in
  (conn_ok (snd r) = false /\ cev c s (fst r)) \/
  (conn_ok (snd r) = true /\
   s_circs (fst r) = s_circs s ++ [mkCirc (zlength (s_circs s) + 1) src sa dst (dc - 1) 0 0 true true
                                         (if c_limited c then s_now s + c_limdur c else -1)] /\
   s_now (fst r) = s_now s /\ snd r = [ST_OK; ST_OK; zlength (s_circs s) + 1]).
Proof.
  intros c s src sa dst acl dm sm dc. cbv zeta. unfold handle_connect.
  repeat match goal with |- context [fst (if ?b then (s, ?o) else _)] =>
    destruct b; [left; split; [reflexivity | apply cev_refl]|] end.
  destruct (s_rsvp s dst); [|left; split; [reflexivity | apply cev_refl]].
  repeat match goal with |- context [fst (if ?b then (s, ?o) else _)] =>
    destruct b; [left; split; [reflexivity | apply cev_refl]|] end.
  cbv zeta.
  set (s1 := set_mem (add_conn (add_conn s src) dst) (s_mem s + 2 * c_buf c)).
  assert (C1 : s_circs s1 = s_circs s /\ s_now s1 = s_now s).
  { unfold s1. cbn [set_mem s_circs s_now]. destruct (add_conn_circs (add_conn s src) dst) as [A B].
    destruct (add_conn_circs s src) as [A' B']. split; congruence. }
  assert (K1 : cev c s s1) by (apply cev_same; apply C1).
  repeat match goal with |- context [fst (if ?b then (cleanup_circ c s1 src dst, ?o) else _)] =>
    destruct b; [left; split; [reflexivity | cbn [fst]; eapply cev_trans; [exact K1 | apply cev_same; apply cleanup_circs]]|] end.
  destruct (sm =? 3).
  - left. split; [reflexivity|]. cbn [fst]. eapply cev_trans; [exact K1|].
    eapply cev_trans; [apply cev_advance|]. eapply cev_trans; [apply cev_close_peer | apply cev_same; apply cleanup_circs].
  - right. cbn [fst snd]. destruct C1 as [Cc Cn]. unfold next_cid. rewrite Cc, Cn. repeat split; try reflexivity.
    cbn [set_circs s_now]. exact Cn.
Qed.

Lemma cok_new : forall c now id src sa dst da, 0 <= c_limdata c -> 0 < c_limdur c -> 0 <= now ->
  cok c now (mkCirc id src sa dst da 0 0 true true (if c_limited c then now + c_limdur c else -1)) .
Proof. intros c now id src sa dst da W1 W2 N Hl. cbn. rewrite Hl. repeat split; lia. Qed.

Lemma close_relay_circs : forall s, s_circs (close_relay s) = s_circs s /\ s_now (close_relay s) = s_now s.
Proof. intros. unfold close_relay. destruct (s_closed s); split; reflexivity. Qed.

(* ---- one harness step ------------------------------------------------------------------ *)
Definition is_connect_ok (o : op) (obs : list Z) : bool :=
  match o with OConnect _ _ _ _ _ _ _ => conn_ok obs | _ => false end.

Lemma cev_apply_other : forall c s o, (forall a b d e f g h, o <> OConnect a b d e f g h) ->
  cev c s (fst (apply_op c s o)).
Proof.
  intros c s o Hn. destruct o; cbn [apply_op fst].
  - apply cev_same; reflexivity.
  - apply cev_close_conn.
  - apply cev_reserve.
  - exfalso. eapply Hn. reflexivity.
  - apply cev_send.
  - apply cev_close_write.
  - apply cev_reset.
  - apply cev_advance.
  - apply cev_same; apply close_relay_circs.
Qed.

Lemma evo_app_inv : forall l x l', evo (l ++ [x]) l' -> exists l1 x', l' = l1 ++ [x'] /\ evo l l1 /\ evo1 x x'.
Proof.
  intros l x l' H. apply Forall2_app_inv_l in H. destruct H as (l1 & l2 & H1 & H2 & ->).
  inversion H2 as [|a b ra rb Hab Hr]; subst. inversion Hr; subst. exists l1, b.
  split; [reflexivity | split; [exact H1 | exact Hab]].
Qed.

Lemma evo_length : forall l l', evo l l' -> length l' = length l.
Proof. intros l l' H. induction H; cbn; congruence. Qed.

Lemma step_circs : forall c s t o tend, 0 <= c_limdata c -> 0 < c_limdur c ->
  let r := step c s t o tend in
  exists l1 n, s_circs (fst r) = l1 ++ n /\ evo (s_circs s) l1 /\ (civ c s -> civ c (fst r)) /\
    ((is_connect_ok o (snd r) = false /\ n = []) \/
     (exists src sa dst acl dm sm dc ci, o = OConnect src sa dst acl dm sm dc /\ conn_ok (snd r) = true /\
        n = [ci] /\ ci_id ci = zlength l1 + 1 /\ nth 2 (snd r) 0 = zlength l1 + 1 /\
        ci_src ci = src /\ ci_dst ci = dst /\
        (c_limited c = true -> ci_dl ci = Z.max t (s_now s) + c_limdur c) /\
        (c_limited c = false -> ci_dl ci = -1))).
Proof.
  intros c s t o tend W1 W2. cbv zeta. unfold step.
  pose proof (cev_advance c s t) as [Ea Ca]. set (sa := advance_to c s t) in *.
  assert (Na : s_now sa = Z.max t (s_now s)) by reflexivity.
  assert (Hother : (forall a b d e f g h, o <> OConnect a b d e f g h) ->
    exists l1 n, s_circs (fst (let '(s1, obs) := apply_op c sa o in (advance_to c s1 tend, obs))) = l1 ++ n /\
      evo (s_circs s) l1 /\ (civ c s -> civ c (fst (let '(s1, obs) := apply_op c sa o in (advance_to c s1 tend, obs)))) /\
      ((is_connect_ok o (snd (let '(s1, obs) := apply_op c sa o in (advance_to c s1 tend, obs))) = false /\ n = []) \/ False)).
  { intros Hn. pose proof (cev_apply_other c sa o Hn) as [Eb Cb].
    destruct (apply_op c sa o) as [s1 obs]. cbn [fst snd] in *.
    pose proof (cev_advance c s1 tend) as [Ec Cc].
    exists (s_circs (advance_to c s1 tend)), []. rewrite app_nil_r.
    split; [reflexivity|]. split; [eapply evo_trans; [exact Ea|]; eapply evo_trans; eassumption|].
    split; [intros Cs; apply Cc, Cb, Ca, Cs|].
    left. split; [|reflexivity]. destruct o; try reflexivity. exfalso. eapply Hn. reflexivity. }
  destruct o as [p k|p k|p k acl inj|src sa0 dst acl dm sm dc|id dir nb|id dir|id side|dt|];
    try (destruct Hother as (l1 & n & H1 & H2 & H3 & [H4|[]]); [intros; discriminate|]; exists l1, n;
         split; [exact H1|]; split; [exact H2|]; split; [exact H3|]; left; exact H4).
  (* OConnect *)
  clear Hother. cbn [apply_op].
  pose proof (connect_circs c sa src (nk sa0) dst acl dm sm (nk (dc - 1) + 1)) as K. cbv zeta in K.
  destruct (handle_connect c sa src (nk sa0) dst acl dm sm (nk (dc - 1) + 1)) as [s1 obs]. cbn [fst snd] in *.
  pose proof (cev_advance c s1 tend) as [Ec Cc].
  destruct K as [[Kf [Eb Cb]] | (Kt & Kc & Kn & Ko)].
  - exists (s_circs (advance_to c s1 tend)), []. rewrite app_nil_r.
    split; [reflexivity|]. split; [eapply evo_trans; [exact Ea|]; eapply evo_trans; eassumption|].
    split; [intros Cs; apply Cc, Cb, Ca, Cs|].
    left. split; [exact Kf | reflexivity].
  - rewrite Kc in Ec. apply evo_app_inv in Ec. destruct Ec as (l1 & x' & El & E1 & (X1 & X2 & X3 & X4 & _)).
    cbn [ci_id ci_src ci_dst ci_dl] in X1, X2, X3, X4.
    assert (Len : zlength l1 = zlength (s_circs sa)).
    { unfold zlength. rewrite (evo_length _ _ E1). reflexivity. }
    exists l1, [x']. split; [exact El|]. split; [eapply evo_trans; eassumption|]. split.
    + intros Cs. apply Cc. specialize (Ca Cs). destruct Ca as (N & I & F).
      unfold civ. rewrite Kc, Kn. refine (conj N (conj _ _)).
      * apply idsfrom_app; [exact I|]. cbn [ci_id]. unfold zlength. lia.
      * apply Forall_app. split; [exact F|]. constructor; [|constructor]. apply cok_new; assumption.
    + right. exists src, sa0, dst, acl, dm, sm, dc, x'. rewrite Ko. cbn [nth].
      repeat split; try assumption; try congruence.
      * intros Hl. rewrite X4, Hl, Na. reflexivity.
      * intros Hl. rewrite X4, Hl. reflexivity.
Qed.

(* C11 — the voucher issued by the relay model is an envelope sealed by the relay's key over
   proto.RecordDomain / proto.RecordCodec whose payload decodes to exactly (this relay, the
   reserving peer, the reservation's expiry); what a client accepts as that voucher has exactly
   those fields.  On top of C08: Varint/Protobuf (voucher_roundtrip), envelope sealing
   (seal_then_consume, make_unsigned injectivity) and SymCrypto's ideal-signature interface. *)
From Coq Require Import List NArith ZArith Bool Lia.
From Verif Require Import c08.Varint c08.Protobuf c08.SymCrypto c08.Model c08.Proofs c08.Proofs_Env c08.Proofs_R2
  gen.Consts_c11 c11.ClientModel c11.VoucherModel c11.Proofs_Client.
From Verif Require c11.Model.
Import ListNotations.
Local Open Scope N_scope.

Lemma nlen_app : forall a b, nlen (a ++ b) = nlen a + nlen b.
Proof. intros. unfold nlen. rewrite app_length. lia. Qed.

Lemma nlen_encode_le : forall n, n < 2 ^ 64 -> nlen (encode n) <= 10.
Proof.
  intros n H. unfold nlen.
  assert (L : (length (encode n) <= 10)%nat).
  { apply encode_length_le; [lia|]. eapply N.lt_trans; [exact H|]. vm_compute. reflexivity. }
  lia.
Qed.

(* size of a voucher payload with realistic IDs *)
Lemma voucher_payload_len : forall r p e, nlen r <= 2 ^ 31 - 1 -> nlen p <= 2 ^ 31 - 1 -> e < 2 ^ 64 ->
  nlen (marshal_voucher r p e) < 2 ^ 64.
Proof.
  intros r p e Hr Hp He. unfold marshal_voucher, put_len_field, put_varint_field, put_field, tag.
  rewrite !nlen_app.
  assert (B : 2 ^ 31 - 1 < 2 ^ 64) by (vm_compute; reflexivity).
  pose proof (nlen_encode_le (nlen r) ltac:(lia)). pose proof (nlen_encode_le (nlen p) ltac:(lia)).
  pose proof (nlen_encode_le e He).
  change (nlen (encode (1 * 8 + 2))) with 1. change (nlen (encode (2 * 8 + 2))) with 1.
  change (nlen (encode (3 * 8 + 0))) with 1.
  assert (2 ^ 31 - 1 + 2 ^ 31 - 1 + 40 < 2 ^ 64) by (vm_compute; reflexivity). lia.
Qed.

(* ---- what handle_reserve reports on a grant ---------------------------------------------------- *)
Lemma reserve_granted_obs : forall c s p k acl inj s' obs,
  c11.Model.handle_reserve c s p k acl inj = (s', obs) -> nth 0 obs 0%Z = 100%Z ->
  exists e, c11.Model.s_rsvp s' p = Some e /\
            obs = [100; 1; 100; 1; 1; p; (e / 1000) * 1000; (e / 1000) * 1000]%Z.
Proof.
  intros c s p k acl inj s' obs H Hok. unfold c11.Model.handle_reserve in H.
  destruct (negb (c11.Model.s_link s p k) || c11.Model.s_closed s); [inversion H; subst; discriminate Hok|].
  destruct (negb (c11.Model.mem_ok_always c (c11.Model.s_mem s) maxMessageSize)); [inversion H; subst; discriminate Hok|].
  destruct (c11.Model.a_relayed (c11.Model.addr_of c p k)); [inversion H; subst; discriminate Hok|].
  cbv zeta in H.
  set (s1 := if (inj =? 2)%Z then c11.Model.close_peer c (c11.Model.advance_to c s (c11.Model.s_now s + 1)%Z) p else s) in *.
  destruct (negb acl); [inversion H; subst; destruct (inj =? 2)%Z; discriminate Hok|].
  destruct (negb (c11.Model.connected s1 p)); [inversion H; subst; destruct (inj =? 2)%Z; discriminate Hok|].
  destruct (c11.Model.c_reserve c s1 p _ _ _) as [s2 ok].
  destruct (negb ok); inversion H; subst; [destruct (inj =? 2)%Z; discriminate Hok|].
  eexists. split; [|reflexivity]. cbn. unfold c11.Model.upd. rewrite Z.eqb_refl. reflexivity.
Qed.

Section RelayVoucherProofs.
  Variable K : Type.
  Variable sign : K -> bytes -> bytes.
  Variable key_type : K -> N.
  Variable key_data : K -> bytes.
  Variable id_of : K -> bytes.
  Variable key_dec : N -> bytes -> option K.
  (* the ideal signature scheme (c08.SymCrypto, Part 1) ... *)
  Variable verify : K -> bytes -> bytes -> bool.
  Variable origin : bytes -> option (K * bytes).
  Hypothesis verify_ideal : forall k m s, verify k m s = true <-> origin s = Some (k, m).
  (* ... in which signing issues a value for exactly (key, message) *)
  Hypothesis sign_issued : forall k m, origin (sign k m) = Some (k, m).
  Hypothesis sign_len : forall k m, nlen (sign k m) < 2 ^ 64.
  (* the relay's public key marshals to something the unmarshallers read back *)
  Hypothesis key_ok : forall k, key_type_ok (key_type k) = true /\ key_dec (key_type k) (key_data k) = Some k /\
                                key_type k < 2 ^ 32 /\ nlen (key_data k) < 2 ^ 63.
  (* peer IDs are multihashes of realistic size *)
  Definition id_ok (i : bytes) : Prop := (exists c d, mh_decode i = Some (c, d)) /\ nlen i <= 2 ^ 31 - 1.
  Hypothesis id_of_ok : forall k, id_ok (id_of k).

  Notation seal := (seal_voucher K sign key_type key_data id_of).
  Notation payload := (voucher_payload K id_of).
  Notation check := (check_voucher K key_dec verify id_of dec_voucher_pb).

  Lemma codec_len : nlen RecordCodec < 2 ^ 64.
  Proof. vm_compute. reflexivity. Qed.

  (* (a) sealed by the relay's key over the voucher domain and payload type *)
  Lemma relay_voucher_consume : forall rk peer e, id_ok peer -> e < 2 ^ 64 ->
    consume K key_dec verify (seal rk peer e) RecordDomain = CAccept rk RecordCodec (payload rk peer e).
  Proof.
    intros rk peer e [_ Lp] He. unfold seal_voucher.
    destruct (key_ok rk) as (K1 & K2 & K3 & K4). destruct (id_of_ok rk) as [_ Lr].
    apply (seal_then_consume_l K key_dec verify origin verify_ideal); try assumption.
    - unfold env_wf. cbn [e_kt e_kd e_pt e_pl e_sg].
      refine (conj K3 (conj K4 (conj codec_len (conj _ (sign_len _ _))))).
      apply voucher_payload_len; assumption.
    - unfold sealed_with. apply sign_issued.
  Qed.

  (* (b) its payload decodes to exactly (this relay, the reserving peer, the expiry) *)
  Lemma relay_voucher_fields : forall rk peer e, id_ok peer -> e < 2 ^ 64 ->
    voucher_fields (payload rk peer e) = Some (id_of rk, peer, e).
  Proof.
    intros rk peer e [(c2 & d2 & Mp) Lp] He. destruct (id_of_ok rk) as [(c1 & d1 & Mr) Lr].
    assert (B : 2 ^ 31 - 1 < 2 ^ 64) by (vm_compute; reflexivity).
    apply (voucher_roundtrip_l _ _ _ c1 d1 c2 d2 Mr Mp); lia.
  Qed.

  (* (c) the reserving peer's client accepts it, with exactly those fields *)
  Lemma relay_voucher_accepted : forall rk peer e, id_ok peer -> e < 2 ^ 64 ->
    check peer (Some (seal rk peer e)) = VAccept (id_of rk, peer, Z.of_N e).
  Proof.
    intros rk peer e Hp He. unfold check_voucher.
    rewrite (relay_voucher_consume rk peer e Hp He), bytes_eqb_refl. cbn [negb].
    unfold dec_voucher_pb. rewrite (relay_voucher_fields rk peer e Hp He).
    rewrite !bytes_eqb_refl. reflexivity.
  Qed.

  (* (d) ANY envelope a client accepts that carries the signature the relay issued for this
     reservation has exactly the reservation's fields, and the client is the reserving peer *)
  Lemma accepted_relay_voucher_fields : forall self b k en rk peer e rel pr ex,
    id_ok peer -> e < 2 ^ 64 ->
    unmarshal_envelope K key_dec b = Some (k, en) ->
    e_sg en = sign rk (make_unsigned RecordDomain RecordCodec (payload rk peer e)) ->
    check self (Some b) = VAccept (rel, pr, ex) ->
    rel = id_of rk /\ pr = peer /\ ex = Z.of_N e /\ self = peer /\ k = rk.
  Proof.
    intros self b k en rk peer e rel pr ex Hp He U Sg H.
    assert (S : sealed_with K origin (e_sg en) rk RecordDomain RecordCodec (payload rk peer e))
      by (unfold sealed_with; rewrite Sg; apply sign_issued).
    destruct (voucher_sealed_l K key_dec verify id_of dec_voucher_pb origin verify_ideal
                self b k en rk _ _ _ rel pr ex U S H) as (_ & _ & Hd & Hr & Hs).
    unfold dec_voucher_pb in Hd. rewrite (relay_voucher_fields rk peer e Hp He) in Hd. inversion Hd; subst.
    destruct (voucher_binds_l K key_dec verify id_of dec_voucher_pb origin verify_ideal self (Some b) _ _ _ H)
      as (b' & k' & e' & Hb & U' & _ & _ & Ho & _).
    inversion Hb; subst b'. rewrite U in U'. inversion U'; subst k' e'.
    unfold sealed_with in S. rewrite S in Ho. inversion Ho. repeat split; reflexivity.
  Qed.


  (* ---- tie to the relay model ------------------------------------------------------------------ *)
  Variable rk : K.                      (* the relay's key *)
  Variable peer_id : Z -> bytes.        (* peer index -> peer.ID *)
  Hypothesis peer_id_ok : forall p, id_ok (peer_id p).

  (* THE statement: on a granted RESERVE the relay model's answer carries an envelope sealed by
     the relay's key over proto.RecordDomain / proto.RecordCodec whose payload decodes to exactly
     (the relay's ID, the reserving peer's ID, the reservation's expiry in seconds); the reserving
     peer's client accepts it with those fields; and any envelope a client accepts that carries
     the signature issued for this reservation has exactly those fields. *)
  Theorem voucher_of_grant_l : forall c s p k acl inj s' obs,
    c11.Model.handle_reserve c s p k acl inj = (s', obs) -> nth 0 obs 0%Z = 100%Z ->
    exists e vb,
      c11.Model.s_rsvp s' p = Some e /\
      issued_voucher K sign key_type key_data id_of rk peer_id obs = Some vb /\
      ((0 <= e)%Z -> (e / 1000 < 2 ^ 64)%Z ->
       let E := Z.to_N (e / 1000) in
       consume K key_dec verify vb RecordDomain = CAccept rk RecordCodec (payload rk (peer_id p) E) /\
       voucher_fields (payload rk (peer_id p) E) = Some (id_of rk, peer_id p, E) /\
       check (peer_id p) (Some vb) = VAccept (id_of rk, peer_id p, (e / 1000)%Z) /\
       (nth 5 obs 0%Z = p /\ nth 6 obs 0%Z = (Z.of_N E * 1000)%Z) /\
       forall self b k0 en rel pr ex,
         unmarshal_envelope K key_dec b = Some (k0, en) ->
         e_sg en = sign rk (make_unsigned RecordDomain RecordCodec (payload rk (peer_id p) E)) ->
         check self (Some b) = VAccept (rel, pr, ex) ->
         rel = id_of rk /\ pr = peer_id p /\ ex = (e / 1000)%Z /\ self = peer_id p /\ k0 = rk).
  Proof.
    intros c s p k acl inj s' obs H Hok.
    destruct (reserve_granted_obs c s p k acl inj s' obs H Hok) as (e & Hr & Ho).
    exists e, (seal rk (peer_id p) (Z.to_N (e / 1000))).
    split; [exact Hr|]. split.
    - unfold issued_voucher. rewrite Ho. cbn [nth]. change (100 =? 100)%Z with true. cbn iota.
      rewrite Z.div_mul by discriminate. reflexivity.
    - intros He Hb. cbv zeta.
      assert (Hq : (0 <= e / 1000)%Z) by (apply Z.div_pos; lia).
      assert (En : Z.to_N (e / 1000) < 2 ^ 64) by (change (2 ^ 64) with (Z.to_N (2 ^ 64)); lia).
      assert (Ez : Z.of_N (Z.to_N (e / 1000)) = (e / 1000)%Z) by lia.
      split; [apply relay_voucher_consume; [apply peer_id_ok | exact En]|].
      split; [apply relay_voucher_fields; [apply peer_id_ok | exact En]|].
      split; [rewrite <- Ez at 2; apply relay_voucher_accepted; [apply peer_id_ok | exact En]|].
      split; [rewrite Ho; cbn [nth]; rewrite Ez; split; reflexivity|].
      intros self b k0 en rel pr ex U Sg Hc. rewrite <- Ez.
      apply (accepted_relay_voucher_fields self b k0 en rk (peer_id p) (Z.to_N (e / 1000)) rel pr ex (peer_id_ok p) En U Sg Hc).
  Qed.
End RelayVoucherProofs.

(* C11 — lemmas. *)
From Coq Require Import List ZArith Bool Lia.
From Verif Require Import lib.Wire gen.Consts_c11 c11.Model c11.Spec.
Import ListNotations.
Local Open Scope Z_scope.

Ltac bad_status H Hok :=
  inversion H; subst; cbn in Hok;
  unfold ST_OK, ST_MALFORMED, ST_RLE, ST_DENIED, ST_NORSVP, ST_CONNFAIL in Hok;
  destruct Hok as [Hok | Hok]; discriminate Hok.

(* ---- connect_only_if ------------------------------------------------------------ *)
(* handleConnect reports OK (to the client or in its own return value) only if
   the destination holds a reservation, the source did not come through a relay,
   the ACL allowed it and both ends were below MaxCircuits. *)
Lemma connect_only_if_l : forall c s src sa dst acl dm sm dc s' obs,
  handle_connect c s src sa dst acl dm sm dc = (s', obs) ->
  (nth 0 obs 0 = ST_OK \/ nth 1 obs 0 = ST_OK) ->
  s_rsvp s dst <> None /\ a_relayed (addr_of c src sa) = false /\ acl = true /\
  s_conns s src < c_maxcirc c /\ s_conns s dst < c_maxcirc c /\
  s_link s src sa = true /\ s_closed s = false.
Proof.
  intros c s src sa dst acl dm sm dc s' obs H Hok.
  unfold handle_connect in H.
  destruct (negb (s_link s src sa) || s_closed s) eqn:E1; [bad_status H Hok|].
  destruct (negb (mem_ok_always c (s_mem s) maxMessageSize)) eqn:E2; [bad_status H Hok|].
  destruct (sm =? 5) eqn:E3; [bad_status H Hok|].
  destruct (sm =? 4) eqn:E4; [bad_status H Hok|].
  destruct (negb (mem_ok_high c (s_mem s + maxMessageSize) (2 * c_buf c))) eqn:E5; [bad_status H Hok|].
  destruct (a_relayed (addr_of c src sa)) eqn:E6; [bad_status H Hok|].
  destruct (sm =? 1) eqn:E7; [bad_status H Hok|].
  destruct (negb acl) eqn:E8; [bad_status H Hok|].
  destruct (s_rsvp s dst) eqn:E9; [|bad_status H Hok].
  destruct (s_conns s src >=? c_maxcirc c) eqn:E10; [bad_status H Hok|].
  destruct (s_conns s dst >=? c_maxcirc c) eqn:E11; [bad_status H Hok|].
  apply orb_false_iff in E1. destruct E1 as [El Ec]. apply negb_false_iff in El.
  apply negb_false_iff in E8.
  repeat split; try assumption; try discriminate; lia.
Qed.

(* C11 — the reservation side of one step, characterised abstractly:
   Relay.rsvp after a step = expiry over the elapsed interval of the old map, restricted to
   the peers still connected, plus the reservation granted in this step. *)
From Coq Require Import List ZArith Bool Lia.
From Verif Require Import gen.Consts_c11 c11.Model c11.Proofs_Frame c11.Proofs_Life.
Import ListNotations.
Local Open Scope Z_scope.

(* what the collections between time a and time b do to one reservation *)
Definition Ex (cl : bool) (a b : Z) (v : option Z) : option Z :=
  if negb cl && (b / gc_period_ms >? a / gc_period_ms)
  then match v with Some e => if e <? (b / gc_period_ms) * gc_period_ms then None else Some e | None => None end
  else v.

Lemma Ex_none : forall cl a b, Ex cl a b None = None.
Proof. intros. unfold Ex. destruct (_ && _); reflexivity. Qed.

Lemma Ex_same : forall cl a v, Ex cl a a v = v.
Proof. intros. unfold Ex. rewrite Z.gtb_ltb, Z.ltb_irrefl, andb_false_r. reflexivity. Qed.

Lemma div_mono : forall a b, a <= b -> a / gc_period_ms <= b / gc_period_ms.
Proof. intros. apply Z.div_le_mono; [reflexivity | assumption]. Qed.

Lemma Ex_compose : forall cl a b d v, a <= b -> b <= d -> Ex cl b d (Ex cl a b v) = Ex cl a d v.
Proof.
  intros cl a b d v Hab Hbd. unfold Ex. destruct cl; cbn [negb andb]; [reflexivity|].
  pose proof (div_mono a b Hab) as M1. pose proof (div_mono b d Hbd) as M2.
  rewrite !Z.gtb_ltb.
  destruct (a / gc_period_ms <? b / gc_period_ms) eqn:E1; destruct (b / gc_period_ms <? d / gc_period_ms) eqn:E2;
    destruct (a / gc_period_ms <? d / gc_period_ms) eqn:E3;
    try apply Z.ltb_lt in E1; try apply Z.ltb_ge in E1; try apply Z.ltb_lt in E2; try apply Z.ltb_ge in E2;
    try apply Z.ltb_lt in E3; try apply Z.ltb_ge in E3; try lia; try reflexivity.
  - destruct v as [e|]; [|reflexivity].
    assert (L : b / gc_period_ms * gc_period_ms <= d / gc_period_ms * gc_period_ms) by (unfold gc_period_ms; lia).
    destruct (e <? b / gc_period_ms * gc_period_ms) eqn:F1; [|reflexivity].
    apply Z.ltb_lt in F1. destruct (e <? d / gc_period_ms * gc_period_ms) eqn:F2; [reflexivity|]. apply Z.ltb_ge in F2. lia.
  - assert (Eq : b / gc_period_ms = d / gc_period_ms) by lia. rewrite Eq. reflexivity.
Qed.

(* ---- advance_to --------------------------------------------------------------------------- *)
Lemma adv_rsvp : forall c s b,
  let s' := advance_to c s b in
  s_link s' = s_link s /\ s_closed s' = s_closed s /\ s_now s' = Z.max b (s_now s) /\
  forall p, s_rsvp s' p = Ex (s_closed s) (s_now s) (Z.max b (s_now s)) (s_rsvp s p).
Proof.
  intros c s b. cbv zeta. unfold advance_to. cbv zeta.
  match goal with |- context [kill_where c s ?f] =>
    destruct (rproj_fields _ _ (kill_where_r c s f)) as (R1 & _ & _ & _ & _ & R6 & R7 & R8); set (s1 := kill_where c s f) in * end.
  unfold Ex. rewrite R7.
  destruct (negb (s_closed s) && (Z.max b (s_now s) / gc_period_ms >? s_now s / gc_period_ms)) eqn:E;
    cbn [set_now gc set_rtag set_rsvp s_link s_closed s_now s_rsvp].
  - repeat split; try assumption. intros p. rewrite R1, R7.
    apply andb_true_iff in E. destruct E as [E _]. apply negb_true_iff in E. rewrite E. cbn [orb].
    destruct (s_rsvp s p) as [e|]; [|reflexivity]. destruct (e <? _); reflexivity.
  - repeat split; try assumption. intros p. rewrite R1. reflexivity.
Qed.

(* ---- close_conn / close_peer --------------------------------------------------------------- *)
Definition lbase (s : st) : Prop :=
  (s_closed s = true -> forall p, s_rsvp s p = None) /\ (forall p, s_rsvp s p <> None -> connected s p = true).

Lemma linv_lbase : forall s, linv true s -> lbase s.
Proof. intros s (L1 & _ & L3). split; [exact L1 | exact (L3 eq_refl)]. Qed.

Lemma on_disc_fields : forall s p,
  s_closed (on_disconnected s p) = s_closed s /\ s_now (on_disconnected s p) = s_now s /\
  s_link (on_disconnected s p) = s_link s /\
  s_rsvp (on_disconnected s p) = (if s_closed s then s_rsvp s else upd (s_rsvp s) p None).
Proof. intros. unfold on_disconnected. destruct (s_closed s) eqn:E; cbn; rewrite ?E; repeat split; reflexivity. Qed.

Lemma close_conn_rsvp : forall c s p k, lbase s ->
  let s' := close_conn c s p k in
  s_closed s' = s_closed s /\ s_now s' = s_now s /\
  (forall q, connected s' q = true -> connected s q = true) /\
  (forall q, s_rsvp s' q = if connected s' q then s_rsvp s q else None).
Proof.
  intros c s p k (B1 & B2). cbv zeta.
  assert (Triv : forall q, s_rsvp s q = if connected s q then s_rsvp s q else None).
  { intros q. destruct (connected s q) eqn:E; [reflexivity|]. destruct (s_rsvp s q) eqn:Er; [|reflexivity].
    rewrite B2 in E; [discriminate | rewrite Er; discriminate]. }
  unfold close_conn. destruct (s_link s p k) eqn:El; [|repeat split; auto].
  set (s1 := set_link s (fun x y => if (x =? p) && (y =? k) then false else s_link s x y)).
  match goal with |- context [kill_where c s1 ?f] =>
    destruct (rproj_fields _ _ (kill_where_r c s1 f)) as (R1 & _ & _ & _ & _ & R6 & R7 & R8); set (s2 := kill_where c s1 f) in * end.
  assert (Sub : forall q, connected s2 q = true -> connected s q = true).
  { intros q. unfold connected. rewrite R6. cbn [s1 set_link s_link]. intros H.
    apply orb_true_iff in H. apply orb_true_iff.
    destruct H as [H|H]; [left|right]; destruct (_ && _) in H; try discriminate; exact H. }
  assert (Oth : forall q, q <> p -> connected s2 q = connected s q).
  { intros q Hq. unfold connected. rewrite R6. cbn [s1 set_link s_link]. apply Z.eqb_neq in Hq. rewrite Hq. reflexivity. }
  destruct (connected s2 p) eqn:Ecp.
  - split; [exact R7|]. split; [exact R8|]. split; [exact Sub|]. intros q. rewrite R1. cbn [s1 set_link s_rsvp].
    destruct (Z.eq_dec q p) as [->|Hq]; [rewrite Ecp; reflexivity|]. rewrite (Oth q Hq). apply Triv.
  - destruct (on_disc_fields s2 p) as (D1 & D2 & D3 & D4).
    assert (Cq : forall q, connected (on_disconnected s2 p) q = connected s2 q) by (intros q; unfold connected; rewrite D3; reflexivity).
    split; [rewrite D1, R7; reflexivity|]. split; [rewrite D2, R8; reflexivity|]. split.
    + intros q H. rewrite Cq in H. apply Sub, H.
    + intros q. rewrite Cq, D4, R7, R1. cbn [s1 set_link s_closed s_rsvp]. destruct (s_closed s) eqn:Ec.
      * rewrite (B1 eq_refl q). destruct (connected s2 q); reflexivity.
      * unfold upd. destruct (q =? p) eqn:E.
        -- apply Z.eqb_eq in E. subst q. rewrite Ecp. reflexivity.
        -- apply Z.eqb_neq in E. rewrite (Oth q E). apply Triv.
Qed.

Definition shape (sa sb : st) : Prop :=
  s_closed sb = s_closed sa /\ s_now sa <= s_now sb /\
  forall q, s_rsvp sb q = if connected sb q then Ex (s_closed sa) (s_now sa) (s_now sb) (s_rsvp sa q) else None.

Lemma triv_conn : forall s, linv true s -> forall q, s_rsvp s q = if connected s q then s_rsvp s q else None.
Proof.
  intros s L q. destruct (linv_lbase s L) as [_ B2]. destruct (connected s q) eqn:E; [reflexivity|].
  destruct (s_rsvp s q) eqn:Er; [|reflexivity]. rewrite B2 in E; [discriminate | rewrite Er; discriminate].
Qed.

Lemma shape_rproj : forall sa sb, linv true sa -> rproj sb = rproj sa -> shape sa sb.
Proof.
  intros sa sb L H. destruct (rproj_fields _ _ H) as (R1 & _ & _ & _ & _ & R6 & R7 & R8).
  unfold shape, connected. rewrite R1, R6, R7, R8. split; [reflexivity|]. split; [lia|].
  intros q. rewrite Ex_same. apply (triv_conn sa L).
Qed.

Lemma shape_close_peer_adv : forall c sa p, linv true sa ->
  shape sa (close_peer c (advance_to c sa (s_now sa + 1)) p) /\
  connected (close_peer c (advance_to c sa (s_now sa + 1)) p) p = false.
Proof.
  intros c sa p L.
  destruct (adv_rsvp c sa (s_now sa + 1)) as (A1 & A2 & A3 & A4). set (s1 := advance_to c sa (s_now sa + 1)) in *.
  assert (L1 : linv true s1) by (apply linv_advance; exact L).
  destruct (close_conn_rsvp c s1 p 0 (linv_lbase _ L1)) as (B1 & B2 & B3 & B4). set (s2 := close_conn c s1 p 0) in *.
  assert (L2 : linv true s2) by (apply linv_close_conn; exact L1).
  destruct (close_conn_rsvp c s2 p 1 (linv_lbase _ L2)) as (C1 & C2 & C3 & C4). set (s3 := close_conn c s2 p 1) in *.
  assert (N3 : s_now s3 = s_now sa + 1) by (rewrite C2, B2, A3; lia).
  split.
  - unfold shape. fold s1. unfold close_peer. fold s1 s2 s3.
    split; [rewrite C1, B1, A2; reflexivity|]. split; [lia|].
    intros q. rewrite C4. destruct (connected s3 q) eqn:E3; [|reflexivity].
    rewrite B4, (C3 q E3), A4, N3. replace (Z.max (s_now sa + 1) (s_now sa)) with (s_now sa + 1) by lia. reflexivity.
  - unfold close_peer. fold s1 s2 s3.
    (* both links of p are cleared *)
    assert (F0 : s_link s2 p 0 = false).
    { unfold s2, close_conn. destruct (s_link s1 p 0) eqn:E; [|exact E].
      match goal with |- context [kill_where c ?sx ?f] =>
        destruct (rproj_fields _ _ (kill_where_r c sx f)) as (_ & _ & _ & _ & _ & R6 & _);
        assert (K : s_link (kill_where c sx f) p 0 = false) by (rewrite R6; cbn; rewrite Z.eqb_refl; reflexivity);
        destruct (connected (kill_where c sx f) p); [exact K|] end.
      destruct (on_disc_fields (kill_where c (set_link s1 (fun x y => if (x =? p) && (y =? 0) then false else s_link s1 x y)) (fun ci => (ci_src ci =? p) && (ci_sa ci =? 0) || (ci_dst ci =? p) && (ci_da ci =? 0))) p) as (_ & _ & D3 & _).
      rewrite D3. exact K. }
    assert (G : forall k', s_link s3 p k' = true -> s_link s2 p k' = true /\ k' <> 1).
    { intros k'. unfold s3, close_conn. destruct (s_link s2 p 1) eqn:E.
      - match goal with |- context [kill_where c ?sx ?f] =>
          destruct (rproj_fields _ _ (kill_where_r c sx f)) as (_ & _ & _ & _ & _ & R6 & _);
          assert (K : forall k2, s_link (kill_where c sx f) p k2 = (if (p =? p) && (k2 =? 1) then false else s_link s2 p k2)) by (intros k2; rewrite R6; reflexivity);
          destruct (connected (kill_where c sx f) p) end.
        + rewrite K, Z.eqb_refl. cbn [andb]. destruct (k' =? 1) eqn:Ek; [discriminate|]. apply Z.eqb_neq in Ek. auto.
        + match goal with |- s_link (on_disconnected ?sx p) p k' = true -> _ => destruct (on_disc_fields sx p) as (_ & _ & D3 & _); rewrite D3 end.
          rewrite K, Z.eqb_refl. cbn [andb]. destruct (k' =? 1) eqn:Ek; [discriminate|]. apply Z.eqb_neq in Ek. auto.
      - intros H. split; [exact H|]. intros ->. congruence. }
    unfold connected. destruct (s_link s3 p 0) eqn:E0; [destruct (G 0 E0) as [G1 _]; congruence|].
    destruct (s_link s3 p 1) eqn:E1; [destruct (G 1 E1) as [_ G2]; congruence | reflexivity].
Qed.

Lemma shape_same4 : forall sa sb, linv true sa -> s_rsvp sb = s_rsvp sa -> s_link sb = s_link sa ->
  s_closed sb = s_closed sa -> s_now sb = s_now sa -> shape sa sb.
Proof.
  intros sa sb L R1 R6 R7 R8. unfold shape, connected. rewrite R1, R6, R7, R8. split; [reflexivity|]. split; [lia|].
  intros q. rewrite Ex_same. apply (triv_conn sa L).
Qed.

Lemma shape_refl : forall s, linv true s -> shape s s.
Proof. intros s L. apply shape_rproj; [exact L | reflexivity]. Qed.

(* ---- RESERVE ------------------------------------------------------------------------------ *)
Ltac refused H :=
  right; split; [reflexivity | split; [cbn; unfold ST_OK, ST_DENIED, ST_REFUSED, ST_CONNFAIL; discriminate | split; [exact H | left; reflexivity]]].

Lemma reserve_rsvp : forall c sa p k acl inj, linv true sa ->
  let sb := fst (handle_reserve c sa p k acl inj) in
  let obs := snd (handle_reserve c sa p k acl inj) in
  (nth 1 obs 0 = 1 /\ s_closed sa = false /\ s_closed sb = false /\ s_now sb = s_now sa /\ s_link sb = s_link sa /\
   connected sa p = true /\ a_relayed (addr_of c p k) = false /\
   s_rsvp sb = upd (s_rsvp sa) p (Some (s_now sa + c_ttl c)) /\
   nth 0 obs 0 = ST_OK /\ nth 3 obs 0 = 1 /\ nth 4 obs 0 = 1 /\ nth 5 obs 0 = p) \/
  (nth 1 obs 0 = 0 /\ nth 0 obs 0 <> ST_OK /\ shape sa sb /\ (s_now sb = s_now sa \/ s_now sb = s_now sa + 1)).
Proof.
  intros c sa p k acl inj L. cbv zeta. unfold handle_reserve.
  assert (SR : shape sa sa) by (apply shape_refl; exact L).
  destruct (negb (s_link sa p k) || s_closed sa) eqn:E0; [refused SR|].
  destruct (negb (mem_ok_always c (s_mem sa) maxMessageSize)); [refused SR|].
  destruct (a_relayed (addr_of c p k)) eqn:Erel; [refused SR|]. cbv zeta.
  apply orb_false_iff in E0. destruct E0 as [El Ecl]. apply negb_false_iff in El.
  destruct (inj =? 2) eqn:Ei.
  - (* the peer disconnects while the ACL is consulted: refused whatever the ACL says *)
    destruct (shape_close_peer_adv c sa p L) as [Sh Cn]. set (s1 := close_peer c (advance_to c sa (s_now sa + 1)) p) in *.
    assert (Nw : s_now s1 = s_now sa + 1).
    { unfold s1, close_peer. destruct (close_conn_rsvp c (close_conn c (advance_to c sa (s_now sa + 1)) p 0) p 1) as (_ & N2 & _).
      { apply linv_lbase, linv_close_conn, linv_advance, L. }
      destruct (close_conn_rsvp c (advance_to c sa (s_now sa + 1)) p 0) as (_ & N1 & _).
      { apply linv_lbase, linv_advance, L. }
      destruct (adv_rsvp c sa (s_now sa + 1)) as (_ & _ & N0 & _). rewrite N2, N1, N0. lia. }
    destruct (negb acl); [right; split; [reflexivity | split; [cbn; unfold ST_OK, ST_DENIED; discriminate | split; [exact Sh | right; exact Nw]]]|].
    rewrite Cn. cbn [negb]. right. split; [reflexivity | split; [cbn; unfold ST_OK; discriminate | split; [exact Sh | right; exact Nw]]].
  - destruct (negb acl); [refused SR|].
    destruct (negb (connected sa p)) eqn:Ecn; [refused SR|].
    apply negb_false_iff in Ecn.
    unfold c_reserve. cbv zeta.
    set (s0 := c_cleanup sa (s_now sa)).
    assert (S0 : shape sa s0) by (apply shape_same4; [exact L | reflexivity..]).
    repeat match goal with |- context [fst (let '(_, _) := (if ?x then (s0, false) else _) in _)] =>
      destruct x; [refused S0|] end.
    left. cbn [negb fst snd nth]. repeat split; try reflexivity; assumption.
Qed.

(* ---- CONNECT and the remaining operations ---------------------------------------------------- *)
Lemma shape_trans_rproj : forall sa sb sc, shape sa sb -> rproj sc = rproj sb -> shape sa sc.
Proof.
  intros sa sb sc (S1 & S2 & S3) H. destruct (rproj_fields _ _ H) as (R1 & _ & _ & _ & _ & R6 & R7 & R8).
  unfold shape, connected. rewrite R1, R6, R7, R8. exact (conj S1 (conj S2 S3)).
Qed.

Lemma connect_rsvp : forall c sa src sa0 dst acl dm sm dc, linv true sa ->
  let sb := fst (handle_connect c sa src sa0 dst acl dm sm dc) in
  shape sa sb /\ (s_now sb = s_now sa \/ s_now sb = s_now sa + 1).
Proof.
  intros c sa src sa0 dst acl dm sm dc L. cbv zeta. unfold handle_connect.
  assert (SR : shape sa sa) by (apply shape_refl; exact L).
  repeat match goal with |- context [fst (if ?b then (sa, ?o) else _)] => destruct b; [split; [exact SR | left; reflexivity]|] end.
  destruct (s_rsvp sa dst); [|split; [exact SR | left; reflexivity]].
  repeat match goal with |- context [fst (if ?b then (sa, ?o) else _)] => destruct b; [split; [exact SR | left; reflexivity]|] end.
  cbv zeta.
  set (s1 := set_mem (add_conn (add_conn sa src) dst) (s_mem sa + 2 * c_buf c)).
  assert (P1 : rproj s1 = rproj sa).
  { unfold s1. change (rproj (add_conn (add_conn sa src) dst) = rproj sa). rewrite add_conn_r, add_conn_r. reflexivity. }
  assert (N1 : s_now s1 = s_now sa) by apply (rproj_fields _ _ P1).
  assert (S1 : shape sa s1) by (apply shape_rproj; assumption).
  repeat match goal with |- context [fst (if ?b then (cleanup_circ c s1 src dst, ?o) else _)] =>
    destruct b; [cbn [fst]; split; [eapply shape_trans_rproj; [exact S1 | apply cleanup_circ_r] |
                                    left; rewrite (proj2 (proj2 (proj2 (proj2 (proj2 (proj2 (proj2 (rproj_fields _ _ (cleanup_circ_r c s1 src dst))))))))); exact N1]|] end.
  destruct (sm =? 3); cbn [fst].
  - assert (L1 : linv true s1) by (eapply linv_proj; [|exact L]; unfold lproj; destruct (rproj_fields _ _ P1) as (R1 & _ & _ & _ & _ & R6 & R7 & R8); congruence).
    destruct (shape_close_peer_adv c s1 src L1) as [(H1 & H2 & H3) _].
    set (s3 := close_peer c (advance_to c s1 (s_now s1 + 1)) src) in *.
    assert (N3 : s_now s3 = s_now sa + 1).
    { unfold s3, close_peer. destruct (close_conn_rsvp c (close_conn c (advance_to c s1 (s_now s1 + 1)) src 0) src 1) as (_ & M2 & _).
      { apply linv_lbase, linv_close_conn, linv_advance, L1. }
      destruct (close_conn_rsvp c (advance_to c s1 (s_now s1 + 1)) src 0) as (_ & M1 & _).
      { apply linv_lbase, linv_advance, L1. }
      destruct (adv_rsvp c s1 (s_now s1 + 1)) as (_ & _ & M0 & _). rewrite M2, M1, M0. lia. }
    destruct (rproj_fields _ _ P1) as (R1 & _ & _ & _ & _ & R6 & R7 & R8).
    split.
    + eapply shape_trans_rproj; [|apply cleanup_circ_r]. unfold shape. rewrite H1, R7. split; [reflexivity|]. split; [lia|].
      intros q. rewrite H3, R7, R8, R1. reflexivity.
    + right. rewrite (proj2 (proj2 (proj2 (proj2 (proj2 (proj2 (proj2 (rproj_fields _ _ (cleanup_circ_r c s3 src dst))))))))). exact N3.
  - split; [eapply shape_trans_rproj; [exact S1 | reflexivity] | left; exact N1].
Qed.

Lemma other_rsvp : forall c sa o, linv true sa ->
  (forall p k acl inj, o <> OReserve p k acl inj) -> o <> OCloseRelay ->
  let sb := fst (apply_op c sa o) in
  shape sa sb /\ (s_now sb = s_now sa \/ s_now sb = s_now sa + 1 \/ exists dt, o = OAdvance dt /\ s_now sb = Z.max (s_now sa + dt) (s_now sa)).
Proof.
  intros c sa o L Hr Hc. cbv zeta. destruct o; cbn [apply_op fst].
  - (* open: more links *)
    split; [|left; reflexivity]. unfold shape. cbn [set_link s_closed s_now s_rsvp]. split; [reflexivity|]. split; [lia|].
    intros q. rewrite Ex_same. destruct (linv_lbase sa L) as [_ B2].
    match goal with |- _ = if ?x then _ else _ => destruct x eqn:E end; [reflexivity|].
    destruct (s_rsvp sa q) eqn:Er; [|reflexivity]. exfalso.
    assert (Cq : connected sa q = true) by (apply B2; rewrite Er; discriminate).
    unfold connected in *. cbn [set_link s_link] in E. apply orb_false_iff in E. destruct E as [E1 E2].
    apply orb_true_iff in Cq. destruct Cq as [Cq|Cq]; rewrite Cq in *;
      [destruct ((q =? p) && (0 =? nk k)) | destruct ((q =? p) && (1 =? nk k))]; discriminate.
  - destruct (close_conn_rsvp c sa p (nk k) (linv_lbase sa L)) as (B1 & B2 & _ & B4).
    split; [|left; exact B2]. unfold shape. rewrite B1, B2. split; [reflexivity|]. split; [lia|]. intros q. rewrite Ex_same. apply B4.
  - exfalso. eapply Hr. reflexivity.
  - destruct (connect_rsvp c sa src (nk sa0) dst acl dmode smode (nk (dconn - 1) + 1) L) as [S T].
    split; [exact S|]. destruct T as [T|T]; [left | right; left]; exact T.
  - split; [apply shape_rproj; [exact L | apply send_r] | left; apply (rproj_fields _ _ (send_r c sa cid dir n))].
  - split; [apply shape_rproj; [exact L | apply close_write_r] | left; apply (rproj_fields _ _ (close_write_r c sa cid dir))].
  - split; [apply shape_rproj; [exact L | apply reset_end_r] | left; apply (rproj_fields _ _ (reset_end_r c sa cid side))].
  - destruct (adv_rsvp c sa (s_now sa + dt)) as (A1 & A2 & A3 & A4).
    split; [|right; right; exists dt; split; [reflexivity | exact A3]].
    unfold shape. rewrite A2, A3. split; [reflexivity|]. split; [lia|].
    intros q. rewrite A4. unfold connected. rewrite A1. fold (connected sa q).
    destruct (connected sa q) eqn:E; [reflexivity|]. rewrite (triv_conn sa L q), E. apply Ex_none.
  - exfalso. apply Hc. reflexivity.
Qed.

(* ---- one whole step ------------------------------------------------------------------------ *)
Definition time_ok (now t : Z) (o : op) (tend : Z) : Prop :=
  now <= t /\ t + 1 <= tend /\ match o with OAdvance dt => t + dt <= tend | _ => True end.

Lemma step_rsvp : forall c s t o tend, linv true s -> 0 <= c_ttl c -> time_ok (s_now s) t o tend ->
  let sa := advance_to c s t in
  let s' := fst (step c s t o tend) in
  let obs := snd (step c s t o tend) in
  s_now sa = t /\ s_closed sa = s_closed s /\ s_link sa = s_link s /\
  (forall q, s_rsvp sa q = Ex (s_closed s) (s_now s) t (s_rsvp s q)) /\
  s_now s' = tend /\
  match o with
  | OCloseRelay => s_closed s' = true /\ forall q, s_rsvp s' q = None
  | OReserve p k acl inj =>
      s_closed s' = s_closed s /\
      ((nth 1 obs 0 = 1 /\ s_closed s = false /\ connected s' p = true /\ a_relayed (addr_of c p (nk k)) = false /\
        nth 0 obs 0 = ST_OK /\ nth 3 obs 0 = 1 /\ nth 4 obs 0 = 1 /\ nth 5 obs 0 = p /\
        (forall q, connected s' q = connected sa q) /\
        (forall q, s_rsvp s' q = Ex false t tend (if q =? p then Some (t + c_ttl c) else s_rsvp sa q))) \/
       (nth 1 obs 0 = 0 /\ nth 0 obs 0 <> ST_OK /\
        forall q, s_rsvp s' q = if connected s' q then Ex (s_closed s) t tend (s_rsvp sa q) else None))
  | _ => s_closed s' = s_closed s /\
         forall q, s_rsvp s' q = if connected s' q then Ex (s_closed s) t tend (s_rsvp sa q) else None
  end.
Proof.
  intros c s t o tend L Httl (T1 & T2 & T3). cbv zeta.
  destruct (adv_rsvp c s t) as (A1 & A2 & A3 & A4). set (sa := advance_to c s t) in *.
  replace (Z.max t (s_now s)) with t in * by lia.
  assert (La : linv true sa) by (apply linv_advance; exact L).
  split; [exact A3|]. split; [exact A2|]. split; [exact A1|]. split; [exact A4|].
  unfold step. fold sa.
  (* the tail: advance to tend *)
  assert (Tail : forall sb, s_now sb <= tend ->
     s_now (advance_to c sb tend) = tend /\ s_closed (advance_to c sb tend) = s_closed sb /\
     (forall q, connected (advance_to c sb tend) q = connected sb q) /\
     (forall q, s_rsvp (advance_to c sb tend) q = Ex (s_closed sb) (s_now sb) tend (s_rsvp sb q))).
  { intros sb Hn. destruct (adv_rsvp c sb tend) as (B1 & B2 & B3 & B4).
    replace (Z.max tend (s_now sb)) with tend in * by lia.
    repeat split; try assumption. intros q. unfold connected. rewrite B1. reflexivity. }
  (* shape followed by the tail *)
  assert (Comb : forall sb, shape sa sb -> s_now sb <= tend ->
     s_now (advance_to c sb tend) = tend /\ s_closed (advance_to c sb tend) = s_closed s /\
     forall q, s_rsvp (advance_to c sb tend) q =
               if connected (advance_to c sb tend) q then Ex (s_closed s) t tend (s_rsvp sa q) else None).
  { intros sb (S1 & S2 & S3) Hn. destruct (Tail sb Hn) as (B1 & B2 & B3 & B4).
    split; [exact B1|]. split; [rewrite B2, S1; exact A2|]. intros q. rewrite B4, B3, S3, S1, A2, A3.
    destruct (connected sb q); [apply Ex_compose; lia | apply Ex_none]. }
  destruct o as [p k|p k|p k acl inj|src sa0 dst acl dm sm dc|id dir nb|id dir|id side|dt|].
  all: try (match goal with |- context [apply_op _ _ ?o] =>
       destruct (other_rsvp c sa o La ltac:(intros; discriminate) ltac:(discriminate)) as [Sh Tm] end;
       destruct (apply_op c sa _) as [sb ob] eqn:Eop; cbn [fst snd] in *;
       assert (Hn : s_now sb <= tend) by (destruct Tm as [Tm|[Tm|(dt' & Ed & Tm)]]; try (inversion Ed; subst dt'); lia);
       destruct (Comb sb Sh Hn) as (C1 & C2 & C3); split; [exact C1 | split; [exact C2 | exact C3]]).
  - (* RESERVE *)
    cbn [apply_op]. destruct (reserve_rsvp c sa p (nk k) acl inj La) as [G | R];
      destruct (handle_reserve c sa p (nk k) acl inj) as [sb ob]; cbn [fst snd] in *.
    + destruct G as (G1 & G2 & G3 & G4 & G5 & G6 & G7 & G8 & G9 & G10 & G11 & G12).
      destruct (Tail sb ltac:(lia)) as (B1 & B2 & B3 & B4).
      split; [exact B1|]. split; [rewrite B2, G3; rewrite A2 in G2; symmetry; exact G2|].
      left. rewrite A2 in G2. repeat split; try assumption.
      * rewrite B3. unfold connected. rewrite G5. exact G6.
      * intros q. rewrite B3. unfold connected. rewrite G5. reflexivity.
      * intros q. rewrite B4, G3, G4, G8, A3. unfold upd. destruct (q =? p); reflexivity.
    + destruct R as (R1 & R2 & Sh & Tm).
      assert (Hn : s_now sb <= tend) by (destruct Tm; lia).
      destruct (Comb sb Sh Hn) as (C1 & C2 & C3). split; [exact C1|]. split; [exact C2|].
      right. repeat split; assumption.
  - (* Close *)
    cbn [apply_op]. set (sb := close_relay sa).
    assert (Cb : s_closed sb = true /\ s_now sb = s_now sa /\ forall q, s_rsvp sb q = None).
    { unfold sb, close_relay. destruct (s_closed sa) eqn:Ec.
      - repeat split; try assumption. intros q. apply (proj1 La Ec).
      - cbn [set_mem gc set_closed set_rsvp set_rtag s_closed s_now s_rsvp]. repeat split. intros q. destruct (s_rsvp sa q); reflexivity. }
    destruct Cb as (Cb1 & Cb2 & Cb3). cbn [fst snd].
    destruct (Tail sb ltac:(lia)) as (B1 & B2 & B3 & B4).
    split; [exact B1|]. split; [rewrite B2; exact Cb1|]. intros q. rewrite B4, Cb3. apply Ex_none.
Qed.

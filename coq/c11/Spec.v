(* C11 — the property as a decidable predicate over observable traces (monitor)
   and the decoding of correspondence lines.  No proofs here.

   WIRE FORMAT (one case per line, integers):
     1 ttl maxrsvp maxcirc maxip maxasn buf limited limdata limdur memlimit svcout n
       (ip asn flags){2n}           two source addresses per peer 1..n; flags: 1 relayed, 2 no IP,
                                    4 = textual form only (IPv4-mapped IPv6 spelling of the same IPv4 address; ignored here: one IP)
     then operations, each   code t ARGS OBS SNAPSHOT :
       10 t p k                      peer p opens connection k (from its k-th address)
       11 t p k                      closes it
       12 t p k acl inj              RESERVE over (p,k); acl = the ACL stub's answer; inj = 1: the client
                                     resets its stream / 2: the peer disconnects while the ACL is consulted
          OBS cstatus allowed rstatus vsig vrelay vpeer vexp rexp
                                     status seen by the client (0 none), ReservationAllowed fired,
                                     status the relay recorded, voucher signed by the relay's key,
                                     voucher.Relay = relay, voucher.Peer (peer index), expiries (ms)
       13 t src sa dst acl dmode smode dconn     CONNECT src->dst over (src,sa)
                                     dmode: destination's stop handler 0 ok, 1 reset, 2 malformed,
                                       3 non-OK status, 4 wrong type, 5 silent, 6 stop stream cannot be
                                       opened, 7 EOF;   smode: source 0 ok, 1 malformed peer id,
                                       2 resets / 3 disconnects when the stop handler runs, 4 wrong
                                       message type, 5 silent;   dconn = 1 + index of the connection
                                       the relay chose for the stop stream (0 none; environment choice)
          OBS cstatus rstatus cid
       14 t cid dir n                sender of direction dir (0 src->dst) writes n bytes
       15 t cid dir                  ... half-closes
       16 t cid side                 endpoint side (0 src) resets its stream
       17 t dt                       time passes
       18 t                          Relay.Close()
     SNAPSHOT at quiescence:
       tend mem sin sout             time, service scope Stat(): memory, inbound/outbound streams
       (rexp conns ctot ctexp cip cipid casn casnid rtag htag l0 l1){n}
                                     Relay.rsvp expiry (-1 none), Relay.conns, entries of the peer in
                                     constraints.total (+ first expiry), .ips (+ ip id), .asns (+ asn id),
                                     connmgr tags, connection (p,0)/(p,1) open
       nc (cid rxab eofab rxba eofba){nc}
                                     per circuit: bytes received by dst / src, that receiver saw EOF/reset
   All times in ms since the relay was created.                                   *)
From Coq Require Import List ZArith Bool.
From Verif Require Import lib.Wire gen.Consts_c11 c11.Model.
From Verif Require c11.SpecClient.
Import ListNotations.
Local Open Scope Z_scope.

(* ---- snapshots --------------------------------------------------------------- *)
Record psnap := mkPs {
  ps_rexp : Z; ps_conns : Z; ps_ctot : Z; ps_ctexp : Z; ps_cip : Z; ps_cipid : Z;
  ps_casn : Z; ps_casnid : Z; ps_rtag : bool; ps_htag : bool; ps_l0 : bool; ps_l1 : bool }.

Record csnap := mkCs { cs_id : Z; cs_rxab : Z; cs_eofab : bool; cs_rxba : Z; cs_eofba : bool }.

Record snap := mkSnap { sn_t : Z; sn_mem : Z; sn_sin : Z; sn_sout : Z;
                        sn_peers : list psnap; sn_circs : list csnap }.

Definition zseq (a n : Z) : list Z := map Z.of_nat (seq (Z.to_nat a) (Z.to_nat n)).

Definition ip_ids : list Z := zseq 1 11.
Definition asn_ids : list Z := zseq 1 2.

Definition cnt_peer (p : Z) (l : list pe) : Z := zlength (filter (fun e => pe_peer e =? p) l).

Definition first_key (p : Z) (keys : list Z) (f : Z -> list pe) : Z :=
  match find (fun k => 0 <? cnt_peer p (f k)) keys with Some k => k | None => 0 end.

Definition sum_keys (p : Z) (keys : list Z) (f : Z -> list pe) : Z :=
  fold_right (fun k acc => cnt_peer p (f k) + acc) 0 keys.

Definition psnap_of (s : st) (p : Z) : psnap :=
  mkPs (match s_rsvp s p with Some e => e | None => -1 end)
       (s_conns s p)
       (cnt_peer p (s_ctot s))
       (match find (fun e => pe_peer e =? p) (s_ctot s) with Some e => pe_exp e | None => -1 end)
       (sum_keys p ip_ids (s_cips s)) (first_key p ip_ids (s_cips s))
       (sum_keys p asn_ids (s_casns s)) (first_key p asn_ids (s_casns s))
       (s_rtag s p) (s_htag s p) (s_link s p 0) (s_link s p 1).

Definition csnap_of (ci : circ) : csnap :=
  mkCs (ci_id ci) (ci_fab ci) (negb (ci_rab ci)) (ci_fba ci) (negb (ci_rba ci)).

Definition snap_of (c : cfg) (s : st) : snap :=
  mkSnap (s_now s) (s_mem s) (nopen s) (nopen s)
         (map (psnap_of s) (zseq 1 (c_n c))) (map csnap_of (s_circs s)).

Definition psnap_eqb (a b : psnap) : bool :=
  (ps_rexp a =? ps_rexp b) && (ps_conns a =? ps_conns b) && (ps_ctot a =? ps_ctot b) &&
  (ps_ctexp a =? ps_ctexp b) && (ps_cip a =? ps_cip b) && (ps_cipid a =? ps_cipid b) &&
  (ps_casn a =? ps_casn b) && (ps_casnid a =? ps_casnid b) && Bool.eqb (ps_rtag a) (ps_rtag b) &&
  Bool.eqb (ps_htag a) (ps_htag b) && Bool.eqb (ps_l0 a) (ps_l0 b) && Bool.eqb (ps_l1 a) (ps_l1 b).

Definition csnap_eqb (a b : csnap) : bool :=
  (cs_id a =? cs_id b) && (cs_rxab a =? cs_rxab b) && Bool.eqb (cs_eofab a) (cs_eofab b) &&
  (cs_rxba a =? cs_rxba b) && Bool.eqb (cs_eofba a) (cs_eofba b).

Definition snap_eqb (a b : snap) : bool :=
  (sn_t a =? sn_t b) && (sn_mem a =? sn_mem b) && (sn_sin a =? sn_sin b) && (sn_sout a =? sn_sout b) &&
  list_eqb psnap_eqb (sn_peers a) (sn_peers b) && list_eqb csnap_eqb (sn_circs a) (sn_circs b).

(* ---- events -------------------------------------------------------------------- *)
Record ev := mkEv { e_t : Z; e_op : op; e_obs : list Z; e_snap : snap }.

(* the trace of the model: times are inputs (t, op, tend) *)
Fixpoint model_trace (c : cfg) (s : st) (ops : list (Z * op * Z)) : list ev :=
  match ops with
  | [] => []
  | (t, o, tend) :: r =>
      let '(s', obs) := step c s t o tend in
      mkEv t o obs (snap_of c s') :: model_trace c s' r
  end.

(* ---- the property monitor ------------------------------------------------------ *)
(* Judges the implementation's observations by the property alone.  Its own
   bookkeeping:
     held   : the reservations that exist according to the property: granted
              (ReservationAllowed), not yet past a collection after expiry, the
              peer still connected, relay not closed — with the IP/ASN class of
              the address the request came from
     circs  : circuits the relay reported OK for, with the time window in which
              they were opened; whether they are still alive is what the two
              ENDPOINTS see (snapshot: both receivers got EOF/reset = ended)   *)
Record hres := mkH { h_exp : Z; h_ip : Z; h_asn : Z; h_rel : bool }.
Record mcirc := mkMc { mc_id : Z; mc_src : Z; mc_dst : Z; mc_t0 : Z; mc_t1 : Z }.
Record mon := mkMon { m_held : Z -> option hres; m_circs : list mcirc; m_last : list csnap;
                      m_conn : Z -> bool; m_now : Z; m_closed : bool }.

Definition mon_init : mon := mkMon (fun _ => None) [] [] (fun _ => false) 0 false.

(* "at the next collection, once expired": collections are the ticks of the
   relay's ticker (every gc_period_ms); a tick in (a, b] collects at the last one *)
Definition expire_held (closed : bool) (h : Z -> option hres) (a b : Z) : Z -> option hres :=
  if negb closed && (b / gc_period_ms >? a / gc_period_ms) then
    fun p => match h p with
             | Some r => if h_exp r <? (b / gc_period_ms) * gc_period_ms then None else Some r
             | None => None end
  else h.

Definition cs_alive (x : csnap) : bool := negb (cs_eofab x && cs_eofba x).

Definition alive_in (last : list csnap) (id : Z) : bool :=
  match find (fun x => cs_id x =? id) last with Some x => cs_alive x | None => false end.

Definition b2z (b : bool) : Z := if b then 1 else 0.

(* circuits of p still open at time t, as far as the endpoints saw at the last
   snapshot; a circuit past its duration limit is not counted *)
Definition mcount (c : cfg) (mcs : list mcirc) (last : list csnap) (t : Z) (p : Z) : Z :=
  fold_right (fun x acc =>
     (if alive_in last (mc_id x) && (negb (c_limited c) || (t <? mc_t0 x + c_limdur c))
      then b2z (mc_src x =? p) + b2z (mc_dst x =? p) else 0) + acc) 0 mcs.

(* the same at a snapshot (no deadline reasoning: what the endpoints see now) *)
Definition mcount_now (mcs : list mcirc) (cur : list csnap) (p : Z) : Z :=
  fold_right (fun x acc =>
     (if alive_in cur (mc_id x) then b2z (mc_src x =? p) + b2z (mc_dst x =? p) else 0) + acc) 0 mcs.

Definition peers_of (c : cfg) : list Z := zseq 1 (c_n c).
Definition ps_at (sn : snap) (p : Z) : psnap :=
  nth (Z.to_nat (p - 1)) (sn_peers sn) (mkPs (-1) 0 0 (-1) 0 0 0 0 false false false false).
Definition ps_connected (x : psnap) : bool := ps_l0 x || ps_l1 x.

Definition count_held (c : cfg) (h : Z -> option hres) (f : hres -> bool) : Z :=
  zlength (filter (fun p => match h p with Some r => f r | None => false end) (peers_of c)).

(* clause numbers reported in diagnostics *)
Definition CL_CONNECT := 1. Definition CL_CAPS := 2. Definition CL_VOUCHER := 3.
Definition CL_LIFE := 4. Definition CL_RESTORE := 5. Definition CL_LIMIT := 6.

Definition first_bad (cl : Z) (l : list (Z * bool)) : list Z :=
  match find (fun x => negb (snd x)) l with Some (k, _) => [cl; k] | None => [] end.

(* the pieces of one monitored event (same names as in the comments above) *)
Definition ev_ob (e : ev) (i : nat) : Z := nth i (e_obs e) 0.

Definition m_h1 (m : mon) (e : ev) : Z -> option hres :=
  expire_held (m_closed m) (m_held m) (m_now m) (e_t e).

Definition granted_to (e : ev) (p : Z) : bool :=
  match e_op e with
  | OReserve q _ _ _ => (q =? p) && (ev_ob e 1 =? 1)
  | _ => false
  end.

(* the operation: new table of reservations, circuits, closed flag, diagnostics *)
Definition m_op (c : cfg) (m : mon) (e : ev) : (Z -> option hres) * list mcirc * bool * list Z :=
  let sn := e_snap e in
  let t := e_t e in
  let h1 := m_h1 m e in
  match e_op e with
  | OReserve p k acl inj =>
      let a := addr_of c p k in
      let granted := ev_ob e 1 =? 1 in
      let d := if (ev_ob e 0 =? ST_OK) && negb (granted && (ev_ob e 3 =? 1) && (ev_ob e 4 =? 1) && (ev_ob e 5 =? p))
               then [CL_VOUCHER; p] else [] in
      let rexp := ps_rexp (ps_at sn p) in
      (if granted then upd h1 p (if rexp <? 0 then None else Some (mkH rexp (a_ip a) (a_asn a) (a_relayed a)))
       else h1, m_circs m, m_closed m, d)
  | OConnect src sa dst acl dm sm dc =>
      let ok := (ev_ob e 0 =? ST_OK) || (ev_ob e 1 =? ST_OK) in
      let cond :=
        match h1 dst with Some r => negb (h_rel r) | None => false end &&
        negb (a_relayed (addr_of c src sa)) && acl &&
        (mcount c (m_circs m) (m_last m) t src <? c_maxcirc c) &&
        (mcount c (m_circs m) (m_last m) t dst <? c_maxcirc c) in
      (h1, if ok && (0 <? ev_ob e 2) then m_circs m ++ [mkMc (ev_ob e 2) src dst t (sn_t sn)] else m_circs m,
       m_closed m, if ok && negb cond then [CL_CONNECT; dst] else [])
  | OCloseRelay => (fun _ => None, m_circs m, true, [])
  | _ => (h1, m_circs m, m_closed m, [])
  end.

(* a peer without connection holds no reservation; collections up to the snapshot *)
Definition m_h3 (m : mon) (e : ev) (h2 : Z -> option hres) : Z -> option hres :=
  fun p => if ps_connected (ps_at (e_snap e) p) then h2 p
           else if m_conn m p || granted_to e p then None else h2 p.

Definition m_h4 (m : mon) (e : ev) (closed : bool) (h2 : Z -> option hres) : Z -> option hres :=
  expire_held closed (m_h3 m e h2) (e_t e) (sn_t (e_snap e)).

Definition d_life (c : cfg) (sn : snap) (h4 : Z -> option hres) : list Z :=
  first_bad CL_LIFE
    (map (fun p => (p, (ps_rexp (ps_at sn p) <? 0) || match h4 p with Some _ => true | None => false end)) (peers_of c)).

Definition d_caps (c : cfg) (e : ev) (h4 : Z -> option hres) : list Z :=
  let sn := e_snap e in
  match e_op e with
  | OReserve p k acl inj =>
      if ev_ob e 1 =? 1 then
        let a := addr_of c p k in
        let live := fun r : hres => sn_t sn <=? h_exp r in
        if (count_held c h4 live <=? c_maxrsvp c) &&
           (count_held c h4 (fun r => live r && (h_ip r =? a_ip a)) <=? c_maxip c) &&
           ((a_asn a =? 0) || (count_held c h4 (fun r => live r && (h_asn r =? a_asn a)) <=? c_maxasn c))
        then [] else [CL_CAPS; p]
      else []
  | _ => []
  end.

Definition d_rest (c : cfg) (sn : snap) (mcs : list mcirc) (closed : bool) : list Z :=
  let nalive := zlength (filter cs_alive (sn_circs sn)) in
  first_bad CL_RESTORE
    (map (fun p => let x := ps_at sn p in
                   (p, (ps_conns x =? mcount_now mcs (sn_circs sn) p) &&
                       ((0 <? ps_conns x) || negb (ps_htag x)) &&
                       ((0 <=? ps_rexp x) || negb (ps_rtag x)))) (peers_of c)
     ++ [(0, closed || (sn_mem sn =? 2 * c_buf c * nalive))]).

Definition d_lim (c : cfg) (sn : snap) (mcs : list mcirc) : list Z :=
  first_bad CL_LIMIT
    (map (fun x => (cs_id x,
        (negb (c_limited c) || ((cs_rxab x <=? c_limdata c) && (cs_rxba x <=? c_limdata c))) &&
        (negb (cs_alive x) || negb (c_limited c) ||
         match find (fun y => mc_id y =? cs_id x) mcs with
         | Some y => sn_t sn <? mc_t1 y + c_limdur c
         | None => false end))) (sn_circs sn)).

(* after a lifecycle failure the monitor adopts what it saw, so that one defect is
   reported once and later events of the same history are still judged *)
Definition m_h5 (c : cfg) (sn : snap) (h2 h4 : Z -> option hres) : Z -> option hres :=
  fun p => match h4 p with
           | Some r => Some r
           | None => let x := ps_at sn p in
                     if 0 <=? ps_rexp x
                     then match h2 p with
                          | Some r => Some r      (* the entry just dropped: right address class *)
                          | None => Some (mkH (ps_rexp x) (a_ip (addr_of c p 0)) (a_asn (addr_of c p 0)) false)
                          end
                     else None end.

Definition mon_step (c : cfg) (m : mon) (e : ev) : mon * list Z :=
  let sn := e_snap e in
  let '(h2, mcs, closed, dop) := m_op c m e in
  let h4 := m_h4 m e closed h2 in
  (mkMon (m_h5 c sn h2 h4) mcs (sn_circs sn) (fun p => ps_connected (ps_at sn p)) (sn_t sn) closed,
   dop ++ d_life c sn h4 ++ d_caps c e h4 ++ d_rest c sn mcs closed ++ d_lim c sn mcs).

(* every failing event contributes  ERR_PROPERTY index clause peer/circuit  (first
   failing clause of that event); [] = the property holds on the whole trace *)
Fixpoint mon_run (c : cfg) (m : mon) (i : Z) (tr : list ev) : list Z :=
  match tr with
  | [] => []
  | e :: r =>
      let '(m', d) := mon_step c m e in
      match d with
      | cl :: k :: _ => ERR_PROPERTY :: i :: cl :: k :: mon_run c m' (i + 1) r
      | _ => mon_run c m' (i + 1) r
      end
  end.

Definition monitor (c : cfg) (tr : list ev) : list Z := mon_run c mon_init 0 tr.

(* ---- wire decoding --------------------------------------------------------------- *)
Definition dec_addr (ip asn fl : Z) : addr := mkAddr ip asn (Z.testbit fl 0) (Z.testbit fl 1).

Fixpoint dec_addrs (n : nat) (l : list Z) : option (list (addr * addr) * list Z) :=
  match n with
  | O => Some ([], l)
  | S n' =>
      match l with
      | i0 :: a0 :: f0 :: i1 :: a1 :: f1 :: r =>
          match dec_addrs n' r with
          | Some (x, r') => Some ((dec_addr i0 a0 f0, dec_addr i1 a1 f1) :: x, r')
          | None => None end
      | _ => None
      end
  end.

Definition dec_cfg (l : list Z) : option (cfg * list Z) :=
  match l with
  | 1 :: ttl :: mr :: mc :: mi :: ma :: buf :: lim :: ld :: ldur :: ml :: so :: n :: r =>
      if (n <? 0) || (n >? 64) then None else
      match dec_addrs (Z.to_nat n) r with
      | Some (ad, r') => Some (mkCfg ttl mr mc mi ma buf (zbool lim) ld ldur ml so n ad, r')
      | None => None end
  | _ => None
  end.

Fixpoint dec_psnaps (n : nat) (l : list Z) : option (list psnap * list Z) :=
  match n with
  | O => Some ([], l)
  | S n' =>
      match l with
      | a :: b :: c :: d :: e :: f :: g :: h :: i :: j :: k :: m :: r =>
          match dec_psnaps n' r with
          | Some (x, r') => Some (mkPs a b c d e f g h (zbool i) (zbool j) (zbool k) (zbool m) :: x, r')
          | None => None end
      | _ => None
      end
  end.

Fixpoint dec_csnaps (n : nat) (l : list Z) : option (list csnap * list Z) :=
  match n with
  | O => Some ([], l)
  | S n' =>
      match l with
      | a :: b :: c :: d :: e :: r =>
          match dec_csnaps n' r with
          | Some (x, r') => Some (mkCs a b (zbool c) d (zbool e) :: x, r')
          | None => None end
      | _ => None
      end
  end.

Definition dec_snap (n : Z) (l : list Z) : option (snap * list Z) :=
  match l with
  | t :: mem :: sin :: sout :: r =>
      match dec_psnaps (Z.to_nat n) r with
      | Some (ps, nc :: r1) =>
          if (nc <? 0) || (nc >? 10000) then None else
          match dec_csnaps (Z.to_nat nc) r1 with
          | Some (cs, r2) => Some (mkSnap t mem sin sout ps cs, r2)
          | None => None end
      | _ => None
      end
  | _ => None
  end.

Definition dec_op (l : list Z) : option (Z * op * list Z * list Z) :=   (* t, op, obs, rest *)
  match l with
  | 10 :: t :: p :: k :: r => Some (t, OOpen p k, [], r)
  | 11 :: t :: p :: k :: r => Some (t, OCloseConn p k, [], r)
  | 12 :: t :: p :: k :: acl :: inj :: o1 :: o2 :: o3 :: o4 :: o5 :: o6 :: o7 :: o8 :: r =>
      Some (t, OReserve p k (zbool acl) inj, [o1; o2; o3; o4; o5; o6; o7; o8], r)
  | 13 :: t :: a :: b :: d :: acl :: dm :: sm :: dc :: o1 :: o2 :: o3 :: r =>
      Some (t, OConnect a b d (zbool acl) dm sm dc, [o1; o2; o3], r)
  | 14 :: t :: id :: dir :: n :: r => Some (t, OSend id dir n, [], r)
  | 15 :: t :: id :: dir :: r => Some (t, OCloseWrite id dir, [], r)
  | 16 :: t :: id :: side :: r => Some (t, OReset id side, [], r)
  | 17 :: t :: dt :: r => Some (t, OAdvance dt, [], r)
  | 18 :: t :: r => Some (t, OCloseRelay, [], r)
  | _ => None
  end.

Fixpoint dec_events (n : Z) (l : list Z) (fuel : nat) : option (list ev * list Z) :=
  match fuel with
  | O => None
  | S f =>
      match l with
      | [] => Some ([], [])
      | 19 :: _ => Some ([], l)          (* a trailing batch of concurrent requests *)
      | _ =>
          match dec_op l with
          | Some (t, o, obs, r) =>
              match dec_snap n r with
              | Some (sn, r') =>
                  match dec_events n r' f with
                  | Some (es, rest) => Some (mkEv t o obs sn :: es, rest)
                  | None => None end
              | None => None end
          | None => None end
      end
  end.

(* ---- a batch of CONCURRENT requests, judged at quiescence only ----------------------------------
   wire:  19 t k bm  (12 p a  cs vsig vrelay vpeer | 13 src sa dst  cs cid)*k  SNAPSHOT
   k requests launched together (ACL allows, every stop handler in mode bm, no injection); cs = the
   status the client received (0 none).  Always the last event of a case.  The model is not
   consulted: the interleaving is the scheduler's. *)
Record breq := mkBr { b_kind : Z; b_p : Z; b_a : Z; b_dst : Z; b_cs : Z; b_x1 : Z; b_x2 : Z; b_x3 : Z }.

Fixpoint dec_breqs (k : nat) (l : list Z) : option (list breq * list Z) :=
  match k with
  | O => Some ([], l)
  | S k' =>
      match l with
      | 12 :: p :: a :: cs :: v1 :: v2 :: v3 :: r =>
          match dec_breqs k' r with Some (x, r') => Some (mkBr 12 p a 0 cs v1 v2 v3 :: x, r') | None => None end
      | 13 :: src :: sa :: dst :: cs :: cid :: r =>
          match dec_breqs k' r with Some (x, r') => Some (mkBr 13 src sa dst cs cid 0 0 :: x, r') | None => None end
      | _ => None
      end
  end.

Definition dec_batch (n : Z) (l : list Z) : option (option (Z * list breq * snap)) :=
  match l with
  | [] => Some None
  | 19 :: t :: k :: bm :: r =>
      if (k <? 0) || (k >? 64) then None else
      match dec_breqs (Z.to_nat k) r with
      | Some (rq, r1) =>
          match dec_snap n r1 with
          | Some (sn, []) => Some (Some (t, rq, sn))
          | _ => None end
      | None => None end
  | _ => None
  end.

Definition b_granted (r : breq) : bool := (b_kind r =? 12) && (b_cs r =? ST_OK).
Definition b_circuit (r : breq) : bool := (b_kind r =? 13) && (b_cs r =? ST_OK) && (0 <? b_x1 r).

Definition mon_batch (c : cfg) (m : mon) (t : Z) (reqs : list breq) (sn : snap) : list Z :=
  let h1 := expire_held (m_closed m) (m_held m) (m_now m) t in
  let h2 := fold_left (fun h r =>
                let a := addr_of c (b_p r) (b_a r) in
                let rexp := ps_rexp (ps_at sn (b_p r)) in
                upd h (b_p r) (if rexp <? 0 then None else Some (mkH rexp (a_ip a) (a_asn a) (a_relayed a))))
              (filter b_granted reqs) h1 in
  let mcs := m_circs m ++ map (fun r => mkMc (b_x1 r) (b_p r) (b_dst r) t (sn_t sn)) (filter b_circuit reqs) in
  let h3 := fun p => if ps_connected (ps_at sn p) then h2 p else None in
  let h4 := expire_held (m_closed m) h3 t (sn_t sn) in
  let live := fun r : hres => sn_t sn <=? h_exp r in
  let d_v := first_bad CL_VOUCHER
      (map (fun r => (b_p r, negb (b_granted r) || ((b_x1 r =? 1) && (b_x2 r =? 1) && (b_x3 r =? b_p r)))) reqs) in
  let d_c := first_bad CL_CONNECT
      (map (fun r => (b_dst r, negb ((b_kind r =? 13) && (b_cs r =? ST_OK)) ||
           (match h2 (b_dst r) with Some x => negb (h_rel x) | None => false end &&
            negb (a_relayed (addr_of c (b_p r) (b_a r))) &&
            ((b_p r =? b_dst r) ||
             ((mcount_now mcs (sn_circs sn) (b_p r) <=? c_maxcirc c) &&
              (mcount_now mcs (sn_circs sn) (b_dst r) <=? c_maxcirc c)))))) reqs) in
  let d_k := first_bad CL_CAPS
      (map (fun r => let a := addr_of c (b_p r) (b_a r) in
           (b_p r, negb (b_granted r) ||
              ((count_held c h4 live <=? c_maxrsvp c) &&
               (count_held c h4 (fun x => live x && (h_ip x =? a_ip a)) <=? c_maxip c) &&
               ((a_asn a =? 0) || (count_held c h4 (fun x => live x && (h_asn x =? a_asn a)) <=? c_maxasn c))))) reqs) in
  d_v ++ d_c ++ d_life c sn h4 ++ d_k ++ d_rest c sn mcs (m_closed m) ++ d_lim c sn mcs.

(* first position at which two token lists differ *)
Fixpoint first_diff (i : Z) (a b : list Z) : list Z :=
  match a, b with
  | [], [] => []
  | x :: r, y :: r' => if x =? y then first_diff (i + 1) r r' else [i; x; y]
  | x :: _, [] => [i; x; -99]
  | [], y :: _ => [i; -99; y]
  end.

Definition enc_ps (x : psnap) : list Z :=
  [ps_rexp x; ps_conns x; ps_ctot x; ps_ctexp x; ps_cip x; ps_cipid x; ps_casn x; ps_casnid x;
   boolz (ps_rtag x); boolz (ps_htag x); boolz (ps_l0 x); boolz (ps_l1 x)].
Definition enc_cs (x : csnap) : list Z :=
  [cs_id x; cs_rxab x; boolz (cs_eofab x); cs_rxba x; boolz (cs_eofba x)].
Definition enc_snap (x : snap) : list Z :=
  [sn_t x; sn_mem x; sn_sin x; sn_sout x] ++ flat_map enc_ps (sn_peers x) ++ [zlength (sn_circs x)] ++ flat_map enc_cs (sn_circs x).

(* the model replays the operations (with the recorded times and environment
   choices) and must reproduce every observation and every snapshot *)
(* the hypotheses of the theorems about histories, checked on every recorded event: peers
   are among 1..n, the clock is monotone, an operation takes >= 1 ms, a time step ends
   before its snapshot *)
Definition in_rangeb (c : cfg) (p : Z) : bool := (1 <=? p) && (p <=? c_n c).
Definition ev_okb (c : cfg) (now : Z) (e : ev) : bool :=
  (now <=? e_t e) && (e_t e + 1 <=? sn_t (e_snap e)) &&
  match e_op e with
  | OOpen p _ | OCloseConn p _ | OReserve p _ _ _ => in_rangeb c p
  | OConnect src _ dst _ _ _ _ => in_rangeb c src && in_rangeb c dst
  | OAdvance dt => e_t e + dt <=? sn_t (e_snap e)
  | _ => true
  end.

Fixpoint conform_run (c : cfg) (s : st) (i : Z) (tr : list ev) : list Z :=
  match tr with
  | [] => []
  | e :: r =>
      if negb (ev_okb c (s_now s) e) then [ERR_MALFORMED; i; 7] else
      let '(s', obs) := step c s (e_t e) (e_op e) (sn_t (e_snap e)) in
      if negb (zlist_eqb obs (e_obs e)) then ERR_MISMATCH :: i :: 1 :: first_diff 0 obs (e_obs e)
      else if negb (snap_eqb (snap_of c s') (e_snap e))
      then ERR_MISMATCH :: i :: 2 :: first_diff 0 (enc_snap (snap_of c s')) (enc_snap (e_snap e))
      else conform_run c s' (i + 1) r
  end.

Definition decode_case (l : list Z) : option (cfg * list ev * option (Z * list breq * snap)) :=
  match dec_cfg l with
  | Some (c, r) =>
      match dec_events (c_n c) r (S (length r)) with
      | Some (es, rest) =>
          match dec_batch (c_n c) rest with
          | Some b => Some (c, es, b)
          | None => None end
      | None => None end
  | None => None
  end.

(* the monitor state after a trace (for the trailing batch) *)
Fixpoint mon_final (c : cfg) (m : mon) (tr : list ev) : mon :=
  match tr with [] => m | e :: r => mon_final c (fst (mon_step c m e)) r end.

Definition conform_case (l : list Z) : list Z :=
  match l with 2 :: r => SpecClient.client_conform r | _ =>
  match decode_case l with
  | Some (c, es, _) => conform_run c init_st 0 es
  | None => [ERR_MALFORMED; 0]
  end end.

Definition monitor_case (l : list Z) : list Z :=
  match l with 2 :: r => SpecClient.client_monitor r | _ =>
  match decode_case l with
  | Some (c, es, b) =>
      monitor c es ++
      match b with
      | Some (t, rq, sn) =>
          match mon_batch c (mon_final c mon_init es) t rq sn with
          | cl :: k :: _ => [ERR_PROPERTY; zlength es; cl; k]
          | _ => [] end
      | None => [] end
  | None => [ERR_MALFORMED; 0]
  end end.

(* C11 — circuit relay v2: executable transcription of
     p2p/protocol/circuitv2/relay/{relay.go,constraints.go,resources.go}
   (handleStream / handleReserve / handleConnect / addConn / rmConn /
    relayLimited / gc / disconnected / Close, constraints.Reserve / cleanup /
    cleanupPeer).  NO proofs here.

   Go maps are total functions (peer -> ...); the slices of constraints
   (total, ips[k], asns[k]) stay lists because their layout is what goes
   wrong.  Time is in ms since the relay was created.  One operation of the
   harness = one atomic step (the harness waits for quiescence in between;
   r.mx serialises the decisive sections).                                  *)
From Coq Require Import List ZArith Bool.
From Verif Require Import gen.Consts_c11.
Import ListNotations.
Local Open Scope Z_scope.

(* ---- configuration ------------------------------------------------------- *)
Record addr := mkAddr { a_ip : Z; a_asn : Z; a_relayed : bool; a_noip : bool }.

Record cfg := mkCfg {
  c_ttl : Z; c_maxrsvp : Z; c_maxcirc : Z; c_maxip : Z; c_maxasn : Z; c_buf : Z;
  c_limited : bool; c_limdata : Z; c_limdur : Z;
  c_memlimit : Z;   (* rcmgr limit on the relay service scope's memory *)
  c_svcout : Z;     (* rcmgr limit on outbound streams of the service scope *)
  c_n : Z;
  c_addrs : list (addr * addr) }.   (* two source addresses per peer 1..n *)

Definition addr0 := mkAddr 0 0 false true.
(* connection index 2 is a LIMITED connection (the relay host reaches the peer through
   another relay): its remote address is a /p2p-circuit address *)
Definition addr_lim := mkAddr 0 0 true false.
Definition addr_of (c : cfg) (p k : Z) : addr :=
  let pr := nth (Z.to_nat (p - 1)) (c_addrs c) (addr0, addr0) in
  if k =? 0 then fst pr else if k =? 2 then addr_lim else snd pr.

(* status codes of pb.Status *)
Definition ST_OK := 100. Definition ST_REFUSED := 200. Definition ST_RLE := 201.
Definition ST_DENIED := 202. Definition ST_CONNFAIL := 203. Definition ST_NORSVP := 204.
Definition ST_MALFORMED := 400.

(* ---- state ---------------------------------------------------------------- *)
Record pe := mkPe { pe_exp : Z; pe_peer : Z }.

Record circ := mkCirc {
  ci_id : Z; ci_src : Z; ci_sa : Z; ci_dst : Z; ci_da : Z;
  ci_fab : Z; ci_fba : Z;          (* bytes forwarded src->dst / dst->src *)
  ci_rab : bool; ci_rba : bool;    (* relayLimited goroutine of that direction still running *)
  ci_dl : Z }.                     (* stream deadline, -1 = none *)

Definition ci_open (c : circ) : bool := ci_rab c || ci_rba c.

Record st := mkSt {
  s_rsvp : Z -> option Z;          (* Relay.rsvp: expiry *)
  s_conns : Z -> Z;                (* Relay.conns *)
  s_ctot : list pe;                (* constraints.total *)
  s_cips : Z -> list pe;           (* constraints.ips *)
  s_casns : Z -> list pe;          (* constraints.asns *)
  s_rtag : Z -> bool;              (* connmgr tag "relay-reservation" *)
  s_htag : Z -> bool;              (* connmgr tag relayHopTag *)
  s_link : Z -> Z -> bool;         (* connection (p,k) to the relay is open *)
  s_circs : list circ;
  s_mem : Z;                       (* memory reserved by circuit spans in the service scope *)
  s_closed : bool;
  s_now : Z }.

Definition init_st : st :=
  mkSt (fun _ => None) (fun _ => 0) [] (fun _ => []) (fun _ => [])
       (fun _ => false) (fun _ => false) (fun _ _ => false) [] 0 false 0.

Definition upd {A} (f : Z -> A) (k : Z) (v : A) : Z -> A := fun x => if x =? k then v else f x.

Definition connected (s : st) (p : Z) : bool := s_link s p 0 || s_link s p 1.
Definition nopen (s : st) : Z := Z.of_nat (length (filter ci_open (s_circs s))).

(* setters *)
Definition set_rsvp s v := mkSt v (s_conns s) (s_ctot s) (s_cips s) (s_casns s) (s_rtag s) (s_htag s) (s_link s) (s_circs s) (s_mem s) (s_closed s) (s_now s).
Definition set_conns s v := mkSt (s_rsvp s) v (s_ctot s) (s_cips s) (s_casns s) (s_rtag s) (s_htag s) (s_link s) (s_circs s) (s_mem s) (s_closed s) (s_now s).
Definition set_cons s t i a := mkSt (s_rsvp s) (s_conns s) t i a (s_rtag s) (s_htag s) (s_link s) (s_circs s) (s_mem s) (s_closed s) (s_now s).
Definition set_rtag s v := mkSt (s_rsvp s) (s_conns s) (s_ctot s) (s_cips s) (s_casns s) v (s_htag s) (s_link s) (s_circs s) (s_mem s) (s_closed s) (s_now s).
Definition set_htag s v := mkSt (s_rsvp s) (s_conns s) (s_ctot s) (s_cips s) (s_casns s) (s_rtag s) v (s_link s) (s_circs s) (s_mem s) (s_closed s) (s_now s).
Definition set_link s v := mkSt (s_rsvp s) (s_conns s) (s_ctot s) (s_cips s) (s_casns s) (s_rtag s) (s_htag s) v (s_circs s) (s_mem s) (s_closed s) (s_now s).
Definition set_circs s v := mkSt (s_rsvp s) (s_conns s) (s_ctot s) (s_cips s) (s_casns s) (s_rtag s) (s_htag s) (s_link s) v (s_mem s) (s_closed s) (s_now s).
Definition set_mem s v := mkSt (s_rsvp s) (s_conns s) (s_ctot s) (s_cips s) (s_casns s) (s_rtag s) (s_htag s) (s_link s) (s_circs s) v (s_closed s) (s_now s).
Definition set_closed s v := mkSt (s_rsvp s) (s_conns s) (s_ctot s) (s_cips s) (s_casns s) (s_rtag s) (s_htag s) (s_link s) (s_circs s) (s_mem s) v (s_now s).
Definition set_now s v := mkSt (s_rsvp s) (s_conns s) (s_ctot s) (s_cips s) (s_casns s) (s_rtag s) (s_htag s) (s_link s) (s_circs s) (s_mem s) (s_closed s) v.

(* ---- constraints.go -------------------------------------------------------- *)
Definition zlength {A} (l : list A) : Z := Z.of_nat (length l).

(* cleanup(now): slices.DeleteFunc(.., Expiry.Before(now)) on every slice *)
Definition c_cleanup (s : st) (now : Z) : st :=
  let keep := fun e : pe => negb (pe_exp e <? now) in
  set_cons s (filter keep (s_ctot s)) (fun k => filter keep (s_cips s k)) (fun k => filter keep (s_casns s k)).

(* cleanupPeer(p) *)
Definition c_cleanup_peer (s : st) (p : Z) : st :=
  let keep := fun e : pe => negb (pe_peer e =? p) in
  set_cons s (filter keep (s_ctot s)) (fun k => filter keep (s_cips s k)) (fun k => filter keep (s_casns s k)).

(* Reserve(p, a, expiry): the peer's own entries are not counted against the
   limits; they are removed only once the new reservation is accepted, so a
   refused refresh leaves the existing reservation in place (fix 648cd92). *)
Definition others (p : Z) (l : list pe) : Z :=
  zlength (filter (fun e : pe => negb (pe_peer e =? p)) l).

Definition c_reserve (c : cfg) (s : st) (p : Z) (a : addr) (now exp : Z) : st * bool :=
  let s0 := c_cleanup s now in
  if others p (s_ctot s0) >=? c_maxrsvp c then (s0, false)
  else if a_noip a then (s0, false)
  else if others p (s_cips s0 (a_ip a)) >=? c_maxip c then (s0, false)
  else if negb (a_asn a =? 0) && (others p (s_casns s0 (a_asn a)) >=? c_maxasn c) then (s0, false)
  else
    let s1 := c_cleanup_peer s0 p in
    let e := mkPe exp p in
    (set_cons s1 (s_ctot s1 ++ [e]) (upd (s_cips s1) (a_ip a) (s_cips s1 (a_ip a) ++ [e]))
       (if a_asn a =? 0 then s_casns s1 else upd (s_casns s1) (a_asn a) (s_casns s1 (a_asn a) ++ [e])),
     true).

(* ---- relay.go: counters and tags -------------------------------------------- *)
(* addConn *)
Definition add_conn (s : st) (p : Z) : st :=
  let n := s_conns s p + 1 in
  let s1 := set_conns s (upd (s_conns s) p n) in
  if n =? 1 then set_htag s1 (upd (s_htag s1) p true) else s1.

(* rmConn *)
Definition rm_conn (s : st) (p : Z) : st :=
  let n := s_conns s p - 1 in
  if n >? 0 then set_conns s (upd (s_conns s) p n)
  else set_htag (set_conns s (upd (s_conns s) p 0)) (upd (s_htag s) p false).

(* cleanup() of handleConnect: rmConn both ends, span.Done() *)
Definition cleanup_circ (c : cfg) (s : st) (src dst : Z) : st :=
  let s1 := rm_conn (rm_conn s src) dst in
  if s_closed s1 then s1 else set_mem s1 (s_mem s1 - 2 * c_buf c).

(* both relay goroutines of every open circuit selected by f end (reset /
   deadline / connection loss); done() runs cleanup() once per circuit *)
Fixpoint kill_list (c : cfg) (f : circ -> bool) (l : list circ) (s : st) : list circ * st :=
  match l with
  | [] => ([], s)
  | ci :: r =>
      if ci_open ci && f ci then
        let s1 := cleanup_circ c s (ci_src ci) (ci_dst ci) in
        let '(r', s2) := kill_list c f r s1 in
        (mkCirc (ci_id ci) (ci_src ci) (ci_sa ci) (ci_dst ci) (ci_da ci) (ci_fab ci) (ci_fba ci) false false (ci_dl ci) :: r', s2)
      else
        let '(r', s2) := kill_list c f r s in (ci :: r', s2)
  end.

Definition kill_where (c : cfg) (s : st) (f : circ -> bool) : st :=
  let '(l, s1) := kill_list c f (s_circs s) s in set_circs s1 l.

(* disconnected(): last connection of p gone.  The relay drops the reservation
   and the constraint entries; the connection manager (BasicConnMgr) forgets
   the peer and with it every tag. *)
Definition on_disconnected (s : st) (p : Z) : st :=
  let s2 := if s_closed s then s
            else c_cleanup_peer (set_rsvp s (upd (s_rsvp s) p None)) p in
  set_htag (set_rtag s2 (upd (s_rtag s2) p false)) (upd (s_htag s2) p false).

Definition close_conn (c : cfg) (s : st) (p k : Z) : st :=
  if s_link s p k then
    let s1 := set_link s (fun x y => if (x =? p) && (y =? k) then false else s_link s x y) in
    let s2 := kill_where c s1 (fun ci => ((ci_src ci =? p) && (ci_sa ci =? k)) || ((ci_dst ci =? p) && (ci_da ci =? k))) in
    if connected s2 p then s2 else on_disconnected s2 p
  else s.

Definition close_peer (c : cfg) (s : st) (p : Z) : st := close_conn c (close_conn c s p 0) p 1.

(* gc() at time tau: expired (or all, once closed) reservations go, untagged *)
Definition gc (s : st) (tau : Z) : st :=
  let dead := fun p => match s_rsvp s p with
                       | Some e => s_closed s || (e <? tau)
                       | None => false end in
  set_rtag (set_rsvp s (fun p => if dead p then None else s_rsvp s p))
           (fun p => if dead p then false else s_rtag s p).

(* virtual time moves to t: stream deadlines of limited circuits fire, the
   one-minute ticker of background() runs gc *)
Definition advance_to (c : cfg) (s : st) (t : Z) : st :=
  let t' := Z.max t (s_now s) in
  let s1 := kill_where c s (fun ci => (0 <=? ci_dl ci) && (ci_dl ci <=? t')) in
  let s2 := if negb (s_closed s1) && (t' / gc_period_ms >? s_now s / gc_period_ms)
            then gc s1 ((t' / gc_period_ms) * gc_period_ms) else s1 in
  set_now s2 t'.

(* rcmgr's checkMemory against the service limit *)
Definition mem_ok_high (c : cfg) (m r : Z) : bool :=
  m + r <=? ((1 + ReservationPriorityHigh) * c_memlimit c) / 256.
Definition mem_ok_always (c : cfg) (m r : Z) : bool := m + r <=? c_memlimit c.

(* ---- handleReserve ------------------------------------------------------------ *)
(* obs = [client status; ReservationAllowed; relay status; voucher signed by the
   relay; voucher.Relay = relay; voucher.Peer; voucher expiry; msg expiry]   *)
Definition no_obs8 : list Z := [0; 0; 0; 0; 0; 0; 0; 0].
Definition robs (cs al rs : Z) : list Z := [cs; al; rs; 0; 0; 0; 0; 0].

Definition handle_reserve (c : cfg) (s : st) (p k : Z) (acl : bool) (inj : Z) : st * list Z :=
  if negb (s_link s p k) || s_closed s then (s, no_obs8)
  else if negb (mem_ok_always c (s_mem s) maxMessageSize) then (s, no_obs8)
  else
    let a := addr_of c p k in
    if a_relayed a then (s, robs ST_DENIED 0 ST_DENIED)
    else
      (* the ACL is consulted here; the harness's stub may close the peer's
         connections first (inj = 2): the request then races with disconnected() *)
      let hooked := inj =? 2 in
      let s1 := if hooked then close_peer c (advance_to c s (s_now s + 1)) p else s in
      let seen := fun x : Z => if hooked then 0 else x in
      if negb acl then (s1, robs (seen ST_DENIED) 0 ST_DENIED)
      (* under r.mx: the peer may have disconnected meanwhile (fix 6afff63) *)
      else if negb (connected s1 p) then (s1, robs (seen ST_CONNFAIL) 0 ST_CONNFAIL)
      else
        let exp := s_now s1 + c_ttl c in
        let '(s2, ok) := c_reserve c s1 p a (s_now s1) exp in
        if negb ok then (s2, robs (seen ST_REFUSED) 0 ST_REFUSED)
        else
          let s3 := set_rtag (set_rsvp s2 (upd (s_rsvp s2) p (Some exp))) (upd (s_rtag s2) p true) in
          (s3, [ST_OK; 1; ST_OK; 1; 1; p; (exp / 1000) * 1000; (exp / 1000) * 1000]).

(* ---- handleConnect -------------------------------------------------------------- *)
(* obs = [client status; relay status; circuit id (0 = none)] *)
Definition next_cid (s : st) : Z := zlength (s_circs s) + 1.

Definition handle_connect (c : cfg) (s : st) (src sa dst : Z) (acl : bool) (dmode smode dconn : Z)
  : st * list Z :=
  if negb (s_link s src sa) || s_closed s then (s, [0; 0; 0])
  else if negb (mem_ok_always c (s_mem s) maxMessageSize) then (s, [0; 0; 0])
  else if smode =? 5 then (s, [ST_MALFORMED; 0; 0])   (* after StreamTimeout *)
  else if smode =? 4 then (s, [ST_MALFORMED; 0; 0])
  else if negb (mem_ok_high c (s_mem s + maxMessageSize) (2 * c_buf c)) then (s, [ST_RLE; ST_RLE; 0])
  else if a_relayed (addr_of c src sa) then (s, [ST_DENIED; ST_DENIED; 0])
  else if smode =? 1 then (s, [ST_MALFORMED; ST_MALFORMED; 0])
  else if negb acl then (s, [ST_DENIED; ST_DENIED; 0])
  else match s_rsvp s dst with
  | None => (s, [ST_NORSVP; ST_NORSVP; 0])
  | Some _ =>
    if s_conns s src >=? c_maxcirc c then (s, [ST_RLE; ST_RLE; 0])
    else if s_conns s dst >=? c_maxcirc c then (s, [ST_RLE; ST_RLE; 0])
    else
      let m0 := s_mem s in
      let s1 := set_mem (add_conn (add_conn s src) dst) (m0 + 2 * c_buf c) in
      let fail := fun (sx : st) (st_ : Z) => (cleanup_circ c sx src dst, [st_; st_; 0]) in
      if negb (connected s1 dst) || (dmode =? 6) then fail s1 ST_CONNFAIL
      else if nopen s1 >=? c_svcout c then fail s1 ST_RLE
      else if negb (mem_ok_always c (s_mem s1 + maxMessageSize) maxMessageSize) then fail s1 ST_RLE
      else if (dmode =? 1) || (dmode =? 2) || (dmode =? 3) || (dmode =? 4) || (dmode =? 7) then fail s1 ST_CONNFAIL
      else if dmode =? 5 then fail s1 ST_CONNFAIL        (* after HandshakeTimeout *)
      else
        (* the stop handshake succeeded; the harness may now close the source's
           connections (smode 3): the response write fails *)
        if smode =? 3 then
          let s3 := close_peer c (advance_to c s1 (s_now s1 + 1)) src in
          (cleanup_circ c s3 src dst, [0; ST_CONNFAIL; 0])
        else
          let id := next_cid s1 in
          let dl := if c_limited c then s_now s1 + c_limdur c else -1 in
          let ci := mkCirc id src sa dst (dconn - 1) 0 0 true true dl in
          (set_circs s1 (s_circs s1 ++ [ci]), [ST_OK; ST_OK; id])
  end.

(* ---- relayLimited / relayUnlimited ---------------------------------------------- *)
Definition find_circ (s : st) (id : Z) : option circ :=
  find (fun x => ci_id x =? id) (s_circs s).

Fixpoint replace_first (ci : circ) (l : list circ) : list circ :=
  match l with
  | [] => []
  | x :: r => if ci_id x =? ci_id ci then ci :: r else x :: replace_first ci r
  end.

Definition put_circ (s : st) (ci : circ) : st := set_circs s (replace_first ci (s_circs s)).

(* after a direction ended: when it was the last one, done() runs cleanup() *)
Definition settle_circ (c : cfg) (s : st) (ci : circ) : st :=
  let s1 := put_circ s ci in
  if ci_open ci then s1 else cleanup_circ c s1 (ci_src ci) (ci_dst ci).

(* the sender of direction dir (0: src->dst, 1: dst->src) writes n bytes:
   io.LimitReader lets min(n, remaining) through; at count == limit the relay
   closes the direction *)
Definition send (c : cfg) (s : st) (id dir n : Z) : st :=
  match find_circ s id with
  | None => s
  | Some ci =>
      let running := if dir =? 0 then ci_rab ci else ci_rba ci in
      if negb running || (n <=? 0) then s
      else
        let f := if dir =? 0 then ci_fab ci else ci_fba ci in
        let k := if c_limited c then Z.min n (c_limdata c - f) else n in
        let f' := f + k in
        let still := negb (c_limited c && (f' =? c_limdata c)) in
        let ci' := if dir =? 0
                   then mkCirc (ci_id ci) (ci_src ci) (ci_sa ci) (ci_dst ci) (ci_da ci) f' (ci_fba ci) still (ci_rba ci) (ci_dl ci)
                   else mkCirc (ci_id ci) (ci_src ci) (ci_sa ci) (ci_dst ci) (ci_da ci) (ci_fab ci) f' (ci_rab ci) still (ci_dl ci) in
        settle_circ c s ci'
  end.

(* the sender of direction dir half-closes: EOF is propagated, the direction ends *)
Definition close_write (c : cfg) (s : st) (id dir : Z) : st :=
  match find_circ s id with
  | None => s
  | Some ci =>
      let running := if dir =? 0 then ci_rab ci else ci_rba ci in
      if negb running then s
      else
        let ci' := if dir =? 0
                   then mkCirc (ci_id ci) (ci_src ci) (ci_sa ci) (ci_dst ci) (ci_da ci) (ci_fab ci) (ci_fba ci) false (ci_rba ci) (ci_dl ci)
                   else mkCirc (ci_id ci) (ci_src ci) (ci_sa ci) (ci_dst ci) (ci_da ci) (ci_fab ci) (ci_fba ci) (ci_rab ci) false (ci_dl ci) in
        settle_circ c s ci'
  end.

(* endpoint side (0: source, 1: destination) resets its stream while the relay
   is reading from it: copy error, both streams reset, both directions end *)
Definition reset_end (c : cfg) (s : st) (id side : Z) : st :=
  match find_circ s id with
  | None => s
  | Some ci =>
      let reading := if side =? 0 then ci_rab ci else ci_rba ci in
      if negb reading then s else kill_where c s (fun x => ci_id x =? id)
  end.

(* Close(): handler and notifiee removed, gc() with closed = true, the service
   span is released *)
Definition close_relay (s : st) : st :=
  if s_closed s then s
  else let s1 := set_closed s true in set_mem (gc s1 (s_now s1)) 0.

(* ---- operations of the harness ------------------------------------------------ *)
Inductive op :=
| OOpen (p k : Z)
| OCloseConn (p k : Z)
| OReserve (p k : Z) (acl : bool) (inj : Z)
| OConnect (src sa dst : Z) (acl : bool) (dmode smode dconn : Z)
| OSend (cid dir n : Z)
| OCloseWrite (cid dir : Z)
| OReset (cid side : Z)
| OAdvance (dt : Z)
| OCloseRelay.

(* a peer has two direct connections, index 0 and 1 (anything else = 1), and possibly a
   limited one, index 2.  Network().Connectedness(p) is Connected iff a direct connection is
   open ([connected]); with only the limited one it is Limited: disconnected() then does NOT
   return early and the reservation goes, handleReserve refuses. *)
Definition nk (k : Z) : Z := if k =? 0 then 0 else if k =? 2 then 2 else 1.

Definition apply_op (c : cfg) (s : st) (o : op) : st * list Z :=
  match o with
  | OOpen p k => (set_link s (fun x y => if (x =? p) && (y =? nk k) then true else s_link s x y), [])
  | OCloseConn p k => (close_conn c s p (nk k), [])
  | OReserve p k acl inj => handle_reserve c s p (nk k) acl inj
  | OConnect src sa dst acl dm sm dc => handle_connect c s src (nk sa) dst acl dm sm (nk (dc - 1) + 1)
  | OSend id dir n => (send c s id dir n, [])
  | OCloseWrite id dir => (close_write c s id dir, [])
  | OReset id side => (reset_end c s id side, [])
  | OAdvance dt => (advance_to c s (s_now s + dt), [])
  | OCloseRelay => (close_relay s, [])
  end.

(* one harness step: the op starts at time t, the snapshot is taken at tend *)
Definition step (c : cfg) (s : st) (t : Z) (o : op) (tend : Z) : st * list Z :=
  let '(s1, obs) := apply_op c (advance_to c s t) o in
  (advance_to c s1 tend, obs).

(* the state after a history; times are inputs *)
Fixpoint run (c : cfg) (s : st) (ops : list (Z * op * Z)) : st :=
  match ops with
  | [] => s
  | (t, o, tend) :: r => run c (fst (step c s t o tend)) r
  end.

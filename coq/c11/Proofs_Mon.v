(* C11 — the property monitor accepts every trace of the model (coupling invariant between
   the monitor's own bookkeeping and the model state, by induction over the history). *)
From Coq Require Import List ZArith Bool Lia.
From Verif Require Import lib.Wire gen.Consts_c11 c11.Model c11.Spec c11.Proofs c11.Proofs_Frame
  c11.Proofs_Cnt c11.Proofs_Caps c11.Proofs_Life c11.Proofs_Circ c11.Proofs_Rsv.
Import ListNotations.
Local Open Scope Z_scope.

(* ---- reservation tag follows the reservation --------------------------------------------- *)
Definition tinv (s : st) : Prop := forall p, s_rtag s p = true -> s_rsvp s p <> None.

Lemma tinv_rproj : forall s s', rproj s' = rproj s -> tinv s -> tinv s'.
Proof. intros s s' H T. destruct (rproj_fields _ _ H) as (R1 & _ & _ & _ & R5 & _). unfold tinv. rewrite R1, R5. exact T. Qed.

Lemma tinv_gc : forall s tau, tinv s -> tinv (gc s tau).
Proof.
  intros s tau T p. unfold gc. cbn. destruct (s_rsvp s p) as [e|] eqn:E.
  - destruct (s_closed s || (e <? tau)); [discriminate | intros _; discriminate].
  - intros H. apply T in H. rewrite E in H. contradiction.
Qed.

Lemma tinv_on_disc : forall s p, tinv s -> tinv (on_disconnected s p).
Proof.
  intros s p T q. unfold on_disconnected. destruct (s_closed s); cbn; unfold upd; destruct (q =? p); try discriminate; apply T.
Qed.

Lemma tinv_close_conn : forall c s p k, tinv s -> tinv (close_conn c s p k).
Proof.
  intros c s p k T. unfold close_conn. destruct (s_link s p k); [|exact T].
  match goal with |- context [kill_where c ?s1 ?f] =>
    assert (T1 : tinv (kill_where c s1 f)) by (eapply tinv_rproj; [apply kill_where_r | exact T]);
    destruct (connected (kill_where c s1 f) p); [exact T1 | apply tinv_on_disc, T1] end.
Qed.

Lemma tinv_advance : forall c s t, tinv s -> tinv (advance_to c s t).
Proof.
  intros c s t T. unfold advance_to. cbv zeta.
  match goal with |- context [kill_where c s ?f] =>
    assert (T1 : tinv (kill_where c s f)) by (eapply tinv_rproj; [apply kill_where_r | exact T]) end.
  match goal with |- tinv (set_now (if ?b then _ else _) _) => destruct b end; [apply (tinv_gc _ _ T1) | exact T1].
Qed.

Lemma tinv_apply_op : forall c s o, tinv s -> tinv (fst (apply_op c s o)).
Proof.
  intros c s o T. destruct o; cbn [apply_op fst].
  - exact T.
  - apply tinv_close_conn, T.
  - unfold handle_reserve. destruct (_ || _); [exact T|]. destruct (negb _); [exact T|].
    destruct (a_relayed _); [exact T|]. cbv zeta.
    set (s1 := if inj =? 2 then close_peer c (advance_to c s (s_now s + 1)) p else s).
    assert (T1 : tinv s1) by (unfold s1; destruct (inj =? 2); [apply tinv_close_conn, tinv_close_conn, tinv_advance|]; exact T).
    destruct (negb acl); [exact T1|]. destruct (negb (connected s1 p)); [exact T1|].
    unfold c_reserve. cbv zeta.
    repeat match goal with |- tinv (fst (let '(_, _) := (if ?x then (?y, false) else _) in _)) => destruct x; [exact T1|] end.
    cbn [negb fst]. intros q. cbn. unfold upd. destruct (q =? p); [discriminate | apply T1].
  - unfold handle_connect.
    repeat match goal with |- tinv (fst (if ?b then (s, _) else _)) => destruct b; [exact T|] end.
    destruct (s_rsvp s dst); [|exact T].
    repeat match goal with |- tinv (fst (if ?b then (s, _) else _)) => destruct b; [exact T|] end.
    cbv zeta. set (s1 := set_mem (add_conn (add_conn s src) dst) (s_mem s + 2 * c_buf c)).
    assert (T1 : tinv s1).
    { eapply tinv_rproj; [|exact T]. unfold s1. change (rproj (add_conn (add_conn s src) dst) = rproj s). rewrite add_conn_r, add_conn_r. reflexivity. }
    repeat match goal with |- tinv (fst (if ?b then (cleanup_circ c s1 src dst, _) else _)) =>
      destruct b; [cbn [fst]; eapply tinv_rproj; [apply cleanup_circ_r | exact T1]|] end.
    destruct (smode =? 3); cbn [fst].
    + eapply tinv_rproj; [apply cleanup_circ_r|]. apply tinv_close_conn, tinv_close_conn, tinv_advance, T1.
    + exact T1.
  - eapply tinv_rproj; [apply send_r | exact T].
  - eapply tinv_rproj; [apply close_write_r | exact T].
  - eapply tinv_rproj; [apply reset_end_r | exact T].
  - apply tinv_advance, T.
  - unfold close_relay. destruct (s_closed s); [exact T|]. apply (tinv_gc (set_closed s true) (s_now s)). exact T.
Qed.

(* ---- snapshots of in-range peers -------------------------------------------------------- *)
Definition in_range (c : cfg) (p : Z) : Prop := 1 <= p <= c_n c.

Lemma zseq_nth : forall n p d, 1 <= p <= n -> nth (Z.to_nat (p - 1)) (zseq 1 n) d = p.
Proof.
  intros n p d H. unfold zseq. change (Z.to_nat 1) with 1%nat.
  rewrite (nth_indep _ d (Z.of_nat 0)) by (rewrite map_length, seq_length; lia).
  rewrite map_nth, seq_nth by lia. lia.
Qed.

Lemma ps_at_snap : forall c s p, in_range c p -> ps_at (snap_of c s) p = psnap_of s p.
Proof.
  intros c s p H. unfold ps_at, snap_of. cbn [sn_peers].
  set (d := mkPs (-1) 0 0 (-1) 0 0 0 0 false false false false).
  assert (Hl : (Z.to_nat (p - 1) < length (zseq 1 (c_n c)))%nat).
  { unfold zseq. rewrite map_length, seq_length. unfold in_range in H. lia. }
  rewrite (nth_indep _ d (psnap_of s 0)) by (rewrite map_length; exact Hl).
  rewrite map_nth. f_equal. apply zseq_nth. exact H.
Qed.

Lemma in_peers_of : forall c p, In p (peers_of c) -> in_range c p.
Proof.
  intros c p H. unfold peers_of, zseq in H. apply in_map_iff in H. destruct H as (i & <- & Hi).
  apply in_seq in Hi. unfold in_range. change (Z.to_nat 1) with 1%nat in Hi. lia.
Qed.

(* ---- generic ------------------------------------------------------------------------------ *)
Lemma first_bad_nil : forall cl (l : list (Z * bool)), (forall x, In x l -> snd x = true) -> first_bad cl l = [].
Proof.
  intros cl l H. unfold first_bad. destruct (find (fun x => negb (snd x)) l) as [[k b]|] eqn:E; [|reflexivity].
  apply find_some in E. destruct E as [Hin Hb]. apply H in Hin. cbn in *. rewrite Hin in Hb. discriminate.
Qed.

(* ---- coupling of one reservation ------------------------------------------------------------ *)
Definition hrel (g : Z -> addr) (p : Z) (r : option hres) (v : option Z) : Prop :=
  match r with
  | Some r => v = Some (h_exp r) /\ h_ip r = a_ip (g p) /\ h_asn r = a_asn (g p) /\ h_rel r = false
  | None => v = None
  end.

Lemma hrel_ex : forall g p h v cl a b, hrel g p (h p) v -> hrel g p (expire_held cl h a b p) (Ex cl a b v).
Proof.
  intros g p h v cl a b H. unfold expire_held, Ex. destruct (negb cl && (b / gc_period_ms >? a / gc_period_ms)); [|exact H].
  unfold hrel in *. destruct (h p) as [r|].
  - destruct H as (Hv & H2). rewrite Hv. destruct (h_exp r <? b / gc_period_ms * gc_period_ms); [reflexivity | exact (conj eq_refl H2)].
  - rewrite H. reflexivity.
Qed.

Lemma hrel_none : forall g p, hrel g p None None.
Proof. reflexivity. Qed.

(* ---- coupling of the circuits ----------------------------------------------------------------- *)
Definition crel (c : cfg) (ci : circ) (mc : mcirc) : Prop :=
  mc_id mc = ci_id ci /\ mc_src mc = ci_src ci /\ mc_dst mc = ci_dst ci /\
  (c_limited c = false -> ci_dl ci = -1) /\
  (c_limited c = true -> ci_open ci = true ->
     mc_t0 mc + c_limdur c <= ci_dl ci /\ ci_dl ci <= mc_t1 mc + c_limdur c).

Lemma crel_evo : forall c a b mc, crel c a mc -> evo1 a b -> crel c b mc.
Proof.
  intros c a b mc (H1 & H2 & H3 & H4 & H5) (E1 & E2 & E3 & E4 & E5). unfold crel.
  rewrite E1, E2, E3, E4. refine (conj H1 (conj H2 (conj H3 (conj H4 _)))). intros Hl Ho. apply H5; auto.
Qed.

Lemma crel_evo_list : forall c l l' mcs, Forall2 (crel c) l mcs -> evo l l' -> Forall2 (crel c) l' mcs.
Proof.
  intros c l l' mcs H. revert l'. induction H; intros l2 E; inversion E; subst; constructor.
  - eapply crel_evo; eassumption.
  - apply IHForall2. assumption.
Qed.

Lemma idsfrom_ge : forall l k ci, idsfrom k l -> In ci l -> k <= ci_id ci.
Proof.
  induction l as [|x r IH]; intros k ci Hi Hin; [destruct Hin|]. destruct Hi as [Hx Hr].
  destruct Hin as [->|Hin]; [lia|]. specialize (IH (k + 1) ci Hr Hin). lia.
Qed.

Lemma cs_alive_open : forall ci, cs_alive (csnap_of ci) = ci_open ci.
Proof. intros. unfold cs_alive, csnap_of, ci_open. cbn. destruct (ci_rab ci), (ci_rba ci); reflexivity. Qed.

Lemma alive_in_ids : forall l k ci, idsfrom k l -> In ci l -> alive_in (map csnap_of l) (ci_id ci) = ci_open ci.
Proof.
  induction l as [|x r IH]; intros k ci Hi Hin; [destruct Hin|]. destruct Hi as [Hx Hr].
  unfold alive_in. cbn [map find]. change (cs_id (csnap_of x)) with (ci_id x).
  destruct Hin as [->|Hin].
  - rewrite Z.eqb_refl. apply cs_alive_open.
  - pose proof (idsfrom_ge r (k + 1) ci Hr Hin). destruct (ci_id x =? ci_id ci) eqn:E; [apply Z.eqb_eq in E; lia|].
    apply (IH (k + 1) ci Hr Hin).
Qed.

Lemma find_mc_ids : forall c l mcs k ci, Forall2 (crel c) l mcs -> idsfrom k l -> In ci l ->
  exists mc, find (fun y => mc_id y =? ci_id ci) mcs = Some mc /\ crel c ci mc.
Proof.
  intros c l mcs k ci H. revert k. induction H as [|x mc r rm Hx Hr IH]; intros k Hi Hin; [destruct Hin|].
  destruct Hi as [Hk Hi]. cbn [find]. destruct Hin as [->|Hin].
  - exists mc. pose proof Hx as (E & _). rewrite E, Z.eqb_refl. split; [reflexivity | exact Hx].
  - pose proof (idsfrom_ge r (k + 1) ci Hi Hin). destruct Hx as (E & _). rewrite E.
    destruct (ci_id x =? ci_id ci) eqn:E'; [apply Z.eqb_eq in E'; lia|]. apply (IH (k + 1) Hi Hin).
Qed.

(* what the endpoints see at a snapshot is what the relay counts *)
Lemma mcount_now_cnt : forall c p cur l mcs, Forall2 (crel c) l mcs ->
  (forall ci, In ci l -> alive_in cur (ci_id ci) = ci_open ci) -> mcount_now mcs cur p = cnt p l.
Proof.
  intros c p cur l mcs H. induction H as [|x mc r rm Hx Hr IH]; intros Ha; [reflexivity|].
  unfold mcount_now in *. cbn [fold_right cnt]. destruct Hx as (E1 & E2 & E3 & _).
  rewrite E1, E2, E3, (Ha x (or_introl eq_refl)). rewrite IH by (intros ci Hin; apply Ha; right; exact Hin).
  unfold role. reflexivity.
Qed.

(* a circuit the monitor still counts at time t survives the deadlines up to t *)
Lemma mcount_le_cnt : forall c p last t l mcs l',
  Forall2 (crel c) l mcs ->
  Forall2 (kl_rel (fun ci => (0 <=? ci_dl ci) && (ci_dl ci <=? t))) l l' ->
  (forall ci, In ci l -> alive_in last (ci_id ci) = ci_open ci) ->
  mcount c mcs last t p <= cnt p l'.
Proof.
  intros c p last t l mcs l' H. revert l'. induction H as [|x mc r rm Hx Hr IH]; intros l2 K Ha; inversion K as [|a b ra rb Kab Kr]; subst.
  - cbn. lia.
  - unfold mcount in *. cbn [fold_right cnt].
    specialize (IH rb Kr (fun ci Hin => Ha ci (or_intror Hin))).
    pose proof (role_nonneg p b) as Rn.
    destruct Hx as (E1 & E2 & E3 & E4 & E5).
    rewrite E1, (Ha x (or_introl eq_refl)).
    destruct (ci_open x && (negb (c_limited c) || (t <? mc_t0 mc + c_limdur c))) eqn:Ec.
    + apply andb_true_iff in Ec. destruct Ec as [Eo Ed].
      assert (Ff : (0 <=? ci_dl x) && (ci_dl x <=? t) = false).
      { destruct (c_limited c) eqn:El.
        - cbn [negb orb] in Ed. apply Z.ltb_lt in Ed. destruct (E5 eq_refl Eo) as [D1 _].
          apply andb_false_iff. right. apply Z.leb_gt. lia.
        - rewrite (E4 eq_refl). reflexivity. }
      destruct Kab as (B1 & B2 & B3 & _ & _ & _ & B7).
      destruct B7 as [(Ra & Rb & _) | [_ Bad]]; [|rewrite Eo, Ff in Bad; discriminate].
      assert (Eob : ci_open b = true) by (unfold ci_open in *; rewrite Ra, Rb; exact Eo).
      rewrite Eob. unfold role. rewrite B2, B3, E2, E3. lia.
    + destruct (ci_open b); lia.
Qed.

(* ---- the invariants of the model, bundled ---------------------------------------------------- *)
Definition wf (c : cfg) : Prop :=
  0 <= c_ttl c /\ 0 <= c_maxrsvp c /\ 0 <= c_maxip c /\ 0 <= c_maxasn c /\ 0 <= c_limdata c /\ 0 < c_limdur c.

Definition SI (c : cfg) (g : Z -> addr) (s : st) : Prop :=
  cinv c s /\ kinv c g s /\ linv true s /\ civ c s /\ tinv s.

Lemma SI_init : forall c g, wf c -> SI c g init_st.
Proof.
  intros c g (W1 & W2 & W3 & W4 & W5 & W6). unfold SI. split; [apply init_cinv|]. split; [apply kinv_init; assumption|].
  split; [apply linv_init|]. split.
  - unfold civ, init_st. cbn. repeat split; try lia. constructor.
  - intros p H. discriminate.
Qed.

Lemma SI_step : forall c g s t o tend, wf c -> SI c g s ->
  SI c (gupd c g o (snd (step c s t o tend))) (fst (step c s t o tend)).
Proof.
  intros c g s t o tend (W1 & W2 & W3 & W4 & W5 & W6) (I1 & I2 & I3 & I4 & I5).
  destruct (step_circs c s t o tend W5 W6) as (l1 & n & _ & _ & Cv & _).
  pose proof (step_cinv c s t o tend I1) as J1.
  unfold step in *.
  pose proof (kinv_apply_op c g (advance_to c s t) o (kinv_advance c g s t I2)) as J2.
  pose proof (linv_apply_op true c (advance_to c s t) o W1 (linv_advance true c s t I3)) as J3.
  pose proof (tinv_apply_op c (advance_to c s t) o (tinv_advance c s t I5)) as J5.
  destruct (apply_op c (advance_to c s t) o) as [s1 obs]. cbn [fst snd] in *.
  unfold SI. split; [exact J1|]. split; [apply kinv_advance; assumption|]. split; [apply linv_advance; exact J3|].
  split; [apply Cv, I4 | apply tinv_advance, J5].
Qed.

(* ---- the coupling ------------------------------------------------------------------------------ *)
Record coupled (c : cfg) (g : Z -> addr) (s : st) (m : mon) : Prop := mkCp {
  cp_now : m_now m = s_now s;
  cp_closed : m_closed m = s_closed s;
  cp_conn : forall p, in_range c p -> m_conn m p = connected s p;
  cp_held : forall p, in_range c p -> hrel g p (m_held m p) (s_rsvp s p);
  cp_last : m_last m = map csnap_of (s_circs s);
  cp_circs : Forall2 (crel c) (s_circs s) (m_circs m) }.

Lemma coupled_init : forall c g, coupled c g init_st mon_init.
Proof. intros. constructor; try reflexivity; try (intros p _; reflexivity). constructor. Qed.

Definition op_ok (c : cfg) (o : op) : Prop :=
  match o with
  | OOpen p _ | OCloseConn p _ | OReserve p _ _ _ => in_range c p
  | OConnect src _ dst _ _ _ _ => in_range c src /\ in_range c dst
  | _ => True
  end.

Lemma ps_conn_snap : forall c s p, in_range c p -> ps_connected (ps_at (snap_of c s) p) = connected s p.
Proof. intros. rewrite ps_at_snap by assumption. reflexivity. Qed.

Lemma ps_rexp_snap : forall c s p, in_range c p ->
  ps_rexp (ps_at (snap_of c s) p) = match s_rsvp s p with Some e => e | None => -1 end.
Proof. intros. rewrite ps_at_snap by assumption. reflexivity. Qed.

Lemma expire_none : forall cl h a b p, h p = None -> expire_held cl h a b p = None.
Proof. intros cl h a b p H. unfold expire_held. destruct (_ && _); [rewrite H; reflexivity | exact H]. Qed.

Lemma hrel_some_inv : forall g p r, hrel g p r None -> r = None.
Proof. intros g p [r|] H; [destruct H as [H _]; discriminate | reflexivity]. Qed.

Lemma addr_of_nk : forall c p k, addr_of c p (nk k) = addr_of c p k.
Proof. intros. unfold addr_of, nk. destruct (k =? 0) eqn:E0; [reflexivity|]. destruct (k =? 2) eqn:E2; reflexivity. Qed.

(* ---- the monitor's table of reservations follows Relay.rsvp through a step --------------------- *)
Lemma h1_rel : forall c g s m t, coupled c g s m ->
  (forall q, s_rsvp (advance_to c s t) q = Ex (s_closed s) (s_now s) t (s_rsvp s q)) ->
  forall q e, in_range c q -> e_t e = t -> hrel g q (m_h1 m e q) (s_rsvp (advance_to c s t) q).
Proof.
  intros c g s m t Cp A4 q e Hq Et. unfold m_h1. rewrite Et, A4, (cp_closed _ _ _ _ Cp), (cp_now _ _ _ _ Cp).
  apply hrel_ex. apply (cp_held _ _ _ _ Cp q Hq).
Qed.

Lemma held_step : forall c g s m t o tend, wf c -> SI c g s -> coupled c g s m -> op_ok c o ->
  time_ok (s_now s) t o tend ->
  let s' := fst (step c s t o tend) in
  let obs := snd (step c s t o tend) in
  let e := mkEv t o obs (snap_of c s') in
  snd (fst (m_op c m e)) = s_closed s' /\
  (forall q, in_range c q ->
     hrel (gupd c g o obs) q (m_h4 m e (snd (fst (m_op c m e))) (fst (fst (fst (m_op c m e)))) q) (s_rsvp s' q)).
Proof.
  intros c g s m t o tend (W1 & _) (I1 & I2 & I3 & I4 & I5) Cp Ok Tm. cbv zeta.
  pose proof (step_rsvp c s t o tend I3 W1 Tm) as F. cbv zeta in F.
  destruct F as (A3 & A2 & A1 & A4 & Nt & F).
  set (sa := advance_to c s t) in *.
  set (s' := fst (step c s t o tend)) in *. set (obs := snd (step c s t o tend)) in *.
  set (e := mkEv t o obs (snap_of c s')).
  assert (H1 : forall q, in_range c q -> hrel g q (m_h1 m e q) (s_rsvp sa q)).
  { intros q Hq. apply (h1_rel c g s m t Cp A4 q e Hq eq_refl). }
  assert (Snt : sn_t (e_snap e) = tend) by (cbn; exact Nt).
  assert (Cq : forall q, in_range c q -> ps_connected (ps_at (e_snap e) q) = connected s' q)
    by (intros q Hq; apply ps_conn_snap; exact Hq).
  (* a peer that was not connected before and is not connected now held nothing *)
  assert (Dead : forall q, in_range c q -> m_conn m q = false -> m_h1 m e q = None).
  { intros q Hq Hc. rewrite (cp_conn _ _ _ _ Cp q Hq) in Hc.
    assert (Hn : s_rsvp s q = None).
    { destruct (s_rsvp s q) eqn:Er; [|reflexivity]. destruct I3 as (_ & _ & L3).
      rewrite (L3 eq_refl q) in Hc; [discriminate | rewrite Er; discriminate]. }
    specialize (H1 q Hq). rewrite A4, Hn, Ex_none in H1. apply (hrel_some_inv g q _ H1). }
  (* the generic (no grant, no close) argument *)
  assert (Gen : forall h2 cl, (forall q, h2 q = m_h1 m e q) -> cl = s_closed s ->
     (forall q, granted_to e q = true -> connected s' q = true -> False) ->
     (forall q, s_rsvp s' q = if connected s' q then Ex (s_closed s) t tend (s_rsvp sa q) else None) ->
     forall q, in_range c q -> hrel g q (m_h4 m e cl h2 q) (s_rsvp s' q)).
  { intros h2 cl Hh Hcl _ Hr q Hq. unfold m_h4. rewrite Snt. cbn [e_t e]. rewrite Hr, Hcl.
    destruct (connected s' q) eqn:Ec.
    - apply hrel_ex. unfold m_h3. rewrite (Cq q Hq), Ec, Hh. apply H1, Hq.
    - rewrite expire_none; [reflexivity|]. unfold m_h3. rewrite (Cq q Hq), Ec, Hh.
      destruct (m_conn m q || granted_to e q) eqn:Eo; [reflexivity|].
      apply orb_false_iff in Eo. apply (Dead q Hq (proj1 Eo)). }
  destruct o as [p k|p k|p k acl inj|src sa0 dst acl dm sm dc|id dir nb|id dir|id side|dt|];
    try (destruct F as [Fc Fr]; cbn [m_op e e_op fst snd gupd]; split; [rewrite Fc; apply (cp_closed _ _ _ _ Cp)|];
         apply (Gen _ _ (fun q => eq_refl) (cp_closed _ _ _ _ Cp)); [intros q Hg; discriminate Hg | exact Fr]).
  - (* RESERVE *)
    destruct F as [Fc [G | R]].
    + destruct G as (G1 & G2 & G3 & G4 & G5 & G6 & G7 & G8 & G9 & G10).
      assert (Eo : ev_ob e 1 =? 1 = true) by (unfold ev_ob; cbn [e e_obs]; rewrite G1; reflexivity).
      cbn [m_op e e_op]. rewrite Eo. cbn [fst snd gupd]. fold obs. rewrite G1. change (1 =? 1) with true. cbn iota.
      split; [rewrite Fc; apply (cp_closed _ _ _ _ Cp)|].
      intros q Hq. unfold m_h4. rewrite Snt. cbn [e_t e]. rewrite G10, (cp_closed _ _ _ _ Cp), G2.
      destruct (q =? p) eqn:Eq.
      * apply Z.eqb_eq in Eq. subst q.
        assert (Tn : 0 <= t) by (destruct I4 as (N & _); destruct Tm as (T1 & _); lia).
        assert (Rx : ps_rexp (ps_at (e_snap e) p) = match Ex false t tend (Some (t + c_ttl c)) with Some x => x | None => -1 end).
        { cbn [e e_snap]. rewrite (ps_rexp_snap c s' p Hq), G10, Z.eqb_refl. reflexivity. }
        rewrite addr_of_nk in G4.
        unfold expire_held, Ex in *. cbn [negb andb] in *.
        destruct (tend / gc_period_ms >? t / gc_period_ms) eqn:Et.
        -- unfold m_h3. rewrite (Cq p Hq), G3, upd_same, Rx.
           destruct (t + c_ttl c <? tend / gc_period_ms * gc_period_ms) eqn:El.
           ++ change (-1 <? 0) with true. cbn iota. reflexivity.
           ++ replace (t + c_ttl c <? 0) with false by (symmetry; apply Z.ltb_ge; lia).
              cbn [h_exp]. rewrite El. unfold hrel. cbn [h_exp h_ip h_asn h_rel]. rewrite upd_same, addr_of_nk.
              repeat split; assumption || reflexivity.
        -- unfold m_h3. rewrite (Cq p Hq), G3, upd_same, Rx.
           replace (t + c_ttl c <? 0) with false by (symmetry; apply Z.ltb_ge; lia).
           unfold hrel. cbn [h_exp h_ip h_asn h_rel]. rewrite upd_same, addr_of_nk.
           repeat split; assumption || reflexivity.
      * assert (Hne : q <> p) by (apply Z.eqb_neq; exact Eq).
        unfold hrel. rewrite (upd_other g p _ q Hne). fold (hrel g q).
        apply hrel_ex. unfold m_h3. rewrite (Cq q Hq), (upd_other _ p _ q Hne).
        destruct (connected s' q) eqn:Ec; [apply H1, Hq|].
        unfold granted_to. cbn [e e_op]. rewrite (Z.eqb_sym p q), Eq. cbn [andb]. rewrite orb_false_r.
        destruct (m_conn m q) eqn:Em; [|apply H1, Hq].
        (* connected before, same links now: impossible *)
        rewrite (cp_conn _ _ _ _ Cp q Hq) in Em. rewrite G9 in Ec. unfold connected in *. rewrite A1 in Ec. congruence.
    + destruct R as (R1 & R2 & R3).
      assert (Eo : ev_ob e 1 =? 1 = false) by (unfold ev_ob; cbn [e e_obs]; rewrite R1; reflexivity).
      cbn [m_op e e_op]. rewrite Eo. cbn [fst snd gupd]. fold obs. rewrite R1. change (0 =? 1) with false. cbn iota.
      split; [rewrite Fc; apply (cp_closed _ _ _ _ Cp)|].
      apply (Gen _ _ (fun q => eq_refl) (cp_closed _ _ _ _ Cp)); [|exact R3].
      intros q Hg _. unfold granted_to in Hg. cbn [e e_op] in Hg. rewrite Eo, andb_false_r in Hg. discriminate.
  - (* Close *)
    destruct F as [Fc Fr]. cbn [m_op e e_op fst snd gupd]. split; [symmetry; exact Fc|].
    intros q Hq. rewrite Fr. unfold m_h4. rewrite expire_none; [reflexivity|]. unfold m_h3.
    destruct (ps_connected _); [reflexivity|]. destruct (_ || _); reflexivity.
Qed.

(* ---- helpers for the snapshot clauses ------------------------------------------------------- *)
Lemma nalive_nopenl : forall l, zlength (filter cs_alive (map csnap_of l)) = nopenl l.
Proof.
  induction l as [|x r IH]; [reflexivity|]. cbn [map filter nopenl]. rewrite cs_alive_open.
  unfold zlength in *. destruct (ci_open x); cbn [length]; lia.
Qed.

Lemma last_tick_nonneg : forall t, 0 <= t -> 0 <= last_tick t.
Proof. intros t H. unfold last_tick, P. pose proof (Z.div_pos t gc_period_ms H ltac:(reflexivity)). unfold gc_period_ms in *. lia. Qed.

Lemma count_held_holders : forall c g s h (f : hres -> bool) (q : Z -> bool),
  (forall p, in_range c p -> hrel g p (h p) (s_rsvp s p)) ->
  (forall p r, in_range c p -> h p = Some r -> f r = (s_now s <=? h_exp r) && q p) ->
  count_held c h f = zlength (holders c s q).
Proof.
  intros c g s h f q Hh Hf. unfold count_held, holders. f_equal. apply filter_ext_in.
  intros p Hin. apply in_peers_of in Hin. specialize (Hh p Hin). unfold hrel in Hh.
  destruct (h p) as [r|] eqn:E.
  - destruct Hh as (Hv & _). rewrite Hv. apply (Hf p r Hin E).
  - rewrite Hh. reflexivity.
Qed.

Lemma step_obs_connect : forall c s t src sa0 dst acl dm sm dc tend,
  snd (step c s t (OConnect src sa0 dst acl dm sm dc) tend) =
  snd (handle_connect c (advance_to c s t) src (nk sa0) dst acl dm sm (nk (dc - 1) + 1)).
Proof.
  intros. unfold step. cbn [apply_op]. destruct (handle_connect _ _ _ _ _ _ _ _ _). reflexivity.
Qed.

(* ---- the circuits of the monitor follow the relay's ------------------------------------------ *)
Lemma circ_step : forall c g s m t o tend, wf c -> SI c g s -> coupled c g s m -> time_ok (s_now s) t o tend ->
  let s' := fst (step c s t o tend) in
  let obs := snd (step c s t o tend) in
  let e := mkEv t o obs (snap_of c s') in
  s_now s' = tend -> Forall2 (crel c) (s_circs s') (snd (fst (fst (m_op c m e)))).
Proof.
  intros c g s m t o tend (_ & _ & _ & _ & W5 & W6) (I1 & I2 & I3 & I4 & I5) Cp (T1 & T2 & T3). cbv zeta. intros Nt.
  destruct (step_circs c s t o tend W5 W6) as (l1 & n & Hc & He & _ & Hn). cbv zeta in Hn.
  pose proof (crel_evo_list c _ _ _ (cp_circs _ _ _ _ Cp) He) as R1.
  destruct Hn as [[Hf ->] | (src & sa0 & dst & acl & dm & sm & dc & ci & -> & Hok & -> & Hid & Hob & Hs & Hd & Hl1 & Hl0)].
  - rewrite Hc, app_nil_r. destruct o; cbn [m_op e_op fst snd]; try exact R1.
    unfold ev_ob. cbn [e_obs]. cbn [is_connect_ok] in Hf. unfold conn_ok in Hf. rewrite Hf. cbn [andb]. exact R1.
  - rewrite Hc. cbn [m_op e_op fst snd]. unfold ev_ob. cbn [e_obs e_snap sn_t snap_of e_t].
    unfold conn_ok in Hok. rewrite Hok, Hob. cbn [andb].
    replace (0 <? zlength l1 + 1) with true by (symmetry; apply Z.ltb_lt; unfold zlength; lia).
    apply Forall2_app; [exact R1|]. constructor; [|constructor].
    unfold crel. cbn [mc_id mc_src mc_dst mc_t0 mc_t1]. rewrite Nt.
    replace (Z.max t (s_now s)) with t in Hl1 by lia.
    repeat split; try (symmetry; assumption); try assumption.
    + rewrite (Hl1 H). lia.
    + rewrite (Hl1 H). lia.
Qed.

(* ---- the operation clauses (CONNECT conditions, voucher) ------------------------------------- *)
Lemma dop_nil : forall c g s m t o tend, wf c -> SI c g s -> coupled c g s m -> op_ok c o ->
  time_ok (s_now s) t o tend ->
  let s' := fst (step c s t o tend) in
  let obs := snd (step c s t o tend) in
  let e := mkEv t o obs (snap_of c s') in
  snd (m_op c m e) = [].
Proof.
  intros c g s m t o tend (W1 & W) (I1 & I2 & I3 & I4 & I5) Cp Ok Tm. cbv zeta.
  pose proof (step_rsvp c s t o tend I3 W1 Tm) as F. cbv zeta in F.
  destruct F as (A3 & A2 & A1 & A4 & Nt & F).
  destruct o as [p k|p k|p k acl inj|src sa0 dst acl dm sm dc|id dir nb|id dir|id side|dt|]; try reflexivity.
  - (* RESERVE: the voucher *)
    cbn [m_op e_op snd]. unfold ev_ob. cbn [e_obs].
    destruct F as [_ [G | R]].
    + destruct G as (G1 & _ & _ & _ & G5 & G6 & G7 & G8 & _). rewrite G1, G5, G6, G7, G8, !Z.eqb_refl. reflexivity.
    + destruct R as (_ & R2 & _). apply Z.eqb_neq in R2. rewrite R2. reflexivity.
  - (* CONNECT *)
    cbn [m_op e_op snd]. unfold ev_ob. cbn [e_obs e_t].
    destruct ((nth 0 (snd (step c s t (OConnect src sa0 dst acl dm sm dc) tend)) 0 =? ST_OK)
              || (nth 1 (snd (step c s t (OConnect src sa0 dst acl dm sm dc) tend)) 0 =? ST_OK)) eqn:Eok; [|reflexivity].
    cbn [andb]. rewrite step_obs_connect in Eok. set (sa := advance_to c s t) in *.
    destruct (handle_connect c sa src (nk sa0) dst acl dm sm (nk (dc - 1) + 1)) as [sb ob] eqn:Eh. cbn [snd] in Eok.
    assert (Hok : nth 0 ob 0 = ST_OK \/ nth 1 ob 0 = ST_OK).
    { apply orb_true_iff in Eok. destruct Eok as [E|E]; apply Z.eqb_eq in E; auto. }
    destruct (connect_only_if_l c sa src (nk sa0) dst acl dm sm (nk (dc - 1) + 1) sb ob Eh Hok) as (C1 & C2 & C3 & C4 & C5 & _).
    destruct Ok as [Os Od].
    (* the destination holds a reservation in the monitor's table *)
    pose proof (h1_rel c g s m t Cp A4 dst (mkEv t (OConnect src sa0 dst acl dm sm dc) (snd (step c s t (OConnect src sa0 dst acl dm sm dc) tend)) (snap_of c (fst (step c s t (OConnect src sa0 dst acl dm sm dc) tend)))) Od eq_refl) as Hd.
    fold sa in Hd. unfold hrel in Hd.
    destruct (m_h1 m _ dst) as [r|]; [|contradiction].
    destruct Hd as (_ & _ & _ & Hrel). rewrite Hrel. cbn [negb andb].
    rewrite addr_of_nk in C2. rewrite C2, C3. cbn [negb andb].
    (* the monitor's count is a lower bound of the relay's counters *)
    assert (Cnt : forall p, mcount c (m_circs m) (m_last m) t p <= s_conns sa p).
    { intros p. assert (Ia : cinv c sa) by (apply advance_cinv; exact I1). destruct Ia as (Ia & _). rewrite Ia.
      replace (cnt p (s_circs sa) + 0) with (cnt p (s_circs sa)) by lia.
      rewrite (cp_last _ _ _ _ Cp).
      apply (mcount_le_cnt c p _ t (s_circs s) (m_circs m) (s_circs sa) (cp_circs _ _ _ _ Cp)).
      - unfold sa, advance_to. cbv zeta. destruct Tm as (T1 & _). replace (Z.max t (s_now s)) with t by lia.
        match goal with |- Forall2 _ _ (s_circs (set_now (if ?b then _ else _) _)) => destruct b end; cbn [set_now gc set_rtag set_rsvp s_circs];
          apply kill_where_circs.
      - intros ci Hin. destruct I4 as (_ & Ids & _). apply (alive_in_ids _ 1 ci Ids Hin). }
    pose proof (Cnt src). pose proof (Cnt dst).
    replace (mcount c (m_circs m) (m_last m) t src <? c_maxcirc c) with true by (symmetry; apply Z.ltb_lt; lia).
    replace (mcount c (m_circs m) (m_last m) t dst <? c_maxcirc c) with true by (symmetry; apply Z.ltb_lt; lia).
    reflexivity.
Qed.

(* ---- one event: no diagnostic, coupling kept ---------------------------------------------------- *)
Lemma mon_step_ok : forall c g s m t o tend, wf c -> SI c g s -> coupled c g s m -> op_ok c o ->
  time_ok (s_now s) t o tend ->
  let s' := fst (step c s t o tend) in
  let obs := snd (step c s t o tend) in
  let e := mkEv t o obs (snap_of c s') in
  snd (mon_step c m e) = [] /\ coupled c (gupd c g o obs) s' (fst (mon_step c m e)).
Proof.
  intros c g s m t o tend Wf Si Cp Ok Tm. cbv zeta.
  pose proof (held_step c g s m t o tend Wf Si Cp Ok Tm) as Hh. cbv zeta in Hh.
  pose proof (dop_nil c g s m t o tend Wf Si Cp Ok Tm) as Hd. cbv zeta in Hd.
  pose proof (SI_step c g s t o tend Wf Si) as Si'.
  pose proof (step_rsvp c s t o tend (proj1 (proj2 (proj2 Si))) (proj1 Wf) Tm) as F. cbv zeta in F.
  destruct F as (_ & _ & _ & _ & Nt & Fo).
  pose proof (circ_step c g s m t o tend Wf Si Cp Tm Nt) as Hc. cbv zeta in Hc.
  set (s' := fst (step c s t o tend)) in *. set (obs := snd (step c s t o tend)) in *.
  set (e := mkEv t o obs (snap_of c s')) in *. set (g' := gupd c g o obs) in *.
  destruct Si' as (J1 & J2 & J3 & J4 & J5).
  destruct Wf as (W1 & W2 & W3 & W4 & W5 & W6).
  unfold mon_step. destruct (m_op c m e) as [[[h2 mcs] cl] dop] eqn:Em. cbn [fst snd] in *.
  destruct Hh as [Hcl Hh4]. subst dop.
  set (h4 := m_h4 m e cl h2) in *.
  assert (Esn : e_snap e = snap_of c s') by reflexivity.
  (* lifecycle *)
  assert (D1 : d_life c (e_snap e) h4 = []).
  { apply first_bad_nil. intros x Hin. apply in_map_iff in Hin. destruct Hin as (p & <- & Hp). cbn [snd].
    apply in_peers_of in Hp. specialize (Hh4 p Hp). rewrite Esn, (ps_rexp_snap c s' p Hp).
    destruct (h4 p) as [r|]; [apply orb_true_r|]. unfold hrel in Hh4. rewrite Hh4. reflexivity. }
  (* caps *)
  assert (D2 : d_caps c e h4 = []).
  { unfold d_caps. destruct o as [p k|p k|p k acl inj|src sa0 dst acl dm sm dc|id dir nb|id dir|id side|dt|]; try reflexivity.
    cbn [e e_op]. destruct (ev_ob e 1 =? 1) eqn:Eg; [|reflexivity].
    unfold ev_ob in Eg. cbn [e e_obs] in Eg. apply Z.eqb_eq in Eg.
    destruct (caps_of_kinv c g' s' J2) as (K1 & K2 & K3).
    cbn [e_snap e sn_t snap_of].
    assert (Gp : g' p = addr_of c p k).
    { unfold g', gupd. fold obs. rewrite Eg. change (1 =? 1) with true. cbn iota. rewrite upd_same. apply addr_of_nk. }
    rewrite (count_held_holders c g' s' h4 _ (fun _ => true) Hh4) by (intros q r _ _; rewrite andb_true_r; reflexivity).
    rewrite (count_held_holders c g' s' h4 _ (fun q => a_ip (g' q) =? a_ip (addr_of c p k)) Hh4).
    2:{ intros q r Hq Hr. specialize (Hh4 q Hq). unfold hrel in Hh4. rewrite Hr in Hh4. destruct Hh4 as (_ & Hi & _). rewrite Hi. reflexivity. }
    replace (zlength (holders c s' (fun _ => true)) <=? c_maxrsvp c) with true by (symmetry; apply Z.leb_le; exact K1).
    replace (zlength (holders c s' (fun q => a_ip (g' q) =? a_ip (addr_of c p k))) <=? c_maxip c) with true
      by (symmetry; apply Z.leb_le; apply K2).
    cbn [andb]. destruct (a_asn (addr_of c p k) =? 0) eqn:Ea; [reflexivity|]. cbn [orb].
    rewrite (count_held_holders c g' s' h4 _ (fun q => a_asn (g' q) =? a_asn (addr_of c p k)) Hh4).
    2:{ intros q r Hq Hr. specialize (Hh4 q Hq). unfold hrel in Hh4. rewrite Hr in Hh4. destruct Hh4 as (_ & _ & Hi & _). rewrite Hi. reflexivity. }
    apply Z.eqb_neq in Ea.
    replace (zlength (holders c s' (fun q => a_asn (g' q) =? a_asn (addr_of c p k))) <=? c_maxasn c) with true
      by (symmetry; apply Z.leb_le; apply K3; exact Ea).
    reflexivity. }
  (* counters, tags, memory *)
  assert (Ids : idsfrom 1 (s_circs s')) by apply J4.
  assert (Al : forall ci, In ci (s_circs s') -> alive_in (map csnap_of (s_circs s')) (ci_id ci) = ci_open ci)
    by (intros ci Hin; apply (alive_in_ids _ 1 ci Ids Hin)).
  assert (D3 : d_rest c (e_snap e) mcs cl = []).
  { unfold d_rest. apply first_bad_nil. intros x Hin. apply in_app_or in Hin. destruct Hin as [Hin | [<- | []]].
    - apply in_map_iff in Hin. destruct Hin as (p & <- & Hp). cbn [snd]. apply in_peers_of in Hp.
      rewrite Esn, (ps_at_snap c s' p Hp). cbn [psnap_of ps_conns ps_htag ps_rexp ps_rtag snap_of sn_circs].
      destruct J1 as (C1 & _ & C3 & _).
      rewrite (mcount_now_cnt c p _ (s_circs s') mcs Hc Al), C1. replace (cnt p (s_circs s') + 0) with (cnt p (s_circs s')) by lia.
      rewrite Z.eqb_refl. cbn [andb]. apply andb_true_iff. split.
      + destruct (s_htag s' p) eqn:Eh; [|apply orb_true_r]. apply C3 in Eh. rewrite C1 in Eh.
        replace (0 <? cnt p (s_circs s')) with true by (symmetry; apply Z.ltb_lt; lia). reflexivity.
      + destruct (s_rtag s' p) eqn:Er; [|apply orb_true_r]. apply J5 in Er.
        destruct (s_rsvp s' p) as [ex|] eqn:Ev; [|contradiction].
        destruct J3 as (_ & L2 & _). specialize (L2 p ex Ev). pose proof (last_tick_nonneg (s_now s') (proj1 J4)).
        replace (0 <=? ex) with true by (symmetry; apply Z.leb_le; lia). reflexivity.
    - cbn [snd]. rewrite Hcl. destruct (s_closed s') eqn:Ec; [reflexivity|]. cbn [orb].
      rewrite Esn. cbn [snap_of sn_mem sn_circs]. destruct J1 as (_ & _ & _ & C4).
      rewrite (C4 Ec), nalive_nopenl. apply Z.eqb_eq. lia. }
  (* limits *)
  assert (D4 : d_lim c (e_snap e) mcs = []).
  { unfold d_lim. apply first_bad_nil. intros x Hin. apply in_map_iff in Hin. destruct Hin as (y & <- & Hy). cbn [snd].
    rewrite Esn in Hy. cbn [snap_of sn_circs] in Hy. apply in_map_iff in Hy. destruct Hy as (ci & <- & Hci).
    destruct J4 as (N & _ & Fk). rewrite Forall_forall in Fk. specialize (Fk ci Hci).
    destruct (c_limited c) eqn:El; [|cbn [negb orb andb]; rewrite orb_true_r; reflexivity]. cbn [negb orb]. destruct (Fk El) as (B1 & B2 & B3).
    change (cs_rxab (csnap_of ci)) with (ci_fab ci). change (cs_rxba (csnap_of ci)) with (ci_fba ci).
    replace (ci_fab ci <=? c_limdata c) with true by (symmetry; apply Z.leb_le; exact B1).
    replace (ci_fba ci <=? c_limdata c) with true by (symmetry; apply Z.leb_le; exact B2).
    cbn [andb]. rewrite cs_alive_open. destruct (ci_open ci) eqn:Eo; [|reflexivity]. cbn [negb orb].
    destruct (find_mc_ids c _ mcs 1 ci Hc Ids Hci) as (mc & Hf & (_ & _ & _ & _ & R5)).
    change (cs_id (csnap_of ci)) with (ci_id ci). rewrite Hf.
    destruct (R5 El Eo) as [_ Hu]. destruct (B3 eq_refl) as [_ Hlt]. rewrite Esn. cbn [snap_of sn_t].
    apply Z.ltb_lt. lia. }
  split.
  - rewrite D1, D2, D3, D4. reflexivity.
  - constructor; cbn [m_now m_closed m_conn m_held m_last m_circs].
    + reflexivity.
    + exact Hcl.
    + intros p Hp. rewrite Esn. apply ps_conn_snap. exact Hp.
    + intros p Hp. specialize (Hh4 p Hp). unfold m_h5. fold h4. destruct (h4 p) as [r|]; [exact Hh4|].
      unfold hrel in Hh4. rewrite Esn, (ps_rexp_snap c s' p Hp), Hh4. reflexivity.
    + reflexivity.
    + exact Hc.
Qed.

(* ---- every history ----------------------------------------------------------------------------- *)
(* peers named by the operations are among 1..n; the (virtual) clock is monotone, every
   operation takes at least 1 ms and a time step ends before its snapshot *)
Fixpoint ops_ok (c : cfg) (now : Z) (ops : list (Z * op * Z)) : Prop :=
  match ops with
  | [] => True
  | (t, o, tend) :: r => op_ok c o /\ time_ok now t o tend /\ ops_ok c tend r
  end.

Lemma mon_run_ok : forall c ops g s m i, wf c -> SI c g s -> coupled c g s m -> ops_ok c (s_now s) ops ->
  mon_run c m i (model_trace c s ops) = [].
Proof.
  intros c ops. induction ops as [|[[t o] tend] r IH]; intros g s m i Wf Si Cp Ok; [reflexivity|].
  destruct Ok as (Oo & Ot & Or). cbn [model_trace].
  pose proof (mon_step_ok c g s m t o tend Wf Si Cp Oo Ot) as H. cbv zeta in H.
  pose proof (SI_step c g s t o tend Wf Si) as Si'.
  pose proof (step_rsvp c s t o tend (proj1 (proj2 (proj2 Si))) (proj1 Wf) Ot) as F. cbv zeta in F.
  destruct F as (_ & _ & _ & _ & Nt & _).
  destruct (step c s t o tend) as [s' obs]. cbn [fst snd] in *. cbn [mon_run].
  destruct H as [Hd Hc]. destruct (mon_step c m (mkEv t o obs (snap_of c s'))) as [m' d]. cbn [fst snd] in *. subst d.
  apply (IH (gupd c g o obs) s' m' (i + 1) Wf Si' Hc). rewrite Nt. exact Or.
Qed.

Theorem monitor_accepts_model_l : forall c ops, wf c -> ops_ok c 0 ops ->
  monitor c (model_trace c init_st ops) = [].
Proof.
  intros c ops Wf Ok. unfold monitor.
  apply (mon_run_ok c ops (fun _ => addr0) init_st mon_init 0 Wf (SI_init c _ Wf) (coupled_init c _)). exact Ok.
Qed.

Lemma SI_run : forall c ops g s, wf c -> SI c g s -> exists g', SI c g' (run c s ops).
Proof.
  intros c ops. induction ops as [|[[t o] tend] r IH]; intros g s Wf Si; [exists g; exact Si|].
  cbn [run]. apply (IH (gupd c g o (snd (step c s t o tend))) _ Wf). apply SI_step; assumption.
Qed.

(* limited relay, every history: never more than Limit.Data forwarded per direction, and an
   open circuit is younger than Limit.Duration *)
Lemma limits_l : forall c ops, wf c ->
  let s := run c init_st ops in
  c_limited c = true -> forall ci, In ci (s_circs s) ->
  ci_fab ci <= c_limdata c /\ ci_fba ci <= c_limdata c /\ (ci_open ci = true -> s_now s < ci_dl ci).
Proof.
  intros c ops Wf s Hl ci Hin. destruct (SI_run c ops (fun _ => addr0) init_st Wf (SI_init c _ Wf)) as (g' & _ & _ & _ & (_ & _ & Fk) & _).
  fold s in Fk. rewrite Forall_forall in Fk. destruct (Fk ci Hin Hl) as (B1 & B2 & B3).
  refine (conj B1 (conj B2 _)). intros Ho. apply B3, Ho.
Qed.

(* every held reservation has a non-negative expiry (the clock starts at 0, TTL >= 0) *)
Lemma rsvp_nonneg_l : forall c ops, wf c ->
  let s := run c init_st ops in forall p e, s_rsvp s p = Some e -> 0 <= e.
Proof.
  intros c ops Wf s p e H. destruct (SI_run c ops (fun _ => addr0) init_st Wf (SI_init c _ Wf)) as (g' & _ & _ & (_ & L2 & _) & (N & _) & _).
  fold s in L2, N. specialize (L2 p e H). pose proof (last_tick_nonneg (s_now s) N). lia.
Qed.

(* C11 — client-side voucher acceptance, on top of C08's envelope theorems and the
   ideal-signature interface of c08.SymCrypto. *)
From Coq Require Import List NArith ZArith Bool.
From Verif Require Import c08.SymCrypto c08.Model c08.Proofs c08.Proofs_Env gen.Consts_c11 c11.ClientModel.
Import ListNotations.

Section ClientProofs.
  Variable K : Type.
  Variable key_dec : N -> bytes -> option K.
  Variable verify : K -> bytes -> bytes -> bool.
  Variable id_of : K -> bytes.
  Variable dec_voucher : bytes -> option voucher.
  (* the ideal signature scheme of SymCrypto (Part 1): a value verifies for exactly the
     (key, message) it was issued for *)
  Variable origin : bytes -> option (K * bytes).
  Hypothesis verify_ideal : forall k m s, verify k m s = true <-> origin s = Some (k, m).

  Notation check := (check_voucher K key_dec verify id_of dec_voucher).
  Notation reserve := (client_reserve K key_dec verify id_of dec_voucher).

  (* an accepted voucher: the bytes decode to an envelope whose signature was issued by
     the key k for exactly makeUnsigned(RecordDomain, RecordCodec, payload); the payload
     decodes to the voucher; voucher.Relay is the ID of that signing key and voucher.Peer
     is the client itself *)
  Theorem voucher_binds_l : forall self vb rel pr ex,
    check self vb = VAccept (rel, pr, ex) ->
    exists b k e, vb = Some b /\ unmarshal_envelope K key_dec b = Some (k, e) /\
      e_pt e = RecordCodec /\ dec_voucher (e_pl e) = Some (rel, pr, ex) /\
      origin (e_sg e) = Some (k, make_unsigned RecordDomain RecordCodec (e_pl e)) /\
      rel = id_of k /\ pr = self.
  Proof.
    intros self vb rel pr ex H. unfold check_voucher in H.
    destruct vb as [b|]; [|discriminate].
    destruct (consume K key_dec verify b RecordDomain) as [k pt pl| |] eqn:Ec; try discriminate.
    destruct (negb (bytes_eqb pt RecordCodec)) eqn:Et; [discriminate|].
    destruct (dec_voucher pl) as [[[r1 p1] e1]|] eqn:Ed; [|discriminate].
    destruct (negb (bytes_eqb (id_of k) r1)) eqn:Er; [discriminate|].
    destruct (negb (bytes_eqb self p1)) eqn:Ep; [discriminate|].
    inversion H; subst r1 p1 e1.
    apply negb_false_iff, bytes_eqb_eq in Et. apply negb_false_iff, bytes_eqb_eq in Er.
    apply negb_false_iff, bytes_eqb_eq in Ep. subst pt.
    apply (consume_accept_iff K key_dec verify origin verify_ideal) in Ec.
    destruct Ec as (e & U & Ht & Hp & Ho). subst pl.
    exists b, k, e. repeat split; try assumption; try (symmetry; assumption).
  Qed.

  (* if the signature in the envelope was produced by sealing (d0, t0, p0) with k0, an
     accepted voucher is exactly that sealed content under the voucher domain and codec:
     nothing sealed for another domain, another record type or by another key passes *)
  Theorem voucher_sealed_l : forall self b k e k0 d0 t0 p0 rel pr ex,
    unmarshal_envelope K key_dec b = Some (k, e) -> sealed_with K origin (e_sg e) k0 d0 t0 p0 ->
    check self (Some b) = VAccept (rel, pr, ex) ->
    d0 = RecordDomain /\ t0 = RecordCodec /\ dec_voucher p0 = Some (rel, pr, ex) /\
    rel = id_of k0 /\ pr = self.
  Proof.
    intros self b k e k0 d0 t0 p0 rel pr ex U S H.
    destruct (voucher_binds_l self (Some b) rel pr ex H) as (b' & k' & e' & Hb & U' & Ht & Hd & Ho & Hr & Hp).
    inversion Hb; subst b'. rewrite U in U'. inversion U'; subst k' e'.
    unfold sealed_with in S. rewrite S in Ho. inversion Ho as [[Hk Hm]]. subst k0.
    apply make_unsigned_injective_l in Hm. destruct Hm as (Hd0 & Ht0 & Hp0). subst d0 t0 p0.
    repeat split; assumption.
  Qed.

  (* the signature value of an accepted voucher verifies for nothing else (SymCrypto.sig_exact) *)
  Theorem voucher_sig_exact_l : forall self b k e rel pr ex k' m',
    unmarshal_envelope K key_dec b = Some (k, e) -> check self (Some b) = VAccept (rel, pr, ex) ->
    verify k' m' (e_sg e) = true -> k' = k /\ m' = make_unsigned RecordDomain RecordCodec (e_pl e).
  Proof.
    intros self b k e rel pr ex k' m' U H V.
    destruct (voucher_binds_l self (Some b) rel pr ex H) as (b' & k2 & e2 & Hb & U' & _ & _ & Ho & _).
    inversion Hb; subst b'. rewrite U in U'. inversion U'; subst k2 e2.
    apply verify_ideal in Ho.
    exact (sig_exact K bytes bytes verify origin verify_ideal k' m' k _ (e_sg e) V Ho).
  Qed.

  (* Reserve() returns a reservation only for a STATUS/OK message carrying a reservation
     that has not expired; a voucher, when present, satisfies voucher_binds *)
  Theorem reserve_ok_l : forall self now r ex v lim,
    reserve self now r = CROk ex v lim ->
    r_type r = 2%Z /\ r_status r = 100%Z /\ r_has_rsvp r = true /\ (now <= r_expire r)%Z /\ ex = r_expire r /\
    match v with
    | Some vv => check self (r_voucher r) = VAccept vv
    | None => r_voucher r = None
    end.
  Proof.
    intros self now r ex v lim H. unfold client_reserve in H.
    destruct (negb (r_type r =? 2)%Z) eqn:E1; [discriminate|].
    destruct (negb (r_status r =? 100)%Z) eqn:E2; [discriminate|].
    destruct (negb (r_has_rsvp r)) eqn:E3; [discriminate|].
    destruct (r_expire r <? now)%Z eqn:E4; [discriminate|].
    apply negb_false_iff, Z.eqb_eq in E1. apply negb_false_iff, Z.eqb_eq in E2.
    apply negb_false_iff in E3. apply Z.ltb_ge in E4.
    destruct (check self (r_voucher r)) as [|vv|w] eqn:Ec; inversion H; subst.
    - repeat split; try assumption. unfold check_voucher in Ec. destruct (r_voucher r); [|reflexivity].
      destruct (consume _ _ _ _ _); try discriminate.
      destruct (negb _); [discriminate|]. destruct (dec_voucher _) as [[[? ?] ?]|]; [|discriminate].
      destruct (negb _); [discriminate|]. destruct (negb _); discriminate.
    - repeat split; assumption.
  Qed.
End ClientProofs.

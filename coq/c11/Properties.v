(* C11 — property theorems only.  Each is closed by [exact] of a lemma from the
   Proofs_* files and followed by Print Assumptions. *)
From Coq Require Import List ZArith Bool.
From Verif Require Import lib.Wire gen.Consts_c11 c11.Model c11.Spec c11.Proofs c11.Proofs_Cnt c11.Proofs_Caps c11.Proofs_Life
  c11.Proofs_Circ c11.Proofs_Rsv c11.Proofs_Mon.
From Verif Require c08.Varint c08.SymCrypto c08.Model c08.Proofs c08.Proofs_Env c11.ClientModel c11.SpecClient c11.Proofs_Client
  c11.VoucherModel c11.Proofs_Voucher.
Import ListNotations.
Local Open Scope Z_scope.

(* 0. THE headline: the very monitor that judges the implementation's traces accepts every
   trace of the model — for every configuration with 0 <= TTL, caps, Limit.Data and
   0 < Limit.Duration, and every history whose operations name peers among 1..n and whose
   (virtual) clock is monotone with every operation lasting >= 1 ms (ops_ok; the same
   condition is checked on every recorded event by conform_case: ev_okb).  Proof: coupling
   invariant between the monitor's own bookkeeping (reservations with grant address,
   circuits with opening window, connectivity, clock) and the model state, using the
   invariants of theorems 2-5 and 7. *)
Theorem c11_monitor_accepts_model : forall c ops, wf c -> ops_ok c 0 ops ->
  monitor c (model_trace c init_st ops) = [].
Proof. exact monitor_accepts_model_l. Qed.
Print Assumptions c11_monitor_accepts_model.

(* 1. the relay reports OK for a CONNECT only if the destination holds a reservation,
   the source did not reach the relay through another relay, the ACL permits it and
   neither party already has MaxCircuits circuits (a relayed peer never holds a
   reservation: handleReserve refuses it, see c11_no_reservation_over_relay) *)
Theorem c11_connect_only_if : forall c s src sa dst acl dm sm dc s' obs,
  handle_connect c s src sa dst acl dm sm dc = (s', obs) ->
  (nth 0 obs 0 = ST_OK \/ nth 1 obs 0 = ST_OK) ->
  s_rsvp s dst <> None /\ a_relayed (addr_of c src sa) = false /\ acl = true /\
  s_conns s src < c_maxcirc c /\ s_conns s dst < c_maxcirc c /\
  s_link s src sa = true /\ s_closed s = false.
Proof. exact connect_only_if_l. Qed.
Print Assumptions c11_connect_only_if.

(* 2. however a reservation or circuit attempt ends — for EVERY history of opens,
   closes, RESERVE/CONNECT requests with any failure injected, data, half-closes,
   resets, time and Relay.Close — the circuit counters are exactly the number of
   open circuits of the peer, a peer without open circuit carries no hop tag, and
   the memory reserved in the service scope is 2*BufferSize per open circuit *)
Theorem c11_counters_restored : forall c ops,
  let s := run c init_st ops in
  (forall p, s_conns s p = cnt p (s_circs s)) /\
  (forall p, cnt p (s_circs s) = 0 -> s_htag s p = false) /\
  (s_closed s = false -> s_mem s = 2 * c_buf c * nopenl (s_circs s)).
Proof. exact counters_restored_l. Qed.
Print Assumptions c11_counters_restored.

(* 3. reservations disappear at the first collection after they expired, and all of
   them when the relay is closed — every history *)
Theorem c11_expired_collected : forall c ops, 0 <= c_ttl c ->
  let s := run c init_st ops in
  (forall p e, s_rsvp s p = Some e -> last_tick (s_now s) <= e) /\
  (s_closed s = true -> forall p, s_rsvp s p = None).
Proof. exact expired_collected_l. Qed.
Print Assumptions c11_expired_collected.

(* 4. a peer without connection holds no reservation — every history, including a
   RESERVE that races with the peer's own disconnect (fix 6afff63; before it this was
   refuted by the history below, which is now a corpus case that must pass) *)
Theorem c11_gone_on_disconnect : forall c ops, 0 <= c_ttl c ->
  let s := run c init_st ops in forall p, connected s p = false -> s_rsvp s p = None.
Proof. exact gone_on_disconnect_l. Qed.
Print Assumptions c11_gone_on_disconnect.

Definition a4 (ip : Z) : addr := mkAddr ip 0 false false.
Definition wit_cfg : cfg :=
  mkCfg 600000 4 2 1 2 1024 true 100 30000 1073741824 100 3
        [(a4 1, a4 2); (a4 1, a4 3); (a4 2, a4 4)].

Definition race_history : list (Z * op * Z) :=
  [(0, OOpen 2 0, 3); (3, OReserve 2 0 true 2, 9)].

Example corpus_race_fixed :
  s_rsvp (run wit_cfg init_st race_history) 2 = None /\ monitor wit_cfg (model_trace wit_cfg init_st race_history) = [].
Proof. vm_compute. split; reflexivity. Qed.

(* 5. caps: among the peers 1..n, the holders of a live reservation number at most
   MaxReservations, at most MaxReservationsPerIP per IP and MaxReservationsPerASN per ASN,
   where a reservation counts under the address it was granted from (the ghost map g
   of grun: updated at every granted RESERVE) — every history, no hypothesis on addresses
   (fix 648cd92; before it refuted by refresh_history below, now a corpus case) *)
Theorem c11_caps_respected : forall c ops,
  0 <= c_maxrsvp c -> 0 <= c_maxip c -> 0 <= c_maxasn c ->
  let s := fst (grun c init_st (fun _ => addr0) ops) in
  let g := snd (grun c init_st (fun _ => addr0) ops) in
  s = run c init_st ops /\
  zlength (holders c s (fun _ => true)) <= c_maxrsvp c /\
  (forall i, zlength (holders c s (fun p => a_ip (g p) =? i)) <= c_maxip c) /\
  (forall a, a <> 0 -> zlength (holders c s (fun p => a_asn (g p) =? a)) <= c_maxasn c).
Proof. exact caps_l. Qed.
Print Assumptions c11_caps_respected.

Definition refresh_history : list (Z * op * Z) :=
  [(0, OOpen 1 0, 3); (3, OOpen 1 1, 6); (6, OOpen 2 0, 9); (9, OOpen 3 0, 12);
   (12, OReserve 3 0 true 0, 18); (18, OReserve 1 0 true 0, 24);
   (24, OReserve 1 1 true 0, 30); (30, OReserve 2 0 true 0, 36)].

(* the refused refresh keeps peer 1's slot on IP 1, so peer 2 is refused there *)
Example corpus_refresh_fixed :
  s_rsvp (run wit_cfg init_st refresh_history) 2 = None /\
  s_rsvp (run wit_cfg init_st refresh_history) 1 <> None /\
  monitor wit_cfg (model_trace wit_cfg init_st refresh_history) = [].
Proof. vm_compute. repeat split; try reflexivity. discriminate. Qed.

(* 6. a relayed connection never obtains a reservation *)
Theorem c11_no_reservation_over_relay : forall c s p k acl inj,
  a_relayed (addr_of c p k) = true -> fst (handle_reserve c s p k acl inj) = s.
Proof.
  intros c s p k acl inj H. unfold handle_reserve.
  destruct (negb (s_link s p k) || s_closed s); [reflexivity|].
  destruct (negb (mem_ok_always c (s_mem s) maxMessageSize)); [reflexivity|]. rewrite H. reflexivity.
Qed.
Print Assumptions c11_no_reservation_over_relay.

(* 7. limited relay, every history: at most Limit.Data bytes forwarded in each direction, and a
   circuit that is still open is younger than Limit.Duration (its deadline, opening time +
   Limit.Duration, is in the future) *)
Theorem c11_limits : forall c ops, wf c ->
  let s := run c init_st ops in
  c_limited c = true -> forall ci, In ci (s_circs s) ->
  ci_fab ci <= c_limdata c /\ ci_fba ci <= c_limdata c /\ (ci_open ci = true -> s_now s < ci_dl ci).
Proof. exact limits_l. Qed.
Print Assumptions c11_limits.

(* 8. the voucher of a granted RESERVE, at byte level (C08's Varint/Protobuf/envelope library)
   and for every IDEAL signature scheme (c08.SymCrypto Part 1: verify k m s <-> origin s = (k,m),
   signing issues a value for exactly (key, message)), every key marshalling the unmarshallers
   read back, and peer IDs that are multihashes:  the blob the relay model puts into its answer is
   an envelope SEALED BY THE RELAY'S KEY over proto.RecordDomain ("libp2p-relay-rsvp") and
   proto.RecordCodec whose payload decodes to exactly (relay = this relay's ID, peer = the reserving
   peer's ID, expiration = the reservation's expiry in unix seconds); the reserving peer's
   client.Reserve accepts it with those fields; and ANY envelope a client accepts that carries the
   signature issued for this reservation has exactly those fields (and that client is the reserving
   peer, the signer the relay).  0 <= e holds for every history (c11_expired_collected, clock >= 0);
   e/1000 < 2^64 is the uint64 range of the wire field.  The harness still checks the real
   crypto (record.ConsumeEnvelope, signer = relay key) on every grant. *)
Local Notation bytes := c08.Model.bytes.
Theorem c11_voucher_sealed :
  forall (K : Type) (sign : K -> bytes -> bytes) (key_type : K -> N) (key_data id_of : K -> bytes)
         (key_dec : N -> bytes -> option K) (verify : K -> bytes -> bytes -> bool)
         (origin : bytes -> option (K * bytes)),
  (forall k m s, verify k m s = true <-> origin s = Some (k, m)) ->
  (forall k m, origin (sign k m) = Some (k, m)) ->
  (forall k m, (c08.Varint.nlen (sign k m) < 2 ^ 64)%N) ->
  (forall k, c08.Model.key_type_ok (key_type k) = true /\ key_dec (key_type k) (key_data k) = Some k /\
             (key_type k < 2 ^ 32)%N /\ (c08.Varint.nlen (key_data k) < 2 ^ 63)%N) ->
  (forall k, Proofs_Voucher.id_ok (id_of k)) ->
  forall (rk : K) (peer_id : Z -> bytes), (forall p, Proofs_Voucher.id_ok (peer_id p)) ->
  forall c s p k acl inj s' obs,
    handle_reserve c s p k acl inj = (s', obs) -> nth 0 obs 0 = ST_OK ->
    exists e vb,
      s_rsvp s' p = Some e /\
      VoucherModel.issued_voucher K sign key_type key_data id_of rk peer_id obs = Some vb /\
      (0 <= e -> e / 1000 < 2 ^ 64 ->
       let E := Z.to_N (e / 1000) in
       c08.Model.consume K key_dec verify vb ClientModel.RecordDomain =
         c08.Model.CAccept rk ClientModel.RecordCodec (VoucherModel.voucher_payload K id_of rk (peer_id p) E) /\
       c08.Model.voucher_fields (VoucherModel.voucher_payload K id_of rk (peer_id p) E) = Some (id_of rk, peer_id p, E) /\
       ClientModel.check_voucher K key_dec verify id_of VoucherModel.dec_voucher_pb (peer_id p) (Some vb) =
         ClientModel.VAccept (id_of rk, peer_id p, e / 1000) /\
       (nth 5 obs 0 = p /\ nth 6 obs 0 = Z.of_N E * 1000) /\
       forall self b k0 en rel pr ex,
         c08.Model.unmarshal_envelope K key_dec b = Some (k0, en) ->
         c08.Model.e_sg en = sign rk (c08.Model.make_unsigned ClientModel.RecordDomain ClientModel.RecordCodec
                                        (VoucherModel.voucher_payload K id_of rk (peer_id p) E)) ->
         ClientModel.check_voucher K key_dec verify id_of VoucherModel.dec_voucher_pb self (Some b) = ClientModel.VAccept (rel, pr, ex) ->
         rel = id_of rk /\ pr = peer_id p /\ ex = e / 1000 /\ self = peer_id p /\ k0 = rk).
Proof. exact Proofs_Voucher.voucher_of_grant_l. Qed.
Print Assumptions c11_voucher_sealed.

Theorem c11_expiry_nonneg : forall c ops, wf c ->
  let s := run c init_st ops in forall p e, s_rsvp s p = Some e -> 0 <= e.
Proof. exact rsvp_nonneg_l. Qed.
Print Assumptions c11_expiry_nonneg.

(* 9. CLIENT side (client/reservation.go), for every key decoder, peer-ID derivation, voucher
   decoder and every IDEAL signature scheme (the interface of c08.SymCrypto Part 1, shown
   consistent there by the free term algebra): client.Reserve accepts a voucher only if the
   bytes are an envelope whose signature was issued by a key k for exactly
   makeUnsigned(proto.RecordDomain, proto.RecordCodec, payload), the payload decodes to the
   voucher, voucher.Relay is the peer ID of k and voucher.Peer is the client itself.
   (NOT checked by the code, hence not claimed: that k is the relay the client talked to;
   the voucher's own Expiration; that a voucher is present at all.) *)
Theorem c11_voucher_binds :
  forall (K : Type) (key_dec : N -> c08.Model.bytes -> option K) (verify : K -> c08.Model.bytes -> c08.Model.bytes -> bool)
         (id_of : K -> c08.Model.bytes) (dec_voucher : c08.Model.bytes -> option ClientModel.voucher)
         (origin : c08.Model.bytes -> option (K * c08.Model.bytes)),
  (forall k m s, verify k m s = true <-> origin s = Some (k, m)) ->
  forall self vb rel pr ex,
    ClientModel.check_voucher K key_dec verify id_of dec_voucher self vb = ClientModel.VAccept (rel, pr, ex) ->
    exists b k e, vb = Some b /\ c08.Model.unmarshal_envelope K key_dec b = Some (k, e) /\
      c08.Model.e_pt e = ClientModel.RecordCodec /\ dec_voucher (c08.Model.e_pl e) = Some (rel, pr, ex) /\
      origin (c08.Model.e_sg e) = Some (k, c08.Model.make_unsigned ClientModel.RecordDomain ClientModel.RecordCodec (c08.Model.e_pl e)) /\
      rel = id_of k /\ pr = self.
Proof. exact Proofs_Client.voucher_binds_l. Qed.
Print Assumptions c11_voucher_binds.

(* nothing sealed for another domain, another record type or by another key is accepted *)
Theorem c11_voucher_only_sealed_content :
  forall (K : Type) (key_dec : N -> c08.Model.bytes -> option K) (verify : K -> c08.Model.bytes -> c08.Model.bytes -> bool)
         (id_of : K -> c08.Model.bytes) (dec_voucher : c08.Model.bytes -> option ClientModel.voucher)
         (origin : c08.Model.bytes -> option (K * c08.Model.bytes)),
  (forall k m s, verify k m s = true <-> origin s = Some (k, m)) ->
  forall self b k e k0 d0 t0 p0 rel pr ex,
    c08.Model.unmarshal_envelope K key_dec b = Some (k, e) ->
    c08.Proofs_Env.sealed_with K origin (c08.Model.e_sg e) k0 d0 t0 p0 ->
    ClientModel.check_voucher K key_dec verify id_of dec_voucher self (Some b) = ClientModel.VAccept (rel, pr, ex) ->
    d0 = ClientModel.RecordDomain /\ t0 = ClientModel.RecordCodec /\ dec_voucher p0 = Some (rel, pr, ex) /\
    rel = id_of k0 /\ pr = self.
Proof. exact Proofs_Client.voucher_sealed_l. Qed.
Print Assumptions c11_voucher_only_sealed_content.

(* Reserve() yields a reservation only for STATUS/OK with an unexpired reservation *)
Theorem c11_client_reserve_ok :
  forall (K : Type) (key_dec : N -> c08.Model.bytes -> option K) (verify : K -> c08.Model.bytes -> c08.Model.bytes -> bool)
         (id_of : K -> c08.Model.bytes) (dec_voucher : c08.Model.bytes -> option ClientModel.voucher)
         self now r ex v lim,
    ClientModel.client_reserve K key_dec verify id_of dec_voucher self now r = ClientModel.CROk ex v lim ->
    ClientModel.r_type r = 2 /\ ClientModel.r_status r = 100 /\ ClientModel.r_has_rsvp r = true /\
    now <= ClientModel.r_expire r /\ ex = ClientModel.r_expire r /\
    match v with
    | Some vv => ClientModel.check_voucher K key_dec verify id_of dec_voucher self (ClientModel.r_voucher r) = ClientModel.VAccept vv
    | None => ClientModel.r_voucher r = None
    end.
Proof. exact Proofs_Client.reserve_ok_l. Qed.
Print Assumptions c11_client_reserve_ok.

(* ---- non-vacuity -------------------------------------------------------------------------- *)
(* the monitor accepts the model's trace of a happy history (reserve, connect, data up to
   the limit, duration limit) and rejects the refused-refresh history at the grant *)
Example monitor_accepts_happy :
  monitor wit_cfg (model_trace wit_cfg init_st
    [(0, OOpen 1 0, 3); (3, OOpen 3 0, 6); (6, OReserve 3 0 true 0, 12);
     (12, OConnect 1 0 3 true 0 0 1, 18); (18, OSend 1 0 99, 24); (24, OSend 1 0 5, 30);
     (30, OSend 1 1 100, 36); (36, OAdvance 40000, 40042)]) = [].
Proof. vm_compute. reflexivity. Qed.

(* a trace in which a second reservation is granted on a full IP is rejected *)
Example monitor_rejects_cap_overflow :
  monitor_case [1; 600000; 4; 2; 1; 2; 1024; 1; 100; 30000; 1073741824; 100; 2;  1; 0; 0; 2; 0; 0;  1; 0; 0; 3; 0; 0;
                10; 0; 1; 0;   3; 0; 0; 0;  -1; 0; 0; -1; 0; 0; 0; 0; 0; 0; 1; 0;  -1; 0; 0; -1; 0; 0; 0; 0; 0; 0; 0; 0;  0;
                10; 3; 2; 0;   6; 0; 0; 0;  -1; 0; 0; -1; 0; 0; 0; 0; 0; 0; 1; 0;  -1; 0; 0; -1; 0; 0; 0; 0; 0; 0; 1; 0;  0;
                12; 6; 1; 0; 1; 0;  100; 1; 100; 1; 1; 1; 600000; 600000;
                12; 0; 0; 0;  600006; 0; 1; 600006; 1; 1; 0; 0; 1; 0; 1; 0;  -1; 0; 0; -1; 0; 0; 0; 0; 0; 0; 1; 0;  0;
                12; 12; 2; 0; 1; 0;  100; 1; 100; 1; 1; 2; 600000; 600000;
                18; 0; 0; 0;  600006; 0; 1; 600006; 1; 1; 0; 0; 1; 0; 1; 0;  600012; 0; 1; 600012; 1; 1; 0; 0; 1; 0; 1; 0;  0]
  = [ERR_PROPERTY; 3; CL_CAPS; 2].
Proof. vm_compute. reflexivity. Qed.

(* a circuit reported OK towards a destination without reservation is rejected *)
Example monitor_rejects_connect_without_reservation :
  monitor_case [1; 600000; 4; 2; 1; 2; 1024; 1; 100; 30000; 1073741824; 100; 1;  1; 0; 0; 2; 0; 0;
                10; 0; 1; 0;   3; 0; 0; 0;  -1; 0; 0; -1; 0; 0; 0; 0; 0; 0; 1; 0;  0;
                13; 3; 1; 0; 1; 1; 0; 0; 1;  100; 100; 1;
                9; 2048; 1; 1;  -1; 2; 0; -1; 0; 0; 0; 0; 0; 1; 1; 0;  1;  1; 0; 0; 0; 0] <> [].
Proof. vm_compute. discriminate. Qed.

(* client monitor: a result carrying a voucher for another peer is rejected; the toy scheme
   used by the correspondence model is an ideal scheme *)
Example client_monitor_rejects_wrong_peer :
  monitor_case [2; 1000;  2; 100; 1; 5000; 1; 1; 1; 1; 1; 3; 5000; 0;   1; 0; 1; 1; 3; 5000] <> [].
Proof. vm_compute. discriminate. Qed.

Example toy_scheme_is_ideal : forall k m s,
  SpecClient.toy_verify k m s = true <-> SpecClient.toy_origin s = Some (k, m).
Proof.
  intros k m s. unfold SpecClient.toy_verify, SpecClient.toy_origin. split.
  - intros H. apply c08.Proofs.bytes_eqb_eq in H. subst s. reflexivity.
  - destruct s as [|k' m']; [discriminate|]. intros H. inversion H; subst. apply c08.Proofs.bytes_eqb_refl.
Qed.

(* C11 — property theorems only. *)
From Coq Require Import List ZArith Bool.
From Verif Require Import lib.Wire gen.Consts_c11 c11.Model c11.Spec c11.Proofs.
Import ListNotations.
Local Open Scope Z_scope.

(* the relay reports OK for a CONNECT only if the destination holds a reservation,
   the source did not reach the relay through another relay, the ACL permits it and
   neither party already has MaxCircuits circuits *)
Theorem c11_connect_only_if : forall c s src sa dst acl dm sm dc s' obs,
  handle_connect c s src sa dst acl dm sm dc = (s', obs) ->
  (nth 0 obs 0 = ST_OK \/ nth 1 obs 0 = ST_OK) ->
  s_rsvp s dst <> None /\ a_relayed (addr_of c src sa) = false /\ acl = true /\
  s_conns s src < c_maxcirc c /\ s_conns s dst < c_maxcirc c /\
  s_link s src sa = true /\ s_closed s = false.
Proof. exact connect_only_if_l. Qed.
Print Assumptions c11_connect_only_if.

(* C11 — reservation lifecycle: gone at the first collection after expiry, gone
   when the peer disconnects (for histories without the disconnect-during-RESERVE
   race; with it: refuted). *)
From Coq Require Import List ZArith Bool Lia.
From Verif Require Import lib.Wire gen.Consts_c11 c11.Model c11.Spec.
Import ListNotations.
Local Open Scope Z_scope.

Definition lproj (s : st) := (s_rsvp s, s_link s, s_closed s, s_now s).

Lemma add_conn_l : forall s p, lproj (add_conn s p) = lproj s.
Proof. intros. unfold add_conn. destruct (_ =? 1); reflexivity. Qed.
Lemma rm_conn_l : forall s p, lproj (rm_conn s p) = lproj s.
Proof. intros. unfold rm_conn. destruct (_ >? 0); reflexivity. Qed.
Lemma cleanup_circ_l : forall c s a b, lproj (cleanup_circ c s a b) = lproj s.
Proof.
  intros. unfold cleanup_circ. cbv zeta. destruct (s_closed _).
  - rewrite rm_conn_l, rm_conn_l. reflexivity.
  - change (lproj (rm_conn (rm_conn s a) b) = lproj s). rewrite rm_conn_l, rm_conn_l. reflexivity.
Qed.
Lemma kill_list_l : forall c f l s, lproj (snd (kill_list c f l s)) = lproj s.
Proof.
  intros c f l. induction l as [|ci r IH]; intros s; [reflexivity|].
  cbn [kill_list]. destruct (ci_open ci && f ci).
  - specialize (IH (cleanup_circ c s (ci_src ci) (ci_dst ci))).
    destruct (kill_list c f r _) as [r' s2]. cbn [snd] in *. rewrite IH. apply cleanup_circ_l.
  - specialize (IH s). destruct (kill_list c f r s) as [r' s2]. cbn [snd] in *. exact IH.
Qed.
Lemma kill_where_l : forall c s f, lproj (kill_where c s f) = lproj s.
Proof.
  intros. unfold kill_where. pose proof (kill_list_l c f (s_circs s) s) as H.
  destruct (kill_list c f (s_circs s) s) as [l s1]. cbn [snd] in H. exact H.
Qed.

Definition P := gc_period_ms.
Definition last_tick (t : Z) : Z := (t / P) * P.

(* (1) once closed nothing is held; (2) nothing held has expired before the last
   collection tick; (3) only connected peers hold reservations *)
Definition linv (race_free : bool) (s : st) : Prop :=
  (s_closed s = true -> forall p, s_rsvp s p = None) /\
  (forall p e, s_rsvp s p = Some e -> last_tick (s_now s) <= e) /\
  (race_free = true -> forall p, s_rsvp s p <> None -> connected s p = true).

Lemma linv_proj : forall b s s', lproj s' = lproj s -> linv b s -> linv b s'.
Proof.
  intros b s s' H L. unfold lproj in H. inversion H as [[H1 H2 H3 H4]]. unfold linv, connected in *.
  rewrite H1, H2, H3, H4. exact L.
Qed.

Lemma P_pos : 0 < P. Proof. reflexivity. Qed.

Lemma last_tick_le : forall t, last_tick t <= t.
Proof. intros. unfold last_tick. pose proof (Z.mul_div_le t P P_pos). lia. Qed.

Lemma linv_gc : forall b s tau, linv b s -> linv b (gc s tau).
Proof.
  intros b s tau (L1 & L2 & L3). unfold linv, gc, connected. cbn.
  split; [|split].
  - intros Hc p. rewrite (L1 Hc p). reflexivity.
  - intros p e Hr. apply (L2 p). destruct (s_rsvp s p) as [e'|]; [|discriminate]. destruct (s_closed s || (e' <? tau)); [discriminate | exact Hr].
  - intros Hb p Hr. apply (L3 Hb p). destruct (s_rsvp s p) as [e'|]; [discriminate | exact Hr].
Qed.

Lemma linv_on_disc_gen : forall b s p,
  (s_closed s = true -> forall q, s_rsvp s q = None) ->
  (forall q e, s_rsvp s q = Some e -> last_tick (s_now s) <= e) ->
  (b = true -> forall q, q <> p -> s_rsvp s q <> None -> connected s q = true) ->
  linv b (on_disconnected s p).
Proof.
  intros b s p L1 L2 L3. unfold on_disconnected. destruct (s_closed s) eqn:Ec.
  - unfold linv, connected. cbn. rewrite Ec. refine (conj L1 (conj L2 _)).
    intros Hb q Hr. rewrite (L1 eq_refl q) in Hr. contradiction.
  - unfold linv, connected. cbn. rewrite Ec. split; [discriminate|split].
    + intros q e Hr. unfold upd in Hr. destruct (q =? p); [discriminate | apply (L2 q), Hr].
    + intros Hb q Hr. unfold upd in Hr. destruct (q =? p) eqn:E; [contradiction|].
      apply Z.eqb_neq in E. apply (L3 Hb q E Hr).
Qed.

Lemma linv_close_conn : forall b c s p k, linv b s -> linv b (close_conn c s p k).
Proof.
  intros b c s p k L. unfold close_conn. destruct (s_link s p k) eqn:El; [|exact L].
  set (s1 := set_link s (fun x y => if (x =? p) && (y =? k) then false else s_link s x y)).
  set (s2 := kill_where c s1 _).
  assert (P2 : lproj s2 = lproj s1) by apply kill_where_l.
  destruct L as (L1 & L2 & L3). unfold lproj in P2. inversion P2 as [[H1 H2 H3 H4]].
  assert (Oth : b = true -> forall q, q <> p -> s_rsvp s2 q <> None -> connected s2 q = true).
  { intros Hb q Hq Hr. unfold connected. rewrite H2. cbn [s1 set_link s_link].
    apply Z.eqb_neq in Hq. rewrite Hq. cbn [andb]. rewrite H1 in Hr. apply (L3 Hb q Hr). }
  destruct (connected s2 p) eqn:Ecn.
  - unfold linv. rewrite H3, H4. cbn [s1 set_link s_closed s_now]. rewrite H1. cbn [s1 set_link s_rsvp].
    refine (conj L1 (conj L2 _)). intros Hb q Hr. destruct (Z.eq_dec q p) as [->|Hq]; [exact Ecn|].
    apply (Oth Hb q Hq). rewrite H1. exact Hr.
  - apply linv_on_disc_gen.
    + rewrite H3, H1. exact L1.
    + rewrite H4, H1. exact L2.
    + exact Oth.
Qed.

Lemma linv_close_peer : forall b c s p, linv b s -> linv b (close_peer c s p).
Proof. intros. unfold close_peer. apply linv_close_conn, linv_close_conn. assumption. Qed.

Lemma last_tick_mono_same : forall a t, a <= t -> (t / P >? a / P) = false -> last_tick t = last_tick a.
Proof.
  intros a t Hle Hn. unfold last_tick. rewrite Z.gtb_ltb in Hn. rewrite Z.ltb_ge in Hn.
  pose proof (Z.div_le_mono a t P P_pos Hle). assert (t / P = a / P) by lia. congruence.
Qed.

Lemma linv_advance : forall b c s t, linv b s -> linv b (advance_to c s t).
Proof.
  intros b c s t L. unfold advance_to. cbv zeta.
  set (t' := Z.max t (s_now s)).
  set (s1 := kill_where c s _).
  assert (P1 : lproj s1 = lproj s) by apply kill_where_l.
  assert (L' : linv b s1) by (eapply linv_proj; eassumption).
  unfold lproj in P1. inversion P1 as [[H1 H2 H3 H4]].
  match goal with |- context [if ?x then gc _ _ else _] => destruct x eqn:E end.
  - (* a collection tick: everything that expired before it is gone *)
    destruct (linv_gc b s1 (t' / gc_period_ms * gc_period_ms) L') as (G1 & G2 & G3).
    unfold linv, connected in *. cbn [set_now s_rsvp s_closed s_now s_link] in *.
    refine (conj G1 (conj _ G3)). intros p e Hr. unfold last_tick, P.
    unfold gc in Hr. cbn [set_rtag set_rsvp s_rsvp] in Hr.
    destruct (s_rsvp s1 p) as [e'|] eqn:Er; [|discriminate].
    destruct (s_closed s1 || (e' <? t' / gc_period_ms * gc_period_ms)) eqn:Ed; [discriminate|].
    inversion Hr; subst e'. apply orb_false_iff in Ed. destruct Ed as [_ Ed]. apply Z.ltb_ge in Ed. exact Ed.
  - destruct L' as (G1 & G2 & G3). unfold linv, connected in *. cbn [set_now s_rsvp s_closed s_now s_link] in *.
    refine (conj G1 (conj _ G3)). intros p e Hr.
    apply andb_false_iff in E. destruct E as [E | E].
    + apply negb_false_iff in E. rewrite (G1 E p) in Hr. discriminate.
    + rewrite ?H4 in E. rewrite (last_tick_mono_same (s_now s) t'); [rewrite <- ?H4; rewrite ?H4; try rewrite <- H4; apply (G2 p e Hr) | unfold t'; lia | exact E].
Qed.

Lemma lproj_closed : forall a b, lproj a = lproj b -> s_closed a = s_closed b.
Proof. intros a b H. unfold lproj in H. injection H as H1 H2 H3 H4. exact H3. Qed.

Lemma on_disc_closed : forall s p, s_closed (on_disconnected s p) = s_closed s.
Proof. intros. unfold on_disconnected. destruct (s_closed s) eqn:E; cbn; exact E. Qed.

Lemma close_conn_closed : forall c s q k, s_closed (close_conn c s q k) = s_closed s.
Proof.
  intros c s q k. unfold close_conn. destruct (s_link s q k); [|reflexivity].
  match goal with |- context [kill_where c ?sx ?f] =>
    pose proof (lproj_closed _ _ (kill_where_l c sx f)) as K3;
    destruct (connected (kill_where c sx f) q); [exact K3 | rewrite on_disc_closed; exact K3] end.
Qed.

Lemma advance_closed : forall c s t, s_closed (advance_to c s t) = s_closed s.
Proof.
  intros c s t. unfold advance_to. cbv zeta. cbn [set_now s_closed].
  match goal with |- context [kill_where c s ?f] =>
    pose proof (lproj_closed _ _ (kill_where_l c s f)) as K3 end.
  match goal with |- s_closed (if ?x then _ else _) = _ => destruct x end; cbn; exact K3.
Qed.

Lemma linv_reserve : forall b c s p k acl inj, 0 <= c_ttl c ->
  linv b s -> linv b (fst (handle_reserve c s p k acl inj)).
Proof.
  intros b c s p k acl inj Httl L. unfold handle_reserve.
  destruct (negb (s_link s p k) || s_closed s) eqn:E0; [exact L|].
  destruct (negb (mem_ok_always c (s_mem s) maxMessageSize)); [exact L|].
  destruct (a_relayed (addr_of c p k)); [exact L|]. cbv zeta.
  apply orb_false_iff in E0. destruct E0 as [El Ecl].
  set (s1 := if inj =? 2 then close_peer c (advance_to c s (s_now s + 1)) p else s).
  assert (L1 : linv b s1) by (unfold s1; destruct (inj =? 2); [apply linv_close_peer, linv_advance|]; exact L).
  assert (Ecl1 : s_closed s1 = false).
  { unfold s1. destruct (inj =? 2); [|exact Ecl]. unfold close_peer. rewrite !close_conn_closed, advance_closed. exact Ecl. }
  destruct (negb acl); [exact L1|].
  destruct (negb (connected s1 p)) eqn:Ecn; [exact L1|]. apply negb_false_iff in Ecn.
  unfold c_reserve. cbv zeta.
  set (s0 := c_cleanup s1 (s_now s1)).
  assert (L0 : linv b s0) by (eapply linv_proj; [|exact L1]; reflexivity).
  repeat match goal with |- linv b (fst (let '(_, _) := (if ?x then (s0, false) else _) in _)) =>
    destruct x; [exact L0|] end.
  cbn [negb fst].
  destruct L0 as (G1 & G2 & G3). unfold linv, connected in *. cbn [set_rtag set_rsvp set_cons c_cleanup_peer s_rsvp s_closed s_now s_link].
  change (s_closed s0) with (s_closed s1) in *. change (s_now s0) with (s_now s1) in *.
  change (s_link s0) with (s_link s1) in *. change (s_rsvp s0) with (s_rsvp s1) in *.
  split; [rewrite Ecl1; discriminate | split].
  - intros q e Hr. unfold upd in Hr. destruct (q =? p); [|apply (G2 q), Hr]. inversion Hr; subst e.
    pose proof (last_tick_le (s_now s1)). lia.
  - intros Hb q Hr. unfold upd in Hr. destruct (q =? p) eqn:E; [|apply (G3 Hb q Hr)].
    apply Z.eqb_eq in E; subst q. exact Ecn.
Qed.

Lemma linv_connect : forall b c s src sa dst acl dm sm dc, linv b s ->
  linv b (fst (handle_connect c s src sa dst acl dm sm dc)).
Proof.
  intros b c s src sa dst acl dm sm dc L. unfold handle_connect.
  repeat match goal with |- linv b (fst (if ?x then (s, _) else _)) => destruct x; [exact L|] end.
  destruct (s_rsvp s dst); [|exact L].
  repeat match goal with |- linv b (fst (if ?x then (s, _) else _)) => destruct x; [exact L|] end.
  cbv zeta.
  set (s1 := set_mem (add_conn (add_conn s src) dst) (s_mem s + 2 * c_buf c)).
  assert (P1 : lproj s1 = lproj s).
  { unfold s1. change (lproj (add_conn (add_conn s src) dst) = lproj s). rewrite add_conn_l, add_conn_l. reflexivity. }
  assert (L1 : linv b s1) by (eapply linv_proj; eassumption).
  repeat match goal with |- linv b (fst (if ?x then (cleanup_circ c s1 src dst, _) else _)) =>
    destruct x; [cbn [fst]; eapply linv_proj; [apply cleanup_circ_l | exact L1]|] end.
  destruct (sm =? 3); cbn [fst].
  - eapply linv_proj; [apply cleanup_circ_l|]. apply linv_close_peer, linv_advance, L1.
  - eapply linv_proj; [|exact L1]. reflexivity.
Qed.

Lemma settle_l : forall c s ci, lproj (settle_circ c s ci) = lproj s.
Proof.
  intros. unfold settle_circ. cbv zeta. destruct (ci_open ci); [reflexivity|].
  rewrite cleanup_circ_l. reflexivity.
Qed.

Lemma linv_apply_op : forall b c s o, 0 <= c_ttl c ->
  linv b s -> linv b (fst (apply_op c s o)).
Proof.
  intros b c s o Httl L. destruct o; cbn [apply_op fst].
  - destruct L as (L1 & L2 & L3). unfold linv, connected. cbn. refine (conj L1 (conj L2 _)).
    intros Hb q Hq. specialize (L3 Hb q Hq). unfold connected in L3.
    apply orb_true_iff in L3. apply orb_true_iff. destruct L3 as [L3 | L3]; rewrite L3;
      [left | right]; destruct ((q =? p) && _); reflexivity.
  - apply linv_close_conn, L.
  - apply linv_reserve; [exact Httl | exact L].
  - apply linv_connect, L.
  - unfold send. destruct (find_circ s cid); [|exact L]. cbv zeta. destruct (_ || _); [exact L|].
    destruct (dir =? 0); (eapply linv_proj; [apply settle_l | exact L]).
  - unfold close_write. destruct (find_circ s cid); [|exact L]. cbv zeta. destruct (negb _); [exact L|].
    destruct (dir =? 0); (eapply linv_proj; [apply settle_l | exact L]).
  - unfold reset_end. destruct (find_circ s cid); [|exact L]. destruct (negb _); [exact L|].
    eapply linv_proj; [apply kill_where_l | exact L].
  - apply linv_advance, L.
  - unfold close_relay. destruct (s_closed s) eqn:Ec; [exact L|].
    destruct L as (L1 & L2 & L3). unfold linv, connected, gc. cbn. split; [|split].
    + intros _ q. destruct (s_rsvp s q); reflexivity.
    + intros q e Hq. destruct (s_rsvp s q); discriminate.
    + intros Hb q Hq. destruct (s_rsvp s q); contradiction.
Qed.

Lemma linv_init : forall b, linv b init_st.
Proof. intros b. unfold linv, init_st. cbn. repeat split; intros; try discriminate. contradiction. Qed.

Lemma linv_run : forall b c ops s, 0 <= c_ttl c -> linv b s -> linv b (run c s ops).
Proof.
  intros b c ops. induction ops as [|[[t o] tend] r IH]; intros s Httl L; [exact L|].
  cbn [run]. apply IH; [exact Httl|]. unfold step.
  pose proof (linv_apply_op b c (advance_to c s t) o Httl (linv_advance b c s t L)) as L1.
  destruct (apply_op c (advance_to c s t) o) as [s1 obs]. cbn [fst] in *. apply linv_advance, L1.
Qed.

(* readable forms *)
Lemma expired_collected_l : forall c ops, 0 <= c_ttl c ->
  let s := run c init_st ops in
  (forall p e, s_rsvp s p = Some e -> last_tick (s_now s) <= e) /\
  (s_closed s = true -> forall p, s_rsvp s p = None).
Proof.
  intros c ops Httl s.
  destruct (linv_run false c ops init_st Httl (linv_init false)) as (L1 & L2 & _).
  split; assumption.
Qed.

Lemma gone_on_disconnect_l : forall c ops, 0 <= c_ttl c ->
  let s := run c init_st ops in forall p, connected s p = false -> s_rsvp s p = None.
Proof.
  intros c ops Httl s p Hc.
  destruct (linv_run true c ops init_st Httl (linv_init true)) as (_ & _ & L3).
  destruct (s_rsvp s p) eqn:E; [|reflexivity]. fold s in L3.
  assert (H : s_rsvp s p <> None) by (rewrite E; discriminate).
  rewrite (L3 eq_refl p H) in Hc. discriminate.
Qed.

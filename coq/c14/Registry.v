(* C14 — the decayer's tag registry (decay.go: knownTags, closeTagCh) as a small
   LTS of its own; it runs in parallel with the LTS of Conc.v and shares no
   state with it.  No proofs in this file.

   knownTags maps a NAME to the registered decayingTag object (here: its
   generation number).  RegisterDecayingTag refuses a name that is in the map.
   decayingTag.Close sets the object's closed flag and QUEUES the closure; the
   loop later processes it with delete(knownTags, t.name) - by NAME.  The tick
   only visits tags found in knownTags.  [early] = true is the variant in which
   Close also deletes the name at once ("so the name can be reused"): then a
   re-registration can slip in before the queued closure is processed, and the
   loop deletes the NEW tag. *)
From Coq Require Import List Arith Bool.
From Verif Require Import c14.Model.
Import ListNotations.

Definition tagobj := (nat * nat)%type.      (* name, generation *)

Record rstate := mkRS {
  r_known : list (option nat);    (* knownTags: name -> generation *)
  r_closed : list tagobj;         (* objects whose closed flag is set *)
  r_queue : list tagobj;          (* closeTagCh *)
  r_next : nat;
  r_all : list tagobj             (* ghost: every object ever registered *)
}.

Definition rinit : rstate := mkRS [] [] [] 0 [].

Definition tag_eqb (a b : tagobj) : bool := Nat.eqb (fst a) (fst b) && Nat.eqb (snd a) (snd b).
Definition tag_mem (x : tagobj) (l : list tagobj) : bool := existsb (tag_eqb x) l.

Definition known_of (r : rstate) (n : nat) : option nat := get None (r_known r) n.

Inductive ract := RRegister (name : nat) | RClose (name gen : nat) | RProc.

Definition rstep (early : bool) (r : rstate) (a : ract) : rstate :=
  match a with
  | RRegister n =>
      match known_of r n with
      | Some _ => r                                        (* "already exists" *)
      | None => mkRS (upd None (r_known r) n (Some (r_next r))) (r_closed r) (r_queue r) (S (r_next r))
                     ((n, r_next r) :: r_all r)
      end
  | RClose n g =>
      if tag_mem (n, g) (r_all r) && negb (tag_mem (n, g) (r_closed r)) then
        mkRS (if early then upd None (r_known r) n None else r_known r)
             ((n, g) :: r_closed r) (r_queue r ++ [(n, g)]) (r_next r) (r_all r)
      else r                                               (* duplicate closure / unknown object *)
  | RProc =>
      match r_queue r with
      | [] => r
      | (n, _) :: q => mkRS (upd None (r_known r) n None) (r_closed r) q (r_next r) (r_all r)
      end
  end.

Definition rrun (early : bool) (r : rstate) (l : list ract) : rstate := fold_left (rstep early) l r.

(* C14 — the connection manager as a labelled transition system at the
   granularity of its critical sections.  No proofs in this file.

   Every exported method other than a trim is ONE critical section (TagPeer,
   UntagPeer, UpsertTag, Connected, Disconnected: the peer's segment lock;
   Protect, Unprotect: plk; the decayer's bump / remove commands: the segment
   lock) and is the sequential step of Model.v.  TrimOpenConns is split into
   the atomic steps of getConnsToClose + trim:
     ABegin      the watermark tests, gracePeriodStart := now - grace, plk.RLock
     ASnap p     the snapshot of peer p under its segment lock (the code locks
                 one segment at a time and visits every entry of that segment;
                 per-peer steps in ANY order, each peer at most once, are a
                 superset of the code's per-segment schedules)
     ASnapEnd    plk.RUnlock and the "too many in grace" test; enabled only when
                 every tracked peer was visited or was created during the
                 snapshot phase (such a peer may or may not be seen)
     ACmp p q    one comparison of the sort (reads live values under both
                 segment locks); the sort's result is ANY order that mentions
                 every candidate (ASortEnd perm): with values changing between
                 comparisons nothing more can be said
     ASelect     one iteration of the selection loop under the entry's segment
                 lock: it re-reads firstSeen (grace re-check) and reads the LIVE
                 connection set of the snapshotted peerInfo object through its
                 pointer
     AFinish     CloseWithError on every selected connection (outside locks)
   Any other operation's step can be scheduled between them, except that
   Protect/Unprotect block while plk is read-held (snapshot phase), the
   decayer goroutine does one thing at a time, and ForceTrim (not split here)
   needs trimMutex.  The decayer's tick is split too: AClock (may start a tick),
   ATickPeer p (decays peer p under its segment lock, any order, each peer at
   most once), ATickEnd (nextTick update; may come early: superset).

   Pointer staleness: a candidate entry is a pointer to a peerInfo object.  An
   object that left the map (last connection disconnected) has no connections
   for ever and is not temp, so it is a no-op for the selection loop; a temp
   object without connections is still the map's object (only Connected, which
   clears temp, can lead to its removal).  Hence an entry carries a [ce_live]
   flag that is cleared when its peer stops being tracked.

   Ghost components (not in the code; they only record the past so that the
   theorems can talk about it): [cs_psnap] (the protection table while plk was
   read-held), [ce_first] (firstSeen read at the snapshot), [cs_added1/2]
   (connections added to a live candidate after its snapshot), [ce_done]. *)
From Coq Require Import List Arith ZArith Bool.
From Verif Require Import c14.Model.
Import ListNotations.
Local Open Scope Z_scope.

Record cent := mkCE { ce_p : nat; ce_live : bool; ce_done : bool; ce_first : Z }.

Inductive tphase :=
| TIdle
| TSnap (visited : list nat)
| TSort
| TSel (todo : list nat) (target : Z)
| TClose.

Inductive dphase := DIdle | DTick (vs : list (Z * bool)) (t : Z) (visited : list nat).

Record cstate := mkCS {
  cs_s : state;
  cs_ph : tphase;
  cs_gstart : Z;                   (* gracePeriodStart *)
  cs_psnap : list (list nat);      (* ghost: protection table at ABegin *)
  cs_cands : list cent;            (* candidates, in snapshot order *)
  cs_ncand : Z;                    (* ncandidates *)
  cs_sel : list (nat * nat);       (* selected *)
  cs_added1 : Z;                   (* ghost: connections added to a live candidate after its selection *)
  cs_added2 : Z;                   (* ghost: ... after its snapshot, before its selection *)
  cs_late : list nat;              (* peers created during the snapshot phase *)
  cs_dph : dphase
}.

Definition cinit (cfg : config) : cstate := mkCS (init cfg) TIdle 0 [] [] 0 [] 0 0 [] DIdle.

Inductive act :=
| AOp (o : op) | AClock | ATickPeer (p : nat) | ATickEnd
| ABegin | ASnap (p : nat) | ASnapEnd | ACmp (p q : nat) | ASortEnd (perm : list nat)
| ASelect | AFinish.

Inductive event :=
| EOp (o : op) | EForce (cl : list (nat * nat)) | EClock | ETickPeer (p : nat) | ETickEnd
| ETrimBegin | ESnap (p : nat) | ESnapEnd | EPrune (p : nat) | EClosed (cl : list (nat * nat))
| ERead (p : nat) (v : Z).

Definition tracked (s : state) (p : nat) : bool := p_tracked (peer_at s p).

Definition is_snap (ph : tphase) : bool := match ph with TSnap _ => true | _ => false end.
Definition is_idle (ph : tphase) : bool := match ph with TIdle => true | _ => false end.
Definition d_idle (d : dphase) : bool := match d with DIdle => true | _ => false end.

Definition op_pid (o : op) : option nat :=
  match o with
  | Connected p _ | Disconnected p _ | TagPeer p _ _ | UntagPeer p _ | UpsertTag p _ _
  | Bump p _ _ | DRemove p _ | Protect p _ | Unprotect p _ => Some p
  | _ => None
  end.

(* which operations may take their critical section now *)
Definition op_enabled (cs : cstate) (o : op) : bool :=
  match o with
  | Trim => false
  | ForceTrim => is_idle (cs_ph cs)
  | Protect _ _ | Unprotect _ _ => negb (is_snap (cs_ph cs))
  | Bump _ _ _ | DRemove _ _ | DClose _ | Advance _ => d_idle (cs_dph cs)
  | _ => true
  end.

(* an entry whose peer is no longer tracked points to an object that left the map *)
Definition relive (s : state) (l : list cent) : list cent :=
  map (fun e => mkCE (ce_p e) (ce_live e && tracked s (ce_p e)) (ce_done e) (ce_first e)) l.

Definition has_live (p : nat) (l : list cent) : bool :=
  existsb (fun e => Nat.eqb (ce_p e) p && ce_live e) l.

Definition mark_done (p : nat) (l : list cent) : list cent :=
  map (fun e => if Nat.eqb (ce_p e) p then mkCE (ce_p e) (ce_live e) true (ce_first e) else e) l.

Definition set_now (s : state) (t : Z) : state := mkSt (peers s) (prot s) (count s) t (dst s).

Definition decay_peer (vs : list (Z * bool)) (pi : peer) : peer :=
  let '(dec', dl) := decay_tags vs (p_dec pi) in with_dec pi dec' (p_value pi + dl).

Definition next_ticks (cfg : config) (ds : list (Z * bool)) (t : Z) : list (Z * bool) :=
  map (fun x : dtag * (Z * bool) =>
         let '(d, (nx, closed)) := x in
         if negb closed && (nx <=? t) then (nx + eff_interval cfg d, closed) else (nx, closed))
      (combine (c_dtags cfg) ds).

Definition sweep_done (s : state) (vis late : list nat) : bool :=
  forallb (fun p => negb (tracked s p) || memn p vis || memn p late) (seq 0 (length (peers s))).

Definition with_s (cs : cstate) (s : state) : cstate :=
  mkCS s (cs_ph cs) (cs_gstart cs) (cs_psnap cs) (cs_cands cs) (cs_ncand cs) (cs_sel cs) (cs_added1 cs) (cs_added2 cs)
       (cs_late cs) (cs_dph cs).
Definition with_ph (cs : cstate) (ph : tphase) : cstate :=
  mkCS (cs_s cs) ph (cs_gstart cs) (cs_psnap cs) (cs_cands cs) (cs_ncand cs) (cs_sel cs) (cs_added1 cs) (cs_added2 cs)
       (cs_late cs) (cs_dph cs).
Definition with_dph (cs : cstate) (d : dphase) : cstate :=
  mkCS (cs_s cs) (cs_ph cs) (cs_gstart cs) (cs_psnap cs) (cs_cands cs) (cs_ncand cs) (cs_sel cs) (cs_added1 cs) (cs_added2 cs)
       (cs_late cs) d.

(* one iteration of the selection loop.  [recheck] = true is the code since
   "fix: connmgr: re-check the grace period in the trim's selection loop": an
   entry whose firstSeen (read under the segment lock, now) is after
   gracePeriodStart is skipped.  [recheck] = false is the loop before that fix
   (kept to show that the strengthened clause (b) is not vacuous). *)
Definition select_step (recheck : bool) (cfg : config) (cs : cstate) : option (cstate * list event) :=
  let s := cs_s cs in
      match cs_ph cs with
      | TSel [] _ => Some (with_ph cs TClose, [])
      | TSel (p :: r) tg =>
          if tg <=? 0 then Some (with_ph cs TClose, []) else
          match find (fun e => Nat.eqb (ce_p e) p && negb (ce_done e)) (cs_cands cs) with
          | None => Some (with_ph cs (TSel r tg), [])
          | Some e =>
              let cands1 := mark_done p (cs_cands cs) in
              if negb (ce_live e) then
                Some (mkCS s (TSel r tg) (cs_gstart cs) (cs_psnap cs) cands1 (cs_ncand cs) (cs_sel cs)
                           (cs_added1 cs) (cs_added2 cs) (cs_late cs) (cs_dph cs), [])
              else
                let pi := peer_at s p in
                if recheck && (cs_gstart cs <? p_first pi) then
                  Some (mkCS s (TSel r tg) (cs_gstart cs) (cs_psnap cs) cands1 (cs_ncand cs) (cs_sel cs)
                             (cs_added1 cs) (cs_added2 cs) (cs_late cs) (cs_dph cs), [])
                else if is_nil (p_conns pi) && p_temp pi then
                  let s' := set_peer s p nopeer in
                  Some (mkCS s' (TSel r tg) (cs_gstart cs) (cs_psnap cs) (relive s' cands1) (cs_ncand cs)
                             (cs_sel cs) (cs_added1 cs) (cs_added2 cs) (cs_late cs) (cs_dph cs), [EPrune p])
                else
                  Some (mkCS s (TSel r (tg - zlen (p_conns pi))) (cs_gstart cs) (cs_psnap cs) cands1
                             (cs_ncand cs) (cs_sel cs ++ map (pair p) (p_conns pi)) (cs_added1 cs) (cs_added2 cs)
                             (cs_late cs) (cs_dph cs), [])
          end
      | _ => None
      end.

(* ---- one atomic step; None = not enabled ------------------------------------------- *)
Definition cstep (cfg : config) (cs : cstate) (a : act) : option (cstate * list event) :=
  let s := cs_s cs in
  match a with
  | AOp o =>
      if negb (op_enabled cs o) then None else
      let '(s', cl) := step isort cfg s o in
      let '(a1', a2') :=
        match o with
        | Connected p _ =>
            if count s' =? count s + 1 then
              match find (fun e => Nat.eqb (ce_p e) p) (cs_cands cs) with
              | Some e => if ce_live e
                          then if ce_done e then (cs_added1 cs + 1, cs_added2 cs) else (cs_added1 cs, cs_added2 cs + 1)
                          else (cs_added1 cs, cs_added2 cs)
              | None => (cs_added1 cs, cs_added2 cs)
              end
            else (cs_added1 cs, cs_added2 cs)
        | _ => (cs_added1 cs, cs_added2 cs)
        end in
      let late' :=
        match op_pid o with
        | Some p => if is_snap (cs_ph cs) && negb (tracked s p) && tracked s' p
                    then p :: cs_late cs else cs_late cs
        | None => cs_late cs
        end in
      Some (mkCS s' (cs_ph cs) (cs_gstart cs) (cs_psnap cs) (relive s' (cs_cands cs)) (cs_ncand cs)
                 (cs_sel cs) a1' a2' late' (cs_dph cs),
            match o with ForceTrim => [EForce cl] | _ => [EOp o] end)
  | AClock =>
      let t := now s + 1 in
      let d' := if ((t mod c_res cfg) =? 0) && d_idle (cs_dph cs)
                then DTick (visits cfg (dst s) t) t [] else cs_dph cs in
      Some (with_dph (with_s cs (set_now s t)) d', [EClock])
  | ATickPeer p =>
      match cs_dph cs with
      | DTick vs t vis =>
          if memn p vis then None else
          let s' := if tracked s p then set_peer s p (decay_peer vs (peer_at s p)) else s in
          Some (with_dph (with_s cs s') (DTick vs t (p :: vis)), [ETickPeer p])
      | DIdle => None
      end
  | ATickEnd =>
      match cs_dph cs with
      | DTick vs t vis =>
          Some (with_dph (with_s cs (mkSt (peers s) (prot s) (count s) (now s) (next_ticks cfg (dst s) t))) DIdle,
                [ETickEnd])
      | DIdle => None
      end
  | ABegin =>
      if negb (is_idle (cs_ph cs)) then None else
      if (c_low cfg =? 0) || (c_high cfg =? 0) || (count s <=? c_low cfg)
      then Some (mkCS s TIdle (now s - c_grace cfg) (prot s) [] 0 [] 0 0 [] (cs_dph cs), [ETrimBegin; EClosed []])
      else Some (mkCS s (TSnap []) (now s - c_grace cfg) (prot s) [] 0 [] 0 0 [] (cs_dph cs), [ETrimBegin])
  | ASnap p =>
      match cs_ph cs with
      | TSnap vis =>
          if memn p vis then None else
          let pi := peer_at s p in
          let elig := p_tracked pi && negb (is_prot (prot s) p) && (p_first pi <=? cs_gstart cs) in
          Some (mkCS s (TSnap (p :: vis)) (cs_gstart cs) (cs_psnap cs)
                     (if elig then cs_cands cs ++ [mkCE p true false (p_first pi)] else cs_cands cs)
                     (if elig then cs_ncand cs + zlen (p_conns pi) else cs_ncand cs)
                     (cs_sel cs) (cs_added1 cs) (cs_added2 cs) (cs_late cs) (cs_dph cs),
                [ESnap p])
      | _ => None
      end
  | ASnapEnd =>
      match cs_ph cs with
      | TSnap vis =>
          if negb (sweep_done s vis (cs_late cs)) then None else
          if cs_ncand cs <? c_low cfg then Some (with_ph cs TIdle, [ESnapEnd; EClosed []])
          else Some (with_ph cs TSort, [ESnapEnd])
      | _ => None
      end
  | ACmp p q =>
      match cs_ph cs with
      | TSort =>
          Some (cs, (if has_live p (cs_cands cs) then [ERead p (p_value (peer_at s p))] else [])
                    ++ (if has_live q (cs_cands cs) then [ERead q (p_value (peer_at s q))] else []))
      | _ => None
      end
  | ASortEnd perm =>
      match cs_ph cs with
      | TSort =>
          if forallb (fun e => memn (ce_p e) perm) (cs_cands cs)
          then Some (with_ph cs (TSel perm (cs_ncand cs - c_low cfg)), []) else None
      | _ => None
      end
  | ASelect => select_step true cfg cs
  | AFinish =>
      match cs_ph cs with
      | TClose => Some (with_ph cs TIdle, [EClosed (cs_sel cs)])
      | _ => None
      end
  end.

(* a schedule is any list of actions; an action that is not enabled is skipped *)
Fixpoint crun (cfg : config) (cs : cstate) (sched : list act) : cstate * list event :=
  match sched with
  | [] => (cs, [])
  | a :: r =>
      match cstep cfg cs a with
      | Some (cs', ev) => let '(cf, evs) := crun cfg cs' r in (cf, ev ++ evs)
      | None => crun cfg cs r
      end
  end.

(* the LTS with the selection loop as it was before the fix *)
Definition cstep_old (cfg : config) (cs : cstate) (a : act) : option (cstate * list event) :=
  match a with ASelect => select_step false cfg cs | _ => cstep cfg cs a end.

Fixpoint crun_old (cfg : config) (cs : cstate) (sched : list act) : cstate * list event :=
  match sched with
  | [] => (cs, [])
  | a :: r =>
      match cstep_old cfg cs a with
      | Some (cs', ev) => let '(cf, evs) := crun_old cfg cs' r in (cf, ev ++ evs)
      | None => crun_old cfg cs r
      end
  end.

(* C14 — the monitor of Spec.v accepts every trace of the model, for every
   sort meeting the hypotheses (instantiated with insertion sort). *)
From Coq Require Import List Arith ZArith Bool Lia Permutation Sorted.
From Verif Require Import lib.Wire c14.Model c14.Spec c14.Proofs c14.Proofs_Abs c14.Proofs_Trim.
Import ListNotations.
Local Open Scope Z_scope.

(* peers mentioned by an operation are below np *)
Definition op_within (np : nat) (o : op) : Prop :=
  match o with
  | Connected p _ | Disconnected p _ | TagPeer p _ _ | UntagPeer p _ | UpsertTag p _ _
  | Bump p _ _ | DRemove p _ | Protect p _ | Unprotect p _ => (p < np)%nat
  | _ => True
  end.

(* ---- the peer table never grows beyond np ------------------------------------------------ *)
Lemma len_set_peer : forall s p pi np, (length (peers s) <= np)%nat -> (p < np)%nat ->
  (length (peers (set_peer s p pi)) <= np)%nat.
Proof. intros. cbn [set_peer peers]. rewrite length_upd. lia. Qed.

Lemma len_advance : forall cfg n s, length (peers (advance cfg s n)) = length (peers s).
Proof.
  intros cfg. induction n as [|k IH]; intros s; cbn [advance]; [reflexivity|]. rewrite IH.
  unfold unit_step. cbv zeta. destruct (_ =? 0); [|reflexivity]. unfold tick. cbv zeta. cbn [peers]. apply map_length.
Qed.

Lemma len_prune : forall pr s, (forall p, In p pr -> (p < length (peers s))%nat) ->
  length (peers (fold_left (fun s' p => set_peer s' p nopeer) pr s)) = length (peers s)
  /\ forall q, peer_at (fold_left (fun s' p => set_peer s' p nopeer) pr s) q
               = if memn q pr then nopeer else peer_at s q.
Proof.
  induction pr as [|p r IH]; intros s H; cbn [fold_left memn]; [split; reflexivity|].
  pose proof (H p (or_introl eq_refl)) as Hr.
  assert (Hlen : length (peers (set_peer s p nopeer)) = length (peers s))
    by (cbn [set_peer peers]; rewrite length_upd; lia).
  assert (Hat : forall q, peer_at (set_peer s p nopeer) q = if Nat.eqb p q then nopeer else peer_at s q)
    by (intros q; unfold peer_at; cbn [set_peer peers]; apply get_upd).
  destruct (IH (set_peer s p nopeer)) as [IH1 IH2].
  - intros q Hq. rewrite Hlen. apply H. right. exact Hq.
  - split; [rewrite IH1; exact Hlen|]. intros q. rewrite IH2, Hat. rewrite (Nat.eqb_sym q p).
    destruct (Nat.eqb p q); cbn [orb]; [destruct (memn q r); reflexivity|reflexivity].
Qed.

(* ---- what forget_pruned computes ------------------------------------------------------------ *)
Definition forget_cond (s : astate) (x : obs) (p : nat) : bool :=
  a_known (ap_at s p) && is_nil (a_conns (ap_at s p)) && negb (fst (fst (nth p (o_peers x) (true, 0, 0)))).

Lemma ap_at_aset : forall s p a q, ap_at (aset s p a) q = if Nat.eqb p q then a else ap_at s q.
Proof. intros. unfold ap_at. cbn [aset a_peers]. apply get_upd. Qed.

Lemma known_in_range : forall s p, a_known (ap_at s p) = true -> (p < length (a_peers s))%nat.
Proof.
  intros s p H. unfold ap_at, get in H. destruct (Nat.lt_ge_cases p (length (a_peers s))) as [Hl|Hl]; [exact Hl|].
  rewrite nth_overflow in H by exact Hl. discriminate.
Qed.

Lemma forget_pruned_spec : forall x n s,
  let f := fold_left (fun s' p => if forget_cond s' x p then aset s' p noap else s') (seq 0 n) s in
  length (a_peers f) = length (a_peers s) /\ a_prot f = a_prot s /\ a_now f = a_now s /\ a_dst f = a_dst s
  /\ forall q, ap_at f q = if Nat.ltb q n && forget_cond s x q then noap else ap_at s q.
Proof.
  intros x. induction n as [|n IH]; intros s; cbv zeta.
  - cbn [seq fold_left]. repeat split; reflexivity.
  - rewrite seq_S, fold_left_app. cbn [plus fold_left].
    destruct (IH s) as [I1 [I2 [I3 [I4 I5]]]]. cbv zeta in *.
    set (f := fold_left (fun s' p => if forget_cond s' x p then aset s' p noap else s') (seq 0 n) s) in *.
    assert (Hfc : forget_cond f x n = forget_cond s x n).
    { unfold forget_cond. rewrite I5. rewrite Nat.ltb_irrefl. reflexivity. }
    rewrite Hfc. destruct (forget_cond s x n) eqn:Ec.
    + assert (Hr : (n < length (a_peers f))%nat).
      { rewrite I1. apply known_in_range. unfold forget_cond in Ec. apply andb_true_iff in Ec.
        destruct Ec as [Ec _]. apply andb_true_iff in Ec. tauto. }
      repeat split; try assumption.
      * cbn [aset a_peers]. rewrite length_upd. lia.
      * intros q. rewrite ap_at_aset, I5. destruct (Nat.eqb n q) eqn:E.
        -- apply Nat.eqb_eq in E. subst q. replace (Nat.ltb n (S n)) with true by (symmetry; apply Nat.ltb_lt; lia).
           rewrite Ec. reflexivity.
        -- apply Nat.eqb_neq in E. destruct (Nat.ltb q n) eqn:E1.
           ++ replace (Nat.ltb q (S n)) with true; [reflexivity|]. symmetry. apply Nat.ltb_lt. apply Nat.ltb_lt in E1. lia.
           ++ replace (Nat.ltb q (S n)) with false; [reflexivity|]. symmetry. apply Nat.ltb_ge. apply Nat.ltb_ge in E1. lia.
    + repeat split; try assumption. intros q. rewrite I5. destruct (Nat.eqb n q) eqn:E.
      * apply Nat.eqb_eq in E. subst q. rewrite Ec, Nat.ltb_irrefl, !andb_false_r. reflexivity.
      * apply Nat.eqb_neq in E. destruct (Nat.ltb q n) eqn:E1.
        -- replace (Nat.ltb q (S n)) with true; [reflexivity|]. symmetry. apply Nat.ltb_lt. apply Nat.ltb_lt in E1. lia.
        -- replace (Nat.ltb q (S n)) with false; [reflexivity|]. symmetry. apply Nat.ltb_ge. apply Nat.ltb_ge in E1. lia.
Qed.

Lemma astate_ext : forall a b, length (a_peers a) = length (a_peers b) ->
  (forall q, ap_at a q = ap_at b q) -> a_prot a = a_prot b -> a_now a = a_now b -> a_dst a = a_dst b -> a = b.
Proof.
  intros [pa ra na da] [pb rb nb db]. cbn. intros Hl Hq -> -> ->. f_equal.
  apply (nth_ext pa pb noap noap Hl). intros n _. exact (Hq n).
Qed.

Lemma nth_map_seq : forall {A} (f : nat -> A) d n q, (q < n)%nat -> nth q (map f (seq 0 n)) d = f q.
Proof.
  intros A f d n q H. rewrite (nth_indep _ d (f 0%nat)) by (rewrite map_length, seq_length; exact H).
  rewrite (map_nth f (seq 0 n) 0%nat q). rewrite seq_nth by exact H. reflexivity.
Qed.

(* the bookkeeping, told by the model's own observation which entries were
   pruned, ends in the abstraction of the model's post-state *)
Lemma forget_matches : forall np s pr cl,
  (length (peers s) <= np)%nat ->
  (forall p, In p pr -> p_conns (peer_at s p) = [] /\ p_tracked (peer_at s p) = true) ->
  let s' := fold_left (fun s' p => set_peer s' p nopeer) pr s in
  forget_pruned np (abs s) (mobs np s' cl) = abs s'.
Proof.
  intros np s pr cl Hnp Hpr s'.
  destruct (len_prune pr s) as [L1 L2]; [intros p Hp; apply tracked_in_range, Hpr, Hp|]. fold s' in L1, L2.
  assert (Hsame : forall s0, fold_left (fun s1 p => set_peer s1 p nopeer) pr s0 =
                             mkSt (peers (fold_left (fun s1 p => set_peer s1 p nopeer) pr s0)) (prot s0) (count s0) (now s0) (dst s0)).
  { clear. induction pr as [|p r IH]; intros s0; cbn [fold_left]; [destruct s0; reflexivity|]. rewrite IH at 1. reflexivity. }
  unfold forget_pruned.
  change (fun (s'0 : astate) (p : nat) =>
            if a_known (ap_at s'0 p) && is_nil (a_conns (ap_at s'0 p))
               && negb (fst (fst (nth p (o_peers (mobs np s' cl)) (true, 0, 0))))
            then aset s'0 p noap else s'0)
    with (fun (s'0 : astate) (p : nat) => if forget_cond s'0 (mobs np s' cl) p then aset s'0 p noap else s'0).
  destruct (forget_pruned_spec (mobs np s' cl) np (abs s)) as [F1 [F2 [F3 [F4 F5]]]]. cbv zeta in *.
  apply astate_ext.
  - rewrite F1. unfold abs. cbn [a_peers]. rewrite !map_length. symmetry. exact L1.
  - intros q. rewrite F5, !ap_at_abs, L2.
    destruct (Nat.ltb q np) eqn:Eq; cbn [andb].
    + unfold forget_cond. rewrite ap_at_abs. cbn [abs_peer a_known a_conns mobs o_peers].
      apply Nat.ltb_lt in Eq.
      rewrite nth_map_seq by exact Eq.
 cbv zeta. rewrite L2. destruct (memn q pr) eqn:Em.
      * apply memn_In in Em. destruct (Hpr q Em) as [Hc Ht]. rewrite Ht, Hc. cbn. reflexivity.
      * destruct (p_tracked (peer_at s q)) eqn:Et; cbn; [rewrite andb_false_r; reflexivity|reflexivity].
    + destruct (memn q pr) eqn:Em; [|reflexivity].
      apply memn_In in Em. destruct (Hpr q Em) as [_ Ht]. pose proof (tracked_in_range s q Ht). apply Nat.ltb_ge in Eq. lia.
  - rewrite F2. unfold s'. rewrite Hsame. reflexivity.
  - rewrite F3. unfold s'. rewrite Hsame. reflexivity.
  - rewrite F4. unfold s'. rewrite Hsame. reflexivity.
Qed.

(* ---- one monitored step of the model ------------------------------------------------------------ *)
Lemma list_eqb_refl : forall {A} (eqb : A -> A -> bool) l, (forall x, eqb x x = true) -> list_eqb eqb l l = true.
Proof. intros A eqb l H. induction l as [|x r IH]; cbn [list_eqb]; [reflexivity|]. rewrite H, IH. reflexivity. Qed.

Lemma pobs_eqb_refl : forall x, pobs_eqb x x = true.
Proof. intros [[b v] t]. unfold pobs_eqb. rewrite Bool.eqb_reflx, !Z.eqb_refl. reflexivity. Qed.

Lemma mobs_expect : forall np s cl, inv s ->
  o_peers (mobs np s cl) = map (expect_peer (abs s)) (seq 0 np).
Proof.
  intros np s cl H. cbn [mobs o_peers]. apply map_ext. intros p. unfold expect_peer. rewrite ap_at_abs.
  cbn [abs_peer a_known]. destruct (p_tracked (peer_at s p)); [|reflexivity].
  destruct (peer_at_ok s p H) as [_ [Hv _]]. unfold total. cbn. rewrite Hv. reflexivity.
Qed.

Lemma trim_code_ok : forall cfg s cl, trim_prop cfg s cl = true -> trim_code cfg s cl = 0.
Proof.
  intros cfg s cl H. unfold trim_prop in H. unfold trim_code.
  apply andb_true_iff in H. destruct H as [H H4]. apply andb_true_iff in H. destruct H as [H H3].
  apply andb_true_iff in H. destruct H as [H1 H2]. rewrite H1, H2, H3, H4. reflexivity.
Qed.

Lemma force_code_ok : forall cfg s cl, force_prop cfg s cl = true -> force_code cfg s cl = 0.
Proof.
  intros cfg s cl H. unfold force_prop in H. unfold force_code.
  apply andb_true_iff in H. destruct H as [H H4]. apply andb_true_iff in H. destruct H as [H H3].
  apply andb_true_iff in H. destruct H as [H1 H2]. rewrite H1, H2, H3, H4. reflexivity.
Qed.

Section WithSort.
  Variable sort : list cand -> list cand.
  Hypothesis sort_perm : forall l, Permutation (sort l) l.
  Hypothesis sort_sorted : forall l, StronglySorted kle (sort l).

  Lemma inv_step : forall cfg s o, inv s -> inv (fst (step sort cfg s o)).
  Proof.
    intros cfg s o H. destruct o; cbn [step fst].
    - apply inv_connected, H. - apply inv_disconnected, H. - apply inv_tag_peer, H.
    - apply inv_untag_peer, H. - apply inv_upsert_tag, H. - apply inv_bump, H.
    - apply inv_dremove, H. - apply inv_dclose, H. - apply inv_protect, H. - apply inv_unprotect, H.
    - apply inv_advance, H. - apply (inv_trim sort sort_perm), H. - exact H.
    - apply inv_dcloseq, H. - apply inv_dregister, H.
  Qed.

  Lemma inv_run : forall cfg ops s, inv s -> inv (run sort cfg s ops).
  Proof. intros cfg. induction ops as [|o r IH]; intros s H; cbn [run]; [exact H|]. apply IH, inv_step, H. Qed.

  Lemma len_step : forall cfg np s o, inv s -> (length (peers s) <= np)%nat -> op_within np o ->
    (length (peers (fst (step sort cfg s o))) <= np)%nat.
  Proof.
    intros cfg np s o Hinv H Ho. destruct o; cbn [step fst op_within] in *.
    - unfold connected. destruct (memn _ _); [|cbn [set_count peers]]; apply len_set_peer; assumption.
    - unfold disconnected. destruct (negb _); [exact H|]. destruct (negb _); [exact H|].
      cbn [set_count peers]. apply len_set_peer; assumption.
    - unfold tag_peer. apply len_set_peer; assumption.
    - unfold untag_peer. destruct (negb _); [exact H|]. apply len_set_peer; assumption.
    - unfold upsert_tag. cbv zeta. apply len_set_peer; assumption.
    - unfold bump. destruct (negb _); [exact H|]. cbv zeta. apply len_set_peer; assumption.
    - unfold dremove. destruct (negb _); [exact H|]. cbv zeta. apply len_set_peer; assumption.
    - unfold dclose. destruct (negb _); [exact H|]. cbn [peers]. rewrite map_length. exact H.
    - exact H.
    - exact H.
    - rewrite len_advance. exact H.
    - destruct (trim_pruned sort sort_perm cfg s Hinv) as [pr [E Hp]]. rewrite E.
      destruct (len_prune pr s) as [L _]; [intros p Hin; apply tracked_in_range, Hp, Hin|]. rewrite L. exact H.
    - exact H.
    - unfold dcloseq. destruct (negb _); exact H.
    - unfold dregister. destruct (_ && _); exact H.
  Qed.

  Lemma mon_step_model : forall cfg np s o, inv s -> (length (peers s) <= np)%nat ->
    let '(s', cl) := step sort cfg s o in
    mon_step cfg np (abs s) o (mobs np s' cl) = inl (abs s').
  Proof.
    intros cfg np s o Hinv Hlen. destruct (step sort cfg s o) as [s' cl] eqn:Es.
    pose proof (inv_step cfg s o Hinv) as Hinv'. rewrite Es in Hinv'. cbn [fst] in Hinv'.
    assert (Hfin : forall s2, s2 = abs s' ->
              (if negb (o_count (mobs np s' cl) =? acount s2) then inr 3
               else if negb (list_eqb pobs_eqb (o_peers (mobs np s' cl)) (map (expect_peer s2) (seq 0 np)))
                    then inr 4 else inl s2) = (inl (abs s') : astate + Z)).
    { intros s2 ->. rewrite (acount_abs s' Hinv'). cbn [mobs o_count]. rewrite Z.eqb_refl. cbn [negb].
      rewrite (mobs_expect np s' cl Hinv'). rewrite (list_eqb_refl pobs_eqb _ pobs_eqb_refl). reflexivity. }
    unfold mon_step. destruct (is_trim o) eqn:Eo.
    - destruct o; try discriminate Eo; cbn [step] in Es.
      + (* Trim *)
        pose proof (model_trim_ok_l sort sort_perm sort_sorted cfg s Hinv) as Hok. rewrite Es in Hok. cbn [snd] in Hok.
        cbn [o_closed mobs]. rewrite (trim_code_ok _ _ _ (trim_ok_sound_l _ _ _ Hok)). cbn [Z.eqb negb astep].
        apply Hfin. destruct (trim_pruned sort sort_perm cfg s Hinv) as [pr [E Hp]]. rewrite Es in E. cbn [fst] in E.
        rewrite E. apply forget_matches; assumption.
      + (* ForceTrim *)
        inversion Es; subst s' cl. cbn [o_closed mobs].
        rewrite (force_code_ok _ _ _ (model_force_ok_l sort sort_perm sort_sorted cfg s Hinv)). cbn [Z.eqb negb astep].
        apply Hfin. reflexivity.
    - pose proof (abs_step sort cfg s o Hinv Eo) as Ha. rewrite Es in Ha. cbn [fst] in Ha.
      destruct o; try discriminate Eo; cbn [Z.eqb negb]; apply Hfin; symmetry; exact Ha.
  Qed.
End WithSort.

(* ---- the headline: the monitor accepts every trace of the model --------------------------------------- *)
Lemma mon_run_model : forall cfg np ops s i, inv s -> (length (peers s) <= np)%nat ->
  Forall (op_within np) ops ->
  mon_run cfg np (abs s) i (mtrace cfg np s ops) = [].
Proof.
  intros cfg np. induction ops as [|o r IH]; intros s i Hinv Hlen Hw; cbn [mtrace mon_run]; [reflexivity|].
  inversion Hw as [|? ? Ho Hr]; subst.
  pose proof (mon_step_model isort isort_perm isort_sorted cfg np s o Hinv Hlen) as Hm.
  pose proof (inv_step isort isort_perm cfg s o Hinv) as Hi.
  pose proof (len_step isort isort_perm cfg np s o Hinv Hlen Ho) as Hl.
  destruct (step isort cfg s o) as [s' cl]. cbn [fst] in Hi, Hl. cbn [mon_run]. rewrite Hm.
  apply IH; assumption.
Qed.

Lemma inv_init : forall cfg, inv (init cfg).
Proof. intros. split; [constructor|reflexivity]. Qed.

Lemma monitor_model : forall cfg np ops, Forall (op_within np) ops ->
  monitor cfg np (mtrace cfg np (init cfg) ops) = [].
Proof.
  intros cfg np ops Hw. unfold monitor. change (ainit cfg) with (abs (init cfg)).
  apply mon_run_model; [apply inv_init|cbn; lia|exact Hw].
Qed.

(* readable form of the trim clauses *)
Lemma trim_prop_spec : forall cfg s cl, trim_prop cfg s cl = true ->
  (forall p c, In (p, c) cl ->
     is_prot (a_prot s) p = false /\ a_first (ap_at s p) <= a_now s - c_grace cfg
     /\ In c (a_conns (ap_at s p)))
  /\ (forall p c q, In (p, c) cl -> In q (pids s) -> eligible cfg s q = true -> keptp s cl q = true ->
        total (ap_at s p) <= total (ap_at s q))
  /\ (acount s <= c_low cfg -> cl = [])
  /\ (disabled cfg = false -> c_low cfg < acount s -> remaining_eligible cfg s cl <= Z.max 0 (c_low cfg)).
Proof.
  intros cfg s cl H. unfold trim_prop in H.
  apply andb_true_iff in H. destruct H as [H H4]. apply andb_true_iff in H. destruct H as [H H3].
  apply andb_true_iff in H. destruct H as [H1 H2]. repeat split.
  - unfold closes_only_eligible in H1. rewrite forallb_forall in H1. specialize (H1 _ H). cbn [fst snd] in H1.
    apply andb_true_iff in H1. destruct H1 as [H1 _]. unfold eligible in H1.
    apply andb_true_iff in H1. destruct H1 as [H1 _]. apply andb_true_iff in H1. destruct H1 as [_ H1].
    apply negb_true_iff. exact H1.
  - unfold closes_only_eligible in H1. rewrite forallb_forall in H1. specialize (H1 _ H). cbn [fst snd] in H1.
    apply andb_true_iff in H1. destruct H1 as [H1 _]. unfold eligible in H1.
    apply andb_true_iff in H1. destruct H1 as [_ H1]. apply Z.leb_le. exact H1.
  - unfold closes_only_eligible in H1. rewrite forallb_forall in H1. specialize (H1 _ H). cbn [fst snd] in H1.
    apply andb_true_iff in H1. destruct H1 as [_ H1]. apply memn_In. exact H1.
  - intros p c q Hin Hq He Hk. unfold lowest_first in H2. rewrite forallb_forall in H2. specialize (H2 _ Hin).
    rewrite forallb_forall in H2. specialize (H2 q Hq). cbn [fst] in H2. rewrite He, Hk in H2. cbn [andb] in H2.
    apply negb_true_iff, Z.ltb_ge in H2. exact H2.
  - intros Hc. unfold idle_below_low in H3. apply Z.leb_le in Hc. rewrite Hc in H3. destruct cl; [reflexivity|discriminate].
  - intros Hd Hc. unfold reaches_low in H4. rewrite Hd in H4. cbn [orb] in H4.
    replace (acount s <=? c_low cfg) with false in H4 by (symmetry; apply Z.leb_gt; exact Hc).
    apply Z.leb_le. exact H4.
Qed.

(* readable form of the forced-trim clause: protected peers only after all
   unprotected ones *)
Lemma force_prop_spec : forall cfg s cl, force_prop cfg s cl = true ->
  (forall p c, In (p, c) cl -> In c (a_conns (ap_at s p)))
  /\ (forall p c, In (p, c) cl -> is_prot (a_prot s) p = true ->
        forall q d, In q (pids s) -> is_prot (a_prot s) q = false -> In d (a_conns (ap_at s q)) -> In (q, d) cl)
  /\ (forall p c q, In (p, c) cl -> In q (pids s) -> is_prot (a_prot s) q = is_prot (a_prot s) p ->
        keptp s cl q = true -> total (ap_at s p) <= total (ap_at s q))
  /\ (acount s <= c_low cfg -> cl = []).
Proof.
  intros cfg s cl H. unfold force_prop in H.
  apply andb_true_iff in H. destruct H as [H H4]. apply andb_true_iff in H. destruct H as [H H3].
  apply andb_true_iff in H. destruct H as [H1 H2]. repeat split.
  - intros p c Hin. rewrite forallb_forall in H1. specialize (H1 _ Hin). apply memn_In. exact H1.
  - intros p c Hin Hp q d Hq Hu Hd. rewrite forallb_forall in H2. specialize (H2 _ Hin). cbn [fst] in H2.
    rewrite Hp in H2. cbn [negb orb] in H2. unfold all_unprotected_closed in H2. rewrite forallb_forall in H2.
    specialize (H2 q Hq). rewrite Hu in H2. cbn [orb] in H2. apply negb_true_iff in H2.
    unfold keptp in H2. apply memp_In. destruct (memp (q, d) cl) eqn:E; [reflexivity|].
    assert (existsb (fun c0 => negb (memp (q, c0) cl)) (a_conns (ap_at s q)) = true); [|congruence].
    apply existsb_exists. exists d. split; [exact Hd|]. rewrite E. reflexivity.
  - intros p c q Hin Hq He Hk. rewrite forallb_forall in H3. specialize (H3 _ Hin).
    rewrite forallb_forall in H3. specialize (H3 q Hq). cbn [fst] in H3. rewrite He, Hk in H3.
    rewrite Bool.eqb_reflx in H3. cbn [andb] in H3. apply negb_true_iff, Z.ltb_ge in H3. exact H3.
  - intros Hc. apply Z.leb_le in Hc. rewrite Hc in H4. destruct cl; [reflexivity|discriminate].
Qed.

(* the observation window only has to contain the peers the history mentions *)
Definition op_width (o : op) : nat :=
  match o with
  | Connected p _ | Disconnected p _ | TagPeer p _ _ | UntagPeer p _ | UpsertTag p _ _
  | Bump p _ _ | DRemove p _ | Protect p _ | Unprotect p _ => S p
  | _ => O
  end.
Definition width (ops : list op) : nat := fold_right (fun o n => Nat.max (op_width o) n) O ops.

Lemma width_within : forall ops np, (width ops <= np)%nat -> Forall (op_within np) ops.
Proof.
  induction ops as [|o r IH]; intros np H; [constructor|]. cbn [width fold_right] in H. fold (width r) in H.
  constructor; [|apply IH; lia]. destruct o; cbn [op_within op_width] in *; try exact I; lia.
Qed.

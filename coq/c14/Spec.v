(* C14 — the property as decidable predicates over observable traces, the
   bookkeeping ("what the notifications and tag operations delivered so far
   imply"), and the decoding of correspondence lines.  No proofs here.

   WIRE FORMAT (one case per line)
     0 NP low high grace res ND ND x (interval k min max), then (op obs) repeated
   ops:  1 p c  Connected        2 p c  Disconnected
         3 p t v TagPeer         4 p t  UntagPeer        5 p t delta UpsertTag(+delta)
         6 p d delta Bump        7 p d  Remove (decaying) 8 d  Close (decaying tag)
         9 p g  Protect         10 p g  Unprotect
        11 dt   clock advance by dt units (decayer ticks happen inside)
        12      TrimOpenConns   13      ForceTrim
        16 d    decayingTag.Close returned but the loop has not processed the closure yet
                (the loop is held on a segment lock by the harness); 8 d then is the processing
        14 d acc  RegisterDecayingTag with the name and parameters of tag d; acc = 1 accepted
   obs (after every op):
        connCount  NP x (present value tagsum)  k  k x (p c)
     present/value = GetTagInfo(p) != nil / .Value, tagsum = sum of .Tags,
     the k pairs (p c) are the connections CloseWithError was called on during the op.
   Peer, connection, tag and protection-tag ids are small integers assigned by
   the harness; time unit = 1 virtual second; all decaying tags are registered
   at creation.

   DURING-TRIM case (testing only, no theorem): a deterministic interleaving
     2 NP low high grace res ND ND x (interval k min max)  NPRE  NPRE x (op obs)
       HP  NS  NS x op   NPR  NPR x p   obs   then (op obs) repeated
   after the NPRE sequential steps TrimOpenConns is called and, from inside
   it (between its candidate snapshot and its selection loop: the fake
   connections' Stat() is called by the sort), the NS script ops (ops 1..7,
   9, 10) are executed synchronously; obs is taken when the trim has returned;
   the case then continues sequentially.  HP is the hook point: 1 = inside the
   sort (after the snapshot, before the selection loop), 2 = at the first
   CloseWithError (after the selection loop); for HP = 2 the NPR peers are
   those GetTagInfo reported absent when the hook fired although present
   before the trim (temporary entries pruned by the selection loop).

   CONCURRENT case (testing only, no theorem):
     1 NP low high grace  NPRE op..  NW  (LEN op..) x NW   obs
   a sequential prefix of NPRE ops (same encoding, no observations) connects
   the peers; then NW goroutines run their op lists concurrently with each
   other and with goroutines calling TrimOpenConns in a loop.  Each goroutine
   only uses ops 1..5, its own connection ids and its own tag id, never a
   peer's first connection, never Protect/clock, so the final bookkeeping does
   not depend on the interleaving and protection / grace of every peer is
   constant during the concurrent phase.  obs is taken at quiescence; its
   closed list is everything TrimOpenConns closed during the phase. *)
From Coq Require Import List Arith ZArith Bool.
From Verif Require Import lib.Wire c14.Model.
Import ListNotations.
Local Open Scope Z_scope.

(* ---- bookkeeping state: no caches, no temp flag ------------------------------ *)
Record apeer := mkAP {
  a_known : bool;          (* tags are being remembered for this peer *)
  a_first : Z;             (* when the peer's grace period started *)
  a_tags : list Z;
  a_dec : list Z;
  a_conns : list nat
}.

Definition noap := mkAP false 0 [] [] [].

Record astate := mkAS {
  a_peers : list apeer;
  a_prot : list (list nat);
  a_now : Z;
  a_dst : list (Z * bool)
}.

Definition ainit (cfg : config) : astate :=
  mkAS [] [] 0 (map (fun d => (eff_interval cfg d, false)) (c_dtags cfg)).

Definition ap_at (s : astate) (p : nat) : apeer := get noap (a_peers s) p.

(* THE quantities of the property *)
Definition total (a : apeer) : Z := zsum (a_tags a) + zsum (a_dec a).
Definition acount (s : astate) : Z := zsum (map (fun a => zlen (a_conns a)) (a_peers s)).

Definition aset (s : astate) (p : nat) (a : apeer) : astate :=
  mkAS (upd noap (a_peers s) p a) (a_prot s) (a_now s) (a_dst s).

(* an operation on an unknown peer starts remembering it *)
Definition aknow (t : Z) (a : apeer) : apeer :=
  if a_known a then a else mkAP true t [] [] [].

(* the clock moves: decaying values decay at the decayer's ticks *)
Definition atick (cfg : config) (s : astate) (t : Z) : astate :=
  let vs := visits cfg (a_dst s) t in
  mkAS (map (fun a => if a_known a
                      then mkAP true (a_first a) (a_tags a) (fst (decay_tags vs (a_dec a))) (a_conns a)
                      else a) (a_peers s))
       (a_prot s) t
       (map (fun x : dtag * (Z * bool) =>
               let '(d, (nx, closed)) := x in
               if negb closed && (nx <=? t) then (nx + eff_interval cfg d, closed) else (nx, closed))
            (combine (c_dtags cfg) (a_dst s))).

Definition aunit (cfg : config) (s : astate) : astate :=
  let t := a_now s + 1 in
  if (t mod c_res cfg) =? 0 then atick cfg s t
  else mkAS (a_peers s) (a_prot s) t (a_dst s).

Fixpoint aadvance (cfg : config) (s : astate) (n : nat) : astate :=
  match n with O => s | S k => aadvance cfg (aunit cfg s) k end.

Definition astep (cfg : config) (s : astate) (o : op) : astate :=
  match o with
  | Connected p c =>
      let a := ap_at s p in
      if a_known a && negb (is_nil (a_conns a)) then
        (* already connected: a duplicate notification changes nothing *)
        if memn c (a_conns a) then s
        else aset s p (mkAP true (a_first a) (a_tags a) (a_dec a) (c :: a_conns a))
      else
        (* first connection: the grace period starts now; early tags are kept *)
        aset s p (mkAP true (a_now s) (a_tags a) (a_dec a) [c])
  | Disconnected p c =>
      let a := ap_at s p in
      if a_known a && memn c (a_conns a) then
        let cs := rem1 c (a_conns a) in
        (* the last connection going away forgets the peer *)
        aset s p (if is_nil cs then noap else mkAP true (a_first a) (a_tags a) (a_dec a) cs)
      else s
  | TagPeer p t v =>
      let a := aknow (a_now s) (ap_at s p) in
      aset s p (mkAP true (a_first a) (upd 0 (a_tags a) t v) (a_dec a) (a_conns a))
  | UntagPeer p t =>
      let a := ap_at s p in
      if a_known a then aset s p (mkAP true (a_first a) (upd 0 (a_tags a) t 0) (a_dec a) (a_conns a))
      else s
  | UpsertTag p t dl =>
      let a := aknow (a_now s) (ap_at s p) in
      aset s p (mkAP true (a_first a) (upd 0 (a_tags a) t (get 0 (a_tags a) t + dl)) (a_dec a) (a_conns a))
  | Bump p d dl =>
      if Nat.ltb d (length (c_dtags cfg)) && negb (snd (get (0, true) (a_dst s) d)) then
        let a := aknow (a_now s) (ap_at s p) in
        aset s p (mkAP true (a_first a) (a_tags a)
                       (upd 0 (a_dec a) d (bump_fn (get nodtag (c_dtags cfg) d) (get 0 (a_dec a) d) dl))
                       (a_conns a))
      else s
  | DRemove p d =>
      if Nat.ltb d (length (c_dtags cfg)) && negb (snd (get (0, true) (a_dst s) d)) then
        let a := aknow (a_now s) (ap_at s p) in
        aset s p (mkAP true (a_first a) (a_tags a) (upd 0 (a_dec a) d 0) (a_conns a))
      else s
  | DClose d =>
      if (Nat.ltb d (length (c_dtags cfg)) && negb (snd (get (0, true) (a_dst s) d)))
         || (Nat.ltb d (length (c_dtags cfg)) && snd (get (0, true) (a_dst s) d) && (fst (get (0, true) (a_dst s) d) =? -1)) then
        mkAS (map (fun a => if a_known a
                            then mkAP true (a_first a) (a_tags a) (upd 0 (a_dec a) d 0) (a_conns a)
                            else a) (a_peers s))
             (a_prot s) (a_now s)
             (upd (0, true) (a_dst s) d (0, true))
      else s
  | Protect p g =>
      let tags := get [] (a_prot s) p in
      mkAS (a_peers s) (upd [] (a_prot s) p (if memn g tags then tags else g :: tags)) (a_now s) (a_dst s)
  | Unprotect p g =>
      mkAS (a_peers s) (upd [] (a_prot s) p (rem1 g (get [] (a_prot s) p))) (a_now s) (a_dst s)
  | Advance dt => aadvance cfg s dt
  | Trim => s
  | ForceTrim => s
  | DCloseQ d =>
      (* Close() took effect for the caller: no further bumps; the values go
         when the loop processes the closure (DClose) *)
      if Nat.ltb d (length (c_dtags cfg)) && negb (snd (get (0, true) (a_dst s) d))
      then mkAS (a_peers s) (a_prot s) (a_now s) (upd (0, true) (a_dst s) d (-1, true)) else s
  | DRegister d acc =>
      (* a registration the caller was told succeeded creates a live tag that
         decays at its intervals, counted from the decayer's last tick *)
      if acc && Nat.ltb d (length (c_dtags cfg))
      then mkAS (a_peers s) (a_prot s) (a_now s)
                (upd (0, true) (a_dst s) d
                     ((a_now s / c_res cfg) * c_res cfg + eff_interval cfg (get nodtag (c_dtags cfg) d), false))
      else s
  end.

(* ---- the trim clauses of the property ------------------------------------------ *)
Definition pair_eqb (x y : nat * nat) : bool := Nat.eqb (fst x) (fst y) && Nat.eqb (snd x) (snd y).
Definition memp (x : nat * nat) (l : list (nat * nat)) : bool := existsb (pair_eqb x) l.

Definition pids (s : astate) : list nat := seq 0 (length (a_peers s)).

(* eligible = known, not protected, grace period over *)
Definition eligible (cfg : config) (s : astate) (p : nat) : bool :=
  a_known (ap_at s p) && negb (is_prot (a_prot s) p)
  && (a_first (ap_at s p) <=? a_now s - c_grace cfg).

(* some connection of p is kept *)
Definition keptp (s : astate) (cl : list (nat * nat)) (p : nat) : bool :=
  existsb (fun c => negb (memp (p, c) cl)) (a_conns (ap_at s p)).

(* connections of p that are not closed *)
Definition remaining_of (s : astate) (cl : list (nat * nat)) (p : nat) : Z :=
  zlen (filter (fun c => negb (memp (p, c) cl)) (a_conns (ap_at s p))).

Definition remaining_eligible (cfg : config) (s : astate) (cl : list (nat * nat)) : Z :=
  zsum (map (remaining_of s cl) (filter (eligible cfg s) (pids s))).

Definition disabled (cfg : config) : bool := (c_low cfg =? 0) || (c_high cfg =? 0).

(* P1: every closed connection is a tracked connection of an eligible peer
       (not protected, grace period over) *)
Definition closes_only_eligible (cfg : config) (s : astate) (cl : list (nat * nat)) : bool :=
  forallb (fun x : nat * nat => eligible cfg s (fst x) && memn (snd x) (a_conns (ap_at s (fst x)))) cl.

(* P2: no peer is closed while a strictly lower-valued eligible peer is kept *)
Definition lowest_first (cfg : config) (s : astate) (cl : list (nat * nat)) : bool :=
  forallb (fun x : nat * nat =>
             forallb (fun q => negb (eligible cfg s q && keptp s cl q
                                     && (total (ap_at s q) <? total (ap_at s (fst x)))))
                     (pids s)) cl.

(* P3: nothing happens at or below the low watermark *)
Definition idle_below_low (cfg : config) (s : astate) (cl : list (nat * nat)) : bool :=
  if acount s <=? c_low cfg then is_nil cl else true.

(* P4: otherwise at most low-watermark connections are left among the eligible
       peers (a manager with a zero watermark is disabled by configuration; a
       negative watermark - NewConnManager accepts any int - is read as 0: no
       eligible connection may be left) *)
Definition reaches_low (cfg : config) (s : astate) (cl : list (nat * nat)) : bool :=
  if disabled cfg || (acount s <=? c_low cfg) then true
  else remaining_eligible cfg s cl <=? Z.max 0 (c_low cfg).

Definition trim_prop (cfg : config) (s : astate) (cl : list (nat * nat)) : bool :=
  closes_only_eligible cfg s cl && lowest_first cfg s cl
  && idle_below_low cfg s cl && reaches_low cfg s cl.

(* ForceTrim.  F1: closes tracked connections only; F2: a protected peer's
   connection is closed only if every connection of every unprotected peer is
   closed; F3: within the unprotected peers and within the protected peers,
   lowest value first; F4: nothing at or below the low watermark. *)
Definition all_unprotected_closed (s : astate) (cl : list (nat * nat)) : bool :=
  forallb (fun q => is_prot (a_prot s) q || negb (keptp s cl q)) (pids s).

Definition force_prop (cfg : config) (s : astate) (cl : list (nat * nat)) : bool :=
  forallb (fun x : nat * nat => memn (snd x) (a_conns (ap_at s (fst x)))) cl
  && forallb (fun x : nat * nat => negb (is_prot (a_prot s) (fst x)) || all_unprotected_closed s cl) cl
  && forallb (fun x : nat * nat =>
               forallb (fun q => negb (Bool.eqb (is_prot (a_prot s) q) (is_prot (a_prot s) (fst x))
                                       && keptp s cl q
                                       && (total (ap_at s q) <? total (ap_at s (fst x)))))
                       (pids s)) cl
  && (if acount s <=? c_low cfg then is_nil cl else true).

(* number of the first violated clause (0 = none): 11 closes a connection of a
   protected / in-grace / unknown peer, 12 closes a peer while a lower-valued
   eligible peer is kept, 13 not idle at or below the low watermark, 14 more
   than low-watermark eligible connections left; 21 forced trim closes an
   untracked connection, 22 a protected peer before all unprotected ones,
   23 order within a class, 24 not idle at or below the low watermark *)
Definition trim_code (cfg : config) (s : astate) (cl : list (nat * nat)) : Z :=
  if negb (closes_only_eligible cfg s cl) then 11
  else if negb (lowest_first cfg s cl) then 12
  else if negb (idle_below_low cfg s cl) then 13
  else if negb (reaches_low cfg s cl) then 14 else 0.

Definition force_code (cfg : config) (s : astate) (cl : list (nat * nat)) : Z :=
  if negb (forallb (fun x : nat * nat => memn (snd x) (a_conns (ap_at s (fst x)))) cl) then 21
  else if negb (forallb (fun x : nat * nat => negb (is_prot (a_prot s) (fst x)) || all_unprotected_closed s cl) cl) then 22
  else if negb (forallb (fun x : nat * nat =>
               forallb (fun q => negb (Bool.eqb (is_prot (a_prot s) q) (is_prot (a_prot s) (fst x))
                                       && keptp s cl q
                                       && (total (ap_at s q) <? total (ap_at s (fst x)))))
                       (pids s)) cl) then 23
  else if negb (if acount s <=? c_low cfg then is_nil cl else true) then 24 else 0.

(* ---- what the code can produce (tighter than the property; used by the
        correspondence): whole peers, and no more peers than needed ---------- *)
Definition ncand_a (cfg : config) (s : astate) : Z :=
  zsum (map (fun p => zlen (a_conns (ap_at s p))) (filter (eligible cfg s) (pids s))).

Definition closedp (cl : list (nat * nat)) (p : nat) : bool := existsb (fun x => Nat.eqb (fst x) p) cl.

Definition trim_ok (cfg : config) (s : astate) (cl : list (nat * nat)) : bool :=
  if disabled cfg || (acount s <=? c_low cfg) || (ncand_a cfg s <? c_low cfg) then is_nil cl
  else
    closes_only_eligible cfg s cl
    (* whole peers *)
    && forallb (fun x : nat * nat => negb (keptp s cl (fst x))) cl
    (* lowest first, non-strict version is what a sorted prefix gives: a kept
       eligible peer is never strictly below a closed one *)
    && lowest_first cfg s cl
    && (remaining_eligible cfg s cl <=? Z.max 0 (c_low cfg)).

(* ---- observations ---------------------------------------------------------------- *)
Record obs := mkObs {
  o_count : Z;
  o_peers : list (bool * Z * Z);      (* present, value, tag sum *)
  o_closed : list (nat * nat)
}.

Definition pobs_eqb (x y : bool * Z * Z) : bool :=
  let '(b1, v1, t1) := x in let '(b2, v2, t2) := y in
  Bool.eqb b1 b2 && (v1 =? v2) && (t1 =? t2).

(* what the bookkeeping says GetTagInfo must show for peer p *)
Definition expect_peer (s : astate) (p : nat) : bool * Z * Z :=
  let a := ap_at s p in
  if a_known a then (true, total a, total a) else (false, 0, 0).

(* a regular trim may drop the buffered early tags of peers that hold no
   connection (the implementation says so by reporting the peer absent) *)
Definition forget_pruned (np : nat) (s : astate) (o : obs) : astate :=
  fold_left (fun s' p =>
               let a := ap_at s' p in
               if a_known a && is_nil (a_conns a) && negb (fst (fst (nth p (o_peers o) (true, 0, 0))))
               then aset s' p noap else s')
            (seq 0 np) s.

(* one monitored step: the new bookkeeping, or the number of the violated
   clause (11..14 trim clauses, 21..24 forced-trim clauses, see trim_code;
   3 = connection count, 4 = tag total of some peer) *)
Definition mon_step (cfg : config) (np : nat) (s : astate) (o : op) (x : obs) : astate + Z :=
  let s1 := astep cfg s o in
  let chk :=
    match o with
    | Trim => trim_code cfg s (o_closed x)
    | ForceTrim => force_code cfg s (o_closed x)
    | _ => 0
    end in
  if negb (chk =? 0) then inr chk else
  let s2 := match o with Trim => forget_pruned np s1 x | _ => s1 end in
  if negb (o_count x =? acount s2) then inr 3
  else if negb (list_eqb pobs_eqb (o_peers x) (map (expect_peer s2) (seq 0 np))) then inr 4
  else inl s2.

Fixpoint mon_run (cfg : config) (np : nat) (s : astate) (i : Z) (tr : list (op * obs)) : list Z :=
  match tr with
  | [] => []
  | (o, x) :: r =>
      match mon_step cfg np s o x with
      | inl s' => mon_run cfg np s' (i + 1) r
      | inr code => [ERR_PROPERTY; i; code]
      end
  end.

Definition monitor (cfg : config) (np : nat) (tr : list (op * obs)) : list Z :=
  mon_run cfg np (ainit cfg) 0 tr.

(* ---- the model's own trace ---------------------------------------------------------- *)
Definition mobs (np : nat) (s : state) (cl : list (nat * nat)) : obs :=
  mkObs (count s)
        (map (fun p => let pi := peer_at s p in
                       if p_tracked pi then (true, p_value pi, zsum (p_tags pi) + zsum (p_dec pi))
                       else (false, 0, 0)) (seq 0 np))
        cl.

Fixpoint mtrace (cfg : config) (np : nat) (s : state) (ops : list op) : list (op * obs) :=
  match ops with
  | [] => []
  | o :: r => let '(s', cl) := step isort cfg s o in (o, mobs np s' cl) :: mtrace cfg np s' r
  end.

(* abstraction of a model state (drops the caches) *)
Definition abs_peer (pi : peer) : apeer :=
  mkAP (p_tracked pi) (p_first pi) (p_tags pi) (p_dec pi) (p_conns pi).
Definition abs (s : state) : astate :=
  mkAS (map abs_peer (peers s)) (prot s) (now s) (dst s).

(* ---- correspondence: the model replays the ops and must reproduce every
        observation; the implementation's closed set of a trim is judged with
        trim_ok / force_prop against the model state (ties, map order and the
        unstable sort make it nondeterministic) ------------------------------------ *)
Definition obs_state_eqb (a b : obs) : bool :=
  (o_count a =? o_count b) && list_eqb pobs_eqb (o_peers a) (o_peers b).

Fixpoint nodup_pairs (l : list (nat * nat)) : list (nat * nat) :=
  match l with
  | [] => []
  | x :: r => if memp x r then nodup_pairs r else x :: nodup_pairs r
  end.

(* correspondence only (no theorem needs them): the selection loop stops as
   soon as the target is reached, so dropping some closed peer would leave
   more than low-watermark eligible connections; and getConnsToCloseEmergency
   enters its second pass (the only one that can select protected peers) iff
   the unprotected connections U do not reach the target and the remaining
   target still exceeds U (the code compares with the decremented target) *)
Definition trim_tight (cfg : config) (s : astate) (cl : list (nat * nat)) : bool :=
  is_nil cl
  || existsb (fun x : nat * nat =>
                c_low cfg <? remaining_eligible cfg s cl + zlen (a_conns (ap_at s (fst x)))) cl.

Definition force_tight (cfg : config) (s : astate) (cl : list (nat * nat)) : bool :=
  let u := zsum (map (fun p => if is_prot (a_prot s) p then 0 else zlen (a_conns (ap_at s p))) (pids s)) in
  let target := acount s - c_low cfg in
  let second_pass := (u <? target) && (u <? target - u) in
  second_pass || forallb (fun x : nat * nat => negb (is_prot (a_prot s) (fst x))) cl.

Fixpoint conf_prefix (cfg : config) (np : nat) (s : state) (i : Z) (tr : list (op * obs))
  : (state * Z) + list Z :=
  match tr with
  | [] => inl (s, i)
  | (o, x) :: r =>
      let '(s', cl) := step isort cfg s o in
      let closed_ok :=
        match o with
        | Trim => trim_ok cfg (abs s) (o_closed x) && trim_tight cfg (abs s) (o_closed x)
        | ForceTrim => force_prop cfg (abs s) (o_closed x) && force_tight cfg (abs s) (o_closed x)
        | DRegister d acc => is_nil (o_closed x) && Bool.eqb acc (dreg_allowed cfg s d)
        | _ => is_nil (o_closed x)
        end in
      if negb closed_ok then inr [ERR_MISMATCH; i; 1; zlen (o_closed x); zlen cl]
      else if negb (obs_state_eqb (mobs np s' []) x) then inr [ERR_MISMATCH; i; 2; count s'; o_count x]
      else conf_prefix cfg np s' (i + 1) r
  end.

Definition conform_run (cfg : config) (np : nat) (s : state) (i : Z) (tr : list (op * obs)) : list Z :=
  match conf_prefix cfg np s i tr with inl _ => [] | inr d => d end.

(* ---- during-trim events ----------------------------------------------------------------- *)
Definition worker_op_ok (o : op) : bool :=
  match o with
  | Connected _ _ | Disconnected _ _ | TagPeer _ _ _ | UntagPeer _ _ | UpsertTag _ _ _ => true
  | _ => false
  end.

(* what a during-trim script may contain (everything that is one critical
   section and needs no clock) *)
Definition script_op_ok (o : op) : bool :=
  match o with
  | Connected _ _ | Disconnected _ _ | TagPeer _ _ _ | UntagPeer _ _ | UpsertTag _ _ _
  | Protect _ _ | Unprotect _ _ | Bump _ _ _ | DRemove _ _ => true
  | _ => false
  end.

Definition arun (cfg : config) (s : astate) (ops : list op) : astate := fold_left (astep cfg) ops s.

(* the trim took its candidates before the script ran: every closed
   connection belongs to a peer that was eligible then (protection does not
   change during the script) and is tracked before or after the script *)
Definition during_closed_ok (cfg : config) (a0 a1 : astate) (cl : list (nat * nat)) : bool :=
  forallb (fun x : nat * nat =>
             eligible cfg a0 (fst x)
             && (memn (snd x) (a_conns (ap_at a0 (fst x))) || memn (snd x) (a_conns (ap_at a1 (fst x))))) cl.

Fixpoint mon_prefix (cfg : config) (np : nat) (s : astate) (i : Z) (tr : list (op * obs))
  : (astate * Z) + list Z :=
  match tr with
  | [] => inl (s, i)
  | (o, x) :: r =>
      match mon_step cfg np s o x with
      | inl s' => mon_prefix cfg np s' (i + 1) r
      | inr code => inr [ERR_PROPERTY; i; code]
      end
  end.

(* judged at quiescence: the count and every tag total are what the prefix
   and the script imply, whatever the trim did in between *)
Definition monitor_during (cfg : config) (np : nat) (pre : list (op * obs)) (script : list op)
           (x : obs) (post : list (op * obs)) : list Z :=
  match mon_prefix cfg np (ainit cfg) 0 pre with
  | inr d => d
  | inl (a0, i) =>
      let a1 := arun cfg a0 script in
      if negb (during_closed_ok cfg a0 a1 (o_closed x)) then [ERR_PROPERTY; i; 11] else
      let a2 := forget_pruned np a1 x in
      if negb (o_count x =? acount a2) then [ERR_PROPERTY; i; 3]
      else if negb (list_eqb pobs_eqb (o_peers x) (map (expect_peer a2) (seq 0 np))) then [ERR_PROPERTY; i; 4]
      else mon_run cfg np a2 (i + 1) post
  end.

(* the model: the script's ops applied, then the temporary entries the
   implementation reports as pruned are pruned (which ones depends on the sort
   order seen by the racing comparator) *)
Definition prune_observed (np : nat) (s : state) (x : obs) : state :=
  fold_left (fun s' p =>
               let pi := peer_at s' p in
               if p_tracked pi && p_temp pi && is_nil (p_conns pi)
                  && negb (fst (fst (nth p (o_peers x) (true, 0, 0))))
               then set_peer s' p nopeer else s')
            (seq 0 np) s.

Definition prune_listed (s : state) (l : list nat) : option state :=
  fold_left (fun os p => match os with
                         | Some s' => let pi := peer_at s' p in
                                      if p_tracked pi && p_temp pi && is_nil (p_conns pi)
                                      then Some (set_peer s' p nopeer) else None
                         | None => None
                         end) l (Some s).

Definition conform_during (cfg : config) (np : nat) (pre : list (op * obs)) (ev : Z * list op * list nat)
           (x : obs) (post : list (op * obs)) : list Z :=
  let '(hp, script, pruned) := ev in
  match conf_prefix cfg np (init cfg) 0 pre with
  | inr d => d
  | inl (s0, i) =>
      (* hook point 2: the selection loop (and its pruning) ran before the script *)
      match (if hp =? 2 then prune_listed s0 pruned else Some s0) with
      | None => [ERR_MISMATCH; i; 3; 0; 0]
      | Some s0' =>
          let s1 := run isort cfg s0' script in
          if negb (during_closed_ok cfg (abs s0) (abs s1) (o_closed x)) then [ERR_MISMATCH; i; 1; zlen (o_closed x); 0] else
          if (hp =? 2) && negb (trim_ok cfg (abs s0) (o_closed x)) then [ERR_MISMATCH; i; 1; zlen (o_closed x); 2] else
          let s2 := if hp =? 2 then s1 else prune_observed np s1 x in
          if negb (obs_state_eqb (mobs np s2 []) x) then [ERR_MISMATCH; i; 2; count s2; o_count x]
          else conform_run cfg np s2 (i + 1) post
      end
  end.

(* ---- wire decoding ------------------------------------------------------------------- *)
Fixpoint decode_dtags (n : nat) (l : list Z) : option (list dtag * list Z) :=
  match n with
  | O => Some ([], l)
  | S k =>
      match l with
      | i :: kk :: mn :: mx :: r =>
          match decode_dtags k r with
          | Some (ds, r') => Some (mkDtag i kk mn mx :: ds, r')
          | None => None
          end
      | _ => None
      end
  end.

Fixpoint decode_pairs (n : nat) (l : list Z) : option (list (nat * nat) * list Z) :=
  match n with
  | O => Some ([], l)
  | S k =>
      match l with
      | p :: c :: r =>
          match decode_pairs k r with
          | Some (ps, r') => Some ((znat p, znat c) :: ps, r')
          | None => None
          end
      | _ => None
      end
  end.

Fixpoint decode_pobs (n : nat) (l : list Z) : option (list (bool * Z * Z) * list Z) :=
  match n with
  | O => Some ([], l)
  | S k =>
      match l with
      | b :: v :: t :: r =>
          match decode_pobs k r with
          | Some (ps, r') => Some ((zbool b, v, t) :: ps, r')
          | None => None
          end
      | _ => None
      end
  end.

Definition decode_obs (np : nat) (l : list Z) : option (obs * list Z) :=
  match l with
  | cnt :: r =>
      match decode_pobs np r with
      | Some (ps, k :: r1) =>
          if k <? 0 then None else
          match decode_pairs (znat k) r1 with
          | Some (cl, r2) => Some (mkObs cnt ps cl, r2)
          | None => None
          end
      | _ => None
      end
  | _ => None
  end.

Definition decode_op (l : list Z) : option (op * list Z) :=
  match l with
  | 1 :: p :: c :: r => Some (Connected (znat p) (znat c), r)
  | 2 :: p :: c :: r => Some (Disconnected (znat p) (znat c), r)
  | 3 :: p :: t :: v :: r => Some (TagPeer (znat p) (znat t) v, r)
  | 4 :: p :: t :: r => Some (UntagPeer (znat p) (znat t), r)
  | 5 :: p :: t :: d :: r => Some (UpsertTag (znat p) (znat t) d, r)
  | 6 :: p :: d :: dl :: r => Some (Bump (znat p) (znat d) dl, r)
  | 7 :: p :: d :: r => Some (DRemove (znat p) (znat d), r)
  | 8 :: d :: r => Some (DClose (znat d), r)
  | 9 :: p :: g :: r => Some (Protect (znat p) (znat g), r)
  | 10 :: p :: g :: r => Some (Unprotect (znat p) (znat g), r)
  | 11 :: dt :: r => if (dt <? 0) || (100000 <? dt) then None else Some (Advance (znat dt), r)
  | 12 :: r => Some (Trim, r)
  | 13 :: r => Some (ForceTrim, r)
  | 14 :: d :: acc :: r => Some (DRegister (znat d) (zbool acc), r)
  | 16 :: d :: r => Some (DCloseQ (znat d), r)
  | _ => None
  end.

Fixpoint decode_trace (fuel : nat) (np : nat) (l : list Z) : option (list (op * obs)) :=
  match fuel with
  | O => None
  | S f =>
      match l with
      | [] => Some []
      | _ =>
          match decode_op l with
          | Some (o, r) =>
              match decode_obs np r with
              | Some (x, r') =>
                  match decode_trace f np r' with
                  | Some t => Some ((o, x) :: t)
                  | None => None
                  end
              | None => None
              end
          | None => None
          end
      end
  end.

Definition decode_case (l : list Z) : option (config * nat * list (op * obs)) :=
  match l with
  | 0 :: np :: low :: high :: grace :: res :: nd :: r =>
      if (np <? 0) || (64 <? np) || (nd <? 0) || (16 <? nd) || (res <=? 0) then None else
      match decode_dtags (znat nd) r with
      | Some (ds, r') =>
          match decode_trace (S (length r')) (znat np) r' with
          | Some tr => Some (mkCfg low high grace res ds, znat np, tr)
          | None => None
          end
      | None => None
      end
  | _ => None
  end.

(* ---- concurrent cases ------------------------------------------------------------------ *)
Fixpoint decode_ops (n : nat) (l : list Z) : option (list op * list Z) :=
  match n with
  | O => Some ([], l)
  | S k =>
      match decode_op l with
      | Some (o, r) =>
          match decode_ops k r with
          | Some (os, r') => Some (o :: os, r')
          | None => None
          end
      | None => None
      end
  end.

Fixpoint decode_workers (n : nat) (l : list Z) : option (list (list op) * list Z) :=
  match n with
  | O => Some ([], l)
  | S k =>
      match l with
      | len :: r =>
          if (len <? 0) || (100000 <? len) then None else
          match decode_ops (znat len) r with
          | Some (os, r1) =>
              match decode_workers k r1 with
              | Some (ws, r2) => Some (os :: ws, r2)
              | None => None
              end
          | None => None
          end
      | [] => None
      end
  end.

Definition decode_conc (l : list Z) : option (config * nat * list op * list (list op) * obs) :=
  match l with
  | 1 :: np :: low :: high :: grace :: npre :: r =>
      if (np <? 0) || (64 <? np) || (npre <? 0) || (100000 <? npre) then None else
      match decode_ops (znat npre) r with
      | Some (pre, nw :: r1) =>
          if (nw <? 0) || (64 <? nw) then None else
          match decode_workers (znat nw) r1 with
          | Some (ws, r2) =>
              match decode_obs (znat np) r2 with
              | Some (x, []) =>
                  if forallb (forallb worker_op_ok) ws
                  then Some (mkCfg low high grace 1 [], znat np, pre, ws, x) else None
              | _ => None
              end
          | None => None
          end
      | _ => None
      end
  | _ => None
  end.


(* at quiescence count and totals are what the operations imply, whatever the
   interleaving with the trims was; no connection of a peer that was protected
   or inside its grace period throughout was closed *)
Definition monitor_conc (cfg : config) (np : nat) (pre : list op) (ws : list (list op)) (x : obs) : list Z :=
  let a0 := arun cfg (ainit cfg) pre in
  let a1 := arun cfg a0 (concat ws) in
  if negb (forallb (fun pc : nat * nat => eligible cfg a0 (fst pc)) (o_closed x)) then [ERR_PROPERTY; 0; 11]
  else if negb (o_count x =? acount a1) then [ERR_PROPERTY; 0; 3]
  else if negb (list_eqb pobs_eqb (o_peers x) (map (expect_peer a1) (seq 0 np))) then [ERR_PROPERTY; 0; 4]
  else [].

Definition conform_conc (cfg : config) (np : nat) (pre : list op) (ws : list (list op)) (x : obs) : list Z :=
  let s1 := run isort cfg (run isort cfg (init cfg) pre) (concat ws) in
  if obs_state_eqb (mobs np s1 []) x then [] else [ERR_MISMATCH; 0; 2; count s1; o_count x].

Fixpoint decode_trace_n (n : nat) (np : nat) (l : list Z) : option (list (op * obs) * list Z) :=
  match n with
  | O => Some ([], l)
  | S k =>
      match decode_op l with
      | Some (o, r) =>
          match decode_obs np r with
          | Some (x, r') =>
              match decode_trace_n k np r' with
              | Some (t, r'') => Some ((o, x) :: t, r'')
              | None => None
              end
          | None => None
          end
      | None => None
      end
  end.

Fixpoint decode_nats (n : nat) (l : list Z) : option (list nat * list Z) :=
  match n with
  | O => Some ([], l)
  | S k => match l with
           | p :: r => match decode_nats k r with Some (ps, r') => Some (znat p :: ps, r') | None => None end
           | [] => None
           end
  end.

Definition decode_during (l : list Z)
  : option (config * nat * list (op * obs) * (Z * list op * list nat) * obs * list (op * obs)) :=
  match l with
  | 2 :: np :: low :: high :: grace :: res :: nd :: r =>
      if (np <? 0) || (64 <? np) || (nd <? 0) || (16 <? nd) || (res <=? 0) then None else
      match decode_dtags (znat nd) r with
      | Some (ds, npre :: r1) =>
          if (npre <? 0) || (100000 <? npre) then None else
          match decode_trace_n (znat npre) (znat np) r1 with
          | Some (pre, hp :: ns :: r2) =>
              if (ns <? 0) || (1000 <? ns) || negb ((hp =? 1) || (hp =? 2)) then None else
              match decode_ops (znat ns) r2 with
              | Some (script, npr :: r3) =>
                  if (npr <? 0) || (64 <? npr) then None else
                  match decode_nats (znat npr) r3 with
                  | Some (pruned, r3') =>
                      match decode_obs (znat np) r3' with
                      | Some (x, r4) =>
                          match decode_trace (S (length r4)) (znat np) r4 with
                          | Some post =>
                              if forallb script_op_ok script
                              then Some (mkCfg low high grace res ds, znat np, pre, (hp, script, pruned), x, post)
                              else None
                          | None => None
                          end
                      | None => None
                      end
                  | None => None
                  end
              | _ => None
              end
          | _ => None
          end
      | _ => None
      end
  | _ => None
  end.

Definition conform_case_seq (l : list Z) : list Z :=
  match l with
  | 1 :: _ =>
      match decode_conc l with
      | Some (cfg, np, pre, ws, x) => conform_conc cfg np pre ws x
      | None => [ERR_MALFORMED; 1]
      end
  | 2 :: _ =>
      match decode_during l with
      | Some (cfg, np, pre, ev, x, post) => conform_during cfg np pre ev x post
      | None => [ERR_MALFORMED; 2]
      end
  | _ =>
      match decode_case l with
      | Some (cfg, np, tr) => conform_run cfg np (init cfg) 0 tr
      | None => [ERR_MALFORMED; 0]
      end
  end.

Definition monitor_case_seq (l : list Z) : list Z :=
  match l with
  | 1 :: _ =>
      match decode_conc l with
      | Some (cfg, np, pre, ws, x) => monitor_conc cfg np pre ws x
      | None => [ERR_MALFORMED; 1]
      end
  | 2 :: _ =>
      match decode_during l with
      | Some (cfg, np, pre, (_, script, _), x, post) => monitor_during cfg np pre script x post
      | None => [ERR_MALFORMED; 2]
      end
  | _ =>
      match decode_case l with
      | Some (cfg, np, tr) => monitor cfg np tr
      | None => [ERR_MALFORMED; 0]
      end
  end.

(* C14 — the trims.  (A) trim_ok (what the code can produce) implies the
   property clauses trim_prop; (B) for ANY sort that returns a permutation
   ordered by the (temp, value) key, the model's TrimOpenConns satisfies
   trim_ok and its ForceTrim satisfies force_prop; (C) insertion sort is such
   a sort. *)
From Coq Require Import List Arith ZArith Bool Lia Permutation Sorted.
From Verif Require Import lib.Wire c14.Model c14.Spec c14.Proofs c14.Proofs_Abs.
Import ListNotations.
Local Open Scope Z_scope.

(* ---- small facts ------------------------------------------------------------------- *)
Lemma memn_In : forall x l, memn x l = true <-> In x l.
Proof.
  induction l as [|y r IH]; cbn [memn In]; [split; [discriminate|tauto]|].
  rewrite orb_true_iff, Nat.eqb_eq, IH. split; intros [H|H]; auto.
Qed.

Lemma memp_In : forall x l, memp x l = true <-> In x l.
Proof.
  intros [p c] l. unfold memp. rewrite existsb_exists. split.
  - intros [[q d] [Hin He]]. unfold pair_eqb in He. cbn [fst snd] in He.
    apply andb_true_iff in He. destruct He as [H1 H2]. apply Nat.eqb_eq in H1, H2. subst. exact Hin.
  - intros H. exists (p, c). split; [exact H|]. unfold pair_eqb. cbn. rewrite !Nat.eqb_refl. reflexivity.
Qed.

Lemma zlen_nonneg : forall {A} (l : list A), 0 <= zlen l.
Proof. intros. unfold zlen. lia. Qed.

Lemma zlen_filter_le : forall {A} (f : A -> bool) l, zlen (filter f l) <= zlen l.
Proof.
  intros. unfold zlen. induction l as [|x r IH]; cbn [filter length]; [lia|].
  destruct (f x); cbn [length]; lia.
Qed.

Lemma zsum_app : forall a b, zsum (a ++ b) = zsum a + zsum b.
Proof. induction a as [|x r IH]; intros b; cbn [app zsum]; [lia|]. rewrite IH. lia. Qed.

Lemma zsum_perm : forall a b, Permutation a b -> zsum a = zsum b.
Proof. induction 1; cbn [zsum]; lia. Qed.

Lemma zsum_map_le : forall {A} (f g : A -> Z) l, (forall x, In x l -> f x <= g x) ->
  zsum (map f l) <= zsum (map g l).
Proof.
  induction l as [|x r IH]; intros H; cbn [map zsum]; [lia|].
  pose proof (H x (or_introl eq_refl)). assert (zsum (map f r) <= zsum (map g r)) by (apply IH; intros; apply H; right; assumption). lia.
Qed.

Lemma zsum_map_zero : forall {A} (f : A -> Z) l, (forall x, In x l -> f x = 0) -> zsum (map f l) = 0.
Proof.
  induction l as [|x r IH]; intros H; cbn [map zsum]; [reflexivity|].
  rewrite (H x (or_introl eq_refl)), IH; [reflexivity|]. intros; apply H; right; assumption.
Qed.

Lemma zsum_nonneg : forall l, (forall x, In x l -> 0 <= x) -> 0 <= zsum l.
Proof.
  induction l as [|x r IH]; intros H; cbn [zsum]; [lia|].
  pose proof (H x (or_introl eq_refl)). assert (0 <= zsum r) by (apply IH; intros; apply H; right; assumption). lia.
Qed.

(* ---- (A) trim_ok is sound for the property clauses ------------------------------------ *)
Lemma remaining_nil : forall cfg s, remaining_eligible cfg s [] = ncand_a cfg s.
Proof.
  intros. unfold remaining_eligible, ncand_a. f_equal. apply map_ext. intros p.
  unfold remaining_of. f_equal. induction (a_conns (ap_at s p)) as [|c r IH]; cbn; [reflexivity|]. f_equal. exact IH.
Qed.

Lemma trim_ok_sound_l : forall cfg s cl, trim_ok cfg s cl = true -> trim_prop cfg s cl = true.
Proof.
  intros cfg s cl H. unfold trim_ok in H. unfold trim_prop, idle_below_low, reaches_low.
  destruct (disabled cfg) eqn:Ed; cbn [orb] in *.
  - destruct cl; [|discriminate]. cbn. destruct (acount s <=? c_low cfg); reflexivity.
  - destruct (acount s <=? c_low cfg) eqn:Ec; cbn [orb] in *.
    + destruct cl; [|discriminate]. reflexivity.
    + destruct (ncand_a cfg s <? c_low cfg) eqn:En.
      * destruct cl; [|discriminate]. cbn [closes_only_eligible lowest_first forallb andb].
        rewrite remaining_nil. apply Z.ltb_lt in En. apply Z.leb_le. lia.
      * apply andb_true_iff in H. destruct H as [H H4]. apply andb_true_iff in H. destruct H as [H H3].
        apply andb_true_iff in H. destruct H as [H1 H2]. rewrite H1, H3, H4. reflexivity.
Qed.

(* ---- the selection loop: a prefix of the list is taken ---------------------------------- *)
Definition conns_of (x : cand) : list (nat * nat) := map (pair (fst x)) (p_conns (snd x)).
Definition allconns (l : list cand) : list (nat * nat) := flat_map conns_of l.

Lemma nconns_app : forall a b, nconns (a ++ b) = nconns a + nconns b.
Proof. intros. unfold nconns. rewrite map_app, zsum_app. reflexivity. Qed.

Lemma select_split : forall l target sel pr t, select l target = (sel, pr, t) ->
  exists l1 l2, l = l1 ++ l2 /\ sel = allconns l1 /\ t = target - nconns l1
                /\ (l2 = [] \/ t <= 0)
                /\ (forall p, In p pr -> exists pi, In (p, pi) l1 /\ p_conns pi = []).
Proof.
  induction l as [|[p pi] r IH]; intros target sel pr t H; cbn [select] in H.
  - inversion H; subst. exists [], []. repeat split; auto; try (cbn; lia); try (intros ? []).
  - destruct (target <=? 0) eqn:Et.
    + inversion H; subst. exists [], ((p, pi) :: r). apply Z.leb_le in Et.
      repeat split; auto; try (cbn; lia); try (intros ? []).
    + destruct (is_nil (p_conns pi) && p_temp pi) eqn:Etmp.
      * destruct (select r target) as [[sel' pr'] t'] eqn:Es. inversion H; subst.
        destruct (IH _ _ _ _ Es) as [l1 [l2 [E1 [E2 [E3 [E4 E5]]]]]].
        apply andb_true_iff in Etmp. destruct Etmp as [En _].
        destruct (p_conns pi) eqn:Ec; [|discriminate].
        exists ((p, pi) :: l1), l2. repeat split.
        -- cbn. rewrite E1. reflexivity.
        -- unfold allconns. cbn [flat_map]. unfold conns_of at 1. cbn [fst snd]. rewrite Ec. exact E2.
        -- unfold nconns in *. cbn [map zsum snd]. rewrite Ec. unfold zlen at 1. cbn [length]. lia.
        -- exact E4.
        -- intros q [Hq|Hq]; [subst; exists pi; split; [left; reflexivity|exact Ec]|].
           destruct (E5 q Hq) as [pi' [Hin Hc]]. exists pi'. split; [right; exact Hin|exact Hc].
      * destruct (select r (target - zlen (p_conns pi))) as [[sel' pr'] t'] eqn:Es. inversion H; subst.
        destruct (IH _ _ _ _ Es) as [l1 [l2 [E1 [E2 [E3 [E4 E5]]]]]].
        exists ((p, pi) :: l1), l2. repeat split.
        -- cbn. rewrite E1. reflexivity.
        -- unfold allconns. cbn [flat_map]. unfold conns_of at 1. cbn [fst snd]. rewrite E2. reflexivity.
        -- unfold nconns in *. cbn [map zsum snd]. lia.
        -- exact E4.
        -- intros q Hq. destruct (E5 q Hq) as [pi' [Hin Hc]]. exists pi'. split; [right; exact Hin|exact Hc].
Qed.

Lemma in_allconns : forall l p c, In (p, c) (allconns l) <-> exists pi, In (p, pi) l /\ In c (p_conns pi).
Proof.
  intros l p c. unfold allconns. rewrite in_flat_map. split.
  - intros [[q pi] [Hin Hc]]. unfold conns_of in Hc. cbn [fst snd] in Hc. apply in_map_iff in Hc.
    destruct Hc as [c' [He Hc]]. inversion He; subst. exists pi. split; assumption.
  - intros [pi [Hin Hc]]. exists (p, pi). split; [exact Hin|]. unfold conns_of. cbn [fst snd].
    apply in_map_iff. exists c. split; [reflexivity|exact Hc].
Qed.

(* sequentially the grace re-check of the selection loop never fires: every
   candidate passed the same test at the snapshot *)
Lemma select_g_eq : forall gs l target, (forall x, In x l -> p_first (snd x) <= gs) ->
  select_g gs l target = select l target.
Proof.
  intros gs. induction l as [|[p pi] r IH]; intros target H; cbn [select_g select]; [reflexivity|].
  destruct (target <=? 0); [reflexivity|].
  assert (E : (gs <? p_first pi) = false) by (apply Z.ltb_ge; exact (H (p, pi) (or_introl eq_refl))).
  rewrite E. rewrite !IH by (intros x Hx; apply H; right; exact Hx). reflexivity.
Qed.

Lemma cands_first : forall cfg s (sort : list cand -> list cand), (forall l, Permutation (sort l) l) -> forall x,
  In x (sort (filter (fun x : cand => negb (is_prot (prot s) (fst x)) && (p_first (snd x) <=? now s - c_grace cfg))
                     (tracked_list s))) -> p_first (snd x) <= now s - c_grace cfg.
Proof.
  intros cfg s sort Hp x Hx. apply (Permutation_in _ (Hp _)) in Hx. apply filter_In in Hx. destruct Hx as [_ Hx].
  apply andb_true_iff in Hx. apply Z.leb_le. tauto.
Qed.

(* ---- candidates and the bookkeeping view ------------------------------------------------- *)
Definition mk_cand (s : state) (p : nat) : cand := (p, peer_at s p).

Lemma combine_seq_nth : forall {A} (d : A) l k,
  combine (seq k (length l)) l = map (fun i => (i, nth (i - k) l d)) (seq k (length l)).
Proof.
  intros A d. induction l as [|y r IH]; intros k; cbn [length seq combine map]; [reflexivity|].
  rewrite Nat.sub_diag. cbn [nth]. f_equal. rewrite IH. apply map_ext_in. intros i Hi. apply in_seq in Hi.
  replace (i - k)%nat with (S (i - S k)) by lia. reflexivity.
Qed.

Lemma filter_map_comm : forall {A B} (f : B -> bool) (g : A -> B) l,
  filter f (map g l) = map g (filter (fun x => f (g x)) l).
Proof.
  induction l as [|x r IH]; cbn [map filter]; [reflexivity|]. destruct (f (g x)); cbn [map]; rewrite IH; reflexivity.
Qed.

Lemma tracked_list_eq : forall s,
  tracked_list s = map (mk_cand s) (filter (fun p => p_tracked (peer_at s p)) (seq 0 (length (peers s)))).
Proof.
  intros s. unfold tracked_list. rewrite (combine_seq_nth nopeer).
  replace (map (fun i : nat => (i, nth (i - 0) (peers s) nopeer)) (seq 0 (length (peers s))))
    with (map (mk_cand s) (seq 0 (length (peers s)))).
  - rewrite filter_map_comm. reflexivity.
  - apply map_ext. intros i. unfold mk_cand, peer_at, get. rewrite Nat.sub_0_r. reflexivity.
Qed.

Lemma pids_abs : forall s, pids (abs s) = seq 0 (length (peers s)).
Proof. intros. unfold pids, abs. cbn [a_peers]. rewrite map_length. reflexivity. Qed.

Lemma eligible_abs : forall cfg s p,
  eligible cfg (abs s) p =
  p_tracked (peer_at s p) && (negb (is_prot (prot s) p) && (p_first (peer_at s p) <=? now s - c_grace cfg)).
Proof. intros. unfold eligible. rewrite ap_at_abs. cbn. rewrite andb_assoc. reflexivity. Qed.

Lemma filter_filter : forall {A} (f g : A -> bool) l, filter f (filter g l) = filter (fun x => g x && f x) l.
Proof.
  induction l as [|x r IH]; cbn [filter]; [reflexivity|]. destruct (g x); cbn [filter andb]; [destruct (f x)|]; rewrite IH; reflexivity.
Qed.

(* the candidate list of getConnsToClose is exactly the eligible peers *)
Lemma cands_eq : forall cfg s,
  filter (fun x : cand => negb (is_prot (prot s) (fst x)) && (p_first (snd x) <=? now s - c_grace cfg))
         (tracked_list s)
  = map (mk_cand s) (filter (eligible cfg (abs s)) (pids (abs s))).
Proof.
  intros. rewrite tracked_list_eq, filter_map_comm, filter_filter, pids_abs. f_equal.
  apply filter_ext. intros p. rewrite eligible_abs. reflexivity.
Qed.

Lemma nconns_cands : forall cfg s,
  nconns (map (mk_cand s) (filter (eligible cfg (abs s)) (pids (abs s)))) = ncand_a cfg (abs s).
Proof.
  intros. unfold nconns, ncand_a. rewrite map_map. f_equal. apply map_ext. intros p.
  rewrite ap_at_abs. reflexivity.
Qed.

Lemma acount_abs : forall s, inv s -> acount (abs s) = count s.
Proof.
  intros s [_ HC]. unfold acount, abs. cbn [a_peers]. rewrite map_map. rewrite HC. reflexivity.
Qed.

Lemma total_abs : forall s p, inv s -> total (ap_at (abs s) p) = p_value (peer_at s p).
Proof.
  intros s p H. rewrite ap_at_abs. destruct (peer_at_ok s p H) as [_ [Hv _]]. unfold total. cbn. lia.
Qed.

(* ---- a sorted list split into a closed prefix and a kept suffix ---------------------------- *)
Definition kle (x y : cand) : Prop := key_le x y = true.

Lemma sorted_app : forall l1 l2, StronglySorted kle (l1 ++ l2) ->
  forall x y, In x l1 -> In y l2 -> kle x y.
Proof.
  induction l1 as [|a r IH]; intros l2 H x y Hx Hy; [destruct Hx|].
  cbn [app] in H. inversion H as [|? ? Hs Hf]; subst. destruct Hx as [Hx|Hx].
  - subst. rewrite Forall_forall in Hf. apply Hf. apply in_or_app. right. exact Hy.
  - exact (IH l2 Hs x y Hx Hy).
Qed.

Section Prefix.
  Variable s : state.
  Hypothesis Hinv : inv s.
  Variables l1 l2 : list cand.
  Variable cl : list (nat * nat).
  Hypothesis Hmk : forall x, In x (l1 ++ l2) -> x = mk_cand s (fst x) /\ p_tracked (snd x) = true.
  Hypothesis Hsorted : StronglySorted kle (l1 ++ l2).
  Hypothesis Hcl : forall x, In x (allconns l1) -> In x cl.

  Lemma prefix_not_kept : forall p pi, In (p, pi) l1 -> keptp (abs s) cl p = false.
  Proof.
    intros p pi Hin. unfold keptp. apply not_true_is_false. intros Hk.
    apply existsb_exists in Hk. destruct Hk as [c [Hc Hn]]. apply negb_true_iff in Hn.
    assert (Hm : memp (p, c) cl = true); [|congruence].
    apply memp_In, Hcl, in_allconns. exists pi. split; [exact Hin|].
    destruct (Hmk (p, pi)) as [He _]; [apply in_or_app; left; exact Hin|].
    cbn [fst] in He. unfold mk_cand in He. inversion He as [He']. rewrite ap_at_abs in Hc. cbn in Hc.
    exact Hc.
  Qed.

  (* a peer with a closed connection in the prefix is never strictly above a
     peer of the suffix that holds a connection *)
  Lemma prefix_order : forall p pi c q piq,
    In (p, pi) l1 -> In c (p_conns pi) -> In (q, piq) l2 -> p_conns piq <> [] ->
    (total (ap_at (abs s) q) <? total (ap_at (abs s) p)) = false.
  Proof.
    intros p pi c q piq Hp Hc Hq Hnq.
    pose proof (sorted_app l1 l2 Hsorted _ _ Hp Hq) as Hk. unfold kle, key_le in Hk. cbn [snd] in Hk.
    destruct (Hmk (p, pi)) as [Hep Htp]; [apply in_or_app; left; exact Hp|].
    destruct (Hmk (q, piq)) as [Heq Htq]; [apply in_or_app; right; exact Hq|].
    cbn [fst snd] in *. unfold mk_cand in Hep, Heq. inversion Hep as [Hep']. inversion Heq as [Heq'].
    destruct (peer_at_ok s p Hinv) as [_ [_ Htmp]]. rewrite <- Hep' in Htmp. specialize (Htmp Htp).
    destruct (p_conns pi) eqn:Ecs; [destruct Hc|]. cbn [is_nil] in Htmp. rewrite Htmp in Hk. cbn [orb] in Hk.
    apply andb_true_iff in Hk. destruct Hk as [_ Hk]. apply Z.leb_le in Hk.
    rewrite !total_abs by exact Hinv. rewrite <- Hep', <- Heq'. apply Z.ltb_ge. exact Hk.
  Qed.
End Prefix.

(* ---- (B) the model's trims ---------------------------------------------------------------- *)
Section WithSort.
  Variable sort : list cand -> list cand.
  Hypothesis sort_perm : forall l, Permutation (sort l) l.
  Hypothesis sort_sorted : forall l, StronglySorted kle (sort l).

  Lemma keptp_has_conn : forall s cl q, keptp (abs s) cl q = true -> p_conns (peer_at s q) <> [].
  Proof.
    intros s cl q H. unfold keptp in H. rewrite ap_at_abs in H. cbn in H.
    destruct (p_conns (peer_at s q)); [discriminate|discriminate].
  Qed.

  Lemma model_trim_ok_l : forall cfg s, inv s ->
    trim_ok cfg (abs s) (snd (trim sort cfg s)) = true.
  Proof.
    intros cfg s Hinv. unfold trim, trim_ok, disabled.
    destruct ((c_low cfg =? 0) || (c_high cfg =? 0)) eqn:Ed; cbn [orb snd]; [reflexivity|].
    rewrite (acount_abs s Hinv). destruct (count s <=? c_low cfg) eqn:Ec; cbn [orb snd]; [reflexivity|].
    rewrite (select_g_eq _ _ _ (cands_first cfg s sort sort_perm)).
    rewrite cands_eq, nconns_cands.
    destruct (ncand_a cfg (abs s) <? c_low cfg) eqn:En; cbn [snd]; [reflexivity|].
    set (ids := filter (eligible cfg (abs s)) (pids (abs s))).
    set (cands := map (mk_cand s) ids).
    destruct (select (sort cands) (ncand_a cfg (abs s) - c_low cfg)) as [[sel pr] t] eqn:Es. cbn [snd].
    destruct (select_split _ _ _ _ _ Es) as [l1 [l2 [E1 [E2 [E3 [E4 _]]]]]].
    assert (Hin_c : forall x, In x (l1 ++ l2) -> In x cands)
      by (intros x Hx; rewrite <- E1 in Hx; exact (Permutation_in _ (sort_perm cands) Hx)).
    assert (Hmk : forall x, In x (l1 ++ l2) -> x = mk_cand s (fst x) /\ p_tracked (snd x) = true).
    { intros x Hx. apply Hin_c in Hx. unfold cands in Hx. apply in_map_iff in Hx.
      destruct Hx as [p [He Hp]]. subst x. cbn [fst snd mk_cand]. split; [reflexivity|].
      unfold ids in Hp. apply filter_In in Hp. destruct Hp as [_ Hp]. rewrite eligible_abs in Hp.
      apply andb_true_iff in Hp. tauto. }
    assert (Hel : forall x, In x (l1 ++ l2) -> eligible cfg (abs s) (fst x) = true).
    { intros x Hx. apply Hin_c in Hx. unfold cands in Hx. apply in_map_iff in Hx.
      destruct Hx as [p [He Hp]]. subst x. cbn [fst mk_cand]. unfold ids in Hp. apply filter_In in Hp. tauto. }
    assert (Hsorted : StronglySorted kle (l1 ++ l2)) by (rewrite <- E1; apply sort_sorted).
    assert (Hcl : forall x, In x (allconns l1) -> In x sel) by (intros x Hx; rewrite E2; exact Hx).
    (* every eligible peer is in the sorted list *)
    assert (Hall : forall q, eligible cfg (abs s) q = true -> In q (pids (abs s)) -> In (mk_cand s q) (l1 ++ l2)).
    { intros q Hq Hp. rewrite <- E1. apply (Permutation_in _ (Permutation_sym (sort_perm cands))).
      unfold cands. apply in_map. unfold ids. apply filter_In. split; assumption. }
    repeat (apply andb_true_iff; split).
    - (* only eligible peers, tracked connections *)
      unfold closes_only_eligible. apply forallb_forall. intros [p c] Hx. rewrite E2 in Hx.
      apply in_allconns in Hx. destruct Hx as [pi [Hp Hc]]. cbn [fst snd].
      assert (Hpl : In (p, pi) (l1 ++ l2)) by (apply in_or_app; left; exact Hp).
      pose proof (Hel _ Hpl) as Hep. cbn [fst] in Hep. rewrite Hep. cbn [andb]. apply memn_In. rewrite ap_at_abs. cbn.
      destruct (Hmk _ Hpl) as [He _]. cbn [fst] in He. unfold mk_cand in He. inversion He as [He']. rewrite <- He'. exact Hc.
    - (* whole peers *)
      apply forallb_forall. intros [p c] Hx. rewrite E2 in Hx. apply in_allconns in Hx.
      destruct Hx as [pi [Hp _]]. cbn [fst]. apply negb_true_iff.
      exact (prefix_not_kept s l1 l2 sel Hmk Hcl p pi Hp).
    - (* lowest first *)
      unfold lowest_first. apply forallb_forall. intros [p c] Hx. rewrite E2 in Hx. apply in_allconns in Hx.
      destruct Hx as [pi [Hp Hc]]. cbn [fst]. apply forallb_forall. intros q Hq. apply negb_true_iff.
      destruct (eligible cfg (abs s) q) eqn:Eq; [|reflexivity]. cbn [andb].
      destruct (keptp (abs s) sel q) eqn:Ek; [|reflexivity]. cbn [andb].
      pose proof (Hall q Eq Hq) as Hin. apply in_app_or in Hin. destruct Hin as [Hin|Hin].
      + rewrite (prefix_not_kept s l1 l2 sel Hmk Hcl q _ Hin) in Ek. discriminate.
      + apply (prefix_order s Hinv l1 l2 Hmk Hsorted p pi c q (peer_at s q) Hp Hc Hin).
        exact (keptp_has_conn s sel q Ek).
    - (* at most low eligible connections are left *)
      apply Z.leb_le. unfold remaining_eligible. fold ids.
      assert (Hperm : Permutation ids (map fst (l1 ++ l2))).
      { rewrite <- E1. apply Permutation_sym.
        apply (Permutation_trans (Permutation_map fst (sort_perm cands))).
        unfold cands. rewrite map_map. cbn [mk_cand fst]. rewrite map_id. apply Permutation_refl. }
      rewrite (zsum_perm _ _ (Permutation_map (remaining_of (abs s) sel) Hperm)).
      rewrite map_app, map_app, zsum_app.
      match goal with |- ?a + ?b <= _ => set (X1 := a); set (X2 := b) end.
      assert (H1 : X1 = 0).
      { unfold X1. apply zsum_map_zero. intros p Hp. apply in_map_iff in Hp. destruct Hp as [[p' pi] [He Hp]]. cbn [fst] in He. subst p'.
        pose proof (prefix_not_kept s l1 l2 sel Hmk Hcl p pi Hp) as Hk. unfold keptp in Hk. unfold remaining_of.
        induction (a_conns (ap_at (abs s) p)) as [|c r IH]; [reflexivity|].
        cbn [existsb filter] in *. apply orb_false_iff in Hk. destruct Hk as [Hk1 Hk2]. rewrite Hk1. exact (IH Hk2). }
      assert (H2 : X2 <= nconns l2).
      { unfold X2, nconns. rewrite map_map. apply zsum_map_le. intros x Hx. unfold remaining_of.
        destruct (Hmk x) as [He _]; [apply in_or_app; right; exact Hx|].
        rewrite ap_at_abs. cbn [abs_peer a_conns]. rewrite He at 2. cbn [snd mk_cand]. apply zlen_filter_le. }
      assert (H3 : nconns l1 + nconns l2 = ncand_a cfg (abs s)).
      { rewrite <- nconns_app, <- E1, <- (nconns_cands cfg s). fold ids. fold cands.
        unfold nconns. apply zsum_perm, Permutation_map, sort_perm. }
      destruct E4 as [E4|E4].
      + rewrite E4 in H2. unfold nconns in H2. cbn [map zsum] in H2. lia.
      + lia.
  Qed.

  (* temporary entries pruned by a trim hold no connection and are tracked *)
  Lemma trim_pruned : forall cfg s, inv s ->
    exists pr, fst (trim sort cfg s) = fold_left (fun s' p => set_peer s' p nopeer) pr s
               /\ forall p, In p pr -> p_conns (peer_at s p) = [] /\ p_tracked (peer_at s p) = true.
  Proof.
    intros cfg s Hinv. unfold trim.
    destruct ((c_low cfg =? 0) || (c_high cfg =? 0)); [exists []; split; [reflexivity|intros p []]|].
    destruct (count s <=? c_low cfg); [exists []; split; [reflexivity|intros p []]|].
    rewrite (select_g_eq _ _ _ (cands_first cfg s sort sort_perm)).
    rewrite cands_eq.
    destruct (_ <? c_low cfg); [exists []; split; [reflexivity|intros p []]|].
    match goal with |- context [select ?l ?t] => destruct (select l t) as [[sel pr] t'] eqn:Es end.
    exists pr. split; [reflexivity|]. intros p Hp.
    destruct (select_split _ _ _ _ _ Es) as [l1 [l2 [E1 [_ [_ [_ E5]]]]]].
    destruct (E5 p Hp) as [pi [Hin Hc]].
    assert (Hx : In (p, pi) (sort (map (mk_cand s) (filter (eligible cfg (abs s)) (pids (abs s))))))
      by (rewrite E1; apply in_or_app; left; exact Hin).
    apply (Permutation_in _ (sort_perm _)) in Hx. apply in_map_iff in Hx. destruct Hx as [q [He Hq]].
    unfold mk_cand in He. inversion He; subst. split; [exact Hc|].
    apply filter_In in Hq. destruct Hq as [_ Hq]. rewrite eligible_abs in Hq. apply andb_true_iff in Hq. tauto.
  Qed.

  Lemma inv_trim : forall cfg s, inv s -> inv (fst (trim sort cfg s)).
  Proof.
    intros cfg s H. destruct (trim_pruned cfg s H) as [pr [E Hp]]. rewrite E.
    apply inv_prune; [exact H|]. intros p Hin. apply Hp, Hin.
  Qed.

  (* ---- ForceTrim ----------------------------------------------------------------------- *)
  Lemma tracked_mk : forall s x, In x (tracked_list s) -> x = mk_cand s (fst x) /\ p_tracked (snd x) = true.
  Proof.
    intros s x Hx. rewrite tracked_list_eq in Hx. apply in_map_iff in Hx. destruct Hx as [p [He Hp]].
    subst x. cbn [fst snd mk_cand]. split; [reflexivity|]. apply filter_In in Hp. tauto.
  Qed.

  Lemma in_tracked : forall s q, p_tracked (peer_at s q) = true -> In (mk_cand s q) (tracked_list s).
  Proof.
    intros s q H. rewrite tracked_list_eq. apply in_map. apply filter_In. split; [|exact H].
    apply in_seq. pose proof (tracked_in_range s q H). lia.
  Qed.

  Lemma has_conn_tracked : forall s q, inv s -> p_conns (peer_at s q) <> [] -> p_tracked (peer_at s q) = true.
  Proof.
    intros s q H Hc. destruct (peer_at_ok s q H) as [Hu _]. destruct (p_tracked (peer_at s q)); [reflexivity|].
    rewrite (Hu eq_refl) in Hc. cbn in Hc. congruence.
  Qed.

  Lemma select_zero : forall l t, t <= 0 -> select l t = ([], [], t).
  Proof. intros [|[p pi] r] t H; cbn [select]; [reflexivity|]. apply Z.leb_le in H. rewrite H. reflexivity. Qed.

  Lemma model_force_ok_l : forall cfg s, inv s -> force_prop cfg (abs s) (force_trim sort cfg s) = true.
  Proof.
    intros cfg s Hinv. unfold force_trim. cbv zeta.
    assert (Hnil : force_prop cfg (abs s) [] = true).
    { unfold force_prop. cbn [forallb andb is_nil]. destruct (acount (abs s) <=? c_low cfg); reflexivity. }
    destruct (count s - c_low cfg <? 0) eqn:Et; [exact Hnil|]. apply Z.ltb_ge in Et.
    set (c1 := filter (fun x : cand => negb (is_prot (prot s) (fst x))) (tracked_list s)).
    destruct (select (sort c1) (count s - c_low cfg)) as [[sel1 pr1] t1] eqn:Es1.
    destruct (select_split _ _ _ _ _ Es1) as [l1 [l2 [E1 [E2 [E3 [E4 _]]]]]].
    assert (Hc1 : forall x, In x (l1 ++ l2) -> In x c1)
      by (intros x Hx; rewrite <- E1 in Hx; exact (Permutation_in _ (sort_perm c1) Hx)).
    assert (Hmk1 : forall x, In x (l1 ++ l2) -> x = mk_cand s (fst x) /\ p_tracked (snd x) = true).
    { intros x Hx. apply Hc1 in Hx. unfold c1 in Hx. apply filter_In in Hx. apply tracked_mk. tauto. }
    assert (Hun1 : forall x, In x (l1 ++ l2) -> is_prot (prot s) (fst x) = false).
    { intros x Hx. apply Hc1 in Hx. unfold c1 in Hx. apply filter_In in Hx. apply negb_true_iff. tauto. }
    assert (Hun1' : forall p pi, In (p, pi) (l1 ++ l2) -> is_prot (prot s) p = false)
      by (intros p pi Hx; exact (Hun1 (p, pi) Hx)).
    assert (Hs1 : StronglySorted kle (l1 ++ l2)) by (rewrite <- E1; apply sort_sorted).
    assert (Hall1 : forall q, is_prot (prot s) q = false -> p_tracked (peer_at s q) = true -> In (mk_cand s q) (l1 ++ l2)).
    { intros q Hq Ht. rewrite <- E1. apply (Permutation_in _ (Permutation_sym (sort_perm c1))).
      unfold c1. apply filter_In. split; [apply in_tracked, Ht|]. cbn [fst mk_cand]. rewrite Hq. reflexivity. }
    (* F4 in both branches *)
    assert (HF4 : forall cl : list (nat * nat), (count s - c_low cfg = 0 -> cl = []) ->
                  (if acount (abs s) <=? c_low cfg then is_nil cl else true) = true).
    { intros cl Hz. rewrite (acount_abs s Hinv). destruct (count s <=? c_low cfg) eqn:Ec; [|reflexivity].
      apply Z.leb_le in Ec. rewrite Hz by lia. reflexivity. }
    assert (Hsel0 : count s - c_low cfg = 0 -> sel1 = [] /\ t1 = 0).
    { intros Hz. rewrite Hz in Es1. rewrite select_zero in Es1 by lia. inversion Es1. split; reflexivity. }
    destruct (t1 <=? zlen sel1) eqn:Eb.
    - (* enough unprotected connections *)
      assert (Hcl : forall x, In x (allconns l1) -> In x sel1) by (intros x Hx; rewrite E2; exact Hx).
      unfold force_prop. repeat (apply andb_true_iff; split).
      + apply forallb_forall. intros [p c] Hx. rewrite E2 in Hx. apply in_allconns in Hx.
        destruct Hx as [pi [Hp Hc]]. cbn [fst snd]. apply memn_In. rewrite ap_at_abs. cbn.
        destruct (Hmk1 (p, pi)) as [He _]; [apply in_or_app; left; exact Hp|].
        cbn [fst] in He. unfold mk_cand in He. inversion He as [He']. rewrite <- He'. exact Hc.
      + apply forallb_forall. intros [p c] Hx. rewrite E2 in Hx. apply in_allconns in Hx.
        destruct Hx as [pi [Hp _]]. cbn [fst abs a_prot].
        rewrite (Hun1' p pi) by (apply in_or_app; left; exact Hp). reflexivity.
      + apply forallb_forall. intros [p c] Hx. rewrite E2 in Hx. apply in_allconns in Hx.
        destruct Hx as [pi [Hp Hc]]. cbn [fst abs a_prot]. apply forallb_forall. intros q Hq. apply negb_true_iff.
        rewrite (Hun1' p pi) by (apply in_or_app; left; exact Hp).
        destruct (is_prot (prot s) q) eqn:Eq; [reflexivity|]. cbn [Bool.eqb andb].
        change (mkAS (map abs_peer (peers s)) (prot s) (now s) (dst s)) with (abs s).
        destruct (keptp (abs s) sel1 q) eqn:Ek; [|reflexivity]. cbn [andb].
        pose proof (keptp_has_conn s sel1 q Ek) as Hcq.
        pose proof (Hall1 q Eq (has_conn_tracked s q Hinv Hcq)) as Hin. apply in_app_or in Hin. destruct Hin as [Hin|Hin].
        * rewrite (prefix_not_kept s l1 l2 sel1 Hmk1 Hcl q _ Hin) in Ek. discriminate.
        * exact (prefix_order s Hinv l1 l2 Hmk1 Hs1 p pi c q (peer_at s q) Hp Hc Hin Hcq).
      + apply HF4. intros Hz. apply Hsel0, Hz.
    - (* not enough: second pass over all peers *)
      apply Z.leb_gt in Eb. pose proof (zlen_nonneg sel1) as Hnn.
      destruct E4 as [E4|E4]; [|lia]. subst l2. rewrite app_nil_r in *.
      destruct (select (sort (tracked_list s)) t1) as [[sel2 pr2] t2] eqn:Es2.
      destruct (select_split _ _ _ _ _ Es2) as [k1 [k2 [G1 [G2 [_ [_ _]]]]]].
      assert (Hk : forall x, In x (k1 ++ k2) -> In x (tracked_list s))
        by (intros x Hx; rewrite <- G1 in Hx; exact (Permutation_in _ (sort_perm _) Hx)).
      assert (Hmk2 : forall x, In x (k1 ++ k2) -> x = mk_cand s (fst x) /\ p_tracked (snd x) = true)
        by (intros x Hx; apply tracked_mk, Hk, Hx).
      assert (Hs2 : StronglySorted kle (k1 ++ k2)) by (rewrite <- G1; apply sort_sorted).
      assert (Hall2 : forall q, p_tracked (peer_at s q) = true -> In (mk_cand s q) (k1 ++ k2)).
      { intros q Ht. rewrite <- G1. apply (Permutation_in _ (Permutation_sym (sort_perm _))). apply in_tracked, Ht. }
      assert (Hcl1 : forall x, In x (allconns l1) -> In x (sel1 ++ sel2))
        by (intros x Hx; apply in_or_app; left; rewrite E2; exact Hx).
      assert (Hcl2 : forall x, In x (allconns k1) -> In x (sel1 ++ sel2))
        by (intros x Hx; apply in_or_app; right; rewrite G2; exact Hx).
      assert (Hmk1' : forall x, In x (l1 ++ []) -> x = mk_cand s (fst x) /\ p_tracked (snd x) = true)
        by (intros x Hx; rewrite app_nil_r in Hx; apply Hmk1, Hx).
      (* every unprotected peer is entirely closed *)
      assert (Hunk : forall q, is_prot (prot s) q = false -> keptp (abs s) (sel1 ++ sel2) q = false).
      { intros q Hq. destruct (keptp (abs s) (sel1 ++ sel2) q) eqn:Ek; [|reflexivity].
        pose proof (keptp_has_conn s _ q Ek) as Hcq.
        pose proof (Hall1 q Hq (has_conn_tracked s q Hinv Hcq)) as Hin.
        rewrite <- Ek. apply (prefix_not_kept s l1 [] (sel1 ++ sel2) Hmk1' Hcl1 q (peer_at s q)). exact Hin. }
      unfold force_prop. repeat (apply andb_true_iff; split).
      + apply forallb_forall. intros [p c] Hx. cbn [fst snd]. apply memn_In. rewrite ap_at_abs. cbn.
        apply in_app_or in Hx. destruct Hx as [Hx|Hx].
        * rewrite E2 in Hx. apply in_allconns in Hx. destruct Hx as [pi [Hp Hc]].
          destruct (Hmk1 (p, pi) Hp) as [He _]. cbn [fst] in He. unfold mk_cand in He. inversion He as [He']. rewrite <- He'. exact Hc.
        * rewrite G2 in Hx. apply in_allconns in Hx. destruct Hx as [pi [Hp Hc]].
          destruct (Hmk2 (p, pi)) as [He _]; [apply in_or_app; left; exact Hp|].
          cbn [fst] in He. unfold mk_cand in He. inversion He as [He']. rewrite <- He'. exact Hc.
      + apply forallb_forall. intros [p c] _. cbn [fst]. apply orb_true_iff. right.
        unfold all_unprotected_closed. apply forallb_forall. intros q _. cbn [abs a_prot].
        destruct (is_prot (prot s) q) eqn:Eq; [reflexivity|]. cbn [orb]. apply negb_true_iff.
        change (mkAS (map abs_peer (peers s)) (prot s) (now s) (dst s)) with (abs s). apply Hunk, Eq.
      + apply forallb_forall. intros [p c] Hx. cbn [fst abs a_prot]. apply forallb_forall. intros q Hq. apply negb_true_iff.
        change (mkAS (map abs_peer (peers s)) (prot s) (now s) (dst s)) with (abs s).
        destruct (keptp (abs s) (sel1 ++ sel2) q) eqn:Ek; [|rewrite andb_false_r; reflexivity].
        destruct (is_prot (prot s) q) eqn:Eq; [|rewrite (Hunk q Eq) in Ek; discriminate].
        destruct (is_prot (prot s) p) eqn:Ep; [|reflexivity]. cbn [Bool.eqb andb].
        (* p protected: its closed connection comes from the second pass *)
        apply in_app_or in Hx. destruct Hx as [Hx|Hx].
        * rewrite E2 in Hx. apply in_allconns in Hx. destruct Hx as [pi [Hp _]].
          rewrite (Hun1' p pi Hp) in Ep. discriminate.
        * rewrite G2 in Hx. apply in_allconns in Hx. destruct Hx as [pi [Hp Hc]].
          pose proof (keptp_has_conn s _ q Ek) as Hcq.
          pose proof (Hall2 q (has_conn_tracked s q Hinv Hcq)) as Hin. apply in_app_or in Hin. destruct Hin as [Hin|Hin].
          -- rewrite (prefix_not_kept s k1 k2 (sel1 ++ sel2) Hmk2 Hcl2 q _ Hin) in Ek. discriminate.
          -- exact (prefix_order s Hinv k1 k2 Hmk2 Hs2 p pi c q (peer_at s q) Hp Hc Hin Hcq).
      + apply HF4. intros Hz. destruct (Hsel0 Hz) as [Hz1 Hz2]. subst sel1 t1. unfold zlen in Eb. cbn in Eb. lia.
  Qed.
End WithSort.

(* ---- (C) insertion sort ----------------------------------------------------------------- *)
Lemma key_le_total : forall x y, key_le x y = false -> key_le y x = true.
Proof.
  intros x y. unfold key_le. destruct (p_temp (snd x)), (p_temp (snd y)); cbn; intros H; try discriminate; try reflexivity.
  apply Z.leb_gt in H. apply Z.leb_le. lia.
Qed.

Lemma key_le_trans : forall x y z, key_le x y = true -> key_le y z = true -> key_le x z = true.
Proof.
  intros x y z. unfold key_le. destruct (p_temp (snd x)), (p_temp (snd y)), (p_temp (snd z)); cbn; intros H1 H2;
    try discriminate; try reflexivity.
  apply Z.leb_le in H1, H2. apply Z.leb_le. lia.
Qed.

Lemma insert_perm : forall x l, Permutation (insert x l) (x :: l).
Proof.
  induction l as [|y r IH]; cbn [insert]; [apply Permutation_refl|].
  destruct (key_le x y); [apply Permutation_refl|].
  apply (Permutation_trans (perm_skip y IH)). apply perm_swap.
Qed.

Lemma isort_perm : forall l, Permutation (isort l) l.
Proof.
  induction l as [|x r IH]; cbn [isort]; [apply Permutation_refl|].
  apply (Permutation_trans (insert_perm x (isort r))). apply perm_skip, IH.
Qed.

Lemma insert_sorted : forall x l, StronglySorted kle l -> StronglySorted kle (insert x l).
Proof.
  induction l as [|y r IH]; intros H; cbn [insert]; [repeat constructor|].
  inversion H as [|? ? Hs Hf]; subst. destruct (key_le x y) eqn:E.
  - constructor; [exact H|]. constructor; [exact E|].
    rewrite Forall_forall in *. intros z Hz. exact (key_le_trans x y z E (Hf z Hz)).
  - constructor; [apply IH, Hs|].
    apply (Permutation_Forall (Permutation_sym (insert_perm x r))). constructor; [apply key_le_total, E|exact Hf].
Qed.

Lemma isort_sorted : forall l, StronglySorted kle (isort l).
Proof. induction l as [|x r IH]; cbn [isort]; [constructor|]. apply insert_sorted, IH. Qed.

(* C14 — the monitor for traces with TWO trims in flight (event alphabet of
   Conc2.v) and the decoder of the implementation's OVERLAP cases (wire kind 3).
   The monitor keeps the cache-free bookkeeping of Spec.v (what the delivered
   operations imply) and, per trim thread, which peers that trim snapshotted as
   candidates.  Clauses (never more than the property text):
     [30] a regular trim closed a connection of a peer it never snapshotted,
     [31] ... of a peer that was protected when THIS trim examined it under the
          segment lock (plk read-held), [32] ... inside its grace period then,
     [33] a regular trim that found the count at or below low closed something,
     [35] an entry deleted by a trim (prune) held a connection - this is how a
          delete-by-id through a stale pointer shows: the count and the tag
          totals stop being what the notifications imply,
     [42] two trims of the same thread in flight,
   and at the observation points [3]/[4] count and totals (decoder below).
   A ForceTrim thread's closed set is judged by force_code (Spec.v) when no
   operation ran inside it.  No proofs here. *)
From Coq Require Import List Arith ZArith Bool.
From Verif Require Import lib.Wire c14.Model c14.Spec c14.Conc c14.SpecConc c14.Conc2.
Import ListNotations.
Local Open Scope Z_scope.

Record mth := mkMT {
  mt_active : bool; mt_force : bool; mt_proceed : bool; mt_g : Z;
  mt_cands : list nat; mt_bad : list (nat * Z)
}.

Definition mt_init : mth := mkMT false false false 0 [] [].

Record m2 := mkM2 { m2_a : astate; m2_A : mth; m2_B : mth }.

Definition m2_init (a : astate) : m2 := mkM2 a mt_init mt_init.

Definition m2_get (m : m2) (i : bool) : mth := if i then m2_B m else m2_A m.
Definition m2_set (m : m2) (i : bool) (t : mth) : m2 :=
  if i then mkM2 (m2_a m) (m2_A m) t else mkM2 (m2_a m) t (m2_B m).

Fixpoint closed_code2 (cands : list nat) (bad : list (nat * Z)) (cl : list (nat * nat)) : Z :=
  match cl with
  | [] => 0
  | (p, _) :: r => if memn p cands then closed_code2 cands bad r else lookup_code p bad
  end.

Definition cmon2_step (cfg : config) (m : m2) (ev : ev2) : m2 + Z :=
  let a := m2_a m in
  match ev with
  | VOp o =>
      match o with
      | Trim | ForceTrim => inr 40
      | _ => inl (mkM2 (astep cfg a o) (m2_A m) (m2_B m))
      end
  | VBegin i force =>
      if mt_active (m2_get m i) then inr 42 else
      inl (m2_set m i (mkMT true force (force || (negb (disabled cfg) && negb (acount a <=? c_low cfg)))
                            (a_now a - c_grace cfg) [] []))
  | VSnap i p =>
      let t := m2_get m i in
      let x := ap_at a p in
      if negb (a_known x) then inl m
      else if is_prot (a_prot a) p then
        inl (m2_set m i (mkMT (mt_active t) (mt_force t) (mt_proceed t) (mt_g t) (mt_cands t) ((p, 31) :: mt_bad t)))
      else if negb (mt_force t) && negb (a_first x <=? mt_g t) then
        inl (m2_set m i (mkMT (mt_active t) (mt_force t) (mt_proceed t) (mt_g t) (mt_cands t) ((p, 32) :: mt_bad t)))
      else
        inl (m2_set m i (mkMT (mt_active t) (mt_force t) (mt_proceed t) (mt_g t) (mt_cands t ++ [p]) (mt_bad t)))
  | VSnapEnd _ => inl m
  | VPrune _ p | VStale _ p =>
      let x := ap_at a p in
      if a_known x && is_nil (a_conns x) then inl (mkM2 (aset a p noap) (m2_A m) (m2_B m)) else inr 35
  | VClosed i cl =>
      let t := m2_get m i in
      if negb (mt_active t) then inr 42
      else if mt_force t then inl (m2_set m i mt_init)
      else if negb (closed_code2 (mt_cands t) (mt_bad t) cl =? 0) then inr (closed_code2 (mt_cands t) (mt_bad t) cl)
      else if negb (mt_proceed t) && negb (is_nil cl) then inr 33
      else inl (m2_set m i mt_init)
  end.

Fixpoint cmon2 (cfg : config) (m : m2) (i : Z) (evs : list ev2) : m2 + list Z :=
  match evs with
  | [] => inl m
  | e :: r =>
      match cmon2_step cfg m e with
      | inl m' => cmon2 cfg m' (i + 1) r
      | inr code => inr [ERR_PROPERTY; i; code]
      end
  end.

(* no delete-by-id through a stale pointer happened *)
Definition no_stale (evs : list ev2) : bool :=
  forallb (fun e => match e with VStale _ _ => false | _ => true end) evs.

(* ---- overlap cases (wire kind 3) ------------------------------------------
   3 np low high grace res nd dtags.. npre <pre: (op obs)*>
     akind                  12 = thread A is TrimOpenConns, 13 = ForceTrim
     dt                     clock advance that makes the background loop tick
     xa                     1 = thread A's selection went first, 0 = thread B's
     ns1 script1..          ops run when BOTH snapshots were complete and no
                            selection had started (both trims wait for
                            bucketsMu, which the harness holds)
     npr pruned..           entries present before, absent when script 2 ran
     nl locked..            peers whose segment the second trim held (parked in
                            its comparator) while the first trim's selection ran
     ns2 script2..          ops run after the first trim's selection had gone
                            as far as it could, before the second trim's
     obs                    count, peers, closed (union) at quiescence
     nA closedA.. nB closedB..   what each trim closed
     <post: (op obs)*>
   Schedule in the LTS: prefix; A: begin, snapshot; Advance dt; B: begin,
   snapshot; script 1; X: sort, selection up to the first locked peer;
   script 2; Y: sort, selection, closes; X: the rest, closes. *)
Definition ovl := (Z * nat * bool * list op * list nat * list nat * list op * obs * list (nat * nat) * list (nat * nat))%type.

Definition snap_events (i : bool) (np : nat) : list ev2 := map (VSnap i) (seq 0 np) ++ [VSnapEnd i].

Definition monitor_overlap (cfg : config) (np : nat) (pre : list (op * obs)) (ev : ovl) (post : list (op * obs)) : list Z :=
  let '(akind, dt, xa, s1, pruned, locked, s2, x, clA, clB) := ev in
  match mon_prefix cfg np (ainit cfg) 0 pre with
  | inr d => d
  | inl (a0, i) =>
      let force := akind =? 13 in
      let head := [VBegin false force] ++ snap_events false np ++ [VOp (Advance dt); VBegin true false]
                  ++ snap_events true np ++ map VOp s1 ++ map (VPrune (negb xa)) pruned ++ map VOp s2 in
      match cmon2 cfg (m2_init a0) i head with
      | inr d => reindex i d
      | inl m1 =>
          let late :=
            filter (fun p => let a := ap_at (m2_a m1) p in
                             a_known a && is_nil (a_conns a) && negb (fst (fst (nth p (o_peers x) (true, 0, 0)))))
                   (seq 0 np) in
          match cmon2 cfg m1 i (map (VPrune xa) late ++ [VClosed false clA; VClosed true clB]) with
          | inr d => reindex i d
          | inl m2' =>
              let a2 := m2_a m2' in
              if force && is_nil s1 && is_nil s2 && negb (force_code cfg a0 clA =? 0)
              then [ERR_PROPERTY; i; force_code cfg a0 clA]
              else if negb (o_count x =? acount a2) then [ERR_PROPERTY; i; 3]
              else if negb (list_eqb pobs_eqb (o_peers x) (map (expect_peer a2) (seq 0 np))) then [ERR_PROPERTY; i; 4]
              else mon_run cfg np a2 (i + 1) post
          end
      end
  end.

(* ---- conformance of an overlap case: the LTS replays the schedule above (the
        sort of each trim resolved by the model's own insertion sort over the
        objects the entries point to) and must reproduce the entries pruned
        before script 2, the state at quiescence (count, presence, values of
        all peers) and, for regular trims, close only its own candidates -------- *)
Definition thr_of (cs : c2) (i : bool) : thr := if i then c_b cs else c_a cs.

Definition run1 (cfg : config) (cs : c2) (a : act2) : c2 * list ev2 :=
  match c2step true cfg cs a with Some r => r | None => (cs, []) end.

Fixpoint run_list (cfg : config) (cs : c2) (l : list act2) : c2 * list ev2 :=
  match l with
  | [] => (cs, [])
  | a :: r => let '(cs1, e1) := run1 cfg cs a in let '(cs2, e2) := run_list cfg cs1 r in (cs2, e1 ++ e2)
  end.

Definition snap_acts (i : bool) (np : nat) : list act2 := map (fun p => BAct i (KSnap p)) (seq 0 np) ++ [BAct i KSnapEnd].

Definition sort_act (i : bool) (cs : c2) : act2 :=
  BAct i (KSortEnd (map fst (isort (map (fun e => (e_p e, obj (c_s cs) e)) (t_cands (thr_of cs i)))))).

(* thread i runs until it needs the segment of a locked peer, or to the end *)
Fixpoint run_thread (fuel : nat) (cfg : config) (np : nat) (i : bool) (locked : list nat) (cs : c2) : c2 * list ev2 :=
  match fuel with
  | O => (cs, [])
  | S k =>
      let t := thr_of cs i in
      let go (l : list act2) :=
        let '(cs1, e1) := run_list cfg cs l in
        let '(cs2, e2) := run_thread k cfg np i locked cs1 in (cs2, e1 ++ e2) in
      match t_ph t with
      | QIdle => (cs, [])
      | QSnap _ => if t_pass2 t then go (snap_acts i np) else (cs, [])
      | QSort => go [sort_act i cs]
      | QSel (p :: _) => if memn p locked && (0 <? t_tg t) then (cs, []) else go [BAct i KSelect]
      | QSel [] => go [BAct i KSelect]
      | QClose => go [BAct i KFinish]
      end
  end.

Definition pruned_of (i : bool) (evs : list ev2) : list nat :=
  flat_map (fun e => match e with VPrune j p => if Bool.eqb i j then [p] else [] | _ => [] end) evs.

Definition same_set (a b : list nat) : bool := forallb (fun x => memn x b) a && forallb (fun x => memn x a) b.

Definition conform_overlap (cfg : config) (np : nat) (pre : list (op * obs)) (ev : ovl) (post : list (op * obs)) : list Z :=
  let '(akind, dt, xa, s1, pruned, locked, s2, x, clA, clB) := ev in
  match conf_prefix cfg np (init cfg) 0 pre with
  | inr d => d
  | inl (s0, i) =>
      let force := akind =? 13 in
      let fuel := (4 * np + 40)%nat in
      let cs0 := mkC2 s0 t_init t_init None in
      let '(cs1, _) := run_list cfg cs0 ((if force then [BForceRead; BBeginForce] else [BAct false KBegin]) ++ snap_acts false np
                                          ++ [BOp (Advance dt); BAct true KBegin] ++ snap_acts true np) in
      (* both trims must be waiting for their sort, as on the implementation *)
      match t_ph (c_a cs1), t_ph (c_b cs1) with
      | QSort, QSort =>
          let candsA := map e_p (t_cands (c_a cs1)) in
          let candsB := map e_p (t_cands (c_b cs1)) in
          let '(cs2, _) := run_list cfg cs1 (map BOp s1) in
          let ix := negb xa in
          let '(cs3a, e3a) := run_thread fuel cfg np ix locked cs2 in
          (* no segment held by a parked trim: both trims had finished when script 2 ran *)
          let '(cs3, e3b) := if is_nil locked then run_thread fuel cfg np (negb ix) [] cs3a else (cs3a, []) in
          let e3 := pruned_of ix e3a ++ pruned_of (negb ix) e3b in
          if negb (same_set e3 pruned) then [ERR_MISMATCH; i; 3; zlen e3; zlen pruned] else
          let '(cs4, _) := run_list cfg cs3 (map BOp s2) in
          let '(cs5, _) := run_thread fuel cfg np (negb ix) [] cs4 in
          let '(cs6, _) := run_thread fuel cfg np ix [] cs5 in
          let s6 := c_s cs6 in
          if negb (q_idle (t_ph (c_a cs6)) && q_idle (t_ph (c_b cs6))) then [ERR_MISMATCH; i; 4; 0; 0]
          else if negb (force || forallb (fun pc : nat * nat => memn (fst pc) candsA) clA) then [ERR_MISMATCH; i; 1; zlen clA; 0]
          else if negb (forallb (fun pc : nat * nat => memn (fst pc) candsB) clB) then [ERR_MISMATCH; i; 1; zlen clB; 1]
          else if negb (obs_state_eqb (mobs np s6 []) x) then [ERR_MISMATCH; i; 2; count s6; o_count x]
          else conform_run cfg np s6 (i + 1) post
      | _, _ => [ERR_MISMATCH; i; 5; 0; 0]
      end
  end.

Definition decode_overlap (l : list Z) : option (config * nat * list (op * obs) * ovl * list (op * obs)) :=
  match l with
  | 3 :: np :: low :: high :: grace :: res :: nd :: r =>
      if (np <? 0) || (64 <? np) || (nd <? 0) || (16 <? nd) || (res <=? 0) then None else
      match decode_dtags (znat nd) r with
      | Some (ds, npre :: r1) =>
          if (npre <? 0) || (100000 <? npre) then None else
          match decode_trace_n (znat npre) (znat np) r1 with
          | Some (pre, akind :: dt :: xa :: ns1 :: r2) =>
              if (ns1 <? 0) || (1000 <? ns1) || (dt <? 0) || (100000 <? dt) || negb ((akind =? 12) || (akind =? 13)) then None else
              match decode_ops (znat ns1) r2 with
              | Some (s1, npr :: r3) =>
                  if (npr <? 0) || (64 <? npr) then None else
                  match decode_nats (znat npr) r3 with
                  | Some (pruned, nl :: r4) =>
                      if (nl <? 0) || (64 <? nl) then None else
                      match decode_nats (znat nl) r4 with
                      | Some (locked, ns2 :: r5) =>
                          if (ns2 <? 0) || (1000 <? ns2) then None else
                          match decode_ops (znat ns2) r5 with
                          | Some (s2, r6) =>
                              match decode_obs (znat np) r6 with
                              | Some (x, na :: r7) =>
                                  if (na <? 0) || (1000 <? na) then None else
                                  match decode_pairs (znat na) r7 with
                                  | Some (clA, nb :: r8) =>
                                      if (nb <? 0) || (1000 <? nb) then None else
                                      match decode_pairs (znat nb) r8 with
                                      | Some (clB, r9) =>
                                          match decode_trace (S (length r9)) (znat np) r9 with
                                          | Some post =>
                                              if forallb script_op_ok s1 && forallb script_op_ok s2
                                              then Some (mkCfg low high grace res ds, znat np, pre,
                                                         (akind, znat dt, negb (xa =? 0), s1, pruned, locked, s2, x, clA, clB), post)
                                              else None
                                          | None => None
                                          end
                                      | None => None
                                      end
                                  | _ => None
                                  end
                              | _ => None
                              end
                          | None => None
                          end
                      | _ => None
                      end
                  | _ => None
                  end
              | _ => None
              end
          | _ => None
          end
      | _ => None
      end
  | _ => None
  end.

Definition conform_case (l : list Z) : list Z :=
  match l with
  | 3 :: _ =>
      match decode_overlap l with
      | Some (cfg, np, pre, ev, post) => conform_overlap cfg np pre ev post
      | None => [ERR_MALFORMED; 3]
      end
  | _ => conform_case_k2 l
  end.

Definition monitor_case (l : list Z) : list Z :=
  match l with
  | 3 :: _ =>
      match decode_overlap l with
      | Some (cfg, np, pre, ev, post) => monitor_overlap cfg np pre ev post
      | None => [ERR_MALFORMED; 3]
      end
  | _ => monitor_case_k2 l
  end.

(* C14 — the monitor for traces with TWO trims in flight (event alphabet of
   Conc2.v) and the decoder of the implementation's OVERLAP cases (wire kind 3).
   The monitor keeps the cache-free bookkeeping of Spec.v (what the delivered
   operations imply) and, per trim thread, which peers that trim snapshotted as
   candidates.  Clauses (never more than the property text):
     [30] a regular trim closed a connection of a peer it never snapshotted,
     [31] ... of a peer that was protected when THIS trim examined it under the
          segment lock (plk read-held), [32] ... inside its grace period then,
     [33] a regular trim that found the count at or below low closed something,
     [35] an entry deleted by a trim (prune) held a connection - this is how a
          delete-by-id through a stale pointer shows: the count and the tag
          totals stop being what the notifications imply,
     [42] two trims of the same thread in flight,
   and at the observation points [3]/[4] count and totals (decoder below).
   A ForceTrim thread's closed set is judged by force_code (Spec.v) when no
   operation ran inside it.  No proofs here. *)
From Coq Require Import List Arith ZArith Bool.
From Verif Require Import lib.Wire c14.Model c14.Spec c14.Conc c14.SpecConc c14.Conc2.
Import ListNotations.
Local Open Scope Z_scope.

Record mth := mkMT {
  mt_active : bool; mt_force : bool; mt_proceed : bool; mt_g : Z;
  mt_cands : list nat; mt_bad : list (nat * Z)
}.

Definition mt_init : mth := mkMT false false false 0 [] [].

Record m2 := mkM2 { m2_a : astate; m2_A : mth; m2_B : mth }.

Definition m2_init (a : astate) : m2 := mkM2 a mt_init mt_init.

Definition m2_get (m : m2) (i : bool) : mth := if i then m2_B m else m2_A m.
Definition m2_set (m : m2) (i : bool) (t : mth) : m2 :=
  if i then mkM2 (m2_a m) (m2_A m) t else mkM2 (m2_a m) t (m2_B m).

Fixpoint closed_code2 (cands : list nat) (bad : list (nat * Z)) (cl : list (nat * nat)) : Z :=
  match cl with
  | [] => 0
  | (p, _) :: r => if memn p cands then closed_code2 cands bad r else lookup_code p bad
  end.

Definition cmon2_step (cfg : config) (m : m2) (ev : ev2) : m2 + Z :=
  let a := m2_a m in
  match ev with
  | VOp o =>
      match o with
      | Trim | ForceTrim => inr 40
      | _ => inl (mkM2 (astep cfg a o) (m2_A m) (m2_B m))
      end
  | VBegin i force =>
      if mt_active (m2_get m i) then inr 42 else
      inl (m2_set m i (mkMT true force (force || (negb (disabled cfg) && negb (acount a <=? c_low cfg)))
                            (a_now a - c_grace cfg) [] []))
  | VSnap i p =>
      let t := m2_get m i in
      let x := ap_at a p in
      if negb (a_known x) then inl m
      else if is_prot (a_prot a) p then
        inl (m2_set m i (mkMT (mt_active t) (mt_force t) (mt_proceed t) (mt_g t) (mt_cands t) ((p, 31) :: mt_bad t)))
      else if negb (mt_force t) && negb (a_first x <=? mt_g t) then
        inl (m2_set m i (mkMT (mt_active t) (mt_force t) (mt_proceed t) (mt_g t) (mt_cands t) ((p, 32) :: mt_bad t)))
      else
        inl (m2_set m i (mkMT (mt_active t) (mt_force t) (mt_proceed t) (mt_g t) (mt_cands t ++ [p]) (mt_bad t)))
  | VSnapEnd _ => inl m
  | VPrune _ p | VStale _ p =>
      let x := ap_at a p in
      if a_known x && is_nil (a_conns x) then inl (mkM2 (aset a p noap) (m2_A m) (m2_B m)) else inr 35
  | VClosed i cl =>
      let t := m2_get m i in
      if negb (mt_active t) then inr 42
      else if mt_force t then inl (m2_set m i mt_init)
      else if negb (closed_code2 (mt_cands t) (mt_bad t) cl =? 0) then inr (closed_code2 (mt_cands t) (mt_bad t) cl)
      else if negb (mt_proceed t) && negb (is_nil cl) then inr 33
      else inl (m2_set m i mt_init)
  end.

Fixpoint cmon2 (cfg : config) (m : m2) (i : Z) (evs : list ev2) : m2 + list Z :=
  match evs with
  | [] => inl m
  | e :: r =>
      match cmon2_step cfg m e with
      | inl m' => cmon2 cfg m' (i + 1) r
      | inr code => inr [ERR_PROPERTY; i; code]
      end
  end.

(* no delete-by-id through a stale pointer happened *)
Definition no_stale (evs : list ev2) : bool :=
  forallb (fun e => match e with VStale _ _ => false | _ => true end) evs.

(* ---- overlap cases (wire kind 3) ------------------------------------------
   3 np low high grace res nd dtags.. npre <pre: (op obs)*>
     akind                  12 = thread A is TrimOpenConns, 13 = ForceTrim
     dt                     clock advance that makes the background loop tick
     xa                     1 = thread A's selection went first, 0 = thread B's
     ns1 script1..          ops run when BOTH snapshots were complete and no
                            selection had started (both trims wait for
                            bucketsMu, which the harness holds)
     npr pruned..           entries present before, absent when script 2 ran
     nl locked..            peers whose segment the second trim held (parked in
                            its comparator) while the first trim's selection ran
     ns2 script2..          ops run after the first trim's selection had gone
                            as far as it could, before the second trim's
     obs                    count, peers, closed (union) at quiescence
     nA closedA.. nB closedB..   what each trim closed
     <post: (op obs)*>
   Schedule in the LTS: prefix; A: begin, snapshot; Advance dt; B: begin,
   snapshot; script 1; X: sort, selection up to the first locked peer;
   script 2; Y: sort, selection, closes; X: the rest, closes. *)
Definition ovl := (Z * nat * bool * list op * list nat * list nat * list op * obs * list (nat * nat) * list (nat * nat))%type.

Definition snap_events (i : bool) (np : nat) : list ev2 := map (VSnap i) (seq 0 np) ++ [VSnapEnd i].

Definition monitor_overlap (cfg : config) (np : nat) (pre : list (op * obs)) (ev : ovl) (post : list (op * obs)) : list Z :=
  let '(akind, dt, xa, s1, pruned, locked, s2, x, clA, clB) := ev in
  match mon_prefix cfg np (ainit cfg) 0 pre with
  | inr d => d
  | inl (a0, i) =>
      let force := akind =? 13 in
      let head := [VBegin false force] ++ snap_events false np ++ [VOp (Advance dt); VBegin true false]
                  ++ snap_events true np ++ map VOp s1 ++ map (VPrune (negb xa)) pruned ++ map VOp s2 in
      match cmon2 cfg (m2_init a0) i head with
      | inr d => reindex i d
      | inl m1 =>
          let late :=
            filter (fun p => let a := ap_at (m2_a m1) p in
                             a_known a && is_nil (a_conns a) && negb (fst (fst (nth p (o_peers x) (true, 0, 0)))))
                   (seq 0 np) in
          match cmon2 cfg m1 i (map (VPrune xa) late ++ [VClosed false clA; VClosed true clB]) with
          | inr d => reindex i d
          | inl m2' =>
              let a2 := m2_a m2' in
              if force && is_nil s1 && is_nil s2 && (dt =? 0)%nat && negb (force_code cfg a0 clA =? 0)
              then [ERR_PROPERTY; i; force_code cfg a0 clA]
              else if negb (o_count x =? acount a2) then [ERR_PROPERTY; i; 3]
              else if negb (list_eqb pobs_eqb (o_peers x) (map (expect_peer a2) (seq 0 np))) then [ERR_PROPERTY; i; 4]
              else mon_run cfg np a2 (i + 1) post
          end
      end
  end.

(* C14 — proofs about the LTS of Conc.v, part 1: the effect of one sequential
   critical section on a peer's connection set, and the sums used by the
   "at most low + added" invariant. *)
From Coq Require Import List Arith ZArith Bool Lia Permutation Sorted.
From Verif Require Import lib.Wire c14.Model c14.Spec c14.Proofs c14.Proofs_Abs c14.Proofs_Trim c14.Proofs_Main
     c14.Conc c14.SpecConc.
Import ListNotations.
Local Open Scope Z_scope.

Definition conns_of (s : state) (q : nat) : list nat := p_conns (peer_at s q).

Lemma peer_at_set_peer : forall s p pi q,
  peer_at (set_peer s p pi) q = if Nat.eqb p q then pi else peer_at s q.
Proof. intros. unfold peer_at. cbn [set_peer peers]. apply get_upd. Qed.

Lemma peer_at_set_count : forall s c q, peer_at (set_count s c) q = peer_at s q.
Proof. reflexivity. Qed.

(* a map over all peers that keeps connections and tracked-ness *)
Lemma peer_at_map : forall (f : peer -> peer) s q pr c n d,
  f nopeer = nopeer ->
  peer_at (mkSt (map f (peers s)) pr c n d) q = f (peer_at s q).
Proof. intros f s q pr c n d H. unfold peer_at. cbn [peers]. rewrite <- H at 1. apply get_map. Qed.

Lemma advance_keeps : forall cfg n s q,
  p_conns (peer_at (advance cfg s n) q) = p_conns (peer_at s q)
  /\ p_tracked (peer_at (advance cfg s n) q) = p_tracked (peer_at s q)
  /\ count (advance cfg s n) = count s /\ prot (advance cfg s n) = prot s.
Proof.
  intros cfg. induction n as [|k IH]; intros s q; cbn [advance]; [repeat split|].
  destruct (IH (unit_step cfg s) q) as [H1 [H2 [H3 H4]]]. rewrite H1, H2, H3, H4. clear.
  unfold unit_step. cbv zeta. destruct (_ =? 0); [|repeat split].
  unfold tick. cbv zeta. rewrite peer_at_map by reflexivity. cbn [count prot].
  destruct (p_tracked (peer_at s q)) eqn:E; [|rewrite E; repeat split].
  destruct (decay_tags _ _). cbn. rewrite E. repeat split.
Qed.

(* what one non-trim critical section does to the connection set of peer q *)
Lemma step_conns_cases : forall cfg s o q, inv s -> is_trim o = false ->
  let s' := fst (step isort cfg s o) in
  (exists x, o = Connected q x /\ count s' = count s + 1 /\ conns_of s' q = x :: conns_of s q)
  \/ (conns_of s' q = conns_of s q /\ (forall x, o = Connected q x -> count s' = count s))
  \/ (exists c, conns_of s' q = rem1 c (conns_of s q) /\ (forall x, o <> Connected q x)).
Proof.
  intros cfg s o q Hinv Ho s'. subst s'. unfold conns_of.
  destruct o; try discriminate Ho; cbn [step fst].
  - (* Connected *)
    unfold connected. pose proof (peer_at_ok s p Hinv) as [Hu [_ Ht]].
    destruct (Nat.eqb p q) eqn:Epq.
    + apply Nat.eqb_eq in Epq. subst q.
      destruct (p_tracked (peer_at s p)) eqn:Etr; cbn [negb].
      * destruct (p_temp (peer_at s p)) eqn:Etmp.
        -- specialize (Ht eq_refl). destruct (p_conns (peer_at s p)) eqn:Ec; [|discriminate].
           cbn [p_conns memn]. left. exists c. rewrite peer_at_set_count, peer_at_set_peer, Nat.eqb_refl.
           repeat split.
        -- destruct (memn c (p_conns (peer_at s p))) eqn:Em.
           ++ right. left. rewrite peer_at_set_peer, Nat.eqb_refl. split; [reflexivity|]. intros; reflexivity.
           ++ left. exists c. rewrite peer_at_set_count, peer_at_set_peer, Nat.eqb_refl. repeat split.
      * rewrite (Hu eq_refl). cbn [p_conns memn nopeer]. left. exists c.
        rewrite peer_at_set_count, peer_at_set_peer, Nat.eqb_refl. repeat split.
    + right. left. split; [|intros x Hx; inversion Hx; subst; rewrite Nat.eqb_refl in Epq; discriminate].
      destruct (memn c _); [|rewrite peer_at_set_count]; rewrite peer_at_set_peer, Epq; reflexivity.
  - (* Disconnected *)
    unfold disconnected. destruct (p_tracked (peer_at s p)) eqn:Etr; cbn [negb];
      [|right; left; split; [reflexivity|intros; discriminate]].
    destruct (memn c (p_conns (peer_at s p))) eqn:Em; cbn [negb];
      [|right; left; split; [reflexivity|intros; discriminate]].
    rewrite peer_at_set_count, peer_at_set_peer. destruct (Nat.eqb p q) eqn:Epq.
    + apply Nat.eqb_eq in Epq. subst q. right. right. exists c. split; [|intros; discriminate].
      destruct (rem1 c (p_conns (peer_at s p))) eqn:Er; reflexivity.
    + right. left. split; [reflexivity|intros; discriminate].
  - right. left. split; [|intros; discriminate]. unfold tag_peer. rewrite peer_at_set_peer.
    destruct (Nat.eqb p q) eqn:Epq; [|reflexivity]. apply Nat.eqb_eq in Epq. subst q. cbn [with_tags p_conns].
    apply tag_info_for_conns, peer_at_ok, Hinv.
  - right. left. split; [|intros; discriminate]. unfold untag_peer. destruct (negb _); [reflexivity|].
    rewrite peer_at_set_peer. destruct (Nat.eqb p q) eqn:Epq; [|reflexivity]. apply Nat.eqb_eq in Epq. subst q. reflexivity.
  - right. left. split; [|intros; discriminate]. unfold upsert_tag. cbv zeta. rewrite peer_at_set_peer.
    destruct (Nat.eqb p q) eqn:Epq; [|reflexivity]. apply Nat.eqb_eq in Epq. subst q. cbn [with_tags p_conns].
    apply tag_info_for_conns, peer_at_ok, Hinv.
  - right. left. split; [|intros; discriminate]. unfold bump. destruct (negb _); [reflexivity|]. cbv zeta.
    rewrite peer_at_set_peer. destruct (Nat.eqb p q) eqn:Epq; [|reflexivity]. apply Nat.eqb_eq in Epq. subst q.
    cbn [with_dec p_conns]. apply tag_info_for_conns, peer_at_ok, Hinv.
  - right. left. split; [|intros; discriminate]. unfold dremove. destruct (negb _); [reflexivity|]. cbv zeta.
    rewrite peer_at_set_peer. destruct (Nat.eqb p q) eqn:Epq; [|reflexivity]. apply Nat.eqb_eq in Epq. subst q.
    cbn [with_dec p_conns]. apply tag_info_for_conns, peer_at_ok, Hinv.
  - right. left. split; [|intros; discriminate]. unfold dclose. destruct (negb _); [reflexivity|].
    rewrite peer_at_map by reflexivity. destruct (p_tracked (peer_at s q)); reflexivity.
  - right. left. split; [reflexivity|intros; discriminate].
  - right. left. split; [reflexivity|intros; discriminate].
  - right. left. split; [|intros; discriminate]. apply advance_keeps.
  - right. left. split; [|intros; discriminate]. unfold dcloseq. destruct (negb _); reflexivity.
  - right. left. split; [|intros; discriminate]. unfold dregister. destruct (_ && _); reflexivity.
Qed.

Lemma advance_first : forall cfg n s q,
  p_first (peer_at (advance cfg s n) q) = p_first (peer_at s q)
  /\ p_temp (peer_at (advance cfg s n) q) = p_temp (peer_at s q).
Proof.
  intros cfg. induction n as [|k IH]; intros s q; cbn [advance]; [split; reflexivity|].
  destruct (IH (unit_step cfg s) q) as [E1 E2]. rewrite E1, E2. clear.
  unfold unit_step. cbv zeta. destruct (_ =? 0); [|split; reflexivity]. unfold tick. cbv zeta.
  rewrite peer_at_map by reflexivity. destruct (p_tracked (peer_at s q)); [|split; reflexivity].
  destruct (decay_tags _ _). split; reflexivity.
Qed.

(* ... and to its firstSeen / temp: unchanged, except that the first Connected
   of a temporary entry (which holds no connection) restarts the grace period *)
Lemma step_first_cases : forall cfg s o q, inv s -> is_trim o = false ->
  let s' := fst (step isort cfg s o) in
  p_tracked (peer_at s q) = true -> p_tracked (peer_at s' q) = true ->
  (p_first (peer_at s' q) = p_first (peer_at s q) /\ p_temp (peer_at s' q) = p_temp (peer_at s q))
  \/ (exists x, o = Connected q x /\ p_temp (peer_at s q) = true /\ p_temp (peer_at s' q) = false
                /\ p_first (peer_at s' q) = now s /\ conns_of s q = [] /\ count s' = count s + 1).
Proof.
  intros cfg s o q Hinv Ho s' Ht Ht'. subst s'.
  destruct o; try discriminate Ho; cbn [step fst] in *.
  - unfold connected in *. pose proof (peer_at_ok s p Hinv) as [Hu [_ Htmp]].
    destruct (Nat.eqb p q) eqn:Epq.
    + apply Nat.eqb_eq in Epq. subst q. rewrite Ht in *. cbn [negb] in *. specialize (Htmp eq_refl).
      destruct (p_temp (peer_at s p)) eqn:Etmp.
      * right. exists c. destruct (p_conns (peer_at s p)) eqn:Ec; [|discriminate]. cbn [p_conns memn].
        rewrite peer_at_set_count, peer_at_set_peer, Nat.eqb_refl. unfold conns_of. rewrite Ec. cbn. repeat split.
      * left. destruct (memn c (p_conns (peer_at s p))).
        -- rewrite peer_at_set_peer, Nat.eqb_refl. rewrite Etmp. split; reflexivity.
        -- rewrite peer_at_set_count, peer_at_set_peer, Nat.eqb_refl. cbn. rewrite Etmp. split; reflexivity.
    + left. destruct (memn c _); [|rewrite peer_at_set_count]; rewrite peer_at_set_peer, Epq; split; reflexivity.
  - left. unfold disconnected in *. destruct (p_tracked (peer_at s p)) eqn:Etr; cbn [negb] in *; [|split; reflexivity].
    destruct (memn c (p_conns (peer_at s p))); cbn [negb] in *; [|split; reflexivity].
    rewrite peer_at_set_count, peer_at_set_peer in *. destruct (Nat.eqb p q) eqn:Epq; [|split; reflexivity].
    apply Nat.eqb_eq in Epq. subst q. destruct (rem1 c (p_conns (peer_at s p))); cbn [is_nil] in *; [discriminate Ht'|split; reflexivity].
  - left. unfold tag_peer. rewrite peer_at_set_peer. destruct (Nat.eqb p q) eqn:Epq; [|split; reflexivity].
    apply Nat.eqb_eq in Epq. subst q. unfold tag_info_for. rewrite Ht. split; reflexivity.
  - left. unfold untag_peer. destruct (negb _); [split; reflexivity|]. rewrite peer_at_set_peer.
    destruct (Nat.eqb p q) eqn:Epq; [|split; reflexivity]. apply Nat.eqb_eq in Epq. subst q. split; reflexivity.
  - left. unfold upsert_tag. cbv zeta. rewrite peer_at_set_peer. destruct (Nat.eqb p q) eqn:Epq; [|split; reflexivity].
    apply Nat.eqb_eq in Epq. subst q. unfold tag_info_for. rewrite Ht. split; reflexivity.
  - left. unfold bump. destruct (negb _); [split; reflexivity|]. cbv zeta. rewrite peer_at_set_peer.
    destruct (Nat.eqb p q) eqn:Epq; [|split; reflexivity]. apply Nat.eqb_eq in Epq. subst q.
    unfold tag_info_for. rewrite Ht. split; reflexivity.
  - left. unfold dremove. destruct (negb _); [split; reflexivity|]. cbv zeta. rewrite peer_at_set_peer.
    destruct (Nat.eqb p q) eqn:Epq; [|split; reflexivity]. apply Nat.eqb_eq in Epq. subst q.
    unfold tag_info_for. rewrite Ht. split; reflexivity.
  - left. unfold dclose. destruct (negb _); [split; reflexivity|]. rewrite peer_at_map by reflexivity. rewrite Ht. split; reflexivity.
  - left. split; reflexivity.
  - left. split; reflexivity.
  - left. apply advance_first.
  - left. unfold dcloseq. destruct (negb _); split; reflexivity.
  - left. unfold dregister. destruct (_ && _); split; reflexivity.
Qed.

Lemma advance_now : forall cfg n s, now s <= now (advance cfg s n).
Proof.
  intros cfg. induction n as [|k IH]; intros s; cbn [advance]; [lia|].
  specialize (IH (unit_step cfg s)). assert (now (unit_step cfg s) = now s + 1); [|lia].
  unfold unit_step. cbv zeta. destruct (_ =? 0); reflexivity.
Qed.

Lemma step_now : forall cfg s o, is_trim o = false -> now s <= now (fst (step isort cfg s o)).
Proof.
  intros cfg s o Ho. destruct o; try discriminate Ho; cbn [step fst]; try (cbn; lia).
  - unfold connected. destruct (memn _ _); cbn; lia.
  - unfold disconnected. destruct (negb _); [lia|]. destruct (negb _); cbn; lia.
  - unfold untag_peer. destruct (negb _); cbn; lia.
  - unfold bump. destruct (negb _); cbn; lia.
  - unfold dremove. destruct (negb _); cbn; lia.
  - unfold dclose. destruct (negb _); cbn; lia.
  - apply advance_now.
  - unfold dcloseq. destruct (negb _); cbn; lia.
  - unfold dregister. destruct (_ && _); cbn; lia.
Qed.

(* ---- sums over the candidate list --------------------------------------------------------- *)
Lemma filter_rem1_le : forall (f : nat -> bool) c l, zlen (filter f (rem1 c l)) <= zlen (filter f l).
Proof.
  unfold zlen. induction l as [|y r IH]; cbn [rem1 filter length]; [lia|].
  destruct (Nat.eqb c y); cbn [filter]; destruct (f y); cbn [length]; lia.
Qed.

Lemma zsum_split : forall {A} (P : A -> bool) (f : A -> Z) l,
  zsum (map f l) = zsum (map (fun x => if P x then f x else 0) l) + zsum (map (fun x => if P x then 0 else f x) l).
Proof. induction l as [|x r IH]; cbn [map zsum]; [reflexivity|]. destruct (P x); lia. Qed.

Lemma zsum_map_nonneg : forall {A} (f : A -> Z) l, (forall x, In x l -> 0 <= f x) -> 0 <= zsum (map f l).
Proof. intros. apply zsum_nonneg. intros x Hx. apply in_map_iff in Hx. destruct Hx as [y [<- Hy]]. auto. Qed.

Lemma zsum_member_le : forall {A} (f : A -> Z) l e, (forall x, In x l -> 0 <= f x) -> In e l -> f e <= zsum (map f l).
Proof.
  induction l as [|x r IH]; intros e Hn Hin; [destruct Hin|]. cbn [map zsum].
  assert (0 <= zsum (map f r)) by (apply zsum_map_nonneg; intros; apply Hn; right; assumption).
  destruct Hin as [->|Hin]; [lia|].
  assert (f e <= zsum (map f r)) by (apply IH; [intros; apply Hn; right; assumption|exact Hin]).
  pose proof (Hn x (or_introl eq_refl)). lia.
Qed.

(* with distinct peer ids at most one entry is charged *)
Lemma zsum_indicator : forall (g : cent -> bool) p l, NoDup (map ce_p l) ->
  zsum (map (fun e => if Nat.eqb (ce_p e) p && g e then 1 else 0) l)
  = match find (fun e => Nat.eqb (ce_p e) p) l with Some e0 => if g e0 then 1 else 0 | None => 0 end.
Proof.
  induction l as [|x r IH]; intros Hnd; cbn [map zsum find]; [reflexivity|].
  inversion Hnd as [|? ? Hnot Hnd']; subst. destruct (Nat.eqb (ce_p x) p) eqn:E; cbn [andb].
  - apply Nat.eqb_eq in E.
    assert (Hz : zsum (map (fun e => if Nat.eqb (ce_p e) p && g e then 1 else 0) r) = 0).
    { apply zsum_map_zero. intros e He. destruct (Nat.eqb (ce_p e) p) eqn:E2; [|reflexivity].
      apply Nat.eqb_eq in E2. exfalso. apply Hnot. rewrite E, <- E2. apply in_map, He. }
    rewrite Hz. destruct (g x); lia.
  - rewrite IH by exact Hnd'. lia.
Qed.

Lemma nodup_pid_eq : forall l e1 e2, NoDup (map ce_p l) -> In e1 l -> In e2 l -> ce_p e1 = ce_p e2 -> e1 = e2.
Proof.
  induction l as [|x r IH]; intros e1 e2 Hnd H1 H2 He; [destruct H1|].
  inversion Hnd as [|? ? Hnot Hnd']; subst. destruct H1 as [->|H1], H2 as [->|H2]; auto.
  - exfalso. apply Hnot. rewrite He. apply in_map, H2.
  - exfalso. apply Hnot. rewrite <- He. apply in_map, H1.
Qed.

(* ---- the accounting terms ------------------------------------------------------------------ *)
Definition rem_m (s : state) (sel : list (nat * nat)) (p : nat) : Z :=
  zlen (filter (fun c => negb (memp (p, c) sel)) (conns_of s p)).

(* a candidate whose firstSeen is (now) after gracePeriodStart restarted its
   grace period after the snapshot: it is no longer eligible and counts for
   nothing *)
Definition incl (s : state) (g : Z) (p : nat) : bool := p_first (peer_at s p) <=? g.

(* not yet selected: all its connections count; selected: the ones not in sel *)
Definition uterm (s : state) (g : Z) (e : cent) : Z :=
  if ce_live e && negb (ce_done e) && incl s g (ce_p e) then zlen (conns_of s (ce_p e)) else 0.
Definition dterm (s : state) (g : Z) (sel : list (nat * nat)) (e : cent) : Z :=
  if ce_live e && ce_done e && incl s g (ce_p e) then rem_m s sel (ce_p e) else 0.
Definition usum (s : state) (g : Z) (l : list cent) : Z := zsum (map (uterm s g) l).
Definition dsum (s : state) (g : Z) (sel : list (nat * nat)) (l : list cent) : Z := zsum (map (dterm s g sel) l).

Lemma uterm_nonneg : forall s g e, 0 <= uterm s g e.
Proof. intros. unfold uterm. destruct (_ && _); [apply zlen_nonneg|lia]. Qed.
Lemma dterm_nonneg : forall s g sel e, 0 <= dterm s g sel e.
Proof. intros. unfold dterm, rem_m. destruct (_ && _); [apply zlen_nonneg|lia]. Qed.

(* what is left on the live candidates that are still out of grace *)
Definition phi (s : state) (g : Z) (sel : list (nat * nat)) (l : list cent) : Z :=
  zsum (map (fun e => if ce_live e && incl s g (ce_p e) then rem_m s sel (ce_p e) else 0) l).

Lemma rem_m_le : forall s sel p, rem_m s sel p <= zlen (conns_of s p).
Proof. intros. unfold rem_m. apply zlen_filter_le. Qed.

Lemma phi_le : forall s g sel l, phi s g sel l <= dsum s g sel l + usum s g l.
Proof.
  intros. unfold phi, dsum, usum. induction l as [|e r IH]; cbn [map zsum]; [lia|].
  unfold dterm at 1, uterm at 1. pose proof (rem_m_le s sel (ce_p e)).
  destruct (ce_live e), (ce_done e), (incl s g (ce_p e)); cbn [andb negb]; lia.
Qed.

(* ---- the invariant of the LTS --------------------------------------------------------------- *)
Definition cbound (cfg : config) (cs : cstate) : option Z :=
  match cs_ph cs with
  | TIdle => None
  | TSnap _ | TSort => Some (cs_ncand cs)
  | TSel _ tg => Some (tg + c_low cfg)
  | TClose => Some (Z.max 0 (c_low cfg))
  end.

Definition early (ph : tphase) : bool := match ph with TSnap _ | TSort => true | _ => false end.

Record CInv (cfg : config) (cs : cstate) : Prop := mkCInv {
  ci_inv : inv (cs_s cs);
  ci_nodup : NoDup (map ce_p (cs_cands cs));
  ci_vis : forall vis, cs_ph cs = TSnap vis ->
             (forall e, In e (cs_cands cs) -> In (ce_p e) vis) /\ prot (cs_s cs) = cs_psnap cs;
  ci_early : early (cs_ph cs) = true -> cs_sel cs = [] /\ forall e, In e (cs_cands cs) -> ce_done e = false;
  (* (a), (b): what was read at the snapshot *)
  ci_snap : forall e, In e (cs_cands cs) ->
              is_prot (cs_psnap cs) (ce_p e) = false /\ ce_first e <= cs_gstart cs;
  ci_sel : forall p c, In (p, c) (cs_sel cs) -> exists e, In e (cs_cands cs) /\ ce_p e = p;
  ci_todo : forall todo tg, cs_ph cs = TSel todo tg ->
              forall e, In e (cs_cands cs) -> ce_done e = false -> In (ce_p e) todo;
  ci_added : 0 <= cs_added1 cs /\ 0 <= cs_added2 cs;
  (* (c) *)
  ci_c : forall b, cbound cfg cs = Some b ->
           dsum (cs_s cs) (cs_gstart cs) (cs_sel cs) (cs_cands cs) <= cs_added1 cs
           /\ usum (cs_s cs) (cs_gstart cs) (cs_cands cs) <= b + cs_added2 cs;
  (* (b) at full strength: a selected connection of a candidate that is still
     the same entry belongs to a peer that is out of grace (and not temp) *)
  ci_self : forall p c e, In (p, c) (cs_sel cs) -> In e (cs_cands cs) -> ce_p e = p -> ce_live e = true ->
              p_temp (peer_at (cs_s cs) p) = false /\ p_first (peer_at (cs_s cs) p) <= cs_gstart cs;
  ci_live : forall e, In e (cs_cands cs) -> ce_live e = true -> p_tracked (peer_at (cs_s cs) (ce_p e)) = true;
  (* gracePeriodStart never overtakes the clock *)
  ci_clock : is_idle (cs_ph cs) = false -> cs_gstart cs <= now (cs_s cs) - c_grace cfg
}.

Lemma cinv_init : forall cfg, CInv cfg (cinit cfg).
Proof.
  intros cfg. constructor; cbn; try (intros; discriminate); try (intros; contradiction).
  - apply inv_init.
  - constructor.
  - lia.
Qed.

(* C14 — property theorems only.  Each is closed by [exact] of a lemma from
   Proofs*.v and followed by Print Assumptions. *)
From Coq Require Import List Arith ZArith Bool Permutation Sorted.
From Verif Require Import lib.Wire c14.Model c14.Spec c14.Proofs c14.Proofs_Abs c14.Proofs_Trim c14.Proofs_Main.
Import ListNotations.
Local Open Scope Z_scope.

(* THE property on traces.  For every configuration with a non-negative low
   watermark and every finite history of Connected/Disconnected (duplicates,
   unknown connections), TagPeer/UntagPeer/UpsertTag, decaying Bump/Remove/
   Close, Protect/Unprotect, clock advances, TrimOpenConns and ForceTrim over
   the np observed peers, the trace of the model is accepted by the very
   monitor that is run on the implementation's traces: after every operation
   the connection count and every peer's tag total equal what the bookkeeping
   of Spec.v derives from the operations alone, every TrimOpenConns closed set
   satisfies trim_prop and every ForceTrim closed set satisfies force_prop.
   PARTIAL: histories are sequential (each operation atomic); trims racing
   with other operations are covered by the correspondence only. *)
Theorem c14_monitor_accepts_model_partial : forall cfg np ops,
  0 <= c_low cfg -> Forall (op_within np) ops ->
  monitor cfg np (mtrace cfg np (init cfg) ops) = [].
Proof. exact monitor_model. Qed.
Print Assumptions c14_monitor_accepts_model_partial.

(* "each peer's tag total": the cached value equals the sum of the peer's tag
   values (plain and decaying) after every history, trims included *)
Theorem c14_value_is_tag_sum : forall cfg ops p,
  let s := run isort cfg (init cfg) ops in
  p_value (peer_at s p) = zsum (p_tags (peer_at s p)) + zsum (p_dec (peer_at s p)).
Proof.
  intros cfg ops p s.
  exact (proj1 (proj2 (peer_at_ok s p (inv_run isort isort_perm cfg ops (init cfg) (inv_init cfg))))).
Qed.
Print Assumptions c14_value_is_tag_sum.

(* "the manager's connection count": the cached count equals the number of
   tracked connections after every history, trims included *)
Theorem c14_conncount_is_sum : forall cfg ops,
  let s := run isort cfg (init cfg) ops in
  count s = zsum (map (fun pi => zlen (p_conns pi)) (peers s)).
Proof.
  intros cfg ops s. exact (proj2 (inv_run isort isort_perm cfg ops (init cfg) (inv_init cfg))).
Qed.
Print Assumptions c14_conncount_is_sum.

(* "equal what the notifications and tag operations delivered so far imply":
   on every reachable state every non-trim operation of the model commutes
   with the cache-free bookkeeping step (refinement) *)
Theorem c14_model_refines_bookkeeping : forall cfg ops o,
  let s := run isort cfg (init cfg) ops in
  is_trim o = false -> abs (fst (step isort cfg s o)) = astep cfg (abs s) o.
Proof.
  intros cfg ops o s. exact (abs_step isort cfg s o (inv_run isort isort_perm cfg ops (init cfg) (inv_init cfg))).
Qed.
Print Assumptions c14_model_refines_bookkeeping.

(* every closed set the code can produce (ties, map order, unstable sort:
   anything satisfying trim_ok) has the property clauses *)
Theorem c14_trim_ok_sound : forall cfg s cl, trim_ok cfg s cl = true -> trim_prop cfg s cl = true.
Proof. exact trim_ok_sound_l. Qed.
Print Assumptions c14_trim_ok_sound.

(* the clauses, spelled out: a trim closes only tracked connections of peers
   that are not protected and whose grace period is over; never closes a peer
   while a strictly lower-valued eligible peer keeps a connection; does nothing
   at or below the low watermark; otherwise leaves at most low-watermark
   connections among the eligible peers *)
Theorem c14_trim_clauses : forall cfg s cl, trim_prop cfg s cl = true ->
  (forall p c, In (p, c) cl ->
     is_prot (a_prot s) p = false /\ a_first (ap_at s p) <= a_now s - c_grace cfg
     /\ In c (a_conns (ap_at s p)))
  /\ (forall p c q, In (p, c) cl -> In q (pids s) -> eligible cfg s q = true -> keptp s cl q = true ->
        total (ap_at s p) <= total (ap_at s q))
  /\ (acount s <= c_low cfg -> cl = [])
  /\ (disabled cfg = false -> c_low cfg < acount s -> remaining_eligible cfg s cl <= c_low cfg).
Proof. exact trim_prop_spec. Qed.
Print Assumptions c14_trim_clauses.

(* for ANY sort that returns a permutation ordered by the (temp, value) key,
   getConnsToClose's result satisfies trim_ok on every state meeting the
   invariant (non-vacuity of trim_ok; the invariant holds on all reachable
   states, see c14_value_is_tag_sum / c14_conncount_is_sum) *)
Theorem c14_model_trim_ok : forall (sort : list cand -> list cand),
  (forall l, Permutation (sort l) l) -> (forall l, StronglySorted kle (sort l)) ->
  forall cfg s, inv s -> 0 <= c_low cfg -> trim_ok cfg (abs s) (snd (trim sort cfg s)) = true.
Proof. exact model_trim_ok_l. Qed.
Print Assumptions c14_model_trim_ok.

(* ForceTrim: for any such sort, a protected peer's connection is selected
   only if every connection of every unprotected peer is selected; within the
   unprotected and within the protected peers lowest value first; nothing at or
   below the low watermark *)
Theorem c14_force_trim_protected_last : forall (sort : list cand -> list cand),
  (forall l, Permutation (sort l) l) -> (forall l, StronglySorted kle (sort l)) ->
  forall cfg s, inv s ->
  let a := abs s in let cl := force_trim sort cfg s in
  (forall p c, In (p, c) cl -> In c (a_conns (ap_at a p)))
  /\ (forall p c, In (p, c) cl -> is_prot (a_prot a) p = true ->
        forall q d, In q (pids a) -> is_prot (a_prot a) q = false -> In d (a_conns (ap_at a q)) -> In (q, d) cl)
  /\ (forall p c q, In (p, c) cl -> In q (pids a) -> is_prot (a_prot a) q = is_prot (a_prot a) p ->
        keptp a cl q = true -> total (ap_at a p) <= total (ap_at a q))
  /\ (acount a <= c_low cfg -> cl = []).
Proof.
  intros sort Hp Hs cfg s Hinv. exact (force_prop_spec cfg (abs s) _ (model_force_ok_l sort Hp Hs cfg s Hinv)).
Qed.
Print Assumptions c14_force_trim_protected_last.

(* the sort hypotheses are satisfiable: stable insertion sort meets them *)
Theorem c14_isort_is_a_sort :
  (forall l, Permutation (isort l) l) /\ (forall l, StronglySorted kle (isort l)).
Proof. exact (conj isort_perm isort_sorted). Qed.
Print Assumptions c14_isort_is_a_sort.

(* observed while transcribing (not demanded by the property text, which only
   PERMITS a forced trim to close protected peers): getConnsToCloseEmergency
   compares the first selection with the already decremented target, so a
   forced trim can stop above the low watermark although protected peers are
   left.  low = 1; peer 0 unprotected with 3 connections, peers 1..3 protected
   with one each: ForceTrim closes 3 connections and keeps 3 > low. *)
Theorem c14_force_trim_may_stop_above_low :
  let cfg := mkCfg 1 3 0 1 [] in
  let s := run isort cfg (init cfg)
             [Connected 0 0; Connected 0 1; Connected 0 2; Connected 1 0; Connected 2 0; Connected 3 0;
              Protect 1 0; Protect 2 0; Protect 3 0] in
  count s = 6 /\ length (force_trim isort cfg s) = 3%nat.
Proof. vm_compute. split; reflexivity. Qed.
Print Assumptions c14_force_trim_may_stop_above_low.

(* ---- non-vacuity ------------------------------------------------------------------ *)
(* a reachable state in which a trim closes the lowest-valued unprotected peer
   outside its grace period and keeps the protected and the young one *)
Example trim_closes_lowest :
  let cfg := mkCfg 1 3 5 1 [] in
  let s := run isort cfg (init cfg)
             [Connected 0 0; Connected 1 0; Connected 2 0; TagPeer 0 0 7; TagPeer 1 0 3; TagPeer 2 0 1;
              Protect 2 0; Advance 5; Connected 3 0] in
  inv s /\ snd (trim isort cfg s) = [(1%nat, 0%nat)].
Proof. split; [apply (inv_run isort isort_perm), inv_init|vm_compute; reflexivity]. Qed.

(* the monitor rejects: a trim that closes a protected peer *)
Example monitor_rejects_protected_closed :
  monitor (mkCfg 1 3 0 1 []) 2
    [(Connected 0 0, mkObs 1 [(true, 0, 0); (false, 0, 0)] []);
     (Connected 1 0, mkObs 2 [(true, 0, 0); (true, 0, 0)] []);
     (Protect 0 0,   mkObs 2 [(true, 0, 0); (true, 0, 0)] []);
     (Trim,          mkObs 2 [(true, 0, 0); (true, 0, 0)] [(0%nat, 0%nat)])] = [ERR_PROPERTY; 3; 11].
Proof. vm_compute. reflexivity. Qed.

(* ... a trim that closes a peer inside its grace period *)
Example monitor_rejects_grace_closed :
  monitor (mkCfg 1 3 5 1 []) 2
    [(Connected 0 0, mkObs 1 [(true, 0, 0); (false, 0, 0)] []);
     (Advance 5,     mkObs 1 [(true, 0, 0); (false, 0, 0)] []);
     (Connected 1 0, mkObs 2 [(true, 0, 0); (true, 0, 0)] []);
     (Trim,          mkObs 2 [(true, 0, 0); (true, 0, 0)] [(1%nat, 0%nat)])] = [ERR_PROPERTY; 3; 11].
Proof. vm_compute. reflexivity. Qed.

(* ... a trim that closes a peer while a lower-valued eligible peer is kept *)
Example monitor_rejects_wrong_order :
  monitor (mkCfg 1 3 0 1 []) 2
    [(Connected 0 0, mkObs 1 [(true, 0, 0); (false, 0, 0)] []);
     (Connected 1 0, mkObs 2 [(true, 0, 0); (true, 0, 0)] []);
     (TagPeer 0 0 5, mkObs 2 [(true, 5, 5); (true, 0, 0)] []);
     (Trim,          mkObs 2 [(true, 5, 5); (true, 0, 0)] [(0%nat, 0%nat)])] = [ERR_PROPERTY; 3; 12].
Proof. vm_compute. reflexivity. Qed.

(* ... a trim at the low watermark that closes something, one that leaves too many *)
Example monitor_rejects_trim_below_low :
  monitor (mkCfg 2 3 0 1 []) 2
    [(Connected 0 0, mkObs 1 [(true, 0, 0); (false, 0, 0)] []);
     (Connected 1 0, mkObs 2 [(true, 0, 0); (true, 0, 0)] []);
     (Trim,          mkObs 2 [(true, 0, 0); (true, 0, 0)] [(0%nat, 0%nat)])] = [ERR_PROPERTY; 2; 13].
Proof. vm_compute. reflexivity. Qed.

Example monitor_rejects_too_many_left :
  monitor (mkCfg 1 3 0 1 []) 3
    [(Connected 0 0, mkObs 1 [(true, 0, 0); (false, 0, 0); (false, 0, 0)] []);
     (Connected 1 0, mkObs 2 [(true, 0, 0); (true, 0, 0); (false, 0, 0)] []);
     (Connected 2 0, mkObs 3 [(true, 0, 0); (true, 0, 0); (true, 0, 0)] []);
     (Trim,          mkObs 3 [(true, 0, 0); (true, 0, 0); (true, 0, 0)] [(0%nat, 0%nat)])] = [ERR_PROPERTY; 3; 14].
Proof. vm_compute. reflexivity. Qed.

(* ... a wrong connection count, a wrong tag total, a forced trim that closes
   a protected peer while an unprotected one is kept *)
Example monitor_rejects_wrong_count :
  monitor (mkCfg 1 3 0 1 []) 1
    [(Connected 0 0, mkObs 1 [(true, 0, 0)] []); (Connected 0 0, mkObs 2 [(true, 0, 0)] [])] = [ERR_PROPERTY; 1; 3].
Proof. vm_compute. reflexivity. Qed.

Example monitor_rejects_wrong_total :
  monitor (mkCfg 1 3 0 1 []) 1
    [(TagPeer 0 0 4, mkObs 0 [(true, 4, 4)] []); (TagPeer 0 0 1, mkObs 0 [(true, 5, 5)] [])] = [ERR_PROPERTY; 1; 4].
Proof. vm_compute. reflexivity. Qed.

Example monitor_rejects_forced_protected_first :
  monitor (mkCfg 0 3 0 1 []) 2
    [(Connected 0 0, mkObs 1 [(true, 0, 0); (false, 0, 0)] []);
     (Connected 1 0, mkObs 2 [(true, 0, 0); (true, 0, 0)] []);
     (Protect 0 0,   mkObs 2 [(true, 0, 0); (true, 0, 0)] []);
     (ForceTrim,     mkObs 2 [(true, 0, 0); (true, 0, 0)] [(0%nat, 0%nat)])] = [ERR_PROPERTY; 3; 22].
Proof. vm_compute. reflexivity. Qed.

(* C14 — property theorems only.  Each is closed by [exact] of a lemma from
   Proofs*.v and followed by Print Assumptions. *)
From Coq Require Import List Arith ZArith Bool Permutation Sorted.
From Verif Require Import lib.Wire c14.Model c14.Spec c14.Proofs c14.Proofs_Abs c14.Proofs_Trim c14.Proofs_Main
     c14.Conc c14.SpecConc c14.ProofsConc c14.ProofsConc2 c14.ProofsConc3 c14.ProofsConc4 c14.ProofsConc5
     c14.Registry c14.ProofsRegistry c14.Conc2 c14.SpecConc2 c14.ProofsConc6 c14.ProofsConc7.
Import ListNotations.
Local Open Scope Z_scope.

(* THE property on SEQUENTIAL traces, unconditionally.  For every configuration
   (any watermarks, grace period, decayer resolution and decaying tags; a
   negative low watermark is read as 0 by the monitor) and every finite history
   of Connected/Disconnected (duplicates, unknown connections),
   TagPeer/UntagPeer/UpsertTag, decaying Bump/Remove/Close, Protect/Unprotect,
   clock advances, TrimOpenConns and ForceTrim - each one atomic step; a trim
   of the background loop is a TrimOpenConns issued by the environment at any
   point - the trace of the model is accepted by the very monitor that is run on
   the implementation's traces: after every operation the connection count and
   every peer's tag total equal what the bookkeeping of Spec.v derives from the
   operations alone, every TrimOpenConns closed set satisfies trim_prop and
   every ForceTrim closed set satisfies force_prop.  The observation window np
   only has to contain the peers the history mentions.
   (Histories in which operations overlap a trim are the subject of the
   c14_conc_* theorems below, for every schedule.) *)
Theorem c14_monitor_accepts_every_sequential_history : forall cfg ops np,
  (width ops <= np)%nat ->
  monitor cfg np (mtrace cfg np (init cfg) ops) = [].
Proof. intros cfg ops np H. exact (monitor_model cfg np ops (width_within ops np H)). Qed.
Print Assumptions c14_monitor_accepts_every_sequential_history.

(* "each peer's tag total": the cached value equals the sum of the peer's tag
   values (plain and decaying) after every history, trims included *)
Theorem c14_value_is_tag_sum : forall cfg ops p,
  let s := run isort cfg (init cfg) ops in
  p_value (peer_at s p) = zsum (p_tags (peer_at s p)) + zsum (p_dec (peer_at s p)).
Proof.
  intros cfg ops p s.
  exact (proj1 (proj2 (peer_at_ok s p (inv_run isort isort_perm cfg ops (init cfg) (inv_init cfg))))).
Qed.
Print Assumptions c14_value_is_tag_sum.

(* "the manager's connection count": the cached count equals the number of
   tracked connections after every history, trims included *)
Theorem c14_conncount_is_sum : forall cfg ops,
  let s := run isort cfg (init cfg) ops in
  count s = zsum (map (fun pi => zlen (p_conns pi)) (peers s)).
Proof.
  intros cfg ops s. exact (proj2 (inv_run isort isort_perm cfg ops (init cfg) (inv_init cfg))).
Qed.
Print Assumptions c14_conncount_is_sum.

(* "equal what the notifications and tag operations delivered so far imply":
   on every reachable state every non-trim operation of the model commutes
   with the cache-free bookkeeping step (refinement) *)
Theorem c14_model_refines_bookkeeping : forall cfg ops o,
  let s := run isort cfg (init cfg) ops in
  is_trim o = false -> abs (fst (step isort cfg s o)) = astep cfg (abs s) o.
Proof.
  intros cfg ops o s. exact (abs_step isort cfg s o (inv_run isort isort_perm cfg ops (init cfg) (inv_init cfg))).
Qed.
Print Assumptions c14_model_refines_bookkeeping.

(* every closed set the code can produce (ties, map order, unstable sort:
   anything satisfying trim_ok) has the property clauses *)
Theorem c14_trim_ok_sound : forall cfg s cl, trim_ok cfg s cl = true -> trim_prop cfg s cl = true.
Proof. exact trim_ok_sound_l. Qed.
Print Assumptions c14_trim_ok_sound.

(* the clauses, spelled out: a trim closes only tracked connections of peers
   that are not protected and whose grace period is over; never closes a peer
   while a strictly lower-valued eligible peer keeps a connection; does nothing
   at or below the low watermark; otherwise leaves at most low-watermark
   connections among the eligible peers *)
Theorem c14_trim_clauses : forall cfg s cl, trim_prop cfg s cl = true ->
  (forall p c, In (p, c) cl ->
     is_prot (a_prot s) p = false /\ a_first (ap_at s p) <= a_now s - c_grace cfg
     /\ In c (a_conns (ap_at s p)))
  /\ (forall p c q, In (p, c) cl -> In q (pids s) -> eligible cfg s q = true -> keptp s cl q = true ->
        total (ap_at s p) <= total (ap_at s q))
  /\ (acount s <= c_low cfg -> cl = [])
  /\ (disabled cfg = false -> c_low cfg < acount s -> remaining_eligible cfg s cl <= Z.max 0 (c_low cfg)).
Proof. exact trim_prop_spec. Qed.
Print Assumptions c14_trim_clauses.

(* for ANY sort that returns a permutation ordered by the (temp, value) key,
   getConnsToClose's result satisfies trim_ok on every state meeting the
   invariant (non-vacuity of trim_ok; the invariant holds on all reachable
   states, see c14_value_is_tag_sum / c14_conncount_is_sum) *)
Theorem c14_model_trim_ok : forall (sort : list cand -> list cand),
  (forall l, Permutation (sort l) l) -> (forall l, StronglySorted kle (sort l)) ->
  forall cfg s, inv s -> trim_ok cfg (abs s) (snd (trim sort cfg s)) = true.
Proof. exact model_trim_ok_l. Qed.
Print Assumptions c14_model_trim_ok.

(* ForceTrim: for any such sort, a protected peer's connection is selected
   only if every connection of every unprotected peer is selected; within the
   unprotected and within the protected peers lowest value first; nothing at or
   below the low watermark *)
Theorem c14_force_trim_protected_last : forall (sort : list cand -> list cand),
  (forall l, Permutation (sort l) l) -> (forall l, StronglySorted kle (sort l)) ->
  forall cfg s, inv s ->
  let a := abs s in let cl := force_trim sort cfg s in
  (forall p c, In (p, c) cl -> In c (a_conns (ap_at a p)))
  /\ (forall p c, In (p, c) cl -> is_prot (a_prot a) p = true ->
        forall q d, In q (pids a) -> is_prot (a_prot a) q = false -> In d (a_conns (ap_at a q)) -> In (q, d) cl)
  /\ (forall p c q, In (p, c) cl -> In q (pids a) -> is_prot (a_prot a) q = is_prot (a_prot a) p ->
        keptp a cl q = true -> total (ap_at a p) <= total (ap_at a q))
  /\ (acount a <= c_low cfg -> cl = []).
Proof.
  intros sort Hp Hs cfg s Hinv. exact (force_prop_spec cfg (abs s) _ (model_force_ok_l sort Hp Hs cfg s Hinv)).
Qed.
Print Assumptions c14_force_trim_protected_last.

(* the sort hypotheses are satisfiable: stable insertion sort meets them *)
Theorem c14_isort_is_a_sort :
  (forall l, Permutation (isort l) l) /\ (forall l, StronglySorted kle (isort l)).
Proof. exact (conj isort_perm isort_sorted). Qed.
Print Assumptions c14_isort_is_a_sort.

(* observed while transcribing (not demanded by the property text, which only
   PERMITS a forced trim to close protected peers): getConnsToCloseEmergency
   compares the first selection with the already decremented target, so a
   forced trim can stop above the low watermark although protected peers are
   left.  low = 1; peer 0 unprotected with 3 connections, peers 1..3 protected
   with one each: ForceTrim closes 3 connections and keeps 3 > low. *)
Theorem c14_force_trim_may_stop_above_low :
  let cfg := mkCfg 1 3 0 1 [] in
  let s := run isort cfg (init cfg)
             [Connected 0 0; Connected 0 1; Connected 0 2; Connected 1 0; Connected 2 0; Connected 3 0;
              Protect 1 0; Protect 2 0; Protect 3 0] in
  count s = 6 /\ length (force_trim isort cfg s) = 3%nat.
Proof. vm_compute. split; reflexivity. Qed.
Print Assumptions c14_force_trim_may_stop_above_low.

(* ==== CONCURRENCY: the manager as an LTS of critical sections (Conc.v).  A
   schedule is ANY list of atomic actions (a trim split into begin / per-peer
   snapshot / sort / per-entry selection / close, the decayer tick split per
   peer, every other operation one section); actions that are not enabled are
   skipped.  All theorems below quantify over every schedule. ==== *)

(* "count and tag totals always equal what the notifications and tag operations
   imply, under ANY interleaving with trims": the cached value is the tag sum
   and the cached count the number of tracked connections in every state of
   every schedule (also between the steps of a trim and of a decay tick) *)
Theorem c14_conc_count_and_totals_every_schedule : forall cfg sched p,
  let s := cs_s (fst (crun cfg (cinit cfg) sched)) in
  p_value (peer_at s p) = zsum (p_tags (peer_at s p)) + zsum (p_dec (peer_at s p))
  /\ count s = zsum (map (fun pi => zlen (p_conns pi)) (peers s)).
Proof.
  intros cfg sched p s. pose proof (ci_inv _ _ (cinv_run cfg sched (cinit cfg) (cinv_init cfg))) as H.
  split; [exact (proj1 (proj2 (peer_at_ok _ p H)))|exact (proj2 H)].
Qed.
Print Assumptions c14_conc_count_and_totals_every_schedule.

(* (a) every candidate of the trim in flight - hence every selected and every
   closed connection's peer - was unprotected in the protection table the
   snapshot phase ran under ([cs_psnap], taken at ABegin); while the snapshot
   phase lasts the real table IS that table, because Protect/Unprotect block on
   plk (second theorem).  A Protect issued after the snapshot phase does not
   save the peer: that is what the code guarantees, no more. *)
Theorem c14_conc_protected_at_snapshot_never_selected : forall cfg sched,
  let cs := fst (crun cfg (cinit cfg) sched) in
  (forall e, In e (cs_cands cs) -> is_prot (cs_psnap cs) (ce_p e) = false)
  /\ (forall p c, In (p, c) (cs_sel cs) -> exists e, In e (cs_cands cs) /\ ce_p e = p)
  /\ (forall vis, cs_ph cs = TSnap vis -> prot (cs_s cs) = cs_psnap cs).
Proof.
  intros cfg sched cs. pose proof (cinv_run cfg sched (cinit cfg) (cinv_init cfg)) as H. fold cs in H.
  repeat split.
  - intros e He. exact (proj1 (ci_snap _ _ H e He)).
  - exact (ci_sel _ _ H).
  - intros vis E. exact (proj2 (ci_vis _ _ H vis E)).
Qed.
Print Assumptions c14_conc_protected_at_snapshot_never_selected.

Theorem c14_conc_protect_blocks_during_snapshot : forall cfg cs vis p g, cs_ph cs = TSnap vis ->
  cstep cfg cs (AOp (Protect p g)) = None /\ cstep cfg cs (AOp (Unprotect p g)) = None.
Proof. intros cfg cs vis p g E. unfold cstep, op_enabled. rewrite E. split; reflexivity. Qed.
Print Assumptions c14_conc_protect_blocks_during_snapshot.

(* (b) the firstSeen read at a candidate's snapshot ([ce_first], recorded by
   ASnap from the live entry) is not after gracePeriodStart: a peer inside its
   grace period when snapshotted is never a candidate, so none of its
   connections is ever selected or closed by that trim *)
Theorem c14_conc_in_grace_at_snapshot_never_selected : forall cfg sched,
  let cs := fst (crun cfg (cinit cfg) sched) in
  forall e, In e (cs_cands cs) -> ce_first e <= cs_gstart cs.
Proof.
  intros cfg sched cs e He.
  exact (proj2 (ci_snap _ _ (cinv_run cfg sched (cinit cfg) (cinv_init cfg)) e He)).
Qed.
Print Assumptions c14_conc_in_grace_at_snapshot_never_selected.

(* (b) AT FULL STRENGTH (the code since "fix: connmgr: re-check the grace
   period in the trim's selection loop"): no connection of a peer that is inside
   its grace period at the moment it is selected is ever selected, hence closed,
   whatever the schedule - this covers the early-tagged candidate whose first
   Connected lands between the snapshot and the selection loop.
   Step form: in ANY state, an iteration of the selection loop adds to the
   selection only connections of a peer whose firstSeen, read in that very
   critical section, is not after gracePeriodStart ... *)
Theorem c14_conc_selection_rechecks_grace : forall cfg cs cs' evs,
  cstep cfg cs ASelect = Some (cs', evs) ->
  forall x, In x (cs_sel cs') -> In x (cs_sel cs) \/ p_first (peer_at (cs_s cs) (fst x)) <= cs_gstart cs.
Proof. exact select_step_rechecks. Qed.
Print Assumptions c14_conc_selection_rechecks_grace.

(* ... and gracePeriodStart never overtakes the clock (so "firstSeen <=
   gracePeriodStart" means "grace period over NOW", at every later moment of the
   trim), and a selected connection whose candidate is still the same peer entry
   belongs, in every state of every schedule up to the close, to a peer that is
   not temp and whose firstSeen is not after gracePeriodStart *)
Theorem c14_conc_selected_peer_out_of_grace_every_schedule : forall cfg sched,
  let cs := fst (crun cfg (cinit cfg) sched) in
  (is_idle (cs_ph cs) = false -> cs_gstart cs <= now (cs_s cs) - c_grace cfg)
  /\ forall p c e, In (p, c) (cs_sel cs) -> In e (cs_cands cs) -> ce_p e = p -> ce_live e = true ->
       p_temp (peer_at (cs_s cs) p) = false /\ p_first (peer_at (cs_s cs) p) <= cs_gstart cs.
Proof.
  intros cfg sched cs. pose proof (cinv_run cfg sched (cinit cfg) (cinv_init cfg)) as H. fold cs in H.
  split; [exact (ci_clock _ _ H)|exact (ci_self _ _ H)].
Qed.
Print Assumptions c14_conc_selected_peer_out_of_grace_every_schedule.

(* (c) when the trim is about to close its selection, the connections left on
   its live candidates that are still out of grace number at most low + the connections that Connected
   added to a live candidate after its snapshot (ghost counters); with no such
   Connected the bound is low *)
Theorem c14_conc_left_at_most_low_plus_added : forall cfg sched,
  let cs := fst (crun cfg (cinit cfg) sched) in
  cs_ph cs = TClose ->
  phi (cs_s cs) (cs_gstart cs) (cs_sel cs) (cs_cands cs) <= Z.max 0 (c_low cfg) + cs_added1 cs + cs_added2 cs.
Proof.
  intros cfg sched cs E. exact (phi_at_close cfg cs (cinv_run cfg sched (cinit cfg) (cinv_init cfg)) E).
Qed.
Print Assumptions c14_conc_left_at_most_low_plus_added.

(* (d) every value the sort's comparator reads is the peer's tag total at the
   instant of that comparison (its critical section is the linearisation
   point): no torn per-peer value, in any reachable state *)
Theorem c14_conc_no_torn_value : forall cfg sched p q cs' evs,
  let cs := fst (crun cfg (cinit cfg) sched) in
  cstep cfg cs (ACmp p q) = Some (cs', evs) ->
  cs' = cs /\ forall x v, In (ERead x v) evs ->
    v = zsum (p_tags (peer_at (cs_s cs) x)) + zsum (p_dec (peer_at (cs_s cs) x)).
Proof.
  intros cfg sched p q cs' evs cs Hs.
  exact (cmp_reads cfg cs p q cs' evs (cinv_run cfg sched (cinit cfg) (cinv_init cfg)) Hs).
Qed.
Print Assumptions c14_conc_no_torn_value.

(* (e) the decayer's sections (bump, remove, the per-peer decay of a tick) on a
   tracked peer change tag values only, and every step of a trim is the same
   step on the state with all tag values erased: decayer sections and the
   trim's snapshot / selection / close commute, whatever the schedule; the
   cached value stays the tag sum throughout (first theorem above) *)
Theorem c14_conc_decayer_commutes_with_trim :
  (forall cfg s p, p_tracked (peer_at s p) = true ->
     (forall d dl, erase (bump cfg s p d dl) = erase s)
     /\ (forall d, erase (dremove cfg s p d) = erase s)
     /\ (forall vs, erase (set_peer s p (decay_peer vs (peer_at s p))) = erase s))
  /\ (forall cfg cs a, is_trim_act a = true ->
        cstep cfg (erase_cs cs) a =
        match cstep cfg cs a with Some (cs', evs) => Some (erase_cs cs', evs) | None => None end).
Proof. exact (conj decayer_sections_erase trim_steps_erase). Qed.
Print Assumptions c14_conc_decayer_commutes_with_trim.

(* the monitor that judges the implementation's scripted during-trim
   interleavings by clauses (a)-(d) accepts the event trace of EVERY schedule *)
Theorem c14_conc_monitor_accepts_every_schedule : forall cfg sched,
  exists m', cmon cfg (cm_init (ainit cfg)) 0 (snd (crun cfg (cinit cfg) sched)) = inl m'.
Proof. exact cmon_accepts_l. Qed.
Print Assumptions c14_conc_monitor_accepts_every_schedule.

(* NON-VACUITY of the strengthened (b): with the selection loop as it was
   BEFORE the fix (Conc.select_step false) the schedule below violates it.  Peer
   0 was tagged early (temporary entry, firstSeen 0) and is out of grace at time
   5, so the trim snapshots it as a candidate; its Connected arrives between
   the snapshot and the selection loop, clears temp and restarts the grace
   period (firstSeen 5); the old loop reads the entry's LIVE connection set
   and the trim closes the brand-new connection (0,7) although firstSeen = now.
   The repaired loop skips the entry and closes the other candidate instead.
   (This was the defect; the same schedule is a fixed corpus case of the
   harness, replayed on the implementation through the hook in the sort.) *)
Definition w1_cfg := mkCfg 1 3 5 1 [].
Definition w1_sched : list act :=
  [AOp (TagPeer 0 0 1); AOp (Connected 1 0); AOp (Connected 2 0);
   AClock; AClock; AClock; AClock; AClock;
   ABegin; ASnap 0; ASnap 1; ASnap 2; ASnapEnd; ASortEnd [0; 1; 2]%nat;
   AOp (Connected 0 7);
   ASelect; ASelect; ASelect; AFinish].
Theorem c14_conc_old_selection_loop_closed_inside_fresh_grace :
  let r := crun_old w1_cfg (cinit w1_cfg) w1_sched in
  let s := cs_s (fst r) in
  In (EClosed [(0%nat, 7%nat)]) (snd r)
  /\ now s = 5 /\ p_first (peer_at s 0) = 5 /\ now s - c_grace w1_cfg < p_first (peer_at s 0).
Proof. vm_compute. repeat split; auto 30. Qed.
Print Assumptions c14_conc_old_selection_loop_closed_inside_fresh_grace.

Theorem c14_conc_repaired_selection_loop_on_the_same_schedule :
  In (EClosed [(1%nat, 0%nat)]) (snd (crun w1_cfg (cinit w1_cfg) w1_sched)).
Proof. vm_compute. auto 30. Qed.
Print Assumptions c14_conc_repaired_selection_loop_on_the_same_schedule.

(* NOT A DEFECT (the eligible set itself changes concurrently): the literal "after a trim with no concurrent Connected at most
   low open, unprotected, out-of-grace connections remain" is false when an
   Unprotect - or a clock advance - races with the trim; the true statement is
   c14_conc_left_at_most_low_plus_added, about the trim's candidates.  Peer 3
   is protected while snapshotted and unprotected before the trim finishes; no
   Connected happens; the trim closes (1,0) and two eligible connections are
   left with low = 1. *)
Definition w2_cfg := mkCfg 1 3 0 1 [].
Definition w2_sched : list act :=
  [AOp (Connected 1 0); AOp (Connected 2 0); AOp (Connected 3 0); AOp (Protect 3 0);
   ABegin; ASnap 0; ASnap 1; ASnap 2; ASnap 3; ASnapEnd; ASortEnd [1; 2]%nat;
   AOp (Unprotect 3 0);
   ASelect; ASelect; AFinish].
Theorem c14_conc_literal_low_fails_with_unprotect_witness :
  let r := crun w2_cfg (cinit w2_cfg) w2_sched in
  In (EClosed [(1%nat, 0%nat)]) (snd r)
  /\ remaining_eligible w2_cfg (abs (cs_s (fst r))) [(1%nat, 0%nat)] = 2
  /\ c_low w2_cfg = 1.
Proof. vm_compute. repeat split; auto 30. Qed.
Print Assumptions c14_conc_literal_low_fails_with_unprotect_witness.

(* THE DECAYER'S TAG REGISTRY (Registry.v): Close queues the closure, the loop
   processes it later by NAME, RegisterDecayingTag refuses a name that is in
   knownTags.  After every step of every schedule of Register / Close / loop
   processing, a registered tag whose closed flag is not set is in knownTags
   (so every tick visits it and its values decay at its intervals): the
   by-name deletion can only ever hit the closed object itself, because the
   name stays taken until its closure has been processed. *)
Theorem c14_registry_unclosed_tag_is_known : forall sched n g,
  let r := rrun false rinit sched in
  In (n, g) (r_all r) -> ~ In (n, g) (r_closed r) -> known_of r n = Some g.
Proof. intros sched n g r. exact (ri_live_known _ (rinv_run sched rinit rinv_init) n g). Qed.
Print Assumptions c14_registry_unclosed_tag_is_known.

(* non-vacuity: if Close also frees the name at once ("so it can be reused"),
   a re-registration slips in before the queued closure is processed and the
   loop deletes the NEW tag: registered, unclosed, and not in knownTags *)
Theorem c14_registry_early_release_loses_the_new_tag :
  let r := rrun true rinit [RRegister 0; RClose 0 0; RRegister 0; RProc] in
  In (0%nat, 1%nat) (r_all r) /\ ~ In (0%nat, 1%nat) (r_closed r) /\ known_of r 0 = None.
Proof. vm_compute. repeat split; auto. intros [H|[]]. discriminate. Qed.
Print Assumptions c14_registry_early_release_loses_the_new_tag.

(* ---- non-vacuity ------------------------------------------------------------------ *)
(* ==== TWO TRIMS IN FLIGHT, ForceTrim SPLIT (Conc2.v) ========================
   BasicConnMgr.background() calls trim() without trimMutex: the background
   trim (thread B) can overlap a TrimOpenConns or a ForceTrim (thread A, the
   trimMutex holder), each with its OWN candidate snapshot; ForceTrim is split
   into the per-segment snapshot / sort / selection / close steps of
   getConnsToCloseEmergency (two passes), racing with every other operation's
   critical section and with the other trim.  c2run true = the code after
   "fix: connmgr: a trim pruned a peer's new entry through a stale pointer"
   (the prune deletes the map entry only if it still is the snapshotted
   object); c2run false = the code before it.  Every theorem quantifies over
   every schedule. ==== *)
Definition final2 (cfg : config) (sched : list act2) : c2 := fst (c2run true cfg (c2init cfg) sched).

(* the monitor that judges the implementation's OVERLAP cases accepts the event
   trace of every schedule *)
Theorem c14_overlap_monitor_accepts_every_schedule : forall cfg sched,
  exists m', cmon2 cfg (m2_init (ainit cfg)) 0 (snd (c2run true cfg (c2init cfg) sched)) = inl m'.
Proof.
  intros cfg sched. destruct (j2_run cfg sched (c2init cfg) (m2_init (ainit cfg)) 0 (i2_init true cfg) (j2_init cfg)) as [m' [H _]].
  exists m'. exact H.
Qed.
Print Assumptions c14_overlap_monitor_accepts_every_schedule.

(* bookkeeping is independent of the trims, however many are in flight: in
   every state of every schedule the cached value is the tag sum, the cached
   count is the number of tracked connections, and the state is exactly what
   the monitor derives from the delivered operations (and prunes) alone *)
Theorem c14_overlap_count_and_totals_every_schedule : forall cfg sched p,
  let s := c_s (final2 cfg sched) in
  p_value (peer_at s p) = zsum (p_tags (peer_at s p)) + zsum (p_dec (peer_at s p))
  /\ count s = zsum (map (fun pi => zlen (p_conns pi)) (peers s))
  /\ exists m', cmon2 cfg (m2_init (ainit cfg)) 0 (snd (c2run true cfg (c2init cfg) sched)) = inl m' /\ m2_a m' = abs s.
Proof.
  intros cfg sched p s. pose proof (i2_inv _ _ (i2_run cfg sched (c2init cfg) (i2_init true cfg)) eq_refl) as H.
  split; [exact (proj1 (proj2 (peer_at_ok _ p H)))|]. split; [exact (proj2 H)|].
  destruct (j2_run cfg sched (c2init cfg) (m2_init (ainit cfg)) 0 (i2_init true cfg) (j2_init cfg)) as [m' [Hc HJ]].
  exists m'. split; [exact Hc|exact (j2_a _ _ HJ)].
Qed.
Print Assumptions c14_overlap_count_and_totals_every_schedule.

(* (a), (b) per trim: whatever a regular trim (TrimOpenConns or the background
   trim) has selected belongs to a peer that THIS trim snapshotted as a
   candidate: unprotected in the protection table its own snapshot ran under,
   firstSeen at or before its own gracePeriodStart; and (fix b133a8d) every
   selected connection was read at a visit of the selection loop at which the
   entry's firstSeen, re-read under the segment lock, was still at or before
   gracePeriodStart *)
Theorem c14_overlap_trim_selects_only_its_own_eligible_candidates : forall cfg sched t,
  t = c_a (final2 cfg sched) \/ t = c_b (final2 cfg sched) -> t_force t = false ->
  forall p c, In (p, c) (t_sel t) ->
    (exists e, In e (t_cands t) /\ e_p e = p /\ is_prot (t_psnap t) p = false /\ e_first e <= t_g t)
    /\ (exists f cs, In (p, f, cs) (t_visits t) /\ In c cs /\ f <= t_g t).
Proof.
  intros cfg sched t Ht Hf p c Hin.
  pose proof (i2_run cfg sched (c2init cfg) (i2_init true cfg)) as [_ HA HB _].
  assert (HT : TI (c_s (final2 cfg sched)) t) by (destruct Ht as [-> | ->]; assumption).
  pose proof (ti_nof _ _ HT Hf) as Hq. split.
  - destruct (ti_sel _ _ HT p c Hin) as [[e [He Ep]]|Hq']; [|congruence].
    exists e. unfold p1cands in He. pose proof (ti_unprot _ _ HT e) as Hu. unfold p1cands in Hu. rewrite Hq in He, Hu.
    repeat split; [exact He|exact Ep|rewrite <- Ep; apply Hu, He|apply (ti_grace _ _ HT Hf e He)].
  - destruct (ti_vis _ _ HT p c Hin) as [f [cs [Hv Hc]]]. exists f, cs. repeat split; [exact Hv|exact Hc|apply (ti_recheck _ _ HT Hf p f cs Hv)].
Qed.
Print Assumptions c14_overlap_trim_selects_only_its_own_eligible_candidates.

(* while a snapshot holds plk.RLock the protection table IS the table recorded
   for it: Protect/Unprotect are not enabled *)
Theorem c14_overlap_protect_blocks_during_a_snapshot : forall g cfg cs o,
  plk_op o = true -> (q_snap (t_ph (c_a cs)) || q_snap (t_ph (c_b cs))) = true -> c2step g cfg cs (BOp o) = None.
Proof.
  intros g cfg cs o Ho Hs. cbn [c2step]. destruct (is_trim_op o); [reflexivity|]. rewrite Ho, Hs. reflexivity.
Qed.
Print Assumptions c14_overlap_protect_blocks_during_a_snapshot.

(* "only a memory-emergency forced trim may close protected peers, and only
   after all unprotected ones", for the SPLIT ForceTrim under every schedule:
   a selected connection belongs to a peer that pass 1 snapshotted as
   unprotected (under plk.RLock), or pass 2 has begun - and pass 2 begins only
   after the selection loop of pass 1 visited EVERY candidate of its snapshot,
   each visit selecting all the connections the entry held at that moment *)
Theorem c14_overlap_force_trim_protected_only_after_all_unprotected : forall cfg sched,
  let t := c_a (final2 cfg sched) in
  t_force t = true ->
  forall p c, In (p, c) (t_sel t) ->
    (exists e, In e (p1cands t) /\ e_p e = p /\ is_prot (t_psnap t) p = false)
    \/ (t_pass2 t = true /\
        forall e, In e (p1cands t) ->
          is_prot (t_psnap t) (e_p e) = false /\ e_done e = true /\
          exists f cs, In (e_p e, f, cs) (t_visits t) /\ forall c', In c' cs -> In (e_p e, c') (t_sel t)).
Proof.
  intros cfg sched t Hf p c Hin.
  pose proof (i2_run cfg sched (c2init cfg) (i2_init true cfg)) as [_ HT _ _]. fold (final2 cfg sched) in HT. fold t in HT.
  destruct (ti_sel _ _ HT p c Hin) as [[e [He Ep]]|Hq].
  - left. exists e. repeat split; [exact He|exact Ep|rewrite <- Ep; apply (ti_unprot _ _ HT e He)].
  - right. split; [exact Hq|]. intros e He.
    assert (Hd : e_done e = true) by (unfold p1cands in He; rewrite Hq in He; apply (ti_last _ _ HT Hq e He)).
    split; [apply (ti_unprot _ _ HT e He)|]. split; [exact Hd|].
    destruct (ti_done _ _ HT Hf e He Hd) as [f [cs Hv]]. exists f, cs. split; [exact Hv|].
    intros c' Hc'. apply (ti_vsel _ _ HT _ f cs c' Hv Hc').
Qed.
Print Assumptions c14_overlap_force_trim_protected_only_after_all_unprotected.

(* the bound on what ONE trim may close, with any number of other trims and
   operations racing: before its last batch (all connections of one entry) the
   trim had selected fewer than its target - ncandidates of ITS snapshot minus
   low for a regular trim, connCount - low as read by ForceTrim before it
   waited for trimMutex.  Nothing bounds the two trims together: see
   c14_overlap_two_trims_go_below_low. *)
Theorem c14_overlap_each_trim_closes_less_than_its_target_before_the_last_batch : forall cfg sched t,
  t = c_a (final2 cfg sched) \/ t = c_b (final2 cfg sched) ->
  (t_sel t = [] \/ zlen (t_sel t) - t_lastn t < t_tg0 t) /\ t_tg t = t_tg0 t - zlen (t_sel t).
Proof.
  intros cfg sched t Ht. pose proof (i2_run cfg sched (c2init cfg) (i2_init true cfg)) as [_ HA HB _].
  assert (HT : TI (c_s (final2 cfg sched)) t) by (destruct Ht as [-> | ->]; assumption).
  split; [apply (ti_bound _ _ HT)|apply (ti_tg _ _ HT)].
Qed.
Print Assumptions c14_overlap_each_trim_closes_less_than_its_target_before_the_last_batch.

Theorem c14_overlap_regular_target_is_own_snapshot_minus_low : forall g cfg i s t perm s' t' evs,
  tstep g cfg i s t (KSortEnd perm) = Some (s', t', evs) -> t_force t = false ->
  t_tg0 t' = t_ncand t - c_low cfg /\ t_tg t' = t_ncand t - c_low cfg.
Proof.
  intros g cfg i s t perm s' t' evs H Hf. cbn [tstep] in H. destruct (t_ph t); try discriminate.
  destruct (forallb _ _); [|discriminate]. rewrite Hf in H. inversion H; subst. split; reflexivity.
Qed.
Print Assumptions c14_overlap_regular_target_is_own_snapshot_minus_low.

(* OVER-CLOSING by two overlapping trims (not against the property: "leaves at
   most low-watermark connections" bounds what is LEFT from above).  low = 1,
   two connections; both trims snapshot both peers (target 2 - 1 = 1 each);
   A closes (1,0); its Disconnected is delivered; B's entry for peer 1 is now a
   dead object without connections, so B goes on and closes (2,0): each trim
   stayed within its own bound, together they left 0 < low. *)
Definition thA := BAct false.
Definition thB := BAct true.
Definition w4_cfg := mkCfg 1 2 0 1 [].
Definition w4_sched : list act2 :=
  [BOp (Connected 1 0); BOp (Connected 2 0);
   thA KBegin; thA (KSnap 1); thA (KSnap 2); thA KSnapEnd;
   thB KBegin; thB (KSnap 1); thB (KSnap 2); thB KSnapEnd;
   thA (KSortEnd [1; 2]%nat); thA KSelect; thA KSelect; thA KFinish;
   BOp (Disconnected 1 0);
   thB (KSortEnd [1; 2]%nat); thB KSelect; thB KSelect; thB KSelect; thB KFinish].
Theorem c14_overlap_two_trims_go_below_low :
  let r := c2run true w4_cfg (c2init w4_cfg) w4_sched in
  In (VClosed false [(1%nat, 0%nat)]) (snd r) /\ In (VClosed true [(2%nat, 0%nat)]) (snd r)
  /\ t_tg0 (c_a (fst r)) = 1 /\ t_tg0 (c_b (fst r)) = 1 /\ c_low w4_cfg = 1
  /\ count (fst (step isort w4_cfg (c_s (fst r)) (Disconnected 2 0))) = 0.
Proof. vm_compute. repeat split; auto 30. Qed.
Print Assumptions c14_overlap_two_trims_go_below_low.

(* REGRESSION LEMMA for the defect repaired in /repo 6213130 (found while
   proving c14_overlap_count_and_totals_every_schedule: false of the loop as it
   was).  Peer 0 was tagged early (temp entry O1, out of grace at time 11); A
   and B both snapshot O1; A's selection prunes it; Connected(0,0) and TagPeer
   create a NEW entry O2 (count 3); B's selection reaches its stale pointer:
   O1 is still temp, without connections, old firstSeen - the old loop deletes
   BY ID, i.e. O2: a connected, tagged peer is no longer tracked and the count
   (3) exceeds the tracked connections (2) for ever.  The monitor rejects that
   trace (clause 35); the repaired loop keeps O2 on the same schedule; and on
   every schedule on which no such delete fires the old loop and the repaired
   one are the same run.  The schedule is a directed case of the harness. *)
Definition w3_cfg := mkCfg 1 2 10 1 [].
Definition w3_sched : list act2 :=
  [BOp (TagPeer 0 0 7); BOp (Connected 1 0); BOp (Connected 2 0); BOp (Advance 11);
   thA KBegin; thA (KSnap 0); thA (KSnap 1); thA (KSnap 2); thA KSnapEnd;
   thB KBegin; thB (KSnap 0); thB (KSnap 1); thB (KSnap 2); thB KSnapEnd;
   thA (KSortEnd [0; 1; 2]%nat); thA KSelect;
   BOp (Connected 0 0); BOp (TagPeer 0 1 5);
   thB (KSortEnd [0; 1; 2]%nat); thB KSelect;
   thA KSelect; thA KSelect; thA KFinish; thB KSelect; thB KSelect; thB KFinish].
Theorem c14_overlap_old_prune_by_id_lost_a_connected_peer :
  let r := c2run false w3_cfg (c2init w3_cfg) w3_sched in
  let s := c_s (fst r) in
  In (VStale true 0) (snd r) /\ tracked s 0 = false /\ count s = 3
  /\ zsum (map (fun pi => zlen (p_conns pi)) (peers s)) = 2
  /\ cmon2 w3_cfg (m2_init (ainit w3_cfg)) 0 (snd r) = inr [ERR_PROPERTY; 17; 35].
Proof. vm_compute. repeat split; auto 30. Qed.
Print Assumptions c14_overlap_old_prune_by_id_lost_a_connected_peer.

Theorem c14_overlap_repaired_prune_on_the_same_schedule :
  let s := c_s (fst (c2run true w3_cfg (c2init w3_cfg) w3_sched)) in
  tracked s 0 = true /\ count s = 3 /\ p_value (peer_at s 0) = 5 /\ p_conns (peer_at s 0) = [0%nat].
Proof. vm_compute. repeat split. Qed.
Print Assumptions c14_overlap_repaired_prune_on_the_same_schedule.

Theorem c14_overlap_old_loop_agrees_when_no_stale_delete_fires : forall cfg sched cs,
  no_stale (snd (c2run false cfg cs sched)) = true -> c2run true cfg cs sched = c2run false cfg cs sched.
Proof. exact c2run_guard. Qed.
Print Assumptions c14_overlap_old_loop_agrees_when_no_stale_delete_fires.


(* a reachable state in which a trim closes the lowest-valued unprotected peer
   outside its grace period and keeps the protected and the young one *)
Example trim_closes_lowest :
  let cfg := mkCfg 1 3 5 1 [] in
  let s := run isort cfg (init cfg)
             [Connected 0 0; Connected 1 0; Connected 2 0; TagPeer 0 0 7; TagPeer 1 0 3; TagPeer 2 0 1;
              Protect 2 0; Advance 5; Connected 3 0] in
  inv s /\ snd (trim isort cfg s) = [(1%nat, 0%nat)].
Proof. split; [apply (inv_run isort isort_perm), inv_init|vm_compute; reflexivity]. Qed.

(* the monitor rejects: a trim that closes a protected peer *)
Example monitor_rejects_protected_closed :
  monitor (mkCfg 1 3 0 1 []) 2
    [(Connected 0 0, mkObs 1 [(true, 0, 0); (false, 0, 0)] []);
     (Connected 1 0, mkObs 2 [(true, 0, 0); (true, 0, 0)] []);
     (Protect 0 0,   mkObs 2 [(true, 0, 0); (true, 0, 0)] []);
     (Trim,          mkObs 2 [(true, 0, 0); (true, 0, 0)] [(0%nat, 0%nat)])] = [ERR_PROPERTY; 3; 11].
Proof. vm_compute. reflexivity. Qed.

(* ... a trim that closes a peer inside its grace period *)
Example monitor_rejects_grace_closed :
  monitor (mkCfg 1 3 5 1 []) 2
    [(Connected 0 0, mkObs 1 [(true, 0, 0); (false, 0, 0)] []);
     (Advance 5,     mkObs 1 [(true, 0, 0); (false, 0, 0)] []);
     (Connected 1 0, mkObs 2 [(true, 0, 0); (true, 0, 0)] []);
     (Trim,          mkObs 2 [(true, 0, 0); (true, 0, 0)] [(1%nat, 0%nat)])] = [ERR_PROPERTY; 3; 11].
Proof. vm_compute. reflexivity. Qed.

(* ... a trim that closes a peer while a lower-valued eligible peer is kept *)
Example monitor_rejects_wrong_order :
  monitor (mkCfg 1 3 0 1 []) 2
    [(Connected 0 0, mkObs 1 [(true, 0, 0); (false, 0, 0)] []);
     (Connected 1 0, mkObs 2 [(true, 0, 0); (true, 0, 0)] []);
     (TagPeer 0 0 5, mkObs 2 [(true, 5, 5); (true, 0, 0)] []);
     (Trim,          mkObs 2 [(true, 5, 5); (true, 0, 0)] [(0%nat, 0%nat)])] = [ERR_PROPERTY; 3; 12].
Proof. vm_compute. reflexivity. Qed.

(* ... a trim at the low watermark that closes something, one that leaves too many *)
Example monitor_rejects_trim_below_low :
  monitor (mkCfg 2 3 0 1 []) 2
    [(Connected 0 0, mkObs 1 [(true, 0, 0); (false, 0, 0)] []);
     (Connected 1 0, mkObs 2 [(true, 0, 0); (true, 0, 0)] []);
     (Trim,          mkObs 2 [(true, 0, 0); (true, 0, 0)] [(0%nat, 0%nat)])] = [ERR_PROPERTY; 2; 13].
Proof. vm_compute. reflexivity. Qed.

Example monitor_rejects_too_many_left :
  monitor (mkCfg 1 3 0 1 []) 3
    [(Connected 0 0, mkObs 1 [(true, 0, 0); (false, 0, 0); (false, 0, 0)] []);
     (Connected 1 0, mkObs 2 [(true, 0, 0); (true, 0, 0); (false, 0, 0)] []);
     (Connected 2 0, mkObs 3 [(true, 0, 0); (true, 0, 0); (true, 0, 0)] []);
     (Trim,          mkObs 3 [(true, 0, 0); (true, 0, 0); (true, 0, 0)] [(0%nat, 0%nat)])] = [ERR_PROPERTY; 3; 14].
Proof. vm_compute. reflexivity. Qed.

(* ... a wrong connection count, a wrong tag total, a forced trim that closes
   a protected peer while an unprotected one is kept *)
Example monitor_rejects_wrong_count :
  monitor (mkCfg 1 3 0 1 []) 1
    [(Connected 0 0, mkObs 1 [(true, 0, 0)] []); (Connected 0 0, mkObs 2 [(true, 0, 0)] [])] = [ERR_PROPERTY; 1; 3].
Proof. vm_compute. reflexivity. Qed.

Example monitor_rejects_wrong_total :
  monitor (mkCfg 1 3 0 1 []) 1
    [(TagPeer 0 0 4, mkObs 0 [(true, 4, 4)] []); (TagPeer 0 0 1, mkObs 0 [(true, 5, 5)] [])] = [ERR_PROPERTY; 1; 4].
Proof. vm_compute. reflexivity. Qed.

Example monitor_rejects_forced_protected_first :
  monitor (mkCfg 0 3 0 1 []) 2
    [(Connected 0 0, mkObs 1 [(true, 0, 0); (false, 0, 0)] []);
     (Connected 1 0, mkObs 2 [(true, 0, 0); (true, 0, 0)] []);
     (Protect 0 0,   mkObs 2 [(true, 0, 0); (true, 0, 0)] []);
     (ForceTrim,     mkObs 2 [(true, 0, 0); (true, 0, 0)] [(0%nat, 0%nat)])] = [ERR_PROPERTY; 3; 22].
Proof. vm_compute. reflexivity. Qed.

(* a schedule in which tag and connect operations interleave with the steps of
   a trim that closes something, and the concurrent monitor rejecting: a closed
   connection of a peer protected when snapshotted (31), of a peer in grace when
   snapshotted (32), too many connections left (34), a torn value (36) *)
Example conc_trim_with_interleaving :
  snd (crun (mkCfg 1 3 0 1 []) (cinit (mkCfg 1 3 0 1 []))
        [AOp (Connected 0 0); AOp (Connected 1 0); AOp (Connected 2 0); ABegin; ASnap 0; AOp (TagPeer 0 0 9);
         ASnap 1; ASnap 2; ASnapEnd; ACmp 0 1; AOp (Connected 1 1); ASortEnd [1; 2; 0]%nat; ASelect; ASelect; AFinish])
  = [EOp (Connected 0 0); EOp (Connected 1 0); EOp (Connected 2 0); ETrimBegin; ESnap 0; EOp (TagPeer 0 0 9);
     ESnap 1; ESnap 2; ESnapEnd; ERead 0 9; ERead 1 0; EOp (Connected 1 1); EClosed [(1%nat, 1%nat); (1%nat, 0%nat)]].
Proof. vm_compute. reflexivity. Qed.

Definition cm_events (cfg : config) (evs : list event) : cmst + list Z := cmon cfg (cm_init (ainit cfg)) 0 evs.

Example cmon_rejects_protected_at_snapshot :
  cm_events (mkCfg 1 3 0 1 [])
    [EOp (Connected 0 0); EOp (Connected 1 0); EOp (Protect 0 0); ETrimBegin; ESnap 0; ESnap 1; ESnapEnd;
     EClosed [(0%nat, 0%nat)]] = inr [ERR_PROPERTY; 7; 31].
Proof. vm_compute. reflexivity. Qed.

Example cmon_accepts_protect_after_snapshot :
  exists m, cm_events (mkCfg 1 3 0 1 [])
    [EOp (Connected 0 0); EOp (Connected 1 0); ETrimBegin; ESnap 0; ESnap 1; ESnapEnd; EOp (Protect 0 0);
     EClosed [(0%nat, 0%nat)]] = inl m.
Proof. eexists. vm_compute. reflexivity. Qed.

Example cmon_rejects_in_grace_at_snapshot :
  cm_events (mkCfg 1 3 5 1 [])
    [EOp (Connected 0 0); EOp (Connected 1 0); ETrimBegin; ESnap 0; ESnap 1; ESnapEnd;
     EClosed [(0%nat, 0%nat)]] = inr [ERR_PROPERTY; 6; 32].
Proof. vm_compute. reflexivity. Qed.

Example cmon_rejects_too_many_left :
  cm_events (mkCfg 1 3 0 1 [])
    [EOp (Connected 0 0); EOp (Connected 1 0); EOp (Connected 2 0); ETrimBegin; ESnap 0; ESnap 1; ESnap 2; ESnapEnd;
     EClosed [(0%nat, 0%nat)]] = inr [ERR_PROPERTY; 8; 34].
Proof. vm_compute. reflexivity. Qed.

Example cmon_accepts_one_more_left_after_connected :
  exists m, cm_events (mkCfg 1 3 0 1 [])
    [EOp (Connected 0 0); EOp (Connected 1 0); EOp (Connected 2 0); ETrimBegin; ESnap 0; ESnap 1; ESnap 2; ESnapEnd;
     EOp (Connected 2 1); EClosed [(0%nat, 0%nat); (1%nat, 0%nat)]] = inl m.
Proof. eexists. vm_compute. reflexivity. Qed.

Example cmon_rejects_torn_value :
  cm_events (mkCfg 1 3 0 1 []) [EOp (TagPeer 0 0 4); EOp (TagPeer 0 1 3); ERead 0 4] = inr [ERR_PROPERTY; 2; 36].
Proof. vm_compute. reflexivity. Qed.

(* ... and a closed connection of a candidate whose grace period restarted
   after its snapshot (37): the regression the corpus case guards against *)
Example cmon_rejects_closed_inside_fresh_grace :
  cm_events (mkCfg 1 3 5 1 [])
    [EOp (TagPeer 0 0 1); EOp (Connected 1 0); EOp (Connected 2 0); EOp (Advance 5); ETrimBegin; ESnap 0; ESnap 1; ESnap 2;
     ESnapEnd; EOp (Connected 0 7); EClosed [(0%nat, 7%nat)]] = inr [ERR_PROPERTY; 10; 37].
Proof. vm_compute. reflexivity. Qed.

(* a tag re-registered after a Close of the same name decays again in the model,
   and the monitor rejects a trace in which it does not (the m10 regression) *)
Example reregistered_tag_decays :
  let cfg := mkCfg 1 3 0 1 [mkDtag 2 1 1 0] in
  let s := run isort cfg (init cfg) [Connected 0 0; Bump 0 0 5; DCloseQ 0; DRegister 0 false; DClose 0; DRegister 0 true;
                                     Bump 0 0 4; Advance 2] in
  p_value (peer_at s 0) = 3.
Proof. vm_compute. reflexivity. Qed.

Example monitor_rejects_reregistered_tag_that_never_decays :
  monitor (mkCfg 1 3 0 1 [mkDtag 2 1 1 0]) 1
    [(Connected 0 0, mkObs 1 [(true, 0, 0)] []); (DClose 0, mkObs 1 [(true, 0, 0)] []);
     (DRegister 0 true, mkObs 1 [(true, 0, 0)] []); (Bump 0 0 4, mkObs 1 [(true, 4, 4)] []);
     (Advance 2, mkObs 1 [(true, 4, 4)] [])] = [ERR_PROPERTY; 4; 4].
Proof. vm_compute. reflexivity. Qed.

(* the split ForceTrim: pass 1 snapshots only the unprotected peer 1 (a Protect
   after the snapshot does not save it), selects it, finds too little, and only
   then pass 2 takes the protected peers; and the overlap monitor rejecting a
   closed connection of a peer protected when THAT trim snapshotted it (31)
   while accepting the same closed set from the other trim, which snapshotted
   the peer before the Protect *)
Example force_trim_split_protected_only_in_pass_two :
  let r := c2run true (mkCfg 0 5 0 1 []) (c2init (mkCfg 0 5 0 1 []))
    [BOp (Connected 1 0); BOp (Connected 2 0); BOp (Connected 3 0); BOp (Protect 2 0); BOp (Protect 3 0);
     BForceRead; BBeginForce; thA (KSnap 1); thA (KSnap 2); thA (KSnap 3); thA KSnapEnd;
     BOp (Protect 1 0);
     thA (KSortEnd [1]%nat); thA KSelect; thA KSelect;
     thA (KSnap 1); thA (KSnap 2); thA (KSnap 3); thA KSnapEnd; thA (KSortEnd [2; 1; 3]%nat);
     thA KSelect; thA KSelect; thA KSelect; thA KFinish] in
  In (VClosed false [(1%nat, 0%nat); (2%nat, 0%nat); (1%nat, 0%nat)]) (snd r)
  /\ t_pass2 (c_a (fst r)) = true /\ map e_p (t_c1 (c_a (fst r))) = [1%nat].
Proof. vm_compute. repeat split; auto 30. Qed.

Definition m2_events (cfg : config) (evs : list ev2) : m2 + list Z := cmon2 cfg (m2_init (ainit cfg)) 0 evs.

Example cmon2_judges_each_trim_by_its_own_snapshot :
  m2_events (mkCfg 1 3 0 1 [])
    [VOp (Connected 0 0); VOp (Connected 1 0); VBegin false false; VSnap false 0; VSnap false 1; VSnapEnd false;
     VOp (Protect 0 0); VBegin true false; VSnap true 0; VSnap true 1; VSnapEnd true;
     VClosed false [(0%nat, 0%nat)]; VClosed true [(0%nat, 0%nat)]] = inr [ERR_PROPERTY; 12; 31].
Proof. vm_compute. reflexivity. Qed.

Example cmon2_rejects_prune_of_a_connected_entry :
  m2_events (mkCfg 1 3 0 1 [])
    [VOp (TagPeer 0 0 1); VOp (Connected 1 0); VOp (Connected 2 0); VBegin false false; VSnap false 0; VSnapEnd false;
     VOp (Connected 0 0); VPrune false 0] = inr [ERR_PROPERTY; 7; 35].
Proof. vm_compute. reflexivity. Qed.

(* C14 — property theorems only. *)
From Coq Require Import List Arith ZArith Bool.
From Verif Require Import lib.Wire c14.Model c14.Spec c14.Proofs.
Import ListNotations.
Local Open Scope Z_scope.

Theorem c14_zsum_upd : forall l i x, zsum (upd 0 l i x) = zsum l - get 0 l i + x.
Proof. exact zsum_upd. Qed.
Print Assumptions c14_zsum_upd.

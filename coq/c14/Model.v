(* C14 — connection manager.  Executable model transcribed from
   /repo/p2p/net/connmgr/connmgr.go and decay.go.  No proofs in this file.

   Data layout kept from the code (it is what can go wrong): every peer entry
   carries the CACHED tag total [p_value] that TagPeer/UntagPeer/UpsertTag,
   the decayer's bump/remove/close/tick update incrementally, the [p_temp]
   flag of entries created by early tags, [p_first] (firstSeen) and the
   tracked connections; the manager carries the CACHED connection count.
   Go maps keyed by small harness-assigned integers are lists used as total
   maps (index = key, absent = default): segments[].peers by peer id, tags by
   tag id, decaying values by decaying-tag id, protected by peer id.  An absent
   tag and a tag of value 0 are not distinguished (the property is about the
   totals).  Time is an integer number of units; Go int is Z (no overflow). *)
From Coq Require Import List Arith ZArith Bool.
Import ListNotations.
Local Open Scope Z_scope.

(* ---- lists as total maps ------------------------------------------------- *)
Fixpoint upd {A} (d : A) (l : list A) (i : nat) (x : A) : list A :=
  match i, l with
  | O, [] => [x]
  | O, _ :: r => x :: r
  | S j, [] => d :: upd d [] j x
  | S j, y :: r => y :: upd d r j x
  end.

Definition get {A} (d : A) (l : list A) (i : nat) : A := nth i l d.

Fixpoint zsum (l : list Z) : Z :=
  match l with [] => 0 | x :: r => x + zsum r end.

Fixpoint memn (x : nat) (l : list nat) : bool :=
  match l with [] => false | y :: r => Nat.eqb x y || memn x r end.

(* remove the first occurrence *)
Fixpoint rem1 (x : nat) (l : list nat) : list nat :=
  match l with [] => [] | y :: r => if Nat.eqb x y then r else y :: rem1 x r end.

Definition is_nil {A} (l : list A) : bool := match l with [] => true | _ => false end.

Definition zlen {A} (l : list A) : Z := Z.of_nat (length l).

(* ---- configuration --------------------------------------------------------- *)
(* one registered decaying tag: interval, DecayFixed minuend k (0 = DecayNone),
   BumpSumBounded(min,max) (min > max encodes BumpSumUnbounded) *)
Record dtag := mkDtag { dt_interval : Z; dt_k : Z; dt_min : Z; dt_max : Z }.

Record config := mkCfg {
  c_low : Z; c_high : Z; c_grace : Z;
  c_res : Z;                 (* decayer resolution *)
  c_dtags : list dtag        (* all registered at creation time (t = 0) *)
}.

(* connmgr.DecayFixed / DecayNone; a removed value is the absent value 0 *)
Definition decay_fn (k v : Z) : Z :=
  if k =? 0 then v else if v - k <=? 0 then 0 else v - k.

(* connmgr.BumpSumBounded / BumpSumUnbounded *)
Definition bump_fn (d : dtag) (old delta : Z) : Z :=
  let v := old + delta in
  if dt_max d <? dt_min d then v
  else if dt_max d <=? v then dt_max d
  else if v <=? dt_min d then dt_min d
  else v.

(* RegisterDecayingTag: an interval below the resolution is overridden *)
Definition eff_interval (cfg : config) (d : dtag) : Z :=
  if dt_interval d <? c_res cfg then c_res cfg else dt_interval d.

(* ---- state ------------------------------------------------------------------- *)
Record peer := mkPeer {
  p_tracked : bool;       (* an entry exists in segments[].peers *)
  p_temp : bool;
  p_first : Z;            (* firstSeen *)
  p_tags : list Z;
  p_dec : list Z;         (* decaying values *)
  p_value : Z;            (* cached sum of all tag values *)
  p_conns : list nat
}.

Definition nopeer := mkPeer false false 0 [] [] 0 [].

Record state := mkSt {
  peers : list peer;
  prot : list (list nat);        (* protection tags per peer; protected iff non-empty *)
  count : Z;                     (* connCount *)
  now : Z;
  dst : list (Z * bool)          (* per decaying tag: nextTick, closed *)
}.

Definition init (cfg : config) : state :=
  mkSt [] [] 0 0 (map (fun d => (eff_interval cfg d, false)) (c_dtags cfg)).

Definition peer_at (s : state) (p : nat) : peer := get nopeer (peers s) p.

Definition set_peer (s : state) (p : nat) (pi : peer) : state :=
  mkSt (upd nopeer (peers s) p pi) (prot s) (count s) (now s) (dst s).

Definition set_count (s : state) (c : Z) : state :=
  mkSt (peers s) (prot s) c (now s) (dst s).

(* segment.tagInfoFor *)
Definition tag_info_for (t : Z) (pi : peer) : peer :=
  if p_tracked pi then pi else mkPeer true true t [] [] 0 [].

Definition with_conns (pi : peer) (cs : list nat) : peer :=
  mkPeer (p_tracked pi) (p_temp pi) (p_first pi) (p_tags pi) (p_dec pi) (p_value pi) cs.

Definition with_tags (pi : peer) (tags : list Z) (v : Z) : peer :=
  mkPeer (p_tracked pi) (p_temp pi) (p_first pi) tags (p_dec pi) v (p_conns pi).

Definition with_dec (pi : peer) (dec : list Z) (v : Z) : peer :=
  mkPeer (p_tracked pi) (p_temp pi) (p_first pi) (p_tags pi) dec v (p_conns pi).

(* cmNotifee.Connected *)
Definition connected (s : state) (p c : nat) : state :=
  let pi := peer_at s p in
  let pi1 :=
    if negb (p_tracked pi) then mkPeer true false (now s) [] [] 0 []
    else if p_temp pi
         then mkPeer true false (now s) (p_tags pi) (p_dec pi) (p_value pi) (p_conns pi)
         else pi in
  if memn c (p_conns pi1) then set_peer s p pi1
  else set_count (set_peer s p (with_conns pi1 (c :: p_conns pi1))) (count s + 1).

(* cmNotifee.Disconnected *)
Definition disconnected (s : state) (p c : nat) : state :=
  let pi := peer_at s p in
  if negb (p_tracked pi) then s
  else if negb (memn c (p_conns pi)) then s
  else
    let cs := rem1 c (p_conns pi) in
    set_count (set_peer s p (if is_nil cs then nopeer else with_conns pi cs)) (count s - 1).

(* TagPeer *)
Definition tag_peer (s : state) (p t : nat) (v : Z) : state :=
  let pi := tag_info_for (now s) (peer_at s p) in
  set_peer s p (with_tags pi (upd 0 (p_tags pi) t v) (p_value pi + (v - get 0 (p_tags pi) t))).

(* UntagPeer *)
Definition untag_peer (s : state) (p t : nat) : state :=
  let pi := peer_at s p in
  if negb (p_tracked pi) then s
  else set_peer s p (with_tags pi (upd 0 (p_tags pi) t 0) (p_value pi - get 0 (p_tags pi) t)).

(* UpsertTag with upsert = (+ delta) *)
Definition upsert_tag (s : state) (p t : nat) (delta : Z) : state :=
  let pi := tag_info_for (now s) (peer_at s p) in
  let oldv := get 0 (p_tags pi) t in
  let newv := oldv + delta in
  set_peer s p (with_tags pi (upd 0 (p_tags pi) t newv) (p_value pi + (newv - oldv))).

Definition dtag_open (cfg : config) (s : state) (d : nat) : bool :=
  Nat.ltb d (length (c_dtags cfg)) && negb (snd (get (0, true) (dst s) d)).

Definition nodtag := mkDtag 0 0 0 0.

(* decayingTag.Bump + the bumpTagCh branch of decayer.process *)
Definition bump (cfg : config) (s : state) (p d : nat) (delta : Z) : state :=
  if negb (dtag_open cfg s d) then s else
  let pi := tag_info_for (now s) (peer_at s p) in
  let prev := get 0 (p_dec pi) d in
  let nv := bump_fn (get nodtag (c_dtags cfg) d) prev delta in
  set_peer s p (with_dec pi (upd 0 (p_dec pi) d nv) (p_value pi + (nv - prev))).

(* decayingTag.Remove + the removeTagCh branch (tagInfoFor creates an entry) *)
Definition dremove (cfg : config) (s : state) (p d : nat) : state :=
  if negb (dtag_open cfg s d) then s else
  let pi := tag_info_for (now s) (peer_at s p) in
  set_peer s p (with_dec pi (upd 0 (p_dec pi) d 0) (p_value pi - get 0 (p_dec pi) d)).

(* decayingTag.Close sets the tag's closed flag at once (bumps are refused from
   then on) and QUEUES the closure; the loop processes it later.  A queued,
   unprocessed closure is recorded in the (otherwise unused) nextTick slot of
   the closed tag as -1: the name is still in knownTags. *)
Definition dtag_pending (cfg : config) (s : state) (d : nat) : bool :=
  Nat.ltb d (length (c_dtags cfg)) && snd (get (0, true) (dst s) d) && (fst (get (0, true) (dst s) d) =? -1).

(* decayingTag.Close, the synchronous part only *)
Definition dcloseq (cfg : config) (s : state) (d : nat) : state :=
  if negb (dtag_open cfg s d) then s
  else mkSt (peers s) (prot s) (count s) (now s) (upd (0, true) (dst s) d (-1, true)).

(* RegisterDecayingTag with the name of tag d (same interval / functions):
   refused while the name is in knownTags - an open tag, or a closed one whose
   closure the loop has not processed yet; [acc] is what the caller was told.
   nextTick := lastTick + interval, lastTick being the decayer's last tick. *)
Definition dreg_allowed (cfg : config) (s : state) (d : nat) : bool :=
  Nat.ltb d (length (c_dtags cfg)) && snd (get (0, true) (dst s) d) && negb (fst (get (0, true) (dst s) d) =? -1).

Definition dregister (cfg : config) (s : state) (d : nat) (acc : bool) : state :=
  if acc && Nat.ltb d (length (c_dtags cfg)) then
    mkSt (peers s) (prot s) (count s) (now s)
         (upd (0, true) (dst s) d
              ((now s / c_res cfg) * c_res cfg + eff_interval cfg (get nodtag (c_dtags cfg) d), false))
  else s.

(* the closeTagCh branch of the loop (delete the name from knownTags, remove
   the tag's values everywhere); as one step with Close when nothing is queued *)
Definition dclose (cfg : config) (s : state) (d : nat) : state :=
  if negb (dtag_open cfg s d || dtag_pending cfg s d) then s else
  mkSt (map (fun pi => if p_tracked pi
                       then with_dec pi (upd 0 (p_dec pi) d 0) (p_value pi - get 0 (p_dec pi) d)
                       else pi) (peers s))
       (prot s) (count s) (now s)
       (upd (0, true) (dst s) d (0, true)).

(* Protect / Unprotect *)
Definition protect (s : state) (p g : nat) : state :=
  let tags := get [] (prot s) p in
  mkSt (peers s) (upd [] (prot s) p (if memn g tags then tags else g :: tags))
       (count s) (now s) (dst s).

Definition unprotect (s : state) (p g : nat) : state :=
  mkSt (peers s) (upd [] (prot s) p (rem1 g (get [] (prot s) p))) (count s) (now s) (dst s).

Definition is_prot (pr : list (list nat)) (p : nat) : bool := negb (is_nil (get [] pr p)).

(* ---- decayer tick ----------------------------------------------------------- *)
(* per registered tag: (minuend, visited in this round) *)
Definition visits (cfg : config) (ds : list (Z * bool)) (t : Z) : list (Z * bool) :=
  map (fun x : dtag * (Z * bool) =>
         let '(d, (nx, closed)) := x in (dt_k d, negb closed && (nx <=? t)))
      (combine (c_dtags cfg) ds).

(* decay every visited tag value of one peer; returns the new values and the
   accumulated delta that the code adds to p.value *)
Fixpoint decay_tags (vs : list (Z * bool)) (dec : list Z) : list Z * Z :=
  match dec, vs with
  | v :: r, (k, true) :: vr =>
      let v' := decay_fn k v in
      let '(r', dl) := decay_tags vr r in (v' :: r', dl + (v' - v))
  | v :: r, (_, false) :: vr =>
      let '(r', dl) := decay_tags vr r in (v :: r', dl)
  | _, _ => (dec, 0)
  end.

Definition tick (cfg : config) (s : state) (t : Z) : state :=
  let vs := visits cfg (dst s) t in
  mkSt (map (fun pi => if p_tracked pi
                       then let '(dec', dl) := decay_tags vs (p_dec pi) in
                            with_dec pi dec' (p_value pi + dl)
                       else pi) (peers s))
       (prot s) (count s) t
       (map (fun x : dtag * (Z * bool) =>
               let '(d, (nx, closed)) := x in
               if negb closed && (nx <=? t) then (nx + eff_interval cfg d, closed) else (nx, closed))
            (combine (c_dtags cfg) (dst s))).

(* the clock moves one unit; the decayer's ticker fires at multiples of the
   resolution *)
Definition unit_step (cfg : config) (s : state) : state :=
  let t := now s + 1 in
  if (t mod c_res cfg) =? 0 then tick cfg s t
  else mkSt (peers s) (prot s) (count s) t (dst s).

Fixpoint advance (cfg : config) (s : state) (n : nat) : state :=
  match n with O => s | S k => advance cfg (unit_step cfg s) k end.

(* ---- trims -------------------------------------------------------------------- *)
(* candidates carry their peer id; a closed connection is (peer id, conn id) *)
Definition cand := (nat * peer)%type.

Definition tracked_list (s : state) : list cand :=
  filter (fun x : cand => p_tracked (snd x)) (combine (seq 0 (length (peers s))) (peers s)).

(* the primary keys of SortByValueAndStreams: temporary entries first, then by
   cached value.  The stream/direction tie-breakers are not modelled: every
   resolution of ties is admitted (see Spec.trim_ok). *)
Definition key_le (x y : cand) : bool :=
  p_temp (snd x) || (negb (p_temp (snd y)) && (p_value (snd x) <=? p_value (snd y))).

Definition nconns (l : list cand) : Z := zsum (map (fun x : cand => zlen (p_conns (snd x))) l).

(* the selection loop of getConnsToCloseEmergency (and of getConnsToClose before
   the grace re-check, see select_g below):
   selected connections, temporary entries met while target > 0, final target *)
Fixpoint select (l : list cand) (target : Z) : list (nat * nat) * list nat * Z :=
  match l with
  | [] => ([], [], target)
  | (p, pi) :: r =>
      if target <=? 0 then ([], [], target)
      else if is_nil (p_conns pi) && p_temp pi then
        let '(sel, pr, t) := select r target in (sel, p :: pr, t)
      else
        let '(sel, pr, t) := select r (target - zlen (p_conns pi)) in
        (map (pair p) (p_conns pi) ++ sel, pr, t)
  end.

(* the selection loop of getConnsToClose since "fix: connmgr: re-check the grace
   period in the trim's selection loop": an entry whose firstSeen is after
   gracePeriodStart when the loop reaches it is skipped (its first Connected
   arrived after the snapshot) *)
Fixpoint select_g (gs : Z) (l : list cand) (target : Z) : list (nat * nat) * list nat * Z :=
  match l with
  | [] => ([], [], target)
  | (p, pi) :: r =>
      if target <=? 0 then ([], [], target)
      else if gs <? p_first pi then select_g gs r target
      else if is_nil (p_conns pi) && p_temp pi then
        let '(sel, pr, t) := select_g gs r target in (sel, p :: pr, t)
      else
        let '(sel, pr, t) := select_g gs r (target - zlen (p_conns pi)) in
        (map (pair p) (p_conns pi) ++ sel, pr, t)
  end.

Section WithSort.
  (* sort.Slice with the code's comparator *)
  Variable sort : list cand -> list cand.

  (* getConnsToClose + trim: new state (temporary entries pruned) and the
     connections CloseWithError is called on *)
  Definition trim (cfg : config) (s : state) : state * list (nat * nat) :=
    if (c_low cfg =? 0) || (c_high cfg =? 0) then (s, [])
    else if count s <=? c_low cfg then (s, [])
    else
      let cands := filter (fun x : cand => negb (is_prot (prot s) (fst x))
                                           && (p_first (snd x) <=? now s - c_grace cfg))
                          (tracked_list s) in
      let ncand := nconns cands in
      if ncand <? c_low cfg then (s, [])
      else
        let '(sel, pr, _) := select_g (now s - c_grace cfg) (sort cands) (ncand - c_low cfg) in
        (fold_left (fun s' p => set_peer s' p nopeer) pr s, sel).

  (* ForceTrim + getConnsToCloseEmergency (no state change; the second pass
     appends to the first selection, so connections can be listed twice; the
     test after the first pass compares with the DECREMENTED target, as the
     code does) *)
  Definition force_trim (cfg : config) (s : state) : list (nat * nat) :=
    let target := count s - c_low cfg in
    if target <? 0 then []
    else
      let c1 := filter (fun x : cand => negb (is_prot (prot s) (fst x))) (tracked_list s) in
      let '(sel1, _, t1) := select (sort c1) target in
      if t1 <=? zlen sel1 then sel1
      else
        let '(sel2, _, _) := select (sort (tracked_list s)) t1 in
        sel1 ++ sel2.

  (* ---- operation language shared by theorems and correspondence ------------ *)
  Inductive op :=
  | Connected (p c : nat) | Disconnected (p c : nat)
  | TagPeer (p t : nat) (v : Z) | UntagPeer (p t : nat) | UpsertTag (p t : nat) (delta : Z)
  | Bump (p d : nat) (delta : Z) | DRemove (p d : nat) | DClose (d : nat)
  | Protect (p g : nat) | Unprotect (p g : nat)
  | Advance (dt : nat)
  | Trim | ForceTrim
  | DCloseQ (d : nat) | DRegister (d : nat) (acc : bool).

  (* one step: new state and the connections closed by it *)
  Definition step (cfg : config) (s : state) (o : op) : state * list (nat * nat) :=
    match o with
    | Connected p c => (connected s p c, [])
    | Disconnected p c => (disconnected s p c, [])
    | TagPeer p t v => (tag_peer s p t v, [])
    | UntagPeer p t => (untag_peer s p t, [])
    | UpsertTag p t dl => (upsert_tag s p t dl, [])
    | Bump p d dl => (bump cfg s p d dl, [])
    | DRemove p d => (dremove cfg s p d, [])
    | DClose d => (dclose cfg s d, [])
    | Protect p g => (protect s p g, [])
    | Unprotect p g => (unprotect s p g, [])
    | Advance dt => (advance cfg s dt, [])
    | Trim => trim cfg s
    | ForceTrim => (s, force_trim cfg s)
    | DCloseQ d => (dcloseq cfg s d, [])
    | DRegister d acc => (dregister cfg s d acc, [])
    end.

  Fixpoint run (cfg : config) (s : state) (ops : list op) : state :=
    match ops with [] => s | o :: r => run cfg (fst (step cfg s o)) r end.
End WithSort.

(* ---- the sort used to run the model: stable insertion sort ------------------- *)
Fixpoint insert (x : cand) (l : list cand) : list cand :=
  match l with
  | [] => [x]
  | y :: r => if key_le x y then x :: l else y :: insert x r
  end.

Fixpoint isort (l : list cand) : list cand :=
  match l with [] => [] | x :: r => insert x (isort r) end.

(* Extraction of the executable model + monitor for the correspondence driver.
   Only ExtrOcamlBasic: positive/N/Z/nat stay inductive types. *)
From Coq Require Import Extraction ExtrOcamlBasic.
From Verif Require Import c14.SpecConc2.
Extraction Language OCaml.
Extraction "extract/c14_model.ml" conform_case monitor_case.

(* C14 — TWO trims in flight, and ForceTrim split into its critical sections.
   No proofs in this file.

   Conc.v has one trim in flight (trimMutex) and ForceTrim as one atomic step.
   The code has more: BasicConnMgr.background() calls trim() WITHOUT trimMutex,
   so the background trim can overlap a TrimOpenConns or a ForceTrim, each with
   its own candidate snapshot; and getConnsToCloseEmergency takes one segment
   lock at a time exactly like getConnsToClose.  This LTS has

     thread A   the holder of trimMutex: TrimOpenConns (doTrim) or ForceTrim
     thread B   the background loop's trim()

   Both run the same atomic steps (KBegin / KSnap p / KSnapEnd / KSortEnd perm
   / KSelect / KFinish) on their OWN snapshot, interleaved with each other and
   with every other operation's critical section (BOp: the sequential step of
   Model.v; Protect/Unprotect block while a snapshot holds plk.RLock).
   ForceTrim: BForceRead reads connCount and computes target BEFORE it waits
   for trimMutex (as the code does), BBeginForce takes the mutex; pass 1
   snapshots the unprotected peers (no grace test), sorts, selects without
   grace re-check and without pruning; when its loop ends with
   len(selected) < target, pass 2 snapshots ALL peers again, sorts, selects.
   The sort's result is ANY order mentioning every candidate; a snapshot may
   end early (superset of the code's full sweep: nothing proved here needs the
   sweep to be complete).

   Candidate entries are POINTERS to peerInfo objects.  With a second trim in
   flight an object can leave the map while another trim still holds the
   pointer: [e_dead] = Some o is the frozen last content of such an object
   (Disconnected empties conns before deleting the entry; a prune deletes a
   temp entry without connections as it is).  The selection loop reads the
   OBJECT (re-check of firstSeen, conns, temp) but prunes BY ID:
       delete(s.peers, inf.id)
   so a stale pointer to a pruned temp object deletes whatever entry the id has
   NOW (a re-created, possibly connected, peer).  [guard] = false is the code
   as it is; [guard] = true is the loop with `if s.peers[inf.id] == inf`.

   Ghost components: t_psnap (protection table while the first snapshot held
   plk), e_first, t_c1 (ForceTrim's pass-1 candidates once pass 2 began),
   t_visits (peer, firstSeen read, connections read at each selecting visit),
   t_tg0 (initial target), t_lastn (size of the last selected batch). *)
From Coq Require Import List Arith ZArith Bool.
From Verif Require Import c14.Model c14.Conc.
Import ListNotations.
Local Open Scope Z_scope.

Record ent := mkE { e_p : nat; e_dead : option peer; e_done : bool; e_first : Z }.

Inductive ph2 := QIdle | QSnap (vis : list nat) | QSort | QSel (todo : list nat) | QClose.

Record thr := mkT {
  t_force : bool;
  t_pass2 : bool;
  t_ph : ph2;
  t_g : Z;                          (* gracePeriodStart (regular trim) *)
  t_tg : Z;                         (* target *)
  t_psnap : list (list nat);        (* ghost *)
  t_cands : list ent;
  t_ncand : Z;
  t_sel : list (nat * nat);
  t_c1 : list ent;                  (* ghost *)
  t_visits : list (nat * Z * list nat);   (* ghost *)
  t_tg0 : Z;                        (* ghost *)
  t_lastn : Z                       (* ghost *)
}.

Definition t_init : thr := mkT false false QIdle 0 0 [] [] 0 [] [] [] 0 0.

Record c2 := mkC2 { c_s : state; c_a : thr; c_b : thr; c_fpend : option Z }.

Definition c2init (cfg : config) : c2 := mkC2 (init cfg) t_init t_init None.

Inductive tact := KBegin | KSnap (p : nat) | KSnapEnd | KSortEnd (perm : list nat) | KSelect | KFinish.

(* thread ids: false = A (trimMutex holder), true = B (background loop) *)
Inductive act2 := BOp (o : op) | BForceRead | BBeginForce | BAct (i : bool) (a : tact).

Inductive ev2 :=
| VOp (o : op) | VBegin (i force : bool) | VSnap (i : bool) (p : nat) | VSnapEnd (i : bool)
| VPrune (i : bool) (p : nat) | VStale (i : bool) (p : nat) | VClosed (i : bool) (cl : list (nat * nat)).

Definition q_idle (ph : ph2) : bool := match ph with QIdle => true | _ => false end.
Definition q_snap (ph : ph2) : bool := match ph with QSnap _ => true | _ => false end.

Definition obj (s : state) (e : ent) : peer :=
  match e_dead e with Some o => o | None => peer_at s (e_p e) end.

Definition mark2 (p : nat) (l : list ent) : list ent :=
  map (fun e => if Nat.eqb (e_p e) p then mkE (e_p e) (e_dead e) true (e_first e) else e) l.

(* entries whose object left the map in the step s -> s' *)
Definition redead (s s' : state) (frz : peer -> peer) (l : list ent) : list ent :=
  map (fun e => match e_dead e with
                | Some _ => e
                | None => if tracked s (e_p e) && negb (tracked s' (e_p e))
                          then mkE (e_p e) (Some (frz (peer_at s (e_p e)))) (e_done e) (e_first e)
                          else e
                end) l.

Definition rd_thr (s s' : state) (frz : peer -> peer) (t : thr) : thr :=
  mkT (t_force t) (t_pass2 t) (t_ph t) (t_g t) (t_tg t) (t_psnap t) (redead s s' frz (t_cands t)) (t_ncand t)
      (t_sel t) (t_c1 t) (t_visits t) (t_tg0 t) (t_lastn t).

Definition set_ph (t : thr) (ph : ph2) : thr :=
  mkT (t_force t) (t_pass2 t) ph (t_g t) (t_tg t) (t_psnap t) (t_cands t) (t_ncand t)
      (t_sel t) (t_c1 t) (t_visits t) (t_tg0 t) (t_lastn t).

Definition set_cands (t : thr) (ph : ph2) (cands : list ent) : thr :=
  mkT (t_force t) (t_pass2 t) ph (t_g t) (t_tg t) (t_psnap t) cands (t_ncand t)
      (t_sel t) (t_c1 t) (t_visits t) (t_tg0 t) (t_lastn t).

(* the loop of a selection is over *)
Definition sel_exit (t : thr) : thr :=
  if t_force t && negb (t_pass2 t) && negb (t_tg t <=? zlen (t_sel t))
  then (* "We didn't find enough unprotected connections": candidates = candidates[:0], second pass *)
    mkT true true (QSnap []) (t_g t) (t_tg t) (t_psnap t) [] (t_ncand t) (t_sel t) (t_cands t) (t_visits t)
        (t_tg0 t) (t_lastn t)
  else set_ph t QClose.

Definition take (t : thr) (r : list nat) (cands1 : list ent) (p : nat) (pi : peer) : thr :=
  mkT (t_force t) (t_pass2 t) (QSel r) (t_g t) (t_tg t - zlen (p_conns pi)) (t_psnap t) cands1 (t_ncand t)
      (t_sel t ++ map (pair p) (p_conns pi)) (t_c1 t) (t_visits t ++ [(p, p_first pi, p_conns pi)])
      (t_tg0 t) (zlen (p_conns pi)).

Definition tstep (guard : bool) (cfg : config) (i : bool) (s : state) (t : thr) (a : tact)
  : option (state * thr * list ev2) :=
  match a with
  | KBegin =>
      if negb (q_idle (t_ph t)) then None else
      if (c_low cfg =? 0) || (c_high cfg =? 0) || (count s <=? c_low cfg)
      then Some (s, t_init, [VBegin i false; VClosed i []])
      else Some (s, mkT false false (QSnap []) (now s - c_grace cfg) 0 (prot s) [] 0 [] [] [] 0 0, [VBegin i false])
  | KSnap p =>
      match t_ph t with
      | QSnap vis =>
          if memn p vis then None else
          let pi := peer_at s p in
          let elig :=
            if t_force t then p_tracked pi && (t_pass2 t || negb (is_prot (prot s) p))
            else p_tracked pi && negb (is_prot (prot s) p) && (p_first pi <=? t_g t) in
          Some (s,
                mkT (t_force t) (t_pass2 t) (QSnap (p :: vis)) (t_g t) (t_tg t) (t_psnap t)
                    (if elig then t_cands t ++ [mkE p None false (p_first pi)] else t_cands t)
                    (if elig then t_ncand t + zlen (p_conns pi) else t_ncand t)
                    (t_sel t) (t_c1 t) (t_visits t) (t_tg0 t) (t_lastn t),
                if t_pass2 t then [] else [VSnap i p])
      | _ => None
      end
  | KSnapEnd =>
      match t_ph t with
      | QSnap _ =>
          if t_force t then Some (s, set_ph t QSort, if t_pass2 t then [] else [VSnapEnd i])
          else if t_ncand t <? c_low cfg then Some (s, set_ph t QIdle, [VSnapEnd i; VClosed i []])
          else Some (s, set_ph t QSort, [VSnapEnd i])
      | _ => None
      end
  | KSortEnd perm =>
      match t_ph t with
      | QSort =>
          if forallb (fun e => memn (e_p e) perm) (t_cands t) then
            if t_force t then Some (s, set_ph t (QSel perm), [])
            else Some (s, mkT false false (QSel perm) (t_g t) (t_ncand t - c_low cfg) (t_psnap t) (t_cands t) (t_ncand t)
                              (t_sel t) (t_c1 t) (t_visits t) (t_ncand t - c_low cfg) (t_lastn t), [])
          else None
      | _ => None
      end
  | KSelect =>
      match t_ph t with
      | QSel [] => Some (s, sel_exit t, [])
      | QSel (p :: r) =>
          if t_tg t <=? 0 then Some (s, sel_exit t, []) else
          match find (fun e => Nat.eqb (e_p e) p && negb (e_done e)) (t_cands t) with
          | None => Some (s, set_ph t (QSel r), [])
          | Some e =>
              let cands1 := mark2 p (t_cands t) in
              let pi := obj s e in
              if t_force t then Some (s, take t r cands1 p pi, [])
              else if t_g t <? p_first pi then Some (s, set_cands t (QSel r) cands1, [])
              else if is_nil (p_conns pi) && p_temp pi then
                match e_dead e with
                | None => Some (set_peer s p nopeer, set_cands t (QSel r) cands1, [VPrune i p])
                | Some _ =>
                    (* delete(s.peers, inf.id) through a stale pointer *)
                    if negb guard && tracked s p
                    then Some (set_peer s p nopeer, set_cands t (QSel r) cands1, [VStale i p])
                    else Some (s, set_cands t (QSel r) cands1, [])
                end
              else Some (s, take t r cands1 p pi, [])
          end
      | _ => None
      end
  | KFinish =>
      match t_ph t with
      | QClose => Some (s, set_ph t QIdle, [VClosed i (t_sel t)])
      | _ => None
      end
  end.

Definition is_trim_op (o : op) : bool := match o with Trim | ForceTrim => true | _ => false end.

Definition plk_op (o : op) : bool := match o with Protect _ _ | Unprotect _ _ => true | _ => false end.

Definition frz_of (o : op) : peer -> peer :=
  match o with Disconnected _ _ => fun pi => with_conns pi [] | _ => fun pi => pi end.

Definition c2step (guard : bool) (cfg : config) (cs : c2) (a : act2) : option (c2 * list ev2) :=
  let s := c_s cs in
  match a with
  | BOp o =>
      if is_trim_op o then None
      else if plk_op o && (q_snap (t_ph (c_a cs)) || q_snap (t_ph (c_b cs))) then None
      else
        let s' := fst (step isort cfg s o) in
        Some (mkC2 s' (rd_thr s s' (frz_of o) (c_a cs)) (rd_thr s s' (frz_of o) (c_b cs)) (c_fpend cs), [VOp o])
  | BForceRead =>
      match c_fpend cs with
      | Some _ => None
      | None =>
          let tg := count s - c_low cfg in
          if tg <? 0 then Some (cs, []) else Some (mkC2 s (c_a cs) (c_b cs) (Some tg), [])
      end
  | BBeginForce =>
      match c_fpend cs with
      | Some tg =>
          if negb (q_idle (t_ph (c_a cs))) then None else
          Some (mkC2 s (mkT true false (QSnap []) 0 tg (prot s) [] 0 [] [] [] tg 0) (c_b cs) None, [VBegin false true])
      | None => None
      end
  | BAct false ta =>
      match tstep guard cfg false s (c_a cs) ta with
      | Some (s', t', evs) =>
          Some (mkC2 s' (rd_thr s s' (fun pi => pi) t') (rd_thr s s' (fun pi => pi) (c_b cs)) (c_fpend cs), evs)
      | None => None
      end
  | BAct true ta =>
      match tstep guard cfg true s (c_b cs) ta with
      | Some (s', t', evs) =>
          Some (mkC2 s' (rd_thr s s' (fun pi => pi) (c_a cs)) (rd_thr s s' (fun pi => pi) t') (c_fpend cs), evs)
      | None => None
      end
  end.

(* a schedule is any list of actions; an action that is not enabled is skipped *)
Fixpoint c2run (guard : bool) (cfg : config) (cs : c2) (sched : list act2) : c2 * list ev2 :=
  match sched with
  | [] => (cs, [])
  | a :: r =>
      match c2step guard cfg cs a with
      | Some (cs', ev) => let '(cf, evs) := c2run guard cfg cs' r in (cf, ev ++ evs)
      | None => c2run guard cfg cs r
      end
  end.

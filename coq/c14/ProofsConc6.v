(* C14 — proofs about the LTS with two trims in flight and the split ForceTrim
   (Conc2.v): a per-thread invariant over all schedules, the bookkeeping
   invariant for the guarded prune, the coupling with the monitor cmon2. *)
From Coq Require Import List Arith ZArith Bool Lia.
From Verif Require Import lib.Wire c14.Model c14.Spec c14.Proofs c14.Proofs_Abs c14.Proofs_Trim c14.Proofs_Main.
From Verif Require Import c14.Conc c14.SpecConc c14.ProofsConc3 c14.ProofsConc4 c14.Conc2 c14.SpecConc2.
Import ListNotations.
Local Open Scope Z_scope.

Definition p1cands (t : thr) : list ent := if t_pass2 t then t_c1 t else t_cands t.

Record TI (s : state) (t : thr) : Prop := mkTI {
  ti_unprot : forall e, In e (p1cands t) -> is_prot (t_psnap t) (e_p e) = false;
  ti_psnap : forall vis, t_ph t = QSnap vis -> t_pass2 t = false -> prot s = t_psnap t;
  ti_grace : t_force t = false -> forall e, In e (t_cands t) -> e_first e <= t_g t;
  ti_nof : t_force t = false -> t_pass2 t = false;
  ti_sel : forall p c, In (p, c) (t_sel t) -> (exists e, In e (p1cands t) /\ e_p e = p) \/ t_pass2 t = true;
  ti_vis : forall p c, In (p, c) (t_sel t) -> exists f cs, In (p, f, cs) (t_visits t) /\ In c cs;
  ti_vsel : forall p f cs c, In (p, f, cs) (t_visits t) -> In c cs -> In (p, c) (t_sel t);
  ti_recheck : t_force t = false -> forall p f cs, In (p, f, cs) (t_visits t) -> f <= t_g t;
  ti_last : t_pass2 t = true -> forall e, In e (t_c1 t) -> e_done e = true;
  ti_done : t_force t = true -> forall e, In e (p1cands t) -> e_done e = true ->
              exists f cs, In (e_p e, f, cs) (t_visits t);
  ti_todo : forall todo, t_ph t = QSel todo -> forall e, In e (t_cands t) -> e_done e = false -> In (e_p e) todo;
  ti_early : (q_snap (t_ph t) = true \/ t_ph t = QSort) -> t_pass2 t = false ->
             t_sel t = [] /\ t_visits t = [] /\ forall e, In e (t_cands t) -> e_done e = false;
  ti_tg : t_tg t = t_tg0 t - zlen (t_sel t);
  ti_bound : t_sel t = [] \/ zlen (t_sel t) - t_lastn t < t_tg0 t
}.

Lemma ti_init : forall s, TI s t_init.
Proof.
  intros s. constructor; unfold p1cands; cbn;
    try (intros; discriminate); try (intros; contradiction); try (left; reflexivity); try (intros; reflexivity).
  intros _ _. repeat split. intros; contradiction.
Qed.

(* ---- redead only touches e_dead -------------------------------------------------- *)
Lemma in_redead : forall s s' f l e', In e' (redead s s' f l) ->
  exists e, In e l /\ e_p e' = e_p e /\ e_done e' = e_done e /\ e_first e' = e_first e.
Proof.
  intros s s' f l e' H. unfold redead in H. apply in_map_iff in H. destruct H as [e [He Hin]].
  exists e. split; [exact Hin|]. subst e'. destruct (e_dead e); [repeat split|].
  destruct (_ && _); repeat split.
Qed.

Lemma redead_pids : forall s s' f l, map e_p (redead s s' f l) = map e_p l.
Proof.
  intros. unfold redead. rewrite map_map. apply map_ext. intros e. destruct (e_dead e); [reflexivity|].
  destruct (_ && _); reflexivity.
Qed.

Lemma ti_rd : forall s0 s s' s'' f t, TI s0 t -> (forall vis, t_ph t = QSnap vis -> t_pass2 t = false -> prot s'' = prot s0) ->
  TI s'' (rd_thr s s' f t).
Proof.
  intros s0 s s' s'' f t H Hp. destruct H.
  assert (Hc : forall e', In e' (p1cands (rd_thr s s' f t)) ->
                 exists e, In e (p1cands t) /\ e_p e' = e_p e /\ e_done e' = e_done e /\ e_first e' = e_first e).
  { unfold p1cands, rd_thr. cbn [t_pass2 t_c1 t_cands]. destruct (t_pass2 t).
    - intros e' He'. exists e'. repeat split. exact He'.
    - apply in_redead. }
  constructor; unfold rd_thr in *; cbn [t_force t_pass2 t_ph t_g t_tg t_psnap t_cands t_ncand t_sel t_c1 t_visits t_tg0 t_lastn] in *.
  - intros e' He'. destruct (Hc e' He') as [e [Hin [E1 _]]]. rewrite E1. apply ti_unprot0, Hin.
  - intros vis Hv Hq. rewrite (Hp vis Hv Hq). apply (ti_psnap0 vis Hv Hq).
  - intros Hf e' He'. destruct (in_redead _ _ _ _ _ He') as [e [Hin [_ [_ E3]]]]. rewrite E3. apply ti_grace0; assumption.
  - exact ti_nof0.
  - intros p c Hin. destruct (ti_sel0 p c Hin) as [[e [He Ep]]|Hq]; [|right; exact Hq].
    left. unfold p1cands in *. cbn [t_pass2 t_c1 t_cands] in *. destruct (t_pass2 t).
    + exists e. split; assumption.
    + unfold redead. exists (match e_dead e with
                | Some _ => e
                | None => if tracked s (e_p e) && negb (tracked s' (e_p e))
                          then mkE (e_p e) (Some (f (peer_at s (e_p e)))) (e_done e) (e_first e)
                          else e
                end). split.
      * apply in_map_iff. exists e. split; [reflexivity|exact He].
      * destruct (e_dead e); [exact Ep|]. destruct (_ && _); exact Ep.
  - exact ti_vis0.
  - exact ti_vsel0.
  - exact ti_recheck0.
  - exact ti_last0.
  - intros Hf e' He' Hd. destruct (Hc e' He') as [e [Hin [E1 [E2 _]]]]. rewrite E1. apply ti_done0; [exact Hf|exact Hin|congruence].
  - intros todo Hph e' He' Hd. destruct (in_redead _ _ _ _ _ He') as [e [Hin [E1 [E2 _]]]]. rewrite E1.
    apply (ti_todo0 todo Hph e Hin). congruence.
  - intros Hph Hq. destruct (ti_early0 Hph Hq) as [A [B C]]. repeat split; try assumption.
    intros e' He'. destruct (in_redead _ _ _ _ _ He') as [e [Hin [_ [E2 _]]]]. rewrite E2. apply C, Hin.
  - exact ti_tg0.
  - exact ti_bound0.
Qed.

Lemma mark2_pids : forall p l, map e_p (mark2 p l) = map e_p l.
Proof. intros. unfold mark2. rewrite map_map. apply map_ext. intros e. destruct (Nat.eqb _ _); reflexivity. Qed.

Lemma in_mark2 : forall p l e', In e' (mark2 p l) ->
  exists e, In e l /\ e_p e' = e_p e /\ e_first e' = e_first e /\
            ((e_p e = p /\ e_done e' = true) \/ (e_p e <> p /\ e_done e' = e_done e)).
Proof.
  intros p l e' H. unfold mark2 in H. apply in_map_iff in H. destruct H as [e [He Hin]]. exists e. split; [exact Hin|].
  subst e'. destruct (Nat.eqb (e_p e) p) eqn:E.
  - apply Nat.eqb_eq in E. cbn. repeat split. left. split; [exact E|reflexivity].
  - apply Nat.eqb_neq in E. repeat split. right. split; [exact E|reflexivity].
Qed.

Lemma in_mark2_r : forall p l e, In e l -> exists e', In e' (mark2 p l) /\ e_p e' = e_p e /\ (e_p e = p -> e_done e' = true).
Proof.
  intros p l e H. exists (if Nat.eqb (e_p e) p then mkE (e_p e) (e_dead e) true (e_first e) else e). split.
  - unfold mark2. apply in_map_iff. exists e. split; [reflexivity|exact H].
  - destruct (Nat.eqb (e_p e) p) eqn:E; cbn; split; try reflexivity.
    intros Hp. apply Nat.eqb_neq in E. contradiction.
Qed.

Lemma find_some' : forall {A} (f : A -> bool) l x, find f l = Some x -> In x l /\ f x = true.
Proof. intros A f l x H. apply find_some in H. exact H. Qed.

(* ---- one step of a thread keeps the thread invariant ------------------------------ *)
Lemma ti_take : forall s t r p pi, TI s t -> (exists todo, t_ph t = QSel (p :: todo) /\ r = todo) ->
  0 < t_tg t -> (t_force t = false -> p_first pi <= t_g t) ->
  (exists e, In e (t_cands t) /\ e_p e = p) ->
  TI s (take t r (mark2 p (t_cands t)) p pi).
Proof.
  intros s t r p pi H [todo [Hph ->]] Htg Hre [e0 [He0 Ep0]]. destruct H.
  assert (Hc : forall e', In e' (p1cands (take t todo (mark2 p (t_cands t)) p pi)) ->
                 exists e, In e (p1cands t) /\ e_p e' = e_p e /\ e_first e' = e_first e /\
                           (e_done e' = e_done e \/ (e_p e = p /\ e_done e' = true))).
  { unfold p1cands, take. cbn [t_pass2 t_c1 t_cands]. destruct (t_pass2 t).
    - intros e' He'. exists e'. repeat split; [exact He'|left; reflexivity].
    - intros e' He'. destruct (in_mark2 _ _ _ He') as [e [Hin [E1 [E2 [[E3 E4]|[E3 E4]]]]]]; exists e; repeat split; auto. }
  constructor; unfold take in *; cbn [t_force t_pass2 t_ph t_g t_tg t_psnap t_cands t_ncand t_sel t_c1 t_visits t_tg0 t_lastn] in *.
  - intros e' He'. destruct (Hc e' He') as [e [Hin [E1 _]]]. rewrite E1. apply ti_unprot0, Hin.
  - intros vis Hv. discriminate Hv.
  - intros Hf e' He'. destruct (in_mark2 _ _ _ He') as [e [Hin [_ [E2 _]]]]. rewrite E2. apply ti_grace0; assumption.
  - exact ti_nof0.
  - intros q c Hin. apply in_app_or in Hin. destruct Hin as [Hin|Hin].
    + destruct (ti_sel0 q c Hin) as [[e [He Ep]]|Hq]; [|right; exact Hq].
      unfold p1cands in *. cbn [t_pass2 t_c1 t_cands] in *. destruct (t_pass2 t) eqn:Eq; [right; reflexivity|].
      left. destruct (in_mark2_r p _ e He) as [e' [He' [Ep' _]]]. exists e'. split; [exact He'|congruence].
    + apply in_map_iff in Hin. destruct Hin as [c' [Hc' _]]. inversion Hc'; subst q c'.
      unfold p1cands. cbn [t_pass2 t_c1 t_cands]. destruct (t_pass2 t) eqn:Eq; [right; reflexivity|].
      left. destruct (in_mark2_r p _ e0 He0) as [e' [He' [Ep' _]]]. exists e'. split; [exact He'|congruence].
  - intros q c Hin. apply in_app_or in Hin. destruct Hin as [Hin|Hin].
    + destruct (ti_vis0 q c Hin) as [f [cs [Hv Hcs]]]. exists f, cs. split; [apply in_or_app; left; exact Hv|exact Hcs].
    + apply in_map_iff in Hin. destruct Hin as [c' [Hc' Hcin]]. inversion Hc'; subst q c'.
      exists (p_first pi), (p_conns pi). split; [apply in_or_app; right; left; reflexivity|exact Hcin].
  - intros q f cs c Hv Hcin. apply in_app_or in Hv. destruct Hv as [Hv|[Hv|[]]].
    + apply in_or_app. left. apply (ti_vsel0 q f cs c Hv Hcin).
    + inversion Hv; subst q f cs. apply in_or_app. right. apply in_map, Hcin.
  - intros Hf q f cs Hv. apply in_app_or in Hv. destruct Hv as [Hv|[Hv|[]]].
    + apply (ti_recheck0 Hf q f cs Hv).
    + inversion Hv; subst q f cs. apply Hre, Hf.
  - exact ti_last0.
  - intros Hf e' He' Hd. destruct (Hc e' He') as [e [Hin [E1 [_ [E4|[E3 E4]]]]]].
    + rewrite E1. destruct (ti_done0 Hf e Hin) as [f [cs Hv]]; [congruence|]. exists f, cs. apply in_or_app. left. exact Hv.
    + rewrite E1, E3. exists (p_first pi), (p_conns pi). apply in_or_app. right. left. reflexivity.
  - intros todo' Hph' e' He' Hd. inversion Hph'; subst todo'.
    destruct (in_mark2 _ _ _ He') as [e [Hin [E1 [_ [[E3 E4]|[E3 E4]]]]]]; [congruence|].
    rewrite E1. pose proof (ti_todo0 (p :: todo) Hph e Hin) as Ht. rewrite E4 in Hd. specialize (Ht Hd).
    destruct Ht as [Ht|Ht]; [congruence|exact Ht].
  - intros [Hq|Hq]; discriminate Hq.
  - rewrite ti_tg0. unfold zlen. rewrite app_length, map_length. lia.
  - right. unfold zlen in *. rewrite app_length, map_length. rewrite ti_tg0 in Htg. lia.
Qed.

Lemma ti_setc : forall s t r p, TI s t -> t_ph t = QSel (p :: r) -> t_force t = false ->
  TI s (set_cands t (QSel r) (mark2 p (t_cands t))).
Proof.
  intros s t r p H Hph Hf. destruct H. pose proof (ti_nof0 Hf) as Hq.
  constructor; unfold set_cands, p1cands in *; rewrite ?Hq in *;
    cbn [t_force t_pass2 t_ph t_g t_tg t_psnap t_cands t_ncand t_sel t_c1 t_visits t_tg0 t_lastn] in *; rewrite ?Hq in *.
  - intros e' He'. destruct (in_mark2 _ _ _ He') as [e [Hin [E1 _]]]. rewrite E1. apply ti_unprot0, Hin.
  - intros vis Hv. discriminate Hv.
  - intros _ e' He'. destruct (in_mark2 _ _ _ He') as [e [Hin [_ [E2 _]]]]. rewrite E2. apply ti_grace0; assumption.
  - exact ti_nof0.
  - intros q c Hin. destruct (ti_sel0 q c Hin) as [[e [He Ep]]|Hq']; [|right; exact Hq'].
    left. destruct (in_mark2_r p _ e He) as [e' [He' [Ep' _]]]. exists e'. split; [exact He'|congruence].
  - exact ti_vis0.
  - exact ti_vsel0.
  - exact ti_recheck0.
  - intros Hq'. discriminate Hq'.
  - intros Hf'. congruence.
  - intros todo' Hph' e' He' Hd. inversion Hph'; subst todo'.
    destruct (in_mark2 _ _ _ He') as [e [Hin [E1 [_ [[E3 E4]|[E3 E4]]]]]]; [congruence|].
    rewrite E1. pose proof (ti_todo0 (p :: r) Hph e Hin) as Ht. rewrite E4 in Hd. specialize (Ht Hd).
    destruct Ht as [Ht|Ht]; [congruence|exact Ht].
  - intros [Hq'|Hq']; discriminate Hq'.
  - exact ti_tg0.
  - exact ti_bound0.
Qed.

Lemma ti_set_ph : forall s t ph, TI s t ->
  (forall vis, ph <> QSnap vis) -> ph <> QSort ->
  (forall todo, ph = QSel todo -> forall e, In e (t_cands t) -> e_done e = false -> In (e_p e) todo) ->
  TI s (set_ph t ph).
Proof.
  intros s t ph H H1 H2 H3. destruct H.
  constructor; unfold set_ph, p1cands in *;
    cbn [t_force t_pass2 t_ph t_g t_tg t_psnap t_cands t_ncand t_sel t_c1 t_visits t_tg0 t_lastn] in *; try assumption.
  - intros vis Hv. exfalso. exact (H1 vis Hv).
  - intros [Hq|Hq]; [|contradiction]. destruct ph; try discriminate Hq. exfalso. exact (H1 vis eq_refl).
Qed.

Lemma ti_exit : forall s t, TI s t ->
  (t_ph t = QSel [] \/ (exists todo, t_ph t = QSel todo /\ t_tg t <= 0)) -> TI s (sel_exit t).
Proof.
  intros s t H Hph. unfold sel_exit.
  destruct (t_force t && negb (t_pass2 t) && negb (t_tg t <=? zlen (t_sel t))) eqn:E.
  - apply andb_true_iff in E. destruct E as [E E3]. apply andb_true_iff in E. destruct E as [Ef Eq].
    apply negb_true_iff in Eq. apply negb_true_iff in E3. apply Z.leb_gt in E3.
    assert (Hall : forall e, In e (t_cands t) -> e_done e = true).
    { destruct Hph as [Hph|[todo [Hph Hle]]].
      - intros e He. destruct (e_done e) eqn:Ed; [reflexivity|]. destruct (ti_todo _ _ H [] Hph e He Ed).
      - pose proof (zlen_nonneg (t_sel t)). lia. }
    destruct H. constructor; unfold p1cands in *; rewrite ?Eq in *;
      cbn [t_force t_pass2 t_ph t_g t_tg t_psnap t_cands t_ncand t_sel t_c1 t_visits t_tg0 t_lastn] in *; try assumption.
    + intros vis _ Hq. discriminate Hq.
    + intros Hf. discriminate Hf.
    + intros Hf. discriminate Hf.
    + intros p c Hin. right. reflexivity.
    + intros Hf. discriminate Hf.
    + intros _. exact Hall.
    + intros _ e He Hd. apply ti_done0; [exact Ef|exact He|exact Hd].
    + intros todo Hq. discriminate Hq.
    + intros _ Hq. discriminate Hq.
  - apply ti_set_ph; [exact H|intros vis Hq; discriminate Hq|intros Hq; discriminate Hq|intros todo Hq; discriminate Hq].
Qed.

Lemma tstep_prot : forall g cfg i s t a s' t' evs, tstep g cfg i s t a = Some (s', t', evs) -> prot s' = prot s.
Proof.
  intros g cfg i s t a s' t' evs H. destruct a; cbn [tstep] in H.
  - destruct (negb _); [discriminate|]. destruct (_ || _); inversion H; reflexivity.
  - destruct (t_ph t); try discriminate. destruct (memn p vis); [discriminate|]. inversion H; reflexivity.
  - destruct (t_ph t); try discriminate. destruct (t_force t); [inversion H; reflexivity|].
    destruct (_ <? _); inversion H; reflexivity.
  - destruct (t_ph t); try discriminate. destruct (forallb _ _); [|discriminate].
    destruct (t_force t); inversion H; reflexivity.
  - destruct (t_ph t); try discriminate. destruct todo as [|p r]; [inversion H; reflexivity|].
    destruct (t_tg t <=? 0); [inversion H; reflexivity|].
    destruct (find _ _); [|inversion H; reflexivity]. cbv zeta in H.
    destruct (t_force t); [inversion H; reflexivity|].
    destruct (_ <? _); [inversion H; reflexivity|].
    destruct (_ && _); [|inversion H; reflexivity].
    destruct (e_dead e); [|inversion H; reflexivity].
    destruct (_ && _); inversion H; reflexivity.
  - destruct (t_ph t); try discriminate. inversion H; reflexivity.
Qed.

Lemma ti_tstep : forall g cfg i s t a s' t' evs, TI s t -> tstep g cfg i s t a = Some (s', t', evs) -> TI s' t'.
Proof.
  intros g cfg i s t a s' t' evs H Hs.
  assert (Hstate : forall t0, TI s t0 -> (forall vis, t_ph t0 = QSnap vis -> t_pass2 t0 = false -> prot s = t_psnap t0) -> TI s' t0).
  { intros t0 H0 _. pose proof (tstep_prot _ _ _ _ _ _ _ _ _ Hs) as Hp. destruct H0. constructor; try assumption.
    intros vis Hv Hq. rewrite Hp. apply (ti_psnap0 vis Hv Hq). }
  destruct a; cbn [tstep] in Hs.
  - (* KBegin *)
    destruct (negb _); [discriminate|]. destruct (_ || _); inversion Hs; subst s' t' evs; [apply ti_init|].
    constructor; unfold p1cands; cbn; try (intros; discriminate); try (intros; contradiction); try reflexivity.
    + intros _ _. repeat split. intros; contradiction.
    + left; reflexivity.
  - (* KSnap *)
    destruct (t_ph t) eqn:Eph; try discriminate. destruct (memn p vis); [discriminate|]. cbv zeta in Hs.
    inversion Hs; subst s' t' evs. clear Hs.
    assert (Hqs : q_snap (t_ph t) = true) by (rewrite Eph; reflexivity).
    destruct H.
    set (elig := if t_force t then p_tracked (peer_at s p) && (t_pass2 t || negb (is_prot (prot s) p))
                 else p_tracked (peer_at s p) && negb (is_prot (prot s) p) && (p_first (peer_at s p) <=? t_g t)).
    assert (Hin : forall e', In e' (if elig then t_cands t ++ [mkE p None false (p_first (peer_at s p))] else t_cands t) ->
                    In e' (t_cands t) \/ (elig = true /\ e' = mkE p None false (p_first (peer_at s p)))).
    { intros e' He'. destruct elig; [|left; exact He']. apply in_app_or in He'. destruct He' as [He'|[He'|[]]]; [left; exact He'|right; split; [reflexivity|symmetry; exact He']]. }
    constructor; unfold p1cands in *;
      cbn [t_force t_pass2 t_ph t_g t_tg t_psnap t_cands t_ncand t_sel t_c1 t_visits t_tg0 t_lastn] in *; try assumption.
    + destruct (t_pass2 t) eqn:Eq; [exact ti_unprot0|].
      intros e' He'. destruct (Hin e' He') as [He|[He ->]]; [apply ti_unprot0, He|]. cbn [e_p].
      rewrite <- (ti_psnap0 vis Eph eq_refl). unfold elig in He. destruct (t_force t).
      * apply andb_true_iff in He. destruct He as [_ He]. cbn [orb] in He. apply negb_true_iff in He. exact He.
      * apply andb_true_iff in He. destruct He as [He _]. apply andb_true_iff in He. destruct He as [_ He].
        apply negb_true_iff in He. exact He.
    + intros vis' Hv Hq. apply (ti_psnap0 vis Eph Hq).
    + intros Hf e' He'. destruct (Hin e' He') as [He|[He ->]]; [apply ti_grace0; assumption|]. cbn [e_first].
      unfold elig in He. rewrite Hf in He. apply andb_true_iff in He. destruct He as [_ He]. apply Z.leb_le in He. exact He.
    + intros q c Hq. destruct (ti_sel0 q c Hq) as [[e [He Ep]]|Hq2]; [|right; exact Hq2].
      destruct (t_pass2 t); [left; exists e; split; assumption|].
      left. exists e. split; [|exact Ep]. destruct elig; [apply in_or_app; left; exact He|exact He].
    + intros Hf e' He' Hd. destruct (t_pass2 t) eqn:Eq; [apply ti_done0; assumption|].
      destruct (Hin e' He') as [He|[He ->]]; [apply ti_done0; assumption|]. discriminate Hd.
    + intros todo Hq. discriminate Hq.
    + intros _ Hq. destruct (ti_early0 (or_introl Hqs) Hq) as [A [B C]]. repeat split; try assumption.
      intros e' He'. destruct (Hin e' He') as [He|[He ->]]; [apply C, He|reflexivity].
  - (* KSnapEnd *)
    destruct (t_ph t) eqn:Eph; try discriminate.
    assert (Hsort : TI s (set_ph t QSort)).
    { destruct H. constructor; unfold set_ph, p1cands in *;
        cbn [t_force t_pass2 t_ph t_g t_tg t_psnap t_cands t_ncand t_sel t_c1 t_visits t_tg0 t_lastn] in *; try assumption.
      - intros vis' Hv. discriminate Hv.
      - intros todo Hq. discriminate Hq.
      - intros _ Hq. apply ti_early0; [left; rewrite Eph; reflexivity|exact Hq]. }
    assert (Hidle : TI s (set_ph t QIdle)).
    { apply ti_set_ph; [exact H|intros v Hq; discriminate Hq|intros Hq; discriminate Hq|intros todo Hq; discriminate Hq]. }
    destruct (t_force t); [inversion Hs; subst; exact Hsort|].
    destruct (_ <? _); inversion Hs; subst; assumption.
  - (* KSortEnd *)
    destruct (t_ph t) eqn:Eph; try discriminate. destruct (forallb _ _) eqn:Eall; [|discriminate].
    assert (Htodo : forall e, In e (t_cands t) -> In (e_p e) perm).
    { intros e He. rewrite forallb_forall in Eall. apply memn_In, Eall, He. }
    destruct (t_force t) eqn:Ef; inversion Hs; subst s' t' evs; clear Hs.
    + destruct H. constructor; unfold set_ph, p1cands in *;
        cbn [t_force t_pass2 t_ph t_g t_tg t_psnap t_cands t_ncand t_sel t_c1 t_visits t_tg0 t_lastn] in *; try assumption.
      * intros vis' Hv. discriminate Hv.
      * intros todo Hq e He _. inversion Hq; subst todo. apply Htodo, He.
      * intros [Hq|Hq]; discriminate Hq.
    + pose proof (ti_nof _ _ H Ef) as Hq0. destruct (ti_early _ _ H (or_intror Eph) Hq0) as [A [B C]].
      destruct H. constructor; unfold p1cands in *; rewrite ?Hq0 in *;
        cbn [t_force t_pass2 t_ph t_g t_tg t_psnap t_cands t_ncand t_sel t_c1 t_visits t_tg0 t_lastn] in *; try assumption.
      * intros vis' Hv. discriminate Hv.
      * intros _. apply ti_grace0, Ef.
      * intros _. reflexivity.
      * intros _. apply ti_recheck0, Ef.
      * intros Hf. discriminate Hf.
      * intros todo Hq e He _. inversion Hq; subst todo. apply Htodo, He.
      * intros [Hq|Hq]; discriminate Hq.
      * rewrite A. unfold zlen. cbn. lia.
      * left. exact A.
  - (* KSelect *)
    destruct (t_ph t) eqn:Eph; try discriminate. destruct todo as [|p r].
    { inversion Hs; subst s' t' evs. apply ti_exit; [exact H|left; exact Eph]. }
    destruct (t_tg t <=? 0) eqn:Etg.
    { inversion Hs; subst s' t' evs. apply Z.leb_le in Etg. apply ti_exit; [exact H|right; exists (p :: r); split; assumption]. }
    apply Z.leb_gt in Etg.
    destruct (find _ _) as [e|] eqn:Efind.
    2:{ inversion Hs; subst s' t' evs. apply ti_set_ph; [exact H|intros v Hq; discriminate Hq|intros Hq; discriminate Hq|].
        intros todo Hq e He Hd. inversion Hq; subst todo. destruct (ti_todo _ _ H (p :: r) Eph e He Hd) as [Hp|Hp]; [|exact Hp].
        exfalso. pose proof (find_none _ _ Efind e He) as Hn. cbv beta in Hn. rewrite <- Hp, Nat.eqb_refl, Hd in Hn. discriminate Hn. }
    destruct (find_some' _ _ _ Efind) as [Hein Hep]. apply andb_true_iff in Hep. destruct Hep as [Hep _]. apply Nat.eqb_eq in Hep.
    cbv zeta in Hs.
    assert (Htake : forall pi, (t_force t = false -> p_first pi <= t_g t) -> TI s (take t r (mark2 p (t_cands t)) p pi)).
    { intros pi Hre. apply ti_take; [exact H|exists r; split; [exact Eph|reflexivity]|lia|exact Hre|exists e; split; assumption]. }
    destruct (t_force t) eqn:Ef.
    { inversion Hs; subst s' t' evs. apply Htake. intros Hq; discriminate Hq. }
    destruct (t_g t <? p_first (obj s e)) eqn:Ere.
    { inversion Hs; subst s' t' evs. apply ti_setc; assumption. }
    apply Z.ltb_ge in Ere.
    destruct (is_nil _ && p_temp _).
    + destruct (e_dead e).
      * destruct (_ && _); inversion Hs; subst s' t' evs; (apply Hstate; [apply ti_setc; assumption|intros vis Hv; discriminate Hv]).
      * inversion Hs; subst s' t' evs. apply Hstate; [apply ti_setc; assumption|intros vis Hv; discriminate Hv].
    + inversion Hs; subst s' t' evs. apply Htake. intros _. exact Ere.
  - (* KFinish *)
    destruct (t_ph t) eqn:Eph; try discriminate. inversion Hs; subst s' t' evs.
    apply ti_set_ph; [exact H|intros v Hq; discriminate Hq|intros Hq; discriminate Hq|intros todo Hq; discriminate Hq].
Qed.

(* ---- the global invariant ------------------------------------------------------------ *)
Record I2 (guard : bool) (cs : c2) : Prop := mkI2 {
  i2_inv : guard = true -> inv (c_s cs);
  i2_a : TI (c_s cs) (c_a cs);
  i2_b : TI (c_s cs) (c_b cs);
  i2_bnf : t_force (c_b cs) = false
}.

Lemma is_trim_op_eq : forall o, is_trim_op o = is_trim o.
Proof. intros o. destruct o; reflexivity. Qed.

Lemma tstep_force : forall g cfg i s t a s' t' evs, tstep g cfg i s t a = Some (s', t', evs) -> t_force t = false -> t_force t' = false.
Proof.
  intros g cfg i s t a s' t' evs H Hf. destruct a; cbn [tstep] in H.
  - destruct (negb _); [discriminate|]. destruct (_ || _); inversion H; reflexivity.
  - destruct (t_ph t); try discriminate. destruct (memn p vis); [discriminate|]. inversion H; exact Hf.
  - destruct (t_ph t); try discriminate. rewrite Hf in H. destruct (_ <? _); inversion H; exact Hf.
  - destruct (t_ph t); try discriminate. destruct (forallb _ _); [|discriminate]. rewrite Hf in H. inversion H; reflexivity.
  - assert (Hex : t_force (sel_exit t) = false).
    { unfold sel_exit. rewrite Hf. cbn [andb]. exact Hf. }
    destruct (t_ph t); try discriminate. destruct todo as [|p r]; [inversion H; subst; exact Hex|].
    destruct (t_tg t <=? 0); [inversion H; subst; exact Hex|].
    destruct (find _ _); [|inversion H; exact Hf]. cbv zeta in H. rewrite Hf in H.
    destruct (_ <? _); [inversion H; exact Hf|].
    destruct (_ && _); [|inversion H; exact Hf].
    destruct (e_dead e); [|inversion H; exact Hf].
    destruct (_ && _); inversion H; exact Hf.
  - destruct (t_ph t); try discriminate. inversion H; exact Hf.
Qed.

(* a prune of a live temporary entry without connections keeps the bookkeeping invariant *)
Lemma inv_prune_live : forall s p, inv s -> p_conns (peer_at s p) = [] -> inv (set_peer s p nopeer).
Proof. intros s p H Hc. apply inv_set_peer; [exact H|apply nopeer_ok|rewrite Hc; reflexivity]. Qed.

Lemma tstep_inv : forall cfg i s t a s' t' evs, inv s -> tstep true cfg i s t a = Some (s', t', evs) -> inv s'.
Proof.
  intros cfg i s t a s' t' evs Hinv H. destruct a; cbn [tstep] in H.
  - destruct (negb _); [discriminate|]. destruct (_ || _); inversion H; subst; exact Hinv.
  - destruct (t_ph t); try discriminate. destruct (memn p vis); [discriminate|]. inversion H; subst; exact Hinv.
  - destruct (t_ph t); try discriminate. destruct (t_force t); [inversion H; subst; exact Hinv|].
    destruct (_ <? _); inversion H; subst; exact Hinv.
  - destruct (t_ph t); try discriminate. destruct (forallb _ _); [|discriminate].
    destruct (t_force t); inversion H; subst; exact Hinv.
  - destruct (t_ph t); try discriminate. destruct todo as [|p r]; [inversion H; subst; exact Hinv|].
    destruct (t_tg t <=? 0); [inversion H; subst; exact Hinv|].
    destruct (find _ _) as [e|] eqn:Efind; [|inversion H; subst; exact Hinv]. cbv zeta in H.
    destruct (find_some' _ _ _ Efind) as [_ Hep]. apply andb_true_iff in Hep. destruct Hep as [Hep _]. apply Nat.eqb_eq in Hep.
    destruct (t_force t); [inversion H; subst; exact Hinv|].
    destruct (_ <? _); [inversion H; subst; exact Hinv|].
    destruct (is_nil (p_conns (obj s e)) && p_temp (obj s e)) eqn:En; [|inversion H; subst; exact Hinv].
    unfold obj in En. destruct (e_dead e) eqn:Ed.
    + cbn [negb andb] in H. inversion H; subst; exact Hinv.
    + inversion H; subst s' t' evs. apply inv_prune_live; [exact Hinv|].
      apply andb_true_iff in En. destruct En as [En _]. rewrite Hep in En. destruct (p_conns (peer_at s p)); [reflexivity|discriminate En].
  - destruct (t_ph t); try discriminate. inversion H; subst; exact Hinv.
Qed.

Lemma i2_init : forall g cfg, I2 g (c2init cfg).
Proof. intros g cfg. constructor; cbn; [intros _; apply inv_init|apply ti_init|apply ti_init|reflexivity]. Qed.

Lemma plk_op_spec : forall o, plk_op o = false -> (forall p g, o <> Protect p g) /\ (forall p g, o <> Unprotect p g).
Proof. intros o H. split; intros p g E; subst o; discriminate H. Qed.

Lemma i2_step : forall cfg cs a cs' evs, I2 true cs -> c2step true cfg cs a = Some (cs', evs) -> I2 true cs'.
Proof.
  intros cfg cs a cs' evs [Hinv Ha Hb Hbf] Hs. specialize (Hinv eq_refl). destruct a; cbn [c2step] in Hs.
  - (* BOp *)
    destruct (is_trim_op o) eqn:Et; [discriminate|]. rewrite is_trim_op_eq in Et.
    destruct (plk_op o && _) eqn:Ep; [discriminate|]. cbv zeta in Hs. inversion Hs; subst cs' evs. clear Hs.
    assert (Hp : forall t, (t = c_a cs \/ t = c_b cs) -> forall vis, t_ph t = QSnap vis -> t_pass2 t = false ->
                   prot (fst (step isort cfg (c_s cs) o)) = prot (c_s cs)).
    { intros t Ht vis Hv _. destruct (plk_op o) eqn:Ek.
      - exfalso. cbn [andb] in Ep. apply orb_false_iff in Ep. destruct Ep as [E1 E2].
        destruct Ht as [-> | ->]; [rewrite Hv in E1; discriminate E1|rewrite Hv in E2; discriminate E2].
      - destruct (plk_op_spec o Ek) as [K1 K2]. apply step_prot; assumption. }
    constructor; cbn [c_s c_a c_b].
    + intros _. apply (inv_step isort isort_perm), Hinv.
    + apply ti_rd with (s0 := c_s cs); [exact Ha|apply Hp; left; reflexivity].
    + apply ti_rd with (s0 := c_s cs); [exact Hb|apply Hp; right; reflexivity].
    + exact Hbf.
  - (* BForceRead *)
    destruct (c_fpend cs); [discriminate|]. cbv zeta in Hs. destruct (_ <? _); inversion Hs; subst cs' evs; constructor; cbn; auto.
  - (* BBeginForce *)
    destruct (c_fpend cs); [|discriminate]. destruct (negb _); [discriminate|]. inversion Hs; subst cs' evs. clear Hs.
    constructor; cbn [c_s c_a c_b]; auto.
    constructor; unfold p1cands; cbn; try (intros; discriminate); try (intros; contradiction); try reflexivity.
    + intros _ _. repeat split. intros; contradiction.
    + lia.
    + left; reflexivity.
  - (* BAct *)
    destruct i.
    + destruct (tstep true cfg true (c_s cs) (c_b cs) a) as [[[s' t'] ev']|] eqn:Est; [|discriminate].
      inversion Hs; subst cs' evs. clear Hs.
      pose proof (tstep_prot _ _ _ _ _ _ _ _ _ Est) as Hpr.
      constructor; cbn [c_s c_a c_b].
      * intros _. apply (tstep_inv _ _ _ _ _ _ _ _ Hinv Est).
      * apply ti_rd with (s0 := c_s cs); [exact Ha|intros; exact Hpr].
      * apply ti_rd with (s0 := s'); [apply (ti_tstep _ _ _ _ _ _ _ _ _ Hb Est)|intros; reflexivity].
      * cbn. apply (tstep_force _ _ _ _ _ _ _ _ _ Est Hbf).
    + destruct (tstep true cfg false (c_s cs) (c_a cs) a) as [[[s' t'] ev']|] eqn:Est; [|discriminate].
      inversion Hs; subst cs' evs. clear Hs.
      pose proof (tstep_prot _ _ _ _ _ _ _ _ _ Est) as Hpr.
      constructor; cbn [c_s c_a c_b].
      * intros _. apply (tstep_inv _ _ _ _ _ _ _ _ Hinv Est).
      * apply ti_rd with (s0 := s'); [apply (ti_tstep _ _ _ _ _ _ _ _ _ Ha Est)|intros; reflexivity].
      * apply ti_rd with (s0 := c_s cs); [exact Hb|intros; exact Hpr].
      * exact Hbf.
Qed.

Lemma i2_run : forall cfg sched cs, I2 true cs -> I2 true (fst (c2run true cfg cs sched)).
Proof.
  intros cfg. induction sched as [|a r IH]; intros cs H; cbn [c2run]; [exact H|].
  destruct (c2step true cfg cs a) as [[cs' ev]|] eqn:E; [|apply IH, H].
  pose proof (IH cs' (i2_step _ _ _ _ _ H E)) as H'. destruct (c2run true cfg cs' r). exact H'.
Qed.

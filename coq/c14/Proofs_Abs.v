(* C14 — refinement: the model (with its caches) refines the cache-free
   bookkeeping of Spec.v: abs commutes with every non-trim operation. *)
From Coq Require Import List Arith ZArith Bool Lia.
From Verif Require Import lib.Wire c14.Model c14.Spec c14.Proofs.
Import ListNotations.
Local Open Scope Z_scope.

Lemma upd_get_id : forall {A} (d : A) l i, (i < length l)%nat -> upd d l i (get d l i) = l.
Proof.
  unfold get. intros A d. induction l as [|y r IH]; intros i Hi; cbn [length] in Hi; [lia|].
  destruct i as [|j]; cbn [upd nth]; [reflexivity|]. rewrite IH; [reflexivity|lia].
Qed.

Lemma tracked_in_range : forall s p, p_tracked (peer_at s p) = true -> (p < length (peers s))%nat.
Proof.
  intros s p H. unfold peer_at, get in H. destruct (Nat.lt_ge_cases p (length (peers s))) as [Hl|Hl]; [exact Hl|].
  rewrite nth_overflow in H by exact Hl. discriminate.
Qed.

Lemma set_peer_same : forall s p, p_tracked (peer_at s p) = true -> set_peer s p (peer_at s p) = s.
Proof.
  intros s p H. unfold set_peer, peer_at. rewrite upd_get_id by (apply tracked_in_range, H).
  destruct s; reflexivity.
Qed.

Lemma ap_at_abs : forall s p, ap_at (abs s) p = abs_peer (peer_at s p).
Proof. intros. unfold ap_at, peer_at, abs. cbn [a_peers]. change noap with (abs_peer nopeer). apply get_map. Qed.

Lemma abs_set_peer : forall s p pi, abs (set_peer s p pi) = aset (abs s) p (abs_peer pi).
Proof. intros. unfold abs, set_peer, aset. cbn. rewrite map_upd. reflexivity. Qed.

Lemma abs_set_count : forall s c, abs (set_count s c) = abs s.
Proof. reflexivity. Qed.

Lemma aknow_abs : forall t pi, aknow t (abs_peer pi) = abs_peer (tag_info_for t pi).
Proof. intros t pi. unfold aknow, tag_info_for. cbn [abs_peer a_known]. destruct (p_tracked pi); reflexivity. Qed.

Lemma abs_connected : forall cfg s p c, inv s ->
  abs (connected s p c) = astep cfg (abs s) (Connected p c).
Proof.
  intros cfg s p c H. pose proof (peer_at_ok s p H) as [Hu [Hv Ht]].
  unfold connected. cbn [astep]. rewrite ap_at_abs. cbn [abs_peer a_known a_conns a_first a_tags a_dec].
  destruct (p_tracked (peer_at s p)) eqn:Etr; cbn [negb andb].
  - specialize (Ht eq_refl). destruct (p_temp (peer_at s p)) eqn:Etmp.
    + destruct (p_conns (peer_at s p)) eqn:Ec; [|discriminate]. cbn [is_nil negb p_conns memn].
      rewrite abs_set_count, abs_set_peer. reflexivity.
    + destruct (p_conns (peer_at s p)) eqn:Ec; [discriminate|]. cbn [is_nil negb].
      rewrite <- Ec. destruct (memn c (p_conns (peer_at s p))) eqn:Em.
      * rewrite set_peer_same by exact Etr. reflexivity.
      * rewrite abs_set_count, abs_set_peer. unfold with_conns, abs_peer. cbn. rewrite Etr. reflexivity.
  - rewrite (Hu eq_refl). cbn [p_conns memn nopeer p_tags p_dec].
    rewrite abs_set_count, abs_set_peer. reflexivity.
Qed.

Lemma abs_disconnected : forall cfg s p c, inv s ->
  abs (disconnected s p c) = astep cfg (abs s) (Disconnected p c).
Proof.
  intros cfg s p c H. unfold disconnected. cbn [astep]. rewrite ap_at_abs.
  cbn [abs_peer a_known a_conns a_first a_tags a_dec].
  destruct (p_tracked (peer_at s p)) eqn:Etr; cbn [negb andb]; [|reflexivity].
  destruct (memn c (p_conns (peer_at s p))); cbn [negb]; [|reflexivity].
  rewrite abs_set_count, abs_set_peer. destruct (rem1 c (p_conns (peer_at s p))); cbn [is_nil]; [reflexivity|].
  unfold with_conns, abs_peer. cbn. rewrite Etr. reflexivity.
Qed.

Lemma abs_tag_peer : forall cfg s p t v,
  abs (tag_peer s p t v) = astep cfg (abs s) (TagPeer p t v).
Proof.
  intros. unfold tag_peer. cbn [astep]. rewrite abs_set_peer, ap_at_abs. cbn [abs now a_now].
  rewrite aknow_abs. unfold with_tags, abs_peer. cbn. rewrite tag_info_for_tracked. reflexivity.
Qed.

Lemma abs_untag_peer : forall cfg s p t,
  abs (untag_peer s p t) = astep cfg (abs s) (UntagPeer p t).
Proof.
  intros. unfold untag_peer. cbn [astep]. rewrite ap_at_abs. cbn [abs_peer a_known].
  destruct (p_tracked (peer_at s p)) eqn:Etr; cbn [negb]; [|reflexivity].
  rewrite abs_set_peer. unfold with_tags, abs_peer. cbn. rewrite Etr. reflexivity.
Qed.

Lemma abs_upsert_tag : forall cfg s p t d,
  abs (upsert_tag s p t d) = astep cfg (abs s) (UpsertTag p t d).
Proof.
  intros. unfold upsert_tag. cbn [astep]. cbv zeta. rewrite abs_set_peer, ap_at_abs. cbn [abs now a_now].
  rewrite aknow_abs. unfold with_tags, abs_peer. cbn. rewrite tag_info_for_tracked. reflexivity.
Qed.

Lemma abs_bump : forall cfg s p d dl,
  abs (bump cfg s p d dl) = astep cfg (abs s) (Bump p d dl).
Proof.
  intros. unfold bump, dtag_open. cbn [astep]. cbn [abs a_dst].
  destruct (Nat.ltb d (length (c_dtags cfg)) && negb (snd (get (0, true) (dst s) d))); cbn [negb]; [|reflexivity].
  cbv zeta. rewrite abs_set_peer. change (mkAS (map abs_peer (peers s)) (prot s) (now s) (dst s)) with (abs s).
  rewrite ap_at_abs. cbn [abs now a_now]. rewrite aknow_abs. unfold with_dec, abs_peer. cbn.
  rewrite tag_info_for_tracked. reflexivity.
Qed.

Lemma abs_dremove : forall cfg s p d,
  abs (dremove cfg s p d) = astep cfg (abs s) (DRemove p d).
Proof.
  intros. unfold dremove, dtag_open. cbn [astep]. cbn [abs a_dst].
  destruct (Nat.ltb d (length (c_dtags cfg)) && negb (snd (get (0, true) (dst s) d))); cbn [negb]; [|reflexivity].
  cbv zeta. rewrite abs_set_peer. change (mkAS (map abs_peer (peers s)) (prot s) (now s) (dst s)) with (abs s).
  rewrite ap_at_abs. cbn [abs now a_now]. rewrite aknow_abs. unfold with_dec, abs_peer. cbn.
  rewrite tag_info_for_tracked. reflexivity.
Qed.

Lemma abs_dclose : forall cfg s d,
  abs (dclose cfg s d) = astep cfg (abs s) (DClose d).
Proof.
  intros. unfold dclose, dtag_open, dtag_pending. cbn [astep]. cbn [abs a_dst a_peers a_prot a_now].
  destruct ((Nat.ltb d (length (c_dtags cfg)) && negb (snd (get (0, true) (dst s) d)))
            || (Nat.ltb d (length (c_dtags cfg)) && snd (get (0, true) (dst s) d) && (fst (get (0, true) (dst s) d) =? -1)));
    cbn [negb]; [|reflexivity].
  unfold abs. cbn [peers prot now dst]. f_equal. rewrite !map_map. apply map_ext.
  intros pi. unfold abs_peer at 2. cbn [a_known]. destruct (p_tracked pi) eqn:Etr; [|reflexivity].
  unfold with_dec, abs_peer. cbn. rewrite Etr. reflexivity.
Qed.

Lemma abs_dcloseq : forall cfg s d, abs (dcloseq cfg s d) = astep cfg (abs s) (DCloseQ d).
Proof.
  intros. unfold dcloseq, dtag_open. cbn [astep abs a_dst]. destruct (_ && _); reflexivity.
Qed.

Lemma abs_dregister : forall cfg s d acc, abs (dregister cfg s d acc) = astep cfg (abs s) (DRegister d acc).
Proof. intros. unfold dregister. cbn [astep abs a_dst a_now]. destruct (_ && _); reflexivity. Qed.

Lemma abs_tick : forall cfg s t, abs (tick cfg s t) = atick cfg (abs s) t.
Proof.
  intros. unfold tick, atick, abs. cbv zeta. cbn [peers prot now dst a_peers a_prot a_now a_dst]. f_equal.
  rewrite !map_map. apply map_ext. intros pi. unfold abs_peer at 2. cbn [a_known].
  destruct (p_tracked pi) eqn:Etr; [|reflexivity].
  destruct (decay_tags (visits cfg (dst s) t) (p_dec pi)) as [dec' dl] eqn:Ed.
  unfold with_dec, abs_peer. cbn. rewrite Etr, Ed. reflexivity.
Qed.

Lemma abs_unit_step : forall cfg s, abs (unit_step cfg s) = aunit cfg (abs s).
Proof.
  intros. unfold unit_step, aunit. cbv zeta. cbn [abs a_now].
  destruct ((now s + 1) mod c_res cfg =? 0); [apply abs_tick|reflexivity].
Qed.

Lemma abs_advance : forall cfg n s, abs (advance cfg s n) = aadvance cfg (abs s) n.
Proof.
  intros cfg. induction n as [|k IH]; intros s; cbn [advance aadvance]; [reflexivity|].
  rewrite IH, abs_unit_step. reflexivity.
Qed.

(* every operation other than the two trims *)
Definition is_trim (o : op) : bool := match o with Trim | ForceTrim => true | _ => false end.

Lemma abs_step : forall sort cfg s o, inv s -> is_trim o = false ->
  abs (fst (step sort cfg s o)) = astep cfg (abs s) o.
Proof.
  intros sort cfg s o H Ho. destruct o; cbn [step fst]; try discriminate Ho.
  - apply abs_connected, H.
  - apply abs_disconnected, H.
  - apply abs_tag_peer.
  - apply abs_untag_peer.
  - apply abs_upsert_tag.
  - apply abs_bump.
  - apply abs_dremove.
  - apply abs_dclose.
  - reflexivity.
  - reflexivity.
  - cbn [astep]. apply abs_advance.
  - apply abs_dcloseq.
  - apply abs_dregister.
Qed.

(* C14 — the monitor cmon2 accepts every trace of the LTS with two trims in
   flight (coupling between the LTS state and the monitor state), and the code
   before the stale-pointer fix agrees with the repaired one on every schedule
   on which no delete-by-id through a stale pointer fires. *)
From Coq Require Import List Arith ZArith Bool Lia.
From Verif Require Import lib.Wire c14.Model c14.Spec c14.Proofs c14.Proofs_Abs c14.Proofs_Trim c14.Proofs_Main.
From Verif Require Import c14.Conc c14.SpecConc c14.ProofsConc3 c14.ProofsConc4 c14.Conc2 c14.SpecConc2 c14.ProofsConc6.
Import ListNotations.
Local Open Scope Z_scope.

Definition jt (t : thr) (mt : mth) : Prop :=
  (q_idle (t_ph t) = true -> mt = mt_init) /\
  (q_idle (t_ph t) = false ->
     mt_active mt = true /\ mt_force mt = t_force t /\ mt_proceed mt = true /\
     (t_force t = false -> mt_g mt = t_g t /\ mt_cands mt = map e_p (t_cands t))).

Record J2 (cs : c2) (m : m2) : Prop := mkJ2 {
  j2_a : m2_a m = abs (c_s cs);
  j2_A : jt (c_a cs) (m2_A m);
  j2_B : jt (c_b cs) (m2_B m)
}.

Lemma jt_same : forall t t' mt, jt t mt -> q_idle (t_ph t) = false -> q_idle (t_ph t') = false ->
  t_force t' = t_force t -> (t_force t = false -> t_g t' = t_g t /\ map e_p (t_cands t') = map e_p (t_cands t)) ->
  jt t' mt.
Proof.
  intros t t' mt [_ H] Hi Hi' Hf Hc. destruct (H Hi) as [A [B [C D]]]. split; [intros Hq; congruence|].
  intros _. repeat split; try assumption; try congruence.
  - rewrite Hf in H0. destruct (D H0) as [D1 _]. destruct (Hc H0) as [E1 _]. congruence.
  - rewrite Hf in H0. destruct (D H0) as [_ D2]. destruct (Hc H0) as [_ E2]. congruence.
Qed.

Lemma jt_upd : forall t t' mt a f pr g c b, jt t mt -> q_idle (t_ph t) = false -> q_idle (t_ph t') = false ->
  t_force t' = t_force t -> a = mt_active mt -> f = mt_force mt -> pr = mt_proceed mt -> g = mt_g mt ->
  (t_force t = false -> t_g t' = t_g t /\ c = map e_p (t_cands t')) ->
  jt t' (mkMT a f pr g c b).
Proof.
  intros t t' mt a f pr g c b [_ H] Hi Hi' Hf -> -> -> -> Hc. destruct (H Hi) as [X [Y [Z D]]]. split; [intros Hq; congruence|].
  intros _. cbn. repeat split; try assumption; try congruence.
  - rewrite Hf in H0. destruct (D H0) as [D1 _]. destruct (Hc H0) as [E1 _]. congruence.
  - rewrite Hf in H0. destruct (Hc H0) as [_ E2]. exact E2.
Qed.

Lemma jt_rd : forall s s' f t mt, jt t mt -> jt (rd_thr s s' f t) mt.
Proof.
  intros s s' f t mt [H1 H2]. split; unfold rd_thr; cbn [t_ph t_force t_g t_cands]; [exact H1|].
  intros Hi. destruct (H2 Hi) as [A [B [C D]]]. repeat split; try assumption.
  - apply D, H.
  - rewrite redead_pids. apply D, H.
Qed.

Lemma closed_code2_ok : forall cands bad cl, (forall p c, In (p, c) cl -> In p cands) -> closed_code2 cands bad cl = 0.
Proof.
  intros cands bad. induction cl as [|[p c] r IH]; intros H; cbn [closed_code2]; [reflexivity|].
  assert (Hm : memn p cands = true) by (apply memn_In, (H p c); left; reflexivity). rewrite Hm.
  apply IH. intros q d Hq. apply (H q d). right. exact Hq.
Qed.

Lemma temp_tracked : forall s p, inv s -> p_temp (peer_at s p) = true -> p_tracked (peer_at s p) = true.
Proof.
  intros s p Hinv Ht. destruct (peer_at_ok s p Hinv) as [Hu _]. destruct (p_tracked (peer_at s p)) eqn:E; [reflexivity|].
  rewrite (Hu eq_refl) in Ht. discriminate Ht.
Qed.

Lemma sel_exit_shape : forall t, q_idle (t_ph (sel_exit t)) = false /\ t_force (sel_exit t) = t_force t /\
  (t_force t = false -> t_g (sel_exit t) = t_g t /\ map e_p (t_cands (sel_exit t)) = map e_p (t_cands t)).
Proof.
  intros t. unfold sel_exit. destruct (t_force t) eqn:Ef; cbn [andb].
  - destruct (_ && _); cbn; (split; [reflexivity|split; [first [reflexivity|exact Ef]|intros Hq; discriminate Hq]]).
  - cbn. split; [reflexivity|split; [exact Ef|intros _; split; reflexivity]].
Qed.

(* one step of a thread, seen by the monitor (thread A, then the same script for thread B) *)
Lemma j_tstep_A : forall cfg s t a s' t' evs A B k,
  inv s -> TI s t -> tstep true cfg false s t a = Some (s', t', evs) -> jt t A ->
  exists mt', cmon2 cfg (mkM2 (abs s) A B) k evs = inl (mkM2 (abs s') mt' B) /\ jt t' mt'.
Proof.
  intros cfg s t a s' t' evs A B k Hinv HT Hs Hj.
  destruct a; cbn [tstep] in Hs.
  - (* KBegin *)
    pose proof Hj as [Hj1 Hj2].
    destruct (negb (q_idle (t_ph t))) eqn:Eidle; [discriminate|]. apply negb_false_iff in Eidle.
    specialize (Hj1 Eidle). subst A.
    destruct ((c_low cfg =? 0) || (c_high cfg =? 0) || (count s <=? c_low cfg)) eqn:Edis; inversion Hs; subst s' t' evs.
    + exists mt_init. split; [|split; [reflexivity|intros Hq; discriminate Hq]].
      cbn [cmon2 cmon2_step m2_get m2_set m2_A m2_B m2_a mt_active mt_force mt_init negb closed_code2 Z.eqb is_nil].
      rewrite andb_false_r. reflexivity.
    + exists (mkMT true false true (now s - c_grace cfg) [] []). split.
      * cbn [cmon2 cmon2_step m2_get m2_set m2_A m2_B m2_a mt_active mt_init].
        rewrite (acount_abs s Hinv). unfold disabled. apply orb_false_iff in Edis. destruct Edis as [E1 E2]. rewrite E1, E2.
        cbn [negb andb orb]. reflexivity.
      * split; [intros Hq; discriminate Hq|]. intros _. cbn. repeat split.
  - (* KSnap *)
    destruct (t_ph t) eqn:Eph; try discriminate. destruct (memn p vis); [discriminate|]. cbv zeta in Hs.
    assert (Hi : q_idle (t_ph t) = false) by (rewrite Eph; reflexivity).
    pose proof Hj as [Hj1 Hj2].
    destruct (Hj2 Hi) as [X1 [X2 [X3 D]]].
    inversion Hs; subst s' t' evs. clear Hs.
    destruct (t_pass2 t) eqn:Eq.
    + exists A. split; [reflexivity|].
      apply (jt_same t); [exact Hj|exact Hi|reflexivity|first [reflexivity|cbn; congruence]|].
      intros Hf. rewrite (ti_nof _ _ HT Hf) in Eq. discriminate Eq.
    + cbn [cmon2 cmon2_step m2_get m2_set m2_A m2_B m2_a].
      rewrite ap_at_abs. unfold abs_peer at 1. cbn [a_known].
      destruct (p_tracked (peer_at s p)) eqn:Et; cbn [negb andb].
      2:{ exists A. split; [reflexivity|]. apply (jt_same t); [exact Hj|exact Hi|reflexivity|first [reflexivity|cbn; congruence]|].
          intros Hf. cbn [t_force t_g t_cands]. rewrite Hf. cbn [andb]. split; reflexivity. }
      change (a_prot (abs s)) with (prot s).
      destruct (is_prot (prot s) p) eqn:Ep; cbn [negb andb orb].
      { eexists. split; [reflexivity|].
        apply (jt_upd t _ A); [exact Hj|exact Hi|reflexivity|first [reflexivity|cbn; congruence]|congruence|congruence|congruence|congruence|].
        intros Hf. cbn [t_force t_g t_cands]. rewrite Hf. cbn [andb]. split; [reflexivity|]. apply D, Hf. }
      rewrite X2. unfold abs_peer. cbn [a_first].
      destruct (t_force t) eqn:Ef; cbn [negb andb orb].
      { eexists. split; [reflexivity|].
        apply (jt_upd t _ A); [exact Hj|exact Hi|reflexivity|first [reflexivity|cbn; congruence]|congruence|congruence|congruence|congruence|]. intros Hf. congruence. }
      destruct (D eq_refl) as [D1 D2]. rewrite D1.
      destruct (p_first (peer_at s p) <=? t_g t) eqn:Eg; cbn [negb andb orb].
      * eexists. split; [reflexivity|].
        apply (jt_upd t _ A); [exact Hj|exact Hi|reflexivity|first [reflexivity|cbn; congruence]|congruence|congruence|congruence|congruence|].
        intros _. cbn [t_force t_g t_cands]. split; [reflexivity|]. rewrite map_app, D2. reflexivity.
      * eexists. split; [reflexivity|].
        apply (jt_upd t _ A); [exact Hj|exact Hi|reflexivity|first [reflexivity|cbn; congruence]|congruence|congruence|congruence|congruence|].
        intros _. cbn [t_force t_g t_cands]. split; [reflexivity|]. exact D2.
  - (* KSnapEnd *)
    destruct (t_ph t) eqn:Eph; try discriminate.
    assert (Hi : q_idle (t_ph t) = false) by (rewrite Eph; reflexivity).
    pose proof Hj as [Hj1 Hj2].
    destruct (Hj2 Hi) as [X1 [X2 [X3 D]]].
    assert (Hsort : jt (set_ph t QSort) A).
    { apply (jt_same t); [exact Hj|exact Hi|reflexivity|first [reflexivity|cbn; congruence]|intros _; split; reflexivity]. }
    destruct (t_force t) eqn:Ef.
    { inversion Hs; subst s' t' evs. exists A. split; [|exact Hsort].
      destruct (t_pass2 t); cbn [cmon2 cmon2_step]; reflexivity. }
    destruct (t_ncand t <? c_low cfg); inversion Hs; subst s' t' evs.
    + exists mt_init. split; [|split; [reflexivity|intros Hq; discriminate Hq]].
      cbn [cmon2 cmon2_step m2_get m2_set m2_A m2_B m2_a]. rewrite X1, X2.
      cbn [negb closed_code2 Z.eqb is_nil]. rewrite andb_false_r. reflexivity.
    + exists A. split; [cbn [cmon2 cmon2_step]; reflexivity|exact Hsort].
  - (* KSortEnd *)
    destruct (t_ph t) eqn:Eph; try discriminate. destruct (forallb _ _); [|discriminate].
    assert (Hi : q_idle (t_ph t) = false) by (rewrite Eph; reflexivity).
    pose proof Hj as [Hj1 Hj2].
    destruct (t_force t) eqn:Ef; inversion Hs; subst s' t' evs; exists A; (split; [reflexivity|]).
    + apply (jt_same t); [exact Hj|exact Hi|reflexivity|first [reflexivity|cbn; congruence]|intros _; split; reflexivity].
    + apply (jt_same t); [exact Hj|exact Hi|reflexivity|cbn; congruence|intros _; split; reflexivity].
  - (* KSelect *)
    destruct (t_ph t) eqn:Eph; try discriminate.
    assert (Hi : q_idle (t_ph t) = false) by (rewrite Eph; reflexivity).
    pose proof Hj as [Hj1 Hj2].
    assert (Hexit : jt (sel_exit t) A).
    { destruct (sel_exit_shape t) as [Y1 [Y2 Y3]]. apply (jt_same t); [exact Hj|exact Hi|exact Y1|exact Y2|exact Y3]. }
    assert (Hnoev : forall t0, q_idle (t_ph t0) = false -> t_force t0 = t_force t ->
                      (t_force t = false -> t_g t0 = t_g t /\ map e_p (t_cands t0) = map e_p (t_cands t)) ->
                      exists mt', cmon2 cfg (mkM2 (abs s) A B) k [] = inl (mkM2 (abs s) mt' B) /\ jt t0 mt').
    { intros t0 Y1 Y2 Y3. exists A. split; [reflexivity|]. apply (jt_same t); [exact Hj|exact Hi|exact Y1|exact Y2|exact Y3]. }
    destruct todo as [|p r].
    { inversion Hs; subst s' t' evs. exists A. split; [reflexivity|exact Hexit]. }
    destruct (t_tg t <=? 0).
    { inversion Hs; subst s' t' evs. exists A. split; [reflexivity|exact Hexit]. }
    destruct (find _ _) as [e|] eqn:Efind.
    2:{ inversion Hs; subst s' t' evs. apply Hnoev; [reflexivity|reflexivity|intros _; split; reflexivity]. }
    destruct (find_some' _ _ _ Efind) as [Hein Hep]. apply andb_true_iff in Hep. destruct Hep as [Hep _]. apply Nat.eqb_eq in Hep.
    cbv zeta in Hs.
    assert (Htake : forall pi, exists mt', cmon2 cfg (mkM2 (abs s) A B) k [] = inl (mkM2 (abs s) mt' B) /\ jt (take t r (mark2 p (t_cands t)) p pi) mt').
    { intros pi. apply Hnoev; [reflexivity|reflexivity|intros _; cbn [take t_g t_cands]; split; [reflexivity|apply mark2_pids]]. }
    assert (Hsetc : exists mt', cmon2 cfg (mkM2 (abs s) A B) k [] = inl (mkM2 (abs s) mt' B) /\ jt (set_cands t (QSel r) (mark2 p (t_cands t))) mt').
    { apply Hnoev; [reflexivity|reflexivity|intros _; cbn [set_cands t_g t_cands]; split; [reflexivity|apply mark2_pids]]. }
    destruct (t_force t) eqn:Ef.
    { inversion Hs; subst s' t' evs. apply Htake. }
    destruct (t_g t <? p_first (obj s e)).
    { inversion Hs; subst s' t' evs. exact Hsetc. }
    destruct (is_nil (p_conns (obj s e)) && p_temp (obj s e)) eqn:En.
    2:{ inversion Hs; subst s' t' evs. apply Htake. }
    unfold obj in En. destruct (e_dead e) eqn:Ed.
    { cbn [negb andb] in Hs. inversion Hs; subst s' t' evs. exact Hsetc. }
    inversion Hs; subst s' t' evs. clear Hs.
    apply andb_true_iff in En. destruct En as [En1 En2]. rewrite Hep in En1, En2.
    exists A. split.
    + cbn [cmon2 cmon2_step m2_get m2_set m2_A m2_B m2_a]. rewrite ap_at_abs. unfold abs_peer. cbn [a_known a_conns].
      rewrite (temp_tracked s p Hinv En2), En1. cbn [andb]. rewrite abs_set_peer. reflexivity.
    + apply (jt_same t); [exact Hj|exact Hi|reflexivity|first [reflexivity|cbn; congruence]|].
      intros _. cbn [set_cands t_g t_cands]. split; [reflexivity|apply mark2_pids].
  - (* KFinish *)
    destruct (t_ph t) eqn:Eph; try discriminate.
    assert (Hi : q_idle (t_ph t) = false) by (rewrite Eph; reflexivity).
    pose proof Hj as [Hj1 Hj2].
    destruct (Hj2 Hi) as [X1 [X2 [X3 D]]].
    inversion Hs; subst s' t' evs. exists mt_init. split; [|split; [reflexivity|intros Hq; discriminate Hq]].
    cbn [cmon2 cmon2_step m2_get m2_set m2_A m2_B m2_a]. rewrite X1, X2. cbn [negb].
    destruct (t_force t) eqn:Ef; [reflexivity|].
    destruct (D eq_refl) as [_ D2]. rewrite D2, X3.
    rewrite closed_code2_ok.
    + cbn [Z.eqb negb andb]. reflexivity.
    + intros q c Hin. pose proof (ti_nof _ _ HT Ef) as Hq.
      destruct (ti_sel _ _ HT q c Hin) as [[e [He Ep]]|Hq']; [|congruence].
      unfold p1cands in He. rewrite Hq in He. rewrite <- Ep. apply in_map, He.
Qed.

Lemma j_tstep_B : forall cfg s t a s' t' evs A B k,
  inv s -> TI s t -> tstep true cfg true s t a = Some (s', t', evs) -> jt t B ->
  exists mt', cmon2 cfg (mkM2 (abs s) A B) k evs = inl (mkM2 (abs s') A mt') /\ jt t' mt'.
Proof.
  intros cfg s t a s' t' evs A B k Hinv HT Hs Hj.
  destruct a; cbn [tstep] in Hs.
  - (* KBegin *)
    pose proof Hj as [Hj1 Hj2].
    destruct (negb (q_idle (t_ph t))) eqn:Eidle; [discriminate|]. apply negb_false_iff in Eidle.
    specialize (Hj1 Eidle). subst B.
    destruct ((c_low cfg =? 0) || (c_high cfg =? 0) || (count s <=? c_low cfg)) eqn:Edis; inversion Hs; subst s' t' evs.
    + exists mt_init. split; [|split; [reflexivity|intros Hq; discriminate Hq]].
      cbn [cmon2 cmon2_step m2_get m2_set m2_A m2_B m2_a mt_active mt_force mt_init negb closed_code2 Z.eqb is_nil].
      rewrite andb_false_r. reflexivity.
    + exists (mkMT true false true (now s - c_grace cfg) [] []). split.
      * cbn [cmon2 cmon2_step m2_get m2_set m2_A m2_B m2_a mt_active mt_init].
        rewrite (acount_abs s Hinv). unfold disabled. apply orb_false_iff in Edis. destruct Edis as [E1 E2]. rewrite E1, E2.
        cbn [negb andb orb]. reflexivity.
      * split; [intros Hq; discriminate Hq|]. intros _. cbn. repeat split.
  - (* KSnap *)
    destruct (t_ph t) eqn:Eph; try discriminate. destruct (memn p vis); [discriminate|]. cbv zeta in Hs.
    assert (Hi : q_idle (t_ph t) = false) by (rewrite Eph; reflexivity).
    pose proof Hj as [Hj1 Hj2].
    destruct (Hj2 Hi) as [X1 [X2 [X3 D]]].
    inversion Hs; subst s' t' evs. clear Hs.
    destruct (t_pass2 t) eqn:Eq.
    + exists B. split; [reflexivity|].
      apply (jt_same t); [exact Hj|exact Hi|reflexivity|first [reflexivity|cbn; congruence]|].
      intros Hf. rewrite (ti_nof _ _ HT Hf) in Eq. discriminate Eq.
    + cbn [cmon2 cmon2_step m2_get m2_set m2_A m2_B m2_a].
      rewrite ap_at_abs. unfold abs_peer at 1. cbn [a_known].
      destruct (p_tracked (peer_at s p)) eqn:Et; cbn [negb andb].
      2:{ exists B. split; [reflexivity|]. apply (jt_same t); [exact Hj|exact Hi|reflexivity|first [reflexivity|cbn; congruence]|].
          intros Hf. cbn [t_force t_g t_cands]. rewrite Hf. cbn [andb]. split; reflexivity. }
      change (a_prot (abs s)) with (prot s).
      destruct (is_prot (prot s) p) eqn:Ep; cbn [negb andb orb].
      { eexists. split; [reflexivity|].
        apply (jt_upd t _ B); [exact Hj|exact Hi|reflexivity|first [reflexivity|cbn; congruence]|congruence|congruence|congruence|congruence|].
        intros Hf. cbn [t_force t_g t_cands]. rewrite Hf. cbn [andb]. split; [reflexivity|]. apply D, Hf. }
      rewrite X2. unfold abs_peer. cbn [a_first].
      destruct (t_force t) eqn:Ef; cbn [negb andb orb].
      { eexists. split; [reflexivity|].
        apply (jt_upd t _ B); [exact Hj|exact Hi|reflexivity|first [reflexivity|cbn; congruence]|congruence|congruence|congruence|congruence|]. intros Hf. congruence. }
      destruct (D eq_refl) as [D1 D2]. rewrite D1.
      destruct (p_first (peer_at s p) <=? t_g t) eqn:Eg; cbn [negb andb orb].
      * eexists. split; [reflexivity|].
        apply (jt_upd t _ B); [exact Hj|exact Hi|reflexivity|first [reflexivity|cbn; congruence]|congruence|congruence|congruence|congruence|].
        intros _. cbn [t_force t_g t_cands]. split; [reflexivity|]. rewrite map_app, D2. reflexivity.
      * eexists. split; [reflexivity|].
        apply (jt_upd t _ B); [exact Hj|exact Hi|reflexivity|first [reflexivity|cbn; congruence]|congruence|congruence|congruence|congruence|].
        intros _. cbn [t_force t_g t_cands]. split; [reflexivity|]. exact D2.
  - (* KSnapEnd *)
    destruct (t_ph t) eqn:Eph; try discriminate.
    assert (Hi : q_idle (t_ph t) = false) by (rewrite Eph; reflexivity).
    pose proof Hj as [Hj1 Hj2].
    destruct (Hj2 Hi) as [X1 [X2 [X3 D]]].
    assert (Hsort : jt (set_ph t QSort) B).
    { apply (jt_same t); [exact Hj|exact Hi|reflexivity|first [reflexivity|cbn; congruence]|intros _; split; reflexivity]. }
    destruct (t_force t) eqn:Ef.
    { inversion Hs; subst s' t' evs. exists B. split; [|exact Hsort].
      destruct (t_pass2 t); cbn [cmon2 cmon2_step]; reflexivity. }
    destruct (t_ncand t <? c_low cfg); inversion Hs; subst s' t' evs.
    + exists mt_init. split; [|split; [reflexivity|intros Hq; discriminate Hq]].
      cbn [cmon2 cmon2_step m2_get m2_set m2_A m2_B m2_a]. rewrite X1, X2.
      cbn [negb closed_code2 Z.eqb is_nil]. rewrite andb_false_r. reflexivity.
    + exists B. split; [cbn [cmon2 cmon2_step]; reflexivity|exact Hsort].
  - (* KSortEnd *)
    destruct (t_ph t) eqn:Eph; try discriminate. destruct (forallb _ _); [|discriminate].
    assert (Hi : q_idle (t_ph t) = false) by (rewrite Eph; reflexivity).
    pose proof Hj as [Hj1 Hj2].
    destruct (t_force t) eqn:Ef; inversion Hs; subst s' t' evs; exists B; (split; [reflexivity|]).
    + apply (jt_same t); [exact Hj|exact Hi|reflexivity|first [reflexivity|cbn; congruence]|intros _; split; reflexivity].
    + apply (jt_same t); [exact Hj|exact Hi|reflexivity|cbn; congruence|intros _; split; reflexivity].
  - (* KSelect *)
    destruct (t_ph t) eqn:Eph; try discriminate.
    assert (Hi : q_idle (t_ph t) = false) by (rewrite Eph; reflexivity).
    pose proof Hj as [Hj1 Hj2].
    assert (Hexit : jt (sel_exit t) B).
    { destruct (sel_exit_shape t) as [Y1 [Y2 Y3]]. apply (jt_same t); [exact Hj|exact Hi|exact Y1|exact Y2|exact Y3]. }
    assert (Hnoev : forall t0, q_idle (t_ph t0) = false -> t_force t0 = t_force t ->
                      (t_force t = false -> t_g t0 = t_g t /\ map e_p (t_cands t0) = map e_p (t_cands t)) ->
                      exists mt', cmon2 cfg (mkM2 (abs s) A B) k [] = inl (mkM2 (abs s) A mt') /\ jt t0 mt').
    { intros t0 Y1 Y2 Y3. exists B. split; [reflexivity|]. apply (jt_same t); [exact Hj|exact Hi|exact Y1|exact Y2|exact Y3]. }
    destruct todo as [|p r].
    { inversion Hs; subst s' t' evs. exists B. split; [reflexivity|exact Hexit]. }
    destruct (t_tg t <=? 0).
    { inversion Hs; subst s' t' evs. exists B. split; [reflexivity|exact Hexit]. }
    destruct (find _ _) as [e|] eqn:Efind.
    2:{ inversion Hs; subst s' t' evs. apply Hnoev; [reflexivity|reflexivity|intros _; split; reflexivity]. }
    destruct (find_some' _ _ _ Efind) as [Hein Hep]. apply andb_true_iff in Hep. destruct Hep as [Hep _]. apply Nat.eqb_eq in Hep.
    cbv zeta in Hs.
    assert (Htake : forall pi, exists mt', cmon2 cfg (mkM2 (abs s) A B) k [] = inl (mkM2 (abs s) A mt') /\ jt (take t r (mark2 p (t_cands t)) p pi) mt').
    { intros pi. apply Hnoev; [reflexivity|reflexivity|intros _; cbn [take t_g t_cands]; split; [reflexivity|apply mark2_pids]]. }
    assert (Hsetc : exists mt', cmon2 cfg (mkM2 (abs s) A B) k [] = inl (mkM2 (abs s) A mt') /\ jt (set_cands t (QSel r) (mark2 p (t_cands t))) mt').
    { apply Hnoev; [reflexivity|reflexivity|intros _; cbn [set_cands t_g t_cands]; split; [reflexivity|apply mark2_pids]]. }
    destruct (t_force t) eqn:Ef.
    { inversion Hs; subst s' t' evs. apply Htake. }
    destruct (t_g t <? p_first (obj s e)).
    { inversion Hs; subst s' t' evs. exact Hsetc. }
    destruct (is_nil (p_conns (obj s e)) && p_temp (obj s e)) eqn:En.
    2:{ inversion Hs; subst s' t' evs. apply Htake. }
    unfold obj in En. destruct (e_dead e) eqn:Ed.
    { cbn [negb andb] in Hs. inversion Hs; subst s' t' evs. exact Hsetc. }
    inversion Hs; subst s' t' evs. clear Hs.
    apply andb_true_iff in En. destruct En as [En1 En2]. rewrite Hep in En1, En2.
    exists B. split.
    + cbn [cmon2 cmon2_step m2_get m2_set m2_A m2_B m2_a]. rewrite ap_at_abs. unfold abs_peer. cbn [a_known a_conns].
      rewrite (temp_tracked s p Hinv En2), En1. cbn [andb]. rewrite abs_set_peer. reflexivity.
    + apply (jt_same t); [exact Hj|exact Hi|reflexivity|first [reflexivity|cbn; congruence]|].
      intros _. cbn [set_cands t_g t_cands]. split; [reflexivity|apply mark2_pids].
  - (* KFinish *)
    destruct (t_ph t) eqn:Eph; try discriminate.
    assert (Hi : q_idle (t_ph t) = false) by (rewrite Eph; reflexivity).
    pose proof Hj as [Hj1 Hj2].
    destruct (Hj2 Hi) as [X1 [X2 [X3 D]]].
    inversion Hs; subst s' t' evs. exists mt_init. split; [|split; [reflexivity|intros Hq; discriminate Hq]].
    cbn [cmon2 cmon2_step m2_get m2_set m2_A m2_B m2_a]. rewrite X1, X2. cbn [negb].
    destruct (t_force t) eqn:Ef; [reflexivity|].
    destruct (D eq_refl) as [_ D2]. rewrite D2, X3.
    rewrite closed_code2_ok.
    + cbn [Z.eqb negb andb]. reflexivity.
    + intros q c Hin. pose proof (ti_nof _ _ HT Ef) as Hq.
      destruct (ti_sel _ _ HT q c Hin) as [[e [He Ep]]|Hq']; [|congruence].
      unfold p1cands in He. rewrite Hq in He. rewrite <- Ep. apply in_map, He.
Qed.

Lemma j2_step : forall cfg cs a cs' evs m k, I2 true cs -> J2 cs m -> c2step true cfg cs a = Some (cs', evs) ->
  exists m', cmon2 cfg m k evs = inl m' /\ J2 cs' m'.
Proof.
  intros cfg cs a cs' evs m k [Hinv HA HB Hbf] [Ja JA JB] Hs. specialize (Hinv eq_refl). destruct a; cbn [c2step] in Hs.
  - destruct (is_trim_op o) eqn:Et; [discriminate|]. destruct (plk_op o && _); [discriminate|]. cbv zeta in Hs.
    inversion Hs; subst cs' evs. clear Hs.
    exists (mkM2 (astep cfg (m2_a m) o) (m2_A m) (m2_B m)). split.
    + cbn [cmon2 cmon2_step]. destruct o; try discriminate Et; reflexivity.
    + constructor; cbn [c_s c_a c_b m2_a m2_A m2_B].
      * rewrite Ja. symmetry. apply abs_step; [exact Hinv|rewrite <- is_trim_op_eq; exact Et].
      * apply jt_rd, JA.
      * apply jt_rd, JB.
  - destruct (c_fpend cs); [discriminate|]. cbv zeta in Hs.
    destruct (_ <? _); inversion Hs; subst cs' evs; exists m; (split; [reflexivity|constructor; assumption]).
  - destruct (c_fpend cs); [|discriminate]. destruct (negb (q_idle (t_ph (c_a cs)))) eqn:Ei; [discriminate|].
    apply negb_false_iff in Ei. inversion Hs; subst cs' evs. clear Hs.
    destruct JA as [JA1 _]. specialize (JA1 Ei).
    exists (mkM2 (m2_a m) (mkMT true true true (a_now (m2_a m) - c_grace cfg) [] []) (m2_B m)). split.
    + cbn [cmon2 cmon2_step m2_get]. rewrite JA1. cbn [mt_active mt_init m2_set orb]. reflexivity.
    + constructor; cbn [c_s c_a c_b m2_a m2_A m2_B]; [exact Ja| |exact JB].
      split; [intros Hq; discriminate Hq|]. intros _. cbn. split; [reflexivity|split; [reflexivity|split; [reflexivity|intros Hq; discriminate Hq]]].
  - destruct i.
    + destruct (tstep true cfg true (c_s cs) (c_b cs) a) as [[[s' t'] ev']|] eqn:Est; [|discriminate].
      inversion Hs; subst cs' evs. clear Hs.
      destruct m as [a0 MA MB]. cbn [m2_a m2_A m2_B] in *. subst a0.
      destruct (j_tstep_B cfg (c_s cs) (c_b cs) a s' t' ev' MA MB k Hinv HB Est JB) as [mt' [Hc Hj]].
      eexists. split; [exact Hc|]. constructor; cbn [c_s c_a c_b m2_a m2_A m2_B m2_set].
      * reflexivity.
      * apply jt_rd, JA.
      * apply jt_rd, Hj.
    + destruct (tstep true cfg false (c_s cs) (c_a cs) a) as [[[s' t'] ev']|] eqn:Est; [|discriminate].
      inversion Hs; subst cs' evs. clear Hs.
      destruct m as [a0 MA MB]. cbn [m2_a m2_A m2_B] in *. subst a0.
      destruct (j_tstep_A cfg (c_s cs) (c_a cs) a s' t' ev' MA MB k Hinv HA Est JA) as [mt' [Hc Hj]].
      eexists. split; [exact Hc|]. constructor; cbn [c_s c_a c_b m2_a m2_A m2_B m2_set].
      * reflexivity.
      * apply jt_rd, Hj.
      * apply jt_rd, JB.
Qed.

Lemma cmon2_app : forall cfg a b m i m1, cmon2 cfg m i a = inl m1 ->
  cmon2 cfg m i (a ++ b) = cmon2 cfg m1 (i + Z.of_nat (length a)) b.
Proof.
  intros cfg. induction a as [|e r IH]; intros b m i m1 H; cbn [cmon2 app length] in *.
  - inversion H; subst. f_equal. lia.
  - destruct (cmon2_step cfg m e); [|discriminate]. rewrite (IH b _ _ _ H). f_equal. lia.
Qed.

Lemma j2_run : forall cfg sched cs m k, I2 true cs -> J2 cs m ->
  exists m', cmon2 cfg m k (snd (c2run true cfg cs sched)) = inl m' /\ J2 (fst (c2run true cfg cs sched)) m'.
Proof.
  intros cfg. induction sched as [|a r IH]; intros cs m k HI HJ; cbn [c2run].
  - exists m. split; [reflexivity|exact HJ].
  - destruct (c2step true cfg cs a) as [[cs' ev]|] eqn:E; [|apply IH; assumption].
    destruct (j2_step _ _ _ _ _ m k HI HJ E) as [m1 [Hc HJ1]].
    destruct (IH cs' m1 (k + Z.of_nat (length ev)) (i2_step _ _ _ _ _ HI E) HJ1) as [m' [Hc' HJ']].
    destruct (c2run true cfg cs' r) as [cf evs]. cbn [fst snd] in *.
    exists m'. split; [|exact HJ']. rewrite (cmon2_app _ _ _ _ _ _ Hc). exact Hc'.
Qed.

Lemma j2_init : forall cfg, J2 (c2init cfg) (m2_init (ainit cfg)).
Proof.
  intros cfg. constructor; cbn; [reflexivity| |]; (split; [reflexivity|intros Hq; discriminate Hq]).
Qed.

(* ---- the loop before the fix: the same run as long as no stale delete fires ------- *)
Lemma tstep_guard : forall cfg i s t a,
  match tstep false cfg i s t a with
  | Some (s', t', evs) => no_stale evs = true -> tstep true cfg i s t a = Some (s', t', evs)
  | None => tstep true cfg i s t a = None
  end.
Proof.
  intros cfg i s t a. destruct a; cbn [tstep]; try (destruct (tstep _ _ _ _ _ _) as [[[? ?] ?]|]; reflexivity).
  - destruct (negb _); [reflexivity|]. destruct (_ || _); reflexivity.
  - destruct (t_ph t); try reflexivity. destruct (memn p vis); reflexivity.
  - destruct (t_ph t); try reflexivity. destruct (t_force t); [reflexivity|]. destruct (_ <? _); reflexivity.
  - destruct (t_ph t); try reflexivity. destruct (forallb _ _); [|reflexivity]. destruct (t_force t); reflexivity.
  - destruct (t_ph t); try reflexivity. destruct todo as [|p r]; [reflexivity|].
    destruct (t_tg t <=? 0); [reflexivity|]. destruct (find _ _); [|reflexivity]. cbv zeta.
    destruct (t_force t); [reflexivity|]. destruct (_ <? _); [reflexivity|]. destruct (_ && _); [|reflexivity].
    destruct (e_dead e); [|reflexivity]. cbn [negb andb]. destruct (tracked s p); [|reflexivity].
    cbn. intros Hq. discriminate Hq.
  - destruct (t_ph t); reflexivity.
Qed.

Lemma c2step_guard : forall cfg cs a,
  match c2step false cfg cs a with
  | Some (cs', evs) => no_stale evs = true -> c2step true cfg cs a = Some (cs', evs)
  | None => c2step true cfg cs a = None
  end.
Proof.
  intros cfg cs a. destruct a; cbn [c2step].
  - destruct (is_trim_op o); [reflexivity|]. destruct (_ && _); reflexivity.
  - destruct (c_fpend cs); [reflexivity|]. cbv zeta. destruct (_ <? _); reflexivity.
  - destruct (c_fpend cs); [|reflexivity]. destruct (negb _); reflexivity.
  - destruct i.
    + pose proof (tstep_guard cfg true (c_s cs) (c_b cs) a) as H.
      destruct (tstep false cfg true (c_s cs) (c_b cs) a) as [[[s' t'] ev]|]; [|rewrite H; reflexivity].
      intros Hn. rewrite (H Hn). reflexivity.
    + pose proof (tstep_guard cfg false (c_s cs) (c_a cs) a) as H.
      destruct (tstep false cfg false (c_s cs) (c_a cs) a) as [[[s' t'] ev]|]; [|rewrite H; reflexivity].
      intros Hn. rewrite (H Hn). reflexivity.
Qed.

Lemma no_stale_app : forall a b, no_stale (a ++ b) = no_stale a && no_stale b.
Proof. intros. unfold no_stale. apply forallb_app. Qed.

Lemma c2run_guard : forall cfg sched cs, no_stale (snd (c2run false cfg cs sched)) = true ->
  c2run true cfg cs sched = c2run false cfg cs sched.
Proof.
  intros cfg. induction sched as [|a r IH]; intros cs H; cbn [c2run] in *; [reflexivity|].
  pose proof (c2step_guard cfg cs a) as Hg.
  destruct (c2step false cfg cs a) as [[cs' ev]|].
  - destruct (c2run false cfg cs' r) as [cf evs] eqn:Er. cbn [snd] in H. rewrite no_stale_app in H.
    apply andb_true_iff in H. destruct H as [H1 H2]. rewrite (Hg H1). rewrite IH; [rewrite Er; reflexivity|rewrite Er; exact H2].
  - rewrite Hg. apply IH, H.
Qed.

(* C14 — proofs about the LTS, part 3: the invariant CInv is preserved by
   every atomic step, hence holds after every schedule. *)
From Coq Require Import List Arith ZArith Bool Lia Permutation Sorted.
From Verif Require Import lib.Wire c14.Model c14.Spec c14.Proofs c14.Proofs_Abs c14.Proofs_Trim c14.Proofs_Main
     c14.Conc c14.SpecConc c14.ProofsConc c14.ProofsConc2.
Import ListNotations.
Local Open Scope Z_scope.

Definition late_of (cs : cstate) (o : op) (s' : state) : list nat :=
  match op_pid o with
  | Some p => if is_snap (cs_ph cs) && negb (tracked (cs_s cs) p) && tracked s' p
              then p :: cs_late cs else cs_late cs
  | None => cs_late cs
  end.

(* the AOp step, with the ghost counters written as charges *)
Lemma cstep_aop : forall cfg cs o, op_enabled cs o = true ->
  let s' := fst (step isort cfg (cs_s cs) o) in
  let ch := charge cfg (cs_s cs) o (cs_cands cs) in
  cstep cfg cs (AOp o) =
    Some (mkCS s' (cs_ph cs) (cs_gstart cs) (cs_psnap cs) (relive s' (cs_cands cs)) (cs_ncand cs) (cs_sel cs)
               (cs_added1 cs + fst ch) (cs_added2 cs + snd ch) (late_of cs o s') (cs_dph cs),
          match o with ForceTrim => [EForce (snd (step isort cfg (cs_s cs) o))] | _ => [EOp o] end).
Proof.
  intros cfg cs o He. cbv zeta. unfold cstep. rewrite He. cbn [negb].
  unfold charge, late_of. destruct (step isort cfg (cs_s cs) o) as [s' cl] eqn:Es. cbn [fst].
  destruct o; cbn [op_pid snd]; rewrite ?Z.add_0_r; try reflexivity.
  destruct (count s' =? count (cs_s cs) + 1); rewrite ?Z.add_0_r; [|reflexivity].
  destruct (find _ (cs_cands cs)) as [e|]; rewrite ?Z.add_0_r; [|reflexivity].
  destruct (ce_live e); rewrite ?Z.add_0_r; [|reflexivity].
  destruct (ce_done e); cbn [fst snd]; rewrite ?Z.add_0_r; reflexivity.
Qed.

Lemma charge_nonneg : forall cfg s o l, 0 <= fst (charge cfg s o l) /\ 0 <= snd (charge cfg s o l).
Proof.
  intros. unfold charge. destruct o; cbn; try lia. destruct (_ =? _); cbn; try lia.
  destruct (find _ l) as [e|]; cbn; try lia. destruct (ce_live e), (ce_done e); cbn; lia.
Qed.

Lemma step_prot : forall cfg s o, is_trim o = false ->
  (forall p g, o <> Protect p g) -> (forall p g, o <> Unprotect p g) ->
  prot (fst (step isort cfg s o)) = prot s.
Proof.
  intros cfg s o Ho H1 H2. destruct o; try discriminate Ho; cbn [step fst].
  - unfold connected. destruct (memn _ _); reflexivity.
  - unfold disconnected. destruct (negb _); [reflexivity|]. destruct (negb _); reflexivity.
  - reflexivity.
  - unfold untag_peer. destruct (negb _); reflexivity.
  - reflexivity.
  - unfold bump. destruct (negb _); reflexivity.
  - unfold dremove. destruct (negb _); reflexivity.
  - unfold dclose. destruct (negb _); reflexivity.
  - exfalso. exact (H1 p g eq_refl).
  - exfalso. exact (H2 p g eq_refl).
  - apply (advance_keeps cfg dt s 0%nat).
  - unfold dcloseq. destruct (negb _); reflexivity.
  - unfold dregister. destruct (_ && _); reflexivity.
Qed.

Lemma cinv_aop : forall cfg cs o cs' evs, CInv cfg cs ->
  cstep cfg cs (AOp o) = Some (cs', evs) -> CInv cfg cs'.
Proof.
  intros cfg cs o cs' evs H Hs.
  assert (He : op_enabled cs o = true).
  { unfold cstep in Hs. destruct (op_enabled cs o); [reflexivity|discriminate]. }
  pose proof (cstep_aop cfg cs o He) as Hq. cbv zeta in Hq. rewrite Hq in Hs. inversion Hs; subst cs' evs. clear Hs Hq.
  set (s' := fst (step isort cfg (cs_s cs) o)).
  destruct H as [Hinv Hnd Hvis Hearly Hsnap Hsel Htodo Hadd Hc Hself Hlive Hclock].
  assert (Hinv' : inv s') by (apply (inv_step isort isort_perm), Hinv).
  pose proof (charge_nonneg cfg (cs_s cs) o (cs_cands cs)) as [Hc1 Hc2].
  constructor; cbn [cs_s cs_ph cs_gstart cs_psnap cs_cands cs_ncand cs_sel cs_added1 cs_added2 cs_late cs_dph].
  - exact Hinv'.
  - rewrite relive_pids. exact Hnd.
  - intros vis Hph. destruct (Hvis vis Hph) as [Hv1 Hv2]. split.
    + intros e' He'. destruct (in_relive _ _ _ He') as [e [Hin ->]]. exact (Hv1 e Hin).
    + rewrite <- Hv2. destruct (is_trim o) eqn:Et.
      * destruct o; try discriminate Et; [discriminate He|]. cbn in He. rewrite Hph in He. discriminate.
      * apply step_prot; [exact Et| |]; intros p g ->; cbn in He; rewrite Hph in He; discriminate.
  - intros Hph. destruct (Hearly Hph) as [E1 E2]. split; [exact E1|].
    intros e' He'. destruct (in_relive _ _ _ He') as [e [Hin ->]]. exact (E2 e Hin).
  - intros e' He'. destruct (in_relive _ _ _ He') as [e [Hin ->]]. exact (Hsnap e Hin).
  - intros p c Hin. destruct (Hsel p c Hin) as [e [He1 He2]]. exists (relive_e s' e). split; [|exact He2].
    unfold relive. apply in_map_iff. exists e. split; [reflexivity|exact He1].
  - intros todo tg Hph e' He' Hd. destruct (in_relive _ _ _ He') as [e [Hin ->]]. cbn in *. exact (Htodo todo tg Hph e Hin Hd).
  - lia.
  - intros b Hb. unfold cbound in *. cbn [cs_ph cs_ncand] in *. specialize (Hc b Hb). destruct Hc as [HD HU].
    destruct (is_trim o) eqn:Et.
    + (* ForceTrim: only when idle *)
      destruct o; try discriminate Et; [discriminate He|]. cbn in He. destruct (cs_ph cs); discriminate.
    + destruct (aop_sums cfg (cs_s cs) o (cs_gstart cs) (cs_cands cs) (cs_sel cs) Hinv Et Hnd) as [S1 S2]. fold s' in S1, S2.
      split; lia.
  - (* a selected connection's peer stays out of grace while it is the same entry *)
    intros p c e' Hin He' Hp Hl. destruct (in_relive _ _ _ He') as [e [Hin' ->]]. cbn [relive_e ce_p ce_live] in Hp, Hl.
    apply andb_true_iff in Hl. destruct Hl as [Hl Ht']. unfold tracked in Ht'.
    destruct (Hself p c e Hin Hin' Hp Hl) as [Htmp Hf]. pose proof (Hlive e Hin' Hl) as Ht. rewrite Hp in Ht.
    destruct (is_trim o) eqn:Et.
    + destruct o; try discriminate Et; [discriminate He|]. unfold s'. cbn [step fst]. split; assumption.
    + rewrite Hp in Ht'.
      pose proof (step_first_cases cfg (cs_s cs) o p Hinv Et) as Hfc. cbv zeta in Hfc. fold s' in Hfc.
      destruct (Hfc Ht Ht') as [[E1 E2]|[x [_ [E _]]]].
      * rewrite E1, E2. split; assumption.
      * rewrite E in Htmp. discriminate.
  - intros e' He' Hl. destruct (in_relive _ _ _ He') as [e [_ ->]]. cbn [relive_e ce_p ce_live] in *.
    apply andb_true_iff in Hl. exact (proj2 Hl).
  - intros Hi. specialize (Hclock Hi). destruct (is_trim o) eqn:Et.
    + destruct o; try discriminate Et; [discriminate He|]. unfold s'. cbn [step fst]. exact Hclock.
    + pose proof (step_now cfg (cs_s cs) o Et) as Hn. fold s' in Hn. lia.
Qed.

Ltac csimpl := cbn [cs_s cs_ph cs_gstart cs_psnap cs_cands cs_ncand cs_sel cs_added1 cs_added2 cs_late cs_dph
                       with_s with_ph with_dph] in *.

(* ---- steps that do not touch connections, tracked-ness or protection --------------------------- *)
Lemma sums_ext : forall s s' g sel l, (forall q, conns_of s' q = conns_of s q) ->
  (forall q, p_first (peer_at s' q) = p_first (peer_at s q)) ->
  dsum s' g sel l = dsum s g sel l /\ usum s' g l = usum s g l.
Proof.
  intros s s' g sel l H Hf. unfold dsum, usum. split; f_equal; apply map_ext; intros e.
  - unfold dterm, rem_m, incl. rewrite H, Hf. reflexivity.
  - unfold uterm, incl. rewrite H, Hf. reflexivity.
Qed.

Lemma cinv_state_change : forall cfg cs s' d, CInv cfg cs -> inv s' -> prot s' = prot (cs_s cs) ->
  (forall q, conns_of s' q = conns_of (cs_s cs) q) ->
  (forall q, p_first (peer_at s' q) = p_first (peer_at (cs_s cs) q) /\ p_temp (peer_at s' q) = p_temp (peer_at (cs_s cs) q)
             /\ p_tracked (peer_at s' q) = p_tracked (peer_at (cs_s cs) q)) ->
  now (cs_s cs) <= now s' ->
  CInv cfg (with_dph (with_s cs s') d).
Proof.
  intros cfg cs s' d [Hinv Hnd Hvis Hearly Hsnap Hsel Htodo Hadd Hc Hself Hlive Hclock] Hinv' Hp Hq Hf Hn.
  constructor; unfold cbound in *; csimpl; try assumption.
  - intros vis Hph. destruct (Hvis vis Hph) as [H1 H2]. split; [exact H1|congruence].
  - intros b Hb. destruct (sums_ext (cs_s cs) s' (cs_gstart cs) (cs_sel cs) (cs_cands cs) Hq (fun q => proj1 (Hf q))) as [E1 E2].
    rewrite E1, E2. apply Hc. exact Hb.
  - intros p c e Hin He Hpe Hl. destruct (Hf p) as [F1 [F2 _]]. rewrite F1, F2. exact (Hself p c e Hin He Hpe Hl).
  - intros e He Hl. rewrite (proj2 (proj2 (Hf (ce_p e)))). exact (Hlive e He Hl).
  - intros Hi. specialize (Hclock Hi). lia.
Qed.

Lemma decay_peer_ok : forall vs pi, peer_ok pi -> p_tracked pi = true -> peer_ok (decay_peer vs pi).
Proof.
  intros vs pi Hp Etr. unfold decay_peer. pose proof (decay_tags_sum vs (p_dec pi)) as Hs.
  destruct (decay_tags vs (p_dec pi)) as [dec' dl]. cbn [fst snd] in Hs.
  apply with_dec_ok; [exact Hp|exact Etr|]. destruct Hp as [_ [Hv _]]. lia.
Qed.

Lemma decay_peer_conns : forall vs pi, p_conns (decay_peer vs pi) = p_conns pi.
Proof. intros. unfold decay_peer. destruct (decay_tags vs (p_dec pi)). reflexivity. Qed.

Lemma decay_peer_keeps : forall vs pi, p_first (decay_peer vs pi) = p_first pi /\ p_temp (decay_peer vs pi) = p_temp pi
  /\ p_tracked (decay_peer vs pi) = p_tracked pi.
Proof. intros. unfold decay_peer. destruct (decay_tags vs (p_dec pi)). repeat split. Qed.

Lemma cinv_clock_tick : forall cfg cs a cs' evs, CInv cfg cs ->
  (a = AClock \/ (exists p, a = ATickPeer p) \/ a = ATickEnd) ->
  cstep cfg cs a = Some (cs', evs) -> CInv cfg cs'.
Proof.
  intros cfg cs a cs' evs H Ha Hs. pose proof (ci_inv _ _ H) as Hinv. destruct Ha as [->|[[p ->]| ->]]; cbn [cstep] in Hs.
  - inversion Hs; subst. apply cinv_state_change; try assumption; try reflexivity; try (intros; repeat split); cbn; lia.
  - destruct (cs_dph cs) as [|vs t vis]; [discriminate|]. destruct (memn p vis); [discriminate|].
    inversion Hs; subst. clear Hs. unfold tracked. destruct (p_tracked (peer_at (cs_s cs) p)) eqn:Etr.
    + apply cinv_state_change; try assumption; try reflexivity.
      * apply inv_set_peer; [exact Hinv|apply decay_peer_ok; [apply peer_at_ok, Hinv|exact Etr]|].
        rewrite decay_peer_conns. reflexivity.
      * intros q. unfold conns_of. rewrite peer_at_set_peer. destruct (Nat.eqb p q) eqn:E; [|reflexivity].
        apply Nat.eqb_eq in E. subst q. apply decay_peer_conns.
      * intros q. rewrite peer_at_set_peer. destruct (Nat.eqb p q) eqn:E; [|repeat split].
        apply Nat.eqb_eq in E. subst q. apply decay_peer_keeps.
    + apply cinv_state_change; try assumption; try reflexivity; try (intros; repeat split); lia.
  - destruct (cs_dph cs) as [|vs t vis]; [discriminate|]. inversion Hs; subst.
    apply cinv_state_change; try assumption; try reflexivity; try (intros; repeat split); cbn; lia.
Qed.

(* ---- the trim's own steps ------------------------------------------------------------------------ *)
Lemma cinv_fresh : forall cfg s ph g d, inv s -> (ph = TIdle \/ ph = TSnap []) -> g <= now s - c_grace cfg ->
  CInv cfg (mkCS s ph g (prot s) [] 0 [] 0 0 [] d).
Proof.
  intros cfg s ph g d Hinv Hph Hg. constructor; csimpl.
  - exact Hinv.
  - constructor.
  - intros vis _. split; [intros e []|reflexivity].
  - intros _. split; [reflexivity|intros e []].
  - intros e [].
  - intros p c [].
  - intros todo tg E. destruct Hph as [-> | ->]; discriminate.
  - lia.
  - intros b Hb. unfold dsum, usum. cbn [map zsum]. unfold cbound in Hb. csimpl.
    destruct Hph as [-> | ->]; inversion Hb; subst; lia.
  - intros p c e [].
  - intros e [].
  - intros _. exact Hg.
Qed.

Lemma cinv_begin : forall cfg cs cs' evs, CInv cfg cs -> cstep cfg cs ABegin = Some (cs', evs) -> CInv cfg cs'.
Proof.
  intros cfg cs cs' evs H Hs. pose proof (ci_inv _ _ H) as Hinv. cbn [cstep] in Hs.
  destruct (negb (is_idle (cs_ph cs))); [discriminate|].
  destruct ((c_low cfg =? 0) || (c_high cfg =? 0) || (count (cs_s cs) <=? c_low cfg)); inversion Hs; subst; clear Hs;
    apply cinv_fresh; auto; lia.
Qed.

Lemma usum_app : forall s g a b, usum s g (a ++ b) = usum s g a + usum s g b.
Proof. intros. unfold usum. rewrite map_app, zsum_app. reflexivity. Qed.
Lemma dsum_app : forall s g sel a b, dsum s g sel (a ++ b) = dsum s g sel a + dsum s g sel b.
Proof. intros. unfold dsum. rewrite map_app, zsum_app. reflexivity. Qed.

Lemma NoDup_app_cons_end : forall (l : list nat) x, NoDup l -> ~ In x l -> NoDup (l ++ [x]).
Proof.
  induction l as [|y r IH]; intros x Hnd Hx; cbn [app]; [constructor; [intros []|constructor]|].
  inversion Hnd; subst. constructor.
  - intros Hin. apply in_app_or in Hin. destruct Hin as [Hin|[->|[]]]; [contradiction|]. apply Hx. left. reflexivity.
  - apply IH; [assumption|]. intros Hin. apply Hx. right. exact Hin.
Qed.

Lemma cinv_snap : forall cfg cs p cs' evs, CInv cfg cs -> cstep cfg cs (ASnap p) = Some (cs', evs) -> CInv cfg cs'.
Proof.
  intros cfg cs p cs' evs H Hs. destruct H as [Hinv Hnd Hvis Hearly Hsnap Hsel Htodo Hadd Hc Hself Hlive Hclock]. cbn [cstep] in Hs.
  destruct (cs_ph cs) as [|vis| | |] eqn:Eph; try discriminate. destruct (memn p vis) eqn:Em; [discriminate|].
  destruct (Hvis vis eq_refl) as [Hv1 Hv2]. destruct (Hearly eq_refl) as [He1 He2].
  assert (Hnp : ~ In p vis) by (intros Hin; apply memn_In in Hin; congruence).
  destruct (p_tracked (peer_at (cs_s cs) p) && negb (is_prot (prot (cs_s cs)) p)
            && (p_first (peer_at (cs_s cs) p) <=? cs_gstart cs)) eqn:Eel; inversion Hs; subst; clear Hs.
  - apply andb_true_iff in Eel. destruct Eel as [Eel E3]. apply andb_true_iff in Eel. destruct Eel as [E1 E2].
    constructor; csimpl.
    + exact Hinv.
    + rewrite map_app. cbn [map ce_p]. apply NoDup_app_cons_end; [exact Hnd|]. intros Hin. apply in_map_iff in Hin.
      destruct Hin as [e [Hpe Hin]]. apply Hnp. rewrite <- Hpe. apply Hv1, Hin.
    + intros vis' Hph. inversion Hph; subst. split; [|exact Hv2].
      intros e Hin. apply in_app_or in Hin. destruct Hin as [Hin|[<-|[]]]; [right; apply Hv1, Hin|left; reflexivity].
    + intros _. split; [exact He1|]. intros e Hin. apply in_app_or in Hin. destruct Hin as [Hin|[<-|[]]]; [apply He2, Hin|reflexivity].
    + intros e Hin. apply in_app_or in Hin. destruct Hin as [Hin|[<-|[]]]; [apply Hsnap, Hin|]. cbn. split.
      * rewrite <- Hv2. apply negb_true_iff. exact E2.
      * apply Z.leb_le. exact E3.
    + intros q c Hin. destruct (Hsel q c Hin) as [e [A B]]. exists e. split; [apply in_or_app; left; exact A|exact B].
    + intros; discriminate.
    + exact Hadd.
    + intros b Hb. unfold cbound in *. cbn [cs_ph cs_ncand] in *. rewrite Eph in Hc. inversion Hb; subst.
      destruct (Hc _ eq_refl) as [HD HU]. rewrite dsum_app, usum_app. unfold dsum at 2, usum at 2. cbn [map zsum].
      unfold dterm, uterm, incl. cbn [ce_live ce_done ce_p andb negb]. rewrite E3. fold (conns_of (cs_s cs) p). lia.
    + intros q c e Hin. rewrite He1 in Hin. destruct Hin.
    + intros e Hin Hl. apply in_app_or in Hin. destruct Hin as [Hin|[<-|[]]]; [exact (Hlive e Hin Hl)|exact E1].
    + exact Hclock.
  - constructor; csimpl; try assumption.
    + intros vis' Hph. inversion Hph; subst. split; [|exact Hv2]. intros e Hin. right. apply Hv1, Hin.
    + intros; discriminate.
    + intros b Hb. unfold cbound in *. cbn [cs_ph cs_ncand] in *. rewrite Eph in Hc. apply Hc. exact Hb.
Qed.

Lemma cinv_with_ph : forall cfg cs ph, CInv cfg cs ->
  (forall vis, ph <> TSnap vis) ->
  (early ph = true -> early (cs_ph cs) = true) ->
  (is_idle ph = false -> is_idle (cs_ph cs) = false) ->
  (forall todo tg, ph = TSel todo tg ->
     forall e, In e (cs_cands cs) -> ce_done e = false -> In (ce_p e) todo) ->
  (forall b, cbound cfg (with_ph cs ph) = Some b ->
     dsum (cs_s cs) (cs_gstart cs) (cs_sel cs) (cs_cands cs) <= cs_added1 cs
     /\ usum (cs_s cs) (cs_gstart cs) (cs_cands cs) <= b + cs_added2 cs) ->
  CInv cfg (with_ph cs ph).
Proof.
  intros cfg cs ph [Hinv Hnd Hvis Hearly Hsnap Hsel Htodo Hadd Hc Hself Hlive Hclock] H1 H2 H2' H3 H4.
  constructor; csimpl; try assumption.
  - intros vis E. exfalso. exact (H1 vis E).
  - intros E. apply Hearly, H2, E.
  - intros E. apply Hclock, H2', E.
Qed.

Lemma cinv_snapend : forall cfg cs cs' evs, CInv cfg cs -> cstep cfg cs ASnapEnd = Some (cs', evs) -> CInv cfg cs'.
Proof.
  intros cfg cs cs' evs H Hs. cbn [cstep] in Hs. destruct (cs_ph cs) as [|vis| | |] eqn:Eph; try discriminate.
  destruct (negb (sweep_done _ _ _)); [discriminate|].
  destruct (cs_ncand cs <? c_low cfg); inversion Hs; subst; clear Hs; apply cinv_with_ph; try exact H;
    try (intros; discriminate); try (intros _; rewrite Eph; reflexivity).
  intros b Hb. apply (ci_c _ _ H). unfold cbound in *. csimpl. rewrite Eph. exact Hb.
Qed.

Lemma cinv_sortend : forall cfg cs perm cs' evs, CInv cfg cs ->
  cstep cfg cs (ASortEnd perm) = Some (cs', evs) -> CInv cfg cs'.
Proof.
  intros cfg cs perm cs' evs H Hs. cbn [cstep] in Hs. destruct (cs_ph cs) eqn:Eph; try discriminate.
  destruct (forallb _ (cs_cands cs)) eqn:Ef; [|discriminate]. inversion Hs; subst; clear Hs.
  apply cinv_with_ph; try exact H; try (intros; discriminate); try (intros _; rewrite Eph; reflexivity).
  - intros todo tg E e Hin _. inversion E; subst. rewrite forallb_forall in Ef. apply memn_In, Ef, Hin.
  - intros b Hb. unfold cbound in Hb. csimpl. inversion Hb; subst.
    destruct (ci_c _ _ H (cs_ncand cs)) as [HD HU]; [unfold cbound; rewrite Eph; reflexivity|]. split; lia.
Qed.

Lemma cinv_finish : forall cfg cs cs' evs, CInv cfg cs -> cstep cfg cs AFinish = Some (cs', evs) -> CInv cfg cs'.
Proof.
  intros cfg cs cs' evs H Hs. cbn [cstep] in Hs. destruct (cs_ph cs) eqn:Eph; try discriminate.
  inversion Hs; subst; clear Hs. apply cinv_with_ph; try exact H; try (intros; discriminate).
Qed.

(* ---- one iteration of the selection loop ---------------------------------------------------------- *)
Lemma mark_done_pids : forall p l, map ce_p (mark_done p l) = map ce_p l.
Proof. intros. unfold mark_done. rewrite map_map. apply map_ext. intros e. destruct (Nat.eqb (ce_p e) p); reflexivity. Qed.

Definition mark_e (p : nat) (e : cent) : cent :=
  if Nat.eqb (ce_p e) p then mkCE (ce_p e) (ce_live e) true (ce_first e) else e.

Lemma in_mark_done : forall p l e', In e' (mark_done p l) -> exists e, In e l /\ e' = mark_e p e.
Proof. intros p l e' H. unfold mark_done in H. apply in_map_iff in H. destruct H as [e [He Hin]]. exists e. split; [exact Hin|symmetry; exact He]. Qed.

Lemma mark_e_fields : forall p e, ce_p (mark_e p e) = ce_p e /\ ce_first (mark_e p e) = ce_first e
  /\ ce_live (mark_e p e) = ce_live e /\ (ce_done (mark_e p e) = false -> ce_done e = false /\ ce_p e <> p).
Proof.
  intros p e. unfold mark_e. destruct (Nat.eqb (ce_p e) p) eqn:E; cbn; repeat split; try discriminate; auto.
  apply Nat.eqb_neq. exact E.
Qed.

Lemma find_some_in : forall {A} (f : A -> bool) l x, find f l = Some x -> In x l /\ f x = true.
Proof. intros. apply find_some. assumption. Qed.

(* marking done: the not-yet-selected sum loses the entry's term; the
   selected sum, taken against the enlarged selection, does not grow *)
Lemma usum_mark_done : forall s g p l e, In e l -> ce_p e = p ->
  usum s g (mark_done p l) <= usum s g l - uterm s g e.
Proof.
  intros s g p l e Hin Hp. unfold usum, mark_done. rewrite map_map.
  rewrite (zsum_split (fun x => Nat.eqb (ce_p x) p) (uterm s g) l).
  assert (H1 : uterm s g e <= zsum (map (fun x => if Nat.eqb (ce_p x) p then uterm s g x else 0) l)).
  { pose proof (zsum_member_le (fun x => if Nat.eqb (ce_p x) p then uterm s g x else 0) l e) as Hm. cbv beta in Hm.
    rewrite Hp, Nat.eqb_refl in Hm. apply Hm; [|exact Hin]. intros x _. destruct (Nat.eqb (ce_p x) p); [apply uterm_nonneg|lia]. }
  assert (H2 : zsum (map (fun x => uterm s g (if Nat.eqb (ce_p x) p then mkCE (ce_p x) (ce_live x) true (ce_first x) else x)) l)
               = zsum (map (fun x => if Nat.eqb (ce_p x) p then 0 else uterm s g x) l)).
  { f_equal. apply map_ext. intros x. destruct (Nat.eqb (ce_p x) p); [|reflexivity]. unfold uterm. cbn [ce_live ce_done negb].
    rewrite andb_false_r. reflexivity. }
  rewrite H2. lia.
Qed.

Lemma cinv_update : forall cfg cs s' ph' cands' sel',
  CInv cfg cs -> inv s' -> NoDup (map ce_p cands') -> (forall vis, ph' <> TSnap vis) -> early ph' = false ->
  (forall e', In e' cands' -> exists e, In e (cs_cands cs) /\ ce_p e' = ce_p e /\ ce_first e' = ce_first e) ->
  (forall p c, In (p, c) sel' -> exists e', In e' cands' /\ ce_p e' = p) ->
  (forall todo tg, ph' = TSel todo tg -> forall e', In e' cands' -> ce_done e' = false -> In (ce_p e') todo) ->
  (forall b, cbound cfg (mkCS s' ph' (cs_gstart cs) (cs_psnap cs) cands' (cs_ncand cs) sel' (cs_added1 cs)
                              (cs_added2 cs) (cs_late cs) (cs_dph cs)) = Some b ->
     dsum s' (cs_gstart cs) sel' cands' <= cs_added1 cs /\ usum s' (cs_gstart cs) cands' <= b + cs_added2 cs) ->
  (forall p c e', In (p, c) sel' -> In e' cands' -> ce_p e' = p -> ce_live e' = true ->
     p_temp (peer_at s' p) = false /\ p_first (peer_at s' p) <= cs_gstart cs) ->
  (forall e', In e' cands' -> ce_live e' = true -> p_tracked (peer_at s' (ce_p e')) = true) ->
  now s' = now (cs_s cs) -> is_idle (cs_ph cs) = false ->
  CInv cfg (mkCS s' ph' (cs_gstart cs) (cs_psnap cs) cands' (cs_ncand cs) sel' (cs_added1 cs) (cs_added2 cs)
                 (cs_late cs) (cs_dph cs)).
Proof.
  intros cfg cs s' ph' cands' sel' H Hinv' Hnd' Hns Hne Hc' Hsel' Htodo' Hb' Hself' Hlive' Hnow Hidle.
  constructor; csimpl; try assumption.
  - intros vis E. exfalso. exact (Hns vis E).
  - intros E. rewrite Hne in E. discriminate.
  - intros e' Hin. destruct (Hc' e' Hin) as [e [A [B C]]]. rewrite B, C. exact (ci_snap _ _ H e A).
  - exact (ci_added _ _ H).
  - intros _. rewrite Hnow. exact (ci_clock _ _ H Hidle).
Qed.

Lemma usum_all_done : forall s g l, (forall e, In e l -> ce_done e = true) -> usum s g l = 0.
Proof.
  intros s g l H. unfold usum. apply zsum_map_zero. intros e He. unfold uterm. rewrite (H e He). cbn [negb]. rewrite andb_false_r. reflexivity.
Qed.

Lemma rem_m_mono : forall s sel sel' q, (forall x, In x sel -> In x sel') -> rem_m s sel' q <= rem_m s sel q.
Proof.
  intros s sel sel' q H. unfold rem_m, zlen. induction (conns_of s q) as [|c r IH]; cbn [filter length]; [lia|].
  destruct (memp (q, c) sel) eqn:E1.
  - apply memp_In in E1. apply H in E1. apply memp_In in E1. rewrite E1. cbn [negb]. exact IH.
  - cbn [negb]. destruct (memp (q, c) sel'); cbn [negb length]; lia.
Qed.

Lemma rem_m_self : forall s sel p, rem_m s (sel ++ map (pair p) (conns_of s p)) p = 0.
Proof.
  intros s sel p. unfold rem_m.
  assert (H : forall l, (forall c, In c l -> In c (conns_of s p)) ->
              filter (fun c => negb (memp (p, c) (sel ++ map (pair p) (conns_of s p)))) l = []).
  { induction l as [|c r IH]; intros Hl; cbn [filter]; [reflexivity|].
    assert (E : memp (p, c) (sel ++ map (pair p) (conns_of s p)) = true).
    { apply memp_In. apply in_or_app. right. apply in_map. apply Hl. left. reflexivity. }
    rewrite E. cbn [negb]. apply IH. intros x Hx. apply Hl. right. exact Hx. }
  rewrite H by auto. reflexivity.
Qed.

Lemma cinv_select : forall cfg cs cs' evs, CInv cfg cs ->
  cstep cfg cs ASelect = Some (cs', evs) -> CInv cfg cs'.
Proof.
  intros cfg cs cs' evs H Hs. cbn [cstep] in Hs. unfold select_step in Hs.
  destruct (cs_ph cs) as [| | |todo tg|] eqn:Eph; try discriminate.
  assert (Hidle : is_idle (cs_ph cs) = false) by (rewrite Eph; reflexivity).
  pose proof (ci_inv _ _ H) as Hinv. pose proof (ci_nodup _ _ H) as Hnd. pose proof (ci_added _ _ H) as Hadd.
  pose proof (ci_self _ _ H) as Hself. pose proof (ci_live _ _ H) as Hlive.
  destruct (ci_c _ _ H (tg + c_low cfg)) as [HD HU]; [unfold cbound; rewrite Eph; reflexivity|].
  pose proof (ci_todo _ _ H todo tg Eph) as Htodo.
  destruct todo as [|p r].
  - inversion Hs; subst; clear Hs. apply cinv_with_ph; try exact H; try (intros; discriminate); try (intros _; exact Hidle).
    intros b Hb. unfold cbound in Hb. csimpl. inversion Hb; subst. split; [exact HD|].
    rewrite usum_all_done; [lia|]. intros e He. destruct (ce_done e) eqn:Ed; [reflexivity|]. destruct (Htodo e He Ed).
  - destruct (tg <=? 0) eqn:Etg.
    + inversion Hs; subst; clear Hs. apply Z.leb_le in Etg.
      apply cinv_with_ph; try exact H; try (intros; discriminate); try (intros _; exact Hidle).
      intros b Hb. unfold cbound in Hb. csimpl. inversion Hb; subst. split; [exact HD|lia].
    + destruct (find (fun e => Nat.eqb (ce_p e) p && negb (ce_done e)) (cs_cands cs)) as [e|] eqn:Ef.
      2:{ inversion Hs; subst; clear Hs. apply cinv_with_ph; try exact H; try (intros; discriminate); try (intros _; exact Hidle).
          - intros todo' tg' E e He Hd. inversion E; subst. destruct (Htodo e He Hd) as [E2|E2]; [|exact E2].
            pose proof (find_none _ _ Ef e He) as Hn. cbv beta in Hn. rewrite <- E2, Nat.eqb_refl, Hd in Hn. discriminate.
          - intros b Hb. unfold cbound in Hb. csimpl. inversion Hb; subst. split; [exact HD|exact HU]. }
      destruct (find_some_in _ _ _ Ef) as [Hin Hfe]. apply andb_true_iff in Hfe. destruct Hfe as [Hpe Hde].
      apply Nat.eqb_eq in Hpe. apply negb_true_iff in Hde.
      assert (Hmk : forall e', In e' (mark_done p (cs_cands cs)) ->
                    exists e0, In e0 (cs_cands cs) /\ ce_p e' = ce_p e0 /\ ce_first e' = ce_first e0).
      { intros e' He'. destruct (in_mark_done _ _ _ He') as [e0 [A ->]]. exists e0.
        destruct (mark_e_fields p e0) as [B [C _]]. auto. }
      assert (Htd : forall e', In e' (mark_done p (cs_cands cs)) -> ce_done e' = false -> In (ce_p e') r).
      { intros e' He' Hd. destruct (in_mark_done _ _ _ He') as [e0 [A ->]].
        destruct (mark_e_fields p e0) as [B [_ [_ D]]]. destruct (D Hd) as [D1 D2]. rewrite B.
        destruct (Htodo e0 A D1) as [E|E]; [congruence|exact E]. }
      assert (Hselm : forall q c, In (q, c) (cs_sel cs) -> exists e', In e' (mark_done p (cs_cands cs)) /\ ce_p e' = q).
      { intros q c Hqc. destruct (ci_sel _ _ H q c Hqc) as [e0 [A B]]. exists (mark_e p e0). split.
        - unfold mark_done. apply in_map_iff. exists e0. split; [reflexivity|exact A].
        - rewrite (proj1 (mark_e_fields p e0)). exact B. }
      assert (Hlivem : forall e', In e' (mark_done p (cs_cands cs)) -> ce_live e' = true ->
                       p_tracked (peer_at (cs_s cs) (ce_p e')) = true).
      { intros e' He' Hl. destruct (in_mark_done _ _ _ He') as [e0 [A ->]].
        destruct (mark_e_fields p e0) as [B [_ [C _]]]. rewrite B. rewrite C in Hl. exact (Hlive e0 A Hl). }
      assert (Hselfm : forall q c e', In (q, c) (cs_sel cs) -> In e' (mark_done p (cs_cands cs)) -> ce_p e' = q -> ce_live e' = true ->
                       p_temp (peer_at (cs_s cs) q) = false /\ p_first (peer_at (cs_s cs) q) <= cs_gstart cs).
      { intros q c e' Hqc He' Hq Hl. destruct (in_mark_done _ _ _ He') as [e0 [A ->]].
        destruct (mark_e_fields p e0) as [B [_ [C _]]]. rewrite B in Hq. rewrite C in Hl. exact (Hself q c e0 Hqc A Hq Hl). }
      (* marking the entry done without selecting anything (stale or skipped) *)
      assert (Hnosel : (ce_live e = false \/ incl (cs_s cs) (cs_gstart cs) p = false) ->
                CInv cfg (mkCS (cs_s cs) (TSel r tg) (cs_gstart cs) (cs_psnap cs) (mark_done p (cs_cands cs)) (cs_ncand cs)
                               (cs_sel cs) (cs_added1 cs) (cs_added2 cs) (cs_late cs) (cs_dph cs))).
      { intros Hz. apply cinv_update; try exact H; try (intros; discriminate); try reflexivity; try assumption.
        - rewrite mark_done_pids. exact Hnd.
        - intros todo' tg' E e' He' Hd. inversion E; subst. exact (Htd e' He' Hd).
        - intros b Hb. unfold cbound in Hb. csimpl. inversion Hb as [Hb'].
          pose proof (usum_mark_done (cs_s cs) (cs_gstart cs) p (cs_cands cs) e Hin Hpe) as HU'.
          pose proof (uterm_nonneg (cs_s cs) (cs_gstart cs) e).
          assert (HD' : dsum (cs_s cs) (cs_gstart cs) (cs_sel cs) (mark_done p (cs_cands cs))
                        <= dsum (cs_s cs) (cs_gstart cs) (cs_sel cs) (cs_cands cs)).
          { unfold dsum, mark_done. rewrite map_map. apply zsum_map_le. intros e0 He0. unfold dterm.
            destruct (Nat.eqb (ce_p e0) p) eqn:E; cbn [ce_live ce_done ce_p]; [|lia].
            apply Nat.eqb_eq in E. assert (e0 = e) by (apply (nodup_pid_eq _ e0 e Hnd He0 Hin); congruence). subst e0.
            rewrite Hde, Hpe. destruct Hz as [Hz|Hz]; rewrite Hz; rewrite ?andb_false_r; cbn [andb]; lia. }
          split; lia. }
      destruct (ce_live e) eqn:Elive; cbn [negb] in Hs.
      2:{ inversion Hs; subst cs' evs. apply Hnosel. left. reflexivity. }
      destruct (cs_gstart cs <? p_first (peer_at (cs_s cs) p)) eqn:Erc; cbn [andb] in Hs.
      { (* the grace re-check: the entry restarted its grace period, leave it alone *)
        inversion Hs; subst cs' evs. apply Hnosel. right. unfold incl. apply Z.leb_gt. apply Z.ltb_lt. exact Erc. }
      apply Z.ltb_ge in Erc.
      destruct (is_nil (p_conns (peer_at (cs_s cs) p)) && p_temp (peer_at (cs_s cs) p)) eqn:Epr;
        inversion Hs; subst cs' evs; clear Hs.
      * (* a temporary entry is pruned *)
        apply andb_true_iff in Epr. destruct Epr as [Enil _].
        set (s' := set_peer (cs_s cs) p nopeer).
        assert (Hat : forall q, q <> p -> peer_at s' q = peer_at (cs_s cs) q).
        { intros q Hq. unfold s'. rewrite peer_at_set_peer. destruct (Nat.eqb p q) eqn:E; [|reflexivity].
          apply Nat.eqb_eq in E. congruence. }
        assert (Htp : tracked s' p = false) by (unfold tracked, s'; rewrite peer_at_set_peer, Nat.eqb_refl; reflexivity).
        apply cinv_update; try exact H; try (intros; discriminate); try reflexivity; try assumption.
        -- apply inv_set_peer; [exact Hinv|apply nopeer_ok|]. destruct (p_conns (peer_at (cs_s cs) p)); [reflexivity|discriminate].
        -- rewrite relive_pids, mark_done_pids. exact Hnd.
        -- intros e' He'. destruct (in_relive _ _ _ He') as [e1 [A ->]]. exact (Hmk e1 A).
        -- intros q c Hqc. destruct (Hselm q c Hqc) as [e1 [A B]]. exists (relive_e s' e1). split; [|exact B].
           unfold relive. apply in_map_iff. exists e1. split; [reflexivity|exact A].
        -- intros todo' tg' E e' He' Hd. inversion E; subst. destruct (in_relive _ _ _ He') as [e1 [A ->]]. exact (Htd e1 A Hd).
        -- intros b Hb. unfold cbound in Hb. csimpl. inversion Hb as [Hb'].
           assert (Hterm : forall e0, (ce_p e0 = p -> tracked s' (ce_p e0) = false)
                     /\ (ce_p e0 <> p -> tracked s' (ce_p e0) = tracked (cs_s cs) (ce_p e0)
                                        /\ incl s' (cs_gstart cs) (ce_p e0) = incl (cs_s cs) (cs_gstart cs) (ce_p e0)
                                        /\ conns_of s' (ce_p e0) = conns_of (cs_s cs) (ce_p e0))).
           { intros e0. split; [intros ->; exact Htp|]. intros Hne. unfold tracked, incl, conns_of. rewrite (Hat _ Hne). auto. }
           assert (HU' : usum s' (cs_gstart cs) (relive s' (mark_done p (cs_cands cs))) <= usum (cs_s cs) (cs_gstart cs) (cs_cands cs)).
           { unfold usum, relive, mark_done. rewrite !map_map. apply zsum_map_le. intros e0 _. unfold uterm.
             destruct (Hterm e0) as [T1 T2]. destruct (Nat.eqb (ce_p e0) p) eqn:E; cbn [ce_live ce_done ce_p].
             - apply Nat.eqb_eq in E. rewrite (T1 E), andb_false_r. cbn [andb]. destruct (_ && _); [apply zlen_nonneg|lia].
             - apply Nat.eqb_neq in E. destruct (T2 E) as [A [B C]]. rewrite A, B, C.
               destruct (ce_live e0), (ce_done e0), (tracked (cs_s cs) (ce_p e0)), (incl (cs_s cs) (cs_gstart cs) (ce_p e0)); cbn; try lia; apply zlen_nonneg. }
           assert (HD' : dsum s' (cs_gstart cs) (cs_sel cs) (relive s' (mark_done p (cs_cands cs)))
                         <= dsum (cs_s cs) (cs_gstart cs) (cs_sel cs) (cs_cands cs)).
           { unfold dsum, relive, mark_done. rewrite !map_map. apply zsum_map_le. intros e0 _. unfold dterm, rem_m.
             destruct (Hterm e0) as [T1 T2]. destruct (Nat.eqb (ce_p e0) p) eqn:E; cbn [ce_live ce_done ce_p].
             - apply Nat.eqb_eq in E. rewrite (T1 E), andb_false_r. cbn [andb]. destruct (_ && _); [apply zlen_nonneg|lia].
             - apply Nat.eqb_neq in E. destruct (T2 E) as [A [B C]]. rewrite A, B, C.
               destruct (ce_live e0), (ce_done e0), (tracked (cs_s cs) (ce_p e0)), (incl (cs_s cs) (cs_gstart cs) (ce_p e0)); cbn; try lia; apply zlen_nonneg. }
           split; lia.
        -- intros q c e' Hqc He' Hq Hl. destruct (in_relive _ _ _ He') as [e1 [A ->]]. cbn [relive_e ce_p ce_live] in Hq, Hl.
           apply andb_true_iff in Hl. destruct Hl as [Hl Ht1].
           assert (Hqp : q <> p) by (intros ->; rewrite Hq, Htp in Ht1; discriminate).
           rewrite (Hat q Hqp). exact (Hselfm q c e1 Hqc A Hq Hl).
        -- intros e' He' Hl. destruct (in_relive _ _ _ He') as [e1 [_ ->]]. cbn [relive_e ce_p ce_live] in *.
           apply andb_true_iff in Hl. exact (proj2 Hl).
      * (* its live connections are selected: the peer is tracked, not temp, out of grace *)
        assert (Hntmp : p_conns (peer_at (cs_s cs) p) <> [] -> p_temp (peer_at (cs_s cs) p) = false).
        { intros Hne. pose proof (Hlive e Hin Elive) as Ht. rewrite Hpe in Ht.
          destruct (peer_at_ok _ p Hinv) as [_ [_ Htm]]. rewrite (Htm Ht). destruct (p_conns (peer_at (cs_s cs) p)); [congruence|reflexivity]. }
        apply cinv_update; try exact H; try (intros; discriminate); try reflexivity; try assumption.
        -- rewrite mark_done_pids. exact Hnd.
        -- intros q c Hqc. apply in_app_or in Hqc. destruct Hqc as [Hqc|Hqc]; [exact (Hselm q c Hqc)|].
           apply in_map_iff in Hqc. destruct Hqc as [c' [E _]]. inversion E; subst. exists (mark_e (ce_p e) e). split.
           ++ unfold mark_done. apply in_map_iff. exists e. split; [reflexivity|exact Hin].
           ++ apply (proj1 (mark_e_fields (ce_p e) e)).
        -- intros todo' tg' E e' He' Hd. inversion E; subst. exact (Htd e' He' Hd).
        -- intros b Hb. unfold cbound in Hb. csimpl. inversion Hb as [Hb'].
           pose proof (usum_mark_done (cs_s cs) (cs_gstart cs) p (cs_cands cs) e Hin Hpe) as HU'.
           assert (Hut : uterm (cs_s cs) (cs_gstart cs) e = zlen (p_conns (peer_at (cs_s cs) p))).
           { unfold uterm, incl. rewrite Elive, Hde, Hpe. cbn [andb negb].
             replace (p_first (peer_at (cs_s cs) p) <=? cs_gstart cs) with true by (symmetry; apply Z.leb_le; exact Erc). reflexivity. }
           assert (HD' : dsum (cs_s cs) (cs_gstart cs) (cs_sel cs ++ map (pair p) (p_conns (peer_at (cs_s cs) p)))
                              (mark_done p (cs_cands cs)) <= dsum (cs_s cs) (cs_gstart cs) (cs_sel cs) (cs_cands cs)).
           { unfold dsum, mark_done. rewrite map_map. apply zsum_map_le. intros e0 _. unfold dterm.
             destruct (Nat.eqb (ce_p e0) p) eqn:E; cbn [ce_live ce_done ce_p].
             - apply Nat.eqb_eq in E. rewrite E. fold (conns_of (cs_s cs) p). rewrite rem_m_self.
               destruct (ce_live e0 && true && incl (cs_s cs) (cs_gstart cs) p);
                 destruct (ce_live e0 && ce_done e0 && incl (cs_s cs) (cs_gstart cs) p); try lia; unfold rem_m; apply zlen_nonneg.
             - destruct (ce_live e0 && ce_done e0 && incl _ _ _); [|lia]. apply rem_m_mono. intros x Hx. apply in_or_app. left. exact Hx. }
           split; lia.
        -- intros q c e' Hqc He' Hq Hl. apply in_app_or in Hqc. destruct Hqc as [Hqc|Hqc]; [exact (Hselfm q c e' Hqc He' Hq Hl)|].
           apply in_map_iff in Hqc. destruct Hqc as [c' [E Hc']]. injection E as Eq Ec. rewrite <- Eq. split; [|exact Erc].
           apply Hntmp. intros Hn. rewrite Hn in Hc'. destruct Hc'.
    Unshelve. all: auto.
Qed.

(* ---- every step, every schedule ------------------------------------------------------------------- *)
Lemma cinv_step : forall cfg cs a cs' evs, CInv cfg cs ->
  cstep cfg cs a = Some (cs', evs) -> CInv cfg cs'.
Proof.
  intros cfg cs a cs' evs H Hs. destruct a.
  - exact (cinv_aop cfg cs o cs' evs H Hs).
  - apply (cinv_clock_tick cfg cs AClock cs' evs H); [left; reflexivity|exact Hs].
  - apply (cinv_clock_tick cfg cs (ATickPeer p) cs' evs H); [right; left; exists p; reflexivity|exact Hs].
  - apply (cinv_clock_tick cfg cs ATickEnd cs' evs H); [right; right; reflexivity|exact Hs].
  - exact (cinv_begin cfg cs cs' evs H Hs).
  - exact (cinv_snap cfg cs p cs' evs H Hs).
  - exact (cinv_snapend cfg cs cs' evs H Hs).
  - cbn [cstep] in Hs. destruct (cs_ph cs); try discriminate. inversion Hs; subst. exact H.
  - exact (cinv_sortend cfg cs perm cs' evs H Hs).
  - exact (cinv_select cfg cs cs' evs H Hs).
  - exact (cinv_finish cfg cs cs' evs H Hs).
Qed.

Lemma cinv_run : forall cfg sched cs, CInv cfg cs -> CInv cfg (fst (crun cfg cs sched)).
Proof.
  intros cfg. induction sched as [|a r IH]; intros cs H; cbn [crun]; [exact H|].
  destruct (cstep cfg cs a) as [[cs' ev]|] eqn:Es.
  - specialize (IH cs' (cinv_step cfg cs a cs' ev H Es)). destruct (crun cfg cs' r). exact IH.
  - apply IH; assumption.
Qed.

(* what is left on the live candidates when the trim closes its selection *)
Lemma phi_at_close : forall cfg cs, CInv cfg cs -> cs_ph cs = TClose ->
  phi (cs_s cs) (cs_gstart cs) (cs_sel cs) (cs_cands cs) <= Z.max 0 (c_low cfg) + cs_added1 cs + cs_added2 cs.
Proof.
  intros cfg cs H Eph. destruct (ci_c _ _ H (Z.max 0 (c_low cfg))) as [HD HU]; [unfold cbound; rewrite Eph; reflexivity|].
  pose proof (phi_le (cs_s cs) (cs_gstart cs) (cs_sel cs) (cs_cands cs)). lia.
Qed.

(* (b) at full strength, at the very step: whatever the state, an iteration of
   the (repaired) selection loop selects connections only of a peer whose
   firstSeen - read now, under the segment lock - is not after gracePeriodStart *)
Lemma select_step_rechecks : forall cfg cs cs' evs, cstep cfg cs ASelect = Some (cs', evs) ->
  forall x, In x (cs_sel cs') -> In x (cs_sel cs) \/ p_first (peer_at (cs_s cs) (fst x)) <= cs_gstart cs.
Proof.
  intros cfg cs cs' evs Hs x Hx. cbn [cstep] in Hs. unfold select_step in Hs.
  destruct (cs_ph cs) as [| | |todo tg|]; try discriminate. destruct todo as [|p r]; [inversion Hs; subst; left; exact Hx|].
  destruct (tg <=? 0); [inversion Hs; subst; left; exact Hx|].
  destruct (find _ (cs_cands cs)) as [e|]; [|inversion Hs; subst; left; exact Hx].
  destruct (negb (ce_live e)); [inversion Hs; subst; left; exact Hx|].
  destruct (cs_gstart cs <? p_first (peer_at (cs_s cs) p)) eqn:E; cbn [andb] in Hs; [inversion Hs; subst; left; exact Hx|].
  destruct (_ && _); inversion Hs; subst; cbn [cs_sel] in Hx; [left; exact Hx|].
  apply in_app_or in Hx. destruct Hx as [Hx|Hx]; [left; exact Hx|]. right.
  apply in_map_iff in Hx. destruct Hx as [c [<- _]]. cbn [fst]. apply Z.ltb_ge. exact E.
Qed.

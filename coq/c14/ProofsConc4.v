(* C14 — proofs about the LTS, part 4: the concurrent-trace monitor of
   SpecConc.v accepts the event trace of every schedule (coupling between the
   LTS state and the monitor state). *)
From Coq Require Import List Arith ZArith Bool Lia Permutation Sorted.
From Verif Require Import lib.Wire c14.Model c14.Spec c14.Proofs c14.Proofs_Abs c14.Proofs_Trim c14.Proofs_Main
     c14.Conc c14.SpecConc c14.ProofsConc c14.ProofsConc2 c14.ProofsConc3.
Import ListNotations.
Local Open Scope Z_scope.

Definition pl (e : cent) : nat * bool := (ce_p e, ce_live e).

Record J (cs : cstate) (m : cmst) : Prop := mkJ {
  j_a : m_a m = abs (cs_s cs);
  j_tick : m_tick m = match cs_dph cs with DIdle => None | DTick vs t _ => Some (vs, t) end;
  j_active : m_active m = negb (is_idle (cs_ph cs));
  j_proceed : is_idle (cs_ph cs) = false -> m_proceed m = true;
  j_gstart : m_gstart m = cs_gstart cs;
  j_cands : m_cands m = map pl (cs_cands cs);
  j_added : m_added m = cs_added1 cs + cs_added2 cs
}.

Lemma tracked_abs : forall s p, a_known (ap_at (abs s) p) = tracked s p.
Proof. intros. rewrite ap_at_abs. reflexivity. Qed.

Lemma relive_pl : forall s l, m_relive (abs s) (map pl l) = map pl (relive s l).
Proof.
  intros. unfold m_relive, relive. rewrite !map_map. apply map_ext. intros e. unfold pl. cbn [fst snd ce_p ce_live]. rewrite tracked_abs. reflexivity.
Qed.

Lemma mark_done_pl : forall p l, map pl (mark_done p l) = map pl l.
Proof. intros. unfold mark_done. rewrite map_map. apply map_ext. intros e. destruct (Nat.eqb (ce_p e) p); reflexivity. Qed.

Lemma has_live_pl : forall p l,
  m_has_live p (map pl l) = match find (fun e => Nat.eqb (ce_p e) p) l with Some e => ce_live e | None => false end.
Proof.
  intros p l. unfold m_has_live. induction l as [|e r IH]; cbn [map find]; [reflexivity|].
  unfold pl at 1. cbn [fst]. destruct (Nat.eqb (ce_p e) p); [reflexivity|exact IH].
Qed.

Lemma remaining_abs : forall s cl p, remaining_of (abs s) cl p = rem_m s cl p.
Proof. intros. unfold remaining_of, rem_m, conns_of. rewrite ap_at_abs. reflexivity. Qed.

Lemma m_remaining_phi : forall s g l cl, m_remaining (abs s) g (map pl l) cl = phi s g cl l.
Proof.
  intros. unfold m_remaining, phi. rewrite map_map. f_equal. apply map_ext. intros e. unfold pl, incl. cbn [fst snd].
  rewrite remaining_abs, ap_at_abs. reflexivity.
Qed.

Lemma find_pl : forall p l,
  find (fun e : nat * bool => Nat.eqb (fst e) p) (map pl l) = option_map pl (find (fun e => Nat.eqb (ce_p e) p) l).
Proof.
  intros p l. induction l as [|e r IH]; cbn [map find option_map]; [reflexivity|].
  unfold pl at 1. cbn [fst]. destruct (Nat.eqb (ce_p e) p); [reflexivity|exact IH].
Qed.

Lemma closed_out_of_grace_ok : forall cfg cs, CInv cfg cs ->
  closed_out_of_grace (abs (cs_s cs)) (cs_gstart cs) (map pl (cs_cands cs)) (cs_sel cs) = true.
Proof.
  intros cfg cs H. unfold closed_out_of_grace. apply forallb_forall. intros [p c] Hin. cbn [fst]. rewrite find_pl.
  destruct (find (fun e => Nat.eqb (ce_p e) p) (cs_cands cs)) as [e|] eqn:Ef; cbn [option_map]; [|reflexivity].
  destruct (find_some _ _ Ef) as [He Hp]. apply Nat.eqb_eq in Hp. unfold pl. cbn [snd].
  destruct (ce_live e) eqn:El; cbn [negb orb]; [|reflexivity].
  destruct (ci_self _ _ H p c e Hin He Hp El) as [_ Hf]. rewrite ap_at_abs. cbn. apply Z.leb_le. exact Hf.
Qed.

Lemma closed_code_ok : forall l bad cl, (forall p c, In (p, c) cl -> exists e, In e l /\ ce_p e = p) ->
  closed_code (map pl l) bad cl = 0.
Proof.
  intros l bad. induction cl as [|[p c] r IH]; intros H; cbn [closed_code]; [reflexivity|].
  assert (E : existsb (fun e : nat * bool => Nat.eqb (fst e) p) (map pl l) = true).
  { destruct (H p c (or_introl eq_refl)) as [e [Hin Hp]]. apply existsb_exists. exists (pl e). split; [apply in_map, Hin|].
    unfold pl. cbn. rewrite Hp. apply Nat.eqb_refl. }
  rewrite E. apply IH. intros q d Hq. apply (H q d). right. exact Hq.
Qed.

Lemma charge_total : forall cfg s o l,
  fst (charge cfg s o l) + snd (charge cfg s o l) =
  match o with
  | Connected p _ => if (count (fst (step isort cfg s o)) =? count s + 1) && m_has_live p (map pl l) then 1 else 0
  | _ => 0
  end.
Proof.
  intros. unfold charge. destruct o; try reflexivity. rewrite has_live_pl.
  destruct (_ =? _); cbn [andb]; [|reflexivity]. destruct (find _ l) as [e|]; [|reflexivity].
  destruct (ce_live e), (ce_done e); reflexivity.
Qed.

Lemma abs_decay_peer : forall vs s p, tracked s p = true ->
  abs (set_peer s p (decay_peer vs (peer_at s p))) = atick_peer vs (abs s) p.
Proof.
  intros vs s p Ht. unfold atick_peer. rewrite tracked_abs, Ht, abs_set_peer, ap_at_abs. f_equal.
  unfold decay_peer. destruct (decay_tags vs (p_dec (peer_at s p))) as [dec' dl] eqn:E.
  unfold with_dec, abs_peer. cbn. unfold tracked in Ht. rewrite Ht, E. reflexivity.
Qed.

(* the AOp step *)
Lemma j_aop : forall cfg cs o m cs' evs i, CInv cfg cs -> J cs m ->
  cstep cfg cs (AOp o) = Some (cs', evs) ->
  exists m', cmon cfg m i evs = inl m' /\ J cs' m'.
Proof.
  intros cfg cs o m cs' evs i H HJ Hs. pose proof (ci_inv _ _ H) as Hinv.
  assert (He : op_enabled cs o = true) by (unfold cstep in Hs; destruct (op_enabled cs o); [reflexivity|discriminate]).
  destruct HJ as [Ja Jt Jact Jp Jg Jc Jad].
  destruct (is_trim o) eqn:Et.
  - (* ForceTrim *)
    destruct o; try discriminate Et; [discriminate He|]. cbn in He. unfold cstep in Hs. cbn [op_enabled] in Hs. rewrite He in Hs.
    cbn [negb step op_pid] in Hs. inversion Hs; subst cs' evs; clear Hs.
    cbn [cmon cmon_step]. rewrite Jact, He. cbn [negb].
    rewrite Ja, (force_code_ok _ _ _ (model_force_ok_l isort isort_perm isort_sorted cfg (cs_s cs) Hinv)). cbn [Z.eqb].
    eexists. split; [reflexivity|]. constructor; cbn; try assumption.
    + reflexivity.
    + rewrite He. reflexivity.
    + rewrite Jc. apply relive_pl.
  - pose proof (cstep_aop cfg cs o He) as Hq. cbv zeta in Hq. rewrite Hq in Hs. inversion Hs as [[Hcs Hev]]. clear Hs Hq.
    assert (Hev' : evs = [EOp o]) by (rewrite <- Hev; destruct o; try discriminate Et; reflexivity).
    clear Hev. subst cs'.
    subst evs. set (s' := fst (step isort cfg (cs_s cs) o)) in *.
    pose proof (abs_step isort cfg (cs_s cs) o Hinv Et) as Habs. fold s' in Habs.
    assert (Hinv' : inv s') by (apply (inv_step isort isort_perm), Hinv).
    pose proof (charge_total cfg (cs_s cs) o (cs_cands cs)) as Hch. fold s' in Hch.
    assert (Hmon : cmon_step cfg m (EOp o) =
                   inl (mkCM (abs s') (m_tick m) (m_active m) (m_proceed m) (m_gstart m) (map pl (relive s' (cs_cands cs)))
                             (m_bad m) (m_added m + (fst (charge cfg (cs_s cs) o (cs_cands cs)) + snd (charge cfg (cs_s cs) o (cs_cands cs)))))).
    { unfold cmon_step. rewrite Ja.
      destruct o; try discriminate Et; rewrite <- Habs, Jc, relive_pl, Hch, ?Z.add_0_r; try reflexivity.
      rewrite (acount_abs _ Hinv'), (acount_abs _ Hinv).
      destruct ((count s' =? count (cs_s cs) + 1) && m_has_live p (map pl (cs_cands cs))); rewrite ?Z.add_0_r; reflexivity. }
    replace (match o with ForceTrim => [EForce (snd (step isort cfg (cs_s cs) o))] | _ => [EOp o] end) with [EOp o]
      by (destruct o; try discriminate Et; reflexivity).
    cbn [cmon]. rewrite Hmon. eexists. split; [reflexivity|]. constructor; cbn; try assumption; try reflexivity. lia.
Qed.

Ltac jsimpl := cbn [cs_s cs_ph cs_gstart cs_psnap cs_cands cs_ncand cs_sel cs_added1 cs_added2 cs_late cs_dph
                       with_s with_ph with_dph m_a m_tick m_active m_proceed m_gstart m_cands m_bad m_added with_a] in *.

Lemma j_clock_tick : forall cfg cs a m cs' evs i, CInv cfg cs -> J cs m ->
  (a = AClock \/ (exists p, a = ATickPeer p) \/ a = ATickEnd) ->
  cstep cfg cs a = Some (cs', evs) -> exists m', cmon cfg m i evs = inl m' /\ J cs' m'.
Proof.
  intros cfg cs a m cs' evs i H [Ja Jt Jact Jp Jg Jc Jad] Ha Hs. destruct Ha as [->|[[p ->]| ->]]; cbn [cstep] in Hs.
  - inversion Hs; subst cs' evs; clear Hs. cbn [cmon cmon_step]. eexists. split; [reflexivity|].
    constructor; jsimpl; try assumption.
    + rewrite Ja. reflexivity.
    + rewrite Jt, Ja. cbn [abs a_now a_dst]. destruct (cs_dph cs); cbn [d_idle]; rewrite ?andb_true_r, ?andb_false_r; [destruct (_ =? 0)|]; reflexivity.
  - destruct (cs_dph cs) as [|vs t vis] eqn:Ed; [discriminate|]. destruct (memn p vis); [discriminate|].
    inversion Hs; subst cs' evs; clear Hs. cbn [cmon cmon_step]. rewrite Jt. eexists. split; [reflexivity|].
    constructor; jsimpl; try assumption. rewrite Ja. destruct (tracked (cs_s cs) p) eqn:Et.
    + symmetry. apply abs_decay_peer, Et.
    + unfold atick_peer. rewrite tracked_abs, Et. reflexivity.
  - destruct (cs_dph cs) as [|vs t vis] eqn:Ed; [discriminate|]. inversion Hs; subst cs' evs; clear Hs.
    cbn [cmon cmon_step]. rewrite Jt. eexists. split; [reflexivity|]. constructor; jsimpl; try assumption; try reflexivity.
    rewrite Ja. reflexivity.
Qed.

Lemma j_trim_steps : forall cfg cs a m cs' evs i, CInv cfg cs -> J cs m ->
  match a with AOp _ | AClock | ATickPeer _ | ATickEnd => False | _ => True end ->
  cstep cfg cs a = Some (cs', evs) -> exists m', cmon cfg m i evs = inl m' /\ J cs' m'.
Proof.
  intros cfg cs a m cs' evs i H HJ Ha Hs. pose proof (ci_inv _ _ H) as Hinv.
  destruct HJ as [Ja Jt Jact Jp Jg Jc Jad]. destruct a; try contradiction; cbn [cstep] in Hs.
  - (* ABegin *)
    destruct (is_idle (cs_ph cs)) eqn:Ei; cbn [negb] in Hs; [|discriminate].
    assert (Hpr : negb (disabled cfg) && negb (acount (m_a m) <=? c_low cfg)
                  = negb ((c_low cfg =? 0) || (c_high cfg =? 0) || (count (cs_s cs) <=? c_low cfg))).
    { rewrite Ja, (acount_abs _ Hinv). unfold disabled. destruct (c_low cfg =? 0), (c_high cfg =? 0), (count (cs_s cs) <=? c_low cfg); reflexivity. }
    destruct ((c_low cfg =? 0) || (c_high cfg =? 0) || (count (cs_s cs) <=? c_low cfg)) eqn:Ec;
      inversion Hs; subst cs' evs; clear Hs; cbn [cmon cmon_step]; rewrite Jact; cbn [negb]; rewrite Hpr; cbn [negb].
    + cbn [closed_code Z.eqb negb is_nil andb m_cands m_bad m_proceed closed_out_of_grace forallb]. eexists. split; [reflexivity|].
      constructor; jsimpl; try reflexivity; try assumption; try (intros; discriminate); try (rewrite Ja; reflexivity).
    + eexists. split; [reflexivity|]. constructor; jsimpl; try reflexivity; try assumption; try (rewrite Ja; reflexivity).
  - (* ASnap *)
    destruct (cs_ph cs) as [|vis| | |] eqn:Eph; try discriminate. destruct (memn p vis); [discriminate|].
    inversion Hs; subst cs' evs; clear Hs. cbn [cmon cmon_step]. rewrite Ja, ap_at_abs. cbn [abs_peer a_known a_first abs a_prot].
    rewrite Jg. destruct (p_tracked (peer_at (cs_s cs) p)); cbn [negb andb].
    + destruct (is_prot (prot (cs_s cs)) p); cbn [negb andb].
      * eexists. split; [reflexivity|]. constructor; jsimpl; try assumption; try reflexivity; try (intros _; apply Jp; reflexivity).
      * destruct (p_first (peer_at (cs_s cs) p) <=? cs_gstart cs); cbn [negb]; eexists; (split; [reflexivity|]);
          constructor; jsimpl; try assumption; try reflexivity; try (intros _; apply Jp; reflexivity).
        rewrite Jc, map_app. reflexivity.
    + eexists. split; [reflexivity|]. constructor; jsimpl; try assumption; try reflexivity; try (intros _; apply Jp; reflexivity).
  - (* ASnapEnd *)
    destruct (cs_ph cs) as [|vis| | |] eqn:Eph; try discriminate. destruct (negb (sweep_done _ _ _)); [discriminate|].
    destruct (cs_ncand cs <? c_low cfg) eqn:En; inversion Hs; subst cs' evs; clear Hs.
    + cbn [cmon cmon_step]. rewrite Jc, closed_code_ok by (intros p c []). cbn [Z.eqb negb is_nil andb closed_out_of_grace forallb].
      rewrite (Jp eq_refl). cbn [negb andb]. rewrite Ja, Jg, m_remaining_phi, Jad.
      destruct (ci_early _ _ H) as [Es _]; [rewrite Eph; reflexivity|].
      destruct (ci_c _ _ H (cs_ncand cs)) as [HD HU]; [unfold cbound; rewrite Eph; reflexivity|].
      pose proof (phi_le (cs_s cs) (cs_gstart cs) (cs_sel cs) (cs_cands cs)) as Hphi. rewrite Es in Hphi, HD. apply Z.ltb_lt in En.
      replace (phi (cs_s cs) (cs_gstart cs) [] (cs_cands cs) <=? Z.max 0 (c_low cfg) + (cs_added1 cs + cs_added2 cs)) with true
        by (symmetry; apply Z.leb_le; lia).
      cbn [negb]. eexists. split; [reflexivity|]. constructor; jsimpl; try assumption; try reflexivity; try (intros; discriminate).
    + cbn [cmon cmon_step]. eexists. split; [reflexivity|]. constructor; jsimpl; try assumption; try reflexivity;
      try (rewrite Jact; reflexivity).
  - (* ACmp *)
    destruct (cs_ph cs) eqn:Eph; try discriminate. inversion Hs; subst cs' evs; clear Hs.
    assert (Hrd : forall x, cmon_step cfg m (ERead x (p_value (peer_at (cs_s cs) x))) = inl m).
    { intros x. cbn [cmon_step]. rewrite Ja, (total_abs _ _ Hinv), Z.eqb_refl, andb_false_r. reflexivity. }
    exists m. split; [|constructor; try assumption; rewrite ?Eph; assumption].
    destruct (has_live p (cs_cands cs)), (has_live q (cs_cands cs)); cbn [app cmon]; rewrite ?Hrd; reflexivity.
  - (* ASortEnd *)
    destruct (cs_ph cs) eqn:Eph; try discriminate. destruct (forallb _ _); [|discriminate].
    inversion Hs; subst cs' evs; clear Hs. exists m. split; [reflexivity|].
    constructor; jsimpl; try assumption; try reflexivity; try (rewrite Jact; reflexivity).
  - (* ASelect *)
    unfold select_step in Hs. destruct (cs_ph cs) as [| | |todo tg|] eqn:Eph; try discriminate.
    assert (Hact : m_active m = true) by (rewrite Jact; reflexivity).
    assert (Hpr : m_proceed m = true) by (apply Jp; reflexivity).
    destruct todo as [|p r].
    + inversion Hs; subst cs' evs; clear Hs. exists m. split; [reflexivity|]. constructor; jsimpl; try assumption; try reflexivity.
    + destruct (tg <=? 0).
      * inversion Hs; subst cs' evs; clear Hs. exists m. split; [reflexivity|]. constructor; jsimpl; try assumption; try reflexivity.
      * destruct (find _ (cs_cands cs)) as [e|].
        -- destruct (negb (ce_live e)).
           ++ inversion Hs; subst cs' evs; clear Hs. exists m. split; [reflexivity|]. constructor; jsimpl; try assumption; try reflexivity.
              rewrite mark_done_pl. exact Jc.
           ++ destruct (true && (cs_gstart cs <? p_first (peer_at (cs_s cs) p))).
              { inversion Hs; subst cs' evs; clear Hs. exists m. split; [reflexivity|]. constructor; jsimpl; try assumption; try reflexivity.
                rewrite mark_done_pl. exact Jc. }
              destruct (is_nil (p_conns (peer_at (cs_s cs) p)) && p_temp (peer_at (cs_s cs) p)) eqn:Epr;
                inversion Hs; subst cs' evs; clear Hs.
              ** apply andb_true_iff in Epr. destruct Epr as [Enil Etmp].
                 assert (Etr : p_tracked (peer_at (cs_s cs) p) = true).
                 { destruct (peer_at_ok _ p Hinv) as [Hu _]. destruct (p_tracked (peer_at (cs_s cs) p)); [reflexivity|].
                   rewrite (Hu eq_refl) in Etmp. discriminate. }
                 cbn [cmon cmon_step]. rewrite Ja, ap_at_abs. cbn [abs_peer a_known a_conns]. rewrite Etr, Enil. cbn [andb].
                 eexists. split; [reflexivity|]. constructor; jsimpl; try assumption; try reflexivity.
                 --- rewrite abs_set_peer. reflexivity.
                 --- rewrite Jc. change (aset (abs (cs_s cs)) p noap) with (aset (abs (cs_s cs)) p (abs_peer nopeer)).
                     rewrite <- abs_set_peer, <- (mark_done_pl p (cs_cands cs)). apply relive_pl.
              ** exists m. split; [reflexivity|]. constructor; jsimpl; try assumption; try reflexivity. rewrite mark_done_pl. exact Jc.
        -- inversion Hs; subst cs' evs; clear Hs. exists m. split; [reflexivity|]. constructor; jsimpl; try assumption; try reflexivity.
  - (* AFinish *)
    destruct (cs_ph cs) eqn:Eph; try discriminate. inversion Hs; subst cs' evs; clear Hs.
    cbn [cmon cmon_step]. rewrite Jc, closed_code_ok by (apply (ci_sel _ _ H)). cbn [Z.eqb negb].
    rewrite Ja, Jg, (closed_out_of_grace_ok cfg cs H). cbn [negb].
    rewrite (Jp eq_refl). cbn [negb andb]. rewrite m_remaining_phi, Jad.
    pose proof (phi_at_close cfg cs H Eph) as Hphi.
    replace (phi (cs_s cs) (cs_gstart cs) (cs_sel cs) (cs_cands cs) <=? Z.max 0 (c_low cfg) + (cs_added1 cs + cs_added2 cs)) with true
      by (symmetry; apply Z.leb_le; lia).
    cbn [negb]. eexists. split; [reflexivity|]. constructor; jsimpl; try assumption; try reflexivity; try (intros; discriminate).
Qed.

Lemma cmon_app : forall cfg a b m i m1, cmon cfg m i a = inl m1 ->
  cmon cfg m i (a ++ b) = cmon cfg m1 (i + zlen a) b.
Proof.
  intros cfg. induction a as [|e r IH]; intros b m i m1 H; cbn [cmon app] in *.
  - inversion H; subst. unfold zlen. cbn. rewrite Z.add_0_r. reflexivity.
  - destruct (cmon_step cfg m e) as [m2|c]; [|discriminate]. rewrite (IH b m2 (i + 1) m1 H).
    f_equal. unfold zlen. cbn [length]. lia.
Qed.

Lemma j_step : forall cfg cs a m cs' evs i, CInv cfg cs -> J cs m ->
  cstep cfg cs a = Some (cs', evs) -> exists m', cmon cfg m i evs = inl m' /\ J cs' m'.
Proof.
  intros cfg cs a m cs' evs i H HJ Hs. destruct a.
  - exact (j_aop cfg cs o m cs' evs i H HJ Hs).
  - apply (j_clock_tick cfg cs AClock m cs' evs i H HJ); [left; reflexivity|exact Hs].
  - apply (j_clock_tick cfg cs (ATickPeer p) m cs' evs i H HJ); [right; left; exists p; reflexivity|exact Hs].
  - apply (j_clock_tick cfg cs ATickEnd m cs' evs i H HJ); [right; right; reflexivity|exact Hs].
  - exact (j_trim_steps cfg cs ABegin m cs' evs i H HJ I Hs).
  - exact (j_trim_steps cfg cs (ASnap p) m cs' evs i H HJ I Hs).
  - exact (j_trim_steps cfg cs ASnapEnd m cs' evs i H HJ I Hs).
  - exact (j_trim_steps cfg cs (ACmp p q) m cs' evs i H HJ I Hs).
  - exact (j_trim_steps cfg cs (ASortEnd perm) m cs' evs i H HJ I Hs).
  - exact (j_trim_steps cfg cs ASelect m cs' evs i H HJ I Hs).
  - exact (j_trim_steps cfg cs AFinish m cs' evs i H HJ I Hs).
Qed.

Lemma j_run : forall cfg sched cs m i, CInv cfg cs -> J cs m ->
  exists m', cmon cfg m i (snd (crun cfg cs sched)) = inl m' /\ J (fst (crun cfg cs sched)) m'.
Proof.
  intros cfg. induction sched as [|a r IH]; intros cs m i H HJ; cbn [crun].
  - exists m. split; [reflexivity|exact HJ].
  - destruct (cstep cfg cs a) as [[cs' ev]|] eqn:Es; [|apply IH; assumption].
    destruct (j_step cfg cs a m cs' ev i H HJ Es) as [m1 [Hm1 HJ1]].
    pose proof (cinv_step cfg cs a cs' ev H Es) as H1.
    destruct (IH cs' m1 (i + zlen ev) H1 HJ1) as [m2 [Hm2 HJ2]].
    destruct (crun cfg cs' r) as [cf evs]. cbn [fst snd] in *. exists m2. split; [|exact HJ2].
    rewrite (cmon_app cfg ev evs m i m1 Hm1). exact Hm2.
Qed.

Lemma j_init : forall cfg, J (cinit cfg) (cm_init (ainit cfg)).
Proof. intros. constructor; cbn; try reflexivity. intros; discriminate. Qed.

(* THE theorem of this part: the concurrent-trace monitor accepts the event
   trace of every schedule of the LTS *)
Lemma cmon_accepts_l : forall cfg sched,
  exists m', cmon cfg (cm_init (ainit cfg)) 0 (snd (crun cfg (cinit cfg) sched)) = inl m'.
Proof.
  intros cfg sched. destruct (j_run cfg sched (cinit cfg) (cm_init (ainit cfg)) 0 (cinv_init cfg) (j_init cfg))
    as [m' [Hm _]]. exists m'. exact Hm.
Qed.

(* C14 — proofs about the LTS, part 2: one sequential critical section
   (AOp) preserves the accounting of clause (c). *)
From Coq Require Import List Arith ZArith Bool Lia Permutation Sorted.
From Verif Require Import lib.Wire c14.Model c14.Spec c14.Proofs c14.Proofs_Abs c14.Proofs_Trim c14.Proofs_Main
     c14.Conc c14.SpecConc c14.ProofsConc.
Import ListNotations.
Local Open Scope Z_scope.

Definition relive_e (s : state) (e : cent) : cent :=
  mkCE (ce_p e) (ce_live e && tracked s (ce_p e)) (ce_done e) (ce_first e).

Lemma relive_pids : forall s l, map ce_p (relive s l) = map ce_p l.
Proof. intros. unfold relive. rewrite map_map. reflexivity. Qed.

Lemma in_relive : forall s l e', In e' (relive s l) -> exists e, In e l /\ e' = relive_e s e.
Proof. intros s l e' H. unfold relive in H. apply in_map_iff in H. destruct H as [e [He Hin]]. exists e. split; [exact Hin|symmetry; exact He]. Qed.

Lemma zlen_rem1_le : forall c l, zlen (rem1 c l) <= zlen l.
Proof. unfold zlen. induction l as [|y r IH]; cbn [rem1 length]; [lia|]. destruct (Nat.eqb c y); cbn [length]; lia. Qed.

Lemma zlen_cons : forall {A} (x : A) l, zlen (x :: l) = zlen l + 1.
Proof. intros. unfold zlen. cbn [length]. lia. Qed.

Lemma zlen_cons_le : forall (x : nat) l, zlen (x :: l) <= zlen l + 1.
Proof. intros. rewrite zlen_cons. lia. Qed.

Definition adding (cfg : config) (s : state) (o : op) (p : nat) : bool :=
  match o with
  | Connected p' _ => Nat.eqb p' p && (count (fst (step isort cfg s o)) =? count s + 1)
  | _ => false
  end.

(* one critical section against a measure F of a peer's connection set that
   grows by at most one per added connection: the measure of the peer, taken
   only while it is tracked and out of grace, grows by at most one, and only
   when a Connected just added a connection to it *)
Lemma term_step_gen : forall cfg s o q g (F : list nat -> Z), inv s -> is_trim o = false ->
  (forall x l, F (x :: l) <= F l + 1) -> (forall c l, F (rem1 c l) <= F l) -> F [] = 0 -> (forall l, 0 <= F l) ->
  let s' := fst (step isort cfg s o) in
  (if tracked s' q && incl s' g q then F (conns_of s' q) else 0)
  <= (if incl s g q then F (conns_of s q) else 0) + (if adding cfg s o q then 1 else 0).
Proof.
  intros cfg s o q g F Hinv Ho F1 F2 F0 Fn. cbv zeta.
  pose proof (step_conns_cases cfg s o q Hinv Ho) as Hcase. cbv zeta in Hcase.
  pose proof (step_first_cases cfg s o q Hinv Ho) as Hfirst. cbv zeta in Hfirst.
  remember (fst (step isort cfg s o)) as s' eqn:Es.
  assert (Hle : F (conns_of s' q) <= F (conns_of s q) + (if adding cfg s o q then 1 else 0)).
  { destruct Hcase as [[x [Ho' [Hc Hx]]]|[[Heq _]|[c [Hr _]]]].
    - rewrite Hx. assert (Ha : adding cfg s o q = true).
      { unfold adding. rewrite <- Es. rewrite Ho'. cbv iota beta. rewrite Nat.eqb_refl. cbn [andb]. apply Z.eqb_eq. exact Hc. }
      rewrite Ha. apply F1.
    - rewrite Heq. destruct (adding _ _ _ _); lia.
    - rewrite Hr. pose proof (F2 c (conns_of s q)). destruct (adding _ _ _ _); lia. }
  assert (Hadd : 0 <= (if adding cfg s o q then 1 else 0)) by (destruct (adding _ _ _ _); lia).
  pose proof (Fn (conns_of s q)) as Hn.
  destruct (tracked s' q) eqn:Et'; cbn [andb]; [|destruct (incl s g q); lia].
  destruct (tracked s q) eqn:Et.
  - unfold tracked in Et, Et'. destruct (Hfirst Et Et') as [[E1 _]|[x [_ [_ [_ [_ [Hc0 _]]]]]]].
    + unfold incl. rewrite E1. destruct (p_first (peer_at s q) <=? g); lia.
    + rewrite Hc0, F0 in *. destruct (incl s' g q), (incl s g q); lia.
  - assert (Hc0 : conns_of s q = []).
    { unfold conns_of, tracked in *. destruct (peer_at_ok s q Hinv) as [Hu _]. rewrite (Hu Et). reflexivity. }
    rewrite Hc0, F0 in *. destruct (incl s' g q), (incl s g q); lia.
Qed.

Lemma uterm_step : forall cfg s o g e, inv s -> is_trim o = false ->
  let s' := fst (step isort cfg s o) in
  uterm s' g (relive_e s' e) <= uterm s g e
     + (if adding cfg s o (ce_p e) && (ce_live e && negb (ce_done e)) then 1 else 0).
Proof.
  intros cfg s o g e Hinv Ho. cbv zeta.
  pose proof (term_step_gen cfg s o (ce_p e) g (fun l => zlen l) Hinv Ho) as H. cbv zeta beta in H.
  specialize (H (fun x l => zlen_cons_le x l) (fun c l => zlen_rem1_le c l) eq_refl (fun l => zlen_nonneg l)).
  unfold uterm, relive_e. cbn [ce_live ce_done ce_p].
  destruct (ce_live e), (ce_done e); cbn [andb negb]; rewrite ?andb_false_r, ?andb_true_r; cbn [andb]; try lia.
Qed.

Lemma filter_cons_le : forall (f : nat -> bool) x l, zlen (filter f (x :: l)) <= zlen (filter f l) + 1.
Proof. intros. cbn [filter]. destruct (f x); [rewrite zlen_cons|]; lia. Qed.

Lemma dterm_step : forall cfg s o g sel e, inv s -> is_trim o = false ->
  let s' := fst (step isort cfg s o) in
  dterm s' g sel (relive_e s' e) <= dterm s g sel e
     + (if adding cfg s o (ce_p e) && (ce_live e && ce_done e) then 1 else 0).
Proof.
  intros cfg s o g sel e Hinv Ho. cbv zeta.
  set (f := fun c => negb (memp (ce_p e, c) sel)).
  pose proof (term_step_gen cfg s o (ce_p e) g (fun l => zlen (filter f l)) Hinv Ho) as H. cbv zeta beta in H.
  specialize (H (fun x l => filter_cons_le f x l) (fun c l => filter_rem1_le f c l) eq_refl (fun l => zlen_nonneg _)).
  unfold dterm, relive_e, rem_m. cbn [ce_live ce_done ce_p]. fold f.
  destruct (ce_live e), (ce_done e); cbn [andb negb]; rewrite ?andb_false_r, ?andb_true_r; cbn [andb]; try lia.
Qed.

(* the ghost counters move exactly as the indicator sums *)
Definition charge (cfg : config) (s : state) (o : op) (l : list cent) : Z * Z :=
  match o with
  | Connected p _ =>
      if count (fst (step isort cfg s o)) =? count s + 1 then
        match find (fun e => Nat.eqb (ce_p e) p) l with
        | Some e => if ce_live e then if ce_done e then (1, 0) else (0, 1) else (0, 0)
        | None => (0, 0)
        end
      else (0, 0)
  | _ => (0, 0)
  end.

Lemma charge_sum : forall cfg s o l (g : cent -> bool) (pick : Z * Z -> Z),
  NoDup (map ce_p l) ->
  (forall e, (if ce_live e then if ce_done e then pick (1, 0) else pick (0, 1) else pick (0, 0))
             = if g e then 1 else 0) -> pick (0, 0) = 0 ->
  zsum (map (fun e => if adding cfg s o (ce_p e) && g e then 1 else 0) l) = pick (charge cfg s o l).
Proof.
  intros cfg s o l g pick Hnd Hg H0. unfold charge, adding.
  destruct o; try (rewrite H0; apply zsum_map_zero; intros; reflexivity).
  destruct (count (fst (step isort cfg s (Connected p c))) =? count s + 1) eqn:Ec.
  - transitivity (zsum (map (fun e => if Nat.eqb (ce_p e) p && g e then 1 else 0) l)).
    + f_equal. apply map_ext. intros e. rewrite andb_true_r, (Nat.eqb_sym p (ce_p e)). reflexivity.
    + rewrite zsum_indicator by exact Hnd. destruct (find _ l) as [e0|]; [|symmetry; exact H0].
      symmetry. rewrite <- Hg. destruct (ce_live e0), (ce_done e0); reflexivity.
  - rewrite H0. apply zsum_map_zero. intros e _. rewrite andb_false_r. reflexivity.
Qed.

Lemma aop_sums : forall cfg s o g l sel, inv s -> is_trim o = false -> NoDup (map ce_p l) ->
  let s' := fst (step isort cfg s o) in
  dsum s' g sel (relive s' l) <= dsum s g sel l + fst (charge cfg s o l)
  /\ usum s' g (relive s' l) <= usum s g l + snd (charge cfg s o l).
Proof.
  intros cfg s o g l sel Hinv Ho Hnd s'. split.
  - unfold dsum, relive. rewrite map_map.
    rewrite <- (charge_sum cfg s o l (fun e => ce_live e && ce_done e) fst Hnd);
      [|intros e; destruct (ce_live e), (ce_done e); reflexivity|reflexivity].
    change (fun x => dterm s' g sel (mkCE (ce_p x) (ce_live x && tracked s' (ce_p x)) (ce_done x) (ce_first x)))
      with (fun x => dterm s' g sel (relive_e s' x)).
    induction l as [|e r IH]; cbn [map zsum]; [lia|]. inversion Hnd; subst.
    pose proof (dterm_step cfg s o g sel e Hinv Ho) as Ht. cbv zeta in Ht. fold s' in Ht. specialize (IH H2). lia.
  - unfold usum, relive. rewrite map_map.
    rewrite <- (charge_sum cfg s o l (fun e => ce_live e && negb (ce_done e)) snd Hnd);
      [|intros e; destruct (ce_live e), (ce_done e); reflexivity|reflexivity].
    change (fun x => uterm s' g (mkCE (ce_p x) (ce_live x && tracked s' (ce_p x)) (ce_done x) (ce_first x)))
      with (fun x => uterm s' g (relive_e s' x)).
    induction l as [|e r IH]; cbn [map zsum]; [lia|]. inversion Hnd; subst.
    pose proof (uterm_step cfg s o g e Hinv Ho) as Ht. cbv zeta in Ht. fold s' in Ht. specialize (IH H2). lia.
Qed.

(* C14 — proofs about the LTS, part 2: one sequential critical section
   (AOp) preserves the accounting of clause (c). *)
From Coq Require Import List Arith ZArith Bool Lia Permutation Sorted.
From Verif Require Import lib.Wire c14.Model c14.Spec c14.Proofs c14.Proofs_Abs c14.Proofs_Trim c14.Proofs_Main
     c14.Conc c14.SpecConc c14.ProofsConc.
Import ListNotations.
Local Open Scope Z_scope.

Definition relive_e (s : state) (e : cent) : cent :=
  mkCE (ce_p e) (ce_live e && tracked s (ce_p e)) (ce_done e) (ce_first e).

Lemma relive_pids : forall s l, map ce_p (relive s l) = map ce_p l.
Proof. intros. unfold relive. rewrite map_map. reflexivity. Qed.

Lemma in_relive : forall s l e', In e' (relive s l) -> exists e, In e l /\ e' = relive_e s e.
Proof. intros s l e' H. unfold relive in H. apply in_map_iff in H. destruct H as [e [He Hin]]. exists e. split; [exact Hin|symmetry; exact He]. Qed.

Lemma zlen_rem1_le : forall c l, zlen (rem1 c l) <= zlen l.
Proof. unfold zlen. induction l as [|y r IH]; cbn [rem1 length]; [lia|]. destruct (Nat.eqb c y); cbn [length]; lia. Qed.

Lemma zlen_cons : forall {A} (x : A) l, zlen (x :: l) = zlen l + 1.
Proof. intros. unfold zlen. cbn [length]. lia. Qed.

Definition adding (cfg : config) (s : state) (o : op) (p : nat) : bool :=
  match o with
  | Connected p' _ => Nat.eqb p' p && (count (fst (step isort cfg s o)) =? count s + 1)
  | _ => false
  end.

(* termwise: a term grows by at most one, and only for a live entry of the
   peer a Connected just added a connection to *)
Lemma uterm_step : forall cfg s o e, inv s -> is_trim o = false ->
  let s' := fst (step isort cfg s o) in
  uterm s' (relive_e s' e) <= uterm s e
     + (if adding cfg s o (ce_p e) && (ce_live e && negb (ce_done e)) then 1 else 0).
Proof.
  intros cfg s o e Hinv Ho. cbv zeta.
  pose proof (step_conns_cases cfg s o (ce_p e) Hinv Ho) as Hcase. cbv zeta in Hcase.
  remember (fst (step isort cfg s o)) as s' eqn:Es.
  unfold uterm, relive_e. cbn [ce_live ce_done ce_p].
  destruct (ce_live e && negb (ce_done e)) eqn:El.
  - apply andb_true_iff in El. destruct El as [El1 El2]. rewrite El1, El2. cbn [andb]. rewrite andb_true_r.
    pose proof (zlen_nonneg (conns_of s (ce_p e))) as Hn.
    assert (Hle : zlen (conns_of s' (ce_p e)) <= zlen (conns_of s (ce_p e)) + (if adding cfg s o (ce_p e) then 1 else 0)).
    { destruct Hcase as [[x [Ho' [Hc Hx]]]|[[Heq _]|[c [Hr _]]]].
      - rewrite Hx, zlen_cons. assert (Ha : adding cfg s o (ce_p e) = true).
        { unfold adding. rewrite <- Es. rewrite Ho'. cbv iota beta. rewrite Nat.eqb_refl. cbn [andb].
          apply Z.eqb_eq. exact Hc. }
        rewrite Ha. lia.
      - rewrite Heq. destruct (adding _ _ _ _); lia.
      - rewrite Hr. pose proof (zlen_rem1_le c (conns_of s (ce_p e))).
        destruct (adding _ _ _ _); lia. }
    rewrite ?andb_true_r. destruct (tracked s' (ce_p e)); [exact Hle|]. destruct (adding _ _ _ _); lia.
  - assert (E : ce_live e && tracked s' (ce_p e) && negb (ce_done e) = false).
    { destruct (ce_live e), (ce_done e), (tracked s' (ce_p e)); cbn in *; try reflexivity; discriminate. }
    rewrite E, andb_false_r. lia.
Qed.

Lemma filter_cons_le : forall (f : nat -> bool) x l, zlen (filter f (x :: l)) <= zlen (filter f l) + 1.
Proof. intros. cbn [filter]. destruct (f x); [rewrite zlen_cons|]; lia. Qed.

Lemma dterm_step : forall cfg s o sel e, inv s -> is_trim o = false ->
  let s' := fst (step isort cfg s o) in
  dterm s' sel (relive_e s' e) <= dterm s sel e
     + (if adding cfg s o (ce_p e) && (ce_live e && ce_done e) then 1 else 0).
Proof.
  intros cfg s o sel e Hinv Ho. cbv zeta.
  pose proof (step_conns_cases cfg s o (ce_p e) Hinv Ho) as Hcase. cbv zeta in Hcase.
  remember (fst (step isort cfg s o)) as s' eqn:Es.
  unfold dterm, relive_e, rem_m. cbn [ce_live ce_done ce_p].
  set (f := fun c => negb (memp (ce_p e, c) sel)).
  destruct (ce_live e && ce_done e) eqn:El.
  - apply andb_true_iff in El. destruct El as [El1 El2]. rewrite El1, El2. cbn [andb]. rewrite andb_true_r.
    pose proof (zlen_nonneg (filter f (conns_of s (ce_p e)))) as Hn.
    assert (Hle : zlen (filter f (conns_of s' (ce_p e))) <= zlen (filter f (conns_of s (ce_p e)))
                  + (if adding cfg s o (ce_p e) then 1 else 0)).
    { destruct Hcase as [[x [Ho' [Hc Hx]]]|[[Heq _]|[c [Hr _]]]].
      - rewrite Hx. pose proof (filter_cons_le f x (conns_of s (ce_p e))). assert (Ha : adding cfg s o (ce_p e) = true).
        { unfold adding. rewrite <- Es. rewrite Ho'. cbv iota beta. rewrite Nat.eqb_refl. cbn [andb].
          apply Z.eqb_eq. exact Hc. }
        rewrite Ha. lia.
      - rewrite Heq. destruct (adding _ _ _ _); lia.
      - rewrite Hr. pose proof (filter_rem1_le f c (conns_of s (ce_p e))).
        destruct (adding _ _ _ _); lia. }
    rewrite ?andb_true_r. destruct (tracked s' (ce_p e)); [exact Hle|]. destruct (adding _ _ _ _); lia.
  - assert (E : ce_live e && tracked s' (ce_p e) && ce_done e = false).
    { destruct (ce_live e), (ce_done e), (tracked s' (ce_p e)); cbn in *; try reflexivity; discriminate. }
    rewrite E, andb_false_r. lia.
Qed.

(* the ghost counters move exactly as the indicator sums *)
Definition charge (cfg : config) (s : state) (o : op) (l : list cent) : Z * Z :=
  match o with
  | Connected p _ =>
      if count (fst (step isort cfg s o)) =? count s + 1 then
        match find (fun e => Nat.eqb (ce_p e) p) l with
        | Some e => if ce_live e then if ce_done e then (1, 0) else (0, 1) else (0, 0)
        | None => (0, 0)
        end
      else (0, 0)
  | _ => (0, 0)
  end.

Lemma charge_sum : forall cfg s o l (g : cent -> bool) (pick : Z * Z -> Z),
  NoDup (map ce_p l) ->
  (forall e, (if ce_live e then if ce_done e then pick (1, 0) else pick (0, 1) else pick (0, 0))
             = if g e then 1 else 0) -> pick (0, 0) = 0 ->
  zsum (map (fun e => if adding cfg s o (ce_p e) && g e then 1 else 0) l) = pick (charge cfg s o l).
Proof.
  intros cfg s o l g pick Hnd Hg H0. unfold charge, adding.
  destruct o; try (rewrite H0; apply zsum_map_zero; intros; reflexivity).
  destruct (count (fst (step isort cfg s (Connected p c))) =? count s + 1) eqn:Ec.
  - transitivity (zsum (map (fun e => if Nat.eqb (ce_p e) p && g e then 1 else 0) l)).
    + f_equal. apply map_ext. intros e. rewrite andb_true_r, (Nat.eqb_sym p (ce_p e)). reflexivity.
    + rewrite zsum_indicator by exact Hnd. destruct (find _ l) as [e0|]; [|symmetry; exact H0].
      symmetry. rewrite <- Hg. destruct (ce_live e0), (ce_done e0); reflexivity.
  - rewrite H0. apply zsum_map_zero. intros e _. rewrite andb_false_r. reflexivity.
Qed.

Lemma aop_sums : forall cfg s o l sel, inv s -> is_trim o = false -> NoDup (map ce_p l) ->
  let s' := fst (step isort cfg s o) in
  dsum s' sel (relive s' l) <= dsum s sel l + fst (charge cfg s o l)
  /\ usum s' (relive s' l) <= usum s l + snd (charge cfg s o l).
Proof.
  intros cfg s o l sel Hinv Ho Hnd s'. split.
  - unfold dsum, relive. rewrite map_map.
    rewrite <- (charge_sum cfg s o l (fun e => ce_live e && ce_done e) fst Hnd);
      [|intros e; destruct (ce_live e), (ce_done e); reflexivity|reflexivity].
    change (fun x => dterm s' sel (mkCE (ce_p x) (ce_live x && tracked s' (ce_p x)) (ce_done x) (ce_first x)))
      with (fun x => dterm s' sel (relive_e s' x)).
    induction l as [|e r IH]; cbn [map zsum]; [lia|]. inversion Hnd; subst.
    pose proof (dterm_step cfg s o sel e Hinv Ho) as Ht. cbv zeta in Ht. fold s' in Ht. specialize (IH H2). lia.
  - unfold usum, relive. rewrite map_map.
    rewrite <- (charge_sum cfg s o l (fun e => ce_live e && negb (ce_done e)) snd Hnd);
      [|intros e; destruct (ce_live e), (ce_done e); reflexivity|reflexivity].
    change (fun x => uterm s' (mkCE (ce_p x) (ce_live x && tracked s' (ce_p x)) (ce_done x) (ce_first x)))
      with (fun x => uterm s' (relive_e s' x)).
    induction l as [|e r IH]; cbn [map zsum]; [lia|]. inversion Hnd; subst.
    pose proof (uterm_step cfg s o e Hinv Ho) as Ht. cbv zeta in Ht. fold s' in Ht. specialize (IH H2). lia.
Qed.

(* C14 — the registry LTS: a registered, unclosed tag is in knownTags after
   every step (so the tick visits it). *)
From Coq Require Import List Arith Bool Lia.
From Verif Require Import c14.Model c14.Proofs c14.Registry.
Import ListNotations.

Lemma tag_mem_In : forall x l, tag_mem x l = true <-> In x l.
Proof.
  intros [n g] l. unfold tag_mem. rewrite existsb_exists. split.
  - intros [[m h] [Hin He]]. unfold tag_eqb in He. cbn in He. apply andb_true_iff in He. destruct He as [A B].
    apply Nat.eqb_eq in A, B. subst. exact Hin.
  - intros H. exists (n, g). split; [exact H|]. unfold tag_eqb. cbn. rewrite !Nat.eqb_refl. reflexivity.
Qed.

Lemma NoDup_app_remove_end : forall (l : list tagobj) x, NoDup l -> ~ In x l -> NoDup (l ++ [x]).
Proof.
  induction l as [|y r IH]; intros x Hnd Hx; cbn [app]; [constructor; [intros []|constructor]|].
  inversion Hnd; subst. constructor.
  - intros Hin. apply in_app_or in Hin. destruct Hin as [Hin|[->|[]]]; [contradiction|]. apply Hx. left. reflexivity.
  - apply IH; [assumption|]. intros Hin. apply Hx. right. exact Hin.
Qed.

Record RInv (r : rstate) : Prop := mkRInv {
  ri_known_all : forall n g, known_of r n = Some g -> In (n, g) (r_all r);
  ri_live_known : forall n g, In (n, g) (r_all r) -> ~ In (n, g) (r_closed r) -> known_of r n = Some g;
  ri_queue : forall n g, In (n, g) (r_queue r) -> In (n, g) (r_closed r) /\ known_of r n = Some g;
  ri_nodup : NoDup (r_queue r);
  ri_gen : forall n g, In (n, g) (r_all r) -> g < r_next r
}.

Lemma known_upd : forall r n x m, get None (upd None (r_known r) n x) m = if Nat.eqb n m then x else known_of r m.
Proof. intros. unfold known_of. apply get_upd. Qed.

Lemma rinv_init : RInv rinit.
Proof. constructor; cbn; try (intros; contradiction); try constructor. intros n g H. unfold known_of in H. cbn in H. destruct n; discriminate. Qed.

Lemma rinv_step : forall r a, RInv r -> RInv (rstep false r a).
Proof.
  intros r a [H1 H2 H3 H4 H5]. destruct a as [n|n g|]; cbn [rstep].
  - destruct (known_of r n) as [g0|] eqn:Ek; [constructor; assumption|].
    constructor; unfold known_of; cbn [r_known r_closed r_queue r_next r_all].
    + intros m g. rewrite known_upd. destruct (Nat.eqb n m) eqn:E.
      * apply Nat.eqb_eq in E. subst m. intros Hs. inversion Hs; subst. left. reflexivity.
      * intros Hs. right. apply H1. exact Hs.
    + intros m g [Heq|Hin] Hnc; rewrite known_upd.
      * inversion Heq; subst. rewrite Nat.eqb_refl. reflexivity.
      * destruct (Nat.eqb n m) eqn:E; [|apply H2; assumption].
        apply Nat.eqb_eq in E. subst m. rewrite (H2 n g Hin Hnc) in Ek. discriminate.
    + intros m g Hq. destruct (H3 m g Hq) as [A B]. split; [exact A|]. rewrite known_upd.
      destruct (Nat.eqb n m) eqn:E; [|exact B]. apply Nat.eqb_eq in E. subst m. rewrite B in Ek. discriminate.
    + exact H4.
    + intros m g [Heq|Hin]; [inversion Heq; subst; lia|]. specialize (H5 m g Hin). lia.
  - destruct (tag_mem (n, g) (r_all r) && negb (tag_mem (n, g) (r_closed r))) eqn:Ec; [|constructor; assumption].
    apply andb_true_iff in Ec. destruct Ec as [Ea Enc]. apply tag_mem_In in Ea.
    assert (Hnc : ~ In (n, g) (r_closed r)) by (intros Hc; apply tag_mem_In in Hc; rewrite Hc in Enc; discriminate).
    constructor; unfold known_of; cbn [r_known r_closed r_queue r_next r_all].
    + exact H1.
    + intros m h Hin Hn. apply H2; [exact Hin|]. intros Hc. apply Hn. right. exact Hc.
    + intros m h Hq. apply in_app_or in Hq. destruct Hq as [Hq|[Heq|[]]].
      * destruct (H3 m h Hq) as [A B]. split; [right; exact A|exact B].
      * inversion Heq; subst. split; [left; reflexivity|]. apply H2; assumption.
    + apply NoDup_app_remove_end. exact H4. intros Hq. apply Hnc. exact (proj1 (H3 n g Hq)).
    + exact H5.
  - destruct (r_queue r) as [|[n g] q] eqn:Eq; [constructor; try assumption; rewrite Eq; assumption|].
    destruct (H3 n g) as [Hcl Hk]; [left; reflexivity|].
    inversion H4 as [|? ? Hnq Hndq]; subst.
    constructor; unfold known_of; cbn [r_known r_closed r_queue r_next r_all].
    + intros m h. rewrite known_upd. destruct (Nat.eqb n m); [discriminate|apply H1].
    + intros m h Hin Hnc. rewrite known_upd. destruct (Nat.eqb n m) eqn:E; [|apply H2; assumption].
      apply Nat.eqb_eq in E. subst m. pose proof (H2 n h Hin Hnc) as Hk'. unfold known_of in Hk, Hk'. rewrite Hk in Hk'.
      inversion Hk'; subst. contradiction.
    + intros m h Hq. destruct (H3 m h) as [A B]; [right; exact Hq|]. split; [exact A|].
      rewrite known_upd. destruct (Nat.eqb n m) eqn:E; [|exact B]. apply Nat.eqb_eq in E. subst m.
      unfold known_of in Hk, B. rewrite Hk in B. inversion B; subst. contradiction.
    + exact Hndq.
    + exact H5.
Qed.

Lemma rinv_run : forall l r, RInv r -> RInv (rrun false r l).
Proof. induction l as [|a l IH]; intros r H; cbn; [exact H|]. apply IH, rinv_step, H. Qed.

(* C14 — the monitor for CONCURRENT traces: event traces of the LTS of Conc.v
   (and of the implementation's scripted during-trim interleavings, rendered
   in the same alphabet by the decoder below).  It keeps the cache-free
   bookkeeping of Spec.v (what the operations delivered so far imply) and, for
   the trim in flight, which peers were snapshotted as candidates, and judges
   the closed set of every trim by exactly these clauses:
     (a) [31] no closed connection belongs to a peer that was protected when
              the trim snapshotted it (the protection table cannot change
              while the snapshot phase holds plk; a Protect AFTER the snapshot
              does not save the peer: that is what the code guarantees),
     (b) [32] ... to a peer inside its grace period when snapshotted,
         [37] ... to a candidate that is inside its grace period when it is
              closed (an early-tagged candidate whose first Connected arrived
              after the snapshot restarts its grace period: the selection loop
              re-checks firstSeen),
         [30] ... to a peer that was not snapshotted at all,
     (c) [34] when the trim went ahead, the connections left on the live
              candidates that are still out of grace number at most low + the connections that Connected
              added to a live candidate after its snapshot; [33] a trim that
              found the count at or below the low watermark closes nothing,
     (d) [36] a value read by the sort's comparator equals the peer's tag total
              at that moment,
   plus [3]/[4] count and totals at the observation points (see the decoder),
   [35] a pruned entry holds no connection.  No proofs here. *)
From Coq Require Import List Arith ZArith Bool.
From Verif Require Import lib.Wire c14.Model c14.Spec c14.Conc.
Import ListNotations.
Local Open Scope Z_scope.

Record cmst := mkCM {
  m_a : astate;
  m_tick : option (list (Z * bool) * Z);
  m_active : bool;
  m_proceed : bool;
  m_gstart : Z;
  m_cands : list (nat * bool);       (* snapshotted as candidate; still the same peer entry *)
  m_bad : list (nat * Z);            (* snapshotted but protected (31) / in grace (32): diagnostics only *)
  m_added : Z
}.

Definition cm_init (a : astate) : cmst := mkCM a None false false 0 [] [] 0.

Definition a_set_now (a : astate) (t : Z) : astate := mkAS (a_peers a) (a_prot a) t (a_dst a).

Definition atick_peer (vs : list (Z * bool)) (a : astate) (p : nat) : astate :=
  let x := ap_at a p in
  if a_known x
  then aset a p (mkAP true (a_first x) (a_tags x) (fst (decay_tags vs (a_dec x))) (a_conns x))
  else a.

Definition m_relive (a : astate) (l : list (nat * bool)) : list (nat * bool) :=
  map (fun e : nat * bool => (fst e, snd e && a_known (ap_at a (fst e)))) l.

Definition m_has_live (p : nat) (l : list (nat * bool)) : bool :=
  match find (fun e : nat * bool => Nat.eqb (fst e) p) l with Some e => snd e | None => false end.

(* connections left on the live candidates that are still out of grace (a
   candidate whose grace period restarted after its snapshot - an early-tagged
   peer that connected meanwhile - is no longer eligible and is left alone) *)
Definition m_remaining (a : astate) (g : Z) (l : list (nat * bool)) (cl : list (nat * nat)) : Z :=
  zsum (map (fun e : nat * bool =>
               if snd e && (a_first (ap_at a (fst e)) <=? g) then remaining_of a cl (fst e) else 0) l).

(* (b) at full strength: a closed connection of a candidate that is still the
   same peer entry belongs to a peer that is out of grace *)
Definition closed_out_of_grace (a : astate) (g : Z) (l : list (nat * bool)) (cl : list (nat * nat)) : bool :=
  forallb (fun pc : nat * nat =>
             match find (fun e : nat * bool => Nat.eqb (fst e) (fst pc)) l with
             | Some e => negb (snd e) || (a_first (ap_at a (fst pc)) <=? g)
             | None => true
             end) cl.

Fixpoint lookup_code (p : nat) (l : list (nat * Z)) : Z :=
  match l with
  | [] => 30
  | (q, c) :: r => if Nat.eqb p q then c else lookup_code p r
  end.

(* first closed connection whose peer was not snapshotted as a candidate *)
Fixpoint closed_code (cands : list (nat * bool)) (bad : list (nat * Z)) (cl : list (nat * nat)) : Z :=
  match cl with
  | [] => 0
  | (p, _) :: r =>
      if existsb (fun e : nat * bool => Nat.eqb (fst e) p) cands then closed_code cands bad r
      else lookup_code p bad
  end.

Definition with_a (m : cmst) (a : astate) : cmst :=
  mkCM a (m_tick m) (m_active m) (m_proceed m) (m_gstart m) (m_cands m) (m_bad m) (m_added m).

Definition cmon_step (cfg : config) (m : cmst) (ev : event) : cmst + Z :=
  let a := m_a m in
  match ev with
  | EOp o =>
      match o with
      | Trim | ForceTrim => inr 40
      | _ =>
          let a' := astep cfg a o in
          let added' :=
            match o with
            | Connected p _ => if (acount a' =? acount a + 1) && m_has_live p (m_cands m)
                               then m_added m + 1 else m_added m
            | _ => m_added m
            end in
          inl (mkCM a' (m_tick m) (m_active m) (m_proceed m) (m_gstart m) (m_relive a' (m_cands m))
                    (m_bad m) added')
      end
  | EForce cl =>
      if m_active m then inr 42
      else if force_code cfg a cl =? 0
           then inl (mkCM a (m_tick m) (m_active m) (m_proceed m) (m_gstart m) (m_relive a (m_cands m)) (m_bad m) (m_added m))
           else inr (force_code cfg a cl)
  | EClock =>
      let t := a_now a + 1 in
      let tk := match m_tick m with
                | None => if (t mod c_res cfg) =? 0 then Some (visits cfg (a_dst a) t, t) else None
                | Some x => Some x
                end in
      inl (mkCM (a_set_now a t) tk (m_active m) (m_proceed m) (m_gstart m) (m_cands m) (m_bad m) (m_added m))
  | ETickPeer p =>
      match m_tick m with
      | Some (vs, _) => inl (with_a m (atick_peer vs a p))
      | None => inr 41
      end
  | ETickEnd =>
      match m_tick m with
      | Some (_, t) =>
          inl (mkCM (mkAS (a_peers a) (a_prot a) (a_now a) (next_ticks cfg (a_dst a) t)) None
                    (m_active m) (m_proceed m) (m_gstart m) (m_cands m) (m_bad m) (m_added m))
      | None => inr 41
      end
  | ETrimBegin =>
      if m_active m then inr 42
      else inl (mkCM a (m_tick m) true (negb (disabled cfg) && negb (acount a <=? c_low cfg))
                     (a_now a - c_grace cfg) [] [] 0)
  | ESnap p =>
      let x := ap_at a p in
      if negb (a_known x) then inl m
      else if is_prot (a_prot a) p then
        inl (mkCM a (m_tick m) (m_active m) (m_proceed m) (m_gstart m) (m_cands m) ((p, 31) :: m_bad m) (m_added m))
      else if negb (a_first x <=? m_gstart m) then
        inl (mkCM a (m_tick m) (m_active m) (m_proceed m) (m_gstart m) (m_cands m) ((p, 32) :: m_bad m) (m_added m))
      else
        inl (mkCM a (m_tick m) (m_active m) (m_proceed m) (m_gstart m) (m_cands m ++ [(p, true)]) (m_bad m) (m_added m))
  | ESnapEnd => inl m
  | EPrune p =>
      let x := ap_at a p in
      if a_known x && is_nil (a_conns x) then
        let a' := aset a p noap in
        inl (mkCM a' (m_tick m) (m_active m) (m_proceed m) (m_gstart m) (m_relive a' (m_cands m)) (m_bad m) (m_added m))
      else inr 35
  | EClosed cl =>
      if negb (closed_code (m_cands m) (m_bad m) cl =? 0) then inr (closed_code (m_cands m) (m_bad m) cl)
      else if negb (closed_out_of_grace a (m_gstart m) (m_cands m) cl) then inr 37
      else if negb (m_proceed m) && negb (is_nil cl) then inr 33
      else if m_proceed m && negb (m_remaining a (m_gstart m) (m_cands m) cl <=? Z.max 0 (c_low cfg) + m_added m) then inr 34
      else inl (mkCM a (m_tick m) false (m_proceed m) (m_gstart m) (m_cands m) (m_bad m) (m_added m))
  | ERead p v =>
      let x := ap_at a p in
      if a_known x && negb (v =? total x) then inr 36 else inl m
  end.

Fixpoint cmon (cfg : config) (m : cmst) (i : Z) (evs : list event) : cmst + list Z :=
  match evs with
  | [] => inl m
  | e :: r =>
      match cmon_step cfg m e with
      | inl m' => cmon cfg m' (i + 1) r
      | inr code => inr [ERR_PROPERTY; i; code]
      end
  end.

(* ---- the implementation's scripted during-trim interleavings, in the event
        alphabet ---------------------------------------------------------------
   A during-trim case (wire kind 2, see Spec.v) is: a sequential prefix, then
   TrimOpenConns inside which - after its complete candidate snapshot - the
   script's operations took their critical sections, then the closes.  That is
   the LTS schedule  ABegin, ASnap p for every peer, ASnapEnd, <sort>, AOp
   script.., <selection>, AFinish, whose events the monitor judges; the entries
   the implementation reports as pruned are rendered as EPrune events. *)
Definition reindex (i : Z) (d : list Z) : list Z :=
  match d with [e; _; c] => [e; i; c] | _ => d end.

Definition monitor_during2 (cfg : config) (np : nat) (pre : list (op * obs)) (ev : Z * list op * list nat)
           (x : obs) (post : list (op * obs)) : list Z :=
  let '(hp, script, pruned) := ev in
  match mon_prefix cfg np (ainit cfg) 0 pre with
  | inr d => d
  | inl (a0, i) =>
      (* hook point 1: ... snapshot, SCRIPT, selection (prunes), closes;
         hook point 2: ... snapshot, selection (prunes), SCRIPT, closes *)
      let head := [ETrimBegin] ++ map ESnap (seq 0 np) ++ [ESnapEnd] in
      let mid := if hp =? 2 then map EPrune pruned ++ map EOp script else map EOp script in
      match cmon cfg (cm_init a0) i (head ++ mid) with
      | inr d => reindex i d
      | inl m1 =>
          let late_pruned :=
            if hp =? 2 then []
            else filter (fun p => let a := ap_at (m_a m1) p in
                                  a_known a && is_nil (a_conns a)
                                  && negb (fst (fst (nth p (o_peers x) (true, 0, 0)))))
                        (seq 0 np) in
          match cmon cfg m1 i (map EPrune late_pruned ++ [EClosed (o_closed x)]) with
          | inr d => reindex i d
          | inl m2 =>
              let a2 := m_a m2 in
              (* hook point 2: the selection was over before the script ran, so
                 the closed set must also satisfy the sequential clauses *)
              if (hp =? 2) && negb (trim_code cfg a0 (o_closed x) =? 0) then [ERR_PROPERTY; i; trim_code cfg a0 (o_closed x)]
              else if negb (o_count x =? acount a2) then [ERR_PROPERTY; i; 3]
              else if negb (list_eqb pobs_eqb (o_peers x) (map (expect_peer a2) (seq 0 np))) then [ERR_PROPERTY; i; 4]
              else mon_run cfg np a2 (i + 1) post
          end
      end
  end.

Definition conform_case_k2 (l : list Z) : list Z := conform_case_seq l.

Definition monitor_case_k2 (l : list Z) : list Z :=
  match l with
  | 2 :: _ =>
      match decode_during l with
      | Some (cfg, np, pre, ev, x, post) => monitor_during2 cfg np pre ev x post
      | None => [ERR_MALFORMED; 2]
      end
  | _ => monitor_case_seq l
  end.

(* C14 — lemmas. *)
From Coq Require Import List Arith ZArith Bool Lia.
From Verif Require Import lib.Wire c14.Model c14.Spec.
Import ListNotations.
Local Open Scope Z_scope.

Lemma zsum_upd : forall l i x, zsum (upd 0 l i x) = zsum l - get 0 l i + x.
Proof.
  unfold get. induction l as [|y r IH]; intros i x.
  - induction i as [|j IHj]; cbn [upd zsum nth] in *; [lia|].
    rewrite IHj. destruct j; cbn; lia.
  - destruct i as [|j]; cbn [upd zsum nth]; [lia|]. rewrite IH. lia.
Qed.

(* C14 — basic lemmas: lists as total maps, sums, and the model invariant
   (cached value = sum of the tag values, cached count = number of tracked
   connections, temp flag coherent with the connections). *)
From Coq Require Import List Arith ZArith Bool Lia.
From Verif Require Import lib.Wire c14.Model c14.Spec.
Import ListNotations.
Local Open Scope Z_scope.

(* ---- upd / get ----------------------------------------------------------------- *)
Lemma upd_nil_get : forall {A} (d x : A) i j, get d (upd d [] i x) j = if Nat.eqb i j then x else d.
Proof.
  unfold get. intros A d x. induction i as [|i IH]; intros j; cbn [upd].
  - destruct j as [|[|j]]; reflexivity.
  - destruct j as [|j]; [reflexivity|]. cbn [nth Nat.eqb]. apply IH.
Qed.

Lemma get_upd : forall {A} (d : A) l i x j,
  get d (upd d l i x) j = if Nat.eqb i j then x else get d l j.
Proof.
  intros A d. induction l as [|y r IH]; intros i x j.
  - rewrite upd_nil_get. destruct (Nat.eqb i j); [reflexivity|]. unfold get. destruct j; reflexivity.
  - destruct i as [|i]; destruct j as [|j]; cbn [upd Nat.eqb]; try reflexivity.
    unfold get in *. cbn [nth]. apply IH.
Qed.

Lemma get_upd_same : forall {A} (d : A) l i x, get d (upd d l i x) i = x.
Proof. intros. rewrite get_upd, Nat.eqb_refl. reflexivity. Qed.

Lemma get_upd_other : forall {A} (d : A) l i x j, i <> j -> get d (upd d l i x) j = get d l j.
Proof. intros A d l i x j H. rewrite get_upd. apply Nat.eqb_neq in H. rewrite H. reflexivity. Qed.

Lemma zsum_upd : forall l i x, zsum (upd 0 l i x) = zsum l - get 0 l i + x.
Proof.
  unfold get. induction l as [|y r IH]; intros i x.
  - induction i as [|j IHj]; cbn [upd zsum nth] in *; [lia|].
    rewrite IHj. destruct j; cbn; lia.
  - destruct i as [|j]; cbn [upd zsum nth]; [lia|]. rewrite IH. lia.
Qed.

Lemma zsum_map_upd : forall {A} (f : A -> Z) (d : A) l i x, f d = 0 ->
  zsum (map f (upd d l i x)) = zsum (map f l) - f (get d l i) + f x.
Proof.
  unfold get. intros A f d l i x Hd. revert i. induction l as [|y r IH]; intros i.
  - induction i as [|j IHj]; cbn [upd map zsum nth] in *; [lia|].
    rewrite IHj. destruct j; cbn; lia.
  - destruct i as [|j]; cbn [upd map zsum nth]; [lia|]. rewrite IH. lia.
Qed.

Lemma Forall_upd : forall {A} (P : A -> Prop) (d : A) l i x,
  P d -> P x -> Forall P l -> Forall P (upd d l i x).
Proof.
  intros A P d l i x Hd Hx. revert i. induction l as [|y r IH]; intros i H.
  - induction i as [|j IHj]; cbn [upd]; constructor; auto.
  - inversion H; subst. destruct i as [|j]; cbn [upd]; constructor; auto.
Qed.

Lemma Forall_get : forall {A} (P : A -> Prop) (d : A) l i, P d -> Forall P l -> P (get d l i).
Proof.
  unfold get. intros A P d l i Hd H. revert i. induction H as [|y r Hy Hr IH]; intros i.
  - destruct i; exact Hd.
  - destruct i as [|j]; cbn [nth]; auto.
Qed.

Lemma length_upd : forall {A} (d : A) l i x, length (upd d l i x) = Nat.max (length l) (S i).
Proof.
  intros A d. induction l as [|y r IH]; intros i x.
  - induction i as [|j IHj]; cbn [upd length] in *; [reflexivity|]. rewrite IHj. reflexivity.
  - destruct i as [|j]; cbn [upd length]; [lia|]. rewrite IH. lia.
Qed.

Lemma map_upd : forall {A B} (f : A -> B) (d : A) l i x,
  map f (upd d l i x) = upd (f d) (map f l) i (f x).
Proof.
  intros A B f d. induction l as [|y r IH]; intros i x.
  - induction i as [|j IHj]; cbn [upd map] in *; [reflexivity|]. rewrite IHj. reflexivity.
  - destruct i as [|j]; cbn [upd map]; [reflexivity|]. rewrite IH. reflexivity.
Qed.

Lemma get_map : forall {A B} (f : A -> B) (d : A) l i, get (f d) (map f l) i = f (get d l i).
Proof. intros. unfold get. apply map_nth. Qed.

(* ---- rem1 / memn ---------------------------------------------------------------- *)
Lemma rem1_length : forall c l, memn c l = true -> zlen (rem1 c l) = zlen l - 1.
Proof.
  unfold zlen. induction l as [|y r IH]; cbn [memn rem1 length]; intros H; [discriminate|].
  destruct (Nat.eqb c y); [lia|]. cbn [orb] in H. cbn [length]. specialize (IH H). lia.
Qed.

(* ---- decay_tags ------------------------------------------------------------------- *)
Lemma decay_tags_sum : forall vs dec,
  zsum (fst (decay_tags vs dec)) = zsum dec + snd (decay_tags vs dec).
Proof.
  intros vs dec. revert vs. induction dec as [|v r IH]; intros vs; [destruct vs; cbn; lia|].
  destruct vs as [|[k b] vr]; [cbn; lia|].
  cbn [decay_tags]. specialize (IH vr). destruct (decay_tags vr r) as [r' dl].
  cbn [fst snd] in IH. destruct b; cbn [fst snd zsum]; lia.
Qed.

(* ---- the invariant ------------------------------------------------------------------ *)
Definition peer_ok (pi : peer) : Prop :=
  (p_tracked pi = false -> pi = nopeer)
  /\ p_value pi = zsum (p_tags pi) + zsum (p_dec pi)
  /\ (p_tracked pi = true -> p_temp pi = is_nil (p_conns pi)).

Definition conn_total (ps : list peer) : Z := zsum (map (fun pi => zlen (p_conns pi)) ps).

Definition inv (s : state) : Prop :=
  Forall peer_ok (peers s) /\ count s = conn_total (peers s).

Lemma nopeer_ok : peer_ok nopeer.
Proof. repeat split; intros; try reflexivity; discriminate. Qed.

Lemma peer_at_ok : forall s p, inv s -> peer_ok (peer_at s p).
Proof. intros s p [H _]. unfold peer_at. apply Forall_get; [apply nopeer_ok|exact H]. Qed.

Lemma tag_info_for_ok : forall t pi, peer_ok pi -> peer_ok (tag_info_for t pi).
Proof.
  intros t pi H. unfold tag_info_for. destruct (p_tracked pi); [exact H|].
  repeat split; intros; cbn in *; try reflexivity; discriminate.
Qed.

Lemma tag_info_for_tracked : forall t pi, p_tracked (tag_info_for t pi) = true.
Proof. intros. unfold tag_info_for. destruct (p_tracked pi) eqn:E; [exact E|reflexivity]. Qed.

Lemma tag_info_for_conns : forall t pi, peer_ok pi -> p_conns (tag_info_for t pi) = p_conns pi.
Proof.
  intros t pi H. unfold tag_info_for. destruct (p_tracked pi) eqn:E; [reflexivity|].
  destruct H as [H _]. rewrite (H E). reflexivity.
Qed.

Lemma inv_set_peer : forall s p pi, inv s -> peer_ok pi ->
  zlen (p_conns pi) = zlen (p_conns (peer_at s p)) ->
  inv (set_peer s p pi).
Proof.
  intros s p pi [HF HC] Hp Hl. split; cbn [set_peer peers count].
  - apply Forall_upd; [apply nopeer_ok|exact Hp|exact HF].
  - unfold conn_total. rewrite (zsum_map_upd (fun pi => zlen (p_conns pi))); [|reflexivity].
    unfold peer_at in Hl. unfold conn_total in HC. lia.
Qed.

Lemma inv_set_peer_count : forall s p pi k, inv s -> peer_ok pi ->
  zlen (p_conns pi) = zlen (p_conns (peer_at s p)) + k ->
  inv (set_count (set_peer s p pi) (count s + k)).
Proof.
  intros s p pi k [HF HC] Hp Hl. split; cbn [set_count set_peer peers count].
  - apply Forall_upd; [apply nopeer_ok|exact Hp|exact HF].
  - unfold conn_total. rewrite (zsum_map_upd (fun pi => zlen (p_conns pi))); [|reflexivity].
    unfold peer_at in Hl. unfold conn_total in HC. lia.
Qed.

Lemma inv_connected : forall s p c, inv s -> inv (connected s p c).
Proof.
  intros s p c H. pose proof (peer_at_ok s p H) as [Hu [Hv Ht]]. unfold connected.
  destruct (p_tracked (peer_at s p)) eqn:Etr; cbn [negb].
  - destruct (p_temp (peer_at s p)) eqn:Etmp.
    + (* temp entry: conns = [] *)
      specialize (Ht eq_refl). destruct (p_conns (peer_at s p)) eqn:Ec; [|discriminate].
      cbn [p_conns memn with_conns]. 
      replace (count s + 1) with (count s + 1) by reflexivity.
      apply inv_set_peer_count; [exact H| |rewrite Ec; reflexivity].
      repeat split; cbn; intros; try discriminate; try assumption; reflexivity.
    + destruct (memn c (p_conns (peer_at s p))) eqn:Em.
      * apply inv_set_peer; [exact H|apply peer_at_ok, H|reflexivity].
      * apply inv_set_peer_count; [exact H| |unfold zlen; cbn [with_conns p_conns length]; lia].
        unfold with_conns. repeat split; cbn; intros; try discriminate; try congruence; try assumption.

  - cbn [p_conns memn].
    apply inv_set_peer_count; [exact H| |rewrite (Hu eq_refl); reflexivity].
    unfold with_conns. repeat split; cbn; intros; try discriminate; reflexivity.
Qed.

Lemma inv_disconnected : forall s p c, inv s -> inv (disconnected s p c).
Proof.
  intros s p c H. pose proof (peer_at_ok s p H) as [Hu [Hv Ht]]. unfold disconnected.
  destruct (p_tracked (peer_at s p)) eqn:Etr; cbn [negb]; [|exact H].
  destruct (memn c (p_conns (peer_at s p))) eqn:Em; cbn [negb]; [|exact H].
  pose proof (rem1_length c _ Em) as Hl.
  replace (count s - 1) with (count s + (-1)) by lia.
  destruct (rem1 c (p_conns (peer_at s p))) eqn:Er; cbn [is_nil].
  - apply inv_set_peer_count; [exact H|apply nopeer_ok|]. cbn [nopeer p_conns]. unfold zlen in *. cbn [length] in *. lia.
  - apply inv_set_peer_count; [exact H| |cbn [with_conns p_conns]; lia].
    unfold with_conns. repeat split; cbn; intros; try discriminate; try congruence; try assumption.
    specialize (Ht eq_refl). rewrite Ht. destruct (p_conns (peer_at s p)); [discriminate Em|reflexivity].
Qed.

(* tag-like updates of one peer entry *)
Lemma with_tags_ok : forall pi tags v, peer_ok pi -> p_tracked pi = true ->
  v = zsum tags + zsum (p_dec pi) -> peer_ok (with_tags pi tags v).
Proof.
  intros pi tags v [Hu [Hv Ht]] Etr Hval. repeat split; cbn; intros; try congruence. auto.
Qed.

Lemma with_dec_ok : forall pi dec v, peer_ok pi -> p_tracked pi = true ->
  v = zsum (p_tags pi) + zsum dec -> peer_ok (with_dec pi dec v).
Proof.
  intros pi dec v [Hu [Hv Ht]] Etr Hval. repeat split; cbn; intros; try congruence. auto.
Qed.

Lemma inv_tagged : forall s p pi', inv s -> peer_ok pi' ->
  p_conns pi' = p_conns (peer_at s p) -> inv (set_peer s p pi').
Proof. intros. apply inv_set_peer; auto. congruence. Qed.

Lemma inv_tag_peer : forall s p t v, inv s -> inv (tag_peer s p t v).
Proof.
  intros s p t v H. pose proof (peer_at_ok s p H) as Hp. unfold tag_peer.
  set (pi := tag_info_for (now s) (peer_at s p)).
  pose proof (tag_info_for_ok (now s) _ Hp) as Hpi. fold pi in Hpi.
  apply inv_tagged; [exact H| |cbn [with_tags p_conns]; apply tag_info_for_conns, Hp].
  apply with_tags_ok; [exact Hpi|apply tag_info_for_tracked|].
  rewrite zsum_upd. destruct Hpi as [_ [Hv _]]. lia.
Qed.

Lemma inv_untag_peer : forall s p t, inv s -> inv (untag_peer s p t).
Proof.
  intros s p t H. pose proof (peer_at_ok s p H) as Hp. unfold untag_peer.
  destruct (p_tracked (peer_at s p)) eqn:Etr; cbn [negb]; [|exact H].
  apply inv_tagged; [exact H| |reflexivity].
  apply with_tags_ok; [exact Hp|exact Etr|]. rewrite zsum_upd. destruct Hp as [_ [Hv _]]. lia.
Qed.

Lemma inv_upsert_tag : forall s p t d, inv s -> inv (upsert_tag s p t d).
Proof.
  intros s p t d H. pose proof (peer_at_ok s p H) as Hp. unfold upsert_tag.
  set (pi := tag_info_for (now s) (peer_at s p)).
  pose proof (tag_info_for_ok (now s) _ Hp) as Hpi. fold pi in Hpi. cbv zeta.
  apply inv_tagged; [exact H| |cbn [with_tags p_conns]; apply tag_info_for_conns, Hp].
  apply with_tags_ok; [exact Hpi|apply tag_info_for_tracked|].
  rewrite zsum_upd. destruct Hpi as [_ [Hv _]]. lia.
Qed.

Lemma inv_bump : forall cfg s p d dl, inv s -> inv (bump cfg s p d dl).
Proof.
  intros cfg s p d dl H. pose proof (peer_at_ok s p H) as Hp. unfold bump.
  destruct (dtag_open cfg s d); cbn [negb]; [|exact H].
  set (pi := tag_info_for (now s) (peer_at s p)).
  pose proof (tag_info_for_ok (now s) _ Hp) as Hpi. fold pi in Hpi. cbv zeta.
  apply inv_tagged; [exact H| |cbn [with_dec p_conns]; apply tag_info_for_conns, Hp].
  apply with_dec_ok; [exact Hpi|apply tag_info_for_tracked|].
  rewrite zsum_upd. destruct Hpi as [_ [Hv _]]. lia.
Qed.

Lemma inv_dremove : forall cfg s p d, inv s -> inv (dremove cfg s p d).
Proof.
  intros cfg s p d H. pose proof (peer_at_ok s p H) as Hp. unfold dremove.
  destruct (dtag_open cfg s d); cbn [negb]; [|exact H].
  set (pi := tag_info_for (now s) (peer_at s p)).
  pose proof (tag_info_for_ok (now s) _ Hp) as Hpi. fold pi in Hpi. cbv zeta.
  apply inv_tagged; [exact H| |cbn [with_dec p_conns]; apply tag_info_for_conns, Hp].
  apply with_dec_ok; [exact Hpi|apply tag_info_for_tracked|].
  rewrite zsum_upd. destruct Hpi as [_ [Hv _]]. lia.
Qed.

(* operations that map over all peers without touching connections *)
Lemma inv_map_peers : forall (f : peer -> peer) ps,
  (forall pi, peer_ok pi -> peer_ok (f pi)) ->
  (forall pi, p_conns (f pi) = p_conns pi) ->
  Forall peer_ok ps -> Forall peer_ok (map f ps) /\ conn_total (map f ps) = conn_total ps.
Proof.
  intros f ps Hok Hc H. induction H as [|y r Hy Hr [IH1 IH2]]; [split; [constructor|reflexivity]|].
  split; [constructor; auto|]. unfold conn_total in *. cbn [map zsum]. rewrite Hc, IH2. reflexivity.
Qed.

Lemma inv_dclose : forall cfg s d, inv s -> inv (dclose cfg s d).
Proof.
  intros cfg s d [HF HC]. unfold dclose. destruct (negb _); [split; assumption|].
  match goal with |- inv (mkSt (map ?f _) _ _ _ _) => destruct (inv_map_peers f (peers s)) as [H1 H2] end.
  - intros pi Hp. destruct (p_tracked pi) eqn:Etr; [|exact Hp].
    apply with_dec_ok; [exact Hp|exact Etr|]. rewrite zsum_upd. destruct Hp as [_ [Hv _]]. lia.
  - intros pi. destruct (p_tracked pi); reflexivity.
  - exact HF.
  - split; cbn [peers count]; [exact H1|]. rewrite H2. exact HC.
Qed.

Lemma inv_dcloseq : forall cfg s d, inv s -> inv (dcloseq cfg s d).
Proof. intros cfg s d [HF HC]. unfold dcloseq. destruct (negb _); split; assumption. Qed.

Lemma inv_dregister : forall cfg s d acc, inv s -> inv (dregister cfg s d acc).
Proof. intros cfg s d acc [HF HC]. unfold dregister. destruct (_ && _); split; assumption. Qed.

Lemma inv_tick : forall cfg s t, inv s -> inv (tick cfg s t).
Proof.
  intros cfg s t [HF HC]. unfold tick. cbv zeta.
  match goal with |- inv (mkSt (map ?f _) _ _ _ _) => destruct (inv_map_peers f (peers s)) as [H1 H2] end.
  - intros pi Hp. destruct (p_tracked pi) eqn:Etr; [|exact Hp].
    pose proof (decay_tags_sum (visits cfg (dst s) t) (p_dec pi)) as Hs.
    destruct (decay_tags (visits cfg (dst s) t) (p_dec pi)) as [dec' dl]. cbn [fst snd] in Hs.
    apply with_dec_ok; [exact Hp|exact Etr|]. destruct Hp as [_ [Hv _]]. lia.
  - intros pi. destruct (p_tracked pi); [|reflexivity].
    destruct (decay_tags (visits cfg (dst s) t) (p_dec pi)). reflexivity.
  - exact HF.
  - split; cbn [peers count]; [exact H1|]. rewrite H2. exact HC.
Qed.

Lemma inv_unit_step : forall cfg s, inv s -> inv (unit_step cfg s).
Proof.
  intros cfg s H. unfold unit_step. cbv zeta. destruct (_ =? 0); [apply inv_tick, H|].
  destruct H as [HF HC]. split; assumption.
Qed.

Lemma inv_advance : forall cfg n s, inv s -> inv (advance cfg s n).
Proof. intros cfg. induction n as [|k IH]; intros s H; cbn [advance]; [exact H|]. apply IH, inv_unit_step, H. Qed.

Lemma inv_protect : forall s p g, inv s -> inv (protect s p g).
Proof. intros s p g [HF HC]. split; assumption. Qed.

Lemma inv_unprotect : forall s p g, inv s -> inv (unprotect s p g).
Proof. intros s p g [HF HC]. split; assumption. Qed.

(* pruning temporary entries: each pruned entry holds no connection *)
Lemma inv_prune : forall pr s, inv s ->
  (forall p, In p pr -> p_conns (peer_at s p) = []) ->
  inv (fold_left (fun s' p => set_peer s' p nopeer) pr s).
Proof.
  induction pr as [|p r IH]; intros s H Hc; cbn [fold_left]; [exact H|].
  apply IH.
  - apply inv_set_peer; [exact H|apply nopeer_ok|]. rewrite (Hc p (or_introl eq_refl)). reflexivity.
  - intros q Hq. unfold peer_at. cbn [set_peer peers]. rewrite get_upd.
    destruct (Nat.eqb p q); [reflexivity|]. apply Hc. right. exact Hq.
Qed.

(* C14 — proofs about the LTS, part 5: (d) what the comparator reads,
   (e) decayer sections against the trim's steps. *)
From Coq Require Import List Arith ZArith Bool Lia Permutation Sorted.
From Verif Require Import lib.Wire c14.Model c14.Spec c14.Proofs c14.Proofs_Abs c14.Proofs_Trim c14.Proofs_Main
     c14.Conc c14.SpecConc c14.ProofsConc c14.ProofsConc2 c14.ProofsConc3 c14.ProofsConc4.
Import ListNotations.
Local Open Scope Z_scope.

(* (d) a comparison reads, for each of its two peers, the cached value at one
   instant (its critical section), and that value is the peer's tag total at
   that instant: no torn value *)
Lemma cmp_reads : forall cfg cs p q cs' evs, CInv cfg cs -> cstep cfg cs (ACmp p q) = Some (cs', evs) ->
  cs' = cs /\ forall x v, In (ERead x v) evs ->
    v = zsum (p_tags (peer_at (cs_s cs) x)) + zsum (p_dec (peer_at (cs_s cs) x)).
Proof.
  intros cfg cs p q cs' evs H Hs. cbn [cstep] in Hs. destruct (cs_ph cs); try discriminate.
  injection Hs as Hc He. subst cs' evs. split; [reflexivity|]. intros x v Hin.
  assert (Hv : forall y, p_value (peer_at (cs_s cs) y) = zsum (p_tags (peer_at (cs_s cs) y)) + zsum (p_dec (peer_at (cs_s cs) y)))
    by (intros y; exact (proj1 (proj2 (peer_at_ok _ y (ci_inv _ _ H))))).
  apply in_app_or in Hin. destruct Hin as [Hin|Hin].
  - destruct (has_live p _); [|destruct Hin]. destruct Hin as [E|[]]. inversion E; subst. apply Hv.
  - destruct (has_live q _); [|destruct Hin]. destruct Hin as [E|[]]. inversion E; subst. apply Hv.
Qed.

(* (e) a trim reads nothing but tracked / temp / firstSeen / connections,
   protection, count and clock: erase every tag value and the trim's steps are
   the same steps *)
Definition erase_peer (pi : peer) : peer :=
  mkPeer (p_tracked pi) (p_temp pi) (p_first pi) [] [] 0 (p_conns pi).
Definition erase (s : state) : state := mkSt (map erase_peer (peers s)) (prot s) (count s) (now s) (dst s).
Definition erase_cs (cs : cstate) : cstate := with_s cs (erase (cs_s cs)).

Lemma peer_at_erase : forall s p, peer_at (erase s) p = erase_peer (peer_at s p).
Proof. intros. unfold peer_at, erase. cbn [peers]. change nopeer with (erase_peer nopeer) at 1. apply get_map. Qed.

Lemma erase_set_nopeer : forall s p, erase (set_peer s p nopeer) = set_peer (erase s) p nopeer.
Proof. intros. unfold erase, set_peer. cbn. rewrite map_upd. reflexivity. Qed.

Lemma relive_erase : forall s l, relive (erase s) l = relive s l.
Proof. intros. unfold relive. apply map_ext. intros e. unfold tracked. rewrite peer_at_erase. reflexivity. Qed.

Lemma forallb_ext' : forall {A} (f g : A -> bool) l, (forall x, f x = g x) -> forallb f l = forallb g l.
Proof. intros A f g l H. induction l as [|x r IH]; cbn [forallb]; [reflexivity|]. rewrite H, IH. reflexivity. Qed.

Lemma sweep_erase : forall s v l, sweep_done (erase s) v l = sweep_done s v l.
Proof.
  intros. unfold sweep_done. replace (length (peers (erase s))) with (length (peers s))
    by (unfold erase; cbn [peers]; rewrite map_length; reflexivity).
  apply forallb_ext'. intros p. unfold tracked. rewrite peer_at_erase. reflexivity.
Qed.

Definition is_trim_act (a : act) : bool :=
  match a with ABegin | ASnap _ | ASnapEnd | ASortEnd _ | ASelect | AFinish => true | _ => false end.

Lemma trim_steps_erase : forall cfg cs a, is_trim_act a = true ->
  cstep cfg (erase_cs cs) a =
  match cstep cfg cs a with Some (cs', evs) => Some (erase_cs cs', evs) | None => None end.
Proof.
  intros cfg cs a Ha. destruct a; try discriminate Ha; cbn [cstep erase_cs with_s cs_s cs_ph cs_gstart cs_psnap cs_cands
    cs_ncand cs_sel cs_added1 cs_added2 cs_late cs_dph].
  - destruct (negb (is_idle (cs_ph cs))); [reflexivity|]. cbn [erase count prot now].
    destruct (_ || _); reflexivity.
  - destruct (cs_ph cs); try reflexivity. destruct (memn p visited); [reflexivity|]. rewrite peer_at_erase.
    cbn [erase_peer p_tracked p_first p_conns erase prot]. reflexivity.
  - destruct (cs_ph cs); try reflexivity. rewrite sweep_erase. destruct (negb _); [reflexivity|].
    destruct (_ <? _); reflexivity.
  - destruct (cs_ph cs); try reflexivity. destruct (forallb _ _); reflexivity.
  - unfold select_step. cbn [erase_cs with_s cs_s cs_ph cs_gstart cs_psnap cs_cands cs_ncand cs_sel cs_added1 cs_added2 cs_late cs_dph].
    destruct (cs_ph cs) as [| | |todo tg|]; try reflexivity. destruct todo as [|p r]; [reflexivity|].
    destruct (tg <=? 0); [reflexivity|]. destruct (find _ _) as [e|]; [|reflexivity].
    destruct (negb (ce_live e)); [reflexivity|]. rewrite peer_at_erase. cbn [erase_peer p_conns p_temp p_first].
    destruct (true && (cs_gstart cs <? p_first (peer_at (cs_s cs) p))); [reflexivity|].
    destruct (is_nil (p_conns (peer_at (cs_s cs) p)) && p_temp (peer_at (cs_s cs) p)); [|reflexivity].
    unfold erase_cs, with_s. cbn [cs_s cs_ph cs_gstart cs_psnap cs_cands cs_ncand cs_sel cs_added1 cs_added2 cs_late cs_dph].
    rewrite erase_set_nopeer, <- erase_set_nopeer, relive_erase. reflexivity.
  - destruct (cs_ph cs); reflexivity.
Qed.

(* the decayer's critical sections on a tracked peer change tag values only *)
Lemma erase_set_tags_only : forall s p pi, p_tracked (peer_at s p) = true ->
  erase_peer pi = erase_peer (peer_at s p) -> erase (set_peer s p pi) = erase s.
Proof.
  intros s p pi Ht He. unfold erase, set_peer. cbn. f_equal. rewrite map_upd, He.
  change (erase_peer nopeer) with nopeer.
  replace (erase_peer (peer_at s p)) with (get nopeer (map erase_peer (peers s)) p)
    by (change nopeer with (erase_peer nopeer) at 1; apply get_map).
  apply upd_get_id. rewrite map_length. apply tracked_in_range, Ht.
Qed.

Lemma decayer_sections_erase : forall cfg s p,
  p_tracked (peer_at s p) = true ->
  (forall d dl, erase (bump cfg s p d dl) = erase s)
  /\ (forall d, erase (dremove cfg s p d) = erase s)
  /\ (forall vs, erase (set_peer s p (decay_peer vs (peer_at s p))) = erase s).
Proof.
  intros cfg s p Ht. repeat split.
  - intros d dl. unfold bump. destruct (negb _); [reflexivity|]. cbv zeta. apply erase_set_tags_only; [exact Ht|].
    unfold tag_info_for. rewrite Ht. reflexivity.
  - intros d. unfold dremove. destruct (negb _); [reflexivity|]. cbv zeta. apply erase_set_tags_only; [exact Ht|].
    unfold tag_info_for. rewrite Ht. reflexivity.
  - intros vs. apply erase_set_tags_only; [exact Ht|]. unfold decay_peer. destruct (decay_tags _ _). reflexivity.
Qed.

Lemma dclose_erase : forall cfg s d, peers (erase (dclose cfg s d)) = peers (erase s)
  /\ prot (dclose cfg s d) = prot s /\ count (dclose cfg s d) = count s /\ now (dclose cfg s d) = now s.
Proof.
  intros. unfold dclose. destruct (negb _); [repeat split|]. cbn. repeat split. rewrite map_map. apply map_ext.
  intros pi. destruct (p_tracked pi); reflexivity.
Qed.

(* C07 — stream protocol negotiation.  Executable model transcribed from
     /repo/p2p/host/basic/basic_host.go   NewStream, preferredProtocol, newStreamHandler,
                                          SetStreamHandler(Match), RemoveStreamHandler
     /repo/p2p/net/swarm/swarm_stream.go  Stream.SetProtocol (scope first, then record)
     rcmgr streamScope.SetProtocol        (the protocol-scope charge that can refuse)
   and the handler table of the multistream muxer as the host uses it
   (AddHandlerWithFunc = remove the entry of that name, append; findHandler =
   first entry whose match function accepts).  go-multistream's wire protocol is
   a trusted dependency: SelectOneOf / NewMSSelect enter as Section variables.
   No proofs in this file. *)
From Coq Require Import List ZArith Bool.
Import ListNotations.
Local Open Scope Z_scope.

Definition memz (x : Z) (l : list Z) : bool := existsb (Z.eqb x) l.

(* ---- listener: ordered handler table ------------------------------------- *)
(* protocol IDs are small integers; a match function is the finite set of IDs
   it accepts (SetStreamHandler p = match set [p]); h_reg identifies the closure
   (index of the registration call) *)
Record hent := mkH { h_name : Z; h_acc : list Z; h_reg : Z }.
Definition table := list hent.

(* MultistreamMuxer.removeHandler: first entry with that AddName *)
Fixpoint remove_handler (name : Z) (t : table) : table :=
  match t with
  | [] => []
  | h :: r => if h_name h =? name then r else h :: remove_handler name r
  end.

(* AddHandlerWithFunc *)
Definition add_handler (t : table) (name : Z) (acc : list Z) (reg : Z) : table :=
  remove_handler name t ++ [mkH name acc reg].

(* findHandler: in table order *)
Definition find_handler (t : table) (p : Z) : option hent :=
  find (fun h => memz p (h_acc h)) t.

Definition supports (t : table) (p : Z) : bool :=
  match find_handler t p with Some _ => true | None => false end.

Definition mux_protocols (t : table) : list Z := map h_name t.

(* ---- protocol scopes (stream counts per protocol) ------------------------ *)
Definition upd (f : Z -> Z) (p v : Z) : Z -> Z := fun q => if q =? p then v else f q.

(* streamScope.SetProtocol -> protocol scope ReserveForChild: refused when the
   count would exceed the limit; a negative limit is "unlimited" *)
Definition scope_try (lim cnt : Z -> Z) (p : Z) : option (Z -> Z) :=
  if (lim p <? 0) || (cnt p <? lim p) then Some (upd cnt p (cnt p + 1)) else None.

Definition scope_release (cnt : Z -> Z) (p : Z) : Z -> Z := upd cnt p (cnt p - 1).

(* c_limited: the one connection between the two hosts is a limited (relayed) one *)
(* c_rcmgr: the streams carry real resource-manager scopes (a second SetProtocol is refused) *)
(* c_blankD: the dialer is a BlankHost: NewStream always negotiates (no optimistic path) *)
Record cfg := mkCfg { limD : Z -> Z; limL : Z -> Z; c_limited : bool; c_rcmgr : bool; c_blankD : bool }.

(* what one open (NewStream + first use) shows:
   o_res   0 ok | 1 negotiation failed | 2 dialer's scope refused | 3 no protocols |
           4 reset by the listener during negotiation | 5 limited connection not allowed
   o_dp    Protocol() of the dialer's stream (-1: no stream)
   o_use   1 echo received | 0 first use failed | -1 no stream
   o_h, o_lp   registration index and Protocol() reported by the handler in the echo
   o_ninv, o_hreg, o_hlp   handlers that read this open's nonce: how many, which, on which protocol
   o_un    handlers that ran on this open's stream without getting its nonce *)
Record ores := mkO {
  o_res : Z; o_dp : Z; o_use : Z; o_h : Z; o_lp : Z;
  o_ninv : Z; o_hreg : Z; o_hlp : Z; o_un : list (Z * Z) }.

Definition fail_res (code : Z) : ores := mkO code (-1) (-1) (-1) (-1) 0 (-1) (-1) [].
Definition use_failed (p : Z) : ores := mkO 0 p 0 (-1) (-1) 0 (-1) (-1) [].
Definition obtained_res (p reg : Z) : ores := mkO 0 p 1 reg p 1 reg p [].

(* state threaded through the opens of one batch *)
Record bst := mkB {
  b_out : Z -> Z;            (* dialer: outbound streams per protocol scope *)
  b_in : Z -> Z;             (* listener: inbound streams per protocol scope *)
  b_add : list Z;            (* Peerstore().AddProtocols calls *)
  b_held : list (Z * Z);     (* streams both ends hold: slot, protocol *)
  b_nslot : Z }.

(* one NewStream call of a batch: the ordered request list, whether the context
   allows a limited connection, and the two parameters of the schedule that
   are not under the caller's control (see open1) *)
Record oreq := mkReq { q_reqs : list Z; q_extra : list Z; q_race : bool; q_allow : bool }.

Section MS.
  (* go-multistream, dialer side against the listener's muxer; [sup] = "the
     listener's muxer has a handler accepting this ID".
     ms_select = SelectOneOf (answered by Negotiate): the proposal that was
     acknowledged.  ms_lazy = NewMSSelect: does the handshake of the single
     optimistic proposal succeed when the stream is first used. *)
  Variable ms_select : (Z -> bool) -> list Z -> option Z.
  Variable ms_lazy : (Z -> bool) -> Z -> bool.

  (* BasicHost.NewStream followed by the first use of the stream, with the
     listener's newStreamHandler answering.  [kn]: the peerstore's knowledge
     when preferredProtocol reads it; [extra]: protocols added by concurrent
     opens of the same batch before that read (only IDs the listener
     supports can have been added); [race]: the listener's reset overtakes its
     acknowledgement (only matters when the listener's scope refuses);
     [allow]: the context allows a limited connection. *)
  (* BasicHost.preferredProtocol: the first requested ID the peerstore lists for
     the listener (BlankHost.NewStream does not look) *)
  Definition preferred (c : cfg) (t : table) (kn extra reqs : list Z) : option Z :=
    if c_blankD c then None
    else find (fun r => memz r kn || memz r (filter (supports t) extra)) reqs.

  Definition open1 (c : cfg) (t : table) (kn : list Z) (b : bst)
             (reqs extra : list Z) (race allow : bool) : bst * ores :=
    let sup := supports t in
    (* Swarm.NewStream / Conn.NewStream: a limited connection carries a new
       stream only for a context made with network.WithAllowLimitedConn *)
    if c_limited c && negb allow then (b, fail_res 5) else
    match preferred c t kn extra reqs with
    | Some p =>
        (* optimistic: SetProtocol(pref), lazy select *)
        match scope_try (limD c) (b_out b) p with
        | None => (b, fail_res 2)
        | Some out' =>
            match (if ms_lazy sup p then find_handler t p else None) with
            | Some h =>
                (* listener: Negotiate found h; SetProtocol before dispatch *)
                match scope_try (limL c) (b_in b) p with
                | Some in' =>
                    (mkB out' in' (b_add b) (b_held b ++ [(b_nslot b, p)]) (b_nslot b + 1),
                     obtained_res p (h_reg h))
                | None => (b, use_failed p)
                end
            | None => (b, use_failed p)
            end
        end
    | None =>
        match reqs with
        | [] => (b, fail_res 3)
        | _ :: _ =>
            match ms_select sup reqs with
            | None => (b, fail_res 1)
            | Some p =>
                match find_handler t p with
                | None => (b, fail_res 1)
                | Some h =>
                    match scope_try (limL c) (b_in b) p with
                    | None =>
                        (* listener acknowledged, then its scope refused: reset *)
                        if race then (b, fail_res 4)
                        else match scope_try (limD c) (b_out b) p with
                             | None => (b, fail_res 2)
                             | Some _ =>
                                 (mkB (b_out b) (b_in b) (b_add b ++ [p]) (b_held b) (b_nslot b),
                                  use_failed p)
                             end
                    | Some in' =>
                        match scope_try (limD c) (b_out b) p with
                        | None =>
                            (* dialer resets; the listener had dispatched already *)
                            (b, mkO 2 (-1) (-1) (-1) (-1) 0 (-1) (-1) [(h_reg h, p)])
                        | Some out' =>
                            (mkB out' in' (b_add b ++ [p]) (b_held b ++ [(b_nslot b, p)]) (b_nslot b + 1),
                             obtained_res p (h_reg h))
                        end
                    end
                end
            end
        end
    end.

  Fixpoint run_batch (c : cfg) (t : table) (kn : list Z) (b : bst)
           (opens : list oreq) : bst * list ores :=
    match opens with
    | [] => (b, [])
    | q :: r =>
        let '(b1, o) := open1 c t kn b (q_reqs q) (q_extra q) (q_race q) (q_allow q) in
        let '(b2, os) := run_batch c t kn b1 r in
        (b2, o :: os)
    end.
End MS.

(* the one executable instance of the trusted dependency: the listener
   answers with the first proposal it has a handler for; a lazy select
   succeeds iff the listener knows the protocol *)
Definition ms_select_impl (sup : Z -> bool) (l : list Z) : option Z := find sup l.
Definition ms_lazy_impl (sup : Z -> bool) (p : Z) : bool := sup p.

(* ---- whole-system state and the operation language ----------------------- *)
Record st := mkSt {
  tbl : table; nreg : Z;       (* listener: handler table, registrations so far *)
  know : list Z;               (* dialer: protocols the peerstore lists for the listener *)
  outD : Z -> Z; inL : Z -> Z; (* protocol-scope stream counts, dialer / listener *)
  held : list (Z * Z);         (* open streams: slot, protocol *)
  nslot : Z }.

Definition init_st : st := mkSt [] 0 [] (fun _ => 0) (fun _ => 0) [] 0.

Inductive op :=
| OAdd (name : Z)                                   (* SetStreamHandler *)
| OAddMatch (name : Z) (acc : list Z)               (* SetStreamHandlerMatch *)
| ORemove (name : Z)                                (* RemoveStreamHandler *)
| OKnow (k : list Z)                                (* peerstore SetProtocols(listener, k) *)
| OBatch (opens : list oreq)                        (* concurrent NewStream + first use; 1 = sequential *)
| OClose (slot how : Z)                             (* both ends close (0) / reset (1) a held stream *)
| ORelabel (slot side q : Z)                        (* SetProtocol(q) once more on the dialer's (0) /
                                                       the listener's (1) end of a held stream *)
| OReconnect (dir wait : Z)                         (* the connection is closed and a new one appears below
                                                       the host (dir 0: dialer's Network().DialPeer, 1: the
                                                       listener dials = inbound); wait 0: the next op (an
                                                       open) races the new connection's identify *)
| OPark (popens : list (bool * oreq)).              (* opens whose context does not allow the limited connection
                                                       are parked, in this order, until a direct connection
                                                       exists (Swarm.waitForDirectConn); true: the open's
                                                       context ends while it is parked; then the listener
                                                       dials the dialer directly; the direct connection is
                                                       gone again when the op is over *)

Inductive obs :=
| ObMux (l : list Z)                     (* Mux().Protocols() in table order *)
| ObKnow (l : list Z)                    (* knowledge, sorted, within the universe *)
| ObBatch (rs : list ores) (un : list (Z * Z)) (kn : list Z) (sc : list Z)
| ObClose (sc : list Z)
| ObRelabel (err dl ll : Z)              (* did SetProtocol fail; Protocol() of both ends afterwards *)
| ObRe (mx : list Z) (sc : list Z)       (* what the listener advertises; scopes after the old streams died *)
| ObPark (mx : list Z) (rs : list ores) (un : list (Z * Z)) (kn : list Z) (sc : list Z).
                                         (* what the listener advertises when the direct connection appears;
                                            then as ObBatch *)

Fixpoint zrange (from : Z) (n : nat) : list Z :=
  match n with O => [] | S k => from :: zrange (from + 1) k end.
Definition universe (U : Z) : list Z := zrange 0 (Z.to_nat U).

Definition canon_know (U : Z) (k : list Z) : list Z := filter (fun p => memz p k) (universe U).
Definition scope_vec (U : Z) (o i : Z -> Z) : list Z := map o (universe U) ++ map i (universe U).

(* ---- opens parked until a direct connection exists --------------------------
   Swarm.NewStream finds a limited connection and a context without
   WithAllowLimitedConn: waitForDirectConn appends the open's channel to the
   per-peer list directConnNotifs.m[p] and waits.  An open whose context ends
   removes ITS OWN entry from the list (slices.DeleteFunc ... c == ch) and
   fails.  addConn of a direct connection closes every channel of the list and
   deletes the entry: every open still parked goes on over the new connection.
   A parked open is named by its position in registration order. *)
Definition park_register (ws : list Z) (id : Z) : list Z := ws ++ [id].
Definition park_expire (ws : list Z) (id : Z) : list Z := filter (fun j => negb (j =? id)) ws.
Definition park_notify (ws : list Z) : list Z * list Z := (ws, []).   (* woken, still listed *)

Definition park_ids (popens : list (bool * oreq)) : list Z := zrange 0 (length popens).
Definition park_expired (popens : list (bool * oreq)) : list Z :=
  map fst (filter (fun x => fst (snd x)) (combine (park_ids popens) popens)).
(* all register, the ones whose context ends leave one by one, the direct connection wakes the rest *)
Definition park_woken (popens : list (bool * oreq)) : list Z :=
  fst (park_notify (fold_left park_expire (park_expired popens)
                              (fold_left park_register (park_ids popens) []))).
(* the opens as a batch: an open that was woken is handed a connection that may
   carry its stream (it passes the gate of open1 like an open whose context allows
   the limited connection); one that was not fails at the gate *)
Definition park_batch (popens : list (bool * oreq)) : list oreq :=
  map (fun x => let q := snd (snd x) in
                mkReq (q_reqs q) (q_extra q) (q_race q) (memz (fst x) (park_woken popens)))
      (combine (park_ids popens) popens).

Section MSRun.
  Variable ms_select : (Z -> bool) -> list Z -> option Z.
  Variable ms_lazy : (Z -> bool) -> Z -> bool.

  Definition step (U : Z) (c : cfg) (s : st) (o : op) : st * obs :=
    match o with
    | OAdd name =>
        let t := add_handler (tbl s) name [name] (nreg s) in
        (mkSt t (nreg s + 1) (know s) (outD s) (inL s) (held s) (nslot s), ObMux (mux_protocols t))
    | OAddMatch name acc =>
        let t := add_handler (tbl s) name acc (nreg s) in
        (mkSt t (nreg s + 1) (know s) (outD s) (inL s) (held s) (nslot s), ObMux (mux_protocols t))
    | ORemove name =>
        let t := remove_handler name (tbl s) in
        (mkSt t (nreg s) (know s) (outD s) (inL s) (held s) (nslot s), ObMux (mux_protocols t))
    | OKnow k =>
        (mkSt (tbl s) (nreg s) k (outD s) (inL s) (held s) (nslot s), ObKnow (canon_know U k))
    | OBatch opens =>
        let '(b, rs) := run_batch ms_select ms_lazy c (tbl s) (know s)
                          (mkB (outD s) (inL s) [] (held s) (nslot s)) opens in
        let k := know s ++ b_add b in
        (mkSt (tbl s) (nreg s) k (b_out b) (b_in b) (b_held b) (b_nslot b),
         ObBatch rs (flat_map o_un rs) (canon_know U k) (scope_vec U (b_out b) (b_in b)))
    | OClose slot _ =>
        match find (fun x => fst x =? slot) (held s) with
        | Some (_, p) =>
            let o' := scope_release (outD s) p in
            let i' := scope_release (inL s) p in
            (mkSt (tbl s) (nreg s) (know s) o' i'
                  (filter (fun x => negb (fst x =? slot)) (held s)) (nslot s),
             ObClose (scope_vec U o' i'))
        | None => (s, ObClose (scope_vec U (outD s) (inL s)))
        end
    | ORelabel slot side q =>
        (* swarm Stream.SetProtocol: the scope is asked first; a stream scope that is
           already attached to a protocol refuses, and a refused SetProtocol leaves the
           recorded protocol as it was.  (Without scopes the label is simply
           overwritten; not tracked further.) *)
        (s, match find (fun x => fst x =? slot) (held s) with
            | Some (_, p) =>
                if c_rcmgr c then ObRelabel 1 p p
                else if side =? 0 then ObRelabel 0 q p else ObRelabel 0 p q
            | None => ObRelabel (-1) (-1) (-1)
            end)
    | OReconnect _ _ =>
        (* every stream of the old connection is gone; identify on the new
           connection replaces what the peerstore lists for the listener by
           what its muxer advertises, and NewStream waits for that identify
           (IdentifyWait) before it looks at the peerstore *)
        let z := fun _ : Z => 0 in
        (mkSt (tbl s) (nreg s) (mux_protocols (tbl s)) z z [] (nslot s),
         ObRe (mux_protocols (tbl s)) (scope_vec U z z))
    | OPark popens =>
        (* identify on the direct connection replaces what the peerstore lists for the
           listener (as in OReconnect) and the woken opens wait for it; the streams of
           the limited connection stay *)
        let kn0 := mux_protocols (tbl s) in
        let '(b, rs) := run_batch ms_select ms_lazy c (tbl s) kn0
                          (mkB (outD s) (inL s) [] (held s) (nslot s)) (park_batch popens) in
        let k := kn0 ++ b_add b in
        (mkSt (tbl s) (nreg s) k (b_out b) (b_in b) (b_held b) (b_nslot b),
         ObPark kn0 rs (flat_map o_un rs) (canon_know U k) (scope_vec U (b_out b) (b_in b)))
    end.

  Fixpoint trace (U : Z) (c : cfg) (s : st) (ops : list op) : list (op * obs) :=
    match ops with
    | [] => []
    | o :: r => let '(s', x) := step U c s o in (o, x) :: trace U c s' r
    end.

  Fixpoint run (U : Z) (c : cfg) (s : st) (ops : list op) : st :=
    match ops with
    | [] => s
    | o :: r => run U c (fst (step U c s o)) r
    end.
End MSRun.

Definition step_i := step ms_select_impl ms_lazy_impl.
Definition trace_i := trace ms_select_impl ms_lazy_impl.
Definition run_i := run ms_select_impl ms_lazy_impl.

(* C07 — the monitor accepts every trace of the model (coupling invariant). *)
From Coq Require Import List Arith ZArith Bool Lia.
From Verif Require Import lib.Wire c07.Model c07.Spec c07.Proofs c07.Proofs_park.
Import ListNotations.
Local Open Scope Z_scope.

Record coupled (U : Z) (hs : bool) (s : st) (m : mon) : Prop := mkCoupled {
  cp_live : m_live m = tbl s;
  cp_nodup : NoDup (map h_name (tbl s));
  cp_nreg : m_nreg m = nreg s;
  cp_kn : forall p, 0 <= p < U -> memz p (m_kn m) = memz p (know s);
  cp_sc : hs = true -> m_sc m = scope_vec U (outD s) (inL s);
  cp_held : m_held m = held s;
  cp_nslot : m_nslot m = nslot s }.

Definition wf_op (U : Z) (o : op) : Prop :=
  match o with
  | OBatch opens => forall q, In q (reqs_of opens) -> in_range U q
  | OPark popens => forall q, In q (reqs_of (park_view popens)) -> in_range U q
  | _ => True
  end.

Lemma coupled_init : forall U hs, coupled U hs init_st (mon_init U).
Proof.
  intros U hs. constructor; cbn; try reflexivity; try (intros; reflexivity). constructor.
Qed.

Lemma scope_ok_holds : forall U o i o' i' rs,
  (forall q, o' q = o q + count_if (fun r => obtained r && (o_dp r =? q)) rs) ->
  (forall q, i' q = i q + count_if (fun r => obtained r && (o_dp r =? q)) rs) ->
  scope_ok U (scope_vec U o i) (scope_vec U o' i') rs = true.
Proof.
  intros U o i o' i' rs Ho Hi. unfold scope_ok. apply forallb_forall. intros q Hq.
  apply universe_In in Hq. rewrite !vec_at_out, !vec_at_in by exact Hq.
  rewrite Ho, Hi. rewrite !Z.eqb_refl. reflexivity.
Qed.

Section GenericTrace.
  Variable ms_select : (Z -> bool) -> list Z -> option Z.
  Variable ms_lazy : (Z -> bool) -> Z -> bool.
  Hypothesis ms_select_some : forall sup l p, ms_select sup l = Some p ->
    exists l1 l2, l = l1 ++ p :: l2 /\ sup p = true /\ (forall q, In q l1 -> sup q = false).
  Hypothesis ms_select_none : forall sup l, ms_select sup l = None ->
    forall q, In q l -> sup q = false.
  Hypothesis ms_lazy_spec : forall sup p, ms_lazy sup p = sup p.

  Lemma step_mon : forall U hs c s m o,
    wf_cfg hs c -> coupled U hs s m -> wf_op U o ->
    exists m', mon_step U hs c m o (snd (step ms_select ms_lazy U c s o)) = Some m' /\
               coupled U hs (fst (step ms_select ms_lazy U c s o)) m'.
  Proof.
    intros U hs c s m o Hwf Hc Hop. destruct Hc as [Hl Hnd Hn Hk Hs Hh Hns].
    destruct o as [name | name acc | name | k | opens | slot how | slot side q | dir wt | popens]; cbn [step mon_step fst snd].
    - destruct (add_handler_live (tbl s) name [name] (nreg s) Hnd) as [E ND].
      eexists. split; [reflexivity|].
      constructor; cbn; [rewrite Hl, Hn; symmetry; exact E | exact ND | lia | exact Hk | exact Hs | exact Hh | exact Hns].
    - destruct (add_handler_live (tbl s) name acc (nreg s) Hnd) as [E ND].
      eexists. split; [reflexivity|].
      constructor; cbn; [rewrite Hl, Hn; symmetry; exact E | exact ND | lia | exact Hk | exact Hs | exact Hh | exact Hns].
    - eexists. split; [reflexivity|]. constructor; cbn; [| | exact Hn | exact Hk | exact Hs | exact Hh | exact Hns].
      + unfold live_remove. rewrite Hl. symmetry. apply remove_handler_filter. exact Hnd.
      + rewrite (remove_handler_filter name (tbl s) Hnd). apply filter_names_nodup. exact Hnd.
    - eexists. split; [reflexivity|]. constructor; cbn; [exact Hl | exact Hnd | exact Hn | reflexivity | exact Hs | exact Hh | exact Hns].
    - destruct (run_batch ms_select ms_lazy c (tbl s) (know s)
                  (mkB (outD s) (inL s) [] (held s) (nslot s)) opens) as [b rs] eqn:E.
      cbn [fst snd mon_step].
      pose proof (run_batch_outcomes ms_select ms_lazy ms_select_some ms_lazy_spec _ _ _ _ _ _ _ E) as Ho.
      assert (Hb : batch_ok U hs c m opens rs (flat_map o_un rs)
                            (scope_vec U (b_out b) (b_in b)) = true).
      { unfold batch_ok. cbv zeta. fold (reqs_of opens).
        pose proof (outcomes_length _ _ _ _ _ _ _ Ho) as Hlen.
        pose proof (outcomes_un _ _ _ _ _ _ _ Ho) as [Hu1 Hu2].
        pose proof (outcomes_counts _ _ _ _ _ _ _ Ho) as Hcnt. cbn [b_out b_in] in Hcnt.
        rewrite Hl.
        repeat (apply andb_true_iff; split).
        - apply Z.eqb_eq. rewrite Hlen. reflexivity.
        - eapply (run_batch_live ms_select ms_lazy ms_select_some ms_select_none ms_lazy_spec); eauto;
            intros p; lia.
        - eapply outcomes_open_ok; eauto. intros p. lia.
        - exact Hu1.
        - apply Z.leb_le. exact Hu2.
        - destruct hs; [|reflexivity]. cbn [negb orb]. rewrite (Hs eq_refl).
          apply scope_ok_holds; intros q; apply Hcnt. }
      rewrite Hb. eexists. split; [reflexivity|].
      pose proof (outcomes_held _ _ _ _ _ _ _ Ho) as [Hh1 Hh2]. cbn [b_held b_nslot] in Hh1, Hh2.
      constructor; cbn; [exact Hl | exact Hnd | exact Hn | | | | ].
      + intros p Hp. apply canon_know_mem. exact Hp.
      + intros Hhs. rewrite Hhs. reflexivity.
      + rewrite Hh, Hns. symmetry. exact Hh1.
      + rewrite Hns. symmetry. exact Hh2.
    - destruct (find (fun x => fst x =? slot) (held s)) as [[sl p]|] eqn:E; cbn [fst snd mon_step].
      + eexists. split; [reflexivity|].
        constructor; cbn; [exact Hl | exact Hnd | exact Hn | exact Hk | intros Hhs; rewrite Hhs; reflexivity
                          | rewrite Hh; reflexivity | exact Hns].
      + eexists. split; [reflexivity|].
        constructor; cbn; [exact Hl | exact Hnd | exact Hn | exact Hk | intros Hhs; rewrite Hhs; reflexivity | | exact Hns].
        rewrite Hh. apply filter_all_true. intros x Hx. apply negb_true_iff.
        destruct (fst x =? slot) eqn:Ex; [|reflexivity]. exfalso.
        eapply find_none in E; eauto. cbn in E. congruence.
    - (* relabel: with real resource managers the model answers "refused, labels unchanged" *)
      rewrite Hh. destruct (find (fun x => fst x =? slot) (held s)) as [[sl p]|] eqn:E.
      + destruct hs.
        * destruct Hwf as [_ Hr]. rewrite (Hr eq_refl). cbn [negb orb]. rewrite !Z.eqb_refl. cbn [andb].
          eexists. split; [reflexivity|]. constructor; assumption.
        * cbn [negb orb]. destruct (c_rcmgr c); [|destruct (side =? 0)];
            (eexists; split; [reflexivity|]; constructor; assumption).
      + eexists. split; [reflexivity|]. constructor; assumption.
    - eexists. split; [reflexivity|].
      constructor; cbn; [exact Hl | exact Hnd | exact Hn | reflexivity | intros Hhs; rewrite Hhs; reflexivity
                        | reflexivity | exact Hns].
    - (* parked opens: the waiter list wakes exactly the opens whose context did not end
         (park_batch_view); then as a batch on the refreshed knowledge *)
      rewrite park_batch_view. cbn [wf_op] in Hop.
      destruct (run_batch ms_select ms_lazy c (tbl s) (mux_protocols (tbl s))
                  (mkB (outD s) (inL s) [] (held s) (nslot s)) (park_view popens)) as [b rs] eqn:E.
      cbn [fst snd mon_step].
      pose proof (run_batch_outcomes ms_select ms_lazy ms_select_some ms_lazy_spec _ _ _ _ _ _ _ E) as Ho.
      assert (Hb : batch_ok U hs c (mkM (m_live m) (m_nreg m) (mux_protocols (tbl s)) (m_sc m) (m_held m) (m_nslot m))
                            (park_view popens) rs (flat_map o_un rs)
                            (scope_vec U (b_out b) (b_in b)) = true).
      { unfold batch_ok. cbv zeta. fold (reqs_of (park_view popens)). cbn [m_live m_kn m_sc].
        pose proof (outcomes_length _ _ _ _ _ _ _ Ho) as Hlen.
        pose proof (outcomes_un _ _ _ _ _ _ _ Ho) as [Hu1 Hu2].
        pose proof (outcomes_counts _ _ _ _ _ _ _ Ho) as Hcnt. cbn [b_out b_in] in Hcnt.
        rewrite Hl.
        repeat (apply andb_true_iff; split).
        - apply Z.eqb_eq. rewrite Hlen. reflexivity.
        - eapply (run_batch_live ms_select ms_lazy ms_select_some ms_select_none ms_lazy_spec); eauto;
            intros p; lia.
        - eapply outcomes_open_ok; eauto. intros p. lia.
        - exact Hu1.
        - apply Z.leb_le. exact Hu2.
        - destruct hs; [|reflexivity]. cbn [negb orb]. rewrite (Hs eq_refl).
          apply scope_ok_holds; intros q; apply Hcnt. }
      rewrite Hb. eexists. split; [reflexivity|].
      pose proof (outcomes_held _ _ _ _ _ _ _ Ho) as [Hh1 Hh2]. cbn [b_held b_nslot] in Hh1, Hh2.
      constructor; cbn; [exact Hl | exact Hnd | exact Hn | | | | ].
      + intros p Hp. apply canon_know_mem. exact Hp.
      + intros Hhs. rewrite Hhs. reflexivity.
      + rewrite Hh, Hns. symmetry. exact Hh1.
      + rewrite Hns. symmetry. exact Hh2.
  Qed.

  Theorem mon_accepts_trace : forall U hs c ops s m i,
    wf_cfg hs c -> coupled U hs s m -> Forall (wf_op U) ops ->
    mon_run U hs c m i (trace ms_select ms_lazy U c s ops) = [].
  Proof.
    intros U hs c ops. induction ops as [|o ops IH]; intros s m i Hwf Hc Hops; [reflexivity|].
    inversion Hops as [|x l Ho Hrest]; subst.
    cbn [trace]. destruct (step ms_select ms_lazy U c s o) as [s' x] eqn:E.
    destruct (step_mon U hs c s m o Hwf Hc Ho) as [m' [Hm Hc']]. rewrite E in Hm, Hc'. cbn [fst snd] in Hm, Hc'.
    cbn [mon_run]. rewrite Hm. apply IH; assumption.
  Qed.
End GenericTrace.

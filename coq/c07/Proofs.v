(* C07 — lemmas. *)
From Coq Require Import List Arith ZArith Bool Lia.
From Verif Require Import lib.Wire c07.Model c07.Spec.
Import ListNotations.
Local Open Scope Z_scope.

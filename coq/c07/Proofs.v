(* C07 — lemmas: handler table, scope vectors, one open, a batch. *)
From Coq Require Import List Arith ZArith Bool Lia.
From Verif Require Import lib.Wire c07.Model c07.Spec.
Import ListNotations.
Local Open Scope Z_scope.

(* ---- membership ------------------------------------------------------------ *)
Lemma memz_In : forall x l, memz x l = true <-> In x l.
Proof.
  intros x l. unfold memz. rewrite existsb_exists. split.
  - intros [y [Hy E]]. apply Z.eqb_eq in E. subst. exact Hy.
  - intros H. exists x. split; [exact H | apply Z.eqb_refl].
Qed.

Lemma memz_false : forall x l, memz x l = false <-> ~ In x l.
Proof.
  intros x l. rewrite <- memz_In. destruct (memz x l); split; intros; try discriminate; auto.
  exfalso. apply H. reflexivity.
Qed.

Lemma memz_filter : forall f x l, memz x (filter f l) = true -> f x = true /\ memz x l = true.
Proof.
  intros f x l H. apply memz_In in H. apply filter_In in H. destruct H as [H1 H2].
  split; [exact H2 | apply memz_In; exact H1].
Qed.

Lemma memz_app : forall x a b, memz x (a ++ b) = memz x a || memz x b.
Proof. intros. unfold memz. apply existsb_app. Qed.

(* ---- handler table ---------------------------------------------------------- *)
Lemma find_handler_some : forall t p h, find_handler t p = Some h ->
  In h t /\ memz p (h_acc h) = true.
Proof. intros t p h H. unfold find_handler in H. apply find_some in H. exact H. Qed.

(* the handler that runs is the FIRST entry in table order accepting p *)
Lemma find_handler_first : forall t p h, find_handler t p = Some h ->
  exists pre post, t = pre ++ h :: post /\ memz p (h_acc h) = true /\
                   forall x, In x pre -> memz p (h_acc x) = false.
Proof.
  induction t as [|a t IH]; intros p h H; [discriminate|].
  unfold find_handler in H. cbn [find] in H. destruct (memz p (h_acc a)) eqn:E.
  - inversion H; subst. exists [], t. repeat split; auto. intros x [].
  - destruct (IH p h H) as [pre [post [E1 [E2 E3]]]]. exists (a :: pre), post.
    subst t. repeat split; auto. intros x [Hx|Hx]; [subst; exact E | auto].
Qed.

Lemma supports_matched : forall t p, supports t p = matched t p.
Proof.
  intros t p. unfold supports, matched, find_handler.
  induction t as [|a t IH]; [reflexivity|]. cbn [find existsb].
  destruct (memz p (h_acc a)); [reflexivity | exact IH].
Qed.

Lemma supports_false_none : forall t p, supports t p = false -> find_handler t p = None.
Proof. intros t p H. unfold supports in H. destruct (find_handler t p); [discriminate|reflexivity]. Qed.

Lemma supports_true_some : forall t p, supports t p = true -> exists h, find_handler t p = Some h.
Proof. intros t p H. unfold supports in H. destruct (find_handler t p) as [h|]; [exists h; reflexivity|discriminate]. Qed.

Lemma find_handler_live_match : forall t p h, find_handler t p = Some h ->
  live_match t (h_reg h) p = true.
Proof.
  intros t p h H. apply find_handler_some in H. destruct H as [Hin Hm].
  unfold live_match. apply existsb_exists. exists h. split; [exact Hin|].
  rewrite Z.eqb_refl. exact Hm.
Qed.

Lemma remove_handler_subset : forall name t x, In x (remove_handler name t) -> In x t.
Proof.
  induction t as [|a t IH]; intros x H; [exact H|]. cbn [remove_handler] in H.
  destruct (h_name a =? name); [right; exact H|]. destruct H as [H|H]; [left; exact H | right; auto].
Qed.

Lemma filter_all_true : forall {A} (f : A -> bool) l, (forall x, In x l -> f x = true) -> filter f l = l.
Proof.
  induction l as [|a l IH]; intros H; [reflexivity|]. cbn [filter].
  rewrite (H a (or_introl eq_refl)). f_equal. apply IH. intros x Hx. apply H. right. exact Hx.
Qed.

Lemma NoDup_snoc : forall {A} (l : list A) x, NoDup l -> ~ In x l -> NoDup (l ++ [x]).
Proof.
  induction l as [|a l IH]; intros x ND Hx; cbn [app].
  - constructor; [intros []|constructor].
  - inversion ND; subst. constructor.
    + intros Hin. apply in_app_or in Hin. destruct Hin as [Hin|[Hin|[]]]; [auto|].
      subst. apply Hx. left. reflexivity.
    + apply IH; [assumption|]. intros Hin. apply Hx. right. exact Hin.
Qed.

Lemma remove_handler_filter : forall name t, NoDup (map h_name t) ->
  remove_handler name t = filter (fun e => negb (h_name e =? name)) t.
Proof.
  induction t as [|a t IH]; intros ND; [reflexivity|]. cbn [remove_handler filter].
  cbn [map] in ND. inversion ND as [|x l Hnotin ND']; subst.
  destruct (h_name a =? name) eqn:E; cbn [negb].
  - apply Z.eqb_eq in E. symmetry. apply filter_all_true.
    intros y Hy. apply negb_true_iff. apply Z.eqb_neq. intros Heq. apply Hnotin.
    rewrite E, <- Heq. apply in_map. exact Hy.
  - f_equal. apply IH. exact ND'.
Qed.

Lemma filter_names_nodup : forall (f : hent -> bool) t, NoDup (map h_name t) -> NoDup (map h_name (filter f t)).
Proof.
  induction t as [|a t IH]; intros ND; [exact ND|]. cbn [map] in ND. inversion ND; subst.
  cbn [filter]. destruct (f a); [|auto]. cbn [map]. constructor; [|auto].
  intros Hin. apply H1. apply in_map_iff in Hin. destruct Hin as [y [E Hy]].
  apply filter_In in Hy. rewrite <- E. apply in_map. tauto.
Qed.

Lemma add_handler_live : forall t name acc reg, NoDup (map h_name t) ->
  add_handler t name acc reg = live_add t name acc reg /\
  NoDup (map h_name (add_handler t name acc reg)).
Proof.
  intros t name acc reg ND. unfold add_handler, live_add. rewrite (remove_handler_filter name t ND).
  split; [reflexivity|]. rewrite map_app. cbn [map h_name].
  apply NoDup_snoc; [apply filter_names_nodup; exact ND|].
  intros Hin. apply in_map_iff in Hin. destruct Hin as [y [E Hy]]. apply filter_In in Hy.
  destruct Hy as [_ Hy]. apply negb_true_iff in Hy. apply Z.eqb_neq in Hy. auto.
Qed.

(* ---- one open --------------------------------------------------------------- *)
Definition same_counts (b b' : bst) : Prop :=
  b_out b' = b_out b /\ b_in b' = b_in b /\ b_held b' = b_held b /\ b_nslot b' = b_nslot b.

(* everything one NewStream + first use can do, as the theorems need it *)
Inductive outcome (c : cfg) (t : table) (kn : list Z) (b : bst) (reqs : list Z)
  : bst -> ores -> Prop :=
| OutObtained : forall p h b',
    In p reqs -> find_handler t p = Some h ->
    b_out b' = upd (b_out b) p (b_out b p + 1) ->
    b_in b' = upd (b_in b) p (b_in b p + 1) ->
    b_held b' = b_held b ++ [(b_nslot b, p)] -> b_nslot b' = b_nslot b + 1 ->
    (b_add b' = b_add b \/ b_add b' = b_add b ++ [p]) ->
    scope_try (limD c) (b_out b) p = Some (b_out b') ->
    scope_try (limL c) (b_in b) p = Some (b_in b') ->
    outcome c t kn b reqs b' (obtained_res p (h_reg h))
| OutFail : forall code,
    code <> 0 -> outcome c t kn b reqs b (fail_res code)
| OutUseFailed : forall p b',
    In p reqs -> same_counts b b' ->
    (b_add b' = b_add b \/ b_add b' = b_add b ++ [p]) ->
    ((supports t p = false /\ memz p kn = true) \/
     (supports t p = true /\ scope_try (limL c) (b_in b) p = None)) ->
    outcome c t kn b reqs b' (use_failed p)
| OutDialerRefused : forall p h,
    In p reqs -> find_handler t p = Some h ->
    outcome c t kn b reqs b (mkO 2 (-1) (-1) (-1) (-1) 0 (-1) (-1) [(h_reg h, p)]).

Lemma obt_obtained : forall p reg, obtained (obtained_res p reg) = true.
Proof. reflexivity. Qed.
Lemma obt_fail : forall code, obtained (fail_res code) = false.
Proof. intros. unfold obtained, fail_res. cbn [o_res o_use]. apply andb_false_r. Qed.
Lemma obt_use : forall p, obtained (use_failed p) = false.
Proof. reflexivity. Qed.
Lemma obt_refused : forall l, obtained (mkO 2 (-1) (-1) (-1) (-1) 0 (-1) (-1) l) = false.
Proof. reflexivity. Qed.

Section Generic.
  Variable ms_select : (Z -> bool) -> list Z -> option Z.
  Variable ms_lazy : (Z -> bool) -> Z -> bool.
  (* the documented behaviour of go-multistream the proofs rely on *)
  Hypothesis ms_select_some : forall sup l p, ms_select sup l = Some p ->
    exists l1 l2, l = l1 ++ p :: l2 /\ sup p = true /\ (forall q, In q l1 -> sup q = false).
  Hypothesis ms_select_none : forall sup l, ms_select sup l = None ->
    forall q, In q l -> sup q = false.
  Hypothesis ms_lazy_spec : forall sup p, ms_lazy sup p = sup p.

  Lemma ms_select_in : forall sup l p, ms_select sup l = Some p -> In p l /\ sup p = true.
  Proof.
    intros sup l p H. destruct (ms_select_some _ _ _ H) as [l1 [l2 [E [S _]]]].
    split; [|exact S]. subst l. apply in_or_app. right. left. reflexivity.
  Qed.

  Lemma pref_found : forall c t kn extra reqs p,
    preferred c t kn extra reqs = Some p ->
    In p reqs /\ (memz p kn = true \/ supports t p = true).
  Proof.
    intros c t kn extra reqs p H. unfold preferred in H. destruct (c_blankD c); [discriminate|].
    apply find_some in H. destruct H as [Hin H]. split; [exact Hin|].
    apply orb_true_iff in H. destruct H as [H|H]; [left; exact H|].
    right. apply memz_filter in H. tauto.
  Qed.

  Lemma open1_outcome : forall c t kn b reqs extra race allow b' r,
    open1 ms_select ms_lazy c t kn b reqs extra race allow = (b', r) ->
    outcome c t kn b reqs b' r.
  Proof.
    intros c t kn b reqs extra race allow b' r H. unfold open1 in H.
    destruct (c_limited c && negb allow).
    { inversion H; subst. apply OutFail. discriminate. }
    destruct (preferred c t kn extra reqs) as [p|] eqn:Epref.
    - (* optimistic *)
      apply pref_found in Epref. destruct Epref as [Hin Hk].
      destruct (scope_try (limD c) (b_out b) p) as [out'|] eqn:ED.
      2:{ inversion H; subst. apply OutFail. discriminate. }
      assert (Eout : out' = upd (b_out b) p (b_out b p + 1)).
      { unfold scope_try in ED. destruct (_ || _); inversion ED. reflexivity. }
      rewrite ms_lazy_spec in H.
      destruct (supports t p) eqn:Esup.
      + destruct (supports_true_some t p Esup) as [h Eh]. rewrite Eh in H.
        destruct (scope_try (limL c) (b_in b) p) as [in'|] eqn:EL.
        * inversion H; subst. apply OutObtained; cbn; auto.
          unfold scope_try in EL. destruct (_ || _); inversion EL. reflexivity.
        * inversion H; subst. apply OutUseFailed;
            [exact Hin | repeat split | left; reflexivity | right; split; assumption].
      + inversion H; subst. apply OutUseFailed; [exact Hin | repeat split | left; reflexivity |].
        left. split; [exact Esup|]. destruct Hk as [Hk|Hk]; [exact Hk|discriminate Hk].
    - destruct reqs as [|r0 reqs'] eqn:Ereqs.
      { inversion H; subst. apply OutFail. discriminate. }
      rewrite <- Ereqs in *. clear Ereqs.
      destruct (ms_select (supports t) reqs) as [p|] eqn:Esel.
      2:{ inversion H; subst. apply OutFail. discriminate. }
      destruct (ms_select_in _ _ _ Esel) as [Hin Hsup].
      destruct (find_handler t p) as [h|] eqn:Eh.
      2:{ inversion H; subst. apply OutFail. discriminate. }
      destruct (scope_try (limL c) (b_in b) p) as [in'|] eqn:EL.
      + destruct (scope_try (limD c) (b_out b) p) as [out'|] eqn:ED.
        * inversion H; subst. apply OutObtained; cbn; auto.
          -- unfold scope_try in ED. destruct (_ || _); inversion ED. reflexivity.
          -- unfold scope_try in EL. destruct (_ || _); inversion EL. reflexivity.
        * inversion H; subst. apply OutDialerRefused; assumption.
      + destruct race.
        * inversion H; subst. apply OutFail. discriminate.
        * destruct (scope_try (limD c) (b_out b) p) as [out'|] eqn:ED.
          -- inversion H; subst. apply OutUseFailed;
               [exact Hin | repeat split | right; reflexivity | right; split; assumption].
          -- inversion H; subst. apply OutFail. discriminate.
  Qed.
  (* why an open did not produce a working stream *)
  Lemma open1_live : forall c t kn b reqs extra race allow b' r,
    open1 ms_select ms_lazy c t kn b reqs extra race allow = (b', r) -> obtained r = false ->
    (exists p, In p reqs /\ memz p kn = true /\ supports t p = false) \/
    (exists p, In p reqs /\ (scope_try (limD c) (b_out b) p = None \/
                             scope_try (limL c) (b_in b) p = None)) \/
    (c_limited c = true /\ allow = false) \/
    (forall q, In q reqs -> supports t q = false).
  Proof.
    intros c t kn b reqs extra race allow b' r H Hob. unfold open1 in H.
    destruct (c_limited c && negb allow) eqn:El.
    { right. right. left. apply andb_true_iff in El. destruct El as [E1 E2].
      apply negb_true_iff in E2. tauto. }
    destruct (preferred c t kn extra reqs) as [p|] eqn:Epref.
    - apply pref_found in Epref. destruct Epref as [Hin Hk].
      destruct (scope_try (limD c) (b_out b) p) as [out'|] eqn:ED.
      2:{ right. left. exists p. tauto. }
      rewrite ms_lazy_spec in H. destruct (supports t p) eqn:Esup.
      + destruct (supports_true_some t p Esup) as [h Eh]. rewrite Eh in H.
        destruct (scope_try (limL c) (b_in b) p) as [in'|] eqn:EL.
        * inversion H; subst. rewrite obt_obtained in Hob. discriminate.
        * right. left. exists p. tauto.
      + left. exists p. destruct Hk as [Hk|Hk]; [tauto|discriminate Hk].
    - destruct reqs as [|r0 reqs'] eqn:Ereqs.
      { right. right. right. intros q []. }
      rewrite <- Ereqs in *. clear Ereqs.
      destruct (ms_select (supports t) reqs) as [p|] eqn:Esel.
      2:{ right. right. right. exact (ms_select_none _ _ Esel). }
      destruct (ms_select_in _ _ _ Esel) as [Hin Hsup].
      destruct (find_handler t p) as [h|] eqn:Eh.
      2:{ exfalso. destruct (supports_true_some t p Hsup) as [h Eh']. congruence. }
      destruct (scope_try (limL c) (b_in b) p) as [in'|] eqn:EL.
      + destruct (scope_try (limD c) (b_out b) p) as [out'|] eqn:ED.
        * inversion H; subst. rewrite obt_obtained in Hob. discriminate.
        * right. left. exists p. tauto.
      + right. left. exists p. tauto.
  Qed.
End Generic.

(* ---- scope vectors ------------------------------------------------------------ *)
Lemma zrange_length : forall n a, length (zrange a n) = n.
Proof. induction n; intros; cbn [zrange length]; [reflexivity | rewrite IHn; reflexivity]. Qed.

Lemma zrange_nth : forall n a k d, (k < n)%nat -> nth k (zrange a n) d = a + Z.of_nat k.
Proof.
  induction n; intros a k d H; [lia|]. cbn [zrange]. destruct k; cbn [nth]; [lia|].
  rewrite IHn by lia. lia.
Qed.

Lemma zrange_In : forall n a x, In x (zrange a n) <-> a <= x < a + Z.of_nat n.
Proof.
  induction n; intros a x; cbn [zrange In]; [lia|]. rewrite IHn. lia.
Qed.

Lemma universe_In : forall U x, In x (universe U) <-> 0 <= x < U.
Proof. intros U x. unfold universe. rewrite zrange_In. lia. Qed.

Lemma vec_at_out : forall U o i q, 0 <= q < U -> vec_at (scope_vec U o i) q = o q.
Proof.
  intros U o i q H. unfold vec_at, scope_vec, universe.
  rewrite app_nth1 by (rewrite map_length, zrange_length; lia).
  rewrite (nth_indep _ 0 (o 0)) by (rewrite map_length, zrange_length; lia).
  rewrite map_nth. rewrite zrange_nth by lia. f_equal. lia.
Qed.

Lemma vec_at_in : forall U o i q, 0 <= q < U -> vec_at (scope_vec U o i) (U + q) = i q.
Proof.
  intros U o i q H. unfold vec_at, scope_vec, universe.
  rewrite app_nth2 by (rewrite map_length, zrange_length; lia).
  rewrite map_length, zrange_length.
  replace (Z.to_nat (U + q) - Z.to_nat U)%nat with (Z.to_nat q) by lia.
  rewrite (nth_indep _ 0 (i 0)) by (rewrite map_length, zrange_length; lia).
  rewrite map_nth. rewrite zrange_nth by lia. f_equal. lia.
Qed.

Lemma canon_know_mem : forall U k p, 0 <= p < U -> memz p (canon_know U k) = memz p k.
Proof.
  intros U k p H. unfold canon_know. destruct (memz p k) eqn:E.
  - apply memz_In. apply filter_In. split; [apply universe_In; exact H | exact E].
  - apply memz_false. intros Hin. apply filter_In in Hin. destruct Hin as [_ Hin]. congruence.
Qed.

Lemma scope_try_none : forall lim cnt p, scope_try lim cnt p = None -> 0 <= lim p <= cnt p.
Proof.
  intros lim cnt p H. unfold scope_try in H.
  destruct (lim p <? 0) eqn:E1; [discriminate|]. destruct (cnt p <? lim p) eqn:E2; [discriminate|].
  apply Z.ltb_ge in E1. apply Z.ltb_ge in E2. lia.
Qed.

(* ---- one open satisfies the per-open clauses of the monitor ------------------- *)
Definition in_range (U : Z) (l : list Z) : Prop := forall p, In p l -> 0 <= p < U.
(* scope columns are judged only where real resource managers run, and only
   there can a scope refuse *)
Definition wf_cfg (has_scope : bool) (c : cfg) : Prop :=
  (has_scope = true \/ forall p, limL c p < 0 /\ limD c p < 0) /\ (has_scope = true -> c_rcmgr c = true).

Lemma outcome_open_ok : forall U has_scope c t kn knm b reqs b' r fo fin,
  outcome c t kn b reqs b' r ->
  in_range U reqs -> wf_cfg has_scope c ->
  (forall p, 0 <= p < U -> memz p knm = memz p kn) ->
  (forall p, b_in b p <= fin p) ->
  open_ok U has_scope (limL c) t knm (scope_vec U fo fin) reqs r = true.
Proof.
  intros U has_scope c t kn knm b reqs b' r fo fin Hout Hrange Hwf Hkn Hmono.
  unfold open_ok. destruct Hout as [p h b' Hin Hf _ _ _ _ _ | code Hcode | p b' Hin _ _ Hex | p h Hin Hf].
  - (* obtained *)
    cbn [obtained_res o_res o_dp o_use o_h o_lp o_ninv o_hreg o_hlp obtained].
    assert (Hm : memz p reqs = true) by (apply memz_In; exact Hin).
    pose proof (find_handler_live_match t p h Hf) as Hlm.
    assert (Hc : common t reqs = true).
    { unfold common. apply existsb_exists. exists p. split; [exact Hin|].
      rewrite <- supports_matched. unfold supports. rewrite Hf. reflexivity. }
    rewrite Hm, Hlm, Hc, !Z.eqb_refl. reflexivity.
  - (* open failed *)
    unfold fail_res, obtained. cbn [o_res o_dp o_use o_h o_lp o_ninv o_hreg o_hlp].
    assert (E : (code =? 0) = false) by (apply Z.eqb_neq; exact Hcode).
    rewrite E. cbn. destruct (common t reqs); reflexivity.
  - (* returned, first use failed *)
    unfold use_failed, obtained. cbn [o_res o_dp o_use o_h o_lp o_ninv o_hreg o_hlp].
    assert (Hm : memz p reqs = true) by (apply memz_In; exact Hin).
    rewrite Hm. cbn [Z.eqb implb andb negb orb]. rewrite <- supports_matched.
    pose proof (Hrange p Hin) as Hp.
    destruct Hex as [[Hs Hk] | [Hs Hfull]].
    + rewrite Hs. rewrite (Hkn p Hp), Hk. cbn. destruct (common t reqs); reflexivity.
    + rewrite Hs. cbn [negb andb orb].
      assert (Hc : common t reqs = true).
      { unfold common. apply existsb_exists. exists p. split; [exact Hin|].
        rewrite <- supports_matched. exact Hs. }
      rewrite Hc. cbn [negb implb andb].
      apply scope_try_none in Hfull. rewrite vec_at_in by exact Hp.
      destruct Hwf as [[Hhs | Hneg] _].
      * rewrite Hhs. cbn [andb].
        assert (E1 : (0 <=? limL c p) = true) by (apply Z.leb_le; lia).
        assert (E2 : (limL c p <=? fin p) = true) by (apply Z.leb_le; specialize (Hmono p); lia).
        rewrite E1, E2. reflexivity.
      * destruct (Hneg p). lia.
  - (* dialer refused after the listener dispatched *)
    unfold obtained. cbn [o_res o_dp o_use o_h o_lp o_ninv o_hreg o_hlp]. cbn.
    destruct (common t reqs); reflexivity.
Qed.

(* ---- a batch -------------------------------------------------------------------- *)
Inductive outcomes (c : cfg) (t : table) (kn : list Z)
  : bst -> list (list Z) -> bst -> list ores -> Prop :=
| OutsNil : forall b, outcomes c t kn b [] b []
| OutsCons : forall b q b1 r qs b2 rs,
    outcome c t kn b q b1 r -> outcomes c t kn b1 qs b2 rs ->
    outcomes c t kn b (q :: qs) b2 (r :: rs).

Definition reqs_of (opens : list oreq) : list (list Z) := map q_reqs opens.

Section GenericBatch.
  Variable ms_select : (Z -> bool) -> list Z -> option Z.
  Variable ms_lazy : (Z -> bool) -> Z -> bool.
  Hypothesis ms_select_some : forall sup l p, ms_select sup l = Some p ->
    exists l1 l2, l = l1 ++ p :: l2 /\ sup p = true /\ (forall q, In q l1 -> sup q = false).
  Hypothesis ms_lazy_spec : forall sup p, ms_lazy sup p = sup p.

  Lemma run_batch_outcomes : forall opens c t kn b b' rs,
    run_batch ms_select ms_lazy c t kn b opens = (b', rs) ->
    outcomes c t kn b (reqs_of opens) b' rs.
  Proof.
    induction opens as [|q opens IH]; intros c t kn b b' rs H; cbn [run_batch] in H.
    - inversion H; subst. constructor.
    - destruct (open1 ms_select ms_lazy c t kn b (q_reqs q) (q_extra q) (q_race q) (q_allow q)) as [b1 o] eqn:E1.
      destruct (run_batch ms_select ms_lazy c t kn b1 opens) as [b2 os] eqn:E2.
      inversion H; subst. cbn [reqs_of map]. econstructor.
      + eapply open1_outcome; eauto.
      + apply IH. exact E2.
  Qed.
End GenericBatch.

Lemma count_if_nonneg : forall {A} (f : A -> bool) l, 0 <= count_if f l.
Proof. induction l; cbn [count_if fold_right]; [lia|]. fold (count_if f l). destruct (f a); lia. Qed.

Lemma count_if_cons : forall {A} (f : A -> bool) a l,
  count_if f (a :: l) = (if f a then 1 else 0) + count_if f l.
Proof. intros. unfold count_if. cbn [fold_right]. destruct (f a); lia. Qed.

Lemma outcome_mono : forall c t kn b q b' r, outcome c t kn b q b' r ->
  (forall p, b_in b p <= b_in b' p) /\ (forall p, b_out b p <= b_out b' p).
Proof.
  intros c t kn b q b' r H.
  destruct H as [p h b' _ _ Eo Ei _ _ _ | code _ | p b' _ [Eo [Ei _]] _ _ | p h _ _].
  - rewrite Eo, Ei. unfold upd. split; intros x; destruct (x =? p) eqn:E; try lia;
      apply Z.eqb_eq in E; subst; lia.
  - split; intros; lia.
  - rewrite Eo, Ei. split; intros; lia.
  - split; intros; lia.
Qed.

Lemma outcomes_mono : forall c t kn b qs b' rs, outcomes c t kn b qs b' rs ->
  forall p, b_in b p <= b_in b' p.
Proof.
  intros c t kn b qs b' rs H. induction H; intros p; [lia|].
  pose proof (proj1 (outcome_mono _ _ _ _ _ _ _ H) p). specialize (IHoutcomes p). lia.
Qed.

Lemma outcomes_length : forall c t kn b qs b' rs, outcomes c t kn b qs b' rs ->
  length qs = length rs.
Proof. intros. induction H; cbn [length]; congruence. Qed.

Lemma outcomes_open_ok : forall U has_scope c t kn knm fo fin b qs b' rs,
  outcomes c t kn b qs b' rs ->
  (forall q, In q qs -> in_range U q) -> wf_cfg has_scope c ->
  (forall p, 0 <= p < U -> memz p knm = memz p kn) ->
  (forall p, b_in b' p <= fin p) ->
  forallb (fun x => open_ok U has_scope (limL c) t knm (scope_vec U fo fin) (fst x) (snd x))
          (combine qs rs) = true.
Proof.
  intros U has_scope c t kn knm fo fin b qs b' rs H. induction H; intros Hr Hwf Hkn Hfin.
  - reflexivity.
  - cbn [combine forallb fst snd]. apply andb_true_iff. split.
    + eapply outcome_open_ok; eauto.
      * apply Hr. left. reflexivity.
      * intros p. pose proof (proj1 (outcome_mono _ _ _ _ _ _ _ H) p).
        pose proof (outcomes_mono _ _ _ _ _ _ _ H0 p). specialize (Hfin p). lia.
    + apply IHoutcomes; auto. intros q0 Hq0. apply Hr. right. exact Hq0.
Qed.

(* the streams both ends hold after a batch: the obtained ones, on the next slots in order *)
Lemma outcomes_held : forall c t kn b qs b' rs, outcomes c t kn b qs b' rs ->
  b_held b' = b_held b ++ slots_of (b_nslot b) rs /\
  b_nslot b' = b_nslot b + count_if obtained rs.
Proof.
  intros c t kn b qs b' rs H. induction H.
  - cbn. rewrite app_nil_r. split; [reflexivity|lia].
  - destruct IHoutcomes as [IH1 IH2]. rewrite count_if_cons. cbn [slots_of].
    destruct H as [p h b' _ _ _ _ Eh En _ _ _ | code _ | p b' _ [_ [_ [Eh En]]] _ _ | p h _ _].
    + rewrite obt_obtained. cbn [obtained_res o_dp]. rewrite IH1, IH2, Eh, En, <- app_assoc. cbn [app].
      split; [reflexivity|lia].
    + rewrite obt_fail. rewrite IH1, IH2. split; [reflexivity|lia].
    + rewrite obt_use. rewrite IH1, IH2, Eh, En. split; [reflexivity|lia].
    + rewrite obt_refused. rewrite IH1, IH2. split; [reflexivity|lia].
Qed.

(* handlers that ran without a nonce: live, accepting, on opens with a protocol in common *)
Lemma outcomes_un : forall c t kn b qs b' rs, outcomes c t kn b qs b' rs ->
  forallb (fun x => live_match t (fst x) (snd x)) (flat_map o_un rs) = true /\
  Z.of_nat (length (flat_map o_un rs)) <=
  count_if (fun x => common t (fst x) && negb (obtained (snd x))) (combine qs rs).
Proof.
  intros c t kn b qs b' rs H. induction H.
  - cbn. split; [reflexivity|lia].
  - destruct IHoutcomes as [IH1 IH2]. cbn [flat_map combine]. rewrite forallb_app, app_length, count_if_cons.
    cbn [fst snd].
    destruct H as [p h b' _ _ _ _ _ _ _ | code _ | p b' _ _ _ _ | p h Hin Hf]; cbn [o_un obtained_res fail_res use_failed forallb length andb].
    + split; [exact IH1|]. destruct (_ && _); lia.
    + split; [exact IH1|]. destruct (_ && _); lia.
    + split; [exact IH1|]. destruct (_ && _); lia.
    + split.
      * cbn [fst snd]. rewrite (find_handler_live_match t p h Hf). exact IH1.
      * assert (Hc : common t q = true).
        { unfold common. apply existsb_exists. exists p. split; [exact Hin|].
          rewrite <- supports_matched. unfold supports. rewrite Hf. reflexivity. }
        rewrite Hc. unfold obtained in *. cbn [o_res o_use Z.eqb andb negb]. lia.
Qed.

(* exact accounting: each scope grows by the number of obtained streams bound to it *)
Lemma outcomes_counts : forall c t kn b qs b' rs, outcomes c t kn b qs b' rs ->
  forall q, b_out b' q = b_out b q + count_if (fun r => obtained r && (o_dp r =? q)) rs /\
            b_in b' q = b_in b q + count_if (fun r => obtained r && (o_dp r =? q)) rs.
Proof.
  intros c t kn b qs b' rs H. induction H; intros x.
  - cbn. lia.
  - rewrite count_if_cons. destruct (IHoutcomes x) as [IHo IHi]. rewrite IHo, IHi.
    destruct H as [p h b' _ _ Eo Ei _ _ _ | code _ | p b' _ [Eo [Ei _]] _ _ | p h _ _].
    + rewrite Eo, Ei, obt_obtained. unfold upd. cbn [obtained_res o_dp andb].
      rewrite (Z.eqb_sym p x). destruct (x =? p) eqn:E; [apply Z.eqb_eq in E; subst|]; lia.
    + rewrite obt_fail. cbn [andb]. lia.
    + rewrite Eo, Ei, obt_use. cbn [andb]. lia.
    + rewrite obt_refused. cbn [andb]. lia.
Qed.

(* ---- liveness clause -------------------------------------------------------------- *)
Lemma common_supports : forall t reqs, common t reqs = true ->
  exists q, In q reqs /\ supports t q = true.
Proof.
  intros t reqs H. unfold common in H. apply existsb_exists in H. destruct H as [q [Hin Hm]].
  exists q. split; [exact Hin|]. rewrite supports_matched. exact Hm.
Qed.

Lemma outcomes_mono_out : forall c t kn b qs b' rs, outcomes c t kn b qs b' rs ->
  forall p, b_out b p <= b_out b' p.
Proof.
  intros c t kn b qs b' rs H. induction H; intros p; [lia|].
  pose proof (proj2 (outcome_mono _ _ _ _ _ _ _ H) p). specialize (IHoutcomes p). lia.
Qed.

Lemma live_ok_holds : forall U hs c t kn knm b (q : oreq) r fo fin,
  (obtained r = false ->
   (exists p, In p (q_reqs q) /\ memz p kn = true /\ supports t p = false) \/
   (exists p, In p (q_reqs q) /\ (scope_try (limD c) (b_out b) p = None \/
                                  scope_try (limL c) (b_in b) p = None)) \/
   (c_limited c = true /\ q_allow q = false) \/
   (forall x, In x (q_reqs q) -> supports t x = false)) ->
  in_range U (q_reqs q) -> wf_cfg hs c ->
  (forall p, 0 <= p < U -> memz p knm = memz p kn) ->
  (forall p, b_out b p <= fo p) -> (forall p, b_in b p <= fin p) ->
  live_ok U hs c t knm (scope_vec U fo fin) q r = true.
Proof.
  intros U hs c t kn knm b q r fo fin Hwhy Hrange Hwf Hkn Hmo Hmi. unfold live_ok.
  destruct (common t (q_reqs q)) eqn:Hc; [|reflexivity].
  destruct (obtained r) eqn:Hob; [reflexivity|]. cbn [negb andb implb].
  destruct (Hwhy eq_refl) as [[p [Hin [Hk Hs]]] | [[p [Hin Hfull]] | [[Hl Ha] | Hnone]]].
  - apply orb_true_iff. left. apply orb_true_iff. left. apply existsb_exists. exists p.
    split; [exact Hin|]. rewrite (Hkn p (Hrange p Hin)), Hk, <- supports_matched, Hs. reflexivity.
  - apply orb_true_iff. left. apply orb_true_iff. right.
    pose proof (Hrange p Hin) as Hp. destruct Hwf as [[Hhs | Hneg] _].
    + rewrite Hhs. cbn [andb]. unfold scope_full. apply existsb_exists. exists p. split; [exact Hin|].
      rewrite vec_at_in, vec_at_out by exact Hp. apply orb_true_iff.
      destruct Hfull as [Hf|Hf]; apply scope_try_none in Hf; [right|left];
        apply andb_true_iff; split; apply Z.leb_le; [lia | specialize (Hmo p); lia | lia | specialize (Hmi p); lia].
    + exfalso. destruct (Hneg p). destruct Hfull as [Hf|Hf]; apply scope_try_none in Hf; lia.
  - apply orb_true_iff. right. rewrite Hl, Ha. reflexivity.
  - exfalso. destruct (common_supports _ _ Hc) as [x [Hx Hsx]]. rewrite (Hnone x Hx) in Hsx. discriminate.
Qed.

Section GenericLive.
  Variable ms_select : (Z -> bool) -> list Z -> option Z.
  Variable ms_lazy : (Z -> bool) -> Z -> bool.
  Hypothesis ms_select_some : forall sup l p, ms_select sup l = Some p ->
    exists l1 l2, l = l1 ++ p :: l2 /\ sup p = true /\ (forall q, In q l1 -> sup q = false).
  Hypothesis ms_select_none : forall sup l, ms_select sup l = None ->
    forall q, In q l -> sup q = false.
  Hypothesis ms_lazy_spec : forall sup p, ms_lazy sup p = sup p.

  Lemma run_batch_live : forall U hs opens c t kn knm fo fin b b' rs,
    run_batch ms_select ms_lazy c t kn b opens = (b', rs) ->
    (forall q, In q (reqs_of opens) -> in_range U q) -> wf_cfg hs c ->
    (forall p, 0 <= p < U -> memz p knm = memz p kn) ->
    (forall p, b_out b' p <= fo p) -> (forall p, b_in b' p <= fin p) ->
    forallb (fun x => live_ok U hs c t knm (scope_vec U fo fin) (fst x) (snd x)) (combine opens rs) = true.
  Proof.
    intros U hs opens. induction opens as [|q opens IH]; intros c t kn knm fo fin b b' rs H Hr Hwf Hkn Hfo Hfi;
      cbn [run_batch] in H.
    - inversion H; subst. reflexivity.
    - destruct (open1 ms_select ms_lazy c t kn b (q_reqs q) (q_extra q) (q_race q) (q_allow q)) as [b1 o] eqn:E1.
      destruct (run_batch ms_select ms_lazy c t kn b1 opens) as [b2 os] eqn:E2.
      inversion H; subst. cbn [combine forallb fst snd].
      pose proof (open1_outcome ms_select ms_lazy ms_select_some ms_lazy_spec _ _ _ _ _ _ _ _ _ _ E1) as Ho1.
      pose proof (run_batch_outcomes ms_select ms_lazy ms_select_some ms_lazy_spec _ _ _ _ _ _ _ E2) as Ho2.
      apply andb_true_iff. split.
      + eapply live_ok_holds with (b := b); eauto.
        * intros Hob. eapply open1_live; eauto.
        * apply Hr. left. reflexivity.
        * intros p. pose proof (proj2 (outcome_mono _ _ _ _ _ _ _ Ho1) p).
          pose proof (outcomes_mono_out _ _ _ _ _ _ _ Ho2 p). specialize (Hfo p). lia.
        * intros p. pose proof (proj1 (outcome_mono _ _ _ _ _ _ _ Ho1) p).
          pose proof (outcomes_mono _ _ _ _ _ _ _ Ho2 p). specialize (Hfi p). lia.
      + eapply IH; eauto. intros q0 Hq0. apply Hr. right. exact Hq0.
  Qed.
End GenericLive.

(* C07 — parked opens (Swarm.waitForDirectConn): the waiter list of the model
   wakes exactly the opens whose context did not end while they were parked. *)
From Coq Require Import List Arith ZArith Bool Lia.
From Verif Require Import lib.Wire c07.Model c07.Spec c07.Proofs.
Import ListNotations.
Local Open Scope Z_scope.

Lemma fold_register : forall l acc, fold_left park_register l acc = acc ++ l.
Proof.
  induction l as [|a l IH]; intros acc; cbn [fold_left]; [rewrite app_nil_r; reflexivity|].
  rewrite IH. unfold park_register. rewrite <- app_assoc. reflexivity.
Qed.

Lemma memz_expire : forall ws id a,
  memz id (park_expire ws a) = memz id ws && negb (id =? a).
Proof.
  induction ws as [|w ws IH]; intros id a; [reflexivity|].
  unfold park_expire in *. cbn [filter]. destruct (w =? a) eqn:E; cbn [negb].
  - rewrite IH. unfold memz. cbn [existsb]. fold (memz id ws).
    apply Z.eqb_eq in E. subst w. destruct (id =? a); cbn [orb negb andb]; [rewrite andb_false_r; reflexivity|reflexivity].
  - unfold memz in *. cbn [existsb]. rewrite IH.
    destruct (id =? w) eqn:E2; cbn [orb]; [|reflexivity].
    apply Z.eqb_eq in E2. subst w. rewrite E. reflexivity.
Qed.

Lemma memz_fold_expire : forall ex ws id,
  memz id (fold_left park_expire ex ws) = memz id ws && negb (memz id ex).
Proof.
  induction ex as [|a ex IH]; intros ws id; cbn [fold_left].
  - cbn. rewrite andb_true_r. reflexivity.
  - rewrite IH, memz_expire.
    change (memz id (a :: ex)) with ((id =? a) || memz id ex).
    rewrite negb_orb, andb_assoc. reflexivity.
Qed.

Lemma zrange_nodup : forall n a, NoDup (zrange a n).
Proof.
  induction n as [|n IH]; intros a; cbn [zrange]; constructor; [|apply IH].
  intros Hin. apply zrange_In in Hin. lia.
Qed.

Lemma combine_fst : forall {A B} (l : list A) (l' : list B),
  length l = length l' -> map fst (combine l l') = l.
Proof.
  induction l as [|a l IH]; intros [|b l'] H; try discriminate; [reflexivity|].
  cbn [combine map fst]. f_equal. apply IH. cbn in H. lia.
Qed.

Lemma combine_snd : forall {A B} (l : list A) (l' : list B),
  length l = length l' -> map snd (combine l l') = l'.
Proof.
  induction l as [|a l IH]; intros [|b l'] H; try discriminate; [reflexivity|].
  cbn [combine map snd]. f_equal. apply IH. cbn in H. lia.
Qed.

(* among entries with distinct names, a name is in the flagged part iff its own flag is set *)
Lemma flagged_mem : forall (l : list (Z * (bool * oreq))),
  NoDup (map fst l) -> forall x, In x l ->
  memz (fst x) (map fst (filter (fun y => fst (snd y)) l)) = fst (snd x).
Proof.
  induction l as [|a l IH]; intros ND x Hx; [destruct Hx|].
  cbn [map] in ND. inversion ND as [|y l0 Hnin ND']; subst.
  assert (Hsub : forall z, In z (map fst (filter (fun y => fst (snd y)) l)) -> In z (map fst l)).
  { intros z Hz. apply in_map_iff in Hz. destruct Hz as [y [E Hy]]. apply filter_In in Hy.
    rewrite <- E. apply in_map. tauto. }
  destruct Hx as [Hx|Hx].
  - subst x. cbn [filter]. destruct (fst (snd a)) eqn:Ef.
    + cbn [map]. unfold memz. cbn [existsb]. rewrite Z.eqb_refl. reflexivity.
    + apply memz_false. intros Hin. apply Hnin. apply Hsub. exact Hin.
  - assert (Hne : (fst x =? fst a) = false).
    { apply Z.eqb_neq. intros E. apply Hnin. rewrite <- E. apply in_map. exact Hx. }
    cbn [filter]. destruct (fst (snd a)).
    + cbn [map]. unfold memz. cbn [existsb]. rewrite Hne. cbn [orb]. apply IH; assumption.
    + apply IH; assumption.
Qed.

(* the direct connection wakes exactly the parked opens whose context did not end *)
Lemma park_woken_spec : forall popens x,
  In x (combine (park_ids popens) popens) ->
  memz (fst x) (park_woken popens) = negb (fst (snd x)).
Proof.
  intros popens x Hx. unfold park_woken, park_notify. cbn [fst].
  rewrite fold_register. cbn [app]. rewrite memz_fold_expire.
  assert (Hlen : length (park_ids popens) = length popens) by (unfold park_ids; apply zrange_length).
  assert (Hin : memz (fst x) (park_ids popens) = true).
  { apply memz_In. destruct x as [i y]. apply in_combine_l in Hx. exact Hx. }
  rewrite Hin. cbn [andb]. f_equal. unfold park_expired.
  apply flagged_mem; [|exact Hx].
  rewrite (combine_fst _ _ Hlen). unfold park_ids. apply zrange_nodup.
Qed.

Lemma park_batch_view : forall popens, park_batch popens = park_view popens.
Proof.
  intros popens. unfold park_batch, park_view.
  assert (Hlen : length (park_ids popens) = length popens) by (unfold park_ids; apply zrange_length).
  transitivity (map (fun x : bool * oreq => let q := snd x in
                       mkReq (q_reqs q) (q_extra q) (q_race q) (negb (fst x)))
                    (map snd (combine (park_ids popens) popens))).
  2:{ rewrite (combine_snd _ _ Hlen). reflexivity. }
  rewrite map_map.
  apply map_ext_in. intros x Hx. rewrite (park_woken_spec popens x Hx). reflexivity.
Qed.

Lemma nth_error_combine_zrange : forall (e : bool) (q : oreq) l k a, nth_error l k = Some (e, q) ->
  In (a + Z.of_nat k, (e, q)) (combine (zrange a (length l)) l).
Proof.
  intros e q. induction l as [|y l IH]; intros [|k] a0 H; try discriminate; cbn [length zrange combine].
  - cbn in H. inversion H; subst. left. f_equal. lia.
  - right. cbn [nth_error] in H. specialize (IH k (a0 + 1) H).
    replace (a0 + Z.of_nat (S k)) with (a0 + 1 + Z.of_nat k) by lia. exact IH.
Qed.

(* the sentence itself: whatever is registered before or after it, an open whose
   context ends takes only its own entry with it; every other parked open is
   woken by the direct connection *)
Lemma park_wakes_all_others : forall popens i e q,
  nth_error popens i = Some (e, q) ->
  memz (Z.of_nat i) (park_woken popens) = negb e.
Proof.
  intros popens i e q Hn.
  pose proof (nth_error_combine_zrange e q popens i 0 Hn) as Hin. cbn [Z.add] in Hin.
  exact (park_woken_spec popens _ Hin).
Qed.

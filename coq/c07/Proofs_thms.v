(* C07 — the sentences of the property as lemmas over the model. *)
From Coq Require Import List Arith ZArith Bool Lia.
From Verif Require Import lib.Wire c07.Model c07.Spec c07.Proofs c07.Proofs_trace.
Import ListNotations.
Local Open Scope Z_scope.

(* ---- the executable instance satisfies the documented behaviour ----------- *)
Lemma impl_select_some : forall sup l p, ms_select_impl sup l = Some p ->
  exists l1 l2, l = l1 ++ p :: l2 /\ sup p = true /\ (forall q, In q l1 -> sup q = false).
Proof.
  unfold ms_select_impl. induction l as [|a l IH]; intros p H; [discriminate|].
  cbn [find] in H. destruct (sup a) eqn:E.
  - inversion H; subst. exists [], l. repeat split; auto. intros q [].
  - destruct (IH p H) as [l1 [l2 [E1 [E2 E3]]]]. exists (a :: l1), l2. subst l.
    repeat split; auto. intros q [Hq|Hq]; [subst; exact E | auto].
Qed.

Lemma impl_select_none : forall sup l, ms_select_impl sup l = None ->
  forall q, In q l -> sup q = false.
Proof.
  unfold ms_select_impl. intros sup l H q Hq. destruct (sup q) eqn:E; [|reflexivity].
  exfalso. eapply find_none in H; eauto. congruence.
Qed.

Lemma impl_lazy_spec : forall sup p, ms_lazy_impl sup p = sup p.
Proof. reflexivity. Qed.

Section GenericThms.
  Variable ms_select : (Z -> bool) -> list Z -> option Z.
  Variable ms_lazy : (Z -> bool) -> Z -> bool.
  Hypothesis ms_select_some : forall sup l p, ms_select sup l = Some p ->
    exists l1 l2, l = l1 ++ p :: l2 /\ sup p = true /\ (forall q, In q l1 -> sup q = false).
  Hypothesis ms_lazy_spec : forall sup p, ms_lazy sup p = sup p.

  Let open1' := open1 ms_select ms_lazy.

  (* agreement *)
  Lemma agreement_l : forall c t kn b reqs extra race allow b' r,
    open1' c t kn b reqs extra race allow = (b', r) -> obtained r = true ->
    In (o_dp r) reqs /\ o_lp r = o_dp r /\ o_ninv r = 1 /\ o_hreg r = o_h r /\ o_hlp r = o_dp r /\
    o_un r = [] /\
    exists pre h post, t = pre ++ h :: post /\ h_reg h = o_h r /\
      memz (o_dp r) (h_acc h) = true /\ (forall x, In x pre -> memz (o_dp r) (h_acc x) = false).
  Proof.
    intros c t kn b reqs extra race allow b' r H Hob.
    apply (open1_outcome ms_select ms_lazy ms_select_some ms_lazy_spec) in H.
    destruct H as [p h b' Hin Hf _ _ _ _ _ | code Hcode | p b' _ _ _ _ | p h _ _].
    - cbn [obtained_res o_dp o_lp o_ninv o_hreg o_h o_hlp o_un]. repeat (split; [auto|]).
      destruct (find_handler_first t p h Hf) as [pre [post [E1 [E2 E3]]]].
      exists pre, h, post. auto.
    - rewrite obt_fail in Hob. discriminate.
    - rewrite obt_use in Hob. discriminate.
    - rewrite obt_refused in Hob. discriminate.
  Qed.

  (* no protocol in common *)
  Lemma no_common_l : forall c t kn b reqs extra race allow b' r,
    (forall q, In q reqs -> supports t q = false) ->
    open1' c t kn b reqs extra race allow = (b', r) ->
    obtained r = false /\ o_ninv r = 0 /\ o_un r = [] /\ same_counts b b' /\
    (o_res r <> 0 \/ (o_use r = 0 /\ memz (o_dp r) kn = true)).
  Proof.
    intros c t kn b reqs extra race allow b' r Hno H.
    apply (open1_outcome ms_select ms_lazy ms_select_some ms_lazy_spec) in H.
    destruct H as [p h b' Hin Hf _ _ _ _ _ | code Hcode | p b' Hin Hsc _ Hex | p h Hin Hf].
    - exfalso. specialize (Hno p Hin). unfold supports in Hno. rewrite Hf in Hno. discriminate.
    - rewrite obt_fail. cbn [fail_res o_ninv o_un o_res]. repeat split; auto.
    - rewrite obt_use. cbn [use_failed o_ninv o_un o_res o_use o_dp].
      destruct Hsc as [E1 [E2 [E3 E4]]]. repeat split; auto.
      right. split; [reflexivity|]. destruct Hex as [[_ Hk]|[Hs _]]; [exact Hk|].
      rewrite (Hno p Hin) in Hs. discriminate.
    - exfalso. specialize (Hno p Hin). unfold supports in Hno. rewrite Hf in Hno. discriminate.
  Qed.

  (* the charge *)
  Lemma scope_charged_l : forall c t kn b reqs extra race allow b' r,
    open1' c t kn b reqs extra race allow = (b', r) ->
    if obtained r
    then b_out b' = upd (b_out b) (o_dp r) (b_out b (o_dp r) + 1) /\
         b_in b' = upd (b_in b) (o_lp r) (b_in b (o_lp r) + 1) /\
         b_held b' = b_held b ++ [(b_nslot b, o_dp r)] /\
         scope_try (limD c) (b_out b) (o_dp r) <> None /\
         scope_try (limL c) (b_in b) (o_dp r) <> None
    else same_counts b b'.
  Proof.
    intros c t kn b reqs extra race allow b' r H.
    pose proof (open1_outcome ms_select ms_lazy ms_select_some ms_lazy_spec _ _ _ _ _ _ _ _ _ _ H) as Ho.
    destruct Ho as [p h b' Hin Hf Eo Ei Eh _ _ ED EL | code Hcode | p b' _ Hsc _ _ | p h _ _].
    - rewrite obt_obtained. cbn [obtained_res o_dp o_lp]. repeat (split; [assumption|]).
      split; congruence.
    - rewrite obt_fail. repeat split.
    - rewrite obt_use. exact Hsc.
    - rewrite obt_refused. repeat split.
  Qed.
End GenericThms.

(* ---- instantiated statements (what Properties.v exports) ------------------- *)
Require Import Verif.c07.Proofs_hist.

Definition open1_i := open1 ms_select_impl ms_lazy_impl.

Lemma holds_model_any : forall ms_select ms_lazy,
  (forall sup l p, ms_select sup l = Some p ->
     exists l1 l2, l = l1 ++ p :: l2 /\ sup p = true /\ (forall q, In q l1 -> sup q = false)) ->
  (forall sup l, ms_select sup l = None -> forall q, In q l -> sup q = false) ->
  (forall sup p, ms_lazy sup p = sup p) ->
  forall U hs c ops, wf_cfg hs c -> Forall (wf_op U) ops ->
  holds U hs c (trace ms_select ms_lazy U c init_st ops) = true.
Proof.
  intros ms_select ms_lazy H1 Hn H2 U hs c ops Hwf Hops. unfold holds.
  rewrite (mon_accepts_trace ms_select ms_lazy H1 Hn H2 U hs c ops init_st (mon_init U) 0 Hwf
             (coupled_init U hs) Hops). reflexivity.
Qed.

Lemma holds_model_i : forall U hs c ops, wf_cfg hs c -> Forall (wf_op U) ops ->
  holds U hs c (trace_i U c init_st ops) = true.
Proof. intros. apply holds_model_any; [exact impl_select_some | exact impl_select_none | exact impl_lazy_spec | assumption | assumption]. Qed.

Lemma agreement_i : forall c t kn b reqs extra race allow b' r,
  open1_i c t kn b reqs extra race allow = (b', r) -> obtained r = true ->
  In (o_dp r) reqs /\ o_lp r = o_dp r /\ o_ninv r = 1 /\ o_hreg r = o_h r /\ o_hlp r = o_dp r /\
  o_un r = [] /\
  exists pre h post, t = pre ++ h :: post /\ h_reg h = o_h r /\
    memz (o_dp r) (h_acc h) = true /\ (forall x, In x pre -> memz (o_dp r) (h_acc x) = false).
Proof. exact (agreement_l ms_select_impl ms_lazy_impl impl_select_some impl_lazy_spec). Qed.

Lemma no_common_i : forall c t kn b reqs extra race allow b' r,
  (forall q, In q reqs -> supports t q = false) ->
  open1_i c t kn b reqs extra race allow = (b', r) ->
  obtained r = false /\ o_ninv r = 0 /\ o_un r = [] /\ same_counts b b' /\
  (o_res r <> 0 \/ (o_use r = 0 /\ memz (o_dp r) kn = true)).
Proof. exact (no_common_l ms_select_impl ms_lazy_impl impl_select_some impl_lazy_spec). Qed.

Lemma scope_charged_i : forall c t kn b reqs extra race allow b' r,
  open1_i c t kn b reqs extra race allow = (b', r) ->
  if obtained r
  then b_out b' = upd (b_out b) (o_dp r) (b_out b (o_dp r) + 1) /\
       b_in b' = upd (b_in b) (o_lp r) (b_in b (o_lp r) + 1) /\
       b_held b' = b_held b ++ [(b_nslot b, o_dp r)] /\
       scope_try (limD c) (b_out b) (o_dp r) <> None /\
       scope_try (limL c) (b_in b) (o_dp r) <> None
  else same_counts b b'.
Proof. exact (scope_charged_l ms_select_impl ms_lazy_impl impl_select_some impl_lazy_spec). Qed.

Lemma removed_never_runs_i : forall U c ops1 o name ops2 e,
  replaces o name ->
  In e (tbl (run_i U c init_st ops1)) -> h_name e = name ->
  forall o' x, In (o', x) (trace_i U c (fst (step_i U c (run_i U c init_st ops1) o)) ops2) ->
               ~ In (h_reg e) (obs_ran x).
Proof.
  intros U c ops1 o name ops2 e Hrep He Hname o' x Hin.
  pose proof (tinv_run ms_select_impl ms_lazy_impl U c ops1 init_st tinv_init) as Hi.
  fold (run_i U c init_st ops1) in Hi.
  eapply (absent_never_runs ms_select_impl ms_lazy_impl impl_select_some impl_lazy_spec); [| |exact Hin].
  - apply tinv_step. exact Hi.
  - eapply absent_after_replace; eauto.
Qed.

Lemma scopes_count_held_i : forall U c ops q,
  let s := run_i U c init_st ops in
  outD s q = count_held q (held s) /\ inL s q = count_held q (held s).
Proof.
  intros U c ops q s.
  pose proof (sinv_run ms_select_impl ms_lazy_impl impl_select_some impl_lazy_spec U c ops init_st sinv_init) as [So Si _ _].
  split; [apply So | apply Si].
Qed.

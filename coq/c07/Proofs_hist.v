(* C07 — history invariants: a removed / replaced closure never runs again;
   protocol scopes count exactly the streams both ends hold. *)
From Coq Require Import List Arith ZArith Bool Lia.
From Verif Require Import lib.Wire c07.Model c07.Spec c07.Proofs c07.Proofs_trace.
Import ListNotations.
Local Open Scope Z_scope.

(* registration indices of the closures that ran during an observation *)
Definition ran_regs (rs : list ores) : list Z :=
  flat_map (fun r => (if 0 <? o_ninv r then [o_hreg r] else []) ++ map fst (o_un r)) rs.
Definition obs_ran (x : obs) : list Z :=
  match x with ObBatch rs _ _ _ => ran_regs rs | ObPark _ rs _ _ _ => ran_regs rs | _ => [] end.

Lemma outcomes_ran : forall c t kn b qs b' rs, outcomes c t kn b qs b' rs ->
  forall reg, In reg (ran_regs rs) -> exists e, In e t /\ h_reg e = reg.
Proof.
  intros c t kn b qs b' rs H. induction H; intros reg Hin; [destruct Hin|].
  unfold ran_regs in Hin. cbn [flat_map] in Hin. apply in_app_or in Hin. destruct Hin as [Hin|Hin].
  2:{ apply IHoutcomes. exact Hin. }
  destruct H as [p h b' _ Hf _ _ _ _ _ _ _ | code _ | p b' _ _ _ _ | p h _ Hf];
    cbn [obtained_res fail_res use_failed o_ninv o_hreg o_un map app] in Hin.
  - cbn in Hin. destruct Hin as [Hin|[]]. subst. exists h. split; [|reflexivity].
    apply find_handler_some in Hf. tauto.
  - destruct Hin.
  - destruct Hin.
  - cbn in Hin. destruct Hin as [Hin|[]]. subst. exists h. split; [|reflexivity].
    apply find_handler_some in Hf. tauto.
Qed.

Record tinv (s : st) : Prop := mkTinv {
  ti_names : NoDup (map h_name (tbl s));
  ti_regs : NoDup (map h_reg (tbl s));
  ti_lt : forall e, In e (tbl s) -> h_reg e < nreg s }.

Definition absent (reg : Z) (s : st) : Prop :=
  reg < nreg s /\ forall x, In x (tbl s) -> h_reg x <> reg.

Lemma filter_map_nodup : forall {B} (f : hent -> B) (g : hent -> bool) t,
  NoDup (map f t) -> NoDup (map f (filter g t)).
Proof.
  induction t as [|a t IH]; intros ND; [exact ND|]. cbn [map] in ND. inversion ND; subst.
  cbn [filter]. destruct (g a); [|auto]. cbn [map]. constructor; [|auto].
  intros Hin. apply H1. apply in_map_iff in Hin. destruct Hin as [y [E Hy]].
  apply filter_In in Hy. rewrite <- E. apply in_map. tauto.
Qed.

Lemma NoDup_map_inj : forall {A B} (f : A -> B) l x y,
  NoDup (map f l) -> In x l -> In y l -> f x = f y -> x = y.
Proof.
  induction l as [|a l IH]; intros x y ND Hx Hy E; [destruct Hx|].
  cbn [map] in ND. inversion ND; subst. destruct Hx as [Hx|Hx], Hy as [Hy|Hy]; subst; auto.
  - exfalso. apply H1. rewrite E. apply in_map. exact Hy.
  - exfalso. apply H1. rewrite <- E. apply in_map. exact Hx.
Qed.

Lemma tinv_add : forall s name acc,
  tinv s ->
  NoDup (map h_reg (add_handler (tbl s) name acc (nreg s))) /\
  (forall e, In e (add_handler (tbl s) name acc (nreg s)) -> h_reg e < nreg s + 1).
Proof.
  intros s name acc [Hn Hr Hlt]. unfold add_handler. rewrite (remove_handler_filter name _ Hn). split.
  - rewrite map_app. cbn [map h_reg]. apply NoDup_snoc; [apply filter_map_nodup; exact Hr|].
    intros Hin. apply in_map_iff in Hin. destruct Hin as [y [E Hy]]. apply filter_In in Hy.
    destruct Hy as [Hy _]. specialize (Hlt y Hy). lia.
  - intros e Hin. apply in_app_or in Hin. destruct Hin as [Hin|[Hin|[]]].
    + apply filter_In in Hin. destruct Hin as [Hin _]. specialize (Hlt e Hin). lia.
    + subst e. cbn. lia.
Qed.

Section GenericHist.
  Variable ms_select : (Z -> bool) -> list Z -> option Z.
  Variable ms_lazy : (Z -> bool) -> Z -> bool.
  Hypothesis ms_select_some : forall sup l p, ms_select sup l = Some p ->
    exists l1 l2, l = l1 ++ p :: l2 /\ sup p = true /\ (forall q, In q l1 -> sup q = false).
  Hypothesis ms_lazy_spec : forall sup p, ms_lazy sup p = sup p.

  Let step' := step ms_select ms_lazy.

  Lemma tinv_step : forall U c s o, tinv s -> tinv (fst (step' U c s o)).
  Proof.
    intros U c s o Hi. pose proof Hi as [Hn Hr Hlt].
    destruct o as [name | name acc | name | k | opens | slot how | slot side q | dir wt | popens]; unfold step'; cbn [step fst].
    - destruct (tinv_add s name [name] Hi) as [A B].
      constructor; cbn; [apply (add_handler_live _ _ _ _ Hn) | exact A | exact B].
    - destruct (tinv_add s name acc Hi) as [A B].
      constructor; cbn; [apply (add_handler_live _ _ _ _ Hn) | exact A | exact B].
    - constructor; cbn.
      + rewrite (remove_handler_filter name _ Hn). apply filter_map_nodup. exact Hn.
      + rewrite (remove_handler_filter name _ Hn). apply filter_map_nodup. exact Hr.
      + intros e He. apply Hlt. eapply remove_handler_subset. exact He.
    - constructor; cbn; assumption.
    - destruct (run_batch _ _ _ _ _ _ _) as [b rs]. constructor; cbn; assumption.
    - destruct (find _ (held s)) as [[sl p]|]; cbn [fst]; [constructor; cbn; assumption | exact Hi].
    - exact Hi.
    - constructor; cbn; assumption.
    - destruct (run_batch _ _ _ _ _ _ _) as [b rs]. constructor; cbn; assumption.
  Qed.

  Lemma absent_step : forall U c s o reg, tinv s -> absent reg s -> absent reg (fst (step' U c s o)).
  Proof.
    intros U c s o reg [Hn Hr Hlt] [Ha1 Ha2].
    destruct o as [name | name acc | name | k | opens | slot how | slot side q | dir wt | popens]; unfold step'; cbn [step fst].
    - split; cbn; [lia|]. intros x Hx. unfold add_handler in Hx. apply in_app_or in Hx.
      destruct Hx as [Hx|[Hx|[]]]; [apply Ha2; eapply remove_handler_subset; exact Hx|]. subst x. cbn. lia.
    - split; cbn; [lia|]. intros x Hx. unfold add_handler in Hx. apply in_app_or in Hx.
      destruct Hx as [Hx|[Hx|[]]]; [apply Ha2; eapply remove_handler_subset; exact Hx|]. subst x. cbn. lia.
    - split; cbn; [lia|]. intros x Hx. apply Ha2. eapply remove_handler_subset. exact Hx.
    - split; cbn; assumption.
    - destruct (run_batch _ _ _ _ _ _ _) as [b rs]. split; cbn; assumption.
    - destruct (find _ (held s)) as [[sl p]|]; cbn [fst]; split; cbn; assumption.
    - split; assumption.
    - split; cbn; assumption.
    - destruct (run_batch _ _ _ _ _ _ _) as [b rs]. split; cbn; assumption.
  Qed.

  (* the op that ends the life of the closure registered under [name] *)
  Definition replaces (o : op) (name : Z) : Prop :=
    match o with
    | ORemove n | OAdd n | OAddMatch n _ => n = name
    | _ => False
    end.

  Lemma absent_after_replace : forall U c s o name e,
    tinv s -> replaces o name -> In e (tbl s) -> h_name e = name ->
    absent (h_reg e) (fst (step' U c s o)).
  Proof.
    intros U c s o name e [Hn Hr Hlt] Hrep He Hname.
    assert (Hfil : forall x, In x (filter (fun y => negb (h_name y =? name)) (tbl s)) -> h_reg x <> h_reg e).
    { intros x Hx. apply filter_In in Hx. destruct Hx as [Hx Hneq]. intros E.
      assert (x = e) by (eapply (NoDup_map_inj h_reg); eauto). subst x.
      rewrite Hname, Z.eqb_refl in Hneq. discriminate. }
    pose proof (Hlt e He) as Hlte.
    destruct o as [n | n acc | n | k | opens | slot how | slot side q | dir wt | popens]; cbn in Hrep; try contradiction; subst n;
      unfold step'; cbn [step fst]; split; cbn; try lia.
    - intros x Hx. unfold add_handler in Hx. rewrite (remove_handler_filter _ _ Hn) in Hx.
      apply in_app_or in Hx. destruct Hx as [Hx|[Hx|[]]]; [apply Hfil; exact Hx|]. subst x. cbn. lia.
    - intros x Hx. unfold add_handler in Hx. rewrite (remove_handler_filter _ _ Hn) in Hx.
      apply in_app_or in Hx. destruct Hx as [Hx|[Hx|[]]]; [apply Hfil; exact Hx|]. subst x. cbn. lia.
    - intros x Hx. rewrite (remove_handler_filter _ _ Hn) in Hx. apply Hfil. exact Hx.
  Qed.

  Lemma absent_never_runs : forall U c ops s reg,
    tinv s -> absent reg s ->
    forall o x, In (o, x) (trace ms_select ms_lazy U c s ops) -> ~ In reg (obs_ran x).
  Proof.
    intros U c ops. induction ops as [|o ops IH]; intros s reg Hi Ha o' x Hin; [destruct Hin|].
    cbn [trace] in Hin. destruct (step ms_select ms_lazy U c s o) as [s' y] eqn:E.
    destruct Hin as [Hin|Hin].
    - inversion Hin; subst o' x. clear Hin.
      destruct o as [name | name acc | name | k | opens | slot how | slot side q | dir wt | popens]; cbn [step] in E;
        try (inversion E; subst; intros []; fail).
      + destruct (run_batch _ _ _ _ _ _ _) as [b rs] eqn:Eb. inversion E; subst. cbn [obs_ran].
        intros Hr. apply (run_batch_outcomes ms_select ms_lazy ms_select_some ms_lazy_spec) in Eb.
        destruct (outcomes_ran _ _ _ _ _ _ _ Eb reg Hr) as [e [He Hreg]].
        destruct Ha as [_ Ha]. apply (Ha e He). exact Hreg.
      + destruct (find _ (held s)) as [[sl p]|]; inversion E; subst; intros [].
      + destruct (find _ (held s)) as [[sl p]|]; [destruct (c_rcmgr c); [|destruct (side =? 0)]|];
          inversion E; subst; intros [].
      + destruct (run_batch _ _ _ _ _ _ _) as [b rs] eqn:Eb. inversion E; subst. cbn [obs_ran].
        intros Hr. apply (run_batch_outcomes ms_select ms_lazy ms_select_some ms_lazy_spec) in Eb.
        destruct (outcomes_ran _ _ _ _ _ _ _ Eb reg Hr) as [e [He Hreg]].
        destruct Ha as [_ Ha]. apply (Ha e He). exact Hreg.
    - pose proof (tinv_step U c s o Hi) as Hi'. pose proof (absent_step U c s o reg Hi Ha) as Ha'.
      unfold step' in Hi', Ha'. rewrite E in Hi', Ha'. cbn [fst] in Hi', Ha'.
      eapply IH; eauto.
  Qed.

  Lemma tinv_run : forall U c ops s, tinv s -> tinv (run ms_select ms_lazy U c s ops).
  Proof.
    intros U c ops. induction ops as [|o ops IH]; intros s Hi; [exact Hi|].
    cbn [run]. apply IH. apply tinv_step. exact Hi.
  Qed.
End GenericHist.

Lemma tinv_init : tinv init_st.
Proof. constructor; cbn; [constructor | constructor | intros e []]. Qed.

(* ---- scopes count exactly the held streams, on both sides ------------------- *)
Definition count_held (q : Z) (h : list (Z * Z)) : Z := count_if (fun x => snd x =? q) h.

Record sinv (o i : Z -> Z) (h : list (Z * Z)) (n : Z) : Prop := mkSinv {
  si_out : forall q, o q = count_held q h;
  si_in : forall q, i q = count_held q h;
  si_slots : NoDup (map fst h);
  si_lt : forall x, In x h -> fst x < n }.

Lemma count_if_app : forall {A} (f : A -> bool) a b, count_if f (a ++ b) = count_if f a + count_if f b.
Proof.
  intros A f a b. induction a as [|x a IH]; [unfold count_if; cbn [app fold_right]; lia|].
  cbn [app]. rewrite !count_if_cons, IH. lia.
Qed.

Lemma outcome_sinv : forall c t kn b q b' r, outcome c t kn b q b' r ->
  sinv (b_out b) (b_in b) (b_held b) (b_nslot b) ->
  sinv (b_out b') (b_in b') (b_held b') (b_nslot b').
Proof.
  intros c t kn b q b' r H [So Si Sn Sl].
  destruct H as [p h b' _ _ Eo Ei Eh En _ _ _ | code _ | p b' _ [Eo [Ei [Eh En]]] _ _ | p h _ _].
  - rewrite Eo, Ei, Eh, En. constructor.
    + intros x. unfold count_held. rewrite count_if_app, count_if_cons. cbn [snd count_if fold_right].
      unfold upd. fold (count_held x (b_held b)). rewrite <- So.
      rewrite (Z.eqb_sym p x). destruct (x =? p) eqn:E; [apply Z.eqb_eq in E; subst|]; lia.
    + intros x. unfold count_held. rewrite count_if_app, count_if_cons. cbn [snd count_if fold_right].
      unfold upd. fold (count_held x (b_held b)). rewrite <- Si.
      rewrite (Z.eqb_sym p x). destruct (x =? p) eqn:E; [apply Z.eqb_eq in E; subst|]; lia.
    + rewrite map_app. cbn [map fst]. apply NoDup_snoc; [exact Sn|].
      intros Hin. apply in_map_iff in Hin. destruct Hin as [y [E Hy]]. specialize (Sl y Hy). lia.
    + intros x Hx. apply in_app_or in Hx. destruct Hx as [Hx|[Hx|[]]]; [specialize (Sl x Hx); lia|].
      subst x. cbn. lia.
  - constructor; assumption.
  - rewrite Eo, Ei, Eh, En. constructor; assumption.
  - constructor; assumption.
Qed.

Lemma outcomes_sinv : forall c t kn b qs b' rs, outcomes c t kn b qs b' rs ->
  sinv (b_out b) (b_in b) (b_held b) (b_nslot b) ->
  sinv (b_out b') (b_in b') (b_held b') (b_nslot b').
Proof.
  intros c t kn b qs b' rs H. induction H; intros Hs; [exact Hs|].
  apply IHoutcomes. eapply outcome_sinv; eauto.
Qed.

Lemma close_count : forall h slot sl p q,
  NoDup (map fst h) -> find (fun x => fst x =? slot) h = Some (sl, p) ->
  count_held q (filter (fun x => negb (fst x =? slot)) h) =
  count_held q h - (if p =? q then 1 else 0).
Proof.
  induction h as [|[s0 p0] h IH]; intros slot sl p q ND Hf; [discriminate|].
  cbn [map fst] in ND. inversion ND as [|x l Hnin ND']; subst.
  cbn [find fst] in Hf. cbn [filter fst]. destruct (s0 =? slot) eqn:E.
  - inversion Hf; subst. apply Z.eqb_eq in E. subst. cbn [negb].
    rewrite filter_all_true.
    + unfold count_held. rewrite count_if_cons. cbn [snd]. lia.
    + intros y Hy. apply negb_true_iff. apply Z.eqb_neq. intros Heq. apply Hnin.
      rewrite <- Heq. apply in_map. exact Hy.
  - cbn [negb]. unfold count_held in *. rewrite !count_if_cons. cbn [snd].
    rewrite (IH slot sl p q ND' Hf). lia.
Qed.

Section GenericScope.
  Variable ms_select : (Z -> bool) -> list Z -> option Z.
  Variable ms_lazy : (Z -> bool) -> Z -> bool.
  Hypothesis ms_select_some : forall sup l p, ms_select sup l = Some p ->
    exists l1 l2, l = l1 ++ p :: l2 /\ sup p = true /\ (forall q, In q l1 -> sup q = false).
  Hypothesis ms_lazy_spec : forall sup p, ms_lazy sup p = sup p.

  Definition sinv_st (s : st) : Prop := sinv (outD s) (inL s) (held s) (nslot s).

  Lemma sinv_step : forall U c s o, sinv_st s -> sinv_st (fst (step ms_select ms_lazy U c s o)).
  Proof.
    intros U c s o Hs. destruct o as [name | name acc | name | k | opens | slot how | slot side q | dir wt | popens]; cbn [step fst];
      try exact Hs.
    - destruct (run_batch _ _ _ _ _ _ _) as [b rs] eqn:Eb. cbn [fst]. unfold sinv_st. cbn.
      apply (run_batch_outcomes ms_select ms_lazy ms_select_some ms_lazy_spec) in Eb.
      apply (outcomes_sinv _ _ _ _ _ _ _ Eb). exact Hs.
    - destruct (find _ (held s)) as [[sl p]|] eqn:Ef; cbn [fst]; [|exact Hs].
      destruct Hs as [So Si Sn Sl]. unfold sinv_st. cbn. constructor.
      + intros q. rewrite (close_count _ _ _ _ q Sn Ef). unfold scope_release, upd.
        rewrite (Z.eqb_sym p q). destruct (q =? p) eqn:E; [apply Z.eqb_eq in E; subst; rewrite So|rewrite So]; lia.
      + intros q. rewrite (close_count _ _ _ _ q Sn Ef). unfold scope_release, upd.
        rewrite (Z.eqb_sym p q). destruct (q =? p) eqn:E; [apply Z.eqb_eq in E; subst; rewrite Si|rewrite Si]; lia.
      + clear - Sn. induction (held s) as [|a l IH]; [constructor|]. cbn [map] in Sn. inversion Sn; subst.
        cbn [filter]. destruct (negb _); [|auto]. cbn [map]. constructor; [|auto].
        intros Hin. apply H1. apply in_map_iff in Hin. destruct Hin as [y [E Hy]]. apply filter_In in Hy.
        rewrite <- E. apply in_map. tauto.
      + intros x Hx. apply filter_In in Hx. apply Sl. tauto.
    - unfold sinv_st. cbn. constructor; cbn; try (intros; reflexivity); [constructor | intros x []].
    - destruct (run_batch _ _ _ _ _ _ _) as [b rs] eqn:Eb. cbn [fst]. unfold sinv_st. cbn.
      apply (run_batch_outcomes ms_select ms_lazy ms_select_some ms_lazy_spec) in Eb.
      apply (outcomes_sinv _ _ _ _ _ _ _ Eb). exact Hs.
  Qed.

  Lemma sinv_run : forall U c ops s, sinv_st s -> sinv_st (run ms_select ms_lazy U c s ops).
  Proof.
    intros U c ops. induction ops as [|o ops IH]; intros s Hs; [exact Hs|].
    cbn [run]. apply IH. apply sinv_step. exact Hs.
  Qed.
End GenericScope.

Lemma sinv_init : sinv_st init_st.
Proof. constructor; cbn; try (intros; reflexivity); [constructor | intros x []]. Qed.

(* C07 — the property as a decidable predicate over observable traces
   (monitor), and the decoding of correspondence lines.  No proofs here.

   Wire format (one case per line):
     7 kind flags U  limD_0..limD_{U-1}  limL_0..limL_{U-1}  op*
       kind   0 mocknet hosts | 1 tcp+noise+yamux hosts (informative)
       flags  bit0: real resource managers (scope columns meaningful)
              bit1: the connection between the hosts is a limited (relayed) one
              bit2: the dialer is a BlankHost
       U      size of the protocol universe; protocol IDs are 0..U-1
       limD_p / limL_p  outbound (dialer) / inbound (listener) stream limit of
                        protocol p's scope; -1 = unlimited
     op =
       1 name                    SetStreamHandler on the listener        obs MUX
       2 name m a_1..a_m         SetStreamHandlerMatch, accepted set a   obs MUX
       3 name                    RemoveStreamHandler                     obs MUX
       4 m p_1..p_m              dialer peerstore SetProtocols(listener) obs KNOW
       5 n (mode m r_1..r_m)^n   n concurrent NewStream(r) + first use; mode bit0: the
                                 context allows limited connections
            obs (res dp use h lp ninv hreg hlp)^n  u (reg lp)^u  KNOW SCOPE
       6 slot how                close/reset both ends of held stream    obs SCOPE
       8 slot side q             SetProtocol(q) once more on the dialer's (side 0) /
                                 listener's (1) end of held stream slot     obs err dl ll
                                 (err 1 = refused; dl ll = Protocol() of both ends after; -1s: not held)
       7 dir wait                the connection is closed, a new one is made below the
                                 host (dir 0 dialer's swarm dials, 1 listener dials);
                                 wait 0: the next op races identify         obs MUX SCOPE
       9 n (mode m r_1..r_m)^n   n NewStream(r) whose context does not allow the limited connection
                                 are parked in this order until a direct connection exists; mode bit5:
                                 the open's context ends while it is parked (before the next one of
                                 those ends; the others are within their deadline); then the listener
                                 dials the dialer directly; obtained streams are closed (op 6) and the
                                 direct connection is closed again before the next op
            obs MUX (res dp use h lp ninv hreg hlp)^n  u (reg lp)^u  KNOW SCOPE
                                 (MUX: what the listener advertises when the direct connection appears)
     MUX   = k p_1..p_k   listener Mux().Protocols() within the universe, in order
     KNOW  = k q_1..q_k   dialer's knowledge about the listener, sorted
     SCOPE = outD_0..outD_{U-1} inL_0..inL_{U-1}  protocol-scope Stat(): streams
             outbound on the dialer / inbound on the listener
     res dp use h lp ninv hreg hlp: see Model.ores; (reg lp)^u: handlers that ran
     without reading any open's nonce, sorted. *)
From Coq Require Import List Arith ZArith Bool.
From Verif Require Import lib.Wire c07.Model.
Import ListNotations.
Local Open Scope Z_scope.

(* ---- the monitor ---------------------------------------------------------- *)
(* bookkeeping computed from the operations and from what was observed:
     m_live  handlers registered and not since removed / replaced (a closure is
             live from its registration until RemoveStreamHandler of its name
             or a new registration under that name)
     m_nreg  number of registrations (names the closures)
     m_kn    what the dialer knew before the next open (last observed)
     m_sc    last observed scope vector
     m_held  streams obtained and not yet closed: slot, negotiated protocol
     m_nslot number of streams obtained so far (names the slots) *)
Record mon := mkM { m_live : list hent; m_nreg : Z; m_kn : list Z; m_sc : list Z;
                    m_held : list (Z * Z); m_nslot : Z }.

Definition zeros (n : Z) : list Z := map (fun _ => 0) (universe n).
Definition mon_init (U : Z) : mon := mkM [] 0 [] (zeros U ++ zeros U) [] 0.

Definition live_add (l : list hent) (name : Z) (acc : list Z) (reg : Z) : list hent :=
  filter (fun e => negb (h_name e =? name)) l ++ [mkH name acc reg].
Definition live_remove (l : list hent) (name : Z) : list hent :=
  filter (fun e => negb (h_name e =? name)) l.

(* some live handler accepts p *)
Definition matched (l : list hent) (p : Z) : bool := existsb (fun e => memz p (h_acc e)) l.
(* closure reg is live and accepts p *)
Definition live_match (l : list hent) (reg p : Z) : bool :=
  existsb (fun e => (h_reg e =? reg) && memz p (h_acc e)) l.

Definition obtained (r : ores) : bool := (o_res r =? 0) && (o_use r =? 1).
Definition common (l : list hent) (reqs : list Z) : bool := existsb (matched l) reqs.

Definition vec_at (v : list Z) (i : Z) : Z := nth (Z.to_nat i) v 0.

(* one open of a batch, judged by the property.
   [sc']: scope vector observed after the batch; [lim_in]: listener limits. *)
Definition open_ok (U : Z) (has_scope : bool) (lim_in : Z -> Z) (live : list hent)
           (kn : list Z) (sc' : list Z) (reqs : list Z) (r : ores) : bool :=
  let dp := o_dp r in
  (* the stream it gets is bound to one of the requested protocols *)
  implb (o_res r =? 0) (memz dp reqs) &&
  (* the remote runs exactly the handler registered for / matching that
     protocol, once, on a stream reporting the same ID; the nonce went to it
     and its echo came back *)
  implb (obtained r)
        ((o_lp r =? dp) && live_match live (o_h r) dp &&
         (o_ninv r =? 1) && (o_hreg r =? o_h r) && (o_hlp r =? o_lp r)) &&
  (* no protocol in common: the open fails, at the latest on first use when
     the protocol was chosen from earlier knowledge; no handler runs *)
  implb (negb (common live reqs))
        (negb (obtained r) && (negb (o_res r =? 0) || memz dp kn) && (o_ninv r =? 0)) &&
  (* a stream that was returned works, unless it was chosen optimistically
     and the listener has no handler for it, or the listener's scope for the
     protocol is at its limit *)
  implb ((o_res r =? 0) && negb (obtained r))
        ((o_use r =? 0) &&
         ((negb (matched live dp) && memz dp kn) ||
          (has_scope && (0 <=? lim_in dp) && (lim_in dp <=? vec_at sc' (U + dp))))) &&
  (* whatever handler got this open's bytes is live and serves a requested protocol *)
  implb (0 <? o_ninv r) (live_match live (o_hreg r) (o_hlp r) && memz (o_hlp r) reqs).

Definition count_if {A} (f : A -> bool) (l : list A) : Z :=
  fold_right (fun x acc => if f x then acc + 1 else acc) 0 l.

(* the stream is charged to the negotiated protocol's scope on both sides:
   each scope (dialer outbound, listener inbound) grows by exactly the obtained
   streams bound to its protocol; a stream that was refused or failed is
   charged nowhere (the scope's usage is the streams actually attached) *)
Definition scope_ok (U : Z) (sc sc' : list Z) (rs : list ores) : bool :=
  forallb (fun q =>
             let k := count_if (fun r => obtained r && (o_dp r =? q)) rs in
             (vec_at sc' q =? vec_at sc q + k) && (vec_at sc' (U + q) =? vec_at sc (U + q) + k))
          (universe U).

(* some requested protocol's scope is at its limit (after the batch; counts only grow in a batch) *)
Definition scope_full (U : Z) (c : cfg) (sc' : list Z) (reqs : list Z) : bool :=
  existsb (fun p => ((0 <=? limL c p) && (limL c p <=? vec_at sc' (U + p))) ||
                    ((0 <=? limD c p) && (limD c p <=? vec_at sc' p))) reqs.

(* when the two sides have a protocol in common the open succeeds on one of
   them, unless the dialer trusted earlier knowledge that lists a requested
   protocol the listener no longer serves, a requested protocol's scope is at
   its limit, or the only connection is a limited one and the caller did not
   opt in *)
Definition live_ok (U : Z) (has_scope : bool) (c : cfg) (live : list hent) (kn : list Z)
           (sc' : list Z) (q : oreq) (r : ores) : bool :=
  implb (common live (q_reqs q) && negb (obtained r))
        (existsb (fun p => memz p kn && negb (matched live p)) (q_reqs q)
         || (has_scope && scope_full U c sc' (q_reqs q))
         || (c_limited c && negb (q_allow q))).

Definition batch_ok (U : Z) (has_scope : bool) (c : cfg) (m : mon)
           (opens : list oreq) (rs : list ores) (un : list (Z * Z)) (sc' : list Z) : bool :=
  let reqss := map q_reqs opens in
  let lim_in := limL c in
  (Z.of_nat (length reqss) =? Z.of_nat (length rs)) &&
  forallb (fun x => live_ok U has_scope c (m_live m) (m_kn m) sc' (fst x) (snd x)) (combine opens rs) &&
  forallb (fun x => open_ok U has_scope lim_in (m_live m) (m_kn m) sc' (fst x) (snd x))
          (combine reqss rs) &&
  (* handlers that ran without reading a nonce: live, on a protocol they
     accept, and only on streams of opens that had a protocol in common *)
  forallb (fun x => live_match (m_live m) (fst x) (snd x)) un &&
  (Z.of_nat (length un) <=?
   count_if (fun x => common (m_live m) (fst x) && negb (obtained (snd x))) (combine reqss rs)) &&
  (negb has_scope || scope_ok U (m_sc m) sc' rs).

(* the obtained streams of a batch take the next slots, in order *)
Fixpoint slots_of (n : Z) (rs : list ores) : list (Z * Z) :=
  match rs with
  | [] => []
  | r :: rest => if obtained r then (n, o_dp r) :: slots_of (n + 1) rest else slots_of n rest
  end.

(* parked opens, as the property sees them: an open that is still within its
   deadline when a connection it may use appears is an open that has such a
   connection (no excuse (c)); an open whose context ended while the only
   connection was the limited one is excused by (c) *)
Definition park_view (popens : list (bool * oreq)) : list oreq :=
  map (fun x => let q := snd x in mkReq (q_reqs q) (q_extra q) (q_race q) (negb (fst x))) popens.

(* one monitored step: None = the observation violates the property *)
Definition mon_step (U : Z) (has_scope : bool) (c : cfg) (m : mon) (o : op) (x : obs)
  : option mon :=
  match o, x with
  | OAdd name, _ =>
      Some (mkM (live_add (m_live m) name [name] (m_nreg m)) (m_nreg m + 1) (m_kn m) (m_sc m)
                (m_held m) (m_nslot m))
  | OAddMatch name acc, _ =>
      Some (mkM (live_add (m_live m) name acc (m_nreg m)) (m_nreg m + 1) (m_kn m) (m_sc m)
                (m_held m) (m_nslot m))
  | ORemove name, _ =>
      Some (mkM (live_remove (m_live m) name) (m_nreg m) (m_kn m) (m_sc m) (m_held m) (m_nslot m))
  | OKnow k, _ => Some (mkM (m_live m) (m_nreg m) k (m_sc m) (m_held m) (m_nslot m))
  | OBatch opens, ObBatch rs un kn' sc' =>
      if batch_ok U has_scope c m opens rs un sc'
      then Some (mkM (m_live m) (m_nreg m) kn' (if has_scope then sc' else m_sc m)
                     (m_held m ++ slots_of (m_nslot m) rs) (m_nslot m + count_if obtained rs))
      else None
  | OClose slot _, ObClose sc' =>
      Some (mkM (m_live m) (m_nreg m) (m_kn m) (if has_scope then sc' else m_sc m)
                (filter (fun x => negb (fst x =? slot)) (m_held m)) (m_nslot m))
  | ORelabel slot _ _, ObRelabel _ dl ll =>
      (* the stream keeps reporting the protocol it was negotiated for and is
         attached to, on both ends, whatever is tried on it afterwards (only
         judged where a resource manager decides about SetProtocol) *)
      match find (fun x => fst x =? slot) (m_held m) with
      | Some (_, p) =>
          if negb has_scope || ((dl =? p) && (ll =? p)) then Some m else None
      | None => Some m
      end
  | OReconnect _ _, ObRe mx sc' =>
      (* a fresh connection: what the dialer knows when NewStream looks is what
         identify delivers on it = what the listener advertises now (observed);
         older knowledge is no excuse any more *)
      Some (mkM (m_live m) (m_nreg m) mx (if has_scope then sc' else m_sc m) [] (m_nslot m))
  | OPark popens, ObPark mx rs un kn' sc' =>
      (* a fresh (direct) connection, as above: what the dialer knows is what the
         listener advertises now; every clause of a batch applies to the parked opens *)
      let m0 := mkM (m_live m) (m_nreg m) mx (m_sc m) (m_held m) (m_nslot m) in
      if batch_ok U has_scope c m0 (park_view popens) rs un sc'
      then Some (mkM (m_live m) (m_nreg m) kn' (if has_scope then sc' else m_sc m)
                     (m_held m ++ slots_of (m_nslot m) rs) (m_nslot m + count_if obtained rs))
      else None
  | _, _ => None
  end.

Fixpoint mon_run (U : Z) (has_scope : bool) (c : cfg) (m : mon) (i : Z)
         (tr : list (op * obs)) : list Z :=
  match tr with
  | [] => []
  | (o, x) :: r =>
      match mon_step U has_scope c m o x with
      | Some m' => mon_run U has_scope c m' (i + 1) r
      | None => [ERR_PROPERTY; i]
      end
  end.

Definition holds (U : Z) (has_scope : bool) (c : cfg) (tr : list (op * obs)) : bool :=
  match mon_run U has_scope c (mon_init U) 0 tr with [] => true | _ => false end.

(* ---- wire decoding --------------------------------------------------------- *)
(* a counted list  k x_1..x_k  *)
Definition take_list (l : list Z) : option (list Z * list Z) :=
  match l with
  | k :: r => if (0 <=? k) && (k <=? zlen r) then Some (ztake k r, zdrop k r) else None
  | [] => None
  end.

Fixpoint take_reqs (n : nat) (l : list Z) : option (list oreq * list Z) :=
  match n with
  | O => Some ([], l)
  | S k =>
      match l with
      | mode :: l' =>
          match take_list l' with
          | Some (q, r) =>
              match take_reqs k r with
              | Some (qs, r') => Some (mkReq q [] false (Z.testbit mode 0) :: qs, r')
              | None => None
              end
          | None => None
          end
      | [] => None
      end
  end.

Fixpoint take_preqs (n : nat) (l : list Z) : option (list (bool * oreq) * list Z) :=
  match n with
  | O => Some ([], l)
  | S k =>
      match l with
      | mode :: l' =>
          match take_list l' with
          | Some (q, r) =>
              match take_preqs k r with
              | Some (qs, r') => Some ((Z.testbit mode 5, mkReq q [] false (Z.testbit mode 0)) :: qs, r')
              | None => None
              end
          | None => None
          end
      | [] => None
      end
  end.

Fixpoint take_ores (n : nat) (l : list Z) : option (list ores * list Z) :=
  match n with
  | O => Some ([], l)
  | S k =>
      match l with
      | a :: b :: c :: d :: e :: f :: g :: h :: r =>
          match take_ores k r with
          | Some (os, r') => Some (mkO a b c d e f g h [] :: os, r')
          | None => None
          end
      | _ => None
      end
  end.

Fixpoint take_pairs (n : nat) (l : list Z) : option (list (Z * Z) * list Z) :=
  match n with
  | O => Some ([], l)
  | S k =>
      match l with
      | a :: b :: r =>
          match take_pairs k r with
          | Some (ps, r') => Some ((a, b) :: ps, r')
          | None => None
          end
      | _ => None
      end
  end.

Definition take_n (n : Z) (l : list Z) : option (list Z * list Z) :=
  if (0 <=? n) && (n <=? zlen l) then Some (ztake n l, zdrop n l) else None.

Fixpoint decode_ops (U : Z) (l : list Z) (fuel : nat) : option (list (op * obs)) :=
  match fuel with
  | O => None
  | S f =>
    match l with
    | [] => Some []
    | 1 :: name :: r =>
        match take_list r with
        | Some (mx, r1) => option_map (cons (OAdd name, ObMux mx)) (decode_ops U r1 f)
        | None => None
        end
    | 2 :: name :: r =>
        match take_list r with
        | Some (acc, r0) =>
            match take_list r0 with
            | Some (mx, r1) => option_map (cons (OAddMatch name acc, ObMux mx)) (decode_ops U r1 f)
            | None => None
            end
        | None => None
        end
    | 3 :: name :: r =>
        match take_list r with
        | Some (mx, r1) => option_map (cons (ORemove name, ObMux mx)) (decode_ops U r1 f)
        | None => None
        end
    | 4 :: r =>
        match take_list r with
        | Some (k, r0) =>
            match take_list r0 with
            | Some (kn, r1) => option_map (cons (OKnow k, ObKnow kn)) (decode_ops U r1 f)
            | None => None
            end
        | None => None
        end
    | 5 :: n :: r =>
        if (n <? 0) || (zlen r <? n) then None else
        match take_reqs (Z.to_nat n) r with
        | Some (qs, r0) =>
            match take_ores (Z.to_nat n) r0 with
            | Some (rs, r1) =>
                match r1 with
                | u :: r2 =>
                    if (u <? 0) || (zlen r2 <? u) then None else
                    match take_pairs (Z.to_nat u) r2 with
                    | Some (un, r3) =>
                        match take_list r3 with
                        | Some (kn, r4) =>
                            match take_n (2 * U) r4 with
                            | Some (sc, r5) =>
                                option_map (cons (OBatch qs, ObBatch rs un kn sc))
                                           (decode_ops U r5 f)
                            | None => None
                            end
                        | None => None
                        end
                    | None => None
                    end
                | [] => None
                end
            | None => None
            end
        | None => None
        end
    | 9 :: n :: r =>
        if (n <? 0) || (zlen r <? n) then None else
        match take_preqs (Z.to_nat n) r with
        | Some (qs, r00) =>
          match take_list r00 with
          | Some (mx, r0) =>
            match take_ores (Z.to_nat n) r0 with
            | Some (rs, r1) =>
                match r1 with
                | u :: r2 =>
                    if (u <? 0) || (zlen r2 <? u) then None else
                    match take_pairs (Z.to_nat u) r2 with
                    | Some (un, r3) =>
                        match take_list r3 with
                        | Some (kn, r4) =>
                            match take_n (2 * U) r4 with
                            | Some (sc, r5) =>
                                option_map (cons (OPark qs, ObPark mx rs un kn sc))
                                           (decode_ops U r5 f)
                            | None => None
                            end
                        | None => None
                        end
                    | None => None
                    end
                | [] => None
                end
            | None => None
            end
          | None => None
          end
        | None => None
        end
    | 6 :: slot :: how :: r =>
        match take_n (2 * U) r with
        | Some (sc, r1) => option_map (cons (OClose slot how, ObClose sc)) (decode_ops U r1 f)
        | None => None
        end
    | 8 :: slot :: side :: q :: err :: dl :: ll :: r =>
        option_map (cons (ORelabel slot side q, ObRelabel err dl ll)) (decode_ops U r f)
    | 7 :: dir :: wait :: r =>
        match take_list r with
        | Some (mx, r0) =>
            match take_n (2 * U) r0 with
            | Some (sc, r1) => option_map (cons (OReconnect dir wait, ObRe mx sc)) (decode_ops U r1 f)
            | None => None
            end
        | None => None
        end
    | _ => None
    end
  end.

Definition vecfn (v : list Z) : Z -> Z :=
  fun q => if (0 <=? q) && (q <? zlen v) then nth (Z.to_nat q) v (-1) else -1.

Record header := mkHd { hd_scope : bool; hd_U : Z; hd_cfg : cfg }.

Definition decode_case (l : list Z) : option (header * list (op * obs)) :=
  match l with
  | 7 :: _ :: flags :: U :: r =>
      if (U <? 1) || (64 <? U) then None else
      match take_n U r with
      | Some (ld, r1) =>
          match take_n U r1 with
          | Some (ll, r2) =>
              match decode_ops U r2 (S (length r2)) with
              | Some tr => Some (mkHd (Z.testbit flags 0) U (mkCfg (vecfn ld) (vecfn ll) (Z.testbit flags 1) (Z.testbit flags 0) (Z.testbit flags 2)), tr)
              | None => None
              end
          | None => None
          end
      | None => None
      end
  | _ => None
  end.

(* ---- conformance: replay on the model, compare every observation ----------- *)
Definition ores_eqb (a b : ores) : bool :=
  (o_res a =? o_res b) && (o_dp a =? o_dp b) && (o_use a =? o_use b) && (o_h a =? o_h b) &&
  (o_lp a =? o_lp b) && (o_ninv a =? o_ninv b) && (o_hreg a =? o_hreg b) && (o_hlp a =? o_hlp b).

Fixpoint sublists (l : list Z) : list (list Z) :=
  match l with
  | [] => [[]]
  | x :: r => let s := sublists r in s ++ map (cons x) s
  end.

Fixpoint dedup (l : list Z) : list Z :=
  match l with
  | [] => []
  | x :: r => if memz x r then dedup r else x :: dedup r
  end.

(* the schedule of a concurrent batch is not observable: which additions to
   the peerstore an open saw, and whether the listener's reset overtook its
   acknowledgement.  The replay looks for a schedule that explains each
   open's observation. *)
Definition hints (reqs : list Z) (rs : list ores) : list (list Z * bool) :=
  let e := dedup (filter (fun p => memz p reqs)
                         (map o_dp (filter (fun r => o_res r =? 0) rs))) in
  flat_map (fun s => [(s, false); (s, true)]) (sublists e).

Fixpoint first_match (c : cfg) (t : table) (kn : list Z) (b : bst) (q : oreq) (r : ores)
         (cands : list (list Z * bool)) : option (bst * (list Z * bool)) :=
  match cands with
  | [] => None
  | (e, rc) :: rest =>
      let '(b', o) := open1 ms_select_impl ms_lazy_impl c t kn b (q_reqs q) e rc (q_allow q) in
      if ores_eqb o r then Some (b', (e, rc)) else first_match c t kn b q r rest
  end.

Fixpoint find_hints (c : cfg) (t : table) (kn : list Z) (b : bst) (all : list ores)
         (qs : list oreq) (rs : list ores) : list oreq :=
  match qs, rs with
  | q :: qs', r :: rs' =>
      match first_match c t kn b q r (hints (q_reqs q) all) with
      | Some (b', (e, rc)) => mkReq (q_reqs q) e rc (q_allow q) :: find_hints c t kn b' all qs' rs'
      | None => q :: find_hints c t kn b all qs' rs'
      end
  | q :: qs', [] => q :: find_hints c t kn b all qs' []
  | [], _ => []
  end.

Definition pair_leb (a b : Z * Z) : bool :=
  (fst a <? fst b) || ((fst a =? fst b) && (snd a <=? snd b)).
Fixpoint insert_pair (x : Z * Z) (l : list (Z * Z)) : list (Z * Z) :=
  match l with
  | [] => [x]
  | y :: r => if pair_leb x y then x :: l else y :: insert_pair x r
  end.
Definition sort_pairs (l : list (Z * Z)) : list (Z * Z) := fold_right insert_pair [] l.
Definition pair_eqb (a b : Z * Z) : bool := (fst a =? fst b) && (snd a =? snd b).

Definition obs_eqb (has_scope : bool) (m x : obs) : bool :=
  match m, x with
  | ObMux a, ObMux b => zlist_eqb a b
  | ObKnow a, ObKnow b => zlist_eqb a b
  | ObBatch rs un kn sc, ObBatch rs' un' kn' sc' =>
      list_eqb ores_eqb rs rs' && list_eqb pair_eqb (sort_pairs un) (sort_pairs un') &&
      zlist_eqb kn kn' && (negb has_scope || zlist_eqb sc sc')
  | ObClose sc, ObClose sc' => negb has_scope || zlist_eqb sc sc'
  | ObRelabel a b c, ObRelabel a' b' c' => (a =? a') && (b =? b') && (c =? c')
  | ObRe mx sc, ObRe mx' sc' => zlist_eqb mx mx' && (negb has_scope || zlist_eqb sc sc')
  | ObPark mx rs un kn sc, ObPark mx' rs' un' kn' sc' =>
      zlist_eqb mx mx' &&
      list_eqb ores_eqb rs rs' && list_eqb pair_eqb (sort_pairs un) (sort_pairs un') &&
      zlist_eqb kn kn' && (negb has_scope || zlist_eqb sc sc')
  | _, _ => false
  end.

Definition obs_code (x : obs) : list Z :=
  match x with
  | ObMux l => 1 :: l
  | ObKnow l => 2 :: l
  | ObBatch rs un kn sc =>
      3 :: flat_map (fun r => [o_res r; o_dp r; o_use r; o_h r; o_lp r; o_ninv r]) rs
        ++ [-1] ++ flat_map (fun p => [fst p; snd p]) un ++ [-1] ++ kn ++ [-1] ++ sc
  | ObClose sc => 4 :: sc
  | ObRelabel a b c => [6; a; b; c]
  | ObRe mx sc => 5 :: mx ++ [-1] ++ sc
  | ObPark mx rs un kn sc =>
      7 :: mx ++ [-1] ++ flat_map (fun r => [o_res r; o_dp r; o_use r; o_h r; o_lp r; o_ninv r]) rs
        ++ [-1] ++ flat_map (fun p => [fst p; snd p]) un ++ [-1] ++ kn ++ [-1] ++ sc
  end.

Fixpoint conform_run (h : header) (s : st) (i : Z) (tr : list (op * obs)) : list Z :=
  match tr with
  | [] => []
  | (o, x) :: r =>
      let o' :=
        match o, x with
        | OBatch opens, ObBatch rs _ _ _ =>
            OBatch (find_hints (hd_cfg h) (tbl s) (know s)
                               (mkB (outD s) (inL s) [] (held s) (nslot s)) rs opens rs)
        | OPark popens, ObPark _ rs _ _ _ =>
            (* the same search; the hints go back under the flags (park_batch sets q_allow itself) *)
            OPark (combine (map fst popens)
                           (find_hints (hd_cfg h) (tbl s) (mux_protocols (tbl s))
                                       (mkB (outD s) (inL s) [] (held s) (nslot s)) rs (park_batch popens) rs))
        | _, _ => o
        end in
      let '(s', mx) := step_i (hd_U h) (hd_cfg h) s o' in
      if obs_eqb (hd_scope h) mx x then conform_run h s' (i + 1) r
      else ERR_MISMATCH :: i :: firstn 60 (obs_code mx)
  end.

Definition conform_case (l : list Z) : list Z :=
  match decode_case l with
  | Some (h, tr) => conform_run h init_st 0 tr
  | None => [ERR_MALFORMED; 0]
  end.

Definition monitor_case (l : list Z) : list Z :=
  match decode_case l with
  | Some (h, tr) => mon_run (hd_U h) (hd_scope h) (hd_cfg h) (mon_init (hd_U h)) 0 tr
  | None => [ERR_MALFORMED; 0]
  end.

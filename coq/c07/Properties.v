(* C07 — property theorems only.  Each is closed by [exact] of a lemma from
   Proofs*.v and followed by Print Assumptions. *)
From Coq Require Import List Arith ZArith Bool.
From Verif Require Import lib.Wire c07.Model c07.Spec c07.Proofs c07.Proofs_park c07.Proofs_trace
     c07.Proofs_hist c07.Proofs_thms.
Import ListNotations.
Local Open Scope Z_scope.

(* THE property on traces: for every universe size, every pair of limit
   tables, every history of handler registrations / removals, knowledge
   updates, sequential and concurrent opens (any interleaving of the
   peerstore reads with the AddProtocols of the same batch, either outcome
   of the reset/acknowledgement race) and closes, the observable trace of the
   model satisfies the very monitor that judges the implementation's traces. *)
Theorem c07_trace_holds : forall U has_scope c ops,
  wf_cfg has_scope c -> Forall (wf_op U) ops ->
  holds U has_scope c (trace_i U c init_st ops) = true.
Proof. exact holds_model_i. Qed.
Print Assumptions c07_trace_holds.

(* the same for ANY select / lazy-select functions with go-multistream's
   documented behaviour: the proof uses nothing else about the dependency *)
Theorem c07_trace_holds_given_multistream_contract : forall ms_select ms_lazy,
  (forall sup l p, ms_select sup l = Some p ->
     exists l1 l2, l = l1 ++ p :: l2 /\ sup p = true /\ (forall q, In q l1 -> sup q = false)) ->
  (forall sup l, ms_select sup l = None -> forall q, In q l -> sup q = false) ->
  (forall sup p, ms_lazy sup p = sup p) ->
  forall U has_scope c ops, wf_cfg has_scope c -> Forall (wf_op U) ops ->
  holds U has_scope c (trace ms_select ms_lazy U c init_st ops) = true.
Proof. exact holds_model_any. Qed.
Print Assumptions c07_trace_holds_given_multistream_contract.

(* the executable instance has that behaviour (the theorems are not vacuous) *)
Theorem c07_instance_meets_contract :
  (forall sup l p, ms_select_impl sup l = Some p ->
     exists l1 l2, l = l1 ++ p :: l2 /\ sup p = true /\ (forall q, In q l1 -> sup q = false)) /\
  (forall sup l, ms_select_impl sup l = None -> forall q, In q l -> sup q = false) /\
  (forall sup p, ms_lazy_impl sup p = sup p).
Proof. exact (conj impl_select_some (conj impl_select_none impl_lazy_spec)). Qed.
Print Assumptions c07_instance_meets_contract.

(* agreement: a stream that was obtained is bound to one of the requested
   protocols, the listener's stream reports the same ID, exactly one closure
   got the dialer's bytes, and it is the FIRST entry of the listener's table
   (registration order, a re-registration moving to the end) accepting it *)
Theorem c07_agreement : forall c t kn b reqs extra race allow b' r,
  open1_i c t kn b reqs extra race allow = (b', r) -> obtained r = true ->
  In (o_dp r) reqs /\ o_lp r = o_dp r /\ o_ninv r = 1 /\ o_hreg r = o_h r /\ o_hlp r = o_dp r /\
  o_un r = [] /\
  exists pre h post, t = pre ++ h :: post /\ h_reg h = o_h r /\
    memz (o_dp r) (h_acc h) = true /\ (forall x, In x pre -> memz (o_dp r) (h_acc x) = false).
Proof. exact agreement_i. Qed.
Print Assumptions c07_agreement.

(* no protocol in common: no stream is obtained, no closure runs (with or
   without the nonce), nothing stays charged or held; the open itself fails
   unless the protocol was taken optimistically from earlier knowledge, and
   then the first use fails *)
Theorem c07_no_common_fails_no_handler : forall c t kn b reqs extra race allow b' r,
  (forall q, In q reqs -> supports t q = false) ->
  open1_i c t kn b reqs extra race allow = (b', r) ->
  obtained r = false /\ o_ninv r = 0 /\ o_un r = [] /\ same_counts b b' /\
  (o_res r <> 0 \/ (o_use r = 0 /\ memz (o_dp r) kn = true)).
Proof. exact no_common_i. Qed.
Print Assumptions c07_no_common_fails_no_handler.

(* a closure whose registration was removed (RemoveStreamHandler) or replaced
   (a new registration under the same name) is never invoked by any later
   operation, whatever follows *)
Theorem c07_removed_handler_never_runs : forall U c ops1 o name ops2 e,
  replaces o name ->
  In e (tbl (run_i U c init_st ops1)) -> h_name e = name ->
  forall o' x, In (o', x) (trace_i U c (fst (step_i U c (run_i U c init_st ops1) o)) ops2) ->
               ~ In (h_reg e) (obs_ran x).
Proof. exact removed_never_runs_i. Qed.
Print Assumptions c07_removed_handler_never_runs.

(* an obtained stream is charged to the negotiated protocol's scope on both
   sides (exactly one more stream there, nothing anywhere else, both scopes
   had accepted the charge); a stream that was not obtained leaves both
   sides' counts as they were *)
Theorem c07_scope_charged_to_negotiated : forall c t kn b reqs extra race allow b' r,
  open1_i c t kn b reqs extra race allow = (b', r) ->
  if obtained r
  then b_out b' = upd (b_out b) (o_dp r) (b_out b (o_dp r) + 1) /\
       b_in b' = upd (b_in b) (o_lp r) (b_in b (o_lp r) + 1) /\
       b_held b' = b_held b ++ [(b_nslot b, o_dp r)] /\
       scope_try (limD c) (b_out b) (o_dp r) <> None /\
       scope_try (limL c) (b_in b) (o_dp r) <> None
  else same_counts b b'.
Proof. exact scope_charged_i. Qed.
Print Assumptions c07_scope_charged_to_negotiated.

(* after every history, each protocol scope on either side counts exactly the
   streams bound to that protocol that both ends still hold *)
Theorem c07_scopes_count_held_streams : forall U c ops q,
  let s := run_i U c init_st ops in
  outD s q = count_held q (held s) /\ inL s q = count_held q (held s).
Proof. exact scopes_count_held_i. Qed.
Print Assumptions c07_scopes_count_held_streams.

(* limited vs direct connections x concurrent opens: opens parked until a direct
   connection exists (waiter list of Swarm.waitForDirectConn, in registration order).
   An open whose context ends takes only its own entry off the list: whatever was
   registered before or after it, the direct connection wakes every parked open
   whose own context did not end ... *)
Theorem c07_direct_conn_wakes_every_open_still_parked : forall popens i e q,
  nth_error popens i = Some (e, q) ->
  memz (Z.of_nat i) (park_woken popens) = negb e.
Proof. exact park_wakes_all_others. Qed.
Print Assumptions c07_direct_conn_wakes_every_open_still_parked.

(* ... so the model runs the parked opens exactly as the property sees them (an open
   still within its deadline when the direct connection appears has a connection it
   may use; c07_trace_holds then applies the liveness clause to it) *)
Theorem c07_parked_opens_run_as_the_property_sees_them : forall popens,
  park_batch popens = park_view popens.
Proof. exact park_batch_view. Qed.
Print Assumptions c07_parked_opens_run_as_the_property_sees_them.

(* ---- non-vacuity ------------------------------------------------------------ *)
Definition nolim : cfg := mkCfg (fun _ => -1) (fun _ => -1) false false false.

(* a reachable obtained stream through SelectOneOf (second proposal, match
   function handler registered first wins over the exact one) *)
Example obtained_by_select :
  let tr := trace_i 4 nolim init_st [OAddMatch 0 [1; 2]; OAdd 1; OBatch [mkReq [3; 1] [] false false]] in
  match nth 2 tr (OAdd 0, ObMux []) with
  | (_, ObBatch [r] _ kn _) => obtained r = true /\ o_dp r = 1 /\ o_h r = 0 /\ kn = [1]
  | _ => False
  end.
Proof. vm_compute. repeat split. Qed.

(* stale knowledge: optimistic choice of a removed protocol, the open
   succeeds, the first use fails, no handler runs although another requested
   protocol is served *)
Example stale_knowledge_first_use_fails :
  let tr := trace_i 4 nolim init_st [OAdd 0; OAdd 1; OKnow [0; 1]; ORemove 0; OBatch [mkReq [0; 1] [] false false]] in
  match nth 4 tr (OAdd 0, ObMux []) with
  | (_, ObBatch [r] un _ _) => o_res r = 0 /\ o_dp r = 0 /\ o_use r = 0 /\ o_ninv r = 0 /\ un = []
  | _ => False
  end.
Proof. vm_compute. repeat split. Qed.

(* the monitor rejects: listener stream reports another protocol *)
Example monitor_rejects_wrong_protocol :
  monitor_case [7; 0; 0; 2; -1; -1; -1; -1;  1; 0; 1; 0;
                5; 1; 0; 1; 0;  0; 0; 1; 0; 1; 1; 0; 1;  0;  1; 0;  0; 0; 0; 0] <> [].
Proof. vm_compute. discriminate. Qed.

(* ... a removed handler ran *)
Example monitor_rejects_removed_handler :
  monitor_case [7; 0; 0; 2; -1; -1; -1; -1;  1; 0; 1; 0;  3; 0; 0;
                5; 1; 0; 1; 0;  0; 0; 1; 0; 0; 1; 0; 0;  0;  1; 0;  0; 0; 0; 0] <> [].
Proof. vm_compute. discriminate. Qed.

(* ... the same trace with the handler still registered is accepted *)
Example monitor_accepts_registered_handler :
  monitor_case [7; 0; 0; 2; -1; -1; -1; -1;  1; 0; 1; 0;
                5; 1; 0; 1; 0;  0; 0; 1; 0; 0; 1; 0; 0;  0;  1; 0;  0; 0; 0; 0] = [].
Proof. vm_compute. reflexivity. Qed.

(* ... nothing in common, unknown listener, yet NewStream returned a stream *)
Example monitor_rejects_stream_without_common_protocol :
  monitor_case [7; 0; 0; 2; -1; -1; -1; -1;  1; 0; 1; 0;
                5; 1; 0; 1; 1;  0; 1; 0; -1; -1; 0; -1; -1;  0;  0;  0; 0; 0; 0] <> [].
Proof. vm_compute. discriminate. Qed.

(* ... stream obtained but the listener's scope for the protocol not charged *)
Example monitor_rejects_uncharged_scope :
  monitor_case [7; 1; 1; 2; -1; -1; -1; -1;  1; 0; 1; 0;
                5; 1; 0; 1; 0;  0; 0; 1; 0; 0; 1; 0; 0;  0;  1; 0;  1; 0; 0; 0] <> [].
Proof. vm_compute. discriminate. Qed.

(* ---- p2p/host/blank (anchor; not part of the model) --------------------------- *)
(* the two traces the blank-host probe recorded before /repo commit e4bf9e3, judged by
   the property monitor: BlankHost ignored the error of Stream.SetProtocol (the probe
   is a fixed corpus case of every run; these are the traces a regression produces).
   Listener side: scope of protocol 5 at its limit (0), the handler still runs,
   its stream reports no protocol (-1) and the listener's scope is not charged. *)
Example blank_host_listener_trace_rejected :
  monitor_case [7; 3; 1; 8; -1; -1; -1; -1; -1; -1; 0; -1; -1; -1; -1; -1; -1; 0; -1; -1;
                1; 5; 1; 5;  5; 1; 0; 1; 5;  0; 5; 1; 0; -1; 1; 0; -1;  0;  1; 5;
                0; 0; 0; 0; 0; 1; 0; 0;  0; 0; 0; 0; 0; 0; 0; 0] <> [].
Proof. vm_compute. discriminate. Qed.

(* Dialer side: scope of protocol 6 at its limit (0), NewStream still returns a
   working stream; it reports no protocol and the dialer's scope is not charged *)
Example blank_host_dialer_trace_rejected :
  monitor_case [7; 3; 1; 8; -1; -1; -1; -1; -1; -1; 0; -1; -1; -1; -1; -1; -1; 0; -1; -1;
                1; 6; 1; 6;  5; 1; 0; 1; 6;  0; -1; 1; 0; 6; 1; 0; 6;  0;  1; 6;
                0; 0; 0; 0; 0; 0; 0; 0;  0; 0; 0; 0; 0; 0; 1; 0] <> [].
Proof. vm_compute. discriminate. Qed.

(* what the basic host does in the same two situations (the model): the
   listener resets without dispatching / the open fails; accepted by the monitor *)
Example basic_host_same_situations_accepted :
  let c := mkCfg (fun p => if p =? 6 then 0 else -1) (fun p => if p =? 5 then 0 else -1) false true false in
  holds 8 true c (trace_i 8 c init_st [OAdd 5; OBatch [mkReq [5] [] false false];
                                               OAdd 6; OBatch [mkReq [6] [] false false]]) = true.
Proof. vm_compute. reflexivity. Qed.

(* ---- a fresh connection: older knowledge is no excuse ------------------------- *)
(* the dialer knew protocol 0; the handler is removed and 1 registered; the
   connection is replaced below the host; NewStream [0; 1] racing identify.  The
   model waits for identify (knowledge = what the listener advertises) and gets 1 *)
Example reconnect_refreshes_knowledge :
  let tr := trace_i 4 nolim init_st [OAdd 0; OKnow [0]; ORemove 0; OAdd 1; OReconnect 1 0;
                                     OBatch [mkReq [0; 1] [] false false]] in
  match nth 5 tr (OAdd 0, ObMux []) with
  | (_, ObBatch [r] _ _ _) => obtained r = true /\ o_dp r = 1
  | _ => False
  end.
Proof. vm_compute. repeat split. Qed.

(* ... and the monitor rejects the trace in which the stream was bound to the
   stale protocol 0 and failed at first use although 1 was served *)
Example monitor_rejects_stale_choice_on_fresh_connection :
  monitor_case [7; 0; 0; 2; -1; -1; -1; -1;  1; 0; 1; 0;  4; 1; 0; 1; 0;  3; 0; 0;  1; 1; 1; 1;
                7; 1; 0; 1; 1; 0; 0; 0; 0;
                5; 1; 0; 2; 0; 1;  0; 0; 0; -1; -1; 0; -1; -1;  0;  1; 0;  0; 0; 0; 0] <> [].
Proof. vm_compute. discriminate. Qed.

(* the same observation WITHOUT the reconnect is the tolerated stale-knowledge case *)
Example monitor_accepts_stale_choice_on_old_connection :
  monitor_case [7; 0; 0; 2; -1; -1; -1; -1;  1; 0; 1; 0;  4; 1; 0; 1; 0;  3; 0; 0;  1; 1; 1; 1;
                5; 1; 0; 2; 0; 1;  0; 0; 0; -1; -1; 0; -1; -1;  0;  1; 0;  0; 0; 0; 0] = [].
Proof. vm_compute. reflexivity. Qed.

(* ---- the first operations on the stream; SetProtocol once more ------------------ *)
(* The dialer's first operations (Write/Read in either order, SetDeadline, CloseWrite
   before or after the Write, CloseRead) are a field of the open the model does not
   look at: whatever they are, a stream bound to a served protocol works.  So the
   trace of m5 (accurate knowledge, CloseWrite first = mode 16, the handler never
   runs, the answer cannot be read) is rejected like any returned stream that fails
   without excuse: *)
Example monitor_rejects_lazy_stream_dead_after_closewrite :
  monitor_case [7; 1; 1; 2; -1; -1; -1; -1;  1; 0; 1; 0;  4; 1; 0; 1; 0;
                5; 1; 16; 1; 0;  0; 0; 0; -1; -1; 0; -1; -1;  0;  1; 0;  0; 0; 0; 0] <> [].
Proof. vm_compute. discriminate. Qed.

(* a held stream goes on reporting the protocol it is attached to on both ends when
   SetProtocol is tried once more (model, real resource manager) *)
Example relabel_is_refused_and_changes_nothing :
  let c := mkCfg (fun _ => -1) (fun _ => -1) false true false in
  let tr := trace_i 4 c init_st [OAdd 1; OBatch [mkReq [1] [] false false]; ORelabel 0 1 3] in
  nth 2 tr (OAdd 0, ObMux []) = (ORelabel 0 1 3, ObRelabel 1 1 1).
Proof. vm_compute. reflexivity. Qed.

(* ... and the monitor rejects the trace of m7's stream-level class: after the refused
   second SetProtocol the listener's end reports no protocol *)
Example monitor_rejects_label_lost_by_refused_setprotocol :
  monitor_case [7; 1; 1; 2; -1; -1; -1; -1;  1; 1; 1; 1;
                5; 1; 0; 1; 1;  0; 1; 1; 0; 1; 1; 0; 1;  0;  1; 1;  0; 1; 0; 1;
                8; 0; 1; 0;  1; 1; -1] <> [].
Proof. vm_compute. discriminate. Qed.

Example monitor_accepts_label_kept :
  monitor_case [7; 1; 1; 2; -1; -1; -1; -1;  1; 1; 1; 1;
                5; 1; 0; 1; 1;  0; 1; 1; 0; 1; 1; 0; 1;  0;  1; 1;  0; 1; 0; 1;
                8; 0; 1; 0;  1; 1; 1] = [].
Proof. vm_compute. reflexivity. Qed.

(* ---- liveness and exact accounting ------------------------------------------------- *)
(* a common protocol, nothing known, no limit, direct connection, and the open
   fails all the same (m11: res 5 = no stream): rejected *)
Example monitor_rejects_unexcused_failure :
  monitor_case [7; 1; 1; 2; -1; -1; -1; -1;  1; 0; 1; 0;
                5; 1; 1; 1; 0;  5; -1; -1; -1; -1; 0; -1; -1;  0;  0;  0; 0; 0; 0] <> [].
Proof. vm_compute. discriminate. Qed.

(* the same failure is accepted when the only connection is a limited one and the
   caller did not opt in (flags bit1, mode 0) *)
Example monitor_accepts_limited_not_allowed :
  monitor_case [7; 2; 3; 2; -1; -1; -1; -1;  1; 0; 1; 0;
                5; 1; 0; 1; 0;  5; -1; -1; -1; -1; 0; -1; -1;  0;  0;  0; 0; 0; 0] = [].
Proof. vm_compute. reflexivity. Qed.

(* a refused stream that stays charged in the listener's protocol scope (m12: the
   listener's limit for protocol 0 is 0, the open is refused, inL_0 = 1 afterwards) *)
Example monitor_rejects_ghost_charge :
  monitor_case [7; 1; 1; 2; -1; -1; 0; -1;  1; 0; 1; 0;
                5; 1; 0; 1; 0;  0; 0; 0; -1; -1; 0; -1; -1;  0;  1; 0;  0; 0; 1; 0] <> [].
Proof. vm_compute. discriminate. Qed.

Example monitor_accepts_refusal_without_charge :
  monitor_case [7; 1; 1; 2; -1; -1; 0; -1;  1; 0; 1; 0;
                5; 1; 0; 1; 0;  0; 0; 0; -1; -1; 0; -1; -1;  0;  1; 0;  0; 0; 0; 0] = [].
Proof. vm_compute. reflexivity. Qed.

(* a BlankHost dialer never takes the optimistic path: with stale knowledge of 0 it
   negotiates and gets 1 (m9's situation: fallback; both ends report 1) *)
Example blank_dialer_negotiates :
  let c := mkCfg (fun _ => -1) (fun _ => -1) false true true in
  let tr := trace_i 4 c init_st [OAdd 1; OKnow [0]; OBatch [mkReq [0; 1] [] false false]] in
  match nth 2 tr (OAdd 0, ObMux []) with
  | (_, ObBatch [r] _ _ _) => obtained r = true /\ o_dp r = 1 /\ o_lp r = 1
  | _ => False
  end.
Proof. vm_compute. repeat split. Qed.

(* ---- parked opens --------------------------------------------------------------- *)
(* three opens parked on the limited connection; the context of the first and of the
   last one ends; the direct connection appears: the one in the middle gets its stream *)
Example parked_open_within_deadline_obtains :
  let c := mkCfg (fun _ => -1) (fun _ => -1) true true false in
  let q := mkReq [0] [] false false in
  let tr := trace_i 2 c init_st [OAdd 0; OPark [(true, q); (false, q); (true, q)]] in
  match nth 1 tr (OAdd 0, ObMux []) with
  | (_, ObPark _ [r0; r1; r2] _ _ _) => o_res r0 = 5 /\ obtained r1 = true /\ o_dp r1 = 0 /\ o_res r2 = 5
  | _ => False
  end.
Proof. vm_compute. repeat split. Qed.

(* the trace of m15 (the open parked first gives up and takes the later waiters off
   the list with it: the second open, still within its deadline when the direct
   connection appears and asking for a served protocol, fails): rejected *)
Example monitor_rejects_parked_open_never_woken :
  monitor_case [7; 2; 3; 2; -1; -1; -1; -1;  1; 0; 1; 0;
                9; 2; 32; 1; 0; 0; 1; 0;  1; 0;
                5; -1; -1; -1; -1; 0; -1; -1;  5; -1; -1; -1; -1; 0; -1; -1;  0;  1; 0;  0; 0; 0; 0] <> [].
Proof. vm_compute. discriminate. Qed.

(* the second open obtains its stream: accepted (the first one is excused: its
   context ended while the only connection was the limited one) *)
Example monitor_accepts_parked_open_woken :
  monitor_case [7; 2; 3; 2; -1; -1; -1; -1;  1; 0; 1; 0;
                9; 2; 32; 1; 0; 0; 1; 0;  1; 0;
                5; -1; -1; -1; -1; 0; -1; -1;  0; 0; 1; 0; 0; 1; 0; 0;  0;  1; 0;  1; 0; 1; 0] = [].
Proof. vm_compute. reflexivity. Qed.

(* and the model reproduces exactly that trace *)
Example conform_accepts_parked_open_woken :
  conform_case [7; 2; 3; 2; -1; -1; -1; -1;  1; 0; 1; 0;
                9; 2; 32; 1; 0; 0; 1; 0;  1; 0;
                5; -1; -1; -1; -1; 0; -1; -1;  0; 0; 1; 0; 0; 1; 0; 0;  0;  1; 0;  1; 0; 1; 0] = [].
Proof. vm_compute. reflexivity. Qed.

(* C07 — property theorems only. *)
From Coq Require Import List Arith ZArith Bool.
From Verif Require Import lib.Wire c07.Model c07.Spec c07.Proofs.
Import ListNotations.
Local Open Scope Z_scope.

Example monitor_rejects_wrong_protocol :
  monitor_case [7; 0; 0; 2; -1; -1; -1; -1;  1; 0; 1; 0;
                5; 1; 1; 0;  0; 1; 1; 0; 1; 1; 0; 1;  0;  0;  0; 0; 0; 0] <> [].
Proof. vm_compute. discriminate. Qed.

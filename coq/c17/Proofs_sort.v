(* C17 — getTopExternalAddrs: the insertion sort used as the model of
   slices.SortFunc yields a sorted permutation; prefix/suffix facts. *)
From Coq Require Import List Arith ZArith Bool Lia Sorted.
From Verif Require Import c17.Model.
Import ListNotations.

Definition sle (a b : Z * nat) : Prop := set_le a b = true.

Lemma set_le_total : forall a b, set_le a b = false -> set_le b a = true.
Proof.
  intros [x1 k1] [x2 k2]. unfold set_le. cbn [fst snd]. intros H.
  apply orb_false_iff in H. destruct H as [H1 H2]. apply Nat.ltb_ge in H1.
  destruct (Nat.ltb k1 k2) eqn:E; [reflexivity|]. apply Nat.ltb_ge in E. cbn [orb].
  assert (k1 = k2) by lia. subst k2. rewrite Nat.eqb_refl in *. cbn [andb] in *.
  apply Z.leb_gt in H2. apply Z.leb_le. lia.
Qed.

Lemma set_le_trans : forall a b c, sle a b -> sle b c -> sle a c.
Proof.
  intros [x1 k1] [x2 k2] [x3 k3]. unfold sle, set_le. cbn [fst snd]. intros H1 H2.
  apply orb_true_iff in H1. apply orb_true_iff in H2. apply orb_true_iff.
  destruct H1 as [H1|H1], H2 as [H2|H2].
  - left. apply Nat.ltb_lt in H1, H2. apply Nat.ltb_lt. lia.
  - apply andb_prop in H2. destruct H2 as [H2 _]. apply Nat.eqb_eq in H2. subst. left. exact H1.
  - apply andb_prop in H1. destruct H1 as [H1 _]. apply Nat.eqb_eq in H1. subst. left. exact H2.
  - apply andb_prop in H1. destruct H1 as [H1 H1']. apply andb_prop in H2. destruct H2 as [H2 H2'].
    apply Nat.eqb_eq in H1, H2. subst. right. rewrite Nat.eqb_refl. cbn [andb].
    apply Z.leb_le in H1', H2'. apply Z.leb_le. lia.
Qed.

Lemma set_le_snd : forall a b, sle a b -> (snd b <= snd a)%nat.
Proof.
  intros [x1 k1] [x2 k2]. unfold sle, set_le. cbn [fst snd]. intros H.
  apply orb_true_iff in H. destruct H as [H|H].
  - apply Nat.ltb_lt in H. lia.
  - apply andb_prop in H. destruct H as [H _]. apply Nat.eqb_eq in H. lia.
Qed.

Lemma insert_In : forall a b l, In a (insert b l) <-> a = b \/ In a l.
Proof.
  intros a b l. induction l as [|c r IH]; cbn [insert].
  - cbn [In]. intuition.
  - destruct (set_le b c); cbn [In].
    + intuition.
    + rewrite IH. intuition.
Qed.

Lemma sort_sets_In : forall a l, In a (sort_sets l) <-> In a l.
Proof.
  intros a l. induction l as [|b r IH]; [reflexivity|].
  cbn [sort_sets fold_right]. fold (sort_sets r). rewrite insert_In, IH. cbn [In]. intuition.
Qed.

Lemma insert_sorted : forall b l, StronglySorted sle l -> StronglySorted sle (insert b l).
Proof.
  intros b l H. induction H as [|c r Hs IH Hall]; cbn [insert].
  - constructor; constructor.
  - destruct (set_le b c) eqn:E.
    + constructor; [constructor; assumption|]. constructor; [exact E|].
      apply Forall_forall. intros y Hy. rewrite Forall_forall in Hall.
      eapply set_le_trans; [exact E|apply Hall, Hy].
    + constructor; [exact IH|]. apply Forall_forall. intros y Hy.
      apply insert_In in Hy. destruct Hy as [->|Hy].
      * apply set_le_total, E.
      * rewrite Forall_forall in Hall. apply Hall, Hy.
Qed.

Lemma sort_sets_sorted : forall l, StronglySorted sle (sort_sets l).
Proof.
  induction l as [|b r IH]; [constructor|].
  cbn [sort_sets fold_right]. apply insert_sorted, IH.
Qed.

Lemma firstn_incl : forall {A} k (l : list A) a, In a (firstn k l) -> In a l.
Proof.
  intros A k l. revert k. induction l as [|b r IH]; intros k a.
  - destruct k; cbn [firstn]; intros H0; exact H0.
  - destruct k; cbn [firstn]; [intros H0; destruct H0|].
    intros [H0|H0]; [left; exact H0|right; apply (IH k), H0].
Qed.

Lemma skipn_incl : forall {A} k (l : list A) a, In a (skipn k l) -> In a l.
Proof.
  intros A k l. revert k. induction l as [|b r IH]; intros k a.
  - destruct k; cbn [skipn]; intros H0; exact H0.
  - destruct k; cbn [skipn]; [intros H0; exact H0|].
    intros H0. right. apply (IH k), H0.
Qed.

Lemma sorted_firstn : forall k l, StronglySorted sle l -> StronglySorted sle (firstn k l).
Proof.
  intros k l H. revert k. induction H as [|c r Hs IH Hall]; intros [|k]; cbn [firstn]; try constructor.
  - apply IH.
  - apply Forall_forall. intros y Hy. rewrite Forall_forall in Hall.
    apply Hall. apply (firstn_incl k r), Hy.
Qed.

Lemma sorted_prefix_suffix : forall k l a b, StronglySorted sle l ->
  In a (firstn k l) -> In b (skipn k l) -> sle a b.
Proof.
  intros k l a b H. revert k. induction H as [|c r Hs IH Hall]; intros [|k]; cbn [firstn skipn].
  - intros [].
  - intros [].
  - intros [].
  - intros [Ha|Ha] Hb.
    + subst c. rewrite Forall_forall in Hall. apply Hall. apply (skipn_incl k r), Hb.
    + apply (IH k); assumption.
Qed.


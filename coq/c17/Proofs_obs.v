(* C17 — len(ObservedBy) is the number of distinct observer groups (IPv4
   address or IPv6 /56) among the connections currently vouching. *)
From Coq Require Import List Arith ZArith Bool Lia.
From Verif Require Import lib.Wire c17.Model c17.Spec c17.Proofs_amap c17.Proofs_ext c17.Proofs_inv.
Import ListNotations.
Local Open Scope Z_scope.

(* the observer string determines the group and vice versa *)
Definition og (o : observer) : group :=
  match o with
  | OV4 a => G4 a
  | OV6 m0 m1 m2 m3 _ _ _ _ => G6 m0 m1 m2 (m3 / 256)
  end.

Lemma group_of_og : forall r, group_of r = option_map og (observer_of r).
Proof.
  intros [a|g0 g1 g2 g3 g4 g5 g6 g7|]; cbn [group_of observer_of option_map og]; try reflexivity.
  destruct (is_v4_mapped g0 g1 g2 g3 g4 g5); cbn [option_map og]; [reflexivity|].
  rewrite Z.div_mul by lia. reflexivity.
Qed.

Lemma og_inj_image : forall r1 r2 o1 o2,
  observer_of r1 = Some o1 -> observer_of r2 = Some o2 -> og o1 = og o2 -> o1 = o2.
Proof.
  intros r1 r2 o1 o2 H1 H2 H.
  destruct r1 as [a|a0 a1 a2 a3 a4 a5 a6 a7|]; cbn [observer_of] in H1; try discriminate;
  destruct r2 as [b|b0 b1 b2 b3 b4 b5 b6 b7|]; cbn [observer_of] in H2; try discriminate;
  try destruct (is_v4_mapped a0 a1 a2 a3 a4 a5); try destruct (is_v4_mapped b0 b1 b2 b3 b4 b5);
  inversion H1; inversion H2; subst; cbn [og] in H; inversion H; subst; try reflexivity.
  rewrite !Z.div_mul in * by lia.
  match goal with E : _ / 256 = _ / 256 |- _ => rewrite E end. reflexivity.
Qed.

(* same group <-> same observer string, for any two remotes: the code's
   observer key realises "once per IPv4 address or IPv6 /56" *)
Lemma observer_eq_iff_group_eq : forall r1 r2,
  observer_of r1 = observer_of r2 <-> group_of r1 = group_of r2.
Proof.
  intros r1 r2. rewrite !group_of_og. split.
  - intros ->. reflexivity.
  - destruct (observer_of r1) as [o1|] eqn:E1, (observer_of r2) as [o2|] eqn:E2;
      cbn [option_map]; intros H; try discriminate; [|reflexivity].
    inversion H. f_equal. eapply og_inj_image; eassumption.
Qed.

Lemma group_eqb_spec : forall a b, group_eqb a b = true <-> a = b.
Proof.
  intros a b. split.
  - destruct a, b; cbn [group_eqb]; try discriminate.
    + intros H. apply Z.eqb_eq in H. subst. reflexivity.
    + intros H. repeat (apply andb_prop in H; destruct H as [H ?]).
      repeat match goal with E : (_ =? _) = true |- _ => apply Z.eqb_eq in E end.
      subst. reflexivity.
  - intros ->. destruct b; cbn [group_eqb]; rewrite ?Z.eqb_refl; reflexivity.
Qed.

Section Dedup.
  Context {A : Type}.
  Variable eqb : A -> A -> bool.
  Hypothesis eqb_spec : forall a b, eqb a b = true <-> a = b.

  Lemma existsb_eqb_In : forall a l, existsb (eqb a) l = true <-> In a l.
  Proof.
    intros a l. rewrite existsb_exists. split.
    - intros [x [H1 H2]]. apply eqb_spec in H2. subst. exact H1.
    - intros H. exists a. split; [exact H|]. apply eqb_spec. reflexivity.
  Qed.

  Lemma dedupb_In : forall a l, In a (dedupb eqb l) <-> In a l.
  Proof.
    intros a l. induction l as [|b r IH]; [reflexivity|]. cbn [dedupb].
    destruct (existsb (eqb b) r) eqn:E.
    - rewrite IH. split; [intros H; right; exact H|].
      intros [H|H]; [|exact H]. subst. apply existsb_eqb_In, E.
    - cbn [In]. rewrite IH. reflexivity.
  Qed.

  Lemma dedupb_NoDup : forall l, NoDup (dedupb eqb l).
  Proof.
    induction l as [|b r IH]; [constructor|]. cbn [dedupb].
    destruct (existsb (eqb b) r) eqn:E; [exact IH|].
    constructor; [|exact IH]. intros H. apply (proj1 (dedupb_In b r)) in H.
    apply (proj2 (existsb_eqb_In b r)) in H. rewrite H in E. discriminate.
  Qed.
End Dedup.

Lemma filter_pos_exists : forall {A} (f : A -> bool) l,
  (1 <= length (filter f l))%nat <-> exists p, In p l /\ f p = true.
Proof.
  intros A f l. split.
  - destruct (filter f l) as [|p r] eqn:E; cbn [length]; [lia|]. intros _.
    exists p. apply filter_In. rewrite E. left. reflexivity.
  - intros [p H]. apply filter_In in H. destruct (filter f l); [destruct H|cbn [length]; lia].
Qed.

(* the key lemma *)
Lemma oset_length_nobs : forall cfg st m l x, Inv cfg st m ->
  length (oset (ext st) l x) = nobs cfg (m_cred m) l x.
Proof.
  intros cfg st m l x [Hcl Hcr Hval Hnd Hwf Hcnt].
  destruct (oset_wf (ext st) l x Hwf) as [Hnds Hkeys].
  (* membership in the observer set, in terms of connObservedTWAddrs *)
  assert (F1 : forall g, In g (keys (oset (ext st) l x)) <->
                         exists p, In p (cobs st) /\ credits cfg l x g p = true).
  { intros g. rewrite Hkeys, Hcnt. rewrite <- filter_pos_exists. lia. }
  unfold nobs. rewrite Hcr.
  assert (F2 : forall gr, In gr (groups_for cfg (cred_of cfg (cobs st)) l x) <->
                          In gr (map og (keys (oset (ext st) l x)))).
  { intros gr. unfold groups_for. rewrite in_flat_map, in_map_iff. split.
    - intros [e [He Hin]]. unfold cred_of in He. apply in_map_iff in He.
      destruct He as [[c x0] [He Hp]]. subst e. cbn [fst snd] in Hin.
      destruct (Hval c x0 Hp) as [ci [tl [g [Eci [Eloc Eobs]]]]].
      unfold ltw_of in Hin. rewrite Eci, Eloc in Hin. rewrite group_of_og, Eobs in Hin.
      cbn [option_map] in Hin.
      destruct ((tw_id tl =? l) && (x0 =? x)) eqn:Eb; [|destruct Hin].
      destruct Hin as [Hin|[]]. subst gr. exists g. split; [reflexivity|].
      apply F1. exists (c, x0). split; [exact Hp|]. unfold credits. cbn [fst snd].
      rewrite Eci, Eloc, Eobs. apply andb_prop in Eb. destruct Eb as [E1 E2].
      rewrite E1, E2, (proj2 (observer_eqb_spec g g) eq_refl). reflexivity.
    - intros [g [Hg Hin]]. subst gr. apply F1 in Hin. destruct Hin as [[c x0] [Hp Hc]].
      exists (c, (ltw_of cfg c, x0)). split.
      + unfold cred_of. apply in_map_iff. exists (c, x0). split; [reflexivity|exact Hp].
      + cbn [fst snd]. unfold credits in Hc. cbn [fst snd] in Hc. unfold ltw_of.
        destruct (conn_info cfg c) as [ci|]; [|rewrite andb_false_r in Hc; discriminate].
        destruct (c_local ci) as [tl|]; [|rewrite andb_false_r in Hc; discriminate].
        rewrite group_of_og.
        destruct (observer_of (c_remote ci)) as [g'|]; [|rewrite andb_false_r in Hc; discriminate].
        apply andb_prop in Hc. destruct Hc as [E1 Hc]. apply andb_prop in Hc. destruct Hc as [E2 E3].
        apply observer_eqb_spec in E3. subst g'. rewrite E1, E2. cbn [andb option_map].
        left. reflexivity. }
  assert (Hinj : forall a b, In a (keys (oset (ext st) l x)) -> In b (keys (oset (ext st) l x)) ->
                             og a = og b -> a = b).
  { intros a b Ha Hb Hab. apply F1 in Ha. apply F1 in Hb.
    destruct Ha as [[c1 x1] [_ H1]]. destruct Hb as [[c2 x2] [_ H2]].
    unfold credits in H1, H2. cbn [fst snd] in H1, H2.
    destruct (conn_info cfg c1) as [ci1|]; [|rewrite andb_false_r in H1; discriminate].
    destruct (c_local ci1); [|rewrite andb_false_r in H1; discriminate].
    destruct (observer_of (c_remote ci1)) as [o1|] eqn:O1; [|rewrite andb_false_r in H1; discriminate].
    destruct (conn_info cfg c2) as [ci2|]; [|rewrite andb_false_r in H2; discriminate].
    destruct (c_local ci2); [|rewrite andb_false_r in H2; discriminate].
    destruct (observer_of (c_remote ci2)) as [o2|] eqn:O2; [|rewrite andb_false_r in H2; discriminate].
    apply andb_prop in H1. destruct H1 as [_ H1]. apply andb_prop in H1. destruct H1 as [_ H1].
    apply andb_prop in H2. destruct H2 as [_ H2]. apply andb_prop in H2. destruct H2 as [_ H2].
    apply observer_eqb_spec in H1. apply observer_eqb_spec in H2. subst o1 o2.
    eapply og_inj_image; eassumption. }
  rewrite <- (map_length fst (oset (ext st) l x)). fold (keys (oset (ext st) l x)).
  rewrite <- (map_length og (keys (oset (ext st) l x))).
  apply NoDup_same_length.
  - apply NoDup_map_local_inj; assumption.
  - apply (dedupb_NoDup group_eqb group_eqb_spec).
  - intros gr. rewrite (dedupb_In group_eqb group_eqb_spec). symmetry. apply F2.
Qed.

(* C17 — observed addresses.  Executable model transcribed from
   /repo/p2p/host/observedaddrs/manager.go (Manager: shouldRecordObservation,
   recordObservationUnlocked, add/removeExternalAddrsUnlocked, removeConn,
   getTopExternalAddrs, AddrsFor, Addrs/appendInferredAddrs, getObserver).
   No proofs in this file. *)
From Coq Require Import List ZArith Bool Arith.
Import ListNotations.
Local Open Scope Z_scope.

(* ---- Go maps ------------------------------------------------------------ *)
(* A Go map is an association list with at most one entry per key.  [set]
   puts the binding in front and removes any older one, [del] removes the key.
   Iteration order of Go maps is unspecified; nothing observable below depends
   on the order of these lists (getTopExternalAddrs sorts with a total order). *)
Section AMap.
  Context {K V : Type}.
  Variable eqb : K -> K -> bool.

  Fixpoint get (k : K) (m : list (K * V)) : option V :=
    match m with
    | [] => None
    | (k', v) :: r => if eqb k k' then Some v else get k r
    end.

  Definition del (k : K) (m : list (K * V)) : list (K * V) :=
    filter (fun p => negb (eqb k (fst p))) m.

  Definition set (k : K) (v : V) (m : list (K * V)) : list (K * V) :=
    (k, v) :: del k m.
End AMap.

(* ---- addresses as the manager sees them ---------------------------------- *)

(* thinWaistForm succeeded: identity of the thin waist (ip + tcp/udp port
   prefix) and the two protocol codes hasConsistentTransport compares *)
Record tw := mkTW { tw_id : Z; tw_fam : Z; tw_proto : Z }.

(* The IP of a connection's remote multiaddr (manet.ToIP):
   IPv4 as one number; IPv6 as its eight 16-bit groups; RNone = ToIP fails *)
Inductive remote :=
| R4 (a : Z)
| R6 (g0 g1 g2 g3 g4 g5 g6 g7 : Z)
| RNone.

(* The observer string of getObserver: ip4.String() for an address with a
   4-byte form (net.IP.To4: IPv4, or IPv6 ::ffff:a.b.c.d), else the IPv6
   address masked with CIDRMask(56,128): bytes 0..6 kept, bytes 7..15 cleared,
   i.e. groups 0..2 kept, low byte of group 3 cleared, groups 4..7 zero. *)
Inductive observer :=
| OV4 (a : Z)
| OV6 (m0 m1 m2 m3 m4 m5 m6 m7 : Z).

Definition is_v4_mapped (g0 g1 g2 g3 g4 g5 : Z) : bool :=
  (g0 =? 0) && (g1 =? 0) && (g2 =? 0) && (g3 =? 0) && (g4 =? 0) && (g5 =? 65535).

Definition observer_of (r : remote) : option observer :=
  match r with
  | R4 a => Some (OV4 a)
  | R6 g0 g1 g2 g3 g4 g5 g6 g7 =>
      if is_v4_mapped g0 g1 g2 g3 g4 g5 then Some (OV4 (g6 * 65536 + g7))
      else Some (OV6 g0 g1 g2 ((g3 / 256) * 256) 0 0 0 0)
  | RNone => None
  end.

Definition observer_eqb (a b : observer) : bool :=
  match a, b with
  | OV4 x, OV4 y => x =? y
  | OV6 a0 a1 a2 a3 a4 a5 a6 a7, OV6 b0 b1 b2 b3 b4 b5 b6 b7 =>
      (a0 =? b0) && (a1 =? b1) && (a2 =? b2) && (a3 =? b3) &&
      (a4 =? b4) && (a5 =? b5) && (a6 =? b6) && (a7 =? b7)
  | _, _ => false
  end.

(* a connection: LocalMultiaddr (None = no thin-waist form) and the remote IP;
   both immutable for the life of the connection *)
Record conninfo := mkConn { c_local : option tw; c_remote : remote }.

(* an observed address as reported by a peer: the three class predicates the
   code evaluates (manet.IsIPLoopback, manet.IsNAT64IPv4ConvertedIPv6Addr,
   isRelayedAddress) and its thin-waist form (None = thinWaistForm fails) *)
Record obsaddr := mkObs { o_lb : bool; o_n64 : bool; o_relay : bool; o_tw : option tw }.

(* a listen address: its thin waist id (None = no thin-waist form) and the
   identity of the rest of the multiaddr after the thin waist *)
Definition laddr := (option Z * Z)%type.

Record config := mkCfg {
  thresh : Z;                 (* ActivationThresh *)
  cap : nat;                  (* maxExternalThinWaistAddrsPerLocalAddr *)
  listen : list laddr;        (* what listenAddrs() returns *)
  queries : list laddr;       (* addresses AddrsFor is called with after each op *)
  conns : list conninfo       (* connection universe, indexed from 0 *)
}.

Definition conn_info (cfg : config) (c : Z) : option conninfo :=
  if c <? 0 then None else nth_error (conns cfg) (Z.to_nat c).

(* ---- state ---------------------------------------------------------------- *)

(* externalAddrs: local TW => observed TW => ObservedBy (observer => count) *)
Definition obsset := list (observer * Z).
Definition extmap := list (Z * list (Z * obsset)).

Record state := mkSt {
  ext : extmap;
  cobs : list (Z * Z);        (* connObservedTWAddrs: conn => observed TW *)
  closed : list Z             (* conns whose IsClosed() answers true *)
}.

Definition init_state : state := mkSt [] [] [].

Definition zmem (x : Z) (l : list Z) : bool := existsb (Z.eqb x) l.

(* addExternalAddrsUnlocked *)
Definition add_external (e : extmap) (l x : Z) (g : observer) : extmap :=
  let m := match get Z.eqb l e with Some m => m | None => [] end in
  let s := match get Z.eqb x m with Some s => s | None => [] end in
  let n := match get observer_eqb g s with Some n => n | None => 0 end in
  set Z.eqb l (set Z.eqb x (set observer_eqb g (n + 1) s) m) e.

(* removeExternalAddrsUnlocked *)
Definition remove_external (e : extmap) (l x : Z) (g : observer) : extmap :=
  match get Z.eqb l e with
  | None => e
  | Some m =>
    match get Z.eqb x m with
    | None => e
    | Some s =>
      let n := (match get observer_eqb g s with Some n => n | None => 0 end) - 1 in
      let s1 := if n <=? 0 then del observer_eqb g s else set observer_eqb g n s in
      let m1 := if Nat.eqb (length s1) 0 then del Z.eqb x m else set Z.eqb x s1 m in
      if Nat.eqb (length m1) 0 then del Z.eqb l e else set Z.eqb l m1 e
    end
  end.

(* hasConsistentTransport on two thin waists (both have length 2) *)
Definition consistent (a b : tw) : bool :=
  (tw_fam a =? tw_fam b) && (tw_proto a =? tw_proto b).

Definition is_listen_tw (cfg : config) (l : Z) : bool :=
  existsb (fun la : laddr => match fst la with Some t => t =? l | None => false end) (listen cfg).

(* shouldRecordObservation *)
Definition should_record (cfg : config) (ci : conninfo) (oa : obsaddr) : option (tw * tw) :=
  if o_lb oa then None
  else if o_n64 oa then None
  else if o_relay oa then None
  else match c_local ci with
       | None => None
       | Some l =>
         if negb (is_listen_tw cfg (tw_id l)) then None
         else match o_tw oa with
              | None => None
              | Some x => if consistent l x then Some (l, x) else None
              end
       end.

(* removeConn *)
Definition remove_conn (cfg : config) (st : state) (c : Z) : state :=
  match get Z.eqb c (cobs st) with
  | None => st
  | Some x =>
    let cobs' := del Z.eqb c (cobs st) in
    match conn_info cfg c with
    | None => mkSt (ext st) cobs' (closed st)
    | Some ci =>
      match c_local ci with
      | None => mkSt (ext st) cobs' (closed st)
      | Some l =>
        match observer_of (c_remote ci) with
        | None => mkSt (ext st) cobs' (closed st)
        | Some g => mkSt (remove_external (ext st) (tw_id l) x g) cobs' (closed st)
        end
      end
    end
  end.

(* maybeRecordObservation + recordObservationUnlocked.  When
   shouldRecordObservation refuses the (non-nil) report, the connection's
   previous observation is withdrawn with removeConn: the unusable report
   still replaces it ("fix: observedaddrs: ..." in /repo). *)
Definition record (cfg : config) (st : state) (c : Z) (oa : obsaddr) : state :=
  match conn_info cfg c with
  | None => st
  | Some ci =>
    match should_record cfg ci oa with
    | None => remove_conn cfg st c
    | Some (l, x) =>
      if zmem c (closed st) then st
      else match observer_of (c_remote ci) with
           | None => st
           | Some g =>
             match get Z.eqb c (cobs st) with
             | Some prev =>
                 if prev =? tw_id x then st
                 else
                   let e1 := remove_external (ext st) (tw_id l) prev g in
                   mkSt (add_external e1 (tw_id l) (tw_id x) g)
                        (set Z.eqb c (tw_id x) (cobs st)) (closed st)
             | None =>
                 mkSt (add_external (ext st) (tw_id l) (tw_id x) g)
                      (set Z.eqb c (tw_id x) (cobs st)) (closed st)
             end
           end
    end
  end.

Definition mark_closed (st : state) (c : Z) : state :=
  mkSt (ext st) (cobs st) (if zmem c (closed st) then closed st else c :: closed st).

(* ---- reading ----------------------------------------------------------------- *)

(* the comparison of getTopExternalAddrs on (observed TW id, len(ObservedBy)):
   more observers first; ties by ObservedTWAddr.Compare, which the harness
   makes the order of the ids *)
Definition set_le (a b : Z * nat) : bool :=
  Nat.ltb (snd b) (snd a) || (Nat.eqb (snd a) (snd b) && (fst a <=? fst b)).

Fixpoint insert (a : Z * nat) (l : list (Z * nat)) : list (Z * nat) :=
  match l with
  | [] => [a]
  | b :: r => if set_le a b then a :: l else b :: insert a r
  end.

Definition sort_sets (l : list (Z * nat)) : list (Z * nat) := fold_right insert [] l.

(* getTopExternalAddrs: (observed TW, number of observers), best first *)
Definition top_external (k : nat) (e : extmap) (l : Z) (minobs : Z) : list (Z * nat) :=
  let sets := match get Z.eqb l e with Some m => m | None => [] end in
  let cands := filter (fun p : Z * obsset => minobs <=? Z.of_nat (length (snd p))) sets in
  firstn k (sort_sets (map (fun p : Z * obsset => (fst p, length (snd p))) cands)).

(* AddrsFor: observed thin waists, to each of which the caller's Rest is appended *)
Definition addrs_for (cfg : config) (st : state) (la : laddr) : list Z :=
  match fst la with
  | None => []
  | Some l => map fst (top_external (cap cfg) (ext st) l (thresh cfg))
  end.

Definition laddr_eqb (a b : laddr) : bool :=
  (match fst a, fst b with
   | Some x, Some y => x =? y
   | None, None => true
   | _, _ => false
   end) && (snd a =? snd b).

(* the seenTWs loop of appendInferredAddrs: first occurrences only *)
Fixpoint dedup_laddr (seen l : list laddr) : list laddr :=
  match l with
  | [] => []
  | a :: r => if existsb (laddr_eqb a) seen then dedup_laddr seen r
              else a :: dedup_laddr (a :: seen) r
  end.

(* Addrs(0): for every distinct listen address with a thin-waist form, its
   top observed thin waists joined with that listen address's rest *)
Definition addrs_all (cfg : config) (st : state) : list (Z * Z) :=
  flat_map (fun la : laddr => map (fun x => (x, snd la)) (addrs_for cfg st la))
           (dedup_laddr [] (listen cfg)).

(* ---- operation language shared by theorems and correspondence ---------------- *)

Inductive op :=
| Observe (c : Z) (oa : obsaddr)     (* identify delivered an observed address on conn c *)
| MarkClosed (c : Z)                 (* conn c's IsClosed() becomes true (no notification yet) *)
| Disconnect (c : Z)                 (* Disconnected notification: IsClosed() true, removeConn(c) *)
| ObservePair (c : Z) (oa ob : obsaddr)
    (* two reports of conn c in quick succession, oa first: the first is still
       inside shouldRecordObservation (stalled at its listenAddrs() call) when
       the second is queued.  With the single worker they are applied in order *)
| ObserveDuring (c : Z) (oa : obsaddr) (d : Z)
    (* as Observe, but conn d is closed and its Disconnected notification is
       delivered while the worker is inside shouldRecordObservation, at the
       listenAddrs() call, i.e. before maybeRecordObservation takes o.mu *)
| SetListen (ls : list laddr)
    (* the environment: from now on listenAddrs() returns ls (a listener was
       closed / opened, an interface address went away); open connections stay
       open and the manager is not told *)
| SetThresh (n : Z).
    (* the environment: the exported package variable ActivationThresh is set
       to n (it is read by AddrsFor / Addrs at every call) *)

(* The environment part of the configuration after an operation: listenAddrs()
   and ActivationThresh are not state of the Manager; the Manager reads them
   when it needs them.  Connections, cap and queried addresses never change. *)
Definition env_step (cfg : config) (o : op) : config :=
  match o with
  | SetListen ls => mkCfg (thresh cfg) (cap cfg) ls (queries cfg) (conns cfg)
  | SetThresh n => mkCfg n (cap cfg) (listen cfg) (queries cfg) (conns cfg)
  | _ => cfg
  end.

(* does shouldRecordObservation get as far as calling listenAddrs()?  (after
   the nil / loopback / NAT64 / relay checks and the thin-waist form of the
   connection's local address) *)
Definition hook_fires (cfg : config) (c : Z) (oa : obsaddr) : bool :=
  match conn_info cfg c with
  | None => false
  | Some ci =>
      negb (o_lb oa) && negb (o_n64 oa) && negb (o_relay oa) &&
      match c_local ci with Some _ => true | None => false end
  end.

Definition disconnect (cfg : config) (st : state) (c : Z) : state :=
  remove_conn cfg (mark_closed st c) c.

Definition step (cfg : config) (st : state) (o : op) : state :=
  match o with
  | Observe c oa => record cfg st c oa
  | MarkClosed c => mark_closed st c
  | Disconnect c => disconnect cfg st c
  | ObservePair c oa ob => record cfg (record cfg st c oa) c ob
  | ObserveDuring c oa d =>
      (* the IsClosed check of recordObservationUnlocked runs under the lock,
         after the interleaved removeConn: [record] sees the new closed set *)
      if hook_fires cfg c oa then record cfg (disconnect cfg st d) c oa
      else record cfg st c oa
  | SetListen _ => st     (* nothing of the Manager changes *)
  | SetThresh _ => st
  end.

(* was the during-observation disconnect delivered? *)
Definition fired (cfg : config) (o : op) : bool :=
  match o with
  | ObserveDuring c oa _ => hook_fires cfg c oa
  | _ => false
  end.

(* what the harness reads after every operation (plus, for ObserveDuring,
   whether its scripted disconnect was delivered) *)
Record obs := mkO { o_for : list (list Z); o_all : list (Z * Z); o_fired : bool }.

Definition observe (cfg : config) (st : state) (f : bool) : obs :=
  mkO (map (addrs_for cfg st) (queries cfg)) (addrs_all cfg st) f.

Fixpoint run (cfg : config) (st : state) (ops : list op) : state :=
  match ops with
  | [] => st
  | o :: r => run (env_step cfg o) (step cfg st o) r
  end.

(* the configuration (listen set, threshold) current after the operations *)
Fixpoint cfg_after (cfg : config) (ops : list op) : config :=
  match ops with
  | [] => cfg
  | o :: r => cfg_after (env_step cfg o) r
  end.

(* the answers after an operation are read in the environment as it is after
   that operation *)
Fixpoint trace (cfg : config) (st : state) (ops : list op) : list (op * obs) :=
  match ops with
  | [] => []
  | o :: r => let st' := step cfg st o in
              let cfg' := env_step cfg o in
              (o, observe cfg' st' (fired cfg o)) :: trace cfg' st' r
  end.

(* addrs_manager.appendObservedAddrs: the host takes at most
   maxObservedAddrsPerListenAddr of what AddrsFor returns, in order *)
Definition host_observed_for (k : nat) (cfg : config) (st : state) (la : laddr) : list Z :=
  firstn k (addrs_for cfg st la).

(* ---- host level: p2p/host/basic/addrs_manager.go ------------------------------
   updateAddrs recomputes localAddrs = interface/listen addresses ++ NAT
   mappings ++ (for every listen address la) AddrsFor(la)[:3] from the observed
   address manager's CURRENT answer, and stores it as the snapshot currentAddrs
   on every update.  The host's views are functions of that snapshot:
     DirectAddrs()    = snapshot.localAddrs
     Addrs()          = AddrsFactory(dialable(localAddrs)): with autonat-v1
                        reachability Private and relay addresses present the
                        public addresses are dropped; the factory may hide more
     HolePunchAddrs() = public addresses of AddrsFactory(DirectAddrs()) ++ manager.Addrs(1)
   For one observed address x that is not one of the host's own interface /
   NAT addresses, membership in the three views is therefore a function of:
   is x in the manager's current AddrsFor answers (inM0), in its current
   Addrs(1) answer (inM1), is x public, does the AddrsFactory hide x, and is
   the host private-with-relay. *)
Record hostx := mkHX { hx_pub : bool; hx_hidden : bool }.
Record hview := mkHV { hv_direct : bool; hv_addrs : bool; hv_hole : bool }.

Definition host_view (private_relay : bool) (x : hostx) (inM0 inM1 : bool) : hview :=
  mkHV inM0
       (inM0 && negb (hx_hidden x) && negb (private_relay && hx_pub x))
       (hx_pub x && ((inM0 && negb (hx_hidden x)) || inM1)).

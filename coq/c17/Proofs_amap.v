(* C17 — generic facts about the association-list model of Go maps. *)
From Coq Require Import List Arith ZArith Bool Lia Permutation.
From Verif Require Import c17.Model.
Import ListNotations.

Definition keys {K V} (m : list (K * V)) : list K := map fst m.

Definition getd {K V} (eqb : K -> K -> bool) (k : K) (m : list (K * V)) (d : V) : V :=
  match get eqb k m with Some v => v | None => d end.

Section AMapFacts.
  Context {K V : Type}.
  Variable eqb : K -> K -> bool.
  Hypothesis eqb_spec : forall a b, eqb a b = true <-> a = b.

  Lemma eqb_refl : forall a, eqb a a = true.
  Proof. intros a. apply eqb_spec. reflexivity. Qed.

  Lemma eqb_neq : forall a b, a <> b -> eqb a b = false.
  Proof.
    intros a b H. destruct (eqb a b) eqn:E; [|reflexivity].
    apply eqb_spec in E. contradiction.
  Qed.

  Lemma eqb_dec : forall a b : K, a = b \/ a <> b.
  Proof.
    intros a b. destruct (eqb a b) eqn:E.
    - left. apply eqb_spec, E.
    - right. intros H. apply eqb_spec in H. congruence.
  Qed.

  Lemma In_del : forall k (m : list (K * V)) p,
    In p (del eqb k m) <-> In p m /\ fst p <> k.
  Proof.
    intros k m p. unfold del. rewrite filter_In. split.
    - intros [H1 H2]. split; [exact H1|]. intros E. subst k.
      rewrite eqb_refl in H2. discriminate.
    - intros [H1 H2]. split; [exact H1|]. rewrite eqb_neq; [reflexivity|].
      intros E. apply H2. symmetry. exact E.
  Qed.

  Lemma get_del_same : forall k (m : list (K * V)), get eqb k (del eqb k m) = None.
  Proof.
    intros k m. induction m as [|[k' v] r IH]; [reflexivity|].
    unfold del in *. cbn [filter fst]. destruct (eqb k k') eqn:E; cbn [negb].
    - exact IH.
    - cbn [get]. rewrite E. exact IH.
  Qed.

  Lemma get_del_other : forall k k' (m : list (K * V)), k <> k' ->
    get eqb k' (del eqb k m) = get eqb k' m.
  Proof.
    intros k k' m Hn. induction m as [|[k2 v] r IH]; [reflexivity|].
    unfold del in *. cbn [filter fst]. destruct (eqb k k2) eqn:E; cbn [negb get].
    - apply eqb_spec in E. subst k2. rewrite (eqb_neq k' k); [exact IH|]. congruence.
    - destruct (eqb k' k2); [reflexivity|exact IH].
  Qed.

  Lemma get_set_same : forall k v (m : list (K * V)), get eqb k (set eqb k v m) = Some v.
  Proof. intros. unfold set. cbn [get]. rewrite eqb_refl. reflexivity. Qed.

  Lemma get_set_other : forall k k' v (m : list (K * V)), k <> k' ->
    get eqb k' (set eqb k v m) = get eqb k' m.
  Proof.
    intros k k' v m Hn. unfold set. cbn [get]. rewrite (eqb_neq k' k) by congruence.
    apply get_del_other, Hn.
  Qed.

  Lemma getd_set_same : forall k v (m : list (K * V)) d, getd eqb k (set eqb k v m) d = v.
  Proof. intros. unfold getd. rewrite get_set_same. reflexivity. Qed.

  Lemma getd_set_other : forall k k' v (m : list (K * V)) d, k <> k' ->
    getd eqb k' (set eqb k v m) d = getd eqb k' m d.
  Proof. intros. unfold getd. rewrite get_set_other by assumption. reflexivity. Qed.

  Lemma getd_del_same : forall k (m : list (K * V)) d, getd eqb k (del eqb k m) d = d.
  Proof. intros. unfold getd. rewrite get_del_same. reflexivity. Qed.

  Lemma getd_del_other : forall k k' (m : list (K * V)) d, k <> k' ->
    getd eqb k' (del eqb k m) d = getd eqb k' m d.
  Proof. intros. unfold getd. rewrite get_del_other by assumption. reflexivity. Qed.

  Lemma get_In : forall k v (m : list (K * V)), get eqb k m = Some v -> In (k, v) m.
  Proof.
    intros k v m. induction m as [|[k' v'] r IH]; cbn [get]; [discriminate|].
    destruct (eqb k k') eqn:E.
    - intros H. inversion H. subst. apply eqb_spec in E. subst. left. reflexivity.
    - intros H. right. apply IH, H.
  Qed.

  Lemma get_None_notin : forall k (m : list (K * V)), get eqb k m = None -> ~ In k (keys m).
  Proof.
    intros k m. induction m as [|[k' v'] r IH]; cbn [get keys map fst]; [intros _ []|].
    destruct (eqb k k') eqn:E; [discriminate|].
    intros H [H1|H1].
    - subst k'. rewrite eqb_refl in E. discriminate.
    - exact (IH H H1).
  Qed.

  Lemma In_get : forall k v (m : list (K * V)), NoDup (keys m) -> In (k, v) m -> get eqb k m = Some v.
  Proof.
    intros k v m. induction m as [|[k' v'] r IH]; [intros _ []|].
    cbn [keys map fst get]. intros Hnd [H|H].
    - inversion H. subst. rewrite eqb_refl. reflexivity.
    - inversion Hnd as [|? ? Hnotin Hnd']. subst.
      destruct (eqb k k') eqn:E.
      + apply eqb_spec in E. subst k'. exfalso. apply Hnotin.
        change (In (fst (k, v)) (map fst r)). apply in_map, H.
      + apply IH; assumption.
  Qed.

  Lemma In_keys_get : forall k (m : list (K * V)), In k (keys m) -> exists v, get eqb k m = Some v.
  Proof.
    intros k m. destruct (get eqb k m) eqn:E; [eauto|].
    intros H. exfalso. exact (get_None_notin _ _ E H).
  Qed.

  Lemma keys_del_incl : forall k (m : list (K * V)) a, In a (keys (del eqb k m)) -> In a (keys m) /\ a <> k.
  Proof.
    intros k m a H. unfold keys in *. apply in_map_iff in H. destruct H as [p [Hp Hin]].
    apply In_del in Hin. destruct Hin as [Hin Hne]. subst a. split; [apply in_map, Hin|exact Hne].
  Qed.

  Lemma NoDup_keys_del : forall k (m : list (K * V)), NoDup (keys m) -> NoDup (keys (del eqb k m)).
  Proof.
    intros k m. induction m as [|[k' v'] r IH]; [intros; constructor|].
    cbn [keys map fst]. intros Hnd. inversion Hnd as [|? ? Hnotin Hnd']. subst.
    unfold del. cbn [filter fst]. destruct (eqb k k'); cbn [negb].
    - apply IH, Hnd'.
    - cbn [keys map fst]. constructor; [|apply IH, Hnd'].
      intros H. apply keys_del_incl in H. apply Hnotin, H.
  Qed.

  Lemma NoDup_keys_set : forall k v (m : list (K * V)), NoDup (keys m) -> NoDup (keys (set eqb k v m)).
  Proof.
    intros k v m Hnd. unfold set. cbn [keys map fst]. constructor.
    - intros H. apply keys_del_incl in H. destruct H as [_ H]. apply H. reflexivity.
    - apply NoDup_keys_del, Hnd.
  Qed.

  Lemma del_notin : forall k (m : list (K * V)), ~ In k (keys m) -> del eqb k m = m.
  Proof.
    intros k m. induction m as [|[k' v'] r IH]; [reflexivity|].
    cbn [keys map fst]. intros H. unfold del in *. cbn [filter fst].
    rewrite (eqb_neq k k').
    - cbn [negb]. f_equal. apply IH. intros H1. apply H. right. exact H1.
    - intros E. apply H. left. symmetry. exact E.
  Qed.

  (* counting entries that satisfy f, under deletion of a key *)
  Lemma count_del : forall (f : K * V -> bool) k v (m : list (K * V)),
    NoDup (keys m) -> get eqb k m = Some v ->
    length (filter f m) = (length (filter f (del eqb k m)) + (if f (k, v) then 1 else 0))%nat.
  Proof.
    intros f k v m. induction m as [|[k' v'] r IH]; cbn [get]; [discriminate|].
    cbn [keys map fst]. intros Hnd Hg. inversion Hnd as [|? ? Hnotin Hnd']. subst.
    unfold del in *. cbn [filter fst]. destruct (eqb k k') eqn:E; cbn [negb].
    - apply eqb_spec in E. subst k'. inversion Hg. subst v'.
      fold (del eqb k r). rewrite (del_notin k r Hnotin).
      destruct (f (k, v)); cbn [length]; lia.
    - cbn [filter]. specialize (IH Hnd' Hg).
      destruct (f (k', v')); cbn [length]; lia.
  Qed.

  Lemma length_zero_nil : forall (m : list (K * V)), Nat.eqb (length m) 0 = true -> m = [].
  Proof. intros [|a r]; [reflexivity|discriminate]. Qed.

  Lemma length_nonzero : forall (m : list (K * V)), Nat.eqb (length m) 0 = false -> m <> [].
  Proof. intros [|a r]; [discriminate|intros _ H; discriminate]. Qed.
End AMapFacts.

(* local injectivity is enough to keep NoDup through a map *)
Lemma NoDup_map_local_inj : forall {A B} (f : A -> B) (l : list A),
  (forall a b, In a l -> In b l -> f a = f b -> a = b) -> NoDup l -> NoDup (map f l).
Proof.
  intros A B f l. induction l as [|a r IH]; [intros; constructor|].
  intros Hinj Hnd. inversion Hnd as [|? ? Hnotin Hnd']. subst. cbn [map]. constructor.
  - intros H. apply in_map_iff in H. destruct H as [b [Hb Hin]].
    assert (b = a) by (apply Hinj; [right; exact Hin|left; reflexivity|exact Hb]).
    subst b. contradiction.
  - apply IH; [|exact Hnd']. intros x y Hx Hy. apply Hinj; right; assumption.
Qed.

(* two duplicate-free lists with the same elements have the same length *)
Lemma NoDup_same_length : forall {A} (l1 l2 : list A),
  NoDup l1 -> NoDup l2 -> (forall a, In a l1 <-> In a l2) -> length l1 = length l2.
Proof.
  intros A l1 l2 H1 H2 H. apply Permutation_length, NoDup_Permutation; assumption.
Qed.

(* C17 — the invariant that ties the manager's state (externalAddrs,
   connObservedTWAddrs) to the history-level bookkeeping of the monitor:
   externalAddrs is exactly the multiset of the observations currently credited
   to open connections. *)
From Coq Require Import List Arith ZArith Bool Lia.
From Verif Require Import lib.Wire c17.Model c17.Spec c17.Proofs_amap c17.Proofs_ext.
Import ListNotations.
Local Open Scope Z_scope.

(* local thin waist of a connection (-1: none) *)
Definition ltw_of (cfg : config) (c : Z) : Z :=
  match conn_info cfg c with
  | Some ci => match c_local ci with Some l => tw_id l | None => -1 end
  | None => -1
  end.

(* the monitor's view of connObservedTWAddrs *)
Definition cred_of (cfg : config) (co : list (Z * Z)) : list (Z * (Z * Z)) :=
  map (fun p : Z * Z => (fst p, (ltw_of cfg (fst p), snd p))) co.

Definition valid_conn (cfg : config) (c : Z) : Prop :=
  exists ci l g, conn_info cfg c = Some ci /\ c_local ci = Some l /\
                 observer_of (c_remote ci) = Some g.

(* does the entry (conn, observed) of connObservedTWAddrs vouch for x on l as observer g? *)
Definition credits (cfg : config) (l x : Z) (g : observer) (p : Z * Z) : bool :=
  (snd p =? x) &&
  match conn_info cfg (fst p) with
  | Some ci =>
      match c_local ci, observer_of (c_remote ci) with
      | Some tl, Some g' => (tw_id tl =? l) && observer_eqb g' g
      | _, _ => false
      end
  | None => false
  end.

Record Inv (cfg : config) (st : state) (m : mon) : Prop := mkInv {
  inv_closed : m_closed m = closed st;
  inv_cred : m_cred m = cred_of cfg (cobs st);
  inv_valid : forall c x, In (c, x) (cobs st) -> valid_conn cfg c;
  inv_nodup : NoDup (keys (cobs st));
  inv_wf : wf_ext (ext st);
  inv_cnt : forall l x g,
      cnt (ext st) l x g = Z.of_nat (length (filter (credits cfg l x g) (cobs st)))
}.

Lemma Inv_init : forall cfg, Inv cfg init_state mon_init.
Proof.
  intros cfg. constructor; cbn; try reflexivity.
  - intros ? ? [].
  - constructor.
  - apply wf_ext_nil.
Qed.

Lemma cred_of_del : forall cfg c co, cred_of cfg (del Z.eqb c co) = del Z.eqb c (cred_of cfg co).
Proof.
  intros cfg c co. unfold cred_of, del. induction co as [|[c' x] r IH]; [reflexivity|].
  cbn [filter map fst]. destruct (negb (c =? c')); cbn [map fst]; rewrite IH; reflexivity.
Qed.

Lemma cred_of_set : forall cfg c x co,
  cred_of cfg (set Z.eqb c x co) = set Z.eqb c (ltw_of cfg c, x) (cred_of cfg co).
Proof. intros. unfold set. cbn [cred_of map fst snd]. f_equal. apply cred_of_del. Qed.

Lemma get_cred_of : forall cfg c co,
  get Z.eqb c (cred_of cfg co) = option_map (fun x => (ltw_of cfg c, x)) (get Z.eqb c co).
Proof.
  intros cfg c co. induction co as [|[c' x] r IH]; [reflexivity|].
  cbn [cred_of map get fst snd]. destruct (c =? c') eqn:E.
  - apply Z.eqb_eq in E. subst c'. reflexivity.
  - exact IH.
Qed.

Lemma group_of_observer : forall r,
  match group_of r, observer_of r with
  | Some _, Some _ | None, None => True
  | _, _ => False
  end.
Proof.
  intros [a|g0 g1 g2 g3 g4 g5 g6 g7|]; cbn [group_of observer_of]; try exact I.
  destruct (is_v4_mapped g0 g1 g2 g3 g4 g5); exact I.
Qed.

(* what maybeRecordObservation does, in terms of the spec's [counts] / [withdraws] *)
Lemma record_counts : forall cfg st c oa,
  match counts cfg (closed st) c oa with
  | None => record cfg st c oa = if withdraws cfg c oa then remove_conn cfg st c else st
  | Some (l, x) =>
      exists ci tl g, conn_info cfg c = Some ci /\ c_local ci = Some tl /\ tw_id tl = l /\
        observer_of (c_remote ci) = Some g /\
        record cfg st c oa =
          match get Z.eqb c (cobs st) with
          | Some prev =>
              if prev =? x then st
              else mkSt (add_external (remove_external (ext st) l prev g) l x g)
                        (set Z.eqb c x (cobs st)) (closed st)
          | None => mkSt (add_external (ext st) l x g) (set Z.eqb c x (cobs st)) (closed st)
          end
  end.
Proof.
  intros cfg st c oa. unfold counts, withdraws, content_counts, record, should_record.
  destruct (conn_info cfg c) as [ci|] eqn:Eci; [|reflexivity].
  destruct (zmem c (closed st)) eqn:Ecl.
  - destruct (o_lb oa); cbn [orb negb andb]; [reflexivity|].
    destruct (o_n64 oa); cbn [orb negb andb]; [reflexivity|].
    destruct (o_relay oa); cbn [orb negb andb]; [reflexivity|].
    destruct (c_local ci) as [tl|]; [|reflexivity].
    destruct (o_tw oa) as [tx|].
    2:{ destruct (is_listen_tw cfg (tw_id tl)); reflexivity. }
    destruct (is_listen_tw cfg (tw_id tl)); cbn [negb andb]; [|reflexivity].
    destruct (consistent tl tx); cbn [negb]; reflexivity.
  - destruct (o_lb oa); cbn [orb negb andb]; [reflexivity|].
    destruct (o_n64 oa); cbn [orb negb andb]; [reflexivity|].
    destruct (o_relay oa); cbn [orb negb andb]; [reflexivity|].
    destruct (c_local ci) as [tl|] eqn:Eloc; [|reflexivity].
    pose proof (group_of_observer (c_remote ci)) as Hgo.
    destruct (o_tw oa) as [tx|].
    2:{ destruct (is_listen_tw cfg (tw_id tl)); reflexivity. }
    destruct (group_of (c_remote ci)) as [gr|]; destruct (observer_of (c_remote ci)) as [g|] eqn:Eobs;
      try contradiction.
    + destruct (is_listen_tw cfg (tw_id tl)); cbn [negb andb]; [|reflexivity].
      destruct (consistent tl tx); cbn [negb]; [|reflexivity].
      exists ci, tl, g. repeat split; try assumption; reflexivity.
    + destruct (is_listen_tw cfg (tw_id tl)); cbn [negb andb]; [|reflexivity].
      destruct (consistent tl tx); cbn [negb]; reflexivity.
Qed.

Lemma b2n_b2z : forall b : bool, Z.of_nat (if b then 1%nat else 0%nat) = if b then 1 else 0.
Proof. intros []; reflexivity. Qed.

Lemma credits_delta : forall cfg c ci tl g x0 l' x' g',
  conn_info cfg c = Some ci -> c_local ci = Some tl -> observer_of (c_remote ci) = Some g ->
  (if credits cfg l' x' g' (c, x0) then 1 else 0) = delta (tw_id tl) x0 g l' x' g'.
Proof.
  intros cfg c ci tl g x0 l' x' g' H1 H2 H3. unfold credits, delta. cbn [fst snd].
  rewrite H1, H2, H3.
  destruct (x0 =? x'), (tw_id tl =? l'), (observer_eqb g g'); reflexivity.
Qed.

Lemma filter_set_count : forall (f : Z * Z -> bool) c x co,
  length (filter f (set Z.eqb c x co)) =
  ((if f (c, x) then 1 else 0) + length (filter f (del Z.eqb c co)))%nat.
Proof. intros. unfold set. cbn [filter]. destruct (f (c, x)); reflexivity. Qed.

(* the step lemmas *)
Lemma Inv_mark : forall cfg st m c, Inv cfg st m ->
  Inv cfg (mark_closed st c) (mkMon (m_cred m) (mon_close (m_closed m) c)).
Proof.
  intros cfg st m c [Hcl Hcr Hval Hnd Hwf Hcnt].
    constructor; cbn [mark_closed ext cobs closed m_cred m_closed]; try assumption.
    unfold mon_close. rewrite Hcl. reflexivity.
Qed.

(* removeConn: the connection's credit is withdrawn, nothing else changes *)
Lemma Inv_remove : forall cfg st m c, Inv cfg st m ->
  Inv cfg (remove_conn cfg st c) (mkMon (del Z.eqb c (m_cred m)) (m_closed m)).
Proof.
  intros cfg st m c [Hcl Hcr Hval Hnd Hwf Hcnt].
    unfold remove_conn.
    pose proof Hcl as Hcl'.
    destruct (get Z.eqb c (cobs st)) as [x|] eqn:Eg.
    + pose proof (Hval c x (get_In Z.eqb zeqb_spec _ _ _ Eg)) as [ci [tl [g [Eci [Eloc Eobs]]]]].
      rewrite Eci, Eloc, Eobs.
      assert (Hpos : 1 <= cnt (ext st) (tw_id tl) x g).
      { rewrite Hcnt. rewrite (count_del Z.eqb zeqb_spec _ c x (cobs st) Hnd Eg).
        pose proof (credits_delta cfg c ci tl g x (tw_id tl) x g Eci Eloc Eobs) as D.
        unfold delta in D. rewrite !Z.eqb_refl in D.
        rewrite (proj2 (observer_eqb_spec g g) eq_refl) in D. cbn [andb] in D.
        destruct (credits cfg (tw_id tl) x g (c, x)); [lia|discriminate]. }
      constructor; cbn [ext cobs closed m_cred m_closed].
      * exact Hcl'.
      * rewrite cred_of_del, <- Hcr. reflexivity.
      * intros c2 x2 H. apply (In_del Z.eqb zeqb_spec) in H. apply (Hval c2 x2), H.
      * apply (NoDup_keys_del Z.eqb zeqb_spec), Hnd.
      * apply wf_ext_remove, Hwf.
      * intros l' x' g'. rewrite cnt_remove by exact Hpos. rewrite Hcnt.
        rewrite (count_del Z.eqb zeqb_spec (credits cfg l' x' g') c x (cobs st) Hnd Eg).
        rewrite Nat2Z.inj_add, b2n_b2z.
        rewrite (credits_delta cfg c ci tl g x l' x' g' Eci Eloc Eobs). lia.
    + assert (Hnot : ~ In c (keys (cobs st))) by (apply (get_None_notin Z.eqb zeqb_spec), Eg).
      constructor; cbn [ext cobs closed m_cred m_closed]; try assumption.
      rewrite Hcr, <- cred_of_del, (del_notin Z.eqb zeqb_spec c (cobs st) Hnot). reflexivity.
Qed.

Lemma Inv_disconnect : forall cfg st m c, Inv cfg st m ->
  Inv cfg (disconnect cfg st c) (mon_disconnect m c).
Proof.
  intros cfg st m c HI. unfold disconnect, mon_disconnect.
  apply (Inv_remove cfg (mark_closed st c) (mkMon (m_cred m) (mon_close (m_closed m) c)) c).
  apply Inv_mark, HI.
Qed.

Lemma Inv_observe : forall cfg st m c oa, Inv cfg st m ->
  Inv cfg (record cfg st c oa) (mon_observe cfg m c oa).
Proof.
  intros cfg st m c oa HI. pose proof HI as [Hcl Hcr Hval Hnd Hwf Hcnt]. unfold mon_observe.
    rewrite Hcl. pose proof (record_counts cfg st c oa) as R.
    destruct (counts cfg (closed st) c oa) as [[l x]|].
    2:{ rewrite R. destruct (withdraws cfg c oa); [rewrite <- Hcl; apply Inv_remove, HI|exact HI]. }
    destruct R as [ci [tl [g [Eci [Eloc [El [Eobs R]]]]]]]. rewrite R. clear R.
    assert (Eltw : ltw_of cfg c = l) by (unfold ltw_of; rewrite Eci, Eloc; exact El).
    rewrite Hcr, get_cred_of.
    destruct (get Z.eqb c (cobs st)) as [prev|] eqn:Eg; cbn [option_map].
    + rewrite Eltw. unfold pair_eqb. cbn [fst snd]. rewrite Z.eqb_refl. cbn [andb].
      destruct (prev =? x) eqn:Epx; [constructor; assumption|].
      assert (Hpos : 1 <= cnt (ext st) l prev g).
      { rewrite Hcnt. rewrite (count_del Z.eqb zeqb_spec _ c prev (cobs st) Hnd Eg).
        pose proof (credits_delta cfg c ci tl g prev l prev g Eci Eloc Eobs) as D.
        unfold delta in D. rewrite El, !Z.eqb_refl in D.
        rewrite (proj2 (observer_eqb_spec g g) eq_refl) in D. cbn [andb] in D.
        destruct (credits cfg l prev g (c, prev)); [lia|discriminate]. }
      constructor; cbn [ext cobs closed m_cred m_closed].
      * first [exact Hcl|reflexivity].
      * rewrite cred_of_set, Eltw, <- Hcr. reflexivity.
      * intros c2 x2 [H|H].
        -- inversion H. subst. exists ci, tl, g. auto.
        -- apply (In_del Z.eqb zeqb_spec) in H. apply (Hval c2 x2), H.
      * apply (NoDup_keys_set Z.eqb zeqb_spec), Hnd.
      * apply wf_ext_add, wf_ext_remove, Hwf.
      * intros l' x' g'. rewrite cnt_add, cnt_remove by exact Hpos. rewrite Hcnt.
        rewrite filter_set_count.
        rewrite (count_del Z.eqb zeqb_spec (credits cfg l' x' g') c prev (cobs st) Hnd Eg).
        rewrite !Nat2Z.inj_add, !b2n_b2z.
        rewrite (credits_delta cfg c ci tl g x l' x' g' Eci Eloc Eobs).
        rewrite (credits_delta cfg c ci tl g prev l' x' g' Eci Eloc Eobs).
        rewrite El. lia.
    + assert (Hnot : ~ In c (keys (cobs st))) by (apply (get_None_notin Z.eqb zeqb_spec), Eg).
      constructor; cbn [ext cobs closed m_cred m_closed].
      * first [exact Hcl|reflexivity].
      * rewrite cred_of_set, Eltw, <- Hcr. reflexivity.
      * intros c2 x2 [H|H].
        -- inversion H. subst. exists ci, tl, g. auto.
        -- apply (In_del Z.eqb zeqb_spec) in H. apply (Hval c2 x2), H.
      * apply (NoDup_keys_set Z.eqb zeqb_spec), Hnd.
      * apply wf_ext_add, Hwf.
      * intros l' x' g'. rewrite cnt_add, Hcnt, filter_set_count.
        rewrite (del_notin Z.eqb zeqb_spec c (cobs st) Hnot).
        rewrite Nat2Z.inj_add, b2n_b2z.
        rewrite (credits_delta cfg c ci tl g x l' x' g' Eci Eloc Eobs).
        rewrite El. lia.
Qed.

(* the invariant mentions the configuration only through the connection
   universe: a change of the listen set or of the threshold keeps it *)
Lemma Inv_env : forall cfg st m o, Inv cfg st m -> Inv (env_step cfg o) st m.
Proof.
  intros cfg st m o HI. destruct o; cbn [env_step]; try exact HI;
    destruct HI as [Hcl Hcr Hval Hnd Hwf Hcnt]; constructor;
    first [exact Hcl|exact Hcr|exact Hval|exact Hnd|exact Hwf|exact Hcnt].
Qed.

Lemma Inv_step : forall cfg st m o, Inv cfg st m ->
  Inv (env_step cfg o) (step cfg st o) (mon_step cfg m o (fired cfg o)).
Proof.
  intros cfg st m o HI. destruct o as [c oa|c|c|c oa ob|c oa d|ls|n];
    try (apply (Inv_env cfg st m _ HI)); cbn [step mon_step fired env_step].
  - apply Inv_observe, HI.
  - apply Inv_mark, HI.
  - apply Inv_disconnect, HI.
  - apply Inv_observe, Inv_observe, HI.
  - destruct (hook_fires cfg c oa).
    + apply Inv_observe, Inv_disconnect, HI.
    + apply Inv_observe, HI.
Qed.

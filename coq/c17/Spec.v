(* C17 — the property as a decidable predicate over observable traces
   (monitor), and the decoding of correspondence lines.  No proofs here.

   Reading of the property text used by the monitor (nothing more is demanded):
   - a *report* is (connection, observed address); it COUNTS iff the connection
     is open when it arrives, the observed address is not loopback / NAT64 /
     relayed, the connection's local address has a thin waist that is the thin
     waist of a listen address, the observed address has a thin waist of the
     same IP version and tcp/udp kind as the local one, and the remote has an
     IP (otherwise there is no observer to count).
   - a report whose CONTENT never counts (loopback / NAT64 / relayed / no thin
     waist / inconsistent transport / not arriving at a listen address) still
     is the connection's newest report: it withdraws the connection's previous
     report ("withdrawn when it changes") and is itself not credited.  A
     report with countable content on a connection that is already closed, or
     whose remote has no IP, is ignored.
   - a connection vouches for at most one observed thin waist: the last
     counting report; it stops vouching when the connection is disconnected
     ("closes" = the swarm's Disconnected notification).
   - the listen set is what listenAddrs() returns WHEN THE REPORT ARRIVES: it
     may change during a history while connections stay open (op SetListen).
     "Reports on connections not arriving at a listen address never count" is
     judged for every report by the listen set current at that moment - also for
     a connection that is already tracked: its re-report after its listener was
     closed does not count and (being the connection's newest report) withdraws
     the earlier one.  A change of the listen set by itself withdraws nothing:
     the earlier report did arrive at a listen address.
   - "the activation threshold" is the CURRENT value of the exported package
     variable ActivationThresh at the moment of the query (op SetThresh changes
     it after the manager exists): every answer is judged by the value in force
     when it is given.
   - observers of (local thin waist l, observed thin waist x) = the distinct
     observer groups (IPv4 address, or IPv6 /56) of the connections currently
     vouching for x on l.
   - Addrs(0), as a multiset, is covered by the per-local AddrsFor answers of
     the same moment (see check_cover).
   - every address returned by AddrsFor(l/rest) and Addrs(0) has at least
     [thresh] observers for the local thin waist it is returned for; AddrsFor
     returns at most three, in non-increasing order of observers, and no
     unreturned address above the threshold has strictly more observers than a
     returned one. *)
From Coq Require Import List Arith ZArith Bool.
From Verif Require Import lib.Wire c17.Model gen.Consts_c17.
Import ListNotations.
Local Open Scope Z_scope.

(* ---- observer groups: "counted once per IPv4 address or IPv6 /56" --------- *)
(* An IPv6 /56 is the first 56 bits: groups 0..2 and the high byte of group 3.
   An IPv4-mapped IPv6 address (::ffff:a.b.c.d) is the IPv4 address a.b.c.d. *)
Inductive group := G4 (a : Z) | G6 (p0 p1 p2 p3hi : Z).

Definition group_of (r : remote) : option group :=
  match r with
  | R4 a => Some (G4 a)
  | R6 g0 g1 g2 g3 g4 g5 g6 g7 =>
      if is_v4_mapped g0 g1 g2 g3 g4 g5 then Some (G4 (g6 * 65536 + g7))
      else Some (G6 g0 g1 g2 (g3 / 256))
  | RNone => None
  end.

Definition group_eqb (a b : group) : bool :=
  match a, b with
  | G4 x, G4 y => x =? y
  | G6 a0 a1 a2 a3, G6 b0 b1 b2 b3 => (a0 =? b0) && (a1 =? b1) && (a2 =? b2) && (a3 =? b3)
  | _, _ => false
  end.

Fixpoint dedupb {A} (eqb : A -> A -> bool) (l : list A) : list A :=
  match l with
  | [] => []
  | a :: r => if existsb (eqb a) r then dedupb eqb r else a :: dedupb eqb r
  end.

(* ---- monitor state: computed from the operations only ---------------------- *)
Record mon := mkMon {
  m_cred : list (Z * (Z * Z));   (* conn => (local TW, observed TW) it vouches for *)
  m_closed : list Z              (* conns no longer open *)
}.

Definition mon_init : mon := mkMon [] [].

(* does this report count?  returns (local TW, observed TW) *)
Definition counts (cfg : config) (closed : list Z) (c : Z) (oa : obsaddr) : option (Z * Z) :=
  match conn_info cfg c with
  | None => None
  | Some ci =>
    if zmem c closed then None
    else if o_lb oa || o_n64 oa || o_relay oa then None
    else match c_local ci, o_tw oa, group_of (c_remote ci) with
         | Some l, Some x, Some _ =>
             if is_listen_tw cfg (tw_id l) && consistent l x
             then Some (tw_id l, tw_id x) else None
         | _, _, _ => None
         end
  end.

Definition pair_eqb (a b : Z * Z) : bool := (fst a =? fst b) && (snd a =? snd b).

Definition mon_close (cl : list Z) (c : Z) : list Z := if zmem c cl then cl else c :: cl.

(* is the content of the report one that can count at all?  (not loopback /
   NAT64 / relayed; arriving at a listen address's thin waist; observed thin
   waist of the same IP version and tcp/udp kind) *)
Definition content_counts (cfg : config) (ci : conninfo) (oa : obsaddr) : bool :=
  negb (o_lb oa || o_n64 oa || o_relay oa) &&
  match c_local ci, o_tw oa with
  | Some l, Some x => is_listen_tw cfg (tw_id l) && consistent l x
  | _, _ => false
  end.

(* "a connection's report is withdrawn when it changes": a report whose content
   never counts still is the connection's new report, so the previous one is
   withdrawn (and the new one is not credited) *)
Definition withdraws (cfg : config) (c : Z) (oa : obsaddr) : bool :=
  match conn_info cfg c with
  | None => false
  | Some ci => negb (content_counts cfg ci oa)
  end.

Definition mon_observe (cfg : config) (m : mon) (c : Z) (oa : obsaddr) : mon :=
  match counts cfg (m_closed m) c oa with
  | Some lx =>
      match get Z.eqb c (m_cred m) with
      | Some old => if pair_eqb old lx then m   (* the same report again *)
                    else mkMon (set Z.eqb c lx (m_cred m)) (m_closed m)
      | None => mkMon (set Z.eqb c lx (m_cred m)) (m_closed m)
      end
  | None =>
      if withdraws cfg c oa then mkMon (del Z.eqb c (m_cred m)) (m_closed m)
      else m    (* countable content on a closed connection / without observer: ignored *)
  end.

Definition mon_disconnect (m : mon) (c : Z) : mon :=
  mkMon (del Z.eqb c (m_cred m)) (mon_close (m_closed m) c).

(* [f]: for ObserveDuring, whether the scripted disconnect was delivered (an
   action of the environment, recorded by the harness).  If it was, the
   connection d closed before the report was taken in: the report then is one
   on the connections as they are after that disconnect. *)
Definition mon_step (cfg : config) (m : mon) (o : op) (f : bool) : mon :=
  match o with
  | Observe c oa => mon_observe cfg m c oa
  | MarkClosed c => mkMon (m_cred m) (mon_close (m_closed m) c)
  | Disconnect c => mon_disconnect m c
  | ObservePair c oa ob => mon_observe cfg (mon_observe cfg m c oa) c ob   (* the LATEST report is the one that counts *)
  | ObserveDuring c oa d =>
      if f then mon_observe cfg (mon_disconnect m d) c oa else mon_observe cfg m c oa
  | SetListen _ => m   (* a report counted when it arrived at what then was a listen
                          address; the text does not make a later change of the listen
                          set withdraw it.  Later reports are judged by the new set *)
  | SetThresh _ => m
  end.

(* observer groups of the connections vouching for x on l (with repetitions) *)
Definition groups_for (cfg : config) (cred : list (Z * (Z * Z))) (l x : Z) : list group :=
  flat_map (fun e : Z * (Z * Z) =>
              if (fst (snd e) =? l) && (snd (snd e) =? x) then
                match conn_info cfg (fst e) with
                | Some ci => match group_of (c_remote ci) with Some g => [g] | None => [] end
                | None => []
                end
              else []) cred.

(* number of distinct observers *)
Definition nobs (cfg : config) (cred : list (Z * (Z * Z))) (l x : Z) : nat :=
  length (dedupb group_eqb (groups_for cfg cred l x)).

Definition credited_for (cred : list (Z * (Z * Z))) (l : Z) : list Z :=
  map (fun e : Z * (Z * Z) => snd (snd e)) (filter (fun e : Z * (Z * Z) => fst (snd e) =? l) cred).

Fixpoint sorted_desc (l : list nat) : bool :=
  match l with
  | a :: ((b :: _) as r) => Nat.leb b a && sorted_desc r
  | _ => true
  end.

(* one AddrsFor(la) answer *)
Definition check_for (cfg : config) (cred : list (Z * (Z * Z))) (la : laddr) (xs : list Z) : bool :=
  match fst la with
  | None => match xs with [] => true | _ => false end
  | Some l =>
      let n := nobs cfg cred l in
      forallb (fun x => thresh cfg <=? Z.of_nat (n x)) xs
      && Nat.leb (length xs) 3
      && sorted_desc (map n xs)
      && forallb (fun y => zmem y xs
                           || negb (thresh cfg <=? Z.of_nat (n y))
                           || forallb (fun x => Nat.leb (n y) (n x)) xs)
                 (credited_for cred l)
  end.

(* the Addrs(0) answer: every element is an observed thin waist above the
   threshold for a listen address whose rest it carries; never more than
   three per listen address in total *)
Definition check_all (cfg : config) (cred : list (Z * (Z * Z))) (ys : list (Z * Z)) : bool :=
  forallb (fun y : Z * Z =>
             existsb (fun la : laddr =>
                        match fst la with
                        | Some l => (snd la =? snd y) && (thresh cfg <=? Z.of_nat (nobs cfg cred l (fst y)))
                        | None => false
                        end) (listen cfg)) ys
  && Nat.leb (length ys) (3 * length (listen cfg)).

Fixpoint check_fors (cfg : config) (cred : list (Z * (Z * Z))) (i : Z)
         (qs : list laddr) (fs : list (list Z)) : list Z :=
  match qs, fs with
  | [], [] => []
  | q :: qr, f :: fr => if check_for cfg cred q f then check_fors cfg cred (i + 1) qr fr else [i]
  | _, _ => [-2]
  end.

(* Addrs(0) per local address.  The flat list carries no attribution of its
   elements to local addresses; the attribution used is the implementation's own
   per-local answers of the same moment (each of them judged in full by
   check_for: threshold, at most three, most-observed first): as a multiset,
   Addrs(0) must be covered by the union, over the distinct listen addresses
   la, of AddrsFor(la) joined with la's rest.  So Addrs(0) reports for no local
   address more than (at most three, judged) AddrsFor reports for it.
   Applied when every listen address is among the queried ones. *)
Definition answer_for (qs : list laddr) (fs : list (list Z)) (la : laddr) : list Z :=
  match find (fun q : laddr * list Z => laddr_eqb (fst q) la) (combine qs fs) with
  | Some (_, xs) => xs
  | None => []
  end.

Fixpoint remove_one (y : Z * Z) (l : list (Z * Z)) : option (list (Z * Z)) :=
  match l with
  | [] => None
  | a :: r => if pair_eqb y a then Some r
              else match remove_one y r with Some r' => Some (a :: r') | None => None end
  end.

Fixpoint sub_ms (ys expect : list (Z * Z)) : bool :=
  match ys with
  | [] => true
  | y :: r => match remove_one y expect with
              | Some e' => sub_ms r e'
              | None => false
              end
  end.

Definition check_cover (cfg : config) (fs : list (list Z)) (ys : list (Z * Z)) : bool :=
  let las := dedup_laddr [] (listen cfg) in
  if forallb (fun la => existsb (laddr_eqb la) (queries cfg)) las then
    sub_ms ys (flat_map (fun la : laddr => map (fun x => (x, snd la)) (answer_for (queries cfg) fs la)) las)
  else true.

(* [] = fine; [i] = AddrsFor of query i violates; [-1] = Addrs(0) violates
   (membership / size); [-3] = Addrs(0) not covered by the per-local answers *)
Definition mon_check (cfg : config) (m : mon) (ob : obs) : list Z :=
  match check_fors cfg (m_cred m) 0 (queries cfg) (o_for ob) with
  | [] => if check_all cfg (m_cred m) (o_all ob) then
            (if check_cover cfg (o_for ob) (o_all ob) then [] else [-3])
          else [-1]
  | d => d
  end.

Fixpoint mon_run (cfg : config) (m : mon) (i : Z) (tr : list (op * obs)) : list Z :=
  match tr with
  | [] => []
  | (o, ob) :: r =>
      let m' := mon_step cfg m o (o_fired ob) in
      let cfg' := env_step cfg o in   (* the listen set / threshold in force from now on *)
      match mon_check cfg' m' ob with
      | [] => mon_run cfg' m' (i + 1) r
      | d => ERR_PROPERTY :: i :: d
      end
  end.

Definition holds (cfg : config) (tr : list (op * obs)) : bool :=
  match mon_run cfg mon_init 0 tr with [] => true | _ => false end.

(* ---- conformance: the model replayed against the observations ---------------- *)
Definition obs_eqb (a b : obs) : bool :=
  list_eqb (list_eqb Z.eqb) (o_for a) (o_for b) && list_eqb pair_eqb (o_all a) (o_all b)
  && Bool.eqb (o_fired a) (o_fired b).

Fixpoint first_for_diff (i : Z) (a b : list (list Z)) : Z :=
  match a, b with
  | x :: ra, y :: rb => if list_eqb Z.eqb x y then first_for_diff (i + 1) ra rb else i
  | [], [] => -1
  | _, _ => -2
  end.

Fixpoint conform_run (cfg : config) (st : state) (i : Z) (tr : list (op * obs)) : list Z :=
  match tr with
  | [] => []
  | (o, ob) :: r =>
      let st' := step cfg st o in
      let cfg' := env_step cfg o in
      let mo := observe cfg' st' (fired cfg o) in
      if obs_eqb mo ob then conform_run cfg' st' (i + 1) r
      else [ERR_MISMATCH; i; first_for_diff 0 (o_for mo) (o_for ob)]
  end.

(* ---- wire format ---------------------------------------------------------------
   case  := 17 thresh mode  nL laddr{nL}  nQ laddr{nQ}  nC conn{nC}  step*
   mode  := 0: the harness called maybeRecordObservation/removeConn directly;
            1: through the event bus, worker and network notifiee (same meaning;
               recorded so that a replay re-executes the same way)
   laddr := ltw rest            ltw = -1: the address has no thin-waist form;
                                rest = id of the multiaddr after the thin waist
   conn  := ltw lfam lproto dir rkind r0 r1 r2 r3 r4 r5 r6 r7
            local address: thin-waist id (-1 = none), family 4|6, 6 = tcp | 17 = udp
            dir: what conn.Stat().Direction answers, 1 = inbound, 2 = outbound (a dial
                 that leaves from the listen socket has a listen address as its local
                 address).  The property does not mention the direction: the model
                 and the monitor ignore it; it is recorded so that a replay
                 re-executes the same connection
            remote IP: rkind 4: r0 = the IPv4 address as a number;
                       rkind 6: r0..r7 = the eight 16-bit groups; rkind 0: no IP
   step  := op observation
   op    := 1 c lb n64 relay otw ofam oproto   maybeRecordObservation(conn c, observed)
                          otw = id of the observed thin waist (-1 = none); the ids
                          of observed thin waists are their rank under Multiaddr.Compare
          | 2 c                                 conn c: IsClosed() becomes true
          | 3 c                                 conn c: IsClosed() true and removeConn(c)
          | 4 c lb n64 relay otw ofam oproto d fired
                          as op 1, with a hook on the listenAddrs() call made inside
                          shouldRecordObservation: there conn d gets IsClosed() true and
                          removeConn(d) is delivered; fired = 1 iff the hook was reached
          | 5 c (lb n64 relay otw ofam oproto){2}
                          two reports of conn c, in this order; on the event-bus path the
                          first is held inside shouldRecordObservation (at listenAddrs())
                          until the second has been queued, then released
          | 6 nL laddr{nL}                      from now on listenAddrs() returns these
                          (connections stay open, the manager is not told)
          | 7 n                                 ActivationThresh = n from now on
   observation := (k x_1..x_k){nQ}   AddrsFor(query_j) as observed thin-waist ids
                                      (-9 = an address the harness cannot attribute)
                  k (x rest){k}      Addrs(0)
   ActivationThresh is set to [thresh] by the harness BEFORE the manager is
   constructed (and by op 7 afterwards; restored at the end of the case); the
   cap is the regenerated constant maxExternalThinWaistAddrsPerLocalAddr. *)

Definition laddr_of (a b : Z) : laddr := (if a <? 0 then None else Some a, b).

Fixpoint take_pairs (n : nat) (l : list Z) : option (list (Z * Z) * list Z) :=
  match n with
  | O => Some ([], l)
  | S n' =>
    match l with
    | a :: b :: r =>
        match take_pairs n' r with
        | Some (ps, r') => Some ((a, b) :: ps, r')
        | None => None
        end
    | _ => None
    end
  end.

Definition take_counted_pairs (l : list Z) : option (list (Z * Z) * list Z) :=
  match l with
  | k :: r => if k <? 0 then None else take_pairs (Z.to_nat k) r
  | [] => None
  end.

Definition remote_of (rk r0 r1 r2 r3 r4 r5 r6 r7 : Z) : remote :=
  if rk =? 4 then R4 r0 else if rk =? 6 then R6 r0 r1 r2 r3 r4 r5 r6 r7 else RNone.

Definition tw_of (id fam proto : Z) : option tw :=
  if id <? 0 then None else Some (mkTW id fam proto).

Fixpoint take_conns (n : nat) (l : list Z) : option (list conninfo * list Z) :=
  match n with
  | O => Some ([], l)
  | S n' =>
    match l with
    | lt :: lf :: lp :: _dir :: rk :: r0 :: r1 :: r2 :: r3 :: r4 :: r5 :: r6 :: r7 :: r =>
        match take_conns n' r with
        | Some (cs, r') =>
            Some (mkConn (tw_of lt lf lp) (remote_of rk r0 r1 r2 r3 r4 r5 r6 r7) :: cs, r')
        | None => None
        end
    | _ => None
    end
  end.

Definition take_list (l : list Z) : option (list Z * list Z) :=
  match l with
  | k :: r => if (0 <=? k) && (k <=? zlen r) then Some (ztake k r, zdrop k r) else None
  | [] => None
  end.

Fixpoint take_lists (n : nat) (l : list Z) : option (list (list Z) * list Z) :=
  match n with
  | O => Some ([], l)
  | S n' =>
    match take_list l with
    | Some (x, r) =>
        match take_lists n' r with
        | Some (xs, r') => Some (x :: xs, r')
        | None => None
        end
    | None => None
    end
  end.

Definition take_obs (nq : nat) (f : bool) (l : list Z) : option (obs * list Z) :=
  match take_lists nq l with
  | Some (fs, r) =>
      match take_counted_pairs r with
      | Some (ps, r') => Some (mkO fs ps f, r')
      | None => None
      end
  | None => None
  end.

Definition take_op (l : list Z) : option (op * bool * list Z) :=
  match l with
  | 1 :: c :: lb :: n64 :: rl :: ot :: ofam :: opr :: r =>
      Some (Observe c (mkObs (zbool lb) (zbool n64) (zbool rl) (tw_of ot ofam opr)), false, r)
  | 2 :: c :: r => Some (MarkClosed c, false, r)
  | 3 :: c :: r => Some (Disconnect c, false, r)
  | 5 :: c :: lb :: n64 :: rl :: ot :: ofam :: opr :: lb2 :: n642 :: rl2 :: ot2 :: ofam2 :: opr2 :: r =>
      Some (ObservePair c (mkObs (zbool lb) (zbool n64) (zbool rl) (tw_of ot ofam opr))
                          (mkObs (zbool lb2) (zbool n642) (zbool rl2) (tw_of ot2 ofam2 opr2)), false, r)
  | 4 :: c :: lb :: n64 :: rl :: ot :: ofam :: opr :: d :: f :: r =>
      Some (ObserveDuring c (mkObs (zbool lb) (zbool n64) (zbool rl) (tw_of ot ofam opr)) d, zbool f, r)
  | 6 :: r =>
      match take_counted_pairs r with
      | Some (ls, r') => Some (SetListen (map (fun p : Z * Z => laddr_of (fst p) (snd p)) ls), false, r')
      | None => None
      end
  | 7 :: n :: r => Some (SetThresh n, false, r)
  | _ => None
  end.

Fixpoint decode_steps (nq : nat) (fuel : nat) (l : list Z) : option (list (op * obs)) :=
  match fuel with
  | O => None
  | S f =>
    match l with
    | [] => Some []
    | _ =>
      match take_op l with
      | Some (o, fl, r) =>
          match take_obs nq fl r with
          | Some (ob, r') =>
              match decode_steps nq f r' with
              | Some t => Some ((o, ob) :: t)
              | None => None
              end
          | None => None
          end
      | None => None
      end
    end
  end.

Definition the_cap : nat := Z.to_nat maxExternalThinWaistAddrsPerLocalAddr.

Definition decode_case (l : list Z) : option (config * list (op * obs)) :=
  match l with
  | 17 :: th :: _mode :: r =>
      match take_counted_pairs r with
      | Some (ls, r1) =>
          match take_counted_pairs r1 with
          | Some (qs, nc :: r2) =>
              if nc <? 0 then None else
              match take_conns (Z.to_nat nc) r2 with
              | Some (cs, r3) =>
                  let lq := map (fun p : Z * Z => laddr_of (fst p) (snd p)) in
                  match decode_steps (length qs) (S (length r3)) r3 with
                  | Some tr => Some (mkCfg th the_cap (lq ls) (lq qs) cs, tr)
                  | None => None
                  end
              | None => None
              end
          | _ => None
          end
      | None => None
      end
  | _ => None
  end.

(* ---- host level ---------------------------------------------------------------
   Monitor clause: an observed address appears in a view of the host
   (DirectAddrs/AllAddrs, Addrs, HolePunchAddrs) only while the observed address
   manager currently reports it (AddrsFor of a listen address; for the
   hole-punching view also Addrs(1), which that view includes by design).

   host case := 18 mode thresh nconn  nX (pub hidden){nX}  hstep*
     mode 0: plain host; 1: autonat-v1 reachability Private with a relay address
     hidden = 1: the AddrsFactory of the case removes this address
   hstep := op c a  (inM0 inM1 inDirect inAddrs inHole){nX}
     op 1: conn c reports tracked address a (a = nX: a loopback address) through
           the event bus; op 3: conn c disconnects; then updateAddrsSync; then
           for every tracked address what the manager answers NOW and the views. *)
Definition host_ok (inM0 inM1 : bool) (v : hview) : bool :=
  implb (hv_direct v) inM0 && implb (hv_addrs v) inM0 && implb (hv_hole v) (inM0 || inM1).

Definition hview_eqb (a b : hview) : bool :=
  Bool.eqb (hv_direct a) (hv_direct b) && Bool.eqb (hv_addrs a) (hv_addrs b)
  && Bool.eqb (hv_hole a) (hv_hole b).

Definition hrow := list (hostx * (bool * bool) * hview).

Fixpoint hrow_first_bad (f : hostx -> bool -> bool -> hview -> bool) (j : Z) (row : hrow) : list Z :=
  match row with
  | [] => []
  | (x, (m0, m1), v) :: r => if f x m0 m1 v then hrow_first_bad f (j + 1) r else [j]
  end.

Fixpoint hrun (f : hostx -> bool -> bool -> hview -> bool) (code : Z) (i : Z) (rows : list hrow) : list Z :=
  match rows with
  | [] => []
  | row :: r =>
      match hrow_first_bad f 100 row with
      | [] => hrun f code (i + 1) r
      | d => code :: i :: d
      end
  end.

Definition host_monitor (rows : list hrow) : list Z :=
  hrun (fun _ m0 m1 v => host_ok m0 m1 v) ERR_PROPERTY 0 rows.

Definition host_conform (priv : bool) (rows : list hrow) : list Z :=
  hrun (fun x m0 m1 v => hview_eqb (host_view priv x m0 m1) v) ERR_MISMATCH 0 rows.

(* the model's rows for given manager answers *)
Definition host_model_rows (priv : bool) (ins : list (list (hostx * (bool * bool)))) : list hrow :=
  map (map (fun p : hostx * (bool * bool) =>
              (fst p, snd p, host_view priv (fst p) (fst (snd p)) (snd (snd p))))) ins.

Fixpoint take_hx (n : nat) (l : list Z) : option (list hostx * list Z) :=
  match n with
  | O => Some ([], l)
  | S n' =>
    match l with
    | p :: h :: r =>
        match take_hx n' r with
        | Some (xs, r') => Some (mkHX (zbool p) (zbool h) :: xs, r')
        | None => None
        end
    | _ => None
    end
  end.

Fixpoint take_hrow (xs : list hostx) (l : list Z) : option (hrow * list Z) :=
  match xs with
  | [] => Some ([], l)
  | x :: xr =>
    match l with
    | a :: b :: c :: d :: e :: r =>
        match take_hrow xr r with
        | Some (row, r') => Some ((x, (zbool a, zbool b), mkHV (zbool c) (zbool d) (zbool e)) :: row, r')
        | None => None
        end
    | _ => None
    end
  end.

Fixpoint decode_hsteps (xs : list hostx) (fuel : nat) (l : list Z) : option (list hrow) :=
  match fuel with
  | O => None
  | S f =>
    match l with
    | [] => Some []
    | _ :: _ :: _ :: r =>
        match take_hrow xs r with
        | Some (row, r') =>
            match decode_hsteps xs f r' with
            | Some t => Some (row :: t)
            | None => None
            end
        | None => None
        end
    | _ => None
    end
  end.

Definition decode_host (l : list Z) : option (bool * list hrow) :=
  match l with
  | 18 :: mode :: _ :: _ :: nx :: r =>
      if nx <? 0 then None else
      match take_hx (Z.to_nat nx) r with
      | Some (xs, r1) =>
          match decode_hsteps xs (S (length r1)) r1 with
          | Some rows => Some (mode =? 1, rows)
          | None => None
          end
      | None => None
      end
  | _ => None
  end.

Definition conform_case (l : list Z) : list Z :=
  match decode_case l with
  | Some (cfg, tr) => conform_run cfg init_state 0 tr
  | None =>
      match decode_host l with
      | Some (priv, rows) => host_conform priv rows
      | None => [ERR_MALFORMED; 0]
      end
  end.

Definition monitor_case (l : list Z) : list Z :=
  match decode_case l with
  | Some (cfg, tr) => mon_run cfg mon_init 0 tr
  | None =>
      match decode_host l with
      | Some (_, rows) => host_monitor rows
      | None => [ERR_MALFORMED; 0]
      end
  end.
